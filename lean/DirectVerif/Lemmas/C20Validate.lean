import DirectVerif.Model.Config
/-!
# C20 — lemmas that specify the checker `validate` (and the plumbing lemmas of `checkConfig`)

`WellTyped ty v` is the relational specification of what `OmegaConf.merge(structured(ty), v)` accepts:
MISSING anywhere; `null` exactly at optional / `Any` positions; a map at an `Any` position, or at a dataclass
position when every key is a declared field and its value is well typed at the field's type; a list at an `Any`
position, or at a `List[T]` position when every *scalar* element is well typed at `T` (container elements are
appended unchecked by OmegaConf's list merge); a scalar according to the conversion table of the value nodes
(`validateScalar`, characterised case by case below).
-/
namespace DirectVerif.Config

/-! ## plumbing -/

theorem configOk_iff {t : Tables} {file : Val} : configOk t file = true ↔ checkConfig t file = .ok () := by
  unfold configOk
  split <;> simp_all

theorem checkConfig_ok_iff {t : Tables} {file : Val} :
    checkConfig t file = .ok () ↔
      mergeCheck t file = .ok () ∧ operatorsCheck t file = .ok () ∧ engineCheck t file = .ok () ∧
        blocksCheck t file = .ok () := by
  unfold checkConfig
  cases h1 : mergeCheck t file with
  | error e => simp
  | ok u =>
    cases u
    cases h2 : operatorsCheck t file with
    | error e => simp
    | ok u =>
      cases u
      cases h3 : engineCheck t file with
      | error e => simp
      | ok u =>
        cases u
        cases h4 : blocksCheck t file with
        | error e => simp
        | ok u => cases u; simp

/-! ## scalar conversion table, case by case -/

theorem validateScalar_int_iff (v : Val) :
    validateScalar .int v = .ok () ↔
      v = .missing ∨ (∃ i, v = .int i) ∨ (∃ s k, v = .str s k ∧ k % 2 = 1) := by
  cases v <;> simp [validateScalar]
  exact ⟨fun h => ⟨_, _, ⟨rfl, rfl⟩, h⟩, fun ⟨_, _, ⟨h1, h2⟩, h⟩ => by subst h1 h2; exact h⟩

theorem validateScalar_float_iff (v : Val) :
    validateScalar .float v = .ok () ↔
      v = .missing ∨ (∃ i, v = .int i) ∨ (∃ r, v = .float r) ∨ (∃ s k, v = .str s k ∧ k / 2 % 2 = 1) := by
  cases v <;> simp [validateScalar]
  exact ⟨fun h => ⟨_, _, ⟨rfl, rfl⟩, h⟩, fun ⟨_, _, ⟨h1, h2⟩, h⟩ => by subst h1 h2; exact h⟩

theorem validateScalar_bool_iff (v : Val) :
    validateScalar .bool v = .ok () ↔
      v = .missing ∨ (∃ b, v = .bool b) ∨ (∃ i, v = .int i) ∨
        (∃ s k, v = .str s k ∧ (k % 2 = 1 ∨ k / 4 % 2 = 1)) := by
  cases v <;> simp [validateScalar]
  exact ⟨fun h => ⟨_, _, ⟨rfl, rfl⟩, by omega⟩, fun ⟨_, _, ⟨h1, h2⟩, h⟩ => by subst h1 h2; omega⟩

theorem validateScalar_str_iff (v : Val) :
    validateScalar .str v = .ok () ↔
      v = .missing ∨ (∃ i, v = .int i) ∨ (∃ r, v = .float r) ∨ (∃ b, v = .bool b) ∨ (∃ s k, v = .str s k) := by
  cases v <;> simp [validateScalar]

theorem validateScalar_enum_iff (names : List Sym) (vals : List Int) (v : Val) :
    validateScalar (.enum names vals) v = .ok () ↔
      v = .missing ∨ (∃ s k, v = .str s k ∧ s ∈ names) ∨ (∃ i, v = .int i ∧ i ∈ vals) := by
  cases v <;> simp [validateScalar]

/-- enum members are matched by *name*, case-sensitively: a string that is not one of the names is rejected -/
theorem validateScalar_enum_rejects (names : List Sym) (vals : List Int) (s : Sym) (k : Nat) (h : s ∉ names) :
    validateScalar (.enum names vals) (.str s k) = .error .validationError := by
  simp [validateScalar, h]

/-! ## the relational specification -/

def Val.isScalar : Val → Bool
  | .int _ => true
  | .float _ => true
  | .bool _ => true
  | .str _ _ => true
  | _ => false

mutual
inductive WellTyped : Ty → Val → Prop
  | missing (ty : Ty) : WellTyped ty .missing
  | null (ty : Ty) : ty.isOptional = true → WellTyped ty .null
  | anyMap (ty : Ty) (kvs : List (Sym × Val)) : ty.core = .any → WellTyped ty (.map kvs)
  | struct (ty : Ty) (cls : Sym) (fields : List (Sym × Ty × Val)) (kvs : List (Sym × Val)) :
      ty.core = .struct cls fields → FieldsTyped fields kvs → WellTyped ty (.map kvs)
  | anyList (ty : Ty) (xs : List Val) : ty.core = .any → WellTyped ty (.list xs)
  | list (ty e : Ty) (xs : List Val) : ty.core = .list e → ElemsTyped e xs → WellTyped ty (.list xs)
  | scalar (ty : Ty) (v : Val) : v.isScalar = true → validateScalar ty.core v = .ok () → WellTyped ty v
inductive FieldsTyped : List (Sym × Ty × Val) → List (Sym × Val) → Prop
  | nil (fields : List (Sym × Ty × Val)) : FieldsTyped fields []
  | cons (fields : List (Sym × Ty × Val)) (k : Sym) (v : Val) (rest : List (Sym × Val)) (t : Ty) (d : Val) :
      lookup k fields = some (t, d) → WellTyped t v → FieldsTyped fields rest → FieldsTyped fields ((k, v) :: rest)
inductive ElemsTyped : Ty → List Val → Prop
  | nil (e : Ty) : ElemsTyped e []
  | consList (e : Ty) (xs rest : List Val) : ElemsTyped e rest → ElemsTyped e (.list xs :: rest)
  | consMap (e : Ty) (kvs : List (Sym × Val)) (rest : List Val) : ElemsTyped e rest → ElemsTyped e (.map kvs :: rest)
  | consOther (e : Ty) (x : Val) (rest : List Val) :
      x.isContainer = false → WellTyped e x → ElemsTyped e rest → ElemsTyped e (x :: rest)
end

/-! ## unknown keys -/

theorem validateKVs_append_unknown (fields : List (Sym × Ty × Val)) (pre post : List (Sym × Val)) (k : Sym) (v : Val)
    (hk : lookup k fields = none) (hpre : validateKVs fields pre = .ok ()) :
    validateKVs fields (pre ++ (k, v) :: post) = .error .configKeyError := by
  induction pre with
  | nil => rw [List.nil_append, validateKVs, hk]
  | cons p pre ih =>
    obtain ⟨k', v'⟩ := p
    rw [List.cons_append, validateKVs]
    rw [validateKVs] at hpre
    split
    · rfl
    · rename_i t d hl
      rw [hl] at hpre
      simp only at hpre
      split
      · rename_i hn
        rw [if_pos hn] at hpre
        cases hpre
      · rename_i hn
        rw [if_neg hn] at hpre
        split
        · rename_i hv
          rw [hv] at hpre
          exact ih hpre
        · rename_i e hv
          rw [hv] at hpre
          cases hpre

theorem validate_rejects_unknown_key (cls : Sym) (fields : List (Sym × Ty × Val)) (pre post : List (Sym × Val))
    (k : Sym) (v : Val) (hk : lookup k fields = none) (hpre : validateKVs fields pre = .ok ()) :
    validate (.struct cls fields) (.map (pre ++ (k, v) :: post)) = .error .configKeyError := by
  rw [validate]
  simp only [Ty.core]
  exact validateKVs_append_unknown fields pre post k v hk hpre

/-! ## `validate` accepts exactly the well-typed trees -/

theorem Res.ok_eq (r : Res) : (∃ u, r = .ok u) ↔ r = .ok () := by
  constructor
  · rintro ⟨u, h⟩; cases u; exact h
  · intro h; exact ⟨(), h⟩

/-- the one place where the *class* of the rejection depends on the current value of the destination: never an accepted tree -/
theorem listIntoNoneStruct_not_wellTyped (t : Ty) (d v : Val) (h : listIntoNoneStruct t d v = true) : ¬ WellTyped t v := by
  intro hw
  unfold listIntoNoneStruct at h
  split at h
  · rename_i xs c f hc
    cases hw with
    | anyList _ _ ha => rw [hc] at ha; cases ha
    | list _ e _ hl _ => rw [hc] at hl; cases hl
    | scalar _ _ hs _ => simp [Val.isScalar] at hs
  · cases h

macro "elems_unfold" : tactic =>
  `(tactic| (rw [validateElems] <;> first | (intro _ h; cases h) | (split <;> rfl) | rfl))

/-- one step of `validateElems` on a non-container element -/
theorem elems_step (e : Ty) (x : Val) (rest : List Val) (hc : x.isContainer = false)
    (hstep : validateElems e (x :: rest) =
      match validate e x with
      | .ok () => validateElems e rest
      | .error err => .error err)
    (hx : validate e x = .ok () ↔ WellTyped e x) (hr : validateElems e rest = .ok () ↔ ElemsTyped e rest) :
    validateElems e (x :: rest) = .ok () ↔ ElemsTyped e (x :: rest) := by
  rw [hstep]
  constructor
  · intro h
    split at h
    · rename_i hv; exact .consOther e x rest hc (hx.mp hv) (hr.mp h)
    · cases h
  · intro h
    cases h with
    | consList _ _ _ _ => simp [Val.isContainer] at hc
    | consMap _ _ _ _ => simp [Val.isContainer] at hc
    | consOther _ _ _ _ hv hr' => simp only [hx.mpr hv]; exact hr.mpr hr'

mutual
theorem validate_ok_iff (ty : Ty) (v : Val) : validate ty v = .ok () ↔ WellTyped ty v := by
  match v with
  | .missing =>
    rw [validate]; exact ⟨fun _ => .missing ty, fun _ => rfl⟩
  | .null =>
    rw [validate]
    constructor
    · intro h
      by_cases ho : ty.isOptional = true
      · exact .null ty ho
      · simp [ho] at h
    · intro h
      cases h with
      | null _ ho => simp [ho]
      | scalar _ _ hs _ => simp [Val.isScalar] at hs
  | .map kvs =>
    rw [validate]
    constructor
    · intro h
      split at h
      · rename_i hc; exact .anyMap ty kvs hc
      · rename_i cls fields hc; exact .struct ty cls fields kvs hc ((validateKVs_ok_iff fields kvs).mp h)
      · cases h
      · cases h
    · intro h
      cases h with
      | anyMap _ _ hc => simp [hc]
      | struct _ cls fields _ hc hf => simp only [hc]; exact (validateKVs_ok_iff fields kvs).mpr hf
      | scalar _ _ hs _ => simp [Val.isScalar] at hs
  | .list xs =>
    rw [validate]
    constructor
    · intro h
      split at h
      · rename_i hc; exact .anyList ty xs hc
      · rename_i e hc; exact .list ty e xs hc ((validateElems_ok_iff e xs).mp h)
      · cases h
    · intro h
      cases h with
      | anyList _ _ hc => simp [hc]
      | list _ e _ hc he => simp only [hc]; exact (validateElems_ok_iff e xs).mpr he
      | scalar _ _ hs _ => simp [Val.isScalar] at hs
  | .int i =>
    rw [validate]
    exact ⟨fun h => .scalar ty _ rfl h, fun h => by cases h with | scalar _ _ _ h => exact h⟩
  | .float r =>
    rw [validate]
    exact ⟨fun h => .scalar ty _ rfl h, fun h => by cases h with | scalar _ _ _ h => exact h⟩
  | .bool b =>
    rw [validate]
    exact ⟨fun h => .scalar ty _ rfl h, fun h => by cases h with | scalar _ _ _ h => exact h⟩
  | .str s k =>
    rw [validate]
    exact ⟨fun h => .scalar ty _ rfl h, fun h => by cases h with | scalar _ _ _ h => exact h⟩
termination_by structural v

theorem validateKVs_ok_iff (fields : List (Sym × Ty × Val)) (kvs : List (Sym × Val)) :
    validateKVs fields kvs = .ok () ↔ FieldsTyped fields kvs := by
  match kvs with
  | [] => rw [validateKVs]; exact ⟨fun _ => .nil fields, fun _ => rfl⟩
  | (k, v) :: rest =>
    rw [validateKVs]
    constructor
    · intro h
      split at h
      · cases h
      · rename_i t d hl
        split at h
        · cases h
        · split at h
          · rename_i hv
            exact .cons fields k v rest t d hl ((validate_ok_iff t v).mp hv) ((validateKVs_ok_iff fields rest).mp h)
          · cases h
    · intro h
      cases h with
      | cons _ _ _ _ t d hl hv hr =>
        have hn : listIntoNoneStruct t d v = false := by
          cases hb : listIntoNoneStruct t d v with
          | false => rfl
          | true => exact absurd hv (listIntoNoneStruct_not_wellTyped t d v hb)
        simp only [hl, hn, (validate_ok_iff t v).mpr hv]
        exact (validateKVs_ok_iff fields rest).mpr hr
termination_by structural kvs

theorem validateElems_ok_iff (e : Ty) (xs : List Val) : validateElems e xs = .ok () ↔ ElemsTyped e xs := by
  match xs with
  | [] => rw [validateElems]; exact ⟨fun _ => .nil e, fun _ => rfl⟩
  | .list ys :: rest =>
    rw [validateElems]
    constructor
    · intro h; exact .consList e ys rest ((validateElems_ok_iff e rest).mp h)
    · intro h
      cases h with
      | consList _ _ _ hr => exact (validateElems_ok_iff e rest).mpr hr
      | consOther _ _ _ hc _ _ => simp [Val.isContainer] at hc
  | .map kvs :: rest =>
    rw [validateElems]
    constructor
    · intro h; exact .consMap e kvs rest ((validateElems_ok_iff e rest).mp h)
    · intro h
      cases h with
      | consMap _ _ _ hr => exact (validateElems_ok_iff e rest).mpr hr
      | consOther _ _ _ hc _ _ => simp [Val.isContainer] at hc
  | .null :: rest => exact elems_step e .null rest rfl (by elems_unfold) (validate_ok_iff e .null) (validateElems_ok_iff e rest)
  | .missing :: rest => exact elems_step e .missing rest rfl (by elems_unfold) (validate_ok_iff e .missing) (validateElems_ok_iff e rest)
  | .int i :: rest => exact elems_step e (.int i) rest rfl (by elems_unfold) (validate_ok_iff e (.int i)) (validateElems_ok_iff e rest)
  | .float r :: rest => exact elems_step e (.float r) rest rfl (by elems_unfold) (validate_ok_iff e (.float r)) (validateElems_ok_iff e rest)
  | .bool b :: rest => exact elems_step e (.bool b) rest rfl (by elems_unfold) (validate_ok_iff e (.bool b)) (validateElems_ok_iff e rest)
  | .str s k :: rest => exact elems_step e (.str s k) rest rfl (by elems_unfold) (validate_ok_iff e (.str s k)) (validateElems_ok_iff e rest)
termination_by structural xs
end

end DirectVerif.Config
