import DirectVerif.Model.MaskInterior
import Mathlib.Tactic.Ring
/-!
Helper lemmas for the integer interiors (k-t grid helpers, CIRCUS perimeter ordering, `_poisson` active lists).
-/
namespace DirectVerif.MaskGeom
open DirectVerif

/-! ### `linear_indices_to_2d_coordinates` on the grid -/

theorem linear2d_grid (n x y : Int) (hn : 0 < n) (hx1 : 1 ≤ x) (hxn : x ≤ n) :
    linear2d ((y - 1) * n + x) n = (x, y) := by
  unfold linear2d
  have hn0 : n ≠ 0 := by omega
  have e1 : (y - 1) * n + x - 1 = (x - 1) + (y - 1) * n := by ring
  have e2 : -((y - 1) * n + x) = (n - x) + (-y) * n := by ring
  rw [e1, e2, Int.add_mul_ediv_right _ _ hn0, Int.add_mul_ediv_right _ _ hn0,
    Int.ediv_eq_zero_of_lt (by omega) (by omega), Int.ediv_eq_zero_of_lt (by omega) (by omega)]
  simp only [Int.zero_add, Int.neg_neg, Prod.mk.injEq, and_true]
  ring

/-- flat index `f` of the `(nt, n)`-reading of the sample array ↦ trajectory index `f + 1` -/
theorem trajIndex_flat (n nt : Nat) (f : Int) :
    trajIndex n nt (f % n - ((n / 2 : Nat) : Int)) (f / n - ((nt / 2 : Nat) : Int)) = f + 1 := by
  unfold trajIndex halfUp
  have h1 : ((nt : Int) + 2) / 2 = ((nt / 2 : Nat) : Int) + 1 := by omega
  have h2 : ((n : Int) + 2) / 2 = ((n / 2 : Nat) : Int) + 1 := by omega
  rw [h1, h2]
  have := Int.mul_ediv_add_emod f n
  have e : (f / n - ((nt / 2 : Nat) : Int) + (((nt / 2 : Nat) : Int) + 1) - 1) * (n : Int) = (n : Int) * (f / n) := by ring
  rw [e]
  omega

/-- coordinates of trajectory index `f + 1` -/
theorem linear2d_flat (n : Nat) (hn : 0 < n) (f : Int) :
    linear2d (f + 1) n = (f % n + 1, f / n + 1) := by
  have hn' : (0 : Int) < n := by omega
  have hm := Int.emod_nonneg f (by omega : (n : Int) ≠ 0)
  have hl := Int.emod_lt_of_pos f hn'
  have := linear2d_grid n (f % n + 1) (f / n + 1) hn' (by omega) (by omega)
  have e : (f / n + 1 - 1) * (n : Int) + (f % n + 1) = f + 1 := by
    have := Int.mul_ediv_add_emod f n
    have e' : (f / n + 1 - 1) * (n : Int) = (n : Int) * (f / n) := by ring
    rw [e']; omega
  rw [e] at this
  exact this

/-! ### duplicate positions -/

theorem dupPositions_nil_of_nodup (traj : List Int) (h : traj.Nodup) : dupPositions traj = [] := by
  unfold dupPositions
  have : ((List.range traj.length).filter fun k => (traj.take k).contains (traj.getD k 0)) = [] := by
    rw [List.filter_eq_nil_iff]
    intro k hk
    have hk' : k < traj.length := List.mem_range.mp hk
    simp only [List.contains_eq_mem, decide_eq_true_eq]
    intro hmem
    rw [List.getD_eq_getElem?_getD, List.getElem?_eq_getElem hk', Option.getD_some] at hmem
    obtain ⟨j, hj, e⟩ := List.mem_take_iff_getElem.mp hmem
    have hjk : j < k := by omega
    have hp := List.pairwise_iff_getElem.mp h j k (by omega) hk' hjk
    exact hp e
  rw [this]; rfl

theorem duplicateIndices_nil_of_nodup (traj : List Int) (h : traj.Nodup) : duplicateIndices traj = [] := by
  unfold duplicateIndices
  rw [dupPositions_nil_of_nodup traj h]; rfl

/-- without duplicates nothing is relocated: the result is the coordinates of the trajectory indices -/
theorem resolveDuplicates_of_nodup (phase time : List Int) (ny nt : Nat)
    (h : (List.zipWith (trajIndex ny nt) phase time).Nodup) :
    resolveDuplicates phase time ny nt =
      some (((List.zipWith (trajIndex ny nt) phase time).map fun v => (linear2d v ny).1 - halfUp ny),
            ((List.zipWith (trajIndex ny nt) phase time).map fun v => (linear2d v ny).2 - halfUp nt)) := by
  unfold resolveDuplicates
  simp only [duplicateIndices_nil_of_nodup _ h, relocate, List.map_map]
  rfl

/-- **KtUniform**: on the flat indices `ind` of the Toeplitz array (distinct, any integers) the whole
`resolve_duplicates_on_kt_grid` round trip is the identity and `inds = ind` — no index is ever `< 0`,
and `0` occurs exactly when `ind` contains `0` (the sample at column 0 of frame 0) -/
theorem ktUniform_inds_eq_flat (n nt : Nat) (hn : 0 < n) (ind : List Int) (hnd : ind.Nodup) :
    ∃ ph ti, resolveDuplicates (ind.map fun f => f % n - ((n / 2 : Nat) : Int))
        (ind.map fun f => f / n - ((nt / 2 : Nat) : Int)) n nt = some (ph, ti) ∧ ktInds n nt ph ti = ind := by
  have htraj : List.zipWith (trajIndex n nt) (ind.map fun f => f % n - ((n / 2 : Nat) : Int))
      (ind.map fun f => f / n - ((nt / 2 : Nat) : Int)) = ind.map (· + 1) := by
    rw [List.zipWith_map_left, List.zipWith_map_right, List.zipWith_self]
    apply List.map_congr_left
    intro f _
    exact trajIndex_flat n nt f
  have hnd' : (ind.map (· + 1)).Nodup := by
    unfold List.Nodup at hnd ⊢
    exact List.Pairwise.map _ (fun a b hab => by omega) hnd
  rw [resolveDuplicates_of_nodup _ _ _ _ (by rw [htraj]; exact hnd'), htraj]
  refine ⟨_, _, rfl, ?_⟩
  unfold ktInds
  simp only [List.map_map, List.zipWith_map_left, List.zipWith_map_right, List.zipWith_self]
  conv => rhs; rw [← List.map_id ind]
  apply List.map_congr_left
  intro f _
  simp only [Function.comp, linear2d_flat n hn f, halfUp, id]
  have h1 : ((nt : Int) + 2) / 2 = ((nt / 2 : Nat) : Int) + 1 := by omega
  have h2 : ((n : Int) + 2) / 2 = ((n / 2 : Nat) : Int) + 1 := by omega
  rw [h1, h2]
  have := Int.mul_ediv_add_emod f n
  have e : (n : Int) * (f / n + 1 - (((nt / 2 : Nat) : Int) + 1) + ((nt / 2 : Nat) : Int)) = (n : Int) * (f / n) := by ring
  rw [e]; omega

/-! ### relocation keeps the number of samples -/

theorem relocate_length (ds : List Nat) (traj empty : List Int) (row : Int) (t : List Int)
    (h : relocate ds traj empty row = some t) : t.length = traj.length := by
  induction ds generalizing traj empty with
  | nil => simp only [relocate, Option.some.injEq] at h; rw [← h]
  | cons d ds ih =>
    unfold relocate at h
    split at h
    · cases h
    · rw [ih _ _ h]; simp

theorem resolveDuplicates_length (phase time : List Int) (ny nt : Nat) (p t : List Int)
    (h : resolveDuplicates phase time ny nt = some (p, t)) :
    p.length = min phase.length time.length ∧ t.length = min phase.length time.length := by
  unfold resolveDuplicates at h
  simp only [] at h
  split at h
  · cases h
  · rename_i traj' hr
    simp only [Option.some.injEq, Prod.mk.injEq] at h
    have hl := relocate_length _ _ _ _ _ hr
    rw [← h.1, ← h.2]
    simp [hl]

/-! ### CIRCUS perimeter ordering -/

theorem length_upRange (a b : Nat) : (upRange a b).length = b - a := by simp [upRange]
theorem length_downRange (a b : Nat) : (downRange a b).length = a - b := by simp [downRange]

theorem mem_upRange (a b k : Nat) : k ∈ upRange a b ↔ a ≤ k ∧ k < b := by
  unfold upRange
  simp only [List.mem_map, List.mem_range]
  constructor
  · rintro ⟨i, hi, rfl⟩; omega
  · intro h; exact ⟨k - a, by omega, by omega⟩

theorem mem_downRange (a b k : Nat) : k ∈ downRange a b ↔ b < k ∧ k ≤ a := by
  unfold downRange
  simp only [List.mem_map, List.mem_range]
  constructor
  · rintro ⟨i, hi, rfl⟩; omega
  · intro h; exact ⟨a - k, by omega, by omega⟩

/-- the perimeter of nested square `sq` of a `side × side` grid has `K = 4·(J − 1)` cells, `J = side − 2·sq` -/
theorem length_squareOrdered (side sq : Nat) (h : 2 * sq + 2 ≤ side) :
    (squareOrdered side sq).length = 4 * (side - 2 * sq - 1) := by
  unfold squareOrdered
  simp only [List.length_append, List.length_map, length_upRange, length_downRange]
  omega

/-- … all of them on the grid -/
theorem squareOrdered_on_grid (side sq : Nat) (h : 2 * sq + 2 ≤ side) (rc : Nat × Nat)
    (hm : rc ∈ squareOrdered side sq) : rc.1 < side ∧ rc.2 < side := by
  unfold squareOrdered at hm
  simp only [List.mem_append, List.mem_map, mem_upRange, mem_downRange] at hm
  rcases hm with ((⟨c, hc, rfl⟩ | ⟨r, hr, rfl⟩) | ⟨c, hc, rfl⟩) | ⟨r, hr, rfl⟩ <;> simp <;> omega

/-! ### `_poisson` active lists -/

theorem count_set_true_le (l : List Bool) (i : Nat) : (l.set i true).count true ≤ l.count true + 1 := by
  induction l generalizing i with
  | nil => simp
  | cons x xs ih =>
    cases i with
    | zero => cases x <;> simp
    | succ i => simp only [List.set_cons_succ, List.count_cons]; have := ih i; omega

theorem count_set_true_fresh (l : List Bool) (i : Nat) (hf : l.getD i false = false) (hi : i < l.length) :
    (l.set i true).count true = l.count true + 1 := by
  induction l generalizing i with
  | nil => simp at hi
  | cons x xs ih =>
    cases i with
    | zero => simp only [List.getD_cons_zero] at hf; subst hf; simp
    | succ i =>
      simp only [List.getD_cons_succ] at hf
      simp only [List.set_cons_succ, List.count_cons]
      rw [ih i hf (by simpa using hi)]; omega

/-- a candidate lies less than one pixel (per axis) from the corner of the cell it is stored in -/
theorem frac_sq_lt (q den : Int) (hden : 0 < den) (hq : 0 ≤ q) :
    (q - (((q / den).toNat : Nat) : Int) * den) * (q - (((q / den).toNat : Nat) : Int) * den) < den * den := by
  have h0 : 0 ≤ q / den := Int.ediv_nonneg hq (by omega)
  have e : (((q / den).toNat : Nat) : Int) = q / den := by omega
  rw [e]
  have hm : q - q / den * den = q % den := by
    have := Int.emod_add_ediv_mul q den; omega
  rw [hm]
  have h1 := Int.emod_nonneg q (by omega : den ≠ 0)
  have h2 := Int.emod_lt_of_pos q hden
  have s1 : q % den * (q % den) ≤ q % den * den := Int.mul_le_mul_of_nonneg_left (Int.le_of_lt h2) h1
  have s2 : q % den * den < den * den := Int.mul_lt_mul_of_pos_right h2 hden
  omega

/-- **radius ≥ √2 pixels is safe**: then a candidate whose cell is already sampled is always rejected (it is
closer than one radius to that cell), so every acceptance samples a new cell.  One pixel — the clip of the code —
is not enough (`C04.poisson_accepts_occupied_cell`), less than one pixel even less so. -/
theorem poissonAccept_cell_free (nx ny : Nat) (den r : Int) (hden : 0 < den) (hr : 2 * (den * den) ≤ r * r)
    (mask : List Bool) (qx qy : Int) (h : poissonAccept nx ny den r mask qx qy = true) :
    mask.getD (poissonCell ny den qx qy) false = false := by
  unfold poissonAccept at h
  simp only [Bool.and_eq_true, decide_eq_true_eq, List.all_eq_true, List.mem_range, Bool.not_eq_true',
    Bool.and_eq_false_iff, decide_eq_false_iff_not] at h
  obtain ⟨⟨hx0, hx1, hy0, hy1⟩, hall⟩ := h
  have hcx : (qx / den).toNat < nx := by
    have h1 : qx / den < nx := Int.ediv_lt_of_lt_mul hden hx1
    have h0 : 0 ≤ qx / den := Int.ediv_nonneg hx0 (by omega)
    omega
  have hcy : (qy / den).toNat < ny := by
    have h1 : qy / den < ny := Int.ediv_lt_of_lt_mul hden hy1
    have h0 : 0 ≤ qy / den := Int.ediv_nonneg hy0 (by omega)
    omega
  have hk : poissonCell ny den qx qy < nx * ny := by
    unfold poissonCell
    have : ((qx / den).toNat + 1) * ny ≤ nx * ny := Nat.mul_le_mul_right ny hcx
    rw [Nat.succ_mul] at this
    omega
  rcases hall _ hk with hfree | hfar
  · exact hfree
  · exfalso
    apply hfar
    have hny : 0 < ny := by omega
    have e1 : (poissonCell ny den qx qy) / ny = (qx / den).toNat := by
      unfold poissonCell
      rw [Nat.mul_comm, Nat.mul_add_div hny, Nat.div_eq_of_lt hcy, Nat.add_zero]
    have e2 : (poissonCell ny den qx qy) % ny = (qy / den).toNat := by
      unfold poissonCell
      rw [Nat.mul_comm, Nat.mul_add_mod, Nat.mod_eq_of_lt hcy]
    rw [e1, e2]
    have fx := frac_sq_lt qx den hden hx0
    have fy := frac_sq_lt qy den hden hy0
    omega

theorem count_true_le_length (l : List Bool) : l.count true ≤ l.length := List.count_le_length

/-- with the guard (a candidate whose cell is already sampled is refused) every accepted candidate marks a
new cell, so `num_actives ≤ #sampled + 1` is preserved by every outer iteration -/
theorem poissonStep_guard_invariant (nx ny : Nat) (den r : Int) (hden : 0 < den) (s : PoissonState) (i : Nat)
    (cand : Option (Int × Int)) (hm : s.mask.length = nx * ny)
    (hinv : s.actives.length ≤ s.mask.count true + 1) :
    (poissonStep true nx ny den r s i cand).mask.length = nx * ny ∧
    (poissonStep true nx ny den r s i cand).actives.length ≤ (poissonStep true nx ny den r s i cand).mask.count true + 1 := by
  unfold poissonStep
  cases cand with
  | none =>
    simp only []
    cases hl : s.actives.getLast? with
    | none => exact ⟨hm, hinv⟩
    | some l => simp only [List.length_dropLast, List.length_set]; exact ⟨hm, by omega⟩
  | some q =>
    obtain ⟨qx, qy⟩ := q
    simp only [Bool.not_true, Bool.false_or]
    split
    · rename_i hacc
      simp only [Bool.and_eq_true, Bool.not_eq_true'] at hacc
      obtain ⟨hacc, hfree⟩ := hacc
      unfold poissonAccept at hacc
      simp only [Bool.and_eq_true, decide_eq_true_eq] at hacc
      obtain ⟨⟨hx0, hx1, hy0, hy1⟩, _⟩ := hacc
      -- the cell is on the grid
      have hcx : (qx / den).toNat < nx := by
        have h1 : qx / den < nx := Int.ediv_lt_of_lt_mul hden hx1
        have h0 : 0 ≤ qx / den := Int.ediv_nonneg hx0 (by omega)
        omega
      have hcy : (qy / den).toNat < ny := by
        have h1 : qy / den < ny := Int.ediv_lt_of_lt_mul hden hy1
        have h0 : 0 ≤ qy / den := Int.ediv_nonneg hy0 (by omega)
        omega
      have hcell : poissonCell ny den qx qy < s.mask.length := by
        unfold poissonCell; rw [hm]; exact cell_lt' nx ny _ _ hcx hcy
      refine ⟨by simp [hm], ?_⟩
      simp only [List.length_append, List.length_singleton]
      rw [count_set_true_fresh _ _ hfree hcell]
      omega
    · exact ⟨hm, hinv⟩
where
  cell_lt' (rows cols x y : Nat) (hx : x < rows) (hy : y < cols) : x * cols + y < rows * cols := by
    have : (x + 1) * cols ≤ rows * cols := Nat.mul_le_mul_right cols hx
    rw [Nat.succ_mul] at this
    omega

theorem poissonRun_guard_invariant (nx ny : Nat) (den r : Int) (hden : 0 < den) (evs : List (Nat × Option (Int × Int)))
    (s : PoissonState) (hm : s.mask.length = nx * ny) (hinv : s.actives.length ≤ s.mask.count true + 1) :
    (poissonRun true nx ny den r s evs).actives.length ≤ nx * ny + 1 := by
  induction evs generalizing s with
  | nil =>
    simp only [poissonRun]
    have := count_true_le_length s.mask
    omega
  | cons e es ih =>
    obtain ⟨i, c⟩ := e
    simp only [poissonRun]
    obtain ⟨h1, h2⟩ := poissonStep_guard_invariant nx ny den r hden s i c hm hinv
    exact ih _ h1 h2

end DirectVerif.MaskGeom
