import DirectVerif.Lemmas.C08Sound
import DirectVerif.Lemmas.TensorLift
import DirectVerif.Driver.C08
import Mathlib.Algebra.Order.Ring.Rat
import Mathlib.Algebra.Order.Field.Rat
/-!
# C08 helper lemmas — discharging the homogeneity assumption about the externals

`ExtHom X` (the FFT-based / data-movement externals are positively homogeneous of degree 1) is a *hypothesis* of the
equivariance theorems.  Here it is a **theorem** for

* every external that acts on the flat data as a matrix whose coefficients depend on the sizes and the metadata only
  (`LinearExt`, `linearExt_hom`) — what a DFT in real/imaginary form, a crop, a zero pad, an interpolating resize, a
  flip, a rotation and a Gaussian weighting are;
* the concrete externals the driver executes (`driver_ext_hom`): identity operators, and the image-space centre crop
  of k-space and of sample-provided masks, which is C10's `Crop.centerCrop` lifted along the two spatial axes with
  `Tensor.alongAxis` (`alongAxis_map`: the lifting is natural in the element type).
-/
set_option linter.unusedSectionVars false
namespace DirectVerif.Pipeline
open DirectVerif DirectVerif.Tensor

/-! ## naturality of `alongAxis` -/
section natural
variable {α : Type} [Inhabited α] (g : α → α) (hg : g default = default)
include hg

theorem getD_map_default (D : List α) (i : Nat) : (D.map g).getD i default = g (D.getD i default) := by
  rw [List.getD_eq_getElem?_getD, List.getD_eq_getElem?_getD, List.getElem?_map]
  cases D[i]? <;> simp [hg]

theorem fibre_map (D : List α) (n inner o i : Nat) : fibre (D.map g) n inner o i = (fibre D n inner o i).map g := by
  simp only [fibre, List.map_map]
  apply List.map_congr_left
  intro k _
  exact getD_map_default g hg D _

theorem fibres_map (f : List α → List α) (hf : ∀ xs, f (xs.map g) = (f xs).map g) (D : List α) (outer n inner : Nat) :
    fibres (D.map g) outer n inner f = (fibres D outer n inner f).map (List.map g) := by
  simp only [fibres, fibre_map g hg, hf, List.map_flatMap, List.map_map]
  rfl

theorem outLen_map (F : List (List α)) (n : Nat) (f : List α → List α) :
    outLen (F.map (List.map g)) n f = outLen F n f := by
  cases F <;> simp [outLen]

theorem gather_map (F : List (List α)) (outer m inner : Nat) :
    gather (F.map (List.map g)) outer m inner = (gather F outer m inner).map g := by
  simp only [gather, List.map_flatMap, List.map_map]
  apply TensorLift.flatMap_congr_mem
  intro o _
  apply TensorLift.flatMap_congr_mem
  intro k _
  apply List.map_congr_left
  intro i _
  have h1 : (F.map (List.map g)).getD (o * inner + i) [] = (F.getD (o * inner + i) []).map g := by
    rw [List.getD_eq_getElem?_getD, List.getD_eq_getElem?_getD, List.getElem?_map]
    cases F[o * inner + i]? <;> simp
  simp only [Function.comp, h1]
  exact getD_map_default g hg _ _

/-- **the per-axis lifting commutes with any element-wise map that fixes the default** -/
theorem alongAxis_map (f : List α → List α) (hf : ∀ xs, f (xs.map g) = (f xs).map g) (t : Tensor α) (axis : Nat) :
    (({ shape := t.shape, data := t.data.map g } : Tensor α).alongAxis axis f)
      = { shape := (t.alongAxis axis f).shape, data := (t.alongAxis axis f).data.map g } := by
  rw [TensorLift.alongAxis_eq_alongAxisL, TensorLift.alongAxis_eq_alongAxisL]
  simp only [alongAxisL, fibres_map g hg f hf, outLen_map g hg, gather_map g hg]

end natural

theorem centerCrop_map {α : Type} (g : α → α) (s : Nat) (xs : List α) :
    Crop.centerCrop s (xs.map g) = (Crop.centerCrop s xs).map g := by
  simp [Crop.centerCrop, slice, List.map_take, List.map_drop]

open Driver.C08 in
/-- the driver's spatial centre crop (C10's model along the two spatial axes) commutes with scaling -/
theorem cropHW_scale (q : Rat) (blocks h w stride ch cw : Nat) (data : List Rat) :
    cropHW blocks h w stride ch cw (data.map (q * ·)) = (cropHW blocks h w stride ch cw data).map (q * ·) := by
  have hg : (q * · : Rat → Rat) default = default := by show q * (0 : Rat) = 0; simp
  unfold cropHW
  simp only
  rw [alongAxis_map (q * ·) hg (Crop.centerCrop ch) (fun xs => centerCrop_map _ ch xs)
        ({ shape := [blocks, h, w, stride], data := data } : Tensor Rat) 1]
  rw [alongAxis_map (q * ·) hg (Crop.centerCrop cw) (fun xs => centerCrop_map _ cw xs) _ 2]

open Driver.C08 in
theorem mkExt_lin_cropMask (l : Line) (m : Meta) (v : Val Rat) :
    (mkExt l).lin .cropMask m v = if l.ch = 0 then v else { v with data := cropHW 1 l.h l.w 1 l.ch l.cw v.data } := rfl

open Driver.C08 in
theorem mkExt_lin_other (l : Line) (ln : Lin) (h : ln ≠ .cropMask) (m : Meta) (v : Val Rat) : (mkExt l).lin ln m v = v := by
  cases ln <;> first | rfl | exact absurd rfl h

open Driver.C08 in
theorem mkExt_crop (l : Line) (c : Bool) (sd : Option (List Nat)) (v : Val Rat) :
    (mkExt l).crop c sd v = if !c || l.ch = 0 then v else
      { v with data := cropHW (v.nc * v.ns) l.h l.w v.stride l.ch l.cw v.data } := rfl

open Driver.C08 in
/-- **`driver_ext_hom`** — the externals the driver executes (identity FFT operators, C10's centre crop for k-space
and for sample-provided masks) satisfy the hypothesis `ExtHom` of the equivariance theorems: for them positive
homogeneity is proved, not assumed. -/
theorem driver_ext_hom (l : Line) : ExtHom (mkExt l) := by
  refine ⟨?_, ?_⟩
  · intro ln m q v _
    by_cases hl : ln = .cropMask
    · subst hl
      rw [mkExt_lin_cropMask, mkExt_lin_cropMask]
      split
      · rfl
      · simp only [scaleV, Val.map, cropHW_scale]
    · rw [mkExt_lin_other l ln hl, mkExt_lin_other l ln hl]
  · intro c sd q v _
    rw [mkExt_crop, mkExt_crop]
    split
    · rfl
    · simp only [scaleV, Val.map, cropHW_scale, Val.stride]
      rfl

/-! ## externals that are linear maps with size-dependent coefficients -/
section linear
variable {K : Type} [Field K] [LinearOrder K] [IsStrictOrderedRing K]
variable (sqrt : K → K)
local notation "S" => fieldOps sqrt

/-- `out[i] = Σ_j A i j · x[j]` for `i < rows` -/
def matApply (S' : Ops K) (A : Nat → Nat → K) (rows : Nat) (x : List K) : List K :=
  (List.range rows).map fun i => sumList S' (mapIdx (fun j a => S'.mul (A i j) a) x)

theorem matApply_scale (A : Nat → Nat → K) (rows : Nat) (q : K) (x : List K) :
    matApply S A rows (x.map (q * ·)) = (matApply S A rows x).map (q * ·) := by
  simp only [matApply, List.map_map]
  apply List.map_congr_left
  intro i _
  simp only [Function.comp, mapIdx, mapIdxAux_map]
  have : mapIdxAux (fun j a => (fieldOps sqrt).mul (A i j) (q * a)) 0 x
      = (mapIdxAux (fun j a => (fieldOps sqrt).mul (A i j) a) 0 x).map (q * ·) := by
    rw [map_mapIdxAux]
    apply mapIdxAux_congr
    intro j a
    simp only [fo_mul]; ring
  rw [this, sumList_scale]

/-- a family of externals given by matrices: output length, output coil count and coefficients are functions of
the operator, the metadata and the *sizes* of the argument — never of its values -/
structure LinearExt (K : Type) where
  rows : Lin → Meta → Nat → Nat → Bool → Nat → Nat
  ncOut : Lin → Meta → Nat → Nat → Bool → Nat → Nat
  coef : Lin → Meta → Nat → Nat → Bool → Nat → Nat → Nat → K
  cropRows : Bool → Option (List Nat) → Nat → Nat → Bool → Nat → Nat
  cropCoef : Bool → Option (List Nat) → Nat → Nat → Bool → Nat → Nat → Nat → K

def LinearExt.lin (L : LinearExt K) (S' : Ops K) (l : Lin) (m : Meta) (v : Val K) : Val K :=
  let n := v.data.length
  { nc := L.ncOut l m v.nc v.ns v.cplx n, ns := v.ns, cplx := v.cplx,
    data := matApply S' (L.coef l m v.nc v.ns v.cplx n) (L.rows l m v.nc v.ns v.cplx n) v.data }

def LinearExt.crop (L : LinearExt K) (S' : Ops K) (c : Bool) (sd : Option (List Nat)) (v : Val K) : Val K :=
  let n := v.data.length
  { v with data := matApply S' (L.cropCoef c sd v.nc v.ns v.cplx n) (L.cropRows c sd v.nc v.ns v.cplx n) v.data }

/-- the externals of `X` replaced by the linear family `L` -/
def LinearExt.toExt (L : LinearExt K) (S' : Ops K) (X : Ext K) : Ext K :=
  { X with lin := L.lin S', crop := L.crop S' }

/-- **`linearExt_hom`** — externals that are linear maps (coefficients depending on sizes and metadata only) are
homogeneous of degree 1, for every scale -/
theorem linearExt_hom (L : LinearExt K) (X : Ext K) : ExtHom (L.toExt S X) := by
  constructor
  · intro l m q v _
    simp only [LinearExt.toExt, LinearExt.lin, scaleV, Val.map, List.length_map, matApply_scale]
  · intro c sd q v _
    simp only [LinearExt.toExt, LinearExt.crop, scaleV, Val.map, List.length_map, matApply_scale]

end linear
end DirectVerif.Pipeline
