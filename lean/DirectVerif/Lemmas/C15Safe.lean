import DirectVerif.Lemmas.C15Crash
/-!
# The save routine in three phases — no Mathlib
-/
namespace DirectVerif.Ckpt

/-- phase 1: everything up to (excluding) `os.replace(model_<it>.pt.tmp, model_<it>.pt)` -/
def seg1 (it : Int) (chunks : List Bytes) : List FsOp :=
  .openTrunc (.modelTmp it) :: (chunks.map (.write (.modelTmp it)) ++ [.close (.modelTmp it)])
/-- phase 2: writing `last_model.txt.tmp` -/
def seg2 (it : Int) : List FsOp :=
  [.openTrunc .lastTmp, .write .lastTmp (strInt it), .close .lastTmp]

theorem saveOps_eq (it : Int) (chunks : List Bytes) :
    saveOps it chunks =
      seg1 it chunks ++ (.replace (.modelTmp it) (.model it) :: (seg2 it ++ [.replace .lastTmp .last])) := by
  simp [saveOps, opsOf, saveTable, instStmt, FKind.name, seg1, seg2]

theorem seg1_touches (it : Int) (chunks : List Bytes) :
    ∀ o ∈ seg1 it chunks, ∀ g, touches o g → g = .modelTmp it := by
  intro o ho g hg
  simp only [seg1, List.mem_cons, List.mem_append, List.mem_map, List.not_mem_nil,
    or_false] at ho
  rcases ho with rfl | ⟨c, _, rfl⟩ | rfl
  · exact hg
  · exact hg
  · exact hg.elim

theorem seg2_touches (it : Int) : ∀ o ∈ seg2 it, ∀ g, touches o g → g = .lastTmp := by
  intro o ho g hg
  simp only [seg2, List.mem_cons, List.not_mem_nil, or_false] at ho
  rcases ho with rfl | rfl | rfl
  · exact hg
  · exact hg
  · exact hg.elim

theorem run_writes (d : Dir) (f : FName) (chunks : List Bytes) (b : Bytes) (h : d f = some b) :
    run d (chunks.map (.write f)) f = some (b ++ chunks.flatten) := by
  induction chunks generalizing d b with
  | nil => simpa [run] using h
  | cons c r ih =>
    rw [List.map_cons, run_cons]
    have : applyOp d (.write f c) f = some (b ++ c) := by simp [applyOp, h, set_same]
    rw [ih _ _ this]
    simp [List.append_assoc]

/-- after phase 1 the temporary holds the complete serialised state -/
theorem run_seg1_tmp (d : Dir) (it : Int) (chunks : List Bytes) :
    run d (seg1 it chunks) (.modelTmp it) = some chunks.flatten := by
  rw [seg1, run_cons, run_append, run_cons, run_nil]
  show run _ _ _ = _
  rw [run_writes _ _ _ [] (by simp [applyOp, set_same])]
  rfl

theorem run_seg2_tmp (d : Dir) (it : Int) : run d (seg2 it) .lastTmp = some (strInt it) := by
  simp [seg2, run, applyOp, set_same]

/-- a crash inside a segment that only touches a temporary leaves `load('latest')` unchanged -/
theorem load_of_crash_in_tmp_segment {S} (decode : Bytes → Option S) (d : Dir) (seg p : List FsOp) (tmp : FName)
    (htmp : tmp ≠ .last ∧ ∀ j, tmp ≠ .model j) (hseg : ∀ o ∈ seg, ∀ g, touches o g → g = tmp)
    (hp : CrashOf seg p) : loadLatest decode (run d p) = loadLatest decode d := by
  have fr : ∀ g, g ≠ tmp → run d p g = d g := by
    intro g hg
    apply run_frame
    intro o ho ht
    obtain ⟨o', ho', ht'⟩ := hp.touches o ho g ht
    exact hg (hseg o' ho' g ht')
  exact loadLatest_congr decode d _ (fr _ (Ne.symm htmp.1)) (fun j => fr _ (Ne.symm (htmp.2 j)))

/-- the state right after `os.replace(model_<it>.pt.tmp, model_<it>.pt)` -/
theorem load_after_model_replace {S} (decode : Bytes → Option S) (d d1 : Dir) (it : Nat) (payload : Bytes) (s : S)
    (hdec : decode payload = some s)
    (hl : d1 .last = d .last) (hm : d1 (.model it) = some payload)
    (ho : ∀ j, j ≠ (it : Int) → d1 (.model j) = d (.model j)) :
    loadLatest decode d1 = loadLatest decode d ∨ loadLatest decode d1 = .ok it s := by
  unfold loadLatest
  rw [hl]
  cases d .last with
  | none => exact Or.inl rfl
  | some txt =>
    simp only
    cases parseInt (readline txt) with
    | none => exact Or.inl rfl
    | some j =>
      by_cases hj : j = (it : Int)
      · subst hj
        right
        simp only [hm, hdec]
      · left
        simp only [ho j hj]

/-- the state after the complete save -/
theorem load_after_last_replace {S} (decode : Bytes → Option S) (d3 : Dir) (it : Nat) (payload : Bytes) (s : S)
    (hdec : decode payload = some s)
    (hl : d3 .last = some (strInt it)) (hm : d3 (.model it) = some payload) :
    loadLatest decode d3 = .ok it s := by
  unfold loadLatest
  simp only [hl, parseInt_strInt, hm, hdec]

/-- **One save, any crash point**: `load('latest')` afterwards gives what it gave before the save
started, or the new checkpoint — for *every* directory the save started from. -/
theorem crash_safe_step {S} (decode : Bytes → Option S) (d : Dir) (it : Nat) (chunks : List Bytes) (s : S)
    (hdec : decode chunks.flatten = some s) (p : List FsOp) (hp : CrashOf (saveOps it chunks) p) :
    loadLatest decode (run d p) = loadLatest decode d ∨ loadLatest decode (run d p) = .ok it s := by
  rw [saveOps_eq] at hp
  have tmpM : FName.modelTmp (it : Int) ≠ .last ∧ ∀ j, FName.modelTmp (it : Int) ≠ .model j :=
    ⟨by simp, by simp⟩
  have tmpL : FName.lastTmp ≠ .last ∧ ∀ j, FName.lastTmp ≠ .model j := ⟨by simp, by simp⟩
  rcases hp.append_cases with h1 | ⟨q, rfl, hq⟩
  · -- phase 1
    exact Or.inl (load_of_crash_in_tmp_segment decode d _ p _ tmpM (seg1_touches it chunks) h1)
  · cases hq with
    | nil =>
      rw [List.append_nil]
      exact Or.inl (load_of_crash_in_tmp_segment decode d _ _ _ tmpM (seg1_touches it chunks) (.refl _))
    | cons _ _ q' hq' =>
      -- the checkpoint file is in place
      have hd0 : ∀ g, g ≠ .modelTmp (it : Int) → run d (seg1 it chunks) g = d g := by
        intro g hg
        apply run_frame
        intro o ho ht
        exact hg (seg1_touches it chunks o ho g ht)
      have hd1 : run d (seg1 it chunks ++ .replace (.modelTmp it) (.model it) :: q')
          = run (applyOp (run d (seg1 it chunks)) (.replace (.modelTmp it) (.model it))) q' := by
        rw [run_append, run_cons]
      rw [hd1]
      generalize hD1 : applyOp (run d (seg1 it chunks)) (.replace (.modelTmp it) (.model it)) = d1
      have hm : d1 (.model it) = some chunks.flatten := by
        rw [← hD1]
        simp only [applyOp, run_seg1_tmp]
        rw [set_other _ _ _ _ (by simp), set_same]
      have hother : ∀ g, g ≠ .modelTmp (it : Int) → g ≠ .model (it : Int) → d1 g = d g := by
        intro g h1 h2
        rw [← hD1]
        simp only [applyOp, run_seg1_tmp]
        rw [set_other _ _ _ _ h1, set_other _ _ _ _ h2, hd0 g h1]
      have base := load_after_model_replace decode d d1 it chunks.flatten s hdec
        (hother _ (by simp) (by simp)) hm (fun j hj => hother _ (by simp) (by simpa using hj))
      rcases hq'.append_cases with h2 | ⟨q'', rfl, hq''⟩
      · -- phase 2
        rw [load_of_crash_in_tmp_segment decode d1 _ q' _ tmpL (seg2_touches it) h2]
        exact base
      · cases hq'' with
        | nil =>
          rw [List.append_nil, load_of_crash_in_tmp_segment decode d1 _ _ _ tmpL (seg2_touches it) (.refl _)]
          exact base
        | cons _ _ q3 hq3 =>
          cases hq3
          -- phase 3: the pointer has been switched
          right
          apply load_after_last_replace decode _ it chunks.flatten s hdec
          · rw [run_append, run_cons, run_nil]
            simp only [applyOp, run_seg2_tmp]
            rw [set_other _ _ _ _ (by simp), set_same]
          · rw [run_append, run_cons, run_nil]
            simp only [applyOp, run_seg2_tmp]
            rw [set_other _ _ _ _ (by simp), set_other _ _ _ _ (by simp),
              run_frame d1 (seg2 it) _ (fun o ho ht => by have := seg2_touches it o ho _ ht; simp at this)]
            exact hm

/-- a complete save followed by `load('latest')` returns exactly what was saved -/
theorem save_then_load {S} (decode : Bytes → Option S) (d : Dir) (it : Nat) (chunks : List Bytes) (s : S)
    (hdec : decode chunks.flatten = some s) :
    loadLatest decode (run d (saveOps it chunks)) = .ok it s := by
  rw [saveOps_eq, run_append, run_cons, run_append, run_cons, run_nil]
  apply load_after_last_replace decode _ it chunks.flatten s hdec
  · simp only [applyOp, run_seg2_tmp]
    rw [set_other _ _ _ _ (by simp), set_same]
  · simp only [applyOp, run_seg2_tmp, run_seg1_tmp]
    rw [set_other _ _ _ _ (by simp), set_other _ _ _ _ (by simp),
      run_frame _ (seg2 it) _ (fun o ho ht => by have := seg2_touches it o ho _ ht; simp at this),
      set_other _ _ _ _ (by simp), set_same]

end DirectVerif.Ckpt
