import DirectVerif.Model.Config
/-!
Helper lemmas for `Bridge/C20.lean`: split / join arithmetic on dotted names.
-/
namespace DirectVerif.Config
/-! split / join arithmetic: the look-ups may be written as `(name + "Config").split(".")[-1]`, as
`name.split(".")[-1] + "Config"`, with `parts[:-1]` / `parts[-1]` or with `*init, last = parts` — the bridge proves the
strings that reach `str_to_class` equal, whatever the spelling -/


theorem splitDot_ne_nil (s : Str) : splitDot s ≠ [] := by
  induction s with
  | nil => simp [splitDot]
  | cons c cs ih =>
    unfold splitDot
    cases h : splitDot cs with
    | nil => simp
    | cons w ws => by_cases hc : c = dot <;> simp [hc]

theorem splitDot_nodot (suf : Str) (h : dot ∉ suf) : splitDot suf = [suf] := by
  induction suf with
  | nil => simp [splitDot]
  | cons c cs ih =>
    have hc : c ≠ dot := fun e => h (by simp [e])
    have hcs : dot ∉ cs := fun m => h (by simp [m])
    unfold splitDot
    rw [ih hcs]
    simp [hc]

/-- appending a dot-free suffix only extends the last dotted component -/
theorem splitDot_append_nodot (s suf : Str) (h : dot ∉ suf) :
    splitDot (s ++ suf) = (splitDot s).dropLast ++ [(splitDot s).getLast?.getD [] ++ suf] := by
  induction s with
  | nil => simp [splitDot, splitDot_nodot suf h]
  | cons c cs ih =>
    rw [List.cons_append]
    unfold splitDot
    rw [ih]
    cases hs : splitDot cs with
    | nil => exact absurd hs (splitDot_ne_nil cs)
    | cons w ws =>
      cases ws with
      | nil => by_cases hc : c = dot <;> simp [hc]
      | cons x xs => by_cases hc : c = dot <;> simp [hc, List.dropLast, List.getLast?_cons_cons]

theorem lastPart_append_nodot (s suf : Str) (h : dot ∉ suf) :
    (splitDot (s ++ suf)).getLast?.getD [] = (splitDot s).getLast?.getD [] ++ suf := by
  rw [splitDot_append_nodot s suf h]
  simp


/-- `(name + "Config").split(".")[-1] = name.split(".")[-1] + "Config"` -/
@[simp] theorem lastPart_config (n : Str) :
    (splitDot (n ++ [67, 111, 110, 102, 105, 103])).getLast?.getD [] = (splitDot n).getLast?.getD [] ++ [67, 111, 110, 102, 105, 103] :=
  lastPart_append_nodot n _ (by decide)

/-- `parts[1:][:-1]`-style unpackings: dropping the head then the last commutes -/
theorem drop_one_dropLast (xs : List Str) : (xs.drop 1).dropLast = (xs.dropLast).drop 1 := by
  cases xs with
  | nil => rfl
  | cons x xs => cases xs <;> simp [List.dropLast]
end DirectVerif.Config

