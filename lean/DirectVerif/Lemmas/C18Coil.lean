import DirectVerif.Model.BatchSep
/-!
# C18 helper lemmas — coil expressions are equivariant / invariant under coil reordering

`gather σ xs` reorders a coil list (`σ` = old index of every new position).  Per-coil maps, element-wise combinations of
coil tensors and broadcasts of an image commute with `gather` for *every* in-range index list `σ`; a coil sum is unchanged
when `σ` is a permutation of `0 … n−1` and the addition is commutative and associative.  Core-only (no Mathlib).
-/
namespace DirectVerif.C18
open DirectVerif DirectVerif.BatchSep

theorem gather_eq_map {α : Type} [Inhabited α] (σ : List Nat) (xs : List α) (h : ∀ i ∈ σ, i < xs.length) :
    gather σ xs = σ.map fun i => xs.getD i default := by
  unfold gather
  induction σ with
  | nil => rfl
  | cons i σ ih =>
    have hi : i < xs.length := h i (by simp)
    simp only [List.filterMap_cons, List.getElem?_eq_getElem hi, List.map_cons, List.getD_eq_getElem?_getD, Option.getD_some]
    rw [ih fun j hj => h j (by simp [hj])]
    simp [List.getD_eq_getElem?_getD]

theorem gather_length {α : Type} (σ : List Nat) (xs : List α) (h : ∀ i ∈ σ, i < xs.length) : (gather σ xs).length = σ.length := by
  unfold gather
  induction σ with
  | nil => rfl
  | cons i σ ih =>
    have hi : i < xs.length := h i (by simp)
    simp only [List.filterMap_cons, List.getElem?_eq_getElem hi, List.length_cons]
    rw [ih fun j hj => h j (by simp [hj])]

theorem gather_map {α β : Type} (f : α → β) (σ : List Nat) (xs : List α) : gather σ (xs.map f) = (gather σ xs).map f := by
  unfold gather
  induction σ with
  | nil => rfl
  | cons i σ ih =>
    rw [List.filterMap_cons, List.filterMap_cons, ih, List.getElem?_map]
    cases xs[i]? <;> simp

theorem gather_zipWith {α β γ : Type} (g : α → β → γ) (σ : List Nat) (as : List α) (bs : List β) (hl : as.length = bs.length) :
    gather σ (List.zipWith g as bs) = List.zipWith g (gather σ as) (gather σ bs) := by
  unfold gather
  induction σ with
  | nil => rfl
  | cons i σ ih =>
    rw [List.filterMap_cons, List.filterMap_cons, List.filterMap_cons, ih, List.getElem?_zipWith]
    by_cases hi : i < as.length
    · have hi' : i < bs.length := hl ▸ hi
      rw [List.getElem?_eq_getElem hi, List.getElem?_eq_getElem hi']
      rfl
    · have hi' : ¬ i < bs.length := hl ▸ hi
      rw [List.getElem?_eq_none (Nat.le_of_not_lt hi), List.getElem?_eq_none (Nat.le_of_not_lt hi')]

theorem gather_getElem? {α : Type} (σ : List Nat) (xs : List α) (h : ∀ i ∈ σ, i < xs.length) (k : Nat) :
    (gather σ xs)[k]? = σ[k]?.bind fun i => xs[i]? := by
  unfold gather
  induction σ generalizing k with
  | nil => simp
  | cons i σ ih =>
    have hi : i < xs.length := h i (by simp)
    rw [List.filterMap_cons, List.getElem?_eq_getElem hi]
    cases k with
    | zero => simp [List.getElem?_eq_getElem hi]
    | succ k => simpa using ih (fun j hj => h j (by simp [hj])) k

theorem gather_range {α : Type} (xs : List α) : gather (List.range xs.length) xs = xs := by
  apply List.ext_getElem?
  intro k
  rw [gather_getElem? _ _ (fun i hi => List.mem_range.mp hi)]
  by_cases hk : k < xs.length
  · simp [List.getElem?_range hk]
  · rw [List.getElem?_eq_none (by simpa using Nat.le_of_not_lt hk), List.getElem?_eq_none (Nat.le_of_not_lt hk)]
    rfl

/-- a fold with a commutative, associative operation does not see the order -/
theorem foldr_perm {D : Type} (add : D → D → D) (zero : D) (hc : ∀ a b, add a b = add b a)
    (ha : ∀ a b c, add (add a b) c = add a (add b c)) {p q : List D} (h : p.Perm q) : p.foldr add zero = q.foldr add zero := by
  induction h with
  | nil => rfl
  | cons x _ ih => simp only [List.foldr_cons, ih]
  | swap x y l => simp only [List.foldr_cons]; rw [← ha, ← ha, hc y x]
  | trans _ _ ih1 ih2 => exact ih1.trans ih2

theorem gather_perm {α : Type} (σ : List Nat) (xs : List α) (hσ : σ.Perm (List.range xs.length)) : (gather σ xs).Perm xs := by
  have h1 : (gather σ xs).Perm (gather (List.range xs.length) xs) := by
    unfold gather
    exact hσ.filterMap _
  rwa [gather_range] at h1

mutual
theorem cexpr_length {D : Type} (add : D → D → D) (zero : D) (e : CExpr D) (inp : List (D × D)) :
    (e.eval add zero inp).length = inp.length := by
  cases e with
  | k => simp [CExpr.eval]
  | s => simp [CExpr.eval]
  | perCoil f e => simp [CExpr.eval, cexpr_length add zero e inp]
  | zip g a b => simp [CExpr.eval, cexpr_length add zero a inp, cexpr_length add zero b inp]
  | bcast g i e => simp [CExpr.eval, cexpr_length add zero e inp]
end

mutual
/-- coil-valued expressions are **equivariant**: reordering the coils of the inputs reorders the result the same way -/
theorem cexpr_equivariant {D : Type} (add : D → D → D) (zero : D) (hc : ∀ a b, add a b = add b a)
    (ha : ∀ a b c, add (add a b) c = add a (add b c)) (e : CExpr D) (σ : List Nat) (inp : List (D × D))
    (hσ : σ.Perm (List.range inp.length)) : e.eval add zero (gather σ inp) = gather σ (e.eval add zero inp) := by
  cases e with
  | k => simp [CExpr.eval, gather_map]
  | s => simp [CExpr.eval, gather_map]
  | perCoil f e => simp [CExpr.eval, gather_map, cexpr_equivariant add zero hc ha e σ inp hσ]
  | zip g a b =>
    simp only [CExpr.eval]
    rw [cexpr_equivariant add zero hc ha a σ inp hσ, cexpr_equivariant add zero hc ha b σ inp hσ,
      gather_zipWith g σ _ _ (by rw [cexpr_length, cexpr_length])]
  | bcast g i e =>
    simp only [CExpr.eval]
    rw [cexpr_equivariant add zero hc ha e σ inp hσ, iexpr_invariant add zero hc ha i σ inp hσ, gather_map]
/-- coil-free expressions are **invariant** -/
theorem iexpr_invariant {D : Type} (add : D → D → D) (zero : D) (hc : ∀ a b, add a b = add b a)
    (ha : ∀ a b c, add (add a b) c = add a (add b c)) (i : IExpr D) (σ : List Nat) (inp : List (D × D))
    (hσ : σ.Perm (List.range inp.length)) : i.eval add zero (gather σ inp) = i.eval add zero inp := by
  cases i with
  | sum e =>
    simp only [IExpr.eval]
    rw [cexpr_equivariant add zero hc ha e σ inp hσ]
    apply foldr_perm add zero hc ha
    have := gather_perm σ (e.eval add zero inp) (by rw [cexpr_length]; exact hσ)
    exact this
  | const d => rfl
  | op f i => simp [IExpr.eval, iexpr_invariant add zero hc ha i σ inp hσ]
  | op2 g a b => simp [IExpr.eval, iexpr_invariant add zero hc ha a σ inp hσ, iexpr_invariant add zero hc ha b σ inp hσ]
end

end DirectVerif.C18
