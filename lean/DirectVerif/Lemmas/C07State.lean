import DirectVerif.Model.C07State
import DirectVerif.Props.C07
/-!
# C07 — the budget of every call of a call history (process-level state)

`history_budget`: with freshly bound kernel arrays (the decided table predicate of the bridge) every call of every
history of Gaussian calls sharing one centre region realises its own budget, whatever the earlier calls were;
`shared_array_violates`: handing a memoised array to the in-place kernel breaks exactly that.
-/
namespace DirectVerif.C07
open DirectVerif DirectVerif.MaskBudget

/-- a call with a freshly bound array neither reads nor writes the process state -/
theorem fresh_call_state_free (disc : List Bool) (x : ℚ) (cands : List Int) (p p' : Proc) :
    (gaussCall false disc x cands p).1 = (gaussCall false disc x cands p').1 ∧ (gaussCall false disc x cands p).2 = p := by
  unfold gaussCall
  simp only [Bool.false_eq_true, if_false]
  cases gaussLoop (gaussianRequest x (countTrue disc)) cands 0 disc <;> exact ⟨rfl, rfl⟩

/-- every entry of a fresh-array history is what the same request gives in an empty process -/
theorem fresh_history_independent (disc : List Bool) :
    ∀ (calls : List (ℚ × List Int)) (p : Proc),
      runCalls false disc calls p = calls.map fun c => (gaussCall false disc c.1 c.2 ⟨none⟩).1 := by
  intro calls
  induction calls with
  | nil => intro p; rfl
  | cons c rest ih =>
    intro p
    obtain ⟨x, cands⟩ := c
    unfold runCalls
    simp only [List.map_cons]
    rw [(fresh_call_state_free disc x cands p ⟨none⟩).2, ih p, (fresh_call_state_free disc x cands p ⟨none⟩).1]

/-- **the budget holds at every step of a call history**: with freshly bound kernel arrays, for every history of
requests sharing one centre region (any accelerations, any candidate streams, any process state at the start), every
call that returns a mask and whose request is feasible is within half a sample of its own target -/
theorem history_budget (disc : List Bool) (calls : List (ℚ × List Int)) (p : Proc) (i : Nat) (m : List Bool)
    (hi : (runCalls false disc calls p)[i]? = some (some m))
    (hfeas : ∀ c, calls[i]? = some c → (countTrue disc : ℚ) + 1 / 2 ≤ c.1) :
    ∃ c, calls[i]? = some c ∧ |(countTrue m : ℚ) - c.1| ≤ 1 / 2 := by
  rw [fresh_history_independent disc calls p, List.getElem?_map] at hi
  cases hc : calls[i]? with
  | none => rw [hc] at hi; simp at hi
  | some c =>
    rw [hc] at hi
    simp only [Option.map_some, Option.some.injEq] at hi
    refine ⟨c, rfl, ?_⟩
    unfold gaussCall at hi
    simp only [Bool.false_eq_true, if_false] at hi
    cases hl : gaussLoop (gaussianRequest c.1 (countTrue disc)) c.2 0 disc with
    | none => rw [hl] at hi; simp at hi
    | some m' =>
      rw [hl] at hi
      simp only [Option.some.injEq] at hi
      subst hi
      exact gaussian_budget c.1 disc m' c.2 (hfeas c hc) hl

/-- **a memoised array handed to the in-place kernel violates the budget of the next call**: 8 cells, 1 centre cell;
first `N/R = 4` (four cells sampled), then `N/R = 2` in the same process: the second call starts from the filled array,
requests a negative number of additions and returns the four cells of the first call -/
theorem shared_array_violates :
    runCalls true [true, false, false, false, false, false, false, false] [(4, [1, 2, 3]), (2, [5])] ⟨none⟩ =
      [some [true, true, true, true, false, false, false, false], some [true, true, true, true, false, false, false, false]] ∧
    ¬ |(countTrue [true, true, true, true, false, false, false, false] : ℚ) - 2| ≤ 1 / 2 := by
  refine ⟨by decide +kernel, ?_⟩
  norm_num [countTrue]

/-- the same history with freshly bound arrays: four cells, then two -/
example : runCalls false [true, false, false, false, false, false, false, false] [(4, [1, 2, 3]), (2, [5])] ⟨none⟩ =
    [some [true, true, true, true, false, false, false, false], some [true, false, false, false, false, true, false, false]] := by
  decide +kernel

/-- a table row accepted by the predicate never hands a shared object to a kernel -/
theorem kernel_arrays_not_shared (tbl : List (String × String × List String)) (h : kernelArraysOk tbl = true) :
    ∀ r ∈ tbl, rowShared r = false := by
  intro r hr
  unfold kernelArraysOk at h
  rw [Bool.and_eq_true] at h
  have := List.all_eq_true.mp h.2 r hr
  unfold rowShared
  simp only [this, Bool.not_true]

/-- what the predicate rejects: the array of the static Gaussian2D call bound to the result of a memoised function -/
example : kernelArraysOk
    [("VariableDensityPoissonMaskFunc.poisson:_poisson", "mask", ["alloc"]),
     ("Gaussian1DMaskFunc.mask_func:gaussian_mask_1d", "mask[i]", ["copy", "copy"]),
     ("Gaussian1DMaskFunc.mask_func:gaussian_mask_1d", "mask", ["copy", "copy", "view"]),
     ("Gaussian2DMaskFunc.mask_func:gaussian_mask_2d", "mask[i]", ["cached-or-unknown-call:_acs_disk_mask", "copy"]),
     ("Gaussian2DMaskFunc.mask_func:gaussian_mask_2d", "mask", ["cached-or-unknown-call:_acs_disk_mask", "copy", "view"])] = false := by
  decide

end DirectVerif.C07
