import DirectVerif.Lemmas.C15Wf
/-!
# Save routines that delete older checkpoints: crash safety when nothing is deleted before the pointer moved — no Mathlib
-/
namespace DirectVerif.Ckpt

/-- a successful `load('latest')` only depends on `last_model.txt` and on the file it names -/
theorem loadLatest_ok_frame {S} (decode : Bytes → Option S) (d d' : Dir) (it : Int) (s : S)
    (h : loadLatest decode d = .ok it s) (hl : d' .last = d .last) (hm : d' (.model it) = d (.model it)) :
    loadLatest decode d' = .ok it s := by
  unfold loadLatest at h ⊢
  rw [hl]
  cases h1 : d .last with
  | none => rw [h1] at h; cases h
  | some txt =>
    rw [h1] at h
    simp only at h ⊢
    cases h2 : parseInt (readline txt) with
    | none => rw [h2] at h; cases h
    | some it' =>
      rw [h2] at h
      simp only at h ⊢
      cases h3 : d (.model it') with
      | none => rw [h3] at h; cases h
      | some b =>
        rw [h3] at h
        simp only at h
        cases h4 : decode b with
        | none => rw [h4] at h; cases h
        | some s' =>
          rw [h4] at h
          simp only at h
          injection h with e1 e2
          subst e1; subst e2
          rw [hm, h3]
          simp only [h4]

theorem wfTables_no_prune : wfTables.all (fun t => !t.contains Stmt.prune) = true := by decide

theorem instStmtX_of_ne (it : Int) (chunks : List Bytes) (dels : List Int) (s : Stmt) (h : s ≠ .prune) :
    instStmtX it chunks dels s = instStmt it chunks s := by
  cases s <;> first | rfl | exact absurd rfl h

theorem opsOfX_of_no_prune (t : List Stmt) (it : Int) (chunks : List Bytes) (dels : List Int)
    (h : ∀ s ∈ t, s ≠ Stmt.prune) : opsOfX t it chunks dels = opsOf t it chunks := by
  unfold opsOfX opsOf
  induction t with
  | nil => rfl
  | cons a r ih =>
    simp only [List.flatMap_cons]
    rw [instStmtX_of_ne _ _ _ _ (h a List.mem_cons_self), ih (fun s hs => h s (List.mem_cons_of_mem _ hs))]

theorem opsOfX_append (a b : List Stmt) (it : Int) (chunks : List Bytes) (dels : List Int) :
    opsOfX (a ++ b) it chunks dels = opsOfX a it chunks dels ++ opsOfX b it chunks dels := by
  simp [opsOfX, List.flatMap_append]

/-- the operations of `n` pruning statements only unlink `model_<j>.pt` files with `j ∈ dels` -/
theorem prune_ops_touch (n : Nat) (it : Int) (chunks : List Bytes) (dels : List Int) :
    ∀ o ∈ opsOfX (List.replicate n Stmt.prune) it chunks dels, ∀ g, touches o g → ∃ j ∈ dels, g = .model j := by
  intro o ho g hg
  simp only [opsOfX, List.mem_flatMap, List.mem_replicate] at ho
  obtain ⟨st, ⟨_, rfl⟩, ho⟩ := ho
  simp only [instStmtX, List.mem_map] at ho
  obtain ⟨j, hj, rfl⟩ := ho
  exact ⟨j, hj, hg⟩

/-- decomposition of a well-formed table with pruning -/
theorem wfSaveX_decomp {t : List Stmt} (h : wfSaveX t = true) :
    ∃ core n, wfSave core = true ∧ t = core ++ List.replicate n Stmt.prune ∧ ∀ s ∈ core, s ≠ Stmt.prune := by
  simp only [wfSaveX, Bool.and_eq_true, beq_iff_eq] at h
  refine ⟨t.filter (· != .prune), _, h.1, h.2, ?_⟩
  intro s hs
  simp only [List.mem_filter, bne_iff_ne, ne_eq] at hs
  exact hs.2

/-- **Crash safety of a save that prunes older checkpoints after the pointer moved**: for every well-formed table with
pruning (`wfSaveX`), every directory, label, chunking, every set `dels` of deleted labels that does not contain the new
label, and every crash point — including between and after the deletions — `load('latest')` gives what it gave before
the save or the new checkpoint. -/
theorem crash_safe_of_wfX {S} (decode : Bytes → Option S) (t : List Stmt) (hwf : wfSaveX t = true)
    (d : Dir) (it : Nat) (chunks : List Bytes) (s : S) (hdec : decode chunks.flatten = some s)
    (dels : List Int) (hd : (it : Int) ∉ dels) (p : List FsOp) (hp : CrashOf (opsOfX t it chunks dels) p) :
    loadLatest decode (run d p) = loadLatest decode d ∨ loadLatest decode (run d p) = .ok it s := by
  obtain ⟨core, n, hcore, rfl, hnp⟩ := wfSaveX_decomp hwf
  rw [opsOfX_append, opsOfX_of_no_prune core it chunks dels hnp] at hp
  rcases hp.append_cases with h1 | ⟨q, rfl, hq⟩
  · exact crash_safe_of_wf decode core hcore d it chunks s hdec p h1
  · right
    rw [run_append]
    have hfull := save_then_load_of_wf decode core hcore d it chunks s hdec
    have hq' := hq.touches
    have hno : ∀ g, (g = .last ∨ g = .model it) → ∀ o ∈ q, ¬ touches o g := by
      intro g hg o ho ht
      obtain ⟨o', ho', ht'⟩ := hq' o ho g ht
      obtain ⟨j, hj, e⟩ := prune_ops_touch n it chunks dels o' ho' g ht'
      rcases hg with rfl | rfl
      · cases e
      · injection e with e; subst e; exact hd hj
    exact loadLatest_ok_frame decode _ _ it s hfull
      (run_frame _ q .last (hno .last (Or.inl rfl)))
      (run_frame _ q (.model it) (hno (.model it) (Or.inr rfl)))

/-- … and the completed save yields the new checkpoint -/
theorem save_then_load_of_wfX {S} (decode : Bytes → Option S) (t : List Stmt) (hwf : wfSaveX t = true)
    (d : Dir) (it : Nat) (chunks : List Bytes) (s : S) (hdec : decode chunks.flatten = some s)
    (dels : List Int) (hd : (it : Int) ∉ dels) :
    loadLatest decode (run d (opsOfX t it chunks dels)) = .ok it s := by
  obtain ⟨core, n, hcore, rfl, hnp⟩ := wfSaveX_decomp hwf
  rw [opsOfX_append, opsOfX_of_no_prune core it chunks dels hnp, run_append]
  have hfull := save_then_load_of_wf decode core hcore d it chunks s hdec
  have hno : ∀ g, (g = .last ∨ g = .model it) →
      ∀ o ∈ opsOfX (List.replicate n Stmt.prune) it chunks dels, ¬ touches o g := by
    intro g hg o ho ht
    obtain ⟨j, hj, e⟩ := prune_ops_touch n it chunks dels o ho g ht
    rcases hg with rfl | rfl
    · cases e
    · injection e with e; subst e; exact hd hj
  exact loadLatest_ok_frame decode _ _ it s hfull
    (run_frame _ _ .last (hno .last (Or.inl rfl)))
    (run_frame _ _ (.model it) (hno (.model it) (Or.inr rfl)))

/-! ### exceptions inside a write: the clean-up of a well-formed table only closes files -/

theorem run_closes (d : Dir) (a cl : List FsOp) (h : ∀ o ∈ cl, ∃ f, o = .close f) : run d (a ++ cl) = run d a := by
  rw [run_append]
  generalize run d a = d'
  induction cl generalizing d' with
  | nil => rfl
  | cons o r ih =>
    obtain ⟨f, rfl⟩ := h o List.mem_cons_self
    rw [run_cons]
    exact ih (fun o' ho' => h o' (List.mem_cons_of_mem _ ho')) _

theorem unwindOps_closes (xt : List XStmt) (hwf : wfUnwind xt = true) (it : Int) (chunks : List Bytes) (i : Nat) :
    ∀ o ∈ unwindOps xt it chunks i, ∃ f, o = .close f := by
  intro o ho
  simp only [unwindOps, List.mem_flatMap, List.mem_filter] at ho
  obtain ⟨xj, ⟨hmem, hcond⟩, ho⟩ := ho
  have hx : xj.1 ∈ xt := by
    have := List.mem_zipIdx hmem
    rw [this.2.2]
    exact List.getElem_mem _
  simp only [wfUnwind, List.all_eq_true] at hwf
  have hw := hwf xj.1 hx
  cases hu : xj.1.unwindFrom with
  | none => simp [hu] at hcond
  | some a =>
    simp only [hu, Option.isNone_some, Bool.false_or] at hw
    cases hs : xj.1.stmt with
    | closeF f =>
      rw [hs] at ho
      simp only [instStmt, List.mem_singleton] at ho
      exact ⟨_, ho⟩
    | openW f => rw [hs] at hw; cases hw
    | writePayload f => rw [hs] at hw; cases hw
    | writeLabel f => rw [hs] at hw; cases hw
    | replace a b => rw [hs] at hw; cases hw
    | prune => rw [hs] at hw; cases hw

/-- **an exception raised inside any write of a save leaves the directory of the corresponding crash prefix**: for a
table whose exceptional path only closes files, unwinding changes nothing on disk -/
theorem run_excOps (xt : List XStmt) (hwf : wfUnwind xt = true) (d : Dir) (it : Int) (chunks : List Bytes) (n m : Nat) :
    run d (excOps xt it chunks n m) = run d (crashAt (opsOf (xt.map (·.stmt)) it chunks) n (some m)) :=
  run_closes d _ _ (unwindOps_closes xt hwf it chunks _)

end DirectVerif.Ckpt
