import DirectVerif.Lemmas.C14Recon
/-!
Helper lemmas for C14 (phase 2): processing inside the loop, loader, writer.
-/
namespace DirectVerif.Recon
open DirectVerif DirectVerif.Sampler

theorem reconstructP_ok {β} (sizeOf : Nat → Option Nat) (zero : β) (bs : List (RBatch β)) :
    ∀ s : RState β, reconstructP sizeOf zero s (bs.map fun b => (b.fnames, Except.ok b.outs)) =
      reconstruct sizeOf zero s bs := by
  induction bs with
  | nil => intro s; rfl
  | cons b bs ih =>
    intro s
    simp only [List.map_cons, reconstructP, reconstruct]
    cases h : rstep sizeOf zero s ⟨b.fnames, b.outs⟩ with
    | error e => rfl
    | ok r => simp only [ih]

theorem mapM_id_of_forall_some {α β} (f : α → Option β) (g : α → β) (l : List α)
    (h : ∀ a ∈ l, f a = some (g a)) : (l.map f).mapM id = some (l.map g) := by
  induction l with
  | nil => rfl
  | cons a l ih =>
    have ha := h a (by simp)
    have hl := ih (fun b hb => h b (by simp [hb]))
    simp only [List.map_cons, List.mapM_cons, id, ha, hl]
    rfl

theorem zipWith_map_map {α β γ δ} (f : β → γ → δ) (g : α → β) (h : α → γ) (l : List α) :
    List.zipWith f (l.map g) (l.map h) = l.map fun a => f (g a) (h a) := by
  induction l with
  | nil => rfl
  | cons a l ih => simp [ih]

/-- one single-volume batch: if the first element's header gives resolution `res`, every element has
the same header and every slice crops fine, the batch's `output_abs` is the list of processed slices -/
theorem processBatch_piece {α σ} (mul : α → σ → α) (key : CropKey) (fwd : Nat → Img α) (scale : Nat → σ)
    (recon : Nat → List Nat) (out : Nat → Img α) (p : List Nat) (hp : p ≠ []) (r0 : List Nat)
    (res : Option (Nat × Nat)) (hres : computeResolution key r0 = .ok res)
    (hrec : ∀ i ∈ p, recon i = r0)
    (hout : ∀ i ∈ p, processSlice mul res (fwd i) (scale i) = some (out i)) :
    processBatch mul key (p.map fwd) (p.map scale) (p.map recon) = .ok (p.map out) := by
  unfold processBatch
  have hhead : (p.map recon).headD [] = r0 := by
    cases p with
    | nil => exact absurd rfl hp
    | cons i is => simp [hrec i (by simp)]
  rw [hhead, hres]
  simp only [processOutput, zipWith_map_map]
  rw [mapM_id_of_forall_some _ out p hout]

/-! ### writer -/

theorem readFile_writeFile_same {γ} (d : Dir γ) (n : Nat) (k : String) (x : γ) :
    readFile (writeFile d n k x) n = some (k, x) := by
  simp [readFile, writeFile]

theorem readFile_writeFile_other {γ} (d : Dir γ) (n m : Nat) (k : String) (x : γ) (h : n ≠ m) :
    readFile (writeFile d n k x) m = readFile d m := by
  unfold readFile writeFile
  rw [List.find?_cons]
  have h1 : (n == m) = false := by rw [beq_eq_false_iff_ne]; exact h
  simp only [h1]
  congr 1
  induction d with
  | nil => rfl
  | cons e es ih =>
    simp only [List.filter_cons]
    by_cases he : e.1 = n
    · have : (e.1 != n) = false := by simp [he]
      simp only [this, Bool.false_eq_true, if_false, List.find?_cons]
      have : (e.1 == m) = false := by rw [beq_eq_false_iff_ne, he]; exact h
      rw [this]; exact ih
    · have : (e.1 != n) = true := by simp [he]
      simp only [this, if_true, List.find?_cons]
      cases e.1 == m <;> simp [ih]

theorem writeOutput_cons {γ δ} (base : Nat → Nat) (chan0 : δ → γ) (key : String) (d : Dir γ) (o : δ × Nat)
    (os : List (δ × Nat)) :
    writeOutput base chan0 key d (o :: os) =
      writeOutput base chan0 key (writeFile d (base o.2) key (chan0 o.1)) os := rfl

theorem writeOutput_append {γ δ} (base : Nat → Nat) (chan0 : δ → γ) (key : String) (d : Dir γ)
    (a b : List (δ × Nat)) :
    writeOutput base chan0 key d (a ++ b) = writeOutput base chan0 key (writeOutput base chan0 key d a) b := by
  simp [writeOutput, List.foldl_append]

theorem writeOutput_read_untouched {γ δ} (base : Nat → Nat) (chan0 : δ → γ) (key : String)
    (output : List (δ × Nat)) :
    ∀ (d : Dir γ) (m : Nat), (∀ o ∈ output, base o.2 ≠ m) →
      readFile (writeOutput base chan0 key d output) m = readFile d m := by
  induction output with
  | nil => intro d m _; rfl
  | cons o os ih =>
    intro d m h
    rw [writeOutput_cons, ih _ m (fun o' ho' => h o' (by simp [ho'])),
      readFile_writeFile_other _ _ _ _ _ (h o (by simp))]

theorem writeOutput_read {γ δ} (base : Nat → Nat) (chan0 : δ → γ) (key : String)
    (output : List (δ × Nat)) (hd : output.Pairwise fun a b => base a.2 ≠ base b.2) :
    ∀ (d : Dir γ), ∀ o ∈ output,
      readFile (writeOutput base chan0 key d output) (base o.2) = some (key, chan0 o.1) := by
  induction output with
  | nil => intro d o ho; simp at ho
  | cons a os ih =>
    intro d o ho
    rw [List.pairwise_cons] at hd
    rw [writeOutput_cons]
    simp only [List.mem_cons] at ho
    cases ho with
    | inl e =>
      subst e
      rw [writeOutput_read_untouched base chan0 key os _ _ (fun o' ho' => (hd.1 o' ho').symm),
        readFile_writeFile_same]
    | inr e => exact ih hd.2 _ o e

end DirectVerif.Recon
