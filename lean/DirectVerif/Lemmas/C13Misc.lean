import DirectVerif.Lemmas.C13Bvs
/-!
Helper lemmas for C13: layout slices, `ConcatDatasetBatchSampler` loop, `islice`.
-/
namespace DirectVerif.Sampler
open DirectVerif

/-! ### slices of the layout -/

theorem volsFrom_drop (id off : Nat) (ns : List Nat) (a : Nat) :
    (volsFrom id off ns).drop a = volsFrom (id + a) (off + (ns.take a).sum) (ns.drop a) := by
  induction ns generalizing id off a with
  | nil => simp [volsFrom]
  | cons n ns ih =>
    cases a with
    | zero => simp [volsFrom]
    | succ a =>
      simp only [volsFrom, List.drop_succ_cons, List.take_succ_cons, List.sum_cons, ih]
      congr 1 <;> omega

theorem volsFrom_slice (id off : Nat) (ns : List Nat) (a b : Nat) :
    slice (volsFrom id off ns) a b = volsFrom (id + a) (off + (ns.take a).sum) (slice ns a b) := by
  unfold slice
  rw [volsFrom_take, volsFrom_drop]
  by_cases h : a ≤ b
  · rw [List.take_take, Nat.min_eq_left h]
  · have e : (ns.take b).drop a = [] := by
      apply List.drop_eq_nil_of_le
      simp only [List.length_take]; omega
    rw [e]; simp [volsFrom]

/-! ### `batch_sampler` of the concat sampler -/

theorem batchLoop_eq_chunksOf (bs off : Nat) (hbs : 0 < bs) (stream : List Nat) :
    ∀ acc : List Nat, acc.length < bs →
      batchLoop bs off acc stream = chunksOf bs (acc ++ stream.map (· + off)) := by
  induction stream with
  | nil =>
    intro acc hacc
    simp only [batchLoop, List.map_nil, List.append_nil]
    by_cases h0 : 0 < acc.length
    · simp only [h0, if_true]
      rw [chunksOf_of_length_le bs acc h0 (by omega)]
    · have : acc = [] := List.eq_nil_of_length_eq_zero (by omega)
      subst this
      simp [chunksOf_nil]
  | cons i is ih =>
    intro acc hacc
    rw [batchLoop]
    by_cases hfull : (acc ++ [i + off]).length = bs
    · simp only [hfull, beq_self_eq_true, if_true]
      rw [ih [] (by simpa using hbs)]
      simp only [List.nil_append, List.map_cons]
      have e : acc ++ (i + off) :: is.map (· + off) = (acc ++ [i + off]) ++ is.map (· + off) := by simp
      rw [e, chunksOf_append_of_length_eq bs _ _ hbs hfull]
    · have hb : ((acc ++ [i + off]).length == bs) = false := by simpa using hfull
      simp only [hb, Bool.false_eq_true, if_false]
      rw [ih (acc ++ [i + off]) (by
        simp only [List.length_append, List.length_cons, List.length_nil] at hfull ⊢; omega)]
      simp

theorem batchSampler_eq_chunksOf (bs off : Nat) (hbs : 0 < bs) (stream : List Nat) :
    batchSampler bs off stream = chunksOf bs (stream.map (· + off)) := by
  unfold batchSampler
  rw [batchLoop_eq_chunksOf bs off hbs stream [] (by simpa using hbs)]
  simp

/-- what one `__next__` returns for member `m` after `t` earlier draws of `m` -/
theorem concat_batch_props (bs off t : Nat) (hbs : 0 < bs) (full batch : List Nat)
    (hlen : full.length = (t + 1) * bs)
    (h : (batchSampler bs off full)[t]? = some batch) :
    batch.length = bs ∧ ∀ e ∈ batch, ∃ x ∈ full, e = x + off := by
  rw [batchSampler_eq_chunksOf bs off hbs] at h
  have hm : batch ∈ chunksOf bs (full.map (· + off)) := List.mem_of_getElem? h
  obtain ⟨j, hj, hlt⟩ := chunksOf_mem bs hbs _ batch hm
  simp only [List.length_map, hlen] at hlt
  have hjt : j ≤ t := by
    have := Nat.lt_of_mul_lt_mul_right hlt
    omega
  constructor
  · rw [hj, List.length_take, List.length_drop, List.length_map, hlen]
    have : j * bs + bs ≤ (t + 1) * bs := by
      have := Nat.mul_le_mul_right bs (show j + 1 ≤ t + 1 by omega)
      rw [Nat.add_mul, Nat.one_mul] at this
      exact this
    omega
  · intro e he
    rw [hj] at he
    have he2 := List.mem_of_mem_drop (List.mem_of_mem_take he)
    rw [List.mem_map] at he2
    obtain ⟨x, hx, hxe⟩ := he2
    exact ⟨x, hx, hxe.symm⟩

theorem concatRunFrom_spec (sizes : List Nat) (bs : Nat) (streams : List (List Nat)) (draws : List Nat) :
    ∀ (counts : List Nat) (i m : Nat) (batch : List Nat), draws[i]? = some m →
      (concatRunFrom sizes bs streams counts draws)[i]? = some (some batch) →
      ∃ t, ((streams.getD m []).take ((t + 1) * bs)).length = (t + 1) * bs ∧
        (batchSampler bs (concatOffset sizes m) ((streams.getD m []).take ((t + 1) * bs)))[t]? = some batch := by
  induction draws with
  | nil => intro counts i m batch h; simp at h
  | cons d ds ih =>
    intro counts i m batch hd hb
    cases i with
    | zero =>
      simp only [List.getElem?_cons_zero, Option.some.injEq] at hd
      subst hd
      simp only [concatRunFrom, List.getElem?_cons_zero, Option.some.injEq] at hb
      refine ⟨counts.getD d 0, ?_⟩
      split at hb
      · rename_i hl; exact ⟨hl, hb⟩
      · simp at hb
    | succ i =>
      simp only [List.getElem?_cons_succ] at hd
      simp only [concatRunFrom, List.getElem?_cons_succ] at hb
      exact ih _ i m batch hd hb

/-! ### cumulative sizes -/

theorem cumsumFrom_getElem? (s : Nat) (sizes : List Nat) (i : Nat) (hi : i < sizes.length) :
    (cumsumFrom s sizes)[i]? = some (s + (sizes.take (i + 1)).sum) := by
  induction sizes generalizing s i with
  | nil => simp at hi
  | cons e es ih =>
    cases i with
    | zero => simp [cumsumFrom]; omega
    | succ i =>
      simp only [cumsumFrom, List.getElem?_cons_succ, List.take_succ_cons, List.sum_cons]
      rw [ih (s + e) i (by simpa using hi)]
      congr 1; omega

theorem concatOffset_eq (sizes : List Nat) (m : Nat) (hm : m ≤ sizes.length) :
    concatOffset sizes m = (sizes.take m).sum := by
  unfold concatOffset
  cases m with
  | zero => simp
  | succ m =>
    simp only [Nat.add_one_ne_zero, if_false, Nat.add_sub_cancel, cumsum]
    rw [List.getD_eq_getElem?_getD, cumsumFrom_getElem? 0 sizes m (by omega)]
    simp

/-! ### `islice` -/

theorem isliceAux_getElem? {α} (step : Nat) (hs : 0 < step) :
    ∀ (xs : List α) (s k : Nat), (isliceAux step xs s)[k]? = xs[s + k * step]? := by
  intro xs
  induction xs with
  | nil => intro s k; simp [isliceAux]
  | cons x xs ih =>
    intro s k
    cases s with
    | succ s =>
      rw [isliceAux, ih s k, show s + 1 + k * step = (s + k * step) + 1 by omega,
        List.getElem?_cons_succ]
    | zero =>
      rw [isliceAux]
      cases k with
      | zero => simp
      | succ k =>
        rw [List.getElem?_cons_succ, ih (step - 1) k,
          show 0 + (k + 1) * step = (step - 1 + k * step) + 1 by rw [Nat.add_mul]; omega,
          List.getElem?_cons_succ]

theorem islice_getElem? {α} (step : Nat) (hs : 0 < step) (k : Nat) (xs : List α) (start : Nat) :
    (islice xs start step)[k]? = xs[start + k * step]? :=
  isliceAux_getElem? step hs xs start k

end DirectVerif.Sampler
