import DirectVerif.Lemmas.C17Chan
/-!
C17: the spatial program and the channel program of a network emit at the same hooks (`emits p = cemits q`), and a
successful run appends exactly one trace entry per `emit` — so the two traces zip into the full shapes seen by the hooks.
-/
namespace DirectVerif.C17L
open DirectVerif.Shapes


theorem step_trace_len (op : Op) (st st' : State) (h : step op st = .ok st') :
    st'.trace.length = st.trace.length + (if op = .emit then 1 else 0) := by
  cases op <;> simp only [step, axes] at h <;> (repeat' (split at h)) <;>
    first
    | (injection h with h; subst h; simp)
    | (exact absurd h (by simp))

theorem run_trace_len (p : List Op) : ∀ (st st' : State), run p st = .ok st' →
    st'.trace.length = st.trace.length + emits p := by
  induction p with
  | nil => intro st st' h; cases h; simp [emits]
  | cons op ops ih =>
    intro st st' h
    simp only [run] at h
    cases hs : step op st with
    | error e => rw [hs] at h; cases h
    | ok s1 =>
      rw [hs] at h
      have a := step_trace_len op st s1 hs
      have b := ih s1 st' h
      by_cases he : op = .emit
      · subst he; simp [emits] at a b ⊢; omega
      · have : (op == Op.emit) = false := by simpa using he
        simp [emits, he, this] at a b ⊢; omega

theorem cstep_trace_len (op : COp) (st st' : CState) (h : cstep op st = .ok st') :
    st'.trace.length = st.trace.length + (if op = .emit then 1 else 0) := by
  cases op <;> simp only [cstep] at h <;> (repeat' (split at h)) <;>
    first
    | (injection h with h; subst h; simp)
    | (exact absurd h (by simp))

theorem runC_trace_len (p : List COp) : ∀ (st st' : CState), runC p st = .ok st' →
    st'.trace.length = st.trace.length + cemits p := by
  induction p with
  | nil => intro st st' h; cases h; simp [cemits]
  | cons op ops ih =>
    intro st st' h
    simp only [runC] at h
    cases hs : cstep op st with
    | error e => rw [hs] at h; cases h
    | ok s1 =>
      rw [hs] at h
      have a := cstep_trace_len op st s1 hs
      have b := ih s1 st' h
      by_cases he : op = .emit
      · subst he; simp [cemits] at a b ⊢; omega
      · have : (op == COp.emit) = false := by simpa using he
        simp [cemits, he, this] at a b ⊢; omega



theorem emits_append (p q : List Op) : emits (p ++ q) = emits p + emits q := by
  simp [emits, List.filter_append]
theorem cemits_append (p q : List COp) : cemits (p ++ q) = cemits p + cemits q := by
  simp [cemits, List.filter_append]

theorem emits_convBlock (P : UnetP) : emits (convBlock P) = 0 := by simp [emits, convBlock]
theorem cemits_convBlockC (a b : Nat) : cemits (convBlockC a b) = 0 := by simp [cemits, convBlockC]

theorem emits_unetLv (P : UnetP) (L : Nat) : emits (unetLv P L) = 3 * L + 1 := by
  induction L with
  | zero => simp [unetLv, emits_append, emits_convBlock]; simp [emits]
  | succ L ih =>
    simp only [unetLv, emits_append, emits_convBlock, ih]
    simp [emits]; omega

theorem cemits_unetLvC (L : Nat) : ∀ a b : Nat, cemits (unetLvC a b L) = 3 * L + 1 := by
  induction L with
  | zero => intro a b; simp [unetLvC, cemits_append, cemits_convBlockC]; simp [cemits]
  | succ L ih =>
    intro a b
    simp only [unetLvC, cemits_append, cemits_convBlockC, ih]
    simp [cemits]; omega

theorem cemits_mdConvC (k : Bool) (a b : Nat) : cemits (mdConvC k a b) = 0 := by cases k <;> simp [cemits, mdConvC]
theorem cemits_mdBlockC (k : Bool) (a b : Nat) : cemits (mdBlockC k a b) = 0 := by
  simp only [mdBlockC, cemits_append, cemits_mdConvC]; simp [cemits]

theorem cemits_mdLvC (L : Nat) : ∀ (k : Bool) (a b : Nat), cemits (mdLvC k a b L) = 3 * L + 1 := by
  induction L with
  | zero => intro k a b; simp only [mdLvC, cemits_append, cemits_mdBlockC]; simp [cemits]
  | succ L ih =>
    intro k a b
    simp only [mdLvC, cemits_append, cemits_mdBlockC, cemits_mdConvC, ih]
    simp [cemits]; omega

theorem cemits_mdUnetC (cin cout F L : Nat) : cemits (mdUnetC cin cout F L) = 3 * (L - 1) + 4 := by
  simp only [mdUnetC, cemits_append, cemits_mdBlockC, cemits_mdConvC, cemits_mdLvC]
  simp [cemits]; omega

theorem emits_unet (P : UnetP) (L : Nat) : emits (unet P L) = 3 * L + 1 := by
  cases L with
  | zero => exact emits_unetLv P 0
  | succ L =>
    simp only [unet, emits_append, emits_convBlock, emits_unetLv]
    simp [emits]; omega

theorem cemits_unetC (cin cout F L : Nat) : cemits (unetC cin cout F L) = 3 * L + 1 := by
  cases L with
  | zero => exact cemits_unetLvC 0 cin F
  | succ L =>
    simp only [unetC, cemits_append, cemits_convBlockC, cemits_unetLvC]
    simp [cemits]; omega



theorem emits_mwDown (P : MwP) (a b : Nat) : emits (mwDown P a b) = 0 := by simp [emits, mwDown]
theorem emits_mwUp (P : MwP) (a b : Nat) : emits (mwUp P a b) = 0 := by simp [emits, mwUp]
theorem cemits_bnC (bn : Bool) (a : Nat) : cemits (bnC bn a) = 0 := by cases bn <;> simp [cemits, bnC]
theorem cemits_mwDownC (bn sv : Bool) (a b : Nat) : cemits (mwDownC bn sv a b) = 0 := by
  cases sv <;> simp only [mwDownC, cemits_append, cemits_bnC] <;> simp [cemits]
theorem cemits_mwUpC (bn : Bool) (a b : Nat) : cemits (mwUpC bn a b) = 0 := by
  simp only [mwUpC, cemits_append, cemits_bnC]; simp [cemits]

theorem emits_mwBelow (P : MwP) (r : Nat) : emits (mwBelow P r) = 4 * (r + 1) := by
  induction r with
  | zero => simp only [mwBelow, emits_append, emits_mwDown, emits_mwUp]; simp [emits]
  | succ r ih => simp only [mwBelow, emits_append, emits_mwDown, emits_mwUp, ih]; simp [emits]; omega

theorem cemits_mwBelowC (bn : Bool) (r : Nat) : ∀ w : Nat, cemits (mwBelowC bn w r) = 4 * (r + 1) := by
  induction r with
  | zero => intro w; simp only [mwBelowC, cemits_append, cemits_mwDownC, cemits_mwUpC]; simp [cemits]
  | succ r ih => intro w; simp only [mwBelowC, cemits_append, cemits_mwDownC, cemits_mwUpC, ih]; simp [cemits]; omega

theorem emits_mwcnn_eq (P : MwP) (bn : Bool) (cin F S : Nat) : emits (mwcnn P S) = cemits (mwcnnC bn cin F S) := by
  match S with
  | 0 => rfl
  | 1 => simp only [mwcnn, mwcnnC, emits_append, cemits_append, emits_mwDown, emits_mwUp, cemits_mwDownC, cemits_mwUpC]; simp [emits, cemits]
  | S + 2 =>
    simp only [mwcnn, mwcnnC, emits_append, cemits_append, emits_mwDown, emits_mwUp, cemits_mwDownC, cemits_mwUpC, emits_mwBelow,
      cemits_mwBelowC]
    simp [emits, cemits]

theorem emits_resnet_eq (cin cout h : Nat) (bn : Bool) (nb : Nat) : emits (resnet 3 1 (nb + 1)) = cemits (resnetC cin cout h bn nb) := by
  have e1 : ∀ m, emits (List.replicate m (Op.conv 3 1 1 1)) = 0 := by
    intro m; induction m with
    | zero => rfl
    | succ m ih => simp [emits, List.replicate_succ]
  have e2 : ∀ m, cemits (resBlocksC h bn m) = 0 := by
    intro m
    induction m using Nat.strongRecOn with
    | _ m ih =>
      match m with
      | 0 => rfl
      | 1 => simp only [resBlocksC, cemits_append, cemits_bnC]; simp [cemits]
      | m + 2 => simp only [resBlocksC, cemits_append, cemits_bnC, ih (m + 1) (by omega)]; simp [cemits]
  simp only [resnet, resnetC, emits_append, cemits_append, e1, e2]
  simp [emits, cemits]

theorem emits_convNet_eq (bn : Bool) (m : Nat) : ∀ cin cout h : Nat, emits (convNet 3 1 bn m) = cemits (convNetC cin cout h bn m) := by
  induction m with
  | zero => intro _ _ _; rfl
  | succ m ih =>
    intro cin cout h
    simp only [convNet, convNetC, emits_append, cemits_append, ih h cout h]
    cases bn <;> by_cases hm : m = 0 <;> simp [emits, cemits, hm]



theorem emits_nil : emits [] = 0 := rfl
theorem cemits_nil : cemits [] = 0 := rfl
theorem emits_cons (op : Op) (p : List Op) : emits (op :: p) = (if op = .emit then 1 else 0) + emits p := by
  by_cases h : op = .emit
  · subst h; simp [emits]; omega
  · have : (op == Op.emit) = false := by simpa using h
    simp [emits, h, this]
theorem cemits_cons (op : COp) (p : List COp) : cemits (op :: p) = (if op = .emit then 1 else 0) + cemits p := by
  by_cases h : op = .emit
  · subst h; simp [cemits]; omega
  · have : (op == COp.emit) = false := by simpa using h
    simp [cemits, h, this]

theorem emits_dubWith (P : DidnP) (em : List Op) : emits (dubWith P em) = 12 * emits em := by
  unfold dubWith
  simp only [emits_append]
  simp only [emits_cons, emits_nil]
  simp only [reduceCtorEq, ↓reduceIte]
  omega

theorem cemits_dubBodyC (c : Nat) (em : List COp) : cemits (dubBodyC c em) = 11 * cemits em := by
  unfold dubBodyC
  simp only [cemits_append]
  simp only [cemits_cons, cemits_nil]
  simp only [reduceCtorEq, ↓reduceIte]
  omega

theorem emits_dub_eq (P : DidnP) (c : Nat) (e : Bool) : emits (dub P e) = cemits (dubC c e) := by
  cases e <;> simp only [dub, dubC, emits_dubWith, cemits_append, cemits_dubBodyC] <;> simp [emits, cemits]

theorem emits_replicate_conv (m k s p d : Nat) : emits (List.replicate m (Op.conv k s p d)) = 0 := by
  induction m with
  | zero => rfl
  | succ m ih => simp [emits, List.replicate_succ]

theorem cemits_reconConvsC (c m : Nat) : cemits (reconConvsC c m) = 0 := by
  induction m with
  | zero => rfl
  | succ m ih => simp [cemits, reconConvsC, List.replicate_succ]

theorem emits_dubs (P : DidnP) (n : Nat) : emits (dubs P n) = n := by
  induction n with
  | zero => rfl
  | succ n ih => simp only [dubs, dub, emits_append, emits_dubWith, ih]; simp [emits]; omega

theorem cemits_dubsC (c n : Nat) : cemits (dubsC c n) = n := by
  induction n with
  | zero => rfl
  | succ n ih =>
    simp only [dubsC, dubInC, cemits_append, cemits_dubBodyC, ih]
    cases n <;> simp [cemits]

theorem emits_reconBlocks (P : DidnP) (nc n : Nat) : emits (reconBlocks P nc n) = n := by
  induction n with
  | zero => rfl
  | succ n ih => simp only [reconBlocks, emits_append, emits_replicate_conv, ih]; simp [emits]; omega

theorem cemits_reconsC (c nc nd m : Nat) : cemits (reconsC c nc nd m) = m := by
  induction m with
  | zero => rfl
  | succ m ih => simp only [reconsC, cemits_append, cemits_reconConvsC, ih]; simp [cemits]

theorem cemits_dropsC (m : Nat) : cemits (dropsC m) = 0 := by
  induction m with
  | zero => rfl
  | succ m ih => simpa [cemits, dropsC] using ih

theorem cemits_didnReconC (c nc nd : Nat) : cemits (didnReconC c nc nd) = nd := by
  match nd with
  | 0 => rfl
  | 1 => simp only [didnReconC, cemits_append, cemits_reconConvsC]; simp [cemits]
  | k + 2 => simp only [didnReconC, cemits_append, cemits_reconConvsC, cemits_reconsC, cemits_dropsC]; simp [cemits]

theorem emits_didn_eq (P : DidnP) (cin cout c nd nc : Nat) (skip skipC : Bool) :
    emits (didn P nd nc skip) = cemits (didnC cin cout c nd nc skipC) := by
  simp only [didn, didnC, didnTailC, emits_append, cemits_append, emits_dubs, cemits_dubsC, emits_reconBlocks, cemits_didnReconC]
  cases skip <;> cases skipC <;> simp [emits, cemits] <;> omega

/-! ## the full run: final shape, one record per hook, the batch axis at every hook -/

theorem zipWith_head (n : Nat) : ∀ (cs : List Nat) (ss : List Shape),
    ∀ x ∈ List.zipWith (fun c s => n :: c :: s) cs ss, x.head? = some n := by
  intro cs
  induction cs with
  | nil => intro ss x hx; simp at hx
  | cons c cs ih =>
    intro ss x hx
    cases ss with
    | nil => simp at hx
    | cons s ss =>
      simp only [List.zipWith_cons_cons, List.mem_cons] at hx
      rcases hx with rfl | hx
      · rfl
      · exact ih ss x hx

theorem fullRun_ok {sp : List Op} {ch : List COp} {n c c' : Nat} {s s' : Shape}
    (hs : ∃ tr, run sp ⟨s, [], []⟩ = .ok ⟨s', [], tr⟩) (hc : CRun ch c [] c' []) (ha : emits sp = cemits ch) :
    ∃ t, fullRun sp ch n c s = .ok ⟨n :: c' :: s', t⟩ ∧ t.length = emits sp ∧ ∀ x ∈ t, x.head? = some n := by
  obtain ⟨tr, hs⟩ := hs
  obtain ⟨ctr, hc⟩ := hc []
  have l1 := run_trace_len sp _ _ hs
  have l2 := runC_trace_len ch _ _ hc
  simp only [List.length_nil, Nat.zero_add] at l1 l2
  refine ⟨List.zipWith (fun c s => n :: c :: s) ctr tr, ?_, ?_, zipWith_head n ctr tr⟩
  · unfold fullRun
    rw [hs, hc]
  · rw [List.length_zipWith]; omega

theorem fullRun_spatial_err {sp : List Op} {ch : List COp} {n c : Nat} {s : Shape} {e : Err}
    (hs : run sp ⟨s, [], []⟩ = .error e) : fullRun sp ch n c s = .error e := by
  unfold fullRun
  rw [hs]

theorem normUnetC_ok (L cin cout F : Nat) (hL : 1 ≤ L) (r : List Nat) : CRun (normUnetC cin cout F L) cin r cout r := by
  have h := unetC_ok L cin cout F r
  have hne : L ≠ 0 := by omega
  simp only [hne, if_false] at h
  exact CRun.append h CRun.emit

theorem emits_normUnet_eq (P : UnetP) (cin cout F L : Nat) : emits (normUnet P L) = cemits (normUnetC cin cout F L) := by
  simp only [normUnet, normUnetC, emits_append, cemits_append, emits_unet, cemits_unetC]
  simp [emits, cemits]

theorem emits_unet3d_eq (P : UnetP) (cin cout F L : Nat) : emits (unet3d P L) = cemits (unetC cin cout F L) := by
  simp only [unet3d, emits_append, emits_unet, cemits_unetC]
  simp [emits]

theorem emits_normUnet3d_eq (P : UnetP) (cin cout F L : Nat) : emits (normUnet3d P L) = cemits (normUnetC cin cout F L) := by
  simp only [normUnet3d, unet3d, normUnetC, emits_append, cemits_append, emits_unet, cemits_unetC]
  simp [emits, cemits]

theorem getD_of_lt (l : List Nat) (i : Nat) (h : i < l.length) : l.getD i 0 = l[i] := by
  simp [List.getD, h]

end DirectVerif.C17L
