import DirectVerif.Lemmas.C07Random
/-!
# C07 — random line masks, property-level theorems: count decomposition, per-frame statements, the expectation of the
realised count under the finite-uniform draw model of `Model/C07Random.lean`, and the pair a call uses

Namespace `DirectVerif.C07`; listed in `EXTRA_LEAN_MODULES` of the check (hygiene + axiom audit).
-/
set_option linter.unusedSimpArgs false
set_option linter.unusedVariables false
namespace DirectVerif.C07
open DirectVerif DirectVerif.MaskBudget

/-- **the realised count of a random frame**: the ACS columns plus the non-ACS columns whose draw fell below `prob` —
for every draw vector (the indicator structure the expectation is about) -/
theorem random_count_decomp (N L : Int) (p : ℚ) (us : List ℚ) (hL0 : 0 ≤ L) (hLN : L ≤ N) :
    countTrue (randomMask N L p us) = L.toNat + randomHits N L p us := by
  unfold randomMask randomHits
  rw [countTrue_map_range', countP_or_disj, countP_inAcs N L hL0 hLN]

/-- **per frame** in the dynamic / multislice modes: every frame of a call is a random mask with the same ACS block
and probability and its own draw vector, so each frame's count decomposes in the same way … -/
theorem random_frames_count (N L : Int) (p : ℚ) (uss : List (List ℚ)) (hL0 : 0 ≤ L) (hLN : L ≤ N) (f : Nat)
    (hf : f < uss.length) :
    ((randomFrames N L p uss)[f]?).map countTrue = some (L.toNat + randomHits N L p (uss.getD f [])) := by
  unfold randomFrames
  simp only [List.getElem?_map, List.getD_eq_getElem?_getD]
  rw [List.getElem?_eq_getElem hf]
  simp only [Option.map_some, Option.getD_some]
  rw [random_count_decomp N L p _ hL0 hLN]

/-- … and the expected total over `F` frames is `F · N / R` (each frame's expectation is `N / R`) -/
theorem random_frames_expected_total (F N R L : ℚ) (hR : R ≠ 0) (hNL : N ≠ L) :
    F * expectedCount N L (randomProb N R L) = F * N / R := by
  have h : N - L ≠ 0 := sub_ne_zero.mpr hNL
  unfold expectedCount randomProb
  field_simp
  ring

/-- sum of the realised counts over **all** `k^N` grid draw vectors, in closed form -/
theorem random_total_formula (N L : Int) (p : ℚ) (k : Nat) (hL0 : 0 ≤ L) (hLN : L ≤ N) :
    k * randomTotal N L p k = k ^ N.toNat * (k * L.toNat + (N - L).toNat * gridBelow k p) := by
  unfold randomTotal
  -- the count of each vector
  have hcount : ∀ v ∈ allDraws k N.toNat,
      countTrue (randomMask N L p (gridUs k v)) =
        L.toNat + ((List.range N.toNat).map fun i =>
          (fun (i j : Nat) => if (!inAcs N L (i : Int) && decide ((j : ℚ) / (k : ℚ) < p)) then 1 else 0) i (v.getD i 0)).sum := by
    intro v hv
    have hl := mem_allDraws_length k _ v hv
    rw [random_count_decomp N L p _ hL0 hLN]
    congr 1
    unfold randomHits
    rw [countP_eq_sum]
    congr 1
    apply List.map_congr_left
    intro i hi
    have hi' : i < v.length := by rw [hl]; exact List.mem_range.mp hi
    have : (gridUs k v).getD i 1 = ((v.getD i 0 : ℕ) : ℚ) / (k : ℚ) := by
      unfold gridUs
      simp [List.getD_eq_getElem?_getD, hi']
    rw [this]
  rw [List.map_congr_left hcount, sum_map_add', sum_map_const', length_allDraws, Nat.mul_add,
    sum_allDraws k N.toNat (fun (i j : Nat) => if (!inAcs N L (i : Int) && decide ((j : ℚ) / (k : ℚ) < p)) then 1 else 0)]
  -- every column's score over the grid
  have hcol : ∀ i : Nat, ((List.range k).map fun (j : ℕ) => if (!inAcs N L (i : Int) && decide (((j : ℕ) : ℚ) / (k : ℚ) < p)) then 1 else 0).sum =
      if inAcs N L (i : Int) then 0 else gridBelow k p := by
    intro i
    cases h : inAcs N L (i : Int)
    · simp only [Bool.not_false, Bool.true_and, Bool.false_eq_true, if_false]
      unfold gridBelow
      rw [countP_eq_sum]
    · simp
  simp only [hcol]
  have hsum : ((List.range N.toNat).map fun (i : Nat) => if inAcs N L (i : Int) then 0 else gridBelow k p).sum =
      (N - L).toNat * gridBelow k p := by
    rw [sum_ite_zero_const]
    congr 1
    have h2 := countP_inAcs N L hL0 hLN
    have h3 := countP_add_countP_not (List.range N.toNat) (fun (i : Nat) => inAcs N L (i : Int))
    simp only [List.length_range] at h3
    omega
  rw [hsum]
  ring

/-- **expectation of the realised count under the finite-uniform draw model**: the average over all `k^N` draw vectors
is `L + (N − L)·⌈p·k⌉/k`; with the probability as coded it differs from `N / R` by less than `(N − L)/k` — for
numpy's 53-bit grid (`k = 2^53`) and `N ≤ 400` that is below `5·10⁻¹⁴` columns -/
theorem random_expectation (N L : Int) (R : ℚ) (k : Nat) (hk : 0 < k) (hL0 : 0 ≤ L) (hLN : L < N)
    (hR : 0 < R) (h1 : (L : ℚ) ≤ (N : ℚ) / R) (h2 : (N : ℚ) / R ≤ N) :
    |(randomTotal N L (randomProb N R L) k : ℚ) / (k : ℚ) ^ N.toNat - (N : ℚ) / R| < ((N : ℚ) - L) / k := by
  set p := randomProb (N : ℚ) R L with hp
  have hkq : (0 : ℚ) < (k : ℚ) := by exact_mod_cast hk
  have hNLq : (L : ℚ) < (N : ℚ) := by exact_mod_cast hLN
  have hd : (0 : ℚ) < (N : ℚ) - L := by linarith
  have hp01 : 0 ≤ p ∧ p ≤ 1 := by
    rw [hp]; unfold randomProb
    constructor
    · exact div_nonneg (by linarith) hd.le
    · rw [div_le_one hd]; linarith
  obtain ⟨g1, g2, _⟩ := gridBelow_bounds k hk p hp01.1 hp01.2
  have hform := random_total_formula N L p k hL0 hLN.le
  have hq : ((k * randomTotal N L p k : ℕ) : ℚ) = ((k ^ N.toNat * (k * L.toNat + (N - L).toNat * gridBelow k p) : ℕ) : ℚ) := by
    exact_mod_cast congrArg (fun (x : ℕ) => (x : ℚ)) hform
  push_cast at hq
  have hLc : ((L.toNat : ℕ) : ℚ) = (L : ℚ) := by
    have : ((L.toNat : ℕ) : ℤ) = L := Int.toNat_of_nonneg hL0
    exact_mod_cast this
  have hNLc : (((N - L).toNat : ℕ) : ℚ) = (N : ℚ) - L := by
    have : (((N - L).toNat : ℕ) : ℤ) = N - L := Int.toNat_of_nonneg (by omega)
    have := congrArg (fun (x : ℤ) => (x : ℚ)) this
    push_cast at this
    exact this
  rw [hLc, hNLc] at hq
  have hpow : (0 : ℚ) < (k : ℚ) ^ N.toNat := pow_pos hkq _
  -- average = L + (N - L) * g / k
  have havg : (randomTotal N L p k : ℚ) / (k : ℚ) ^ N.toNat = (L : ℚ) + ((N : ℚ) - L) * (gridBelow k p : ℚ) / k := by
    rw [div_eq_iff (ne_of_gt hpow)]
    have : (k : ℚ) * (randomTotal N L p k : ℚ) = (k : ℚ) * (((L : ℚ) + ((N : ℚ) - L) * (gridBelow k p : ℚ) / k) * (k : ℚ) ^ N.toNat) := by
      rw [hq]; field_simp
    exact mul_left_cancel₀ (ne_of_gt hkq) this
  rw [havg]
  -- N / R = L + (N - L) * p
  have hNR : (N : ℚ) / R = (L : ℚ) + ((N : ℚ) - L) * p := by
    rw [hp]; unfold randomProb; field_simp; ring
  rw [hNR]
  have e : (L : ℚ) + ((N : ℚ) - L) * (gridBelow k p : ℚ) / k - ((L : ℚ) + ((N : ℚ) - L) * p) =
      ((N : ℚ) - L) * ((gridBelow k p : ℚ) - p * k) / k := by field_simp; ring
  rw [e, abs_lt]
  constructor
  · have : 0 ≤ ((N : ℚ) - L) * ((gridBelow k p : ℚ) - p * k) / k :=
      div_nonneg (mul_nonneg hd.le (by linarith)) hkq.le
    have hpos : 0 < ((N : ℚ) - L) / k := div_pos hd hkq
    linarith
  · rw [div_lt_div_iff_of_pos_right hkq]
    nlinarith

/-- when `prob·k` is a whole number the average over the grid is **exactly** `N / R` -/
theorem random_expectation_exact (N L : Int) (R : ℚ) (k m : Nat) (hk : 0 < k) (hL0 : 0 ≤ L) (hLN : L < N)
    (hR : 0 < R) (h1 : (L : ℚ) ≤ (N : ℚ) / R) (h2 : (N : ℚ) / R ≤ N) (hm : randomProb N R L * k = m) :
    (randomTotal N L (randomProb N R L) k : ℚ) / (k : ℚ) ^ N.toNat = (N : ℚ) / R := by
  set p := randomProb (N : ℚ) R L with hp
  have hkq : (0 : ℚ) < (k : ℚ) := by exact_mod_cast hk
  have hNLq : (L : ℚ) < (N : ℚ) := by exact_mod_cast hLN
  have hd : (0 : ℚ) < (N : ℚ) - L := by linarith
  have hp01 : 0 ≤ p ∧ p ≤ 1 := by
    rw [hp]; unfold randomProb
    constructor
    · exact div_nonneg (by linarith) hd.le
    · rw [div_le_one hd]; linarith
  obtain ⟨g1, g2, _⟩ := gridBelow_bounds k hk p hp01.1 hp01.2
  have hg : gridBelow k p = m := by
    rw [hm] at g1 g2
    have a : (m : ℚ) ≤ (gridBelow k p : ℚ) := g1
    have b : (gridBelow k p : ℚ) < (m : ℚ) + 1 := g2
    have a' : m ≤ gridBelow k p := by exact_mod_cast a
    have b' : gridBelow k p < m + 1 := by exact_mod_cast b
    omega
  have hform := random_total_formula N L p k hL0 hLN.le
  have hq : ((k * randomTotal N L p k : ℕ) : ℚ) = ((k ^ N.toNat * (k * L.toNat + (N - L).toNat * gridBelow k p) : ℕ) : ℚ) := by
    exact_mod_cast congrArg (fun (x : ℕ) => (x : ℚ)) hform
  push_cast at hq
  have hLc : ((L.toNat : ℕ) : ℚ) = (L : ℚ) := by
    have : ((L.toNat : ℕ) : ℤ) = L := Int.toNat_of_nonneg hL0
    exact_mod_cast this
  have hNLc : (((N - L).toNat : ℕ) : ℚ) = (N : ℚ) - L := by
    have : (((N - L).toNat : ℕ) : ℤ) = N - L := Int.toNat_of_nonneg (by omega)
    have := congrArg (fun (x : ℤ) => (x : ℚ)) this
    push_cast at this
    exact this
  rw [hLc, hNLc, hg, ← hm] at hq
  have hpow : (0 : ℚ) < (k : ℚ) ^ N.toNat := pow_pos hkq _
  have hNR : (N : ℚ) / R = (L : ℚ) + ((N : ℚ) - L) * p := by
    rw [hp]; unfold randomProb; field_simp; ring
  rw [hNR, div_eq_iff (ne_of_gt hpow)]
  have : (k : ℚ) * (randomTotal N L p k : ℚ) = (k : ℚ) * (((L : ℚ) + ((N : ℚ) - L) * p) * (k : ℚ) ^ N.toNat) := by
    rw [hq]; ring
  exact mul_left_cancel₀ (ne_of_gt hkq) this

/-- the model executed on all draws: 3 columns, 1 ACS column, `p = 1/2`, grid of 4: 64 vectors, total count 128 — the
average is `2 = 1 + 2·(1/2)` -/
example : randomTotal 3 1 (1 / 2) 4 = 128 ∧ (allDraws 4 3).length = 64 ∧ gridBelow 4 (1 / 2) = 2 :=
  ⟨by decide +kernel, by decide +kernel, by decide +kernel⟩
/-- hypotheses of `random_expectation_exact` are satisfiable: `N = 8`, `L = 2`, `R = 2` → `p = 1/3`, `k = 3`, `m = 1` -/
example : (0 : ℚ) < 2 ∧ ((2 : Int) : ℚ) ≤ ((8 : Int) : ℚ) / 2 ∧ randomProb (8 : Int) 2 (2 : Int) * (3 : ℕ) = (1 : ℕ) := by
  refine ⟨by norm_num, by norm_num, by norm_num [randomProb]⟩

/-! ### which pair a call uses -/

/-- with several accelerations per instance every line generator takes the acceleration **and** `num_low_freqs` of the
drawn position -/
theorem choose_pair_same_index (accs : List ℚ) (ls : List Int) (i : Nat) (r : ℚ) (l : Int)
    (h : choosePair false accs ls i = .ok (r, l)) : accs[i]? = some r ∧ ls[i]? = some l := by
  unfold choosePair at h
  simp only [Bool.false_eq_true, if_false] at h
  cases hc : accs[i]? <;> cases hr : ls[i]? <;> simp_all

theorem choose_pair_uniform_rejects (accs : List ℚ) (ls : List Int) (i : Nat) :
    choosePair true accs ls i = .error "NotImplementedError" := by
  simp [choosePair]

example : choosePair false [4, 8] [26, 13] 1 = .ok (8, 13) := by decide +kernel

end DirectVerif.C07
