import DirectVerif.Lemmas.C17
/-!
# C17 helper lemmas, part 2: the individual networks
-/
set_option linter.unusedSimpArgs false
namespace DirectVerif.C17L
open DirectVerif.Shapes

/-! ## U-Net: whole program, failure below the minimum, closed form of admissibility -/

theorem unet_ok (L : Nat) (s : Shape) (stk tr) (h : UAdm L s) :
    ∃ tr', run (unet UnetP.std L) ⟨s, stk, tr⟩ = .ok ⟨s, stk, tr'⟩ := by
  cases L with
  | zero => exact unetLv_ok 0 s stk tr h
  | succ L =>
    have := unetLevel_ok (unetLv UnetP.std L) [.conv 1 1 0 1]
      (fun s stk tr hs => by rw [run_cons_ok (step_conv_same (by decide) (by decide) stk tr hs)]; rfl)
      L (unetLv_ok L) s stk tr h
    simpa only [unet, List.append_assoc, List.cons_append, List.nil_append] using this

theorem axes_err {ok : Nat → Bool} {f : Nat → Nat} {s : Shape} (stk tr) (h : ∃ n ∈ s, ok n = false) :
    axes ok f ⟨s, stk, tr⟩ = .error .runtime := by
  simp only [axes]
  rw [if_neg]
  intro hall
  obtain ⟨n, hn, hf⟩ := h
  have := List.all_eq_true.mp hall n hn
  simp [hf] at this

theorem run_cons_err {op : Op} {ops : List Op} {st : State} {e : Err} (h : step op st = .error e) :
    run (op :: ops) st = .error e := by
  simp [run, h]

theorem numel_pos {s : Shape} (h : Pos s) : 1 ≤ numel s := by
  induction s with
  | nil => simp [numel]
  | cons a s ih =>
    simp only [numel]
    have ha := h a (by simp)
    have := ih fun n hn => h n (by simp [hn])
    exact Nat.mul_le_mul ha this

theorem run_convBlock_err {s : Shape} (stk tr) (hs : Pos s) (hp : ¬ 1 < numel s) :
    run (convBlock UnetP.std) ⟨s, stk, tr⟩ = .error .value := by
  simp only [convBlock, UnetP.std]
  rw [run_cons_ok (step_conv_same (by decide) (by decide) stk tr hs)]
  apply run_cons_err
  simp [step, hp]

/-- below the minimum the U-Net fails (it never returns a wrong size) -/
theorem unetLv_fails (L : Nat) : ∀ (s : Shape) (stk tr), Pos s → ¬ UAdm L s →
    ∃ e, run (unetLv UnetP.std L) ⟨s, stk, tr⟩ = .error e := by
  induction L with
  | zero =>
    intro s stk tr hs h
    refine ⟨.value, ?_⟩
    simp only [unetLv]
    exact run_append_err (run_convBlock_err stk tr hs fun hp => h ⟨hs, hp⟩)
  | succ L ih =>
    intro s stk tr hs h
    simp only [unetLv, List.append_assoc]
    by_cases hp : 1 < numel s
    · rw [run_append_ok (run_convBlock stk tr hs hp)]
      simp only [List.cons_append, List.nil_append, show UnetP.std.pk = 2 from rfl, show UnetP.std.ps = 2 from rfl]
      rw [run_cons_ok (step_emit _ _ _), run_cons_ok (step_push _ _ _)]
      by_cases h2 : ∀ n ∈ s, 2 ≤ n
      · rw [run_cons_ok (step_pool2 _ _ h2)]
        have hpos2 : Pos (s.map (· / 2)) := by
          intro m hm
          obtain ⟨n, hn, rfl⟩ := List.mem_map.mp hm
          have := h2 n hn; omega
        obtain ⟨e, he⟩ := ih (s.map (· / 2)) (s :: stk) (tr ++ [s]) hpos2 fun hA => h ⟨h2, hA⟩
        exact ⟨e, run_append_err he⟩
      · refine ⟨.runtime, run_cons_err ?_⟩
        simp only [step]
        apply axes_err
        have : ∃ n ∈ s, ¬ 2 ≤ n := by
          simpa using h2
        obtain ⟨n, hn, hlt⟩ := this
        exact ⟨n, hn, by simp [poolOk]; omega⟩
    · exact ⟨.value, run_append_err (run_convBlock_err stk tr hs hp)⟩

theorem unet_fails (L : Nat) (s : Shape) (stk tr) (hs : Pos s) (h : ¬ UAdm L s) :
    ∃ e, run (unet UnetP.std L) ⟨s, stk, tr⟩ = .error e := by
  cases L with
  | zero => exact unetLv_fails 0 s stk tr hs h
  | succ L =>
    simp only [unet, List.append_assoc]
    by_cases hp : 1 < numel s
    · rw [run_append_ok (run_convBlock stk tr hs hp)]
      simp only [List.cons_append, List.nil_append, show UnetP.std.pk = 2 from rfl, show UnetP.std.ps = 2 from rfl]
      rw [run_cons_ok (step_emit _ _ _), run_cons_ok (step_push _ _ _)]
      by_cases h2 : ∀ n ∈ s, 2 ≤ n
      · rw [run_cons_ok (step_pool2 _ _ h2)]
        have hpos2 : Pos (s.map (· / 2)) := by
          intro m hm
          obtain ⟨n, hn, rfl⟩ := List.mem_map.mp hm
          have := h2 n hn; omega
        obtain ⟨e, he⟩ := unetLv_fails L (s.map (· / 2)) (s :: stk) (tr ++ [s]) hpos2 fun hA => h ⟨h2, hA⟩
        exact ⟨e, run_append_err he⟩
      · refine ⟨.runtime, run_cons_err ?_⟩
        simp only [step]
        apply axes_err
        have : ∃ n ∈ s, ¬ 2 ≤ n := by
          simpa using h2
        obtain ⟨n, hn, hlt⟩ := this
        exact ⟨n, hn, by simp [poolOk]; omega⟩
    · exact ⟨.value, run_append_err (run_convBlock_err stk tr hs hp)⟩

/-- closed form: every axis is at least `2^L` and the bottleneck `(n / 2^L)` has more than one element -/
theorem UAdm_iff (L : Nat) : ∀ s : Shape, UAdm L s ↔ (∀ n ∈ s, 2 ^ L ≤ n) ∧ 1 < numel (s.map (· / 2 ^ L)) := by
  induction L with
  | zero =>
    intro s
    simp only [UAdm, Pos, Nat.pow_zero, Nat.div_one]
    rw [show (fun x : Nat => x) = id from rfl, List.map_id]
  | succ L ih =>
    intro s
    simp only [UAdm]
    rw [ih, List.map_map]
    have e : ((fun x => x / 2 ^ L) ∘ fun x => x / 2) = fun x : Nat => x / 2 ^ (L + 1) := by
      funext x
      simp only [Function.comp, Nat.div_div_eq_div_mul, Nat.pow_succ, Nat.mul_comm]
    rw [e]
    constructor
    · rintro ⟨h2, hL, hn⟩
      refine ⟨fun n hn' => ?_, hn⟩
      have := hL (n / 2) (List.mem_map.mpr ⟨n, hn', rfl⟩)
      rw [Nat.pow_succ]; omega
    · rintro ⟨hL, hn⟩
      refine ⟨fun n hn' => ?_, fun m hm => ?_, hn⟩
      · have := hL n hn'
        have : 1 ≤ 2 ^ L := Nat.one_le_two_pow
        rw [Nat.pow_succ] at *; omega
      · obtain ⟨n, hn', rfl⟩ := List.mem_map.mp hm
        have := hL n hn'
        rw [Nat.pow_succ] at this; omega

/-! ## NormUnet: pad to a multiple of 16, unpad -/

theorem le_mult16 (n : Nat) : n ≤ mult16 n := by rw [mult16_eq]; omega

theorem unpad16_mult16 (n : Nat) : unpad16 n (mult16 n) = n := by
  have := le_mult16 n
  simp only [unpad16, pad16Lo, pad16Hi]
  omega

theorem step_pad16 (s : Shape) (stk tr) :
    step .pad16 ⟨s, stk, tr⟩ = .ok ⟨s.map mult16, s :: stk, tr⟩ := rfl

theorem step_unpad16_after (s : Shape) (rest tr) :
    step .unpad16 ⟨s.map mult16, s :: rest, tr⟩ = .ok ⟨s, rest, tr⟩ := by
  simp only [step]
  rw [zipWith_self_map]
  congr 2
  conv => rhs; rw [← List.map_id s]
  exact List.map_congr_left fun n _ => unpad16_mult16 n

theorem normUnet_ok (L : Nat) (s : Shape) (stk tr) (h : UAdm L (s.map mult16)) :
    ∃ tr', run (normUnet UnetP.std L) ⟨s, stk, tr⟩ = .ok ⟨s, stk, tr'⟩ := by
  obtain ⟨tr1, h1⟩ := unet_ok L (s.map mult16) (s :: stk) tr h
  refine ⟨tr1 ++ [s.map mult16], ?_⟩
  simp only [normUnet, List.append_assoc, List.cons_append, List.nil_append]
  rw [run_cons_ok (step_pad16 _ _ _), run_append_ok h1, run_cons_ok (step_emit _ _ _),
    run_cons_ok (step_unpad16_after _ _ _)]
  rfl

/-! ## 3-D U-Net: pad small axes to `2^L`, crop back -/

theorem unpadPow2_padPow2 (k n : Nat) : unpadPow2 k n (padPow2 k n) = n := by
  simp only [unpadPow2, padPow2, pow2Hi, pow2Lo]
  split <;> omega

theorem step_padPow2 (k : Nat) (s : Shape) (stk tr) :
    step (.padPow2 k) ⟨s, stk, tr⟩ = .ok ⟨s.map (padPow2 k), s :: stk, tr⟩ := rfl

theorem step_unpadPow2_after (k : Nat) (s : Shape) (rest tr) :
    step (.unpadPow2 k) ⟨s.map (padPow2 k), s :: rest, tr⟩ = .ok ⟨s, rest, tr⟩ := by
  simp only [step]
  rw [zipWith_self_map]
  congr 2
  conv => rhs; rw [← List.map_id s]
  exact List.map_congr_left fun n _ => unpadPow2_padPow2 k n

theorem unet3d_ok (L : Nat) (s : Shape) (stk tr) (h : UAdm L (s.map (padPow2 L))) :
    ∃ tr', run (unet3d UnetP.std L) ⟨s, stk, tr⟩ = .ok ⟨s, stk, tr'⟩ := by
  obtain ⟨tr1, h1⟩ := unet_ok L (s.map (padPow2 L)) (s :: stk) tr h
  refine ⟨tr1, ?_⟩
  simp only [unet3d, List.append_assoc, List.cons_append, List.nil_append]
  rw [run_cons_ok (step_padPow2 _ _ _ _), run_append_ok h1, run_cons_ok (step_unpadPow2_after _ _ _ _)]
  rfl

theorem normUnet3d_ok (L : Nat) (s : Shape) (stk tr) (h : UAdm L ((s.map mult16).map (padPow2 L))) :
    ∃ tr', run (normUnet3d UnetP.std L) ⟨s, stk, tr⟩ = .ok ⟨s, stk, tr'⟩ := by
  obtain ⟨tr1, h1⟩ := unet3d_ok L (s.map mult16) (s :: stk) tr h
  refine ⟨tr1 ++ [s.map mult16], ?_⟩
  simp only [normUnet3d, List.append_assoc, List.cons_append, List.nil_append]
  rw [run_cons_ok (step_pad16 _ _ _), run_append_ok h1, run_cons_ok (step_emit _ _ _),
    run_cons_ok (step_unpad16_after _ _ _)]
  rfl

/-! ## repeated shape-preserving convolutions -/

theorem run_replicate_conv_same {k p d : Nat} (hk : d * (k - 1) = 2 * p) (hk1 : 1 ≤ k) (m : Nat) {s : Shape} (stk tr)
    (hs : Pos s) : run (List.replicate m (Op.conv k 1 p d)) ⟨s, stk, tr⟩ = .ok ⟨s, stk, tr⟩ := by
  induction m with
  | zero => rfl
  | succ m ih =>
    rw [List.replicate_succ, run_cons_ok (step_conv_same hk hk1 stk tr hs)]
    exact ih

/-! ## MWCNN -/

theorem stepm_dwt {g : Nat → Nat} {s : Shape} (stk tr) (h : ∀ n ∈ s, dwtOk (g n) = true) :
    step .dwt ⟨s.map g, stk, tr⟩ = .ok ⟨s.map (fun n => dwtOut (g n)), stk, tr⟩ := axes_map stk tr h

/-- admissibility of one axis below the first level; `r` levels still below -/
def belowOk : Nat → Nat → Bool
  | 0, n => n % 2 == 0 && decide (2 ≤ n)
  | r + 1, n => n % 2 == 0 && decide (2 ≤ n) && ((n / 2) % 2 == 0 || decide (2 ≤ n / 2)) && belowOk r (padEvenOut (n / 2))

/-- admissibility of one axis for `MWCNN(num_scales = S)` -/
def mwAxisOk : Nat → Nat → Bool
  | 0, _ => true
  | 1, n => decide (1 ≤ n) && (n % 2 == 0 || decide (2 ≤ n))
  | S + 2, n => decide (1 ≤ n) && (n % 2 == 0 || decide (2 ≤ n)) && belowOk S (padEvenOut n)

theorem belowOk_even_pos {r n : Nat} (h : belowOk r n = true) : n % 2 = 0 ∧ 2 ≤ n := by
  cases r <;> simp [belowOk] at h <;> omega

theorem mwBelow_zero_ok (s : Shape) (f : Nat → Nat) (stk tr) (H : ∀ n ∈ s, belowOk 0 (f n) = true) :
    ∃ tr', run (mwBelow MwP.std 0) ⟨s.map f, s.map f :: stk, tr⟩ = .ok ⟨s.map f, stk, tr'⟩ := by
  have e : mwBelow MwP.std 0 = [.dwt, .emit, .conv 3 1 1 1, .conv 3 1 2 2, .conv 3 1 3 3, .emit, .conv 3 1 3 3, .conv 3 1 2 2,
    .conv 3 1 1 1, .emit, .scale 2, .emit, .popCropSame] := by decide
  rw [e]
  simp (disch := first | decide | (intro n hn; have := H n hn; have ev := (belowOk_even_pos this).1; simp [belowOk, dwtOk_of_even ev, dwtOut_of_even ev, cropTo_eq_min] at this ⊢ <;> omega))
    only [run, stepm_conv_same, stepm_dwt, stepm_scale, stepm_popCropSame, step_emit]
  exact ⟨_, rfl⟩

theorem mwBelow_split (r : Nat) : mwBelow MwP.std (r + 1) =
    [.dwt, .emit, .conv 3 1 1 1, .conv 3 1 2 2, .conv 3 1 1 1, .emit, .padEven, .push] ++ (mwBelow MwP.std r ++
      [.conv 3 1 2 2, .conv 3 1 1 1, .conv 3 1 1 1, .emit, .scale 2, .emit, .popCropSame]) := by
  simp [mwBelow, mwDown, mwUp, MwP.std]

theorem mwBelow_ok (r : Nat) : ∀ (s : Shape) (f : Nat → Nat) (stk tr), (∀ n ∈ s, belowOk r (f n) = true) →
    ∃ tr', run (mwBelow MwP.std r) ⟨s.map f, s.map f :: stk, tr⟩ = .ok ⟨s.map f, stk, tr'⟩ := by
  induction r with
  | zero => exact mwBelow_zero_ok
  | succ r ih =>
    intro s f stk tr H
    rw [mwBelow_split]
    have H' : ∀ n ∈ s, (f n) % 2 = 0 ∧ 2 ≤ f n ∧ ((f n / 2) % 2 = 0 ∨ 2 ≤ f n / 2) ∧ belowOk r (padEvenOut (f n / 2)) = true := by
      intro n hn; have := H n hn
      simp only [belowOk, Bool.and_eq_true, Bool.or_eq_true, beq_iff_eq, decide_eq_true_eq] at this
      exact ⟨this.1.1.1, this.1.1.2, this.1.2, this.2⟩
    have pre : ∃ tr1, run [.dwt, .emit, .conv 3 1 1 1, .conv 3 1 2 2, .conv 3 1 1 1, .emit, .padEven, .push]
        ⟨s.map f, s.map f :: stk, tr⟩ =
        .ok ⟨s.map (fun n => padEvenOut (dwtOut (f n))), s.map (fun n => padEvenOut (dwtOut (f n))) :: s.map f :: stk, tr1⟩ := by
      simp (disch := first | decide | (intro n hn; have := H' n hn; simp [dwtOk_of_even this.1, dwtOut_of_even this.1, padEvenOk_iff, padEvenOut] at this ⊢ <;> omega))
        only [run, stepm_conv_same, stepm_dwt, stepm_padEven, step_emit, step_push]
      exact ⟨_, rfl⟩
    obtain ⟨tr1, h1⟩ := pre
    obtain ⟨tr2, h2⟩ := ih s (fun n => padEvenOut (dwtOut (f n))) (s.map f :: stk) tr1 fun n hn => by
      rw [dwtOut_of_even (H' n hn).1]; exact (H' n hn).2.2.2
    rw [run_append_ok h1, run_append_ok h2]
    simp (disch := first | decide | (intro n hn; have := H' n hn; simp [dwtOut_of_even this.1, padEvenOut, cropTo_eq_min] at this ⊢ <;> omega))
      only [run, stepm_conv_same, stepm_scale, stepm_popCropSame, step_emit]
    exact ⟨_, rfl⟩

theorem mwcnn_one_ok (s : Shape) (stk tr) (H : ∀ n ∈ s, mwAxisOk 1 n = true) :
    ∃ tr', run (mwcnn MwP.std 1) ⟨s.map id, stk, tr⟩ = .ok ⟨s.map id, stk, tr'⟩ := by
  have e : mwcnn MwP.std 1 = [.push, .padEven, .conv 3 1 1 1, .conv 3 1 2 2, .conv 3 1 3 3, .emit, .padEven,
    .conv 3 1 3 3, .conv 3 1 2 2, .conv 3 1 1 1, .emit, .popCrop] := by decide
  rw [e]
  simp (disch := first | decide | (intro n hn; have := H n hn; simp [mwAxisOk, padEvenOk_iff, padEvenOut] at this ⊢ <;> omega))
    only [run, stepm_conv_same, stepm_padEven, stepm_popCrop, step_emit, step_push]
  have e2 : s.map (fun n => cropTo (id n) (padEvenOut (padEvenOut (id n)))) = s.map id := by
    apply List.map_congr_left; intro n hn
    simp only [padEvenOut, cropTo_eq_min, id]; omega
  rw [e2]
  exact ⟨_, rfl⟩

theorem mwcnn_split (S : Nat) : mwcnn MwP.std (S + 2) =
    [.push, .padEven, .conv 3 1 1 1, .conv 3 1 2 2, .conv 3 1 1 1, .emit, .padEven, .push] ++ (mwBelow MwP.std S ++
      [.conv 3 1 2 2, .conv 3 1 1 1, .conv 3 1 1 1, .emit, .popCrop]) := by
  simp [mwcnn, mwDown, mwUp, MwP.std]

theorem padEvenOut_idem (n : Nat) : padEvenOut (padEvenOut n) = padEvenOut n := by
  simp only [padEvenOut]; omega

theorem mwcnn_ok (S : Nat) (s : Shape) (stk tr) (H : ∀ n ∈ s, mwAxisOk S n = true) :
    ∃ tr', run (mwcnn MwP.std S) ⟨s, stk, tr⟩ = .ok ⟨s, stk, tr'⟩ := by
  match S with
  | 0 => exact ⟨tr, rfl⟩
  | 1 => simpa using mwcnn_one_ok s stk tr H
  | S + 2 =>
    have H' : ∀ n ∈ s, 1 ≤ n ∧ (n % 2 = 0 ∨ 2 ≤ n) ∧ belowOk S (padEvenOut n) = true := by
      intro n hn; have := H n hn
      simp only [mwAxisOk, Bool.and_eq_true, Bool.or_eq_true, beq_iff_eq, decide_eq_true_eq] at this
      exact ⟨this.1.1, this.1.2, this.2⟩
    rw [mwcnn_split]
    have pre : ∃ tr1, run [.push, .padEven, .conv 3 1 1 1, .conv 3 1 2 2, .conv 3 1 1 1, .emit, .padEven, .push]
        ⟨s.map id, stk, tr⟩ = .ok ⟨s.map padEvenOut, s.map padEvenOut :: s.map id :: stk, tr1⟩ := by
      simp (disch := first | decide | (intro n hn; have := H' n hn; simp [padEvenOk_iff, padEvenOut] at this ⊢ <;> omega))
        only [run, stepm_conv_same, stepm_padEven, step_emit, step_push]
      have e : s.map (fun n => padEvenOut (padEvenOut (id n))) = s.map padEvenOut :=
        List.map_congr_left fun n _ => padEvenOut_idem n
      rw [e]
      exact ⟨_, rfl⟩
    obtain ⟨tr1, h1⟩ := pre
    obtain ⟨tr2, h2⟩ := mwBelow_ok S s padEvenOut (s.map id :: stk) tr1 fun n hn => (H' n hn).2.2
    rw [List.map_id] at h1 h2
    rw [run_append_ok h1, run_append_ok h2]
    have post : ∃ tr3, run [.conv 3 1 2 2, .conv 3 1 1 1, .conv 3 1 1 1, .emit, .popCrop]
        ⟨s.map padEvenOut, s.map id :: stk, tr2⟩ = .ok ⟨s.map id, stk, tr3⟩ := by
      simp (disch := first | decide | (intro n hn; have := H' n hn; simp [padEvenOut] at this ⊢ <;> omega))
        only [run, stepm_conv_same, stepm_popCrop, step_emit]
      have e : s.map (fun n => cropTo (id n) (padEvenOut n)) = s.map id := by
        apply List.map_congr_left; intro n hn
        simp only [padEvenOut, cropTo_eq_min, id]; omega
      rw [e]
      exact ⟨_, rfl⟩
    simpa using post

/-! ## DUB / DIDN -/

def dubAxisOk (n : Nat) : Bool := decide (1 ≤ n) && (n % 2 == 0 || decide (2 ≤ n))
/-- DIDN: the strided input convolution gives `(n − 1)/2 + 1`, which the first DUB must admit -/
def didnAxisOk (n : Nat) : Bool := decide (1 ≤ n) && dubAxisOk ((n - 1) / 2 + 1)

theorem dubAxisOk_iff (n : Nat) : dubAxisOk n = true ↔ 2 ≤ n := by
  simp only [dubAxisOk, Bool.and_eq_true, Bool.or_eq_true, beq_iff_eq, decide_eq_true_eq]; omega
theorem didnAxisOk_iff (n : Nat) : didnAxisOk n = true ↔ 3 ≤ n := by
  simp only [didnAxisOk, dubAxisOk_iff, Bool.and_eq_true, decide_eq_true_eq]; omega

theorem dubWith_nil_ok (s : Shape) (f : Nat → Nat) (stk tr) (H : ∀ n ∈ s, 2 ≤ f n) :
    ∃ tr', run (dubWith DidnP.std []) ⟨s.map f, stk, tr⟩ = .ok ⟨s.map f, stk, tr'⟩ := by
  have e : dubWith DidnP.std [] = [.push, .padEven, .conv 3 1 1 1, .conv 3 1 1 1, .push, .conv 3 2 1 1, .conv 3 1 1 1, .push,
    .conv 3 2 1 1, .conv 3 1 1 1, .conv 1 1 0 1, .scale 2, .popCropSame, .conv 1 1 0 1, .conv 3 1 1 1, .conv 1 1 0 1, .scale 2,
    .popCropSame, .conv 1 1 0 1, .conv 3 1 1 1, .conv 3 1 1 1, .conv 3 1 1 1, .popCropSame] := by decide
  rw [e]
  simp (disch := first | decide | (intro n hn; have := H n hn; simp [convOk, convOut, padEvenOk_iff, padEvenOut, cropTo_eq_min] at this ⊢ <;> omega))
    only [run, stepm_conv_same, stepm_conv2, stepm_padEven, stepm_scale, stepm_popCropSame, step_push]
  exact ⟨_, rfl⟩

theorem dubWith_emit_ok (s : Shape) (f : Nat → Nat) (stk tr) (H : ∀ n ∈ s, 2 ≤ f n) :
    ∃ tr', run (dubWith DidnP.std [.emit]) ⟨s.map f, stk, tr⟩ = .ok ⟨s.map f, stk, tr'⟩ := by
  have e : dubWith DidnP.std [.emit] = [.push, .padEven, .conv 3 1 1 1, .conv 3 1 1 1, .emit, .push, .conv 3 2 1 1, .emit,
    .conv 3 1 1 1, .emit, .push, .conv 3 2 1 1, .emit, .conv 3 1 1 1, .emit, .conv 1 1 0 1, .scale 2, .emit, .popCropSame,
    .conv 1 1 0 1, .emit, .conv 3 1 1 1, .emit, .conv 1 1 0 1, .scale 2, .emit, .popCropSame, .conv 1 1 0 1, .emit,
    .conv 3 1 1 1, .conv 3 1 1 1, .emit, .conv 3 1 1 1, .emit, .popCropSame] := by decide
  rw [e]
  simp (disch := first | decide | (intro n hn; have := H n hn; simp [convOk, convOut, padEvenOk_iff, padEvenOut, cropTo_eq_min] at this ⊢ <;> omega))
    only [run, stepm_conv_same, stepm_conv2, stepm_padEven, stepm_scale, stepm_popCropSame, step_push, step_emit]
  exact ⟨_, rfl⟩

theorem dub_ok (e : Bool) (s : Shape) (stk tr) (H : ∀ n ∈ s, dubAxisOk n = true) :
    ∃ tr', run (dub DidnP.std e) ⟨s, stk, tr⟩ = .ok ⟨s, stk, tr'⟩ := by
  have H' : ∀ n ∈ s, 2 ≤ id n := fun n hn => (dubAxisOk_iff n).mp (H n hn)
  cases e
  · simpa [dub] using dubWith_nil_ok s id stk tr H'
  · simpa [dub] using dubWith_emit_ok s id stk tr H'

theorem dubs_ok (m : Nat) : ∀ (s : Shape) (f : Nat → Nat) (stk tr), (∀ n ∈ s, 2 ≤ f n) →
    ∃ tr', run (dubs DidnP.std m) ⟨s.map f, stk, tr⟩ = .ok ⟨s.map f, stk, tr'⟩ := by
  induction m with
  | zero => intro s f stk tr _; exact ⟨tr, rfl⟩
  | succ m ih =>
    intro s f stk tr H
    obtain ⟨tr1, h1⟩ := dubWith_nil_ok s f stk tr H
    obtain ⟨tr2, h2⟩ := ih s f stk (tr1 ++ [s.map f]) H
    refine ⟨tr2, ?_⟩
    simp only [dubs, dub, Bool.false_eq_true, if_false, List.append_assoc, List.cons_append, List.nil_append]
    rw [run_append_ok h1, run_cons_ok (step_emit _ _ _)]
    exact h2

theorem reconBlocks_ok (nconv m : Nat) : ∀ (s : Shape) (stk tr), Pos s →
    ∃ tr', run (reconBlocks DidnP.std nconv m) ⟨s, stk, tr⟩ = .ok ⟨s, stk, tr'⟩ := by
  induction m with
  | zero => intro s stk tr _; exact ⟨tr, rfl⟩
  | succ m ih =>
    intro s stk tr H
    obtain ⟨tr2, h2⟩ := ih s stk (tr ++ [s]) H
    refine ⟨tr2, ?_⟩
    simp only [reconBlocks, DidnP.std, List.append_assoc, List.cons_append, List.nil_append]
    rw [run_append_ok (run_replicate_conv_same (by decide) (by decide) nconv stk tr H), run_cons_ok (step_emit _ _ _)]
    exact h2

theorem step_popSame (s : Shape) (rest tr) : step .popSame ⟨s, s :: rest, tr⟩ = .ok ⟨s, rest, tr⟩ := by
  simp [step]

theorem didn_ok (ndubs nconv : Nat) (skip : Bool) (s : Shape) (stk tr) (H : ∀ n ∈ s, didnAxisOk n = true) :
    ∃ tr', run (didn DidnP.std ndubs nconv skip) ⟨s, stk, tr⟩ = .ok ⟨s, stk, tr'⟩ := by
  have H' : ∀ n ∈ s, 3 ≤ n := fun n hn => (didnAxisOk_iff n).mp (H n hn)
  let m : Nat → Nat := fun n => convOut 3 2 1 1 (id n)
  have Hm : ∀ n ∈ s, 2 ≤ m n := by intro n hn; have := H' n hn; simp [m, convOut]; omega
  have Hc : ∀ n ∈ s, cropTo (id n) (2 * m n) = id n := by
    intro n hn; have := H' n hn; simp only [m, convOut, cropTo_eq_min, id]; omega
  -- everything between the initial `push` and the final crop
  have core : ∀ stk0 tr0, ∃ tr', run ([.conv 3 1 1 1, .emit, .conv 3 2 1 1, .emit] ++ (dubs DidnP.std ndubs ++
      (reconBlocks DidnP.std nconv ndubs ++ [.conv 1 1 0 1, .emit, .conv 3 1 1 1, .emit, .conv 1 1 0 1, .scale 2, .emit,
        .conv 3 1 1 1, .emit]))) ⟨s.map id, s.map id :: stk0, tr0⟩ =
      .ok ⟨s.map (fun n => 2 * m n), s.map id :: stk0, tr'⟩ := by
    intro stk0 tr0
    have pre : ∃ tr1, run [.conv 3 1 1 1, .emit, .conv 3 2 1 1, .emit] ⟨s.map id, s.map id :: stk0, tr0⟩ =
        .ok ⟨s.map m, s.map id :: stk0, tr1⟩ := by
      simp (disch := first | decide | (intro n hn; have := H' n hn; simp [convOk] at this ⊢ <;> omega))
        only [run, stepm_conv_same, stepm_conv2, step_emit]
      exact ⟨_, rfl⟩
    obtain ⟨tr1, h1⟩ := pre
    obtain ⟨tr2, h2⟩ := dubs_ok ndubs s m (s.map id :: stk0) tr1 Hm
    have hpos : Pos (s.map m) := by
      intro k hk; obtain ⟨n, hn, rfl⟩ := List.mem_map.mp hk; have := Hm n hn; omega
    obtain ⟨tr3, h3⟩ := reconBlocks_ok nconv ndubs (s.map m) (s.map id :: stk0) tr2 hpos
    rw [run_append_ok h1, run_append_ok h2, run_append_ok h3]
    simp (disch := first | decide | (intro n hn; have := Hm n hn; simp at this ⊢ <;> omega))
      only [run, stepm_conv_same, stepm_scale, step_emit]
    exact ⟨_, rfl⟩
  have e : ∀ last : Op, .push :: (([.conv 3 1 1 1, .emit, .conv 3 2 1 1, .emit] ++ (dubs DidnP.std ndubs ++
      (reconBlocks DidnP.std nconv ndubs ++ [.conv 1 1 0 1, .emit, .conv 3 1 1 1, .emit, .conv 1 1 0 1, .scale 2, .emit,
        .conv 3 1 1 1, .emit]))) ++ [last]) = [.push] ++ [.conv DidnP.std.ck 1 DidnP.std.cp 1, .emit,
        .conv DidnP.std.dk DidnP.std.ds DidnP.std.dp 1, .emit] ++ dubs DidnP.std ndubs ++ reconBlocks DidnP.std nconv ndubs ++
        [.conv 1 1 0 1, .emit, .conv DidnP.std.ck 1 DidnP.std.cp 1, .emit, .conv 1 1 0 1, .scale DidnP.std.r, .emit,
         .conv DidnP.std.ck 1 DidnP.std.cp 1, .emit, last] := by
    intro last; simp [DidnP.std]
  obtain ⟨tr', h⟩ := core stk tr
  rw [List.map_id] at h
  cases skip
  · refine ⟨tr', ?_⟩
    simp only [didn, Bool.false_eq_true, if_false]
    rw [← e, run_cons_ok (step_push _ _ _), run_append_ok h]
    have := stepm_popCrop (g := fun n => 2 * m n) (t := id) (s := s) stk tr'
    rw [List.map_congr_left Hc, List.map_id] at this
    rw [run_cons_ok this]; rfl
  · refine ⟨tr', ?_⟩
    simp only [didn, if_true]
    rw [← e, run_cons_ok (step_push _ _ _), run_append_ok h]
    have := stepm_popCropSame (g := fun n => 2 * m n) (t := id) (s := s) stk tr' Hc
    rw [List.map_id] at this
    rw [run_cons_ok this]; rfl

/-! ## ResNet, Conv2d, Conv2dGRU -/

theorem step_swap (s t : Shape) (rest tr) : step .swap ⟨s, t :: rest, tr⟩ = .ok ⟨t, s :: rest, tr⟩ := rfl

theorem resnet_ok (nblocks : Nat) (s : Shape) (stk tr) (H : Pos s) :
    ∃ tr', run (resnet 3 1 nblocks) ⟨s, stk, tr⟩ = .ok ⟨s, stk, tr'⟩ := by
  simp only [resnet, List.append_assoc, List.cons_append, List.nil_append]
  rw [run_cons_ok (step_conv_same (by decide) (by decide) _ _ H),
    run_cons_ok (step_emit _ _ _),
    run_cons_ok (step_conv_same (by decide) (by decide) _ _ H), run_cons_ok (step_emit _ _ _),
    run_append_ok (run_replicate_conv_same (by decide) (by decide) _ _ _ H),
    run_cons_ok (step_emit _ _ _),
    run_cons_ok (step_conv_same (by decide) (by decide) _ _ H),
    run_cons_ok (step_conv_same (by decide) (by decide) _ _ H), run_cons_ok (step_emit _ _ _)]
  exact ⟨_, rfl⟩

theorem convNet_ok (bn : Bool) (m : Nat) : ∀ (s : Shape) (stk tr), Pos s →
    ∃ tr', run (convNet 3 1 bn m) ⟨s, stk, tr⟩ = .ok ⟨s, stk, tr'⟩ := by
  induction m with
  | zero => intro s stk tr _; exact ⟨tr, rfl⟩
  | succ m ih =>
    intro s stk tr H
    simp only [convNet, List.append_assoc, List.cons_append, List.nil_append]
    rw [run_cons_ok (step_conv_same (by decide) (by decide) _ _ H), run_cons_ok (step_emit _ _ _)]
    have em : ∀ tr0, ∃ tr', run ((if m = 0 then [] else [Op.emit]) ++ convNet 3 1 bn m) ⟨s, stk, tr0⟩ = .ok ⟨s, stk, tr'⟩ := by
      intro tr0
      by_cases hm : m = 0
      · rw [if_pos hm]; exact ih s stk tr0 H
      · rw [if_neg hm, List.cons_append, List.nil_append, run_cons_ok (step_emit _ _ _)]; exact ih s stk _ H
    cases bn
    · simp only [Bool.false_eq_true, if_false, List.nil_append]; exact em _
    · simp only [if_true, List.cons_append, List.nil_append]
      rw [run_cons_ok (step_emit _ _ _)]; exact em _

theorem gruBlock_ok (repl : Bool) (idx : Nat) (s : Shape) (stk tr) (H : Pos s) :
    run (gruBlock repl idx) ⟨s, stk, tr⟩ = .ok ⟨s, stk, tr⟩ := by
  cases repl
  · -- zero padding: a stride-1 conv whose padding compensates the dilated kernel
    by_cases h0 : idx = 0
    · subst h0
      rw [show gruBlock false 0 = [.conv 5 1 2 1] by decide, run_cons_ok (step_conv_same (by decide) (by decide) stk tr H)]; rfl
    · by_cases h1 : idx = 1
      · subst h1
        rw [show gruBlock false 1 = [.conv 3 1 2 2] by decide, run_cons_ok (step_conv_same (by decide) (by decide) stk tr H)]; rfl
      · rw [show gruBlock false idx = [.conv 3 1 1 1] by simp [gruBlock, h0, h1],
          run_cons_ok (step_conv_same (by decide) (by decide) stk tr H)]; rfl
  · have hs : s = s.map id := by simp
    have key : run (gruBlock true idx) ⟨s.map id, stk, tr⟩ = .ok ⟨s.map id, stk, tr⟩ := by
      have rp : ∀ p, step (.replPad p) ⟨s.map id, stk, tr⟩ = .ok ⟨s.map (fun n => id n + 2 * p), stk, tr⟩ := by
        intro p; exact axes_map stk tr (by intro n hn; have := H n hn; simp; omega)
      have cv : ∀ k p d, 1 ≤ k → d * (k - 1) = 2 * p → step (.conv k 1 0 d) ⟨s.map (fun n => id n + 2 * p), stk, tr⟩ =
          .ok ⟨s.map id, stk, tr⟩ := by
        intro k p d hk hd
        rw [stepm_conv stk tr (by intro n hn; have := H n hn; simp [convOk]; omega)]
        congr 2; apply List.map_congr_left; intro n hn; have := H n hn
        simp only [convOut, id, Nat.div_one]; omega
      by_cases h0 : idx = 0
      · subst h0
        rw [show gruBlock true 0 = [.replPad 2, .conv 5 1 0 1] by decide,
          run_cons_ok (rp 2), run_cons_ok (cv 5 2 1 (by decide) (by decide))]; rfl
      · by_cases h1 : idx = 1
        · subst h1
          rw [show gruBlock true 1 = [.replPad 2, .conv 3 1 0 2] by decide,
            run_cons_ok (rp 2), run_cons_ok (cv 3 2 2 (by decide) (by decide))]; rfl
        · rw [show gruBlock true idx = [.replPad 1, .conv 3 1 0 1] by simp [gruBlock, h0, h1],
            run_cons_ok (rp 1), run_cons_ok (cv 3 1 1 (by decide) (by decide))]; rfl
    rwa [← hs] at key

theorem gruGate_ok (inorm : Bool) (s : Shape) (stk tr) (H : Pos s) (Hn : inorm = true → 1 < numel s) :
    run (gruGate inorm) ⟨s, stk, tr⟩ = .ok ⟨s, stk, tr⟩ := by
  cases inorm
  · simp only [gruGate, Bool.false_eq_true, if_false, List.nil_append]
    rw [run_cons_ok (step_conv_same (by decide) (by decide) _ _ H)]; rfl
  · simp only [gruGate, if_true, List.cons_append, List.nil_append]
    rw [run_cons_ok (step_instNorm _ _ (Hn rfl)), run_cons_ok (step_conv_same (by decide) (by decide) _ _ H)]; rfl

theorem gruLayers_ok (repl inorm : Bool) (m : Nat) : ∀ (s : Shape) (stk tr), Pos s → (inorm = true → 1 < numel s) →
    ∃ tr', run (gruLayers repl inorm m) ⟨s, stk, tr⟩ = .ok ⟨s, stk, tr'⟩ := by
  induction m with
  | zero => intro s stk tr _ _; exact ⟨tr, rfl⟩
  | succ m ih =>
    intro s stk tr H Hn
    obtain ⟨tr1, h1⟩ := ih s stk tr H Hn
    simp only [gruLayers, List.append_assoc]
    rw [run_append_ok h1, run_append_ok (gruBlock_ok repl m s _ _ H), List.cons_append, List.nil_append,
      run_cons_ok (step_emit _ _ _), run_append_ok (gruGate_ok inorm s _ _ H Hn),
      run_append_ok (gruGate_ok inorm s _ _ H Hn), gruGate_ok inorm s _ _ H Hn]
    exact ⟨_, rfl⟩

theorem gru_ok (repl inorm : Bool) (layers : Nat) (s : Shape) (stk tr) (H : Pos s) (Hn : inorm = true → 1 < numel s) :
    ∃ tr', run (gru repl inorm layers) ⟨s, stk, tr⟩ = .ok ⟨s, stk, tr'⟩ := by
  obtain ⟨tr1, h1⟩ := gruLayers_ok repl inorm layers s stk tr H Hn
  simp only [gru, List.append_assoc]
  rw [run_append_ok h1, run_append_ok (gruBlock_ok repl layers s _ _ H), run_cons_ok (step_emit _ _ _)]
  exact ⟨_, rfl⟩

/-! ## closed form of the MWCNN minimum -/

def mwThr : Nat → Nat
  | 0 => 2
  | r + 1 => 2 ^ (r + 1) + 2

theorem belowOk_iff (r : Nat) : ∀ n, belowOk r n = true ↔ (n % 2 = 0 ∧ mwThr r ≤ n) := by
  induction r with
  | zero => intro n; simp [belowOk, mwThr]
  | succ r ih =>
    intro n
    simp only [belowOk, Bool.and_eq_true, Bool.or_eq_true, beq_iff_eq, decide_eq_true_eq, ih, padEvenOut, mwThr]
    cases r with
    | zero => simp only [mwThr]; omega
    | succ r =>
      simp only [mwThr]
      have hp : 2 ^ (r + 1 + 1) = 2 * 2 ^ (r + 1) := by rw [Nat.pow_succ]; omega
      have hq : 2 ^ (r + 1) = 2 * 2 ^ r := by rw [Nat.pow_succ]; omega
      have : 1 ≤ 2 ^ r := Nat.one_le_two_pow
      omega

/-- `MWCNN(num_scales = S + 2)` admits an axis iff it is longer than `2^S` -/
theorem mwAxisOk_iff (S n : Nat) : mwAxisOk (S + 2) n = true ↔ 2 ^ S + 1 ≤ n := by
  simp only [mwAxisOk, Bool.and_eq_true, Bool.or_eq_true, beq_iff_eq, decide_eq_true_eq, belowOk_iff, padEvenOut]
  cases S with
  | zero => simp only [mwThr]; omega
  | succ r =>
    simp only [mwThr]
    have hq : 2 ^ (r + 1) = 2 * 2 ^ r := by rw [Nat.pow_succ]; omega
    have : 1 ≤ 2 ^ r := Nat.one_le_two_pow
    omega
end DirectVerif.C17L
