import DirectVerif.Lemmas.C01DftND
import DirectVerif.Lemmas.C01Validate
/-!
# C01 — the n-D transform as ONE multi-index sum (any number of axes, any axis order, centred or not)

`Tensor.offset shape idx` is the row-major flat offset the driver uses to place the probe impulse.
For the backend the driver runs (`Fft.tensorBackend dftF dims`: the model's n-D `fftshift` /
`ifftshift` and the per-axis DFT lifted through `Tensor.alongAxis`) this file proves

* `alongAxis_linear_offset` — entry `idx` of a lifted linear per-fibre map is
  `Σ_j A (idx[d]) j · t[idx with idx[d] := j]` (multi-index reading of `alongAxis`);
* `fft2_eq_applyAxes` — for every duplicate-free axis tuple the plan
  `fftshift ∘ (i)fftn(norm) ∘ ifftshift` (centred) resp. `(i)fftn(norm)` regroups into ONE 1-D operator per axis
  (the centred 1-D DFT `cfft1` resp. the plain 1-D DFT);
* **`fft2_nd_sum`** — entry `idx` of `fft2` / `ifft2` over `dims = [d₁, …, d_r]` (any `r`, any order) is the iterated sum
  `Σ_{j_r} … Σ_{j_1}  Π_i W_{n_i}(idx[d_i], j_i) · t[idx with idx[d_i] := j_i]`, `W_n(k, j) = scale · ω_n^{∓(j-c)(k-c)}`,
  `c = ⌊n/2⌋` when centred and `0` otherwise (`nSum`, a plain recursion over `dims`);
* `fft2_two_axes_closed`, `fft2_three_axes_closed` — the same written out as an explicit double / triple sum
  (for `dims = [a, b]` in either order: no `a < b` needed);
* `cdftMat_eq_exp`, `dftMat_eq_exp` — the kernels in textbook form `scale · exp(∓2πi (j-c)(k-c)/n)`.
-/
namespace DirectVerif.C01Sum
open DirectVerif DirectVerif.Tensor DirectVerif.TensorLift DirectVerif.Shift DirectVerif.Fft DirectVerif.C01Dft
open DirectVerif.C01DftND ZMod
open scoped BigOperators

/-! ## row-major offsets of multi-indices -/

/-- the multi-index `idx` lies inside the shape `s` (same rank, every entry below the axis length) -/
def InRange (s idx : List Nat) : Prop := List.Forall₂ (fun i n => i < n) idx s

/-- recursive (non-Horner) form of the row-major offset -/
def off : List Nat → List Nat → Nat
  | _ :: s, i :: idx => i * prod s + off s idx
  | _, _ => 0

theorem InRange.length {s idx : List Nat} (h : InRange s idx) : idx.length = s.length := List.Forall₂.length_eq h

theorem foldl_horner (l : List (Nat × Nat)) (acc : Nat) :
    l.foldl (fun acc (p : Nat × Nat) => acc * p.1 + p.2) acc =
      acc * prod (l.map Prod.fst) + l.foldl (fun acc (p : Nat × Nat) => acc * p.1 + p.2) 0 := by
  induction l generalizing acc with
  | nil => simp [prod_nil]
  | cons p l ih =>
    simp only [List.foldl_cons, List.map_cons, prod_cons]
    rw [ih, ih (0 * p.1 + p.2)]
    ring

theorem offset_eq_foldl (s idx : List Nat) :
    Tensor.offset s idx = (s.zip idx).foldl (fun acc (p : Nat × Nat) => acc * p.1 + p.2) 0 := rfl

/-- **`Tensor.offset` (Horner form, what the driver executes) is `Σ_a idx[a] · Π_{b>a} s[b]`** -/
theorem offset_eq_off (s idx : List Nat) (h : idx.length = s.length) : Tensor.offset s idx = off s idx := by
  induction s generalizing idx with
  | nil => cases idx <;> rfl
  | cons n s ih =>
    cases idx with
    | nil => simp at h
    | cons i idx =>
      have hl : idx.length = s.length := by simpa using h
      rw [offset_eq_foldl, List.zip_cons_cons, List.foldl_cons, foldl_horner, ← offset_eq_foldl, ih idx hl]
      simp only [off, Nat.zero_mul, Nat.zero_add]
      rw [List.map_fst_zip (by omega)]

theorem off_lt {s idx : List Nat} (h : InRange s idx) : off s idx < prod s := by
  induction h with
  | nil => simp [off, prod_nil]
  | @cons i n idx s hin _ ih =>
    simp only [off, prod_cons]
    calc i * prod s + off s idx < i * prod s + prod s := by omega
      _ = (i + 1) * prod s := by ring
      _ ≤ n * prod s := Nat.mul_le_mul_right _ hin

theorem InRange.set {s idx : List Nat} (h : InRange s idx) (d j : Nat) (hj : j < s.getD d 1) :
    InRange s (idx.set d j) := by
  induction h generalizing d with
  | nil => simp only [List.set_nil]; exact List.Forall₂.nil
  | @cons i n idx s hin hrest ih =>
    cases d with
    | zero => exact List.Forall₂.cons (by simpa using hj) hrest
    | succ d => exact List.Forall₂.cons hin (ih d (by simpa using hj))

theorem InRange.getD_lt {s idx : List Nat} (h : InRange s idx) (d : Nat) (hd : d < s.length) :
    idx.getD d 0 < s.getD d 1 := by
  induction h generalizing d with
  | nil => simp at hd
  | @cons i n idx s hin _ ih =>
    cases d with
    | zero => simpa using hin
    | succ d => simpa using ih d (by simpa using hd)

theorem set_getD_self0 (idx : List Nat) (d : Nat) : idx.set d (idx.getD d 0) = idx := by
  induction idx generalizing d with
  | nil => rfl
  | cons i idx ih => cases d with
    | zero => rfl
    | succ d => simp only [List.set_cons_succ, List.getD_cons_succ, ih]

/-- **axis decomposition of the offset**: `off s (idx with idx[d] := j) = o · n_d · inner + j · inner + i` with the
*same* outer / inner parts `o < Π s[:d]`, `i < Π s[d+1:]` for every `j` -/
theorem off_split {s idx : List Nat} (h : InRange s idx) (d : Nat) (hd : d < s.length) :
    ∃ o i, o < prod (s.take d) ∧ i < prod (s.drop (d + 1)) ∧
      ∀ j, off s (idx.set d j) = o * s.getD d 1 * prod (s.drop (d + 1)) + j * prod (s.drop (d + 1)) + i := by
  induction h generalizing d with
  | nil => simp at hd
  | @cons i0 n idx s hin hrest ih =>
    cases d with
    | zero =>
      refine ⟨0, off s idx, by simp [prod_nil], by simpa using off_lt hrest, fun j => ?_⟩
      simp [off]
    | succ d =>
      have hd' : d < s.length := by simpa using hd
      obtain ⟨o, i, ho, hi, hj⟩ := ih d hd'
      refine ⟨i0 * prod (s.take d) + o, i, ?_, by simpa using hi, fun j => ?_⟩
      · simp only [List.take_succ_cons, prod_cons]
        calc i0 * prod (s.take d) + o < i0 * prod (s.take d) + prod (s.take d) := by omega
          _ = (i0 + 1) * prod (s.take d) := by ring
          _ ≤ n * prod (s.take d) := Nat.mul_le_mul_right _ hin
      · have hn : s.getD d 1 = s[d] := by
          rw [List.getD_eq_getElem?_getD, List.getElem?_eq_getElem hd']; rfl
        simp only [List.set_cons_succ, off, List.getD_cons_succ, List.drop_succ_cons]
        rw [hj j, prod_split s d hd', hn]
        ring

/-! ## multi-index reading of a lifted linear map -/

/-- **entry `idx` of a linear per-fibre map lifted along axis `d`**:
`(alongAxis d f t)[idx] = Σ_j A (idx[d]) j · t[idx with idx[d] := j]` -/
theorem alongAxis_linear_off {s : List Nat} {t : Tensor ℂ} (ht : WF s t) (d : Nat) (hd : d < s.length)
    (f : List ℂ → List ℂ) (A : Nat → Nat → ℂ) (hf : IsLinear f (s.getD d 1) (s.getD d 1) A)
    (idx : List Nat) (h : InRange s idx) :
    (t.alongAxis d f).data.getD (off s idx) default =
      ∑ j ∈ Finset.range (s.getD d 1), A (idx.getD d 0) j * t.data.getD (off s (idx.set d j)) default := by
  obtain ⟨o, i, ho, hi, hj⟩ := off_split h d hd
  obtain ⟨_, hs⟩ := ht
  subst hs
  have hk := h.getD_lt d hd
  conv_lhs => rw [← set_getD_self0 idx d, hj]
  rw [alongAxis_eq t d f _ hf.len]
  show (gather _ _ _ _).getD _ default = _
  rw [gather_fibres_getD_linear _ _ _ _ _ f A hf o _ i ho hk hi]
  refine Finset.sum_congr rfl fun j _ => ?_
  rw [hj j]

/-! ## iterated sums over a list of axes -/

/-- the iterated sum over the axes `dims` (applied in list order, like `applyAxes`):
`nSum W s [d₁, …, d_r] idx g = Σ_{j_r} W d_r (idx[d_r]) j_r · ( … Σ_{j_1} W d_1 (idx[d_1]) j_1 · g (idx with idx[d_i] := j_i))`
when the axes are distinct -/
noncomputable def nSum (W : Nat → Nat → Nat → ℂ) (s : List Nat) : List Nat → List Nat → (List Nat → ℂ) → ℂ
  | [], idx, g => g idx
  | d :: ds, idx, g =>
    nSum W s ds idx fun idx' => ∑ j ∈ Finset.range (s.getD d 1), W d (idx'.getD d 0) j * g (idx'.set d j)

/-- only the values of `g` on in-range multi-indices matter -/
theorem nSum_congr (W : Nat → Nat → Nat → ℂ) (s dims : List Nat) (idx : List Nat) (h : InRange s idx)
    (g g' : List Nat → ℂ) (hg : ∀ idx', InRange s idx' → g idx' = g' idx') :
    nSum W s dims idx g = nSum W s dims idx g' := by
  induction dims generalizing g g' with
  | nil => exact hg idx h
  | cons d ds ih =>
    simp only [nSum]
    refine ih _ _ fun idx' h' => Finset.sum_congr rfl fun j hj => ?_
    rw [hg _ (h'.set d j (Finset.mem_range.mp hj))]

/-- **entry `idx` of per-axis linear maps applied along `dims`** (any list of in-range axes) -/
theorem applyAxes_linear_off (s dims : List Nat) (hr : ∀ d ∈ dims, d < s.length)
    (op : Nat → List ℂ → List ℂ) (W : Nat → Nat → Nat → ℂ)
    (hlin : ∀ d ∈ dims, IsLinear (op d) (s.getD d 1) (s.getD d 1) (W d))
    (t : Tensor ℂ) (ht : WF s t) (idx : List Nat) (h : InRange s idx) :
    (applyAxes (fun d u => u.alongAxis d (op d)) dims t).data.getD (off s idx) default =
      nSum W s dims idx (fun idx' => t.data.getD (off s idx') default) := by
  induction dims generalizing t with
  | nil => rfl
  | cons d ds ih =>
    have hd := List.mem_cons_self (a := d) (l := ds)
    rw [C01.applyAxes_cons,
      ih (fun d' h' => hr d' (List.mem_cons_of_mem _ h')) (fun d' h' => hlin d' (List.mem_cons_of_mem _ h'))
        _ (ht.alongAxis d (hr d hd) _ (hlin d hd).len)]
    simp only [nSum]
    exact nSum_congr W s ds idx h _ _ fun idx' h' => alongAxis_linear_off ht d (hr d hd) _ _ (hlin d hd) idx' h'

/-! ## regrouping the plan into one 1-D operator per axis -/

/-- fusing two sweeps over the same duplicate-free axis list into one sweep of the composed per-axis operators,
when the second family commutes with the first across *different* axes -/
theorem applyAxes_fuse (s dims : List Nat) (hnd : dims.Nodup) (hr : ∀ d ∈ dims, d < s.length)
    (p q : Nat → List ℂ → List ℂ)
    (hp : ∀ d ∈ dims, LenUniform (p d) (s.getD d 1) (s.getD d 1))
    (hq : ∀ d ∈ dims, LenUniform (q d) (s.getD d 1) (s.getD d 1))
    (hcomm : ∀ d ∈ dims, ∀ d' ∈ dims, d ≠ d' → ∀ x : Tensor ℂ, WF s x →
      (x.alongAxis d' (p d')).alongAxis d (q d) = (x.alongAxis d (q d)).alongAxis d' (p d'))
    (t : Tensor ℂ) (ht : WF s t) :
    applyAxes (fun d u => u.alongAxis d (q d)) dims (applyAxes (fun d u => u.alongAxis d (p d)) dims t) =
      applyAxes (fun d u => u.alongAxis d (q d ∘ p d)) dims t := by
  induction dims generalizing t with
  | nil => rfl
  | cons d ds ih =>
    rw [List.nodup_cons] at hnd
    have hd := List.mem_cons_self (a := d) (l := ds)
    have hdr := hr d hd
    have hpt : WF s (t.alongAxis d (p d)) := ht.alongAxis d hdr _ (hp d hd)
    rw [C01.applyAxes_cons, C01.applyAxes_cons, C01.applyAxes_cons]
    have hmove : (applyAxes (fun d u => u.alongAxis d (p d)) ds (t.alongAxis d (p d))).alongAxis d (q d) =
        applyAxes (fun d u => u.alongAxis d (p d)) ds ((t.alongAxis d (p d)).alongAxis d (q d)) :=
      applyAxes_comm_on (WF s) (fun u => u.alongAxis d (q d)) (fun d u => u.alongAxis d (p d)) ds
        (fun d' hd' x hx => hx.alongAxis d' (hr d' (List.mem_cons_of_mem _ hd')) _ (hp d' (List.mem_cons_of_mem _ hd')))
        (fun d' hd' x hx => hcomm d hd d' (List.mem_cons_of_mem _ hd') (fun e => hnd.1 (e ▸ hd')) x hx)
        _ hpt
    rw [hmove, comp_on ht d hdr _ _ (hp d hd) (hq d hd)]
    exact ih hnd.2 (fun d' h' => hr d' (List.mem_cons_of_mem _ h')) (fun d' h' => hp d' (List.mem_cons_of_mem _ h'))
      (fun d' h' => hq d' (List.mem_cons_of_mem _ h'))
      (fun a ha b hb => hcomm a (List.mem_cons_of_mem _ ha) b (List.mem_cons_of_mem _ hb))
      _ (ht.alongAxis d hdr _ (fun xs hxs => by rw [Function.comp, hq d hd _ (hp d hd xs hxs)]))

/-- the single 1-D operator per axis that the plan amounts to -/
noncomputable def op1 (centered inverse : Bool) (nm : Norm) : List ℂ → List ℂ :=
  if centered then cfft1 inverse nm else torchFft inverse nm

/-- its matrix: `scale · ω^{∓(j-c)(k-c)}` with `c = ⌊n/2⌋` (centred) or `c = 0` -/
noncomputable def kernel (centered inverse : Bool) (nm : Norm) (n : Nat) : Nat → Nat → ℂ :=
  if centered then cdftMat inverse nm n else dftMat inverse nm n

theorem op1_isLinear (c inverse : Bool) (nm : Norm) (n : Nat) : IsLinear (op1 c inverse nm) n n (kernel c inverse nm n) := by
  cases c
  · exact torchFft_isLinear inverse nm n
  · exact cfft1_isLinear inverse nm n

theorem lenU_op1 (c inverse : Bool) (nm : Norm) (n : Nat) : LenUniform (op1 c inverse nm) n n := (op1_isLinear c inverse nm n).len

/-- **the centred sweep regroups per axis**, for every duplicate-free in-range axis list:
`fftshift_dims ∘ (per-axis DFT over dims) ∘ ifftshift_dims = per-axis centred DFT over dims` -/
theorem centred_axes (t : Tensor ℂ) (dims : List Nat) (hnd : dims.Nodup) (hwf : t.data.length = prod t.shape)
    (hr : ∀ d ∈ dims, d < t.shape.length) (inverse : Bool) (nm : Norm) :
    Shift.fftshift (applyAxes (fun d u => u.alongAxis d (dftF inverse nm d)) dims (Shift.ifftshift t dims)) dims =
      applyAxes (fun d u => u.alongAxis d (cfft1 inverse nm)) dims t := by
  have ht : WF t.shape t := ⟨hwf, rfl⟩
  have lI : ∀ d ∈ dims, LenUniform (ifftshift1 (α := ℂ)) (t.shape.getD d 1) (t.shape.getD d 1) := fun d _ => lenUniform_ifftshift1 _
  have lS : ∀ d ∈ dims, LenUniform (fftshift1 (α := ℂ)) (t.shape.getD d 1) (t.shape.getD d 1) := fun d _ => lenUniform_fftshift1 _
  have lF : ∀ d ∈ dims, LenUniform (torchFft inverse nm) (t.shape.getD d 1) (t.shape.getD d 1) := fun d _ => lenU_torchFft inverse nm _
  have lFI : ∀ d ∈ dims, LenUniform (torchFft inverse nm ∘ ifftshift1) (t.shape.getD d 1) (t.shape.getD d 1) :=
    fun d _ xs hxs => by rw [Function.comp, torchFft_length, C01.ifftshift1_length, hxs]
  have h1 : WF t.shape (applyAxes (fun d u => u.alongAxis d ifftshift1) dims t) :=
    WF.applyAxes (fun _ => ifftshift1) dims hr lI ht
  have h2 : WF t.shape (applyAxes (fun d u => u.alongAxis d (torchFft inverse nm)) dims
      (applyAxes (fun d u => u.alongAxis d ifftshift1) dims t)) := WF.applyAxes (fun _ => torchFft inverse nm) dims hr lF h1
  rw [ifftshift_eq_applyAxes t.shape dims hr t ht]
  show Shift.fftshift (applyAxes (fun d u => u.alongAxis d (torchFft inverse nm)) dims _) dims = _
  rw [fftshift_eq_applyAxes t.shape dims hr _ h2,
    applyAxes_fuse t.shape dims hnd hr (fun _ => ifftshift1) (fun _ => torchFft inverse nm) lI lF
      (fun d hd d' hd' hne x hx => ifftshift_comm_nd x d' d (torchFft inverse nm) _ hne.symm
        (by rw [hx.2]; exact hr d' hd') (by rw [hx.2]; exact hr d hd) (by rw [hx.2]; exact lF d hd)) t ht,
    applyAxes_fuse t.shape dims hnd hr (fun _ => torchFft inverse nm ∘ ifftshift1) (fun _ => fftshift1) lFI lS
      (fun d hd d' hd' hne x hx => (fftshift_comm_nd x d d' (torchFft inverse nm ∘ ifftshift1) _ hne
        (by rw [hx.2]; exact hr d hd) (by rw [hx.2]; exact hr d' hd') (by rw [hx.2]; exact lFI d' hd')).symm) t ht]
  rfl

/-- **`fft2` / `ifft2` of the backend the driver runs = one 1-D operator per axis**, every flag combination -/
theorem fft2_eq_applyAxes (t : Tensor ℂ) (dims : List Nat) (hnd : dims.Nodup) (hwf : t.data.length = prod t.shape)
    (hr : ∀ d ∈ dims, d < t.shape.length) (cfg : Cfg) (inverse : Bool) :
    (if inverse then ifft2 else fft2) (tensorBackend dftF dims) cfg t =
      applyAxes (fun d u => u.alongAxis d (op1 cfg.centered inverse (normOf cfg))) dims t := by
  obtain ⟨c, nz, ci⟩ := cfg
  cases c
  · cases inverse <;> cases nz <;> cases ci <;>
      simp [fft2, ifft2, runData, fft2Plan, ifft2Plan, Guard.holds, applyOp, tensorBackend, normOf, op1, dftF]
  · have := centred_axes t dims hnd hwf hr inverse (normOf ⟨true, nz, ci⟩)
    cases inverse <;> cases nz <;> cases ci <;>
      simpa [fft2, ifft2, runData, fft2Plan, ifft2Plan, Guard.holds, applyOp, tensorBackend, normOf, op1] using this

/-! ## the closed form -/

/-- **C01 — the n-D (optionally centred) DFT as a single multi-index sum.**  For every well-formed complex tensor,
every duplicate-free in-range axis list `dims` (pair, triple, … in any order), all 8 flag combinations and both
directions, the entry at multi-index `idx` of `fft2` / `ifft2` of the backend the driver runs is the iterated sum over the
transformed axes of the per-axis kernels `scale · ω_n^{∓(j-c)(k-c)}` times the input entry with those coordinates
replaced. -/
theorem fft2_nd_sum (t : Tensor ℂ) (dims : List Nat) (hnd : dims.Nodup) (hwf : t.data.length = prod t.shape)
    (hr : ∀ d ∈ dims, d < t.shape.length) (cfg : Cfg) (inverse : Bool) (idx : List Nat) (hidx : InRange t.shape idx) :
    ((if inverse then ifft2 else fft2) (tensorBackend dftF dims) cfg t).data.getD (Tensor.offset t.shape idx) default =
      nSum (fun d => kernel cfg.centered inverse (normOf cfg) (t.shape.getD d 1)) t.shape dims idx
        (fun idx' => t.data.getD (Tensor.offset t.shape idx') default) := by
  rw [fft2_eq_applyAxes t dims hnd hwf hr cfg inverse, offset_eq_off _ _ hidx.length,
    applyAxes_linear_off t.shape dims hr (fun _ => op1 cfg.centered inverse (normOf cfg))
      (fun d => kernel cfg.centered inverse (normOf cfg) (t.shape.getD d 1))
      (fun d _ => op1_isLinear _ _ _ _) t ⟨hwf, rfl⟩ idx hidx]
  exact nSum_congr _ _ _ idx hidx _ _ fun idx' h' => by rw [offset_eq_off _ _ h'.length]

theorem getD_set_ne0 (idx : List Nat) (a b x : Nat) (h : a ≠ b) : (idx.set a x).getD b 0 = idx.getD b 0 := by
  rw [List.getD_eq_getElem?_getD, List.getElem?_set_ne h, ← List.getD_eq_getElem?_getD]

/-- **two axes, explicit double sum** (`dims = [a, b]`, either order):
`fft2(t)[idx] = Σ_y Σ_x W_b(idx[b], y) · W_a(idx[a], x) · t[idx with idx[b] := y, idx[a] := x]` -/
theorem fft2_two_axes_closed (t : Tensor ℂ) (a b : Nat) (hab : a ≠ b) (ha : a < t.shape.length) (hb : b < t.shape.length)
    (hwf : t.data.length = prod t.shape) (cfg : Cfg) (inverse : Bool) (idx : List Nat) (hidx : InRange t.shape idx) :
    ((if inverse then ifft2 else fft2) (tensorBackend dftF [a, b]) cfg t).data.getD (Tensor.offset t.shape idx) default =
      ∑ y ∈ Finset.range (t.shape.getD b 1), kernel cfg.centered inverse (normOf cfg) (t.shape.getD b 1) (idx.getD b 0) y *
        ∑ x ∈ Finset.range (t.shape.getD a 1), kernel cfg.centered inverse (normOf cfg) (t.shape.getD a 1) (idx.getD a 0) x *
          t.data.getD (Tensor.offset t.shape ((idx.set b y).set a x)) default := by
  rw [fft2_nd_sum t [a, b] (by simp [hab]) hwf (by simp [ha, hb]) cfg inverse idx hidx]
  simp only [nSum]
  refine Finset.sum_congr rfl fun y _ => ?_
  rw [getD_set_ne0 idx b a y hab.symm]

/-- **three axes, explicit triple sum** (`dims = [a, b, c]`, any order of three distinct axes) -/
theorem fft2_three_axes_closed (t : Tensor ℂ) (a b c : Nat) (hab : a ≠ b) (hac : a ≠ c) (hbc : b ≠ c)
    (ha : a < t.shape.length) (hb : b < t.shape.length) (hc : c < t.shape.length)
    (hwf : t.data.length = prod t.shape) (cfg : Cfg) (inverse : Bool) (idx : List Nat) (hidx : InRange t.shape idx) :
    ((if inverse then ifft2 else fft2) (tensorBackend dftF [a, b, c]) cfg t).data.getD (Tensor.offset t.shape idx) default =
      ∑ z ∈ Finset.range (t.shape.getD c 1), kernel cfg.centered inverse (normOf cfg) (t.shape.getD c 1) (idx.getD c 0) z *
        ∑ y ∈ Finset.range (t.shape.getD b 1), kernel cfg.centered inverse (normOf cfg) (t.shape.getD b 1) (idx.getD b 0) y *
          ∑ x ∈ Finset.range (t.shape.getD a 1), kernel cfg.centered inverse (normOf cfg) (t.shape.getD a 1) (idx.getD a 0) x *
            t.data.getD (Tensor.offset t.shape (((idx.set c z).set b y).set a x)) default := by
  rw [fft2_nd_sum t [a, b, c] (by simp [hab, hac, hbc]) hwf (by simp [ha, hb, hc]) cfg inverse idx hidx]
  simp only [nSum]
  refine Finset.sum_congr rfl fun z _ => ?_
  rw [getD_set_ne0 idx c b z hbc.symm]
  congr 1
  refine Finset.sum_congr rfl fun y _ => ?_
  rw [getD_set_ne0 _ b a y hab.symm, getD_set_ne0 idx c a z hac.symm]

/-! ## the kernels in textbook form -/

/-- `W_n(k, j) = scale · exp(∓2πi (j - ⌊n/2⌋)(k - ⌊n/2⌋)/n)` — the centred DFT kernel with `Complex.exp` -/
theorem cdftMat_eq_exp (inverse : Bool) (nm : Norm) (m k j : Nat) :
    cdftMat inverse nm (m + 1) k j = scale inverse nm (m + 1) *
      Complex.exp (2 * Real.pi * Complex.I *
        (((if inverse then 1 else -1) * (((j : ℤ) - ((m + 1) / 2 : ℕ)) * ((k : ℤ) - ((m + 1) / 2 : ℕ))) : ℤ) : ℂ) / ((m + 1 : ℕ) : ℂ)) := by
  rw [← ZMod.stdAddChar_coe]
  simp only [cdftMat]
  generalize (m + 1) / 2 = c
  cases inverse <;> simp

/-- `W_n(k, j) = scale · exp(∓2πi jk/n)` — the plain DFT kernel with `Complex.exp` -/
theorem dftMat_eq_exp (inverse : Bool) (nm : Norm) (m k j : Nat) :
    dftMat inverse nm (m + 1) k j = scale inverse nm (m + 1) *
      Complex.exp (2 * Real.pi * Complex.I * (((if inverse then 1 else -1) * ((j : ℤ) * (k : ℤ)) : ℤ) : ℂ) / ((m + 1 : ℕ) : ℂ)) := by
  rw [← ZMod.stdAddChar_coe]
  cases inverse <;> simp [dftMat]

/-! ## call sites: the theorems apply to every `dim` form found under `direct/` -/

/-- **for every call site that passes `CallSite.ok`** and every axis tuple its `dim` can denote: on every well-formed
complex tensor whose rank covers the tuple, the operators are an inverse pair (all flags) and every entry of the output
is the closed-form multi-index sum -/
theorem callsite_laws (site : CallSite) (h : site.ok = true) (d : List Int) (hd : d ∈ site.dims)
    (t : Tensor ℂ) (hwf : t.data.length = prod t.shape) (hr : ∀ a ∈ d, a.toNat < t.shape.length) (cfg : Cfg) :
    (ifft2 (tensorBackend dftF (d.map Int.toNat)) cfg (fft2 (tensorBackend dftF (d.map Int.toNat)) cfg t) = t ∧
     fft2 (tensorBackend dftF (d.map Int.toNat)) cfg (ifft2 (tensorBackend dftF (d.map Int.toNat)) cfg t) = t) ∧
    ∀ (inverse : Bool) (idx : List Nat), InRange t.shape idx →
      ((if inverse then ifft2 else fft2) (tensorBackend dftF (d.map Int.toNat)) cfg t).data.getD (Tensor.offset t.shape idx) default =
        nSum (fun a => kernel cfg.centered inverse (normOf cfg) (t.shape.getD a 1)) t.shape (d.map Int.toNat) idx
          (fun idx' => t.data.getD (Tensor.offset t.shape idx') default) := by
  have hacc : dimsAcceptable d = true := by
    simp only [CallSite.ok, Bool.and_eq_true, List.all_eq_true] at h
    exact h.1 d hd
  have hnd := C01Validate.dimsAcceptable_nodup d hacc
  have hr' : ∀ a ∈ d.map Int.toNat, a < t.shape.length := by
    intro a ha
    obtain ⟨b, hb, rfl⟩ := List.mem_map.mp ha
    exact hr b hb
  exact ⟨ifft2_fft2_id_tensor_dft t _ hnd hwf hr' cfg,
    fun inverse idx hidx => fft2_nd_sum t _ hnd hwf hr' cfg inverse idx hidx⟩

/-! ## non-vacuity -/

example : InRange [2, 3, 5] [1, 2, 4] := by
  unfold InRange; repeat (first | exact List.Forall₂.nil | refine List.Forall₂.cons (by decide) ?_)
example : Tensor.offset [2, 3, 5] [1, 2, 4] = 29 := by decide
example : off [2, 3, 5] [1, 2, 4] = 29 := by decide

end DirectVerif.C01Sum
