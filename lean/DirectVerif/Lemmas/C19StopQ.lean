import Mathlib.Analysis.Real.Sqrt
import Mathlib.Tactic.FieldSimp
import DirectVerif.Lemmas.C19Stop
/-!
# C19 — the executable stopping test `stopQ` (exact rationals) IS the real-valued test of the code

`Model/DataConsistency.lean : stopQ` decides `rk_norm_sq_new.abs().sqrt().mean() < tol` without square roots over the model's own
rational type `Q` (numerator / positive denominator, normalised by `Q.norm`).  Here: the cast `Q → ℝ`, the arithmetic
of `Q` commutes with it, and `stopQ tol rr = stopTol tol rr` under the cast — so the loop the driver executes stops exactly
when the loop of the theorems (`cg_exit_guarantee`) does.
-/
namespace DirectVerif.DataConsistency

/-- the real number a `Q` stands for -/
noncomputable def Q.toReal (q : Q) : ℝ := (q.num : ℝ) / (q.den : ℝ)

/-- well-formed: non-zero denominator (what `Q.norm` and the driver's `qOf` produce) -/
def Q.WF (q : Q) : Prop := q.den ≠ 0

theorem Q.norm_spec (n : Int) (d : Nat) (hd : d ≠ 0) : (Q.norm n d).WF ∧ (Q.norm n d).toReal = (n : ℝ) / (d : ℝ) := by
  have hg : 0 < Nat.gcd n.natAbs d := Nat.gcd_pos_of_pos_right _ (Nat.pos_of_ne_zero hd)
  have hgd : Nat.gcd n.natAbs d ∣ d := Nat.gcd_dvd_right _ _
  have hgn : ((Nat.gcd n.natAbs d : ℕ) : ℤ) ∣ n := by
    have := Nat.gcd_dvd_left n.natAbs d
    exact Int.natCast_dvd.mpr this
  have hgR : ((Nat.gcd n.natAbs d : ℕ) : ℝ) ≠ 0 := by exact_mod_cast hg.ne'
  have hdR : (d : ℝ) ≠ 0 := by exact_mod_cast hd
  unfold Q.norm
  rw [if_neg hd]
  refine ⟨?_, ?_⟩
  · show d / Nat.gcd n.natAbs d ≠ 0
    exact (Nat.div_pos (Nat.le_of_dvd (Nat.pos_of_ne_zero hd) hgd) hg).ne'
  · show ((n / ((Nat.gcd n.natAbs d : ℕ) : ℤ) : ℤ) : ℝ) / ((d / Nat.gcd n.natAbs d : ℕ) : ℝ) = _
    have hdq : ((d / Nat.gcd n.natAbs d : ℕ) : ℝ) * ((Nat.gcd n.natAbs d : ℕ) : ℝ) = d := by
      exact_mod_cast Nat.div_mul_cancel hgd
    have hnq : ((n / ((Nat.gcd n.natAbs d : ℕ) : ℤ) : ℤ) : ℝ) * ((Nat.gcd n.natAbs d : ℕ) : ℝ) = n := by
      exact_mod_cast Int.ediv_mul_cancel hgn
    have hq0 : ((d / Nat.gcd n.natAbs d : ℕ) : ℝ) ≠ 0 := by
      intro h0
      rw [h0, zero_mul] at hdq
      exact hdR hdq.symm
    rw [div_eq_div_iff hq0 hdR]
    linear_combination ((d / Nat.gcd n.natAbs d : ℕ) : ℝ) * hnq -
      ((n / ((Nat.gcd n.natAbs d : ℕ) : ℤ) : ℤ) : ℝ) * hdq

theorem Q.ofInt_spec (n : Int) : (Q.ofInt n).WF ∧ (Q.ofInt n).toReal = n := by
  refine ⟨by simp [Q.WF, Q.ofInt], by simp [Q.toReal, Q.ofInt]⟩

theorem Q.zero_spec : Q.zero.WF ∧ Q.zero.toReal = 0 := by
  refine ⟨by simp [Q.WF, Q.zero], by simp [Q.toReal, Q.zero]⟩

theorem Q.mul_spec (a b : Q) (ha : a.WF) (hb : b.WF) : (a.mul b).WF ∧ (a.mul b).toReal = a.toReal * b.toReal := by
  have h := Q.norm_spec (a.num * b.num) (a.den * b.den) (Nat.mul_ne_zero ha hb)
  refine ⟨h.1, ?_⟩
  show (Q.norm (a.num * b.num) (a.den * b.den)).toReal = _
  rw [h.2]
  unfold Q.toReal
  push_cast
  rw [mul_div_mul_comm]

theorem Q.sub_spec (a b : Q) (ha : a.WF) (hb : b.WF) : (a.sub b).WF ∧ (a.sub b).toReal = a.toReal - b.toReal := by
  have h := Q.norm_spec (a.num * b.den - b.num * a.den) (a.den * b.den) (Nat.mul_ne_zero ha hb)
  refine ⟨h.1, ?_⟩
  show (Q.norm (a.num * b.den - b.num * a.den) (a.den * b.den)).toReal = _
  rw [h.2]
  unfold Q.toReal
  have h1 : (a.den : ℝ) ≠ 0 := by exact_mod_cast ha
  have h2 : (b.den : ℝ) ≠ 0 := by exact_mod_cast hb
  push_cast
  field_simp

theorem Q.abs_spec (a : Q) (ha : a.WF) : a.abs.WF ∧ a.abs.toReal = |a.toReal| := by
  refine ⟨ha, ?_⟩
  show ((a.num.natAbs : ℤ) : ℝ) / (a.den : ℝ) = |(a.num : ℝ) / (a.den : ℝ)|
  have hd : (0 : ℝ) < a.den := by exact_mod_cast Nat.pos_of_ne_zero ha
  rw [abs_div, abs_of_pos hd, Int.natCast_natAbs, Int.cast_abs]

theorem Q.lt_spec (a b : Q) (ha : a.WF) (hb : b.WF) : a.lt b = true ↔ a.toReal < b.toReal := by
  have h1 : (0 : ℝ) < a.den := by exact_mod_cast Nat.pos_of_ne_zero ha
  have h2 : (0 : ℝ) < b.den := by exact_mod_cast Nat.pos_of_ne_zero hb
  unfold Q.lt Q.toReal
  rw [decide_eq_true_iff, div_lt_div_iff₀ h1 h2]
  constructor
  · intro h; exact_mod_cast h
  · intro h; exact_mod_cast h

open DirectVerif.C19

/-- the complex number a Gaussian rational stands for -/
noncomputable def gqToComplex (g : GQ) : ℂ := ⟨g.re.toReal, g.im.toReal⟩

/-- **the test the driver executes is the test of the theorems**: for well-formed rationals,
`stopQ tol rr = stopTol tol rr` (the code's `rk_norm_sq_new.abs().sqrt().mean() < tol` on one sample) -/
theorem stopQ_eq_stopTol (tol : Q) (rr : GQ) (ht : tol.WF) (hre : rr.re.WF) (him : rr.im.WF) :
    stopQ tol rr = stopTol tol.toReal (gqToComplex rr) := by
  obtain ⟨wa, ea⟩ := Q.abs_spec rr.re hre
  obtain ⟨wb, eb⟩ := Q.abs_spec rr.im him
  obtain ⟨w4, e4⟩ := Q.ofInt_spec 4
  obtain ⟨wtt, ett⟩ := Q.mul_spec tol tol ht ht
  obtain ⟨w4tt, e4tt⟩ := Q.mul_spec (Q.ofInt 4) (tol.mul tol) w4 wtt
  obtain ⟨wc1, ec1⟩ := Q.sub_spec _ _ w4tt wa
  obtain ⟨wc, ec⟩ := Q.sub_spec _ _ wc1 wb
  obtain ⟨wab, eab⟩ := Q.mul_spec _ _ wa wb
  obtain ⟨w4ab, e4ab⟩ := Q.mul_spec (Q.ofInt 4) _ w4 wab
  obtain ⟨wcc, ecc⟩ := Q.mul_spec _ _ wc wc
  obtain ⟨w0, e0⟩ := Q.zero_spec
  have hiff : stopQ tol rr = true ↔ stopTol tol.toReal (gqToComplex rr) = true := by
    unfold stopQ stopTol
    simp only [Bool.and_eq_true, decide_eq_true_iff]
    rw [Q.lt_spec _ _ w0 ht, Q.lt_spec _ _ w0 wc, Q.lt_spec _ _ w4ab wcc, e0, ec, ec1, e4tt, ett, e4, ecc, ec, ec1,
      e4tt, ett, e4, e4ab, eab, e4, ea, eb]
    simp only [Int.cast_ofNat]
    have := stop_test_iff |rr.re.toReal| |rr.im.toReal| tol.toReal (abs_nonneg _) (abs_nonneg _)
    show _ ↔ (Real.sqrt |rr.re.toReal| + Real.sqrt |rr.im.toReal|) / 2 < tol.toReal
    rw [this]
    have e1 : 4 * (tol.toReal * tol.toReal) - |rr.re.toReal| - |rr.im.toReal| =
        4 * tol.toReal ^ 2 - |rr.re.toReal| - |rr.im.toReal| := by ring
    have e2 : 4 * (|rr.re.toReal| * |rr.im.toReal|) = 4 * |rr.re.toReal| * |rr.im.toReal| := by ring
    rw [e1, e2, ← sq, and_assoc]
  cases h1 : stopQ tol rr <;> cases h2 : stopTol tol.toReal (gqToComplex rr) <;> simp_all

end DirectVerif.DataConsistency
