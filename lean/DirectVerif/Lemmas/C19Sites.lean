import DirectVerif.Lemmas.C19Loglik
/-!
# C19 phase 2 — the forms the unrolled models use are the same physics

`Bridge/C19.lean` shows that each site (EndToEndVarNetBlock, RecurrentVarNetBlock, VSharpNet(3D), JointICNet,
IterDualNet, LPDNet, CrossDomainNetwork/XPDNet, MRIVarSplitNet, KIKINet, CIRIM's RIMBlock, MRIModelEngine, the SSL
and VSharp engines) evaluates to one of `softDC`, `sense`, `feOp`, `aOp`, `aStar`, `dcGradTwice`, `dcGradAfter`,
`loglik`, `cirimKspace`, `hardDC`, `sensGrad`.  Here: what those forms are, over Mathlib's inner-product spaces.
-/
open ComplexInnerProductSpace DirectVerif.DataConsistency
open scoped ComplexConjugate

namespace DirectVerif.C19
variable {E : Type*} [NormedAddCommGroup E] [InnerProductSpace ℂ E]
variable {G : Type*} [NormedAddCommGroup G] [InnerProductSpace ℂ G]

/-- `mathOps` plus k-space addition, the complementary mask `1 − M` and an arbitrary coil-wise product `C` -/
noncomputable def mathOpsX (F Fb : G →ₗ[ℂ] G) (Ex : E →ₗ[ℂ] G) (R : G →ₗ[ℂ] E) (M : G →ₗ[ℂ] G)
    (C : E → G → G) : OpsX ℂ E G :=
  { mathOps F Fb Ex R M with
    addW := fun a b => a + b
    maskC := fun w => w - M w
    mulConjVW := C }

section
variable {F Fb : G →ₗ[ℂ] G} {Ex : E →ₗ[ℂ] G} {R : G →ₗ[ℂ] E} {M : G →ₗ[ℂ] G}

local notation "𝒪" => mathOps F Fb Ex R M

/-- `_forward_operator` of LPDNet / XPDNet / JointICNet / IterDualNet / MRIModelEngine and KIKINet's k-space step
are the forward model `A = M F E` -/
theorem aOp_eq_fwdModel (x : E) : aOp 𝒪 x = fwdModel F Ex M x := rfl

/-- their `_backward_operator` (and `ConjGrad._A_star_op`, KIKINet's image step) is `A† = R Fb M` -/
theorem aStar_eq_adjModel (k : G) : aStar 𝒪 k = adjModel Fb R M k := rfl

/-- so the two methods of every such model are mutually adjoint -/
theorem site_operators_adjoint (P : Physics F Fb Ex R M) (x : E) (k : G) :
    ⟪aOp 𝒪 x, k⟫ = ⟪x, aStar 𝒪 k⟫ := adjModel_adjoint P x k

/-- **IterDualNet / JointICNet image step**: `_backward_operator(_forward_operator(x) − y)` is the gradient
`A†(A x − M y)`, i.e. the likelihood-gradient block with unit scaling -/
theorem dcGradTwice_eq_gradient (P : Physics F Fb Ex R M) (x : E) (y : G) :
    dcGradTwice 𝒪 x y = adjModel Fb R M (fwdModel F Ex M x - M y) := by
  show R (Fb (M (M (F (Ex x)) - y))) = _
  simp only [fwdModel, adjModel, LinearMap.comp_apply, map_sub, P.mask_idem]

theorem dcGradTwice_eq_loglik (P : Physics F Fb Ex R M) (x : E) (y : G) :
    dcGradTwice 𝒪 x y = loglik 𝒪 1 x y := by
  rw [dcGradTwice_eq_gradient P, loglik_eq_adjoint_residual P, one_smul]

/-- **VSharpNet / VSharpNet3D x-step**: `R Fb M (F E x − y)` (one mask after the subtraction) is the same gradient -/
theorem dcGradAfter_eq_gradient (P : Physics F Fb Ex R M) (x : E) (y : G) :
    dcGradAfter 𝒪 x y = adjModel Fb R M (fwdModel F Ex M x - M y) := by
  show R (Fb (M (F (Ex x) - y))) = _
  simp only [fwdModel, adjModel, LinearMap.comp_apply, map_sub, P.mask_idem]

theorem dcGradAfter_eq_loglik (P : Physics F Fb Ex R M) (x : E) (y : G) :
    dcGradAfter 𝒪 x y = loglik 𝒪 1 x y := by
  rw [dcGradAfter_eq_gradient P, loglik_eq_adjoint_residual P, one_smul]

/-- **soft data consistency** of EndToEndVarNetBlock / RecurrentVarNetBlock / CIRIM in closed form -/
theorem softDC_eq (k y : G) : softDC 𝒪 k y = M k - M y := by
  show M (k - y) = _
  rw [map_sub]

/-- … it is the gradient of the k-space data-fidelity term `½‖M k − M y‖²` (exact expansion) -/
theorem softDC_is_kspace_gradient (P : Physics F Fb Ex R M) (k h y : G) :
    ‖M (k + h) - M y‖ ^ 2 / 2 = ‖M k - M y‖ ^ 2 / 2 + (⟪softDC 𝒪 k y, h⟫).re + ‖M h‖ ^ 2 / 2 := by
  have e : M (k + h) - M y = (M k - M y) + M h := by rw [map_add]; abel
  have sa : ⟪M k - M y, M h⟫ = ⟪softDC 𝒪 k y, h⟫ := by
    rw [softDC_eq, ← map_sub, ← P.mask_sa, P.mask_idem]
  rw [e, norm_add_sq (𝕜 := ℂ), sa]
  simp only [RCLike.re_to_complex]
  ring

/-- … and pulled back to image space at `k = F E x` it is the image-space gradient -/
theorem softDC_pullback (x : E) (y : G) :
    sense 𝒪 (softDC 𝒪 (feOp 𝒪 x) y) = loglik 𝒪 1 x y := by
  rw [loglik_eq, one_smul]
  show R (Fb (M (F (Ex x) - y))) = _
  rw [map_sub]

/-- MRIVarSplitNet's DC step is the block itself; restated for the table -/
theorem varsplit_dc_eq_gradient (P : Physics F Fb Ex R M) (s : ℂ) (x : E) (y : G) :
    loglik 𝒪 s x y = s • adjModel Fb R M (fwdModel F Ex M x - M y) := loglik_eq_adjoint_residual P s x y

/-- CIRIM's returned k-space in closed form: `y − M(k − y) − F E x` (NOT a gradient step of the data term: the model
prediction enters un-masked and with a minus sign; recorded as is) -/
theorem cirimKspace_eq (x : E) (k y : G) : cirimKspace 𝒪 x k y = y - (M k - M y) - F (Ex x) := by
  show y - M (k - y) - F (Ex x) = _
  rw [map_sub]

variable (C : E → G → G)

local notation "𝒳" => mathOpsX F Fb Ex R M C

/-- **hard data consistency** of the SSL / VSharp engines in closed form: `y + (1 − M) F E x` -/
theorem hardDC_eq (x : E) (y : G) : hardDC 𝒳 x y = y + (F (Ex x) - M (F (Ex x))) := rfl

/-- sampled positions keep the measured data … -/
theorem hardDC_sampled (P : Physics F Fb Ex R M) (x : E) (y : G) : M (hardDC 𝒳 x y) = M y := by
  rw [hardDC_eq, map_add, map_sub, P.mask_idem, sub_self, add_zero]

/-- … unsampled positions take the model's prediction (for masked input data `M y = y`) -/
theorem hardDC_unsampled (P : Physics F Fb Ex R M) (x : E) (y : G) (hy : M y = y) :
    hardDC 𝒳 x y - M (hardDC 𝒳 x y) = F (Ex x) - M (F (Ex x)) := by
  rw [hardDC_sampled C P, hardDC_eq, hy]; abel

/-- hence the hard-DC output is consistent: its data-fidelity gradient vanishes -/
theorem hardDC_consistent (P : Physics F Fb Ex R M) (x : E) (y : G) :
    softDC 𝒪 (hardDC 𝒳 x y) y = 0 := by
  rw [softDC_eq, hardDC_sampled C P, sub_self]

/-- JointICNet's sensitivity-map step in closed form: `C x (Fb M (A x − y))` with `C x w = w · conj x` coil-wise
(its being the gradient with respect to the sensitivity map is checked on the real code by the oracle) -/
theorem sensGrad_eq (x : E) (y : G) : sensGrad 𝒳 x y = C x (Fb (M (M (F (Ex x)) - y))) := rfl

end
end DirectVerif.C19
