import DirectVerif.Lemmas.TensorLift
import Mathlib.Algebra.BigOperators.Group.Finset.Basic
import Mathlib.Algebra.BigOperators.Ring.Finset
import Mathlib.Algebra.BigOperators.Group.List.Basic
import Mathlib.Algebra.BigOperators.Group.Finset.Sigma
import Mathlib.Tactic.Ring
/-!
# Liftings of *linear* per-fibre maps along two different axes commute

`Tensor.alongAxis a f` and `Tensor.alongAxis b g` do not commute for arbitrary `f`, `g`
(`TensorLift.alongAxis_comm_fails_in_general`).  They do when both act linearly on the fibres,
`(f xs)[k] = Σ_j A k j · xs[j]`, over a commutative semiring — the case of the per-axis DFT.
Also: a per-fibre map that preserves an additive "energy" of every fibre preserves the energy of
the whole tensor.
-/
namespace DirectVerif.TensorLift
open DirectVerif DirectVerif.Tensor
open scoped BigOperators

variable {R : Type} [CommSemiring R] [Inhabited R]

/-- on lists of length `n`, `f` is multiplication by the `m × n` matrix `A` -/
structure IsLinear (f : List R → List R) (n m : Nat) (A : Nat → Nat → R) : Prop where
  len : LenUniform f n m
  get : ∀ xs : List R, xs.length = n → ∀ k, k < m →
    (f xs).getD k default = ∑ j ∈ Finset.range n, A k j * xs.getD j default

/-- value of the lifted data at `(o, k, i)` for a linear map -/
theorem gather_fibres_getD_linear (D : List R) (outer n m inner : Nat) (f : List R → List R)
    (A : Nat → Nat → R) (hf : IsLinear f n m A) (o k i : Nat) (ho : o < outer) (hk : k < m) (hi : i < inner) :
    (gather (fibres D outer n inner f) outer m inner).getD (o * m * inner + k * inner + i) default =
      ∑ j ∈ Finset.range n, A k j * D.getD (o * n * inner + j * inner + i) default := by
  rw [gather_getD _ _ _ _ o k i ho hk hi, fibres_getD _ _ _ _ _ o i ho hi, hf.get _ (fibre_length ..) k hk]
  refine Finset.sum_congr rfl fun j hj => ?_
  rw [fibre_getD _ _ _ _ _ _ (Finset.mem_range.mp hj)]

/-- **data-level commutation of two linear liftings**: view `D` as `A × na × M × nb × C` -/
theorem comm_data_linear (D : List R) (A na M nb C ma mb : Nat) (f g : List R → List R)
    (Af Ag : Nat → Nat → R) (hf : IsLinear f na ma Af) (hg : IsLinear g nb mb Ag) :
    gather (fibres (gather (fibres D A na (M * nb * C) f) A ma (M * nb * C)) (A * ma * M) nb C g)
        (A * ma * M) mb C =
      gather (fibres (gather (fibres D (A * na * M) nb C g) (A * na * M) mb C) A na (M * mb * C) f)
        A ma (M * mb * C) := by
  apply ext_getD _ _ default
  · rw [gather_length, gather_length]; grind
  · intro j hj
    rw [gather_length] at hj
    have hj' : j < A * (ma * (M * mb * C)) := by
      have e : A * ma * M * (mb * C) = A * (ma * (M * mb * C)) := by grind
      omega
    obtain ⟨a, k, μ, l, c', ha, hk, hμ, hl, hc, rfl⟩ := idx5_decomp j A ma M mb C hj'
    have hi' : μ * mb * C + l * C + c' < M * mb * C := idx_i_lt _ _ _ _ _ _ hμ hl hc
    -- right-hand side: f after g
    rw [gather_fibres_getD_linear _ _ _ _ _ f Af hf a k _ ha hk hi']
    have hR : ∀ x ∈ Finset.range na,
        Af k x * (gather (fibres D (A * na * M) nb C g) (A * na * M) mb C).getD
          (a * na * (M * mb * C) + x * (M * mb * C) + (μ * mb * C + l * C + c')) default =
        Af k x * ∑ y ∈ Finset.range nb, Ag l y * D.getD (((a * na + x) * M + μ) * nb * C + y * C + c') default := by
      intro x hx
      have hx' := Finset.mem_range.mp hx
      have e3 : a * na * (M * mb * C) + x * (M * mb * C) + (μ * mb * C + l * C + c') =
          ((a * na + x) * M + μ) * mb * C + l * C + c' := by grind
      rw [e3, gather_fibres_getD_linear _ _ _ _ _ g Ag hg _ l c' (idx_o_lt _ _ _ _ _ _ ha hx' hμ) hl hc]
    rw [Finset.sum_congr rfl hR]
    -- left-hand side: g after f
    have e1 : a * ma * (M * mb * C) + k * (M * mb * C) + (μ * mb * C + l * C + c') =
        ((a * ma + k) * M + μ) * mb * C + l * C + c' := by grind
    rw [e1, gather_fibres_getD_linear _ _ _ _ _ g Ag hg _ l c' (idx_o_lt _ _ _ _ _ _ ha hk hμ) hl hc]
    have hL : ∀ y ∈ Finset.range nb,
        Ag l y * (gather (fibres D A na (M * nb * C) f) A ma (M * nb * C)).getD
          (((a * ma + k) * M + μ) * nb * C + y * C + c') default =
        Ag l y * ∑ x ∈ Finset.range na, Af k x * D.getD (((a * na + x) * M + μ) * nb * C + y * C + c') default := by
      intro y hy
      have hy' := Finset.mem_range.mp hy
      have e2 : ((a * ma + k) * M + μ) * nb * C + y * C + c' =
          a * ma * (M * nb * C) + k * (M * nb * C) + (μ * nb * C + y * C + c') := by grind
      rw [e2, gather_fibres_getD_linear _ _ _ _ _ f Af hf a k _ ha hk (idx_i_lt _ _ _ _ _ _ hμ hy' hc)]
      congr 1
      refine Finset.sum_congr rfl fun x _ => ?_
      have e4 : a * na * (M * nb * C) + x * (M * nb * C) + (μ * nb * C + y * C + c') =
          ((a * na + x) * M + μ) * nb * C + y * C + c' := by grind
      rw [e4]
    rw [Finset.sum_congr rfl hL]
    simp only [Finset.mul_sum]
    rw [Finset.sum_comm]
    refine Finset.sum_congr rfl fun x _ => Finset.sum_congr rfl fun y _ => ?_
    ring

/-- **liftings of linear per-fibre maps along two different axes commute** (any tensor) -/
theorem alongAxis_comm_linear (t : Tensor R) (a b : Nat) (f g : List R → List R) (ma mb : Nat)
    (Af Ag : Nat → Nat → R) (hne : a ≠ b) (ha : a < t.shape.length) (hb : b < t.shape.length)
    (hf : IsLinear f (t.shape.getD a 1) ma Af) (hg : IsLinear g (t.shape.getD b 1) mb Ag) :
    (t.alongAxis a f).alongAxis b g = (t.alongAxis b g).alongAxis a f := by
  rcases Nat.lt_or_gt_of_ne hne with hab | hba
  · exact alongAxis_comm_of_data t a b f g ma mb hab hb hf.len hg.len
      (fun A M C => comm_data_linear t.data A _ M _ C ma mb f g Af Ag hf hg)
  · exact (alongAxis_comm_of_data t b a g f mb ma hba ha hg.len hf.len
      (fun A M C => comm_data_linear t.data A _ M _ C mb ma g f Ag Af hg hf)).symm

/-! ## two axes at once: the lifted pair is a double sum -/

/-- data-level: `f` (matrix `Af`) along the 2nd index, then `g` (matrix `Ag`) along the 4th index of
`A × na × M × nb × C` data — the entry `(a, k, μ, l, c)` is `Σ_y Σ_x Ag l y · Af k x · D(a, x, μ, y, c)` -/
theorem gather2_linear_getD (D : List R) (A na M nb C ma mb : Nat) (f g : List R → List R)
    (Af Ag : Nat → Nat → R) (hf : IsLinear f na ma Af) (hg : IsLinear g nb mb Ag)
    (a k μ l c' : Nat) (ha : a < A) (hk : k < ma) (hμ : μ < M) (hl : l < mb) (hc : c' < C) :
    (gather (fibres (gather (fibres D A na (M * nb * C) f) A ma (M * nb * C)) (A * ma * M) nb C g)
        (A * ma * M) mb C).getD (((a * ma + k) * M + μ) * mb * C + l * C + c') default =
      ∑ y ∈ Finset.range nb, ∑ x ∈ Finset.range na,
        Ag l y * (Af k x * D.getD (((a * na + x) * M + μ) * nb * C + y * C + c') default) := by
  rw [gather_fibres_getD_linear _ _ _ _ _ g Ag hg _ l c' (idx_o_lt _ _ _ _ _ _ ha hk hμ) hl hc]
  refine Finset.sum_congr rfl fun y hy => ?_
  have hy' := Finset.mem_range.mp hy
  have e2 : ((a * ma + k) * M + μ) * nb * C + y * C + c' =
      a * ma * (M * nb * C) + k * (M * nb * C) + (μ * nb * C + y * C + c') := by grind
  rw [e2, gather_fibres_getD_linear _ _ _ _ _ f Af hf a k _ ha hk (idx_i_lt _ _ _ _ _ _ hμ hy' hc), Finset.mul_sum]
  refine Finset.sum_congr rfl fun x _ => ?_
  have e4 : a * na * (M * nb * C) + x * (M * nb * C) + (μ * nb * C + y * C + c') =
      ((a * na + x) * M + μ) * nb * C + y * C + c' := by grind
  rw [e4]

omit [CommSemiring R] in
/-- the data of a tensor lifted along two axes `a < b`, as the nested gather over the
`A × n_a × M × n_b × C` view of the row-major data -/
theorem alongAxis2_data (t : Tensor R) (a b : Nat) (f g : List R → List R) (ma mb : Nat)
    (hab : a < b) (hb : b < t.shape.length)
    (hf : LenUniform f (t.shape.getD a 1) ma) (hg : LenUniform g (t.shape.getD b 1) mb) :
    ∃ M, prod (t.shape.take b) = prod (t.shape.take a) * t.shape.getD a 1 * M ∧
      ((t.alongAxis a f).alongAxis b g).data =
        gather (fibres (gather (fibres t.data (prod (t.shape.take a)) (t.shape.getD a 1)
            (M * t.shape.getD b 1 * prod (t.shape.drop (b + 1))) f) (prod (t.shape.take a)) ma
            (M * t.shape.getD b 1 * prod (t.shape.drop (b + 1))))
          (prod (t.shape.take a) * ma * M) (t.shape.getD b 1) (prod (t.shape.drop (b + 1))) g)
          (prod (t.shape.take a) * ma * M) mb (prod (t.shape.drop (b + 1))) := by
  obtain ⟨M, hM1, hM2⟩ := shape_split2 t.shape a b hab hb
  have hne : a ≠ b := by omega
  have hsa : (t.alongAxis a f).shape = t.shape.set a ma := alongAxis_shape t a f ma hf
  have hnb : (t.alongAxis a f).shape.getD b 1 = t.shape.getD b 1 := by rw [hsa, getD_set_ne _ _ _ _ _ hne]
  refine ⟨M, ?_, ?_⟩
  · have h1 := hM1 (t.shape.getD a 1)
    rw [set_getD_self] at h1
    exact h1
  · rw [alongAxis_eq (t.alongAxis a f) b g mb (by rw [hnb]; exact hg), hnb, hsa, alongAxis_eq t a f ma hf]
    simp only []
    have h2 := hM2 (t.shape.getD b 1)
    rw [set_getD_self] at h2
    rw [hM1 ma, h2, List.drop_set_of_lt (show a < b + 1 by omega)]

/-- **two lifted linear maps are one double sum**: for axes `a < b` of a tensor, with
`A = Π shape[:a]`, `C = Π shape[b+1:]` and `M = Π shape[a+1:b]`, the entry at multi-index
`(α, k, μ, l, c)` of `alongAxis b g (alongAxis a f t)` is
`Σ_y Σ_x Ag l y · Af k x · t(α, x, μ, y, c)`. -/
theorem alongAxis2_linear_getD (t : Tensor R) (a b : Nat) (f g : List R → List R) (ma mb : Nat)
    (Af Ag : Nat → Nat → R) (hab : a < b) (hb : b < t.shape.length)
    (hf : IsLinear f (t.shape.getD a 1) ma Af) (hg : IsLinear g (t.shape.getD b 1) mb Ag) :
    ∃ M, prod (t.shape.take b) = prod (t.shape.take a) * t.shape.getD a 1 * M ∧
      ∀ α k μ l c, α < prod (t.shape.take a) → k < ma → μ < M → l < mb → c < prod (t.shape.drop (b + 1)) →
        ((t.alongAxis a f).alongAxis b g).data.getD
            (((α * ma + k) * M + μ) * mb * prod (t.shape.drop (b + 1)) + l * prod (t.shape.drop (b + 1)) + c) default =
          ∑ y ∈ Finset.range (t.shape.getD b 1), ∑ x ∈ Finset.range (t.shape.getD a 1),
            Ag l y * (Af k x * t.data.getD
              (((α * t.shape.getD a 1 + x) * M + μ) * t.shape.getD b 1 * prod (t.shape.drop (b + 1))
                + y * prod (t.shape.drop (b + 1)) + c) default) := by
  obtain ⟨M, hM, hdata⟩ := alongAxis2_data t a b f g ma mb hab hb hf.len hg.len
  refine ⟨M, hM, fun α k μ l c hα hk hμ hl hc => ?_⟩
  rw [hdata]
  exact gather2_linear_getD t.data _ _ M _ _ ma mb f g Af Ag hf hg α k μ l c hα hk hμ hl hc

/-! ## energy: a per-fibre map that preserves the energy of every fibre preserves the energy of the tensor -/

theorem sum_map_range {M : Type} [AddCommMonoid M] (g : ℕ → M) (n : ℕ) :
    ((List.range n).map g).sum = ∑ i ∈ Finset.range n, g i := by
  induction n with
  | zero => simp
  | succ n ih => rw [List.range_succ, List.map_append, List.sum_append, ih, Finset.sum_range_succ]; simp

theorem sum_flatMap_range {M : Type} [AddCommMonoid M] (g : ℕ → List M) (n : ℕ) :
    ((List.range n).flatMap g).sum = ∑ o ∈ Finset.range n, (g o).sum := by
  induction n with
  | zero => simp
  | succ n ih => rw [List.range_succ, List.flatMap_append, List.sum_append, ih, Finset.sum_range_succ]; simp

omit [CommSemiring R] in
/-- the additive weight of a list as a sum over its positions -/
theorem sum_map_eq_range {M : Type} [AddCommMonoid M] (w : R → M) (L : List R) :
    (L.map w).sum = ∑ k ∈ Finset.range L.length, w (L.getD k default) := by
  conv_lhs => rw [← range_map_getD L default]
  rw [List.map_map, sum_map_range]; rfl

omit [CommSemiring R] in
theorem sum_gather_fibres {M : Type} [AddCommMonoid M] (w : R → M) (D : List R) (A n m I : Nat)
    (f : List R → List R) (hf : LenUniform f n m) :
    ((gather (fibres D A n I f) A m I).map w).sum =
      ∑ o ∈ Finset.range A, ∑ i ∈ Finset.range I, ((f (fibre D n I o i)).map w).sum := by
  unfold gather
  rw [List.map_flatMap, sum_flatMap_range]
  refine Finset.sum_congr rfl fun o ho => ?_
  rw [List.map_flatMap, sum_flatMap_range]
  simp only [List.map_map, sum_map_range]
  rw [Finset.sum_comm]
  refine Finset.sum_congr rfl fun i hi => ?_
  rw [sum_map_eq_range, hf _ (fibre_length ..)]
  refine Finset.sum_congr rfl fun k _ => ?_
  simp only [Function.comp]
  rw [fibres_getD _ _ _ _ _ o i (Finset.mem_range.mp ho) (Finset.mem_range.mp hi)]

omit [CommSemiring R] in
/-- **energy lifting**: if `f` preserves the additive weight `Σ w` of every list of the axis length,
lifting it along an axis of a well-formed tensor preserves `Σ w` over the whole tensor -/
theorem alongAxis_sum_eq {M : Type} [AddCommMonoid M] (w : R → M) (t : Tensor R) (axis : Nat)
    (f : List R → List R) (m : Nat) (hwf : t.data.length = prod t.shape) (hax : axis < t.shape.length)
    (hf : LenUniform f (t.shape.getD axis 1) m)
    (hE : ∀ xs : List R, xs.length = t.shape.getD axis 1 → ((f xs).map w).sum = (xs.map w).sum) :
    ((t.alongAxis axis f).data.map w).sum = (t.data.map w).sum := by
  have hn : t.shape.getD axis 1 = t.shape[axis] := by
    rw [List.getD_eq_getElem?_getD, List.getElem?_eq_getElem hax]; rfl
  have hD : t.data.length = prod (t.shape.take axis) * (t.shape.getD axis 1 * prod (t.shape.drop (axis + 1))) := by
    rw [hwf, prod_split _ _ hax, hn, Nat.mul_assoc]
  rw [alongAxis_eq t axis f m hf]
  show ((gather _ _ _ _).map w).sum = _
  rw [sum_gather_fibres w _ _ _ _ _ f hf]
  conv_rhs => rw [← gather_fibres_id t.data _ _ _ hD]
  rw [sum_gather_fibres w _ _ _ _ _ id (fun _ h => h)]
  refine Finset.sum_congr rfl fun o _ => Finset.sum_congr rfl fun i _ => ?_
  exact hE _ (fibre_length ..)

end DirectVerif.TensorLift
