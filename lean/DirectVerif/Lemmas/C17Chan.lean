import DirectVerif.Model.ShapesChan
/-!
Helper lemmas for the channel programs of C17 (`Model/ShapesChan.lean`): a small Hoare-style calculus `CRun` for the
register machine and the channel contracts of the denoisers for **all** widths and depths.
-/
namespace DirectVerif.C17L
open DirectVerif.Shapes

theorem runC_append (p q : List COp) (st : CState) :
    runC (p ++ q) st = match runC p st with
      | .ok s1 => runC q s1
      | .error e => .error e := by
  induction p generalizing st with
  | nil => rfl
  | cons op ops ih =>
    simp only [List.cons_append, runC]
    cases cstep op st with
    | ok s1 => exact ih s1
    | error e => rfl

/-- `p` takes a running tensor of `a` channels and register file `ra` to `b` channels and register file `rb`, whatever
has been emitted before -/
def CRun (p : List COp) (a : Nat) (ra : List Nat) (b : Nat) (rb : List Nat) : Prop :=
  ∀ tr, ∃ tr', runC p ⟨a, ra, tr⟩ = .ok ⟨b, rb, tr'⟩

namespace CRun

theorem nil {a : Nat} {r : List Nat} : CRun [] a r a r := fun tr => ⟨tr, rfl⟩

theorem append {p q : List COp} {a b c : Nat} {ra rb rc : List Nat} (h1 : CRun p a ra b rb) (h2 : CRun q b rb c rc) :
    CRun (p ++ q) a ra c rc := by
  intro tr
  obtain ⟨t1, e1⟩ := h1 tr
  obtain ⟨t2, e2⟩ := h2 t1
  exact ⟨t2, by rw [runC_append, e1]; exact e2⟩

theorem cons {op : COp} {q : List COp} {a b c : Nat} {ra rb rc : List Nat} (h1 : CRun [op] a ra b rb)
    (h2 : CRun q b rb c rc) : CRun (op :: q) a ra c rc := append (p := [op]) h1 h2

theorem cast_in {p : List COp} {a a' b : Nat} {ra rb : List Nat} (h : a = a') (H : CRun p a' ra b rb) : CRun p a ra b rb :=
  h ▸ H

theorem cast_out {p : List COp} {a b b' : Nat} {ra rb : List Nat} (h : b' = b) (H : CRun p a ra b' rb) : CRun p a ra b rb :=
  h ▸ H

theorem conv {a b : Nat} {r : List Nat} : CRun [.conv a b] a r b r := fun tr => ⟨tr, by simp [runC, cstep]⟩
theorem conv' {a a' b : Nat} {r : List Nat} (h : a' = a) : CRun [.conv a b] a' r b r := h ▸ conv
theorem bnorm {a : Nat} {r : List Nat} : CRun [.bnorm a] a r a r := fun tr => ⟨tr, by simp [runC, cstep]⟩
theorem dwt {a : Nat} {r : List Nat} : CRun [.dwt] a r (4 * a) r := fun tr => ⟨tr, by simp [runC, cstep]⟩
theorem iwt {a k : Nat} {r : List Nat} : CRun [.iwt k] a r (a / (k * k)) r := fun tr => ⟨tr, by simp [runC, cstep]⟩
theorem shuffle {a k : Nat} {r : List Nat} (hk : k ≠ 0) (hd : a % (k * k) = 0) : CRun [.shuffle k] a r (a / (k * k)) r :=
  fun tr => ⟨tr, by simp [runC, cstep, hk, hd]⟩
theorem save {a : Nat} {r : List Nat} : CRun [.save] a r a (a :: r) := fun tr => ⟨tr, by simp [runC, cstep]⟩
theorem emit {a : Nat} {r : List Nat} : CRun [.emit] a r a r := fun tr => ⟨tr ++ [a], by simp [runC, cstep]⟩
theorem load {a c d : Nat} {r : List Nat} (h : r[d]? = some c) : CRun [.load d] a r c r :=
  fun tr => ⟨tr, by simp [runC, cstep, h]⟩
theorem drop {a d : Nat} {r : List Nat} (h : d < r.length) : CRun [.drop d] a r a (r.eraseIdx d) :=
  fun tr => ⟨tr, by simp [runC, cstep, h]⟩
theorem cat {a : Nat} {ds cs r : List Nat} (h : lookups r ds = some cs) : CRun [.cat ds] a r (a + cs.sum) r :=
  fun tr => ⟨tr, by simp [runC, cstep, h]⟩
theorem add {a d : Nat} {r : List Nat} (h : r[d]? = some a) : CRun [.add d] a r a r :=
  fun tr => ⟨tr, by simp [runC, cstep, h]⟩

/-- `torch.cat([running, top])`, the remembered tensor is not needed again -/
theorem cat0 {a c : Nat} {r : List Nat} : CRun [.cat [0], .drop 0] a (c :: r) (a + c) r := by
  refine cons (cast_out (by simp) (cat (cs := [c]) (by simp [lookups]))) (cons (drop (by simp)) nil)
/-- `running + top`, the remembered tensor is not needed again -/
theorem add0 {a : Nat} {r : List Nat} : CRun [.add 0, .drop 0] a (a :: r) a r :=
  cons (add (by simp)) (cons (drop (by simp)) nil)
/-- `running + second`, forget it -/
theorem add1 {a x : Nat} {r : List Nat} : CRun [.add 1, .drop 1] a (x :: a :: r) a (x :: r) :=
  cons (add (by simp)) (cons (drop (by simp)) nil)

theorem bnC {bn : Bool} {a : Nat} {r : List Nat} : CRun (Shapes.bnC bn a) a r a r := by
  cases bn
  · exact nil
  · exact bnorm

end CRun

open CRun

/-! ## U-Net -/

theorem convBlockC_ok (cin c : Nat) (r : List Nat) : CRun (convBlockC cin c) cin r c r := cons conv (cons conv nil)

theorem unetLvC_ok (L : Nat) : ∀ (cin c : Nat) (r : List Nat), CRun (unetLvC cin c L) cin r c r := by
  induction L with
  | zero => intro cin c r; exact append (convBlockC_ok cin c r) emit
  | succ L ih =>
    intro cin c r
    show CRun (convBlockC cin c ++ [.save, .emit] ++ unetLvC c (2 * c) L ++
      [.conv (2 * c) c, .emit, .cat [0], .drop 0] ++ convBlockC (2 * c) c ++ [.emit]) cin r c r
    refine append (append (append (append (append (convBlockC_ok cin c r) (cons save (cons emit nil))) (ih c (2 * c) (c :: r))) ?_)
      (convBlockC_ok (2 * c) c r)) emit
    exact cons conv (cons emit (cast_out (by omega) cat0))

theorem unetC_ok (L cin cout F : Nat) (r : List Nat) :
    CRun (unetC cin cout F L) cin r (if L = 0 then F else cout) r := by
  cases L with
  | zero => exact unetLvC_ok 0 cin F r
  | succ L =>
    show CRun (convBlockC cin F ++ [.save, .emit] ++ unetLvC F (2 * F) L ++
      [.conv (2 * F) F, .emit, .cat [0], .drop 0] ++ convBlockC (2 * F) F ++ [.conv F cout, .emit]) cin r cout r
    refine append (append (append (append (append (convBlockC_ok cin F r) (cons save (cons emit nil))) (unetLvC_ok L F (2 * F) (F :: r))) ?_)
      (convBlockC_ok (2 * F) F r)) (cons conv (cons emit nil))
    exact cons conv (cons emit (cast_out (by omega) cat0))

/-! ## MultiDomainUnet2d -/

theorem mdConvC_ok (keep : Bool) (cin c : Nat) (r : List Nat) (hc : c % 2 = 0) :
    CRun (mdConvC keep cin c) cin (cin :: r) c (if keep then cin :: r else r) := by
  unfold mdConvC
  cases keep
  · exact append (append (cons conv (cons save (cons (load (c := cin) (by simp)) nil))) (cons (drop (d := 1) (by simp)) nil))
      (cons conv (cast_out (by omega) cat0))
  · exact append (append (cons conv (cons save (cons (load (c := cin) (by simp)) nil))) nil)
      (cons conv (cast_out (by omega) (cat0 (c := c / 2) (r := cin :: r))))

theorem mdBlockC_ok (keep : Bool) (cin c : Nat) (r : List Nat) (hc : c % 2 = 0) :
    CRun (mdBlockC keep cin c) cin (cin :: r) c (if keep then cin :: r else r) :=
  append (append (mdConvC_ok keep cin c r hc) save) (mdConvC_ok false c c _ hc)

theorem mdLvC_ok (L : Nat) : ∀ (keep : Bool) (cin c : Nat) (r : List Nat), c % 2 = 0 →
    CRun (mdLvC keep cin c L) cin (cin :: r) c (c :: (if keep then cin :: r else r)) := by
  induction L with
  | zero => intro keep cin c r hc; exact append (mdBlockC_ok keep cin c r hc) (cons save (cons emit nil))
  | succ L ih =>
    intro keep cin c r hc
    show CRun (mdBlockC keep cin c ++ [.save, .emit] ++ mdLvC true c (2 * c) L ++
      mdConvC false (2 * c) c ++ [.emit, .cat [0], .drop 0, .save] ++ mdBlockC false (2 * c) c ++ [.save, .emit]) _ _ _ _
    refine append (append (append (append (append (append (mdBlockC_ok keep cin c r hc) (cons save (cons emit nil)))
      (ih true c (2 * c) _ (by omega))) (mdConvC_ok false (2 * c) c _ hc))
      (cons emit (append (p := [.cat [0], .drop 0]) (cast_out (by omega) cat0) save))) (mdBlockC_ok false (2 * c) c _ hc))
      (cons save (cons emit nil))

/-- for every even `num_filters` and all `in_channels`, `out_channels`, depths: the forward runs, ends with `out_channels`
and leaves the register file as it found it -/
theorem mdUnetC_ok (L cin cout F : Nat) (r : List Nat) (hF : F % 2 = 0) : CRun (mdUnetC cin cout F L) cin r cout r := by
  unfold mdUnetC
  refine append (append (append (append (append (append (append (a := cin) (ra := r) save (mdBlockC_ok false cin F r hF))
    (cons save (cons emit nil))) (mdLvC_ok (L - 1) true F (2 * F) r (by omega))) (mdConvC_ok false (2 * F) F _ hF))
    (cons emit (append (p := [.cat [0], .drop 0]) (cast_out (by omega) cat0) save))) (mdBlockC_ok false (2 * F) F _ hF))
    (cons conv (cons emit nil))

/-! ## MWCNN -/

theorem mwDownC_ok (bn : Bool) (cin w : Nat) (r : List Nat) : CRun (mwDownC bn false cin w) cin r w r := by
  unfold mwDownC
  exact append (append (append (append (append (append (cons conv nil) bnC) (cons conv nil)) bnC) (cons conv nil)) nil) bnC

theorem mwDownC_save_ok (bn : Bool) (cin w : Nat) (r : List Nat) : CRun (mwDownC bn true cin w) cin r w (w :: r) := by
  unfold mwDownC
  exact append (append (append (append (append (append (cons conv nil) bnC) (cons conv nil)) bnC) (cons conv nil)) (cons save nil)) bnC

theorem mwUpC_ok (bn : Bool) (w cout : Nat) (r : List Nat) : CRun (mwUpC bn w cout) w r cout r := by
  unfold mwUpC
  exact append (append (append (append (append (cons conv nil) bnC) (cons conv nil)) bnC) (cons conv nil)) bnC

theorem iwt_add_ok (w : Nat) (r : List Nat) : CRun [.emit, .iwt 2, .emit, .add 0, .drop 0] (4 * w) (w :: r) w r := by
  refine cons emit (cons (cast_out ?_ iwt) (cons emit add0))
  omega

theorem mwBelowC_ok (bn : Bool) (k : Nat) : ∀ (w : Nat) (r : List Nat), CRun (mwBelowC bn w k) w (w :: r) w r := by
  induction k with
  | zero =>
    intro w r
    show CRun ([.dwt, .emit] ++ mwDownC bn false (4 * w) (2 * w) ++ [.emit] ++ mwUpC bn (2 * w) (4 * w) ++
      [.emit, .iwt 2, .emit, .add 0, .drop 0]) w (w :: r) w r
    exact append (append (append (append (cons dwt (cons emit nil)) (mwDownC_ok bn _ _ _)) emit) (mwUpC_ok bn _ _ _)) (iwt_add_ok w r)
  | succ k ih =>
    intro w r
    show CRun ([.dwt, .emit] ++ mwDownC bn true (4 * w) (2 * w) ++ [.emit] ++ mwBelowC bn (2 * w) k ++
      mwUpC bn (2 * w) (4 * w) ++ [.emit, .iwt 2, .emit, .add 0, .drop 0]) w (w :: r) w r
    exact append (append (append (append (append (cons dwt (cons emit nil)) (mwDownC_save_ok bn _ _ _)) emit) (ih (2 * w) (w :: r)))
      (mwUpC_ok bn _ _ _)) (iwt_add_ok w r)

theorem mwcnnC_ok (bn : Bool) (cin F S : Nat) (r : List Nat) : CRun (mwcnnC bn cin F S) cin r cin r := by
  match S with
  | 0 => exact nil
  | 1 => exact append (append (append (mwDownC_ok bn cin F r) emit) (mwUpC_ok bn F cin r)) emit
  | S + 2 =>
    show CRun (mwDownC bn true cin F ++ [.emit] ++ mwBelowC bn F S ++ mwUpC bn F cin ++ [.emit]) cin r cin r
    exact append (append (append (append (mwDownC_save_ok bn cin F r) emit) (mwBelowC_ok bn S F r)) (mwUpC_ok bn F cin r)) emit

/-! ## ResNet, Conv2d -/

theorem resBlocksC_ok (h : Nat) (bn : Bool) (m : Nat) : ∀ r : List Nat, CRun (resBlocksC h bn (m + 1)) h (h :: r) h r := by
  induction m with
  | zero =>
    intro r
    show CRun ([.conv h h, .conv h h, .add 0, .drop 0] ++ Shapes.bnC bn h) h (h :: r) h r
    exact append (cons conv (cons conv add0)) bnC
  | succ m ih =>
    intro r
    show CRun ([.conv h h, .conv h h, .save, .add 1, .drop 1] ++ Shapes.bnC bn h ++ resBlocksC h bn (m + 1)) h (h :: r) h r
    exact append (append (cons conv (cons conv (cons save add1))) bnC) (ih r)

theorem resnetC_ok (cin cout h : Nat) (bn : Bool) (nb : Nat) (r : List Nat) : CRun (resnetC cin cout h bn nb) cin r cout r := by
  unfold resnetC
  refine append (append ?_ (resBlocksC_ok h bn nb (h :: r))) (cons emit (append (p := [.add 0, .drop 0]) add0 (cons conv (cons conv (cons emit nil)))))
  exact cons save (cons conv (cons save (cons emit (cons (load (c := cin) (by simp)) (cons (drop (by simp)) (cons conv (cons save (cons emit nil))))))))

theorem convNetC_ok (bn : Bool) (m : Nat) : ∀ (cin cout h : Nat) (r : List Nat),
    CRun (convNetC cin cout h bn m) cin r (if m = 0 then cin else cout) r := by
  induction m with
  | zero => intro cin cout h r; exact nil
  | succ m ih =>
    intro cin cout h r
    have hb : ∀ o : Nat, CRun (if bn then [COp.bnorm o, COp.emit] else []) o r o r := by
      intro o; cases bn
      · exact nil
      · exact cons bnorm (cons emit nil)
    have he : CRun (if m = 0 then [] else [COp.emit]) (if m = 0 then cout else h) r (if m = 0 then cout else h) r := by
      by_cases hm : m = 0
      · simp only [hm, if_true]; exact nil
      · simp only [hm, if_false]; exact emit
    show CRun ([.conv cin (if m = 0 then cout else h), .emit] ++ (if bn then [.bnorm (if m = 0 then cout else h), .emit] else []) ++
      (if m = 0 then [] else [.emit]) ++ convNetC h cout h bn m) cin r (if m + 1 = 0 then cin else cout) r
    have ht := ih h cout h r
    by_cases hm : m = 0
    · subst hm
      simp only [if_true] at ht ⊢
      exact append (append (append (cons conv (cons emit nil)) (hb cout)) nil) nil
    · simp only [hm, if_false, Nat.succ_ne_zero] at ht he ⊢
      exact append (append (append (cons conv (cons emit nil)) (hb h)) emit) ht

/-! ## DUB / DIDN -/

theorem shuffle2 {a : Nat} {r : List Nat} : CRun [.shuffle 2] (4 * a) r a r := by
  refine cast_out ?_ (shuffle (by decide) ?_) <;> omega

/-- a list of `emit`s (or nothing) does not change channels or registers -/
def Neutral (em : List COp) : Prop := ∀ (a : Nat) (r : List Nat), CRun em a r a r

theorem neutral_nil : Neutral [] := fun _ _ => nil
theorem neutral_emit : Neutral [.emit] := fun _ _ => emit
theorem neutral_if (e : Bool) : Neutral (if e then [COp.emit] else []) := by
  cases e
  · exact neutral_nil
  · exact neutral_emit

theorem dubBodyC_ok (c : Nat) (em : List COp) (hem : Neutral em) (r : List Nat) :
    CRun (dubBodyC c em) c (c :: r) c (c :: r) := by
  unfold dubBodyC
  simp only [List.append_assoc]
  apply append (cons conv (cons conv (cons save nil)))
  apply append (hem _ _)
  apply append (cons (add (by simp)) nil)
  apply append (cons conv (cons save nil))
  apply append (hem _ _)
  apply append (cons conv (cons save nil))
  apply append (hem _ _)
  apply append add1
  apply append (cons conv (cons save nil))
  apply append (hem _ _)
  apply append (cons conv nil)
  apply append (hem _ _)
  apply append add0
  apply append (cons conv (cons (cast_in (by omega) (shuffle2 (a := 2 * c))) nil))
  apply append (hem _ _)
  apply append cat0
  apply append (cons (conv' (by omega)) (cons save nil))
  apply append (hem _ _)
  apply append (cons conv nil)
  apply append (hem _ _)
  apply append add0
  apply append (cons conv (cons (shuffle2 (a := c)) nil))
  apply append (hem _ _)
  apply append cat0
  apply append (cons (conv' (by omega)) (cons save nil))
  apply append (hem _ _)
  apply append (cons conv (cons conv nil))
  apply append (hem _ _)
  apply append add0
  exact conv

theorem dubC_ok (c : Nat) (e : Bool) (r : List Nat) : CRun (dubC c e) c r c r := by
  have hb := dubBodyC_ok c _ (neutral_if e) r
  unfold dubC
  generalize dubBodyC c (if e then [COp.emit] else []) = body at hb ⊢
  exact append (append (append (cons save nil) hb) (neutral_if e _ _)) add0

theorem dubInC_first_ok (c : Nat) (r : List Nat) : CRun (dubInC c true) c (c :: r) c (c :: r) := by
  have hb := dubBodyC_ok c [] neutral_nil r
  unfold dubInC
  generalize dubBodyC c [] = body at hb ⊢
  simp only [↓reduceIte]
  exact append (append (append hb (cons save (cons (add (by simp)) nil))) (cons (drop (by simp)) nil)) emit

theorem dubInC_next_ok (c : Nat) (r : List Nat) : CRun (dubInC c false) c (c :: r) c (c :: c :: r) := by
  have hb := dubBodyC_ok c [] neutral_nil r
  unfold dubInC
  generalize dubBodyC c [] = body at hb ⊢
  simp only [Bool.false_eq_true, ↓reduceIte]
  exact append (append (append hb (cons save (cons (add (by simp)) nil))) nil) emit

theorem dubsC_ok (c : Nat) (n : Nat) : ∀ r : List Nat, CRun (dubsC c (n + 1)) c (c :: r) c (List.replicate (n + 1) c ++ r) := by
  induction n with
  | zero => intro r; exact append (p := []) nil (dubInC_first_ok c r)
  | succ n ih =>
    intro r
    show CRun (dubsC c (n + 1) ++ dubInC c false) c (c :: r) c (List.replicate (n + 2) c ++ r)
    refine append (ih r) ?_
    rw [List.replicate_succ (n := n + 1), List.replicate_succ (n := n)]
    exact dubInC_next_ok c _

theorem reconConvsC_ok (c nc : Nat) (r : List Nat) : CRun (reconConvsC c nc) c r c r := by
  induction nc with
  | zero => exact nil
  | succ n ih => exact cons conv ih

theorem getElem?_replicate_append {c d m : Nat} (r : List Nat) (h : d < m) : (List.replicate m c ++ r)[d]? = some c := by
  rw [List.getElem?_append_left (by simpa using h)]
  simp [h]

theorem eraseIdx_replicate_append (c : Nat) (r : List Nat) : ∀ (m j : Nat), j ≤ m →
    (List.replicate (m + 1) c ++ r).eraseIdx j = List.replicate m c ++ r := by
  intro m
  induction m with
  | zero =>
    intro j hj
    have : j = 0 := by omega
    subst this; rfl
  | succ m ih =>
    intro j hj
    cases j with
    | zero => rfl
    | succ j =>
      rw [List.replicate_succ (n := m + 1), List.cons_append, List.eraseIdx_cons_succ, ih j (by omega)]
      rfl

theorem reconsC_ok (c nc nd : Nat) (hnd : 1 ≤ nd) (r : List Nat) (m : Nat) :
    CRun (reconsC c nc nd m) c (List.replicate nd c ++ r) c (List.replicate nd c ++ r) := by
  induction m with
  | zero => exact nil
  | succ m ih =>
    show CRun (reconsC c nc nd m ++ [.load (nd - 1)] ++ reconConvsC c nc ++ [.save, .add nd, .drop nd, .emit]) _ _ _ _
    refine append (append (append ih (cons (load (c := c) (getElem?_replicate_append r (by omega))) nil)) (reconConvsC_ok c nc _)) ?_
    have e1 : (c :: (List.replicate nd c ++ r))[nd]? = some c := by
      rw [← List.cons_append, ← List.replicate_succ]; exact getElem?_replicate_append r (by omega)
    have e2 : (c :: (List.replicate nd c ++ r)).eraseIdx nd = List.replicate nd c ++ r := by
      rw [← List.cons_append, ← List.replicate_succ]; exact eraseIdx_replicate_append c r nd nd (Nat.le_refl _)
    refine cons save (cons (add e1) (cons (drop (d := nd) (by simp; omega)) ?_))
    rw [e2]
    exact cons emit nil

theorem lookups_replicate (c : Nat) (r : List Nat) (m : Nat) : ∀ ds : List Nat, (∀ d ∈ ds, d < m) →
    lookups (List.replicate m c ++ r) ds = some (List.replicate ds.length c) := by
  intro ds
  induction ds with
  | nil => intro _; rfl
  | cons d ds ih =>
    intro h
    simp only [lookups, getElem?_replicate_append r (h d (by simp)), ih (fun x hx => h x (by simp [hx])), List.length_cons,
      List.replicate_succ]

theorem downTo_lt (m : Nat) : ∀ d ∈ downTo m, d < m := by
  induction m with
  | zero => intro d hd; cases hd
  | succ m ih =>
    intro d hd
    simp only [downTo, List.mem_cons] at hd
    rcases hd with rfl | hd
    · omega
    · have := ih d hd; omega

theorem downTo_length (m : Nat) : (downTo m).length = m := by
  induction m with
  | zero => rfl
  | succ m ih => simp [downTo, ih]

theorem dropsC_ok (c : Nat) (r : List Nat) (a : Nat) : ∀ m : Nat, CRun (dropsC m) a (List.replicate m c ++ r) a r := by
  intro m
  induction m with
  | zero => exact nil
  | succ m ih =>
    refine cons (drop (d := m) (by simp; omega)) ?_
    rw [eraseIdx_replicate_append c r m m (Nat.le_refl _)]
    exact ih

/-- the reconstruction blocks and the concatenation: `nd` remembered `c`-channel DUB outputs become one `c·nd`-channel
tensor and the register file is as before the DUBs -/
theorem didnReconC_ok (c nc nd : Nat) (hnd : 1 ≤ nd) (r : List Nat) :
    CRun (didnReconC c nc nd) c (List.replicate nd c ++ r) (c * nd) r := by
  match nd, hnd with
  | 1, _ =>
    show CRun (reconConvsC c nc ++ [.add 0, .drop 0, .emit, .cat []]) c (c :: r) (c * 1) r
    refine append (reconConvsC_ok c nc _) ?_
    exact cons (add (by simp)) (cons (drop (by simp)) (cons emit (cons (cast_out (by simp) (cat (cs := []) rfl)) nil)))
  | k + 2, _ =>
    show CRun (reconsC c nc (k + 2) (k + 1) ++ [.load (k + 1)] ++ reconConvsC c nc ++ [.add (k + 1), .drop (k + 1), .emit] ++
      [.cat (downTo (k + 1))] ++ dropsC (k + 1)) c (List.replicate (k + 2) c ++ r) (c * (k + 2)) r
    have seg1 : CRun [.add (k + 1), .drop (k + 1), .emit] c (List.replicate (k + 2) c ++ r) c (List.replicate (k + 1) c ++ r) := by
      refine cons (add (getElem?_replicate_append r (by omega))) (cons (drop (d := k + 1) (by simp; omega)) ?_)
      rw [eraseIdx_replicate_append c r (k + 1) (k + 1) (Nat.le_refl _)]
      exact cons emit nil
    have seg2 : CRun [.cat (downTo (k + 1))] c (List.replicate (k + 1) c ++ r) (c * (k + 2)) (List.replicate (k + 1) c ++ r) := by
      have hl := lookups_replicate c r (k + 1) (downTo (k + 1)) (downTo_lt _)
      rw [downTo_length] at hl
      refine cast_out ?_ (cat hl)
      rw [List.sum_replicate_nat, Nat.mul_comm c (k + 2), Nat.succ_mul (k + 1) c]
      omega
    exact append (append (append (append (append (reconsC_ok c nc (k + 2) (by omega) r (k + 1))
      (cons (load (c := c) (getElem?_replicate_append r (by omega))) nil)) (reconConvsC_ok c nc _)) seg1) seg2) (dropsC_ok c r _ (k + 1))

theorem didnTailC_ok (cout c nd : Nat) (r : List Nat) : CRun (didnTailC cout c nd) (c * nd) r cout r :=
  cons conv (cons emit (cons conv (cons emit (cons conv (cons (cast_in (Nat.mul_comm c 4) shuffle2) (cons emit (cons conv (cons emit nil))))))))

theorem didnCore_ok (cin cout c nd nc : Nat) (hnd : 1 ≤ nd) (r : List Nat) :
    CRun ([.conv cin c, .emit, .conv c c, .save, .emit] ++ dubsC c nd ++ didnReconC c nc nd ++ didnTailC cout c nd) cin r cout r := by
  obtain ⟨n, rfl⟩ : ∃ n, nd = n + 1 := ⟨nd - 1, by omega⟩
  exact append (append (append (cons conv (cons emit (cons conv (cons save (cons emit nil))))) (dubsC_ok c n r))
    (didnReconC_ok c nc (n + 1) hnd r)) (didnTailC_ok cout c (n + 1) r)

theorem didnC_ok (cin cout c nd nc : Nat) (skip : Bool) (hnd : 1 ≤ nd) (hskip : skip = true → cin = cout) (r : List Nat) :
    CRun (didnC cin cout c nd nc skip) cin r cout r := by
  unfold didnC
  cases skip with
  | false =>
    have h := didnCore_ok cin cout c nd nc hnd r
    generalize dubsC c nd = a1 at h ⊢
    generalize didnReconC c nc nd = a2 at h ⊢
    generalize didnTailC cout c nd = a3 at h ⊢
    simpa using h
  | true =>
    have hc : cin = cout := hskip rfl
    subst hc
    have h := didnCore_ok cin cin c nd nc hnd (cin :: r)
    generalize dubsC c nd = a1 at h ⊢
    generalize didnReconC c nc nd = a2 at h ⊢
    generalize didnTailC cin c nd = a3 at h ⊢
    have h2 : CRun ([COp.save] ++ ([.conv cin c, .emit, .conv c c, .save, .emit] ++ a1 ++ a2 ++ a3) ++ [.add 0, .drop 0]) cin r cin r :=
      append (append (cons save nil) h) add0
    simpa using h2

end DirectVerif.C17L
