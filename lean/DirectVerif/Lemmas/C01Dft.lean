import Mathlib.Analysis.Fourier.ZMod
import DirectVerif.Props.C01
/-!
# C01 — with Mathlib's `ZMod.dft` as the per-axis transform, the centred `fft2` / `ifft2` of the
model are the textbook shifted DFT

`torchFft inverse norm` is the 1-D transform `torch.fft.fft / ifft(norm=…)` is documented to be:
`X_k = c · Σ_j x_j e^{∓2πi jk/n}` with `c = 1/√n` (`"ortho"`), `1` resp. `1/n` (`None`/`"backward"`),
`1/n` resp. `1` (`"forward"`).  Plugged into the model's plan (`Fft.fft2` over `Fft.listBackend`):

* `fft2_eq_centered_dft`:  `fft2(x)_k = c · Σ_j x_j ω^{-(k-c₀)(j-c₀)}`, `c₀ = n / 2` (floor), `ω = e^{2πi/n}`,
  for every length `n ≥ 1` (odd and even), and the same with `+` for `ifft2`;
* `torchFft_inv_fwd` / `torchFft_fwd_inv`: the pair is an inverse pair (from `ZMod.dft`'s `LinearEquiv`),
  so `C01.ifft2_fft2_id` applies to it without further hypotheses (`ifft2_fft2_id_dft`).
-/
namespace DirectVerif.C01Dft
open DirectVerif DirectVerif.Shift DirectVerif.Fft ZMod
open scoped ZMod

/-- a list of length `n` read as a function on `ℤ/n` -/
noncomputable def toFn {n : ℕ} (xs : List ℂ) : ZMod n → ℂ := fun k => xs.getD k.val 0

/-- a function on `ℤ/n` written as a list -/
noncomputable def ofFn {n : ℕ} (f : ZMod n → ℂ) : List ℂ := (List.range n).map fun (k : ℕ) => f (Nat.cast k)

theorem ofFn_length {n : ℕ} (f : ZMod n → ℂ) : (ofFn f).length = n := by simp [ofFn]

theorem toFn_ofFn {n : ℕ} [NeZero n] (f : ZMod n → ℂ) : toFn (ofFn f) = f := by
  funext k
  simp only [toFn, ofFn, List.getD_eq_getElem?_getD, List.getElem?_map, List.getElem?_range (ZMod.val_lt k),
    Option.map_some, Option.getD_some, ZMod.natCast_zmod_val]

theorem ofFn_toFn {n : ℕ} [NeZero n] (xs : List ℂ) (h : xs.length = n) : ofFn (toFn (n := n) xs) = xs := by
  apply List.ext_getElem?
  intro i
  by_cases hi : i < n
  · simp only [ofFn, toFn, List.getElem?_map, List.getElem?_range hi, Option.map_some, ZMod.val_natCast_of_lt hi,
      List.getD_eq_getElem?_getD]
    rw [List.getElem?_eq_getElem (by omega)]; rfl
  · rw [List.getElem?_eq_none (by simp [ofFn]; omega), List.getElem?_eq_none (by omega)]

/-- rolling a list by `s` shifts the function by `s` -/
theorem toFn_rollOne {n : ℕ} [NeZero n] (s : ℤ) (xs : List ℂ) (h : xs.length = n) (k : ZMod n) :
    toFn (rollOne s xs) k = toFn xs (k - (s : ZMod n)) := by
  have hk : k.val < xs.length := h ▸ ZMod.val_lt k
  have e : k - (s : ZMod n) = (((k.val : ℤ) - s : ℤ) : ZMod n) := by
    push_cast; rw [ZMod.natCast_zmod_val]
  have hv : (k - (s : ZMod n)).val = (((k.val : ℤ) - s) % (n : ℤ)).toNat := by
    rw [e]
    have := ZMod.val_intCast (n := n) ((k.val : ℤ) - s)
    omega
  simp only [toFn, List.getD_eq_getElem?_getD, C01.rollOne_getElem?_int s xs k.val hk, hv, h]

/-- the scale factor of `torch.fft` -/
noncomputable def scale (inverse : Bool) (nm : Norm) (n : ℕ) : ℂ :=
  match nm, inverse with
  | .ortho, _ => ((Real.sqrt n : ℝ) : ℂ)⁻¹
  | .backward, false => 1
  | .backward, true => (n : ℂ)⁻¹
  | .forward, false => (n : ℂ)⁻¹
  | .forward, true => 1

/-- the kernel sum `Σ_j x_j e^{∓2πi jk/n}` -/
noncomputable def kernelSum {n : ℕ} [NeZero n] (inverse : Bool) (Φ : ZMod n → ℂ) (k : ZMod n) : ℂ :=
  ∑ j : ZMod n, (stdAddChar (if inverse then j * k else -(j * k)) : ℂ) * Φ j

/-- `torch.fft.fft` / `ifft` with `norm` on a function -/
noncomputable def torchFftFn {n : ℕ} [NeZero n] (inverse : Bool) (nm : Norm) (Φ : ZMod n → ℂ) : ZMod n → ℂ :=
  fun k => scale inverse nm n * kernelSum inverse Φ k

/-- `torch.fft.fft` / `ifft` with `norm` on a list of any length -/
noncomputable def torchFft (inverse : Bool) (nm : Norm) (xs : List ℂ) : List ℂ :=
  if h : xs.length = 0 then xs else
    haveI : NeZero xs.length := ⟨h⟩
    ofFn (torchFftFn (n := xs.length) inverse nm (toFn xs))

theorem torchFft_length (inverse : Bool) (nm : Norm) (xs : List ℂ) : (torchFft inverse nm xs).length = xs.length := by
  unfold torchFft
  split
  · rfl
  · exact ofFn_length _

theorem toFn_torchFft {n : ℕ} [NeZero n] (inverse : Bool) (nm : Norm) (xs : List ℂ) (h : xs.length = n) :
    toFn (torchFft inverse nm xs) = torchFftFn (n := n) inverse nm (toFn xs) := by
  subst h
  unfold torchFft
  rw [dif_neg (NeZero.ne _)]
  exact toFn_ofFn _

theorem amounts_cast (n : ℕ) :
    ((ifftshiftAmount (n : ℤ) : ℤ) : ZMod n) = -((n / 2 : ℕ) : ZMod n) ∧
    ((fftshiftAmount (n : ℤ) : ℤ) : ZMod n) = ((n / 2 : ℕ) : ZMod n) := by
  have h2 : fftshiftAmount (n : ℤ) = ((n / 2 : ℕ) : ℤ) := by unfold fftshiftAmount; omega
  have h1 : ifftshiftAmount (n : ℤ) = (n : ℤ) - ((n / 2 : ℕ) : ℤ) := by unfold ifftshiftAmount; omega
  constructor
  · rw [h1, Int.cast_sub, Int.cast_natCast, Int.cast_natCast, ZMod.natCast_self, zero_sub]
  · rw [h2, Int.cast_natCast]

/-- **the centred transform is the textbook shifted DFT** (`c₀ = n / 2`), for every `n ≥ 1`, both
directions, every normalisation:
`fft(x)_k = scale · Σ_j x_j · e^{∓2πi (j - c₀)(k - c₀)/n}`. -/
theorem centered_eq_shifted_dft {n : ℕ} [NeZero n] (inverse : Bool) (nm : Norm) (xs : List ℂ) (h : xs.length = n)
    (k : ZMod n) :
    toFn (fftshift1 (torchFft inverse nm (ifftshift1 xs))) k =
      scale inverse nm n * ∑ j : ZMod n,
        (stdAddChar (if inverse then (j - ((n / 2 : ℕ) : ZMod n)) * (k - ((n / 2 : ℕ) : ZMod n))
          else -((j - ((n / 2 : ℕ) : ZMod n)) * (k - ((n / 2 : ℕ) : ZMod n)))) : ℂ) * toFn xs j := by
  have hI : (ifftshift1 xs).length = n := by rw [C01.ifftshift1_length, h]
  have hT : (torchFft inverse nm (ifftshift1 xs)).length = n := by rw [torchFft_length, hI]
  obtain ⟨ai, af⟩ := amounts_cast n
  unfold fftshift1
  rw [toFn_rollOne _ _ hT, hT, af, toFn_torchFft inverse nm _ hI]
  unfold torchFftFn kernelSum
  congr 1
  have hshift : ∀ j : ZMod n, toFn (ifftshift1 xs) j = toFn xs (j + ((n / 2 : ℕ) : ZMod n)) := by
    intro j
    unfold ifftshift1
    rw [toFn_rollOne _ _ h, h, ai, sub_neg_eq_add]
  simp only [hshift]
  refine Fintype.sum_equiv (Equiv.addRight ((n / 2 : ℕ) : ZMod n)) _ _ (fun j => ?_)
  simp only [Equiv.coe_addRight, add_sub_cancel_right]

/-- the norm the plan selects -/
def normOf (cfg : Cfg) : Norm := if cfg.normalized then .ortho else .backward

/-- **`fft2_eq_centered_dft`**: the model's centred `fft2` (interpreted plan, `ZMod` DFT as the
transform) equals the textbook shifted DFT `scale · Σ_j x_j ω^{-(j-c₀)(k-c₀)}`, `c₀ = n / 2`,
for every length, every `normalized` / `complex_input`. -/
theorem fft2_eq_centered_dft {n : ℕ} [NeZero n] (cfg : Cfg) (hc : cfg.centered = true) (xs : List ℂ)
    (h : xs.length = n) (k : ZMod n) :
    toFn (fft2 (listBackend torchFft) cfg xs) k =
      scale false (normOf cfg) n * ∑ j : ZMod n,
        (stdAddChar (-((j - ((n / 2 : ℕ) : ZMod n)) * (k - ((n / 2 : ℕ) : ZMod n)))) : ℂ) * toFn xs j := by
  obtain ⟨c, nz, ci⟩ := cfg
  subst hc
  have := centered_eq_shifted_dft false (normOf ⟨true, nz, ci⟩) xs h k
  cases nz <;> cases ci <;>
    simpa [fft2, runData, fft2Plan, Guard.holds, applyOp, listBackend, normOf] using this

/-- the same for `ifft2` (kernel `ω^{+(j-c₀)(k-c₀)}`) -/
theorem ifft2_eq_centered_dft {n : ℕ} [NeZero n] (cfg : Cfg) (hc : cfg.centered = true) (xs : List ℂ)
    (h : xs.length = n) (k : ZMod n) :
    toFn (ifft2 (listBackend torchFft) cfg xs) k =
      scale true (normOf cfg) n * ∑ j : ZMod n,
        (stdAddChar ((j - ((n / 2 : ℕ) : ZMod n)) * (k - ((n / 2 : ℕ) : ZMod n))) : ℂ) * toFn xs j := by
  obtain ⟨c, nz, ci⟩ := cfg
  subst hc
  have := centered_eq_shifted_dft true (normOf ⟨true, nz, ci⟩) xs h k
  cases nz <;> cases ci <;>
    simpa [ifft2, runData, ifft2Plan, Guard.holds, applyOp, listBackend, normOf] using this

/-- the uncentred transform is the plain DFT `scale · Σ_j x_j ω^{-jk}` -/
theorem fft2_eq_dft {n : ℕ} [NeZero n] (cfg : Cfg) (hc : cfg.centered = false) (xs : List ℂ)
    (h : xs.length = n) (k : ZMod n) :
    toFn (fft2 (listBackend torchFft) cfg xs) k =
      scale false (normOf cfg) n * ∑ j : ZMod n, (stdAddChar (-(j * k)) : ℂ) * toFn xs j := by
  obtain ⟨c, nz, ci⟩ := cfg
  subst hc
  have := congrFun (toFn_torchFft false (normOf ⟨false, nz, ci⟩) xs h) k
  cases nz <;> cases ci <;>
    simpa [fft2, runData, fft2Plan, Guard.holds, applyOp, listBackend, normOf, torchFftFn, kernelSum] using this

/-! ### the concrete pair is an inverse pair -/

theorem kernelSum_false {n : ℕ} [NeZero n] (Φ : ZMod n → ℂ) : kernelSum false Φ = 𝓕 Φ := by
  funext k; simp [kernelSum, ZMod.dft_apply]

theorem kernelSum_true {n : ℕ} [NeZero n] (Ψ : ZMod n → ℂ) : kernelSum true Ψ = (n : ℂ) • 𝓕⁻ Ψ := by
  funext k
  simp only [kernelSum, if_true, ZMod.invDFT_apply, Pi.smul_apply, smul_eq_mul]
  rw [← mul_assoc, mul_inv_cancel₀ (NeZero.ne _), one_mul]

theorem kernelSum_smul {n : ℕ} [NeZero n] (inverse : Bool) (c : ℂ) (Φ : ZMod n → ℂ) :
    kernelSum inverse (fun j => c * Φ j) = fun k => c * kernelSum inverse Φ k := by
  funext k
  simp only [kernelSum, Finset.mul_sum]
  exact Finset.sum_congr rfl fun j _ => by ring

theorem scale_mul (nm : Norm) (n : ℕ) [NeZero n] : scale true nm n * scale false nm n * (n : ℂ) = 1 := by
  have hn : (n : ℂ) ≠ 0 := NeZero.ne _
  cases nm
  · have hs : ((Real.sqrt n : ℝ) : ℂ) * ((Real.sqrt n : ℝ) : ℂ) = (n : ℂ) := by
      rw [← Complex.ofReal_mul, Real.mul_self_sqrt (Nat.cast_nonneg n)]; simp
    have h0 : ((Real.sqrt n : ℝ) : ℂ) ≠ 0 := fun e => hn (by rw [← hs, e, zero_mul])
    simp only [scale]
    rw [← hs]; field_simp
  · simp [scale, hn]
  · simp [scale, hn]

theorem torchFftFn_inv_fwd {n : ℕ} [NeZero n] (nm : Norm) (Φ : ZMod n → ℂ) :
    torchFftFn true nm (torchFftFn false nm Φ) = Φ := by
  funext k
  have h1 : kernelSum true (fun j => scale false nm n * kernelSum false Φ j) k
      = scale false nm n * ((n : ℂ) * Φ k) := by
    rw [kernelSum_smul, kernelSum_false, kernelSum_true]
    simp
  show scale true nm n * kernelSum true (fun j => scale false nm n * kernelSum false Φ j) k = Φ k
  rw [h1, ← mul_assoc, ← mul_assoc, scale_mul, one_mul]

theorem torchFftFn_fwd_inv {n : ℕ} [NeZero n] (nm : Norm) (Φ : ZMod n → ℂ) :
    torchFftFn false nm (torchFftFn true nm Φ) = Φ := by
  funext k
  have h1 : kernelSum false (fun j => scale true nm n * kernelSum true Φ j) k
      = scale true nm n * ((n : ℂ) * Φ k) := by
    rw [kernelSum_smul, kernelSum_true, kernelSum_false]
    simp only [_root_.map_smul, Pi.smul_apply, smul_eq_mul, LinearEquiv.apply_symm_apply]
  show scale false nm n * kernelSum false (fun j => scale true nm n * kernelSum true Φ j) k = Φ k
  rw [h1, ← mul_assoc, ← mul_assoc, mul_comm (scale false nm n), scale_mul, one_mul]

theorem torchFft_inv_fwd (nm : Norm) (xs : List ℂ) : torchFft true nm (torchFft false nm xs) = xs := by
  by_cases h0 : xs.length = 0
  · have : xs = [] := List.eq_nil_of_length_eq_zero h0
    subst this; simp [torchFft]
  · have : NeZero xs.length := ⟨h0⟩
    have hl := torchFft_length false nm xs
    have e := toFn_torchFft (n := xs.length) true nm (torchFft false nm xs) hl
    rw [toFn_torchFft (n := xs.length) false nm xs rfl, torchFftFn_inv_fwd] at e
    rw [← ofFn_toFn (n := xs.length) (torchFft true nm (torchFft false nm xs)) (by rw [torchFft_length, hl]), e,
      ofFn_toFn xs rfl]

theorem torchFft_fwd_inv (nm : Norm) (xs : List ℂ) : torchFft false nm (torchFft true nm xs) = xs := by
  by_cases h0 : xs.length = 0
  · have : xs = [] := List.eq_nil_of_length_eq_zero h0
    subst this; simp [torchFft]
  · have : NeZero xs.length := ⟨h0⟩
    have hl := torchFft_length true nm xs
    have e := toFn_torchFft (n := xs.length) false nm (torchFft true nm xs) hl
    rw [toFn_torchFft (n := xs.length) true nm xs rfl, torchFftFn_fwd_inv] at e
    rw [← ofFn_toFn (n := xs.length) (torchFft false nm (torchFft true nm xs)) (by rw [torchFft_length, hl]), e,
      ofFn_toFn xs rfl]

/-- **inverse law with the concrete DFT, no hypotheses left**: for every complex list (every
length), all 8 flag combinations -/
theorem ifft2_fft2_id_dft (cfg : Cfg) (xs : List ℂ) :
    ifft2 (listBackend torchFft) cfg (fft2 (listBackend torchFft) cfg xs) = xs ∧
    fft2 (listBackend torchFft) cfg (ifft2 (listBackend torchFft) cfg xs) = xs :=
  ⟨C01.ifft2_fft2_id torchFft torchFft_inv_fwd torchFft_fwd_inv cfg xs,
   C01.fft2_ifft2_id torchFft torchFft_inv_fwd torchFft_fwd_inv cfg xs⟩

/-! ### Parseval for the concrete pair: the `norm="ortho"` transforms preserve `Σ |x_k|²` -/
open scoped ComplexConjugate

/-- Plancherel for `ZMod.dft`: `⟪𝓕Φ, 𝓕Ψ⟫ = n ⟪Φ, Ψ⟫` -/
theorem dft_inner {n : ℕ} [NeZero n] (Φ Ψ : ZMod n → ℂ) :
    ∑ k, conj (𝓕 Φ k) * 𝓕 Ψ k = (n : ℂ) * ∑ j, conj (Φ j) * Ψ j := by
  have h1 : ∀ k, conj (𝓕 Φ k) = ∑ j, (stdAddChar (j * k) : ℂ) * conj (Φ j) := by
    intro k
    rw [ZMod.dft_apply, map_sum]
    refine Finset.sum_congr rfl fun j _ => ?_
    rw [smul_eq_mul, map_mul, ← AddChar.map_neg_eq_conj, neg_neg]
  have h2 : ∀ j, ∑ k, (stdAddChar (k * j) : ℂ) * 𝓕 Ψ k = (n : ℂ) * Ψ j := by
    intro j
    have := ZMod.invDFT_apply (𝓕 Ψ) j
    rw [LinearEquiv.symm_apply_apply, smul_eq_mul] at this
    rw [this, ← mul_assoc, mul_inv_cancel₀ (NeZero.ne _), one_mul]
    simp only [smul_eq_mul]
  simp only [h1, Finset.sum_mul]
  rw [Finset.sum_comm, Finset.mul_sum]
  refine Finset.sum_congr rfl fun j _ => ?_
  rw [mul_left_comm, ← h2 j, Finset.mul_sum]
  refine Finset.sum_congr rfl fun k _ => ?_
  rw [mul_comm j k]; ring

/-- energy of a function on `ℤ/n` -/
noncomputable def energyFn {n : ℕ} [NeZero n] (Φ : ZMod n → ℂ) : ℂ := ∑ k, conj (Φ k) * Φ k

theorem energyFn_smul {n : ℕ} [NeZero n] (c : ℂ) (Φ : ZMod n → ℂ) :
    energyFn (fun k => c * Φ k) = conj c * c * energyFn Φ := by
  simp only [energyFn, Finset.mul_sum, map_mul]
  exact Finset.sum_congr rfl fun k _ => by ring

theorem sqrt_scale (n : ℕ) [NeZero n] :
    conj (((Real.sqrt n : ℝ) : ℂ)⁻¹) * ((Real.sqrt n : ℝ) : ℂ)⁻¹ * (n : ℂ) = 1 := by
  have hn : (n : ℂ) ≠ 0 := NeZero.ne _
  have hs : ((Real.sqrt n : ℝ) : ℂ) * ((Real.sqrt n : ℝ) : ℂ) = (n : ℂ) := by
    rw [← Complex.ofReal_mul, Real.mul_self_sqrt (Nat.cast_nonneg n)]; simp
  have h0 : ((Real.sqrt n : ℝ) : ℂ) ≠ 0 := fun e => hn (by rw [← hs, e, zero_mul])
  rw [map_inv₀, Complex.conj_ofReal, ← hs]; field_simp

/-- **Parseval**: the orthonormal forward and backward transforms preserve the energy -/
theorem energyFn_torchFftFn_ortho {n : ℕ} [NeZero n] (inverse : Bool) (Φ : ZMod n → ℂ) :
    energyFn (torchFftFn inverse .ortho Φ) = energyFn Φ := by
  have hn : (n : ℂ) ≠ 0 := NeZero.ne _
  cases inverse
  · show energyFn (fun k => scale false .ortho n * kernelSum false Φ k) = _
    rw [energyFn_smul, kernelSum_false]
    show _ * (∑ k, conj (𝓕 Φ k) * 𝓕 Φ k) = _
    rw [dft_inner, ← mul_assoc]
    show conj (((Real.sqrt n : ℝ) : ℂ)⁻¹) * ((Real.sqrt n : ℝ) : ℂ)⁻¹ * (n : ℂ) * energyFn Φ = _
    rw [sqrt_scale, one_mul]
  · show energyFn (fun k => scale true .ortho n * kernelSum true Φ k) = _
    rw [energyFn_smul, kernelSum_true]
    have hΦ : energyFn Φ = (n : ℂ) * energyFn (𝓕⁻ Φ) := by
      have := dft_inner (𝓕⁻ Φ) (𝓕⁻ Φ)
      simp only [LinearEquiv.apply_symm_apply] at this
      exact this
    have e2 : energyFn ((n : ℂ) • 𝓕⁻ Φ) = conj (n : ℂ) * (n : ℂ) * energyFn (𝓕⁻ Φ) := energyFn_smul _ _
    rw [e2, hΦ, Complex.conj_natCast]
    show conj (((Real.sqrt n : ℝ) : ℂ)⁻¹) * ((Real.sqrt n : ℝ) : ℂ)⁻¹ * _ = _
    have := sqrt_scale n
    calc conj (((Real.sqrt n : ℝ) : ℂ)⁻¹) * ((Real.sqrt n : ℝ) : ℂ)⁻¹ * ((n : ℂ) * (n : ℂ) * energyFn (𝓕⁻ Φ))
        = (conj (((Real.sqrt n : ℝ) : ℂ)⁻¹) * ((Real.sqrt n : ℝ) : ℂ)⁻¹ * (n : ℂ)) * ((n : ℂ) * energyFn (𝓕⁻ Φ)) := by ring
      _ = (n : ℂ) * energyFn (𝓕⁻ Φ) := by rw [this, one_mul]

theorem sum_map_range {M : Type} [AddCommMonoid M] (g : ℕ → M) (n : ℕ) :
    ((List.range n).map g).sum = ∑ i ∈ Finset.range n, g i := by
  induction n with
  | zero => simp
  | succ n ih => rw [List.range_succ, List.map_append, List.sum_append, ih, Finset.sum_range_succ]; simp

/-- the list energy of `Props/C01.lean` is the sum over `ℤ/n` -/
theorem energy_eq_sum {M : Type} [AddCommMonoid M] {n : ℕ} [NeZero n] (w : ℂ → M) (xs : List ℂ) (h : xs.length = n) :
    C01.energy w xs = ∑ k : ZMod n, w (toFn xs k) := by
  obtain ⟨m, rfl⟩ := Nat.exists_eq_succ_of_ne_zero (NeZero.ne n)
  conv_lhs => rw [← ofFn_toFn (n := m + 1) xs h]
  unfold C01.energy ofFn
  rw [List.map_map, sum_map_range, Finset.sum_range]
  refine Finset.sum_congr rfl fun i _ => ?_
  exact congrArg (fun z => w (toFn xs z)) (ZMod.natCast_zmod_val (n := m + 1) (show ZMod (m + 1) from i))

/-- the orthonormal 1-D transforms preserve `Σ_k conj(x_k)·x_k` of every list -/
theorem energy_torchFft_ortho (inv : Bool) (ys : List ℂ) :
    C01.energy (fun z => conj z * z) (torchFft inv .ortho ys) = C01.energy (fun z => conj z * z) ys := by
  by_cases h0 : ys.length = 0
  · have : ys = [] := List.eq_nil_of_length_eq_zero h0
    subst this; simp [torchFft]
  · have : NeZero ys.length := ⟨h0⟩
    rw [energy_eq_sum (n := ys.length) _ _ (torchFft_length inv .ortho ys), energy_eq_sum (n := ys.length) _ ys rfl,
      toFn_torchFft inv .ortho ys rfl]
    exact energyFn_torchFftFn_ortho inv (toFn ys)

/-- **`fft2_energy` with the concrete DFT, no hypotheses left**: the normalised `fft2` / `ifft2`
preserve `Σ_k conj(x_k)·x_k = Σ_k |x_k|²` for every complex list, centred or not. -/
theorem fft2_energy_dft (cfg : Cfg) (hn : cfg.normalized = true) (xs : List ℂ) :
    C01.energy (fun z => conj z * z) (fft2 (listBackend torchFft) cfg xs) = C01.energy (fun z => conj z * z) xs ∧
    C01.energy (fun z => conj z * z) (ifft2 (listBackend torchFft) cfg xs) = C01.energy (fun z => conj z * z) xs :=
  C01.fft2_energy (fun z => conj z * z) torchFft energy_torchFft_ortho cfg hn xs

/-- `stdAddChar` is the textbook root of unity: `stdAddChar (j : ℤ/n) = e^{2πi j/n}` -/
example {n : ℕ} [NeZero n] (j : ℤ) :
    (stdAddChar (j : ZMod n) : ℂ) = Complex.exp (2 * Real.pi * Complex.I * j / n) := ZMod.stdAddChar_coe j

end DirectVerif.C01Dft
