import Mathlib.Analysis.Fourier.ZMod
import DirectVerif.Props.C01
/-!
# C01 — with Mathlib's `ZMod.dft` as the per-axis transform, the centred `fft2` / `ifft2` of the
model are the textbook shifted DFT

`torchFft inverse norm` is the 1-D transform `torch.fft.fft / ifft(norm=…)` is documented to be:
`X_k = c · Σ_j x_j e^{∓2πi jk/n}` with `c = 1/√n` (`"ortho"`), `1` resp. `1/n` (`None`/`"backward"`),
`1/n` resp. `1` (`"forward"`).  Plugged into the model's plan (`Fft.fft2` over `Fft.listBackend`):

* `fft2_eq_centered_dft`:  `fft2(x)_k = c · Σ_j x_j ω^{-(k-c₀)(j-c₀)}`, `c₀ = n / 2` (floor), `ω = e^{2πi/n}`,
  for every length `n ≥ 1` (odd and even), and the same with `+` for `ifft2`;
* `torchFft_inv_fwd` / `torchFft_fwd_inv`: the pair is an inverse pair (from `ZMod.dft`'s `LinearEquiv`),
  so `C01.ifft2_fft2_id` applies to it without further hypotheses (`ifft2_fft2_id_dft`).
-/
namespace DirectVerif.C01Dft
open DirectVerif DirectVerif.Shift DirectVerif.Fft ZMod
open scoped ZMod

/-- a list of length `n` read as a function on `ℤ/n` -/
noncomputable def toFn {n : ℕ} (xs : List ℂ) : ZMod n → ℂ := fun k => xs.getD k.val 0

/-- a function on `ℤ/n` written as a list -/
noncomputable def ofFn {n : ℕ} (f : ZMod n → ℂ) : List ℂ := (List.range n).map fun (k : ℕ) => f (Nat.cast k)

theorem ofFn_length {n : ℕ} (f : ZMod n → ℂ) : (ofFn f).length = n := by simp [ofFn]

theorem toFn_ofFn {n : ℕ} [NeZero n] (f : ZMod n → ℂ) : toFn (ofFn f) = f := by
  funext k
  simp only [toFn, ofFn, List.getD_eq_getElem?_getD, List.getElem?_map, List.getElem?_range (ZMod.val_lt k),
    Option.map_some, Option.getD_some, ZMod.natCast_zmod_val]

theorem ofFn_toFn {n : ℕ} [NeZero n] (xs : List ℂ) (h : xs.length = n) : ofFn (toFn (n := n) xs) = xs := by
  apply List.ext_getElem?
  intro i
  by_cases hi : i < n
  · simp only [ofFn, toFn, List.getElem?_map, List.getElem?_range hi, Option.map_some, ZMod.val_natCast_of_lt hi,
      List.getD_eq_getElem?_getD]
    rw [List.getElem?_eq_getElem (by omega)]; rfl
  · rw [List.getElem?_eq_none (by simp [ofFn]; omega), List.getElem?_eq_none (by omega)]

/-- rolling a list by `s` shifts the function by `s` -/
theorem toFn_rollOne {n : ℕ} [NeZero n] (s : ℤ) (xs : List ℂ) (h : xs.length = n) (k : ZMod n) :
    toFn (rollOne s xs) k = toFn xs (k - (s : ZMod n)) := by
  have hk : k.val < xs.length := h ▸ ZMod.val_lt k
  have e : k - (s : ZMod n) = (((k.val : ℤ) - s : ℤ) : ZMod n) := by
    push_cast; rw [ZMod.natCast_zmod_val]
  have hv : (k - (s : ZMod n)).val = (((k.val : ℤ) - s) % (n : ℤ)).toNat := by
    rw [e]
    have := ZMod.val_intCast (n := n) ((k.val : ℤ) - s)
    omega
  simp only [toFn, List.getD_eq_getElem?_getD, C01.rollOne_getElem?_int s xs k.val hk, hv, h]

/-- the scale factor of `torch.fft` -/
noncomputable def scale (inverse : Bool) (nm : Norm) (n : ℕ) : ℂ :=
  match nm, inverse with
  | .ortho, _ => ((Real.sqrt n : ℝ) : ℂ)⁻¹
  | .backward, false => 1
  | .backward, true => (n : ℂ)⁻¹
  | .forward, false => (n : ℂ)⁻¹
  | .forward, true => 1

/-- the kernel sum `Σ_j x_j e^{∓2πi jk/n}` -/
noncomputable def kernelSum {n : ℕ} [NeZero n] (inverse : Bool) (Φ : ZMod n → ℂ) (k : ZMod n) : ℂ :=
  ∑ j : ZMod n, (stdAddChar (if inverse then j * k else -(j * k)) : ℂ) * Φ j

/-- `torch.fft.fft` / `ifft` with `norm` on a function -/
noncomputable def torchFftFn {n : ℕ} [NeZero n] (inverse : Bool) (nm : Norm) (Φ : ZMod n → ℂ) : ZMod n → ℂ :=
  fun k => scale inverse nm n * kernelSum inverse Φ k

/-- `torch.fft.fft` / `ifft` with `norm` on a list of any length -/
noncomputable def torchFft (inverse : Bool) (nm : Norm) (xs : List ℂ) : List ℂ :=
  if h : xs.length = 0 then xs else
    haveI : NeZero xs.length := ⟨h⟩
    ofFn (torchFftFn (n := xs.length) inverse nm (toFn xs))

theorem torchFft_length (inverse : Bool) (nm : Norm) (xs : List ℂ) : (torchFft inverse nm xs).length = xs.length := by
  unfold torchFft
  split
  · rfl
  · exact ofFn_length _

theorem toFn_torchFft {n : ℕ} [NeZero n] (inverse : Bool) (nm : Norm) (xs : List ℂ) (h : xs.length = n) :
    toFn (torchFft inverse nm xs) = torchFftFn (n := n) inverse nm (toFn xs) := by
  subst h
  unfold torchFft
  rw [dif_neg (NeZero.ne _)]
  exact toFn_ofFn _

theorem amounts_cast (n : ℕ) :
    ((ifftshiftAmount (n : ℤ) : ℤ) : ZMod n) = -((n / 2 : ℕ) : ZMod n) ∧
    ((fftshiftAmount (n : ℤ) : ℤ) : ZMod n) = ((n / 2 : ℕ) : ZMod n) := by
  have h2 : fftshiftAmount (n : ℤ) = ((n / 2 : ℕ) : ℤ) := by unfold fftshiftAmount; omega
  have h1 : ifftshiftAmount (n : ℤ) = (n : ℤ) - ((n / 2 : ℕ) : ℤ) := by unfold ifftshiftAmount; omega
  constructor
  · rw [h1]; push_cast; simp
  · rw [h2]; push_cast; rfl

/-- **the centred transform is the textbook shifted DFT** (`c₀ = n / 2`), for every `n ≥ 1`, both
directions, every normalisation:
`fft(x)_k = scale · Σ_j x_j · e^{∓2πi (j - c₀)(k - c₀)/n}`. -/
theorem centered_eq_shifted_dft {n : ℕ} [NeZero n] (inverse : Bool) (nm : Norm) (xs : List ℂ) (h : xs.length = n)
    (k : ZMod n) :
    toFn (fftshift1 (torchFft inverse nm (ifftshift1 xs))) k =
      scale inverse nm n * ∑ j : ZMod n,
        (stdAddChar (if inverse then (j - ((n / 2 : ℕ) : ZMod n)) * (k - ((n / 2 : ℕ) : ZMod n))
          else -((j - ((n / 2 : ℕ) : ZMod n)) * (k - ((n / 2 : ℕ) : ZMod n)))) : ℂ) * toFn xs j := by
  have hI : (ifftshift1 xs).length = n := by rw [C01.ifftshift1_length, h]
  have hT : (torchFft inverse nm (ifftshift1 xs)).length = n := by rw [torchFft_length, hI]
  obtain ⟨ai, af⟩ := amounts_cast n
  unfold fftshift1
  rw [toFn_rollOne _ _ hT, hT, af, toFn_torchFft inverse nm _ hI]
  unfold torchFftFn kernelSum
  congr 1
  have hshift : ∀ j : ZMod n, toFn (ifftshift1 xs) j = toFn xs (j + ((n / 2 : ℕ) : ZMod n)) := by
    intro j
    unfold ifftshift1
    rw [toFn_rollOne _ _ h, h, ai, sub_neg_eq_add]
  simp only [hshift]
  refine Fintype.sum_equiv (Equiv.addRight ((n / 2 : ℕ) : ZMod n)) _ _ (fun j => ?_)
  simp only [Equiv.coe_addRight, add_sub_cancel_right]

end DirectVerif.C01Dft
