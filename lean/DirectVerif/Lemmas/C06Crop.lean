import DirectVerif.Lemmas.C06Assemble
import DirectVerif.Model.C06Crop
/-! Lemmas for `Model/C06Crop.lean`. -/
namespace DirectVerif.C06Crop
open DirectVerif DirectVerif.MaskGeom

theorem length_ellipse (rows cols : Nat) : (ellipse rows cols).length = rows * cols := by
  simp [ellipse]

theorem getD_orL (a b : List Bool) (h : a.length = b.length) (k : Nat) :
    (orL a b).getD k false = (a.getD k false || b.getD k false) := by
  unfold orL
  simp only [List.getD_eq_getElem?_getD, List.getElem?_zipWith]
  by_cases hk : k < a.length
  · have hk' : k < b.length := h ▸ hk
    simp [List.getElem?_eq_getElem hk, List.getElem?_eq_getElem hk']
  · have hk' : ¬ k < b.length := h ▸ hk
    simp [List.getElem?_eq_none (Nat.le_of_not_lt hk), List.getElem?_eq_none (Nat.le_of_not_lt hk')]

theorem getD_andL' (a b : List Bool) (k : Nat) :
    (andL a b).getD k false = (a.getD k false && b.getD k false) := getD_andL a b k

/-- the pinned order kept a disc cell exactly when it lies inside the ellipse (or no crop is requested) -/
theorem poissonFramePinned_disc_cell (crop : Bool) (rows cols : Nat) (radius : Int) (raster : List Bool)
    (hl : raster.length = rows * cols) (k : Nat) (hd : (centeredDisk rows cols radius).getD k false = true) :
    (poissonFramePinned crop rows cols radius raster).getD k false = (!crop || (ellipse rows cols).getD k false) := by
  unfold poissonFramePinned
  have hlen : raster.length = (centeredDisk rows cols radius).length := by rw [hl, length_centeredDisk]
  cases crop
  · simp only [Bool.false_eq_true, if_false, Bool.not_false, Bool.true_or]
    rw [getD_orL _ _ hlen, hd, Bool.or_true]
  · simp only [if_true, Bool.not_true, Bool.false_or]
    rw [getD_andL', getD_orL _ _ hlen, hd, Bool.or_true, Bool.true_and]

theorem poissonFrame_disc_cell (crop : Bool) (rows cols : Nat) (radius : Int) (raster : List Bool)
    (hl : raster.length = rows * cols) (k : Nat) (hd : (centeredDisk rows cols radius).getD k false = true) :
    (poissonFrame crop rows cols radius raster).getD k false = true := by
  unfold poissonFrame
  have hlen : (if crop then andL raster (ellipse rows cols) else raster).length = (centeredDisk rows cols radius).length := by
    cases crop
    · simp [hl, length_centeredDisk]
    · simp [andL, hl, length_ellipse, length_centeredDisk]
  rw [getD_orL _ _ hlen, hd, Bool.or_true]

end DirectVerif.C06Crop
