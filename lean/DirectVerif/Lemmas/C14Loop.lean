import DirectVerif.Model.C14Loop
import DirectVerif.Lemmas.C14Recon
/-!
Helper lemmas for C14 (phase 3): the loop with `loss_dict_list` (`reconstructL`), erasure to `reconstruct`,
delivery orders of a loader with `k` batches in flight.
-/
namespace DirectVerif.Recon
open DirectVerif DirectVerif.Sampler

/-! ### `reconstructL` is `reconstruct` plus the loss list -/

theorem reconstructL_erase {β ℓ} (sizeOf : Nat → Option Nat) (zero : β) :
    ∀ (bs : List (LBatch β ℓ)) (s : LState β ℓ),
      ((reconstructL sizeOf zero s bs).1.map fun y => (y.1, y.2.2)) =
          (reconstruct sizeOf zero s.st (bs.map LBatch.erase)).1 ∧
        (reconstructL sizeOf zero s bs).2 = (reconstruct sizeOf zero s.st (bs.map LBatch.erase)).2 := by
  intro bs
  induction bs with
  | nil => intro s; simp [reconstructL, reconstruct]
  | cons b bs ih =>
    intro s
    simp only [reconstructL, rstepL, List.map_cons, reconstruct]
    cases h : rstep sizeOf zero s.st b.erase with
    | error e => simp
    | ok r =>
      obtain ⟨st', y⟩ := r
      simp only
      have := ih ⟨st', if allocates s.st b.fnames then s.losses ++ [b.loss] else s.losses⟩
      refine ⟨?_, this.2⟩
      rw [List.map_append, this.1]
      cases y with
      | none => simp
      | some v => simp

/-- the `slice_no` entries of the batches are never read -/
theorem reconstructL_sliceNos_irrelevant {β ℓ} (sizeOf : Nat → Option Nat) (zero : β)
    (g : LBatch β ℓ → List Int) :
    ∀ (bs : List (LBatch β ℓ)) (s : LState β ℓ),
      reconstructL sizeOf zero s (bs.map fun b => { b with sliceNos := g b }) =
        reconstructL sizeOf zero s bs := by
  intro bs
  induction bs with
  | nil => intro s; rfl
  | cons b bs ih =>
    intro s
    simp only [List.map_cons, reconstructL]
    have : rstepL sizeOf zero s { b with sliceNos := g b } = rstepL sizeOf zero s b := rfl
    rw [this]
    cases rstepL sizeOf zero s b with
    | error e => rfl
    | ok r => simp only [ih]

/-! ### the invariant with the loss list -/

theorem rstep_mid {β} (sizeOf : Nat → Option Nat) (zero : β) (f N : Nat) (done p : List β) (hp : p ≠ [])
    (h : done.length + p.length ≤ N) :
    rstep sizeOf zero ⟨some f, some (done ++ List.replicate (N - done.length) zero), done.length, N⟩
        ⟨List.replicate p.length f, p⟩ =
      .ok (⟨some f, some ((done ++ p) ++ List.replicate (N - (done ++ p).length) zero),
            (done ++ p).length, N⟩,
           if (done ++ p).length = N then
             some ((done ++ p) ++ List.replicate (N - (done ++ p).length) zero, f) else none) := by
  have hp0 : 0 < p.length := List.length_pos_iff.mpr hp
  unfold rstep
  simp only [filenameOf_replicate _ _ hp0, Option.getD_some, ne_eq, not_true_eq_false, if_false]
  rw [writeSlice_fill zero done p N h]
  simp only [List.length_append]

theorem allocates_mid {β} (f k N n : Nat) (c : List β) (hn : 0 < n) :
    allocates (⟨some f, some c, k, N⟩ : RState β) (List.replicate n f) = false := by
  simp [allocates, filenameOf_replicate _ _ hn]

theorem allocates_fresh {β} (s : RState β) (f n : Nat) (hn : 0 < n) (hs : Fresh s f) :
    allocates s (List.replicate n f) = true := by
  simp only [allocates, filenameOf_replicate _ _ hn]
  cases hs with
  | inl h => simp [h.2.1]
  | inr h =>
    obtain ⟨g, h1, h2⟩ := h
    simp [h1, h2]

/-- the slices carried by the pieces of a volume -/
def piecesOuts {β ℓ} (ps : List (List (β × Int) × ℓ)) : List β := ps.flatMap fun p => p.1.map (·.1)

theorem piecesOuts_cons {β ℓ} (p : List (β × Int) × ℓ) (ps : List (List (β × Int) × ℓ)) :
    piecesOuts (p :: ps) = p.1.map (·.1) ++ piecesOuts ps := by
  simp [piecesOuts]

/-- in the middle of volume `f`, the remaining pieces complete it; **no further loss dict is appended** -/
theorem reconstructL_volume_rest {β ℓ} (sizeOf : Nat → Option Nat) (zero : β) (f N : Nat)
    (tail : List (LBatch β ℓ)) (ls : List ℓ) :
    ∀ (ps : List (List (β × Int) × ℓ)) (done : List β), ps ≠ [] → (∀ p ∈ ps, p.1 ≠ []) →
      done.length + (piecesOuts ps).length = N →
      reconstructL sizeOf zero
          ⟨⟨some f, some (done ++ List.replicate (N - done.length) zero), done.length, N⟩, ls⟩
          (volBatchesL f ps ++ tail) =
        ((done ++ piecesOuts ps, ls, f) ::
            (reconstructL sizeOf zero ⟨⟨some f, some (done ++ piecesOuts ps), N, N⟩, ls⟩ tail).1,
          (reconstructL sizeOf zero ⟨⟨some f, some (done ++ piecesOuts ps), N, N⟩, ls⟩ tail).2) := by
  intro ps
  induction ps with
  | nil => intro done h; exact absurd rfl h
  | cons p ps ih =>
    intro done _ hne hlen
    have hp : p.1 ≠ [] := hne p (by simp)
    have hp' : p.1.map (·.1) ≠ [] := by simpa using hp
    have hp0 : 0 < p.1.length := List.length_pos_iff.mpr hp
    rw [piecesOuts_cons, List.length_append, List.length_map] at hlen
    have hstep := rstep_mid sizeOf zero f N done (p.1.map (·.1)) hp' (by simp only [List.length_map]; omega)
    simp only [List.length_map] at hstep
    simp only [volBatchesL, List.map_cons, List.cons_append]
    rw [reconstructL]
    simp only [rstepL, LBatch.erase, hstep, allocates_mid f _ N _ _ hp0]
    by_cases hps : ps = []
    · subst hps
      have hN : (done ++ p.1.map (·.1)).length = N := by
        simp only [piecesOuts, List.flatMap_nil, List.length_nil, List.length_append, List.length_map] at hlen ⊢
        omega
      simp only [hN, if_true, Nat.sub_self, List.replicate_zero, List.append_nil, List.map_nil,
        List.nil_append, piecesOuts_cons, Option.map_some, Option.toList_some, List.cons_append,
        Bool.false_eq_true, if_false]
      simp [piecesOuts]
    · have hrest : 0 < (piecesOuts ps).length := by
        cases ps with
        | nil => exact absurd rfl hps
        | cons q qs =>
          have hq : q.1 ≠ [] := hne q (by simp)
          have : 0 < q.1.length := List.length_pos_iff.mpr hq
          simp only [piecesOuts_cons, List.length_append, List.length_map]; omega
      have hN : ¬ ((done ++ p.1.map (·.1)).length = N) := by
        simp only [List.length_append, List.length_map]; omega
      simp only [hN, if_false, Option.map_none, Option.toList_none, List.nil_append, Bool.false_eq_true]
      have := ih (done ++ p.1.map (·.1)) hps (fun q hq => hne q (by simp [hq]))
        (by simp only [List.length_append, List.length_map]; omega)
      simp only [volBatchesL] at this
      rw [this]
      simp only [piecesOuts_cons, List.append_assoc]

/-- the first batch of a volume behaves, for the loss list too, as if the volume had been allocated:
its loss dict is appended -/
theorem rstepL_fresh {β ℓ} (sizeOf : Nat → Option Nat) (zero : β) (s : RState β) (ls : List ℓ) (f N : Nat)
    (b : LBatch β ℓ) (hs : Fresh s f) (hsz : sizeOf f = some N) (n : Nat) (hn : 0 < n)
    (hb : b.fnames = List.replicate n f) :
    rstepL sizeOf zero ⟨s, ls⟩ b =
      rstepL sizeOf zero ⟨⟨some f, some (List.replicate N zero), 0, N⟩, ls ++ [b.loss]⟩ b := by
  unfold rstepL
  have hfn : filenameOf b.erase.fnames = some f := by
    simp only [LBatch.erase, hb, filenameOf_replicate _ _ hn]
  simp only [rstep_fresh sizeOf zero s f N b.erase hs hsz hfn, hb, allocates_fresh s f n hn hs,
    allocates_mid f 0 N n _ hn, if_true, Bool.false_eq_true, if_false]

/-- a whole volume from a fresh state: one yield, carrying the loss list extended by the loss dict of the
volume's **first** batch -/
theorem reconstructL_volume {β ℓ} (sizeOf : Nat → Option Nat) (zero : β) (f : Nat) (s : RState β)
    (ls : List ℓ) (d : ℓ) (ps : List (List (β × Int) × ℓ)) (tail : List (LBatch β ℓ)) (hs : Fresh s f)
    (hps : ps ≠ []) (hne : ∀ p ∈ ps, p.1 ≠ []) (hsz : sizeOf f = some (piecesOuts ps).length) :
    reconstructL sizeOf zero ⟨s, ls⟩ (volBatchesL f ps ++ tail) =
      let ls' := ls ++ [(ps.head?.map (·.2)).getD d]
      let N := (piecesOuts ps).length
      ((piecesOuts ps, ls', f) ::
          (reconstructL sizeOf zero ⟨⟨some f, some (piecesOuts ps), N, N⟩, ls'⟩ tail).1,
        (reconstructL sizeOf zero ⟨⟨some f, some (piecesOuts ps), N, N⟩, ls'⟩ tail).2) := by
  cases ps with
  | nil => exact absurd rfl hps
  | cons p ps' =>
    have hp : p.1 ≠ [] := hne p (by simp)
    have hp0 : 0 < p.1.length := List.length_pos_iff.mpr hp
    have key := reconstructL_volume_rest sizeOf zero f (piecesOuts (p :: ps')).length tail (ls ++ [p.2])
      (p :: ps') [] hps hne (by simp)
    simp only [List.nil_append, List.length_nil, Nat.sub_zero] at key
    simp only [List.head?_cons, Option.map_some, Option.getD_some]
    rw [← key]
    simp only [volBatchesL, List.map_cons, List.cons_append]
    rw [reconstructL, reconstructL]
    rw [rstepL_fresh sizeOf zero s ls f _ _ hs hsz p.1.length hp0 rfl]

/-- all volumes: any start state that is fresh for the first volume, pairwise distinct filenames -/
theorem reconstructL_volumes_spec {β ℓ} (sizeOf : Nat → Option Nat) (zero : β) (d : ℓ) :
    ∀ (vs : List (Nat × List (List (β × Int) × ℓ))) (s : RState β) (ls : List ℓ),
      (∀ v ∈ vs, v.2 ≠ [] ∧ (∀ p ∈ v.2, p.1 ≠ []) ∧ sizeOf v.1 = some (piecesOuts v.2).length) →
      vs.Pairwise (fun a b => a.1 ≠ b.1) →
      (∀ v ∈ vs.head?, Fresh s v.1) →
      reconstructL sizeOf zero ⟨s, ls⟩ (vs.flatMap fun v => volBatchesL v.1 v.2) =
        (yieldsFrom ls vs d, none) := by
  intro vs
  induction vs with
  | nil => intro s ls _ _ _; simp [reconstructL, yieldsFrom]
  | cons v vs ih =>
    intro s ls hv hpw hfresh
    obtain ⟨h1, h2, h3⟩ := hv v (by simp)
    rw [List.flatMap_cons, reconstructL_volume sizeOf zero v.1 s ls d v.2 _ (hfresh v (by simp)) h1 h2 h3]
    rw [List.pairwise_cons] at hpw
    simp only
    rw [ih _ _ (fun w hw => hv w (by simp [hw])) hpw.2 (by
      intro w hw
      right
      refine ⟨v.1, rfl, ?_⟩
      have : w ∈ vs := by
        cases vs with
        | nil => simp at hw
        | cons x xs => simp at hw; subst hw; simp
      exact hpw.1 w this)]
    simp [yieldsFrom, piecesOuts]

/-- the `k`-th yield carries the first-batch loss dicts of volumes `0 … k` -/
theorem yieldsFrom_losses {β ℓ} (d : ℓ) :
    ∀ (vs : List (Nat × List (List (β × Int) × ℓ))) (ls : List ℓ) (k : Nat) (_hk : k < vs.length),
      ((yieldsFrom ls vs d)[k]?).map (·.2.1) =
        some (ls ++ (vs.take (k + 1)).map fun v => (v.2.head?.map (·.2)).getD d) := by
  intro vs
  induction vs with
  | nil => intro ls k hk; simp at hk
  | cons v vs ih =>
    intro ls k hk
    cases k with
    | zero => simp [yieldsFrom]
    | succ k =>
      simp only [yieldsFrom, List.getElem?_cons_succ]
      rw [ih _ k (by simpa using hk)]
      simp

/-! ### delivery orders -/

theorem perm_cons_eraseIdx {α} {l : List α} {i : Nat} (h : i < l.length) : l.Perm (l[i] :: l.eraseIdx i) := by
  induction l generalizing i with
  | nil => simp at h
  | cons a l ih =>
    cases i with
    | zero => simp
    | succ i =>
      simp only [List.getElem_cons_succ, List.eraseIdx_cons_succ]
      have := ih (i := i) (by simpa using h)
      exact (List.Perm.cons a this).trans (List.Perm.swap _ _ _)

theorem windowOrdersAux_one {α} : ∀ (fuel : Nat) (x : α) (rest : List α), rest.length + 1 ≤ fuel →
    windowOrdersAux fuel [x] rest = [x :: rest] := by
  intro fuel
  induction fuel with
  | zero => intro x rest h; omega
  | succ fuel ih =>
    intro x rest h
    simp only [windowOrdersAux, List.isEmpty_cons, Bool.false_eq_true, if_false, List.length_cons,
      List.length_nil]
    cases rest with
    | nil =>
      cases fuel with
      | zero => simp [windowOrdersAux, List.range_succ]
      | succ f => simp [windowOrdersAux, List.range_succ]
    | cons y ys =>
      have := ih y ys (by simpa using h)
      simp [List.range_succ, this]

/-- with one batch in flight the loader can only deliver in order -/
theorem windowOrders_one {α} (xs : List α) : windowOrders 1 xs = [xs] := by
  cases xs with
  | nil => simp [windowOrders, windowOrdersAux]
  | cons x xs =>
    simp only [windowOrders, List.take_succ_cons, List.take_zero, List.drop_succ_cons, List.drop_zero]
    exact windowOrdersAux_one _ x xs (by simp)

theorem windowOrdersAux_perm {α} : ∀ (fuel : Nat) (infl rest : List α), infl.length + rest.length ≤ fuel →
    (infl = [] → rest = []) → ∀ ys ∈ windowOrdersAux fuel infl rest, ys.Perm (infl ++ rest) := by
  intro fuel
  induction fuel with
  | zero =>
    intro infl rest h _ ys hy
    have h1 : infl = [] := List.eq_nil_of_length_eq_zero (by omega)
    have h2 : rest = [] := List.eq_nil_of_length_eq_zero (by omega)
    subst h1 h2
    simp [windowOrdersAux] at hy
    subst hy; exact List.Perm.refl _
  | succ fuel ih =>
    intro infl rest h hinv ys hy
    cases hx : infl with
    | nil =>
      have := hinv hx
      subst hx this
      simp [windowOrdersAux] at hy
      subst hy; exact List.Perm.refl _
    | cons x0 xs0 =>
      subst hx
      simp only [windowOrdersAux, List.isEmpty_cons, Bool.false_eq_true, if_false, List.mem_flatMap,
        List.mem_range] at hy
      obtain ⟨i, hi, hy⟩ := hy
      rw [List.getElem?_eq_getElem hi] at hy
      simp only [List.mem_map] at hy
      obtain ⟨zs, hz, rfl⟩ := hy
      have hlen : ((x0 :: xs0).eraseIdx i ++ rest.take 1).length + (rest.drop 1).length ≤ fuel := by
        rw [List.length_append, List.length_eraseIdx_of_lt hi, List.length_take, List.length_drop]
        simp only [List.length_cons] at h ⊢; omega
      have hinv' : (x0 :: xs0).eraseIdx i ++ rest.take 1 = [] → rest.drop 1 = [] := by
        intro e
        have := (List.append_eq_nil_iff.mp e).2
        cases rest with
        | nil => rfl
        | cons a r => simp at this
      have hp := ih _ _ hlen hinv' zs hz
      have h1 : ((x0 :: xs0).eraseIdx i ++ rest.take 1 ++ rest.drop 1) = (x0 :: xs0).eraseIdx i ++ rest := by
        rw [List.append_assoc, List.take_append_drop]
      rw [h1] at hp
      exact (List.Perm.cons _ hp).trans
        ((List.Perm.append_right rest (perm_cons_eraseIdx hi)).symm.trans (List.Perm.refl _))

/-- every delivery order is a permutation of the batch sampler's batches: nothing lost, nothing doubled -/
theorem windowOrders_perm {α} (k : Nat) (hk : 0 < k) (xs ys : List α) (h : ys ∈ windowOrders k xs) :
    ys.Perm xs := by
  have := windowOrdersAux_perm xs.length (xs.take k) (xs.drop k)
    (by rw [List.length_take, List.length_drop]; omega)
    (by
      intro e
      cases xs with
      | nil => simp
      | cons a r =>
        cases k with
        | zero => omega
        | succ k => simp at e)
    ys h
  rwa [List.take_append_drop] at this

/-- with at least two batches in flight two consecutive batches may arrive swapped -/
theorem windowOrders_swap {α} (k : Nat) (hk : 2 ≤ k) (p q : α) : [q, p] ∈ windowOrders k [p, q] := by
  have h2 : List.take k [p, q] = [p, q] := by
    rw [List.take_of_length_le]; simpa using hk
  have h3 : List.drop k [p, q] = [] := by
    rw [List.drop_eq_nil_iff]; simpa using hk
  simp only [windowOrders, List.length_cons, List.length_nil, h2, h3]
  simp only [windowOrdersAux, List.isEmpty_cons, Bool.false_eq_true, if_false, List.mem_flatMap,
    List.mem_range, List.length_cons, List.length_nil]
  refine ⟨1, by omega, ?_⟩
  simp [List.range_succ]

end DirectVerif.Recon
