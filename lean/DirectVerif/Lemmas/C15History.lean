import DirectVerif.Lemmas.C15Wf
import DirectVerif.Lemmas.C16
/-!
# Histories of interrupted training processes keep the experiment directory consistent — no Mathlib
-/
namespace DirectVerif.Train
open DirectVerif.Ckpt
variable {P O G B L Sc : Type}

/-- the state of the uninterrupted run after `n` iterations -/
def Run.U (r : Run P O G B L Sc) (n : Nat) : St P O G Sc := runRange r.ops r.lrAt r.cfg r.batch r.init 0 n

/-- standing assumptions: the code as it is now, a faithful serialisation, a fresh process starts with
empty gradients (any `gradient_steps = k`) -/
structure Run.Ok (r : Run P O G B L Sc) : Prop where
  table : r.table = loopTable
  label : r.killLabel = Train.killLabel
  save : wfSave r.saveTbl = true     -- any well-formed save routine
  codec : ∀ c, r.decode (r.encode c).flatten = some c
  init : r.init.grad = r.ops.zero

/-- the directory invariant: 'latest' is absent, or is the uninterrupted run's state after iteration `t`
under label `t` -/
def Run.Inv (r : Run P O G B L Sc) (d : Dir) : Prop :=
  loadLatest r.decode d = .none ∨ ∃ t : Nat, t + 1 ≤ r.total ∧ loadLatest r.decode d = .ok t (snapshot (r.U (t + 1)))

/-- 'latest' (if any) is at a window boundary: its label `t` has `(t + 1) % k = 0`, i.e. nothing was pending in
`.grad` when it was written -/
def Run.Aligned (r : Run P O G B L Sc) (d : Dir) : Prop :=
  ∀ t c, loadLatest r.decode d = .ok t c → (resumeStart t).toNat % r.cfg.k = 0

/-- every process of the history starts from an aligned directory -/
def Run.AlignedHist (r : Run P O G B L Sc) : List Stop → Dir → Prop
  | [], d => r.Aligned d
  | st :: rest, d => r.Aligned d ∧ match r.process st d with
    | some (_, d') => r.AlignedHist rest d'
    | none => True

theorem Run.U_succ (r : Run P O G B L Sc) (h : r.Ok) (it : Nat) :
    iterT r.table r.ops r.lrAt r.cfg (r.U it) it (r.batch it) = r.U (it + 1) := by
  rw [h.table]
  show iter _ _ _ _ _ _ = _
  unfold Run.U
  rw [runRange_succ, Nat.zero_add]

/-- at a window boundary nothing is pending -/
theorem Run.U_grad (r : Run P O G B L Sc) (h : r.Ok) (n : Nat) (hn : n % r.cfg.k = 0) : (r.U n).grad = r.ops.zero := by
  cases n with
  | zero => exact h.init
  | succ n =>
    unfold Run.U
    exact runRange_grad_zero _ _ _ _ _ 0 (n + 1) (by simpa using hn) (by omega)

theorem restore_snapshot (zero : G) (s : St P O G Sc) (h : s.grad = zero) : restore zero (snapshot s) = s := by
  cases s; simp_all [restore, snapshot]

theorem Run.inv_save (r : Run P O G B L Sc) (h : r.Ok) (d : Dir) (t : Nat) (ht : t + 1 ≤ r.total) :
    r.Inv (r.save d t (snapshot (r.U (t + 1)))) :=
  Or.inr ⟨t, ht, save_then_load_of_wf r.decode r.saveTbl h.save d t _ _ (h.codec _)⟩

theorem Run.loop_inv (r : Run P O G B L Sc) (h : r.Ok) (stop : Stop) (fuel it : Nat) (d : Dir)
    (hd : r.Inv d) : r.Inv (r.loop stop fuel it (r.U it) d).2 := by
  induction fuel generalizing it d with
  | zero => exact hd
  | succ fuel ih =>
    rw [Run.loop]
    by_cases hge : it ≥ r.total
    · rw [if_pos hge]; exact hd
    · rw [if_neg hge]
      by_cases hkill : stop = .killDuring it
      · rw [if_pos hkill]
        by_cases hg : killGuard (it : Int) = true
        · simp only [hg, if_true]
          have h5 : 5 ≤ it := by simp [killGuard] at hg; omega
          have hl : r.killLabel (it : Int) = ((it - 1 : Nat) : Int) := by
            rw [h.label]; unfold Train.killLabel; omega
          have hu : r.U it = r.U (it - 1 + 1) := by congr 1; omega
          rw [hl, hu]
          exact r.inv_save h d (it - 1) (by omega)
        · simp only [hg]; exact hd
      · rw [if_neg hkill, r.U_succ h it]
        have hsave : r.Inv (r.save d it (snapshot (r.U (it + 1)))) := r.inv_save h d it (by omega)
        by_cases hck : ckptGuard it r.ckSteps r.total = true
        · rw [if_pos hck]
          cases stop with
          | crashInSave j n m =>
            simp only
            by_cases hj : j = it
            · rw [if_pos hj]
              have := crash_safe_of_wf r.decode r.saveTbl h.save d it (r.encode (snapshot (r.U (it + 1)))) _ (h.codec _) _
                (crashAt_crashOf (opsOf r.saveTbl it (r.encode (snapshot (r.U (it + 1))))) n m)
              rcases this with e | e
              · unfold Run.Inv; rw [e]; exact hd
              · exact Or.inr ⟨it, by omega, e⟩
            · rw [if_neg hj]; exact ih _ _ hsave
          | finish => simp only [reduceCtorEq, if_false]; exact ih _ _ hsave
          | killDuring j => simp only [reduceCtorEq, if_false]; exact ih _ _ hsave
          | vanishAfter j =>
            simp only
            by_cases hv : Stop.vanishAfter j = Stop.vanishAfter it
            · rw [if_pos hv]; exact hsave
            · rw [if_neg hv]; exact ih _ _ hsave
        · rw [if_neg hck]
          by_cases hv : stop = Stop.vanishAfter it
          · rw [if_pos hv]; exact hd
          · rw [if_neg hv]; exact ih _ _ hd

theorem Run.loop_finish (r : Run P O G B L Sc) (h : r.Ok) (fuel it : Nat) (d : Dir)
    (hit : it ≤ r.total) (hf : r.total - it ≤ fuel) : (r.loop .finish fuel it (r.U it) d).1 = r.U r.total := by
  induction fuel generalizing it d with
  | zero =>
    have : it = r.total := by omega
    subst this; rfl
  | succ fuel ih =>
    rw [Run.loop]
    by_cases hge : it ≥ r.total
    · rw [if_pos hge]
      have : it = r.total := by omega
      subst this; rfl
    · rw [if_neg hge, if_neg (by simp), r.U_succ h it]
      by_cases hck : ckptGuard it r.ckSteps r.total = true
      · rw [if_pos hck]
        simp only [reduceCtorEq, if_false]
        exact ih _ _ (by omega) (by omega)
      · rw [if_neg hck, if_neg (by simp)]
        exact ih _ _ (by omega) (by omega)

/-- a process started on a consistent directory resumes **on** the uninterrupted trajectory -/
theorem Run.process_eq (r : Run P O G B L Sc) (h : r.Ok) (stop : Stop) (d : Dir) (hd : r.Inv d)
    (ha : r.Aligned d) :
    ∃ start, start ≤ r.total ∧ r.process stop d = some (r.loop stop r.total start (r.U start) d) := by
  unfold Run.process
  rcases hd with e | ⟨t, ht, e⟩
  · rw [e]; exact ⟨0, Nat.zero_le _, rfl⟩
  · have hal := ha _ _ e
    rw [e]
    refine ⟨t + 1, ht, ?_⟩
    have : (resumeStart (t : Int)).toNat = t + 1 := by unfold resumeStart; omega
    rw [this] at hal
    simp only [this, restore_snapshot _ _ (r.U_grad h (t + 1) hal)]

/-- **what a resume does in general** (aligned or not): the process continues from the uninterrupted run's state after
iteration `t` **with an empty accumulator** -/
theorem Run.process_start (r : Run P O G B L Sc) (stop : Stop) (d : Dir) (t : Nat)
    (e : loadLatest r.decode d = .ok t (snapshot (r.U (t + 1)))) :
    r.process stop d = some (r.loop stop r.total (t + 1) { r.U (t + 1) with grad := r.ops.zero } d) := by
  unfold Run.process
  rw [e]
  have : (resumeStart (t : Int)).toNat = t + 1 := by unfold resumeStart; omega
  simp only [this]
  rfl

theorem Run.history_inv (r : Run P O G B L Sc) (h : r.Ok) (stops : List Stop) (d : Dir) (hd : r.Inv d)
    (ha : r.AlignedHist stops d) :
    ∃ d', r.history stops d = some d' ∧ r.Inv d' ∧ r.Aligned d' := by
  induction stops generalizing d with
  | nil => exact ⟨d, rfl, hd, ha⟩
  | cons st rest ih =>
    obtain ⟨start, _, e⟩ := r.process_eq h st d hd ha.1
    have ha2 := ha.2
    rw [e] at ha2
    rw [Run.history, e]
    exact ih _ (r.loop_inv h st _ _ d hd) ha2

/-- for `k = 1` every directory is aligned -/
theorem Run.aligned_of_k1 (r : Run P O G B L Sc) (hk : r.cfg.k = 1) (d : Dir) : r.Aligned d := by
  intro t c _; rw [hk]; exact Nat.mod_one _

theorem Run.alignedHist_of_k1 (r : Run P O G B L Sc) (hk : r.cfg.k = 1) (stops : List Stop) (d : Dir) :
    r.AlignedHist stops d := by
  induction stops generalizing d with
  | nil => exact r.aligned_of_k1 hk d
  | cons st rest ih =>
    refine ⟨r.aligned_of_k1 hk d, ?_⟩
    cases r.process st d with
    | none => trivial
    | some x => exact ih _

/-- a SIGINT inside iteration `j ≥ 5` (reached by the process) leaves 'latest' = `j − 1`: aligned iff `j % k = 0` -/
theorem Run.latest_after_kill (r : Run P O G B L Sc) (h : r.Ok) (fuel j : Nat) (s : St P O G Sc) (d : Dir)
    (h5 : 5 ≤ j) (ht : j < r.total) :
    loadLatest r.decode (r.loop (.killDuring j) (fuel + 1) j s d).2 = .ok ((j - 1 : Nat) : Int) (snapshot s) := by
  rw [Run.loop, if_neg (by omega), if_pos rfl]
  have hg : killGuard (j : Int) = true := by simp [killGuard]; omega
  simp only [hg, if_true]
  have hl : r.killLabel (j : Int) = ((j - 1 : Nat) : Int) := by
    rw [h.label]; unfold Train.killLabel; omega
  rw [hl]
  exact save_then_load_of_wf r.decode r.saveTbl h.save d (j - 1) _ _ (h.codec _)

end DirectVerif.Train
