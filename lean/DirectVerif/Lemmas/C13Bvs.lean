import DirectVerif.Lemmas.C13Chunks
/-!
Helper lemmas for C13/C14: `chunksOf`, the `BatchVolumeSampler` loop, sequential sampler layout.
-/
namespace DirectVerif.Sampler
open DirectVerif

/-! ### `chunksOf` (fixed-size consecutive pieces, last one possibly shorter) -/

theorem chunksOf_nil {α} (k : Nat) : chunksOf k ([] : List α) = [] := by
  rw [chunksOf]; simp

theorem chunksOf_cons_step {α} (k : Nat) (xs : List α) (hk : 0 < k) (hx : xs ≠ []) :
    chunksOf k xs = xs.take k :: chunksOf k (xs.drop k) := by
  rw [chunksOf]
  have : ¬ (k = 0 ∨ xs = []) := by
    intro h; cases h with
    | inl h => omega
    | inr h => exact hx h
  simp only [this, dite_false]

theorem chunksOf_of_length_le {α} (k : Nat) (xs : List α) (h0 : 0 < xs.length) (h : xs.length ≤ k) :
    chunksOf k xs = [xs] := by
  have hx : xs ≠ [] := List.ne_nil_of_length_pos h0
  rw [chunksOf_cons_step k xs (by omega) hx, List.take_of_length_le h, List.drop_of_length_le h,
    chunksOf_nil]

theorem chunksOf_append_of_length_eq {α} (k : Nat) (xs ys : List α) (hk : 0 < k) (h : xs.length = k) :
    chunksOf k (xs ++ ys) = xs :: chunksOf k ys := by
  have hx : xs ++ ys ≠ [] := by
    intro e
    have : (xs ++ ys).length = 0 := by rw [e]; rfl
    simp only [List.length_append] at this; omega
  rw [chunksOf_cons_step k _ hk hx, List.take_left' h, List.drop_left' h]

theorem chunksOf_flatten {α} (k : Nat) (hk : 0 < k) (xs : List α) : (chunksOf k xs).flatten = xs := by
  induction h : xs.length using Nat.strongRecOn generalizing xs with
  | _ n ih =>
    by_cases hx : xs = []
    · subst hx; simp [chunksOf_nil]
    · rw [chunksOf_cons_step k xs hk hx, List.flatten_cons,
        ih (xs.drop k).length (by
          have : 0 < xs.length := List.length_pos_iff.mpr hx
          simp only [List.length_drop]; omega) (xs.drop k) rfl]
      exact List.take_append_drop k xs

theorem ceilDiv_le (a k : Nat) (hk : 0 < k) (h0 : 0 < a) (h : a ≤ k) : ceilDiv a k = 1 := by
  unfold ceilDiv
  have h1 : (a + k - 1) / k < 2 := Nat.div_lt_of_lt_mul (by omega)
  have h2 : 1 ≤ (a + k - 1) / k := (Nat.le_div_iff_mul_le hk).mpr (by omega)
  omega

theorem ceilDiv_zero (k : Nat) (hk : 0 < k) : ceilDiv 0 k = 0 := by
  unfold ceilDiv
  exact Nat.div_eq_of_lt (by omega)

theorem ceilDiv_add (a k : Nat) (hk : 0 < k) : ceilDiv (a + k) k = ceilDiv a k + 1 := by
  unfold ceilDiv
  have : a + k + k - 1 = (a + k - 1) + k := by omega
  rw [this, Nat.add_div_right _ hk]

theorem chunksOf_length {α} (k : Nat) (hk : 0 < k) (xs : List α) :
    (chunksOf k xs).length = ceilDiv xs.length k := by
  induction h : xs.length using Nat.strongRecOn generalizing xs with
  | _ n ih =>
    by_cases hx : xs = []
    · subst hx; subst h; simp [chunksOf_nil, ceilDiv_zero k hk]
    · have hpos : 0 < xs.length := List.length_pos_iff.mpr hx
      by_cases hle : xs.length ≤ k
      · rw [chunksOf_of_length_le k xs hpos hle]; subst h
        simp [ceilDiv_le _ _ hk hpos hle]
      · rw [chunksOf_cons_step k xs hk hx, List.length_cons,
          ih (xs.drop k).length (by simp only [List.length_drop]; omega) (xs.drop k) rfl]
        have : n = (xs.length - k) + k := by omega
        rw [this, ceilDiv_add _ _ hk]
        simp [List.length_drop]

/-- every piece is a non-empty contiguous part of length ≤ k, positioned at a multiple of `k` -/
theorem chunksOf_mem {α} (k : Nat) (hk : 0 < k) (xs : List α) (b : List α) (hb : b ∈ chunksOf k xs) :
    ∃ j, b = (xs.drop (j * k)).take k ∧ j * k < xs.length := by
  induction h : xs.length using Nat.strongRecOn generalizing xs with
  | _ n ih =>
    by_cases hx : xs = []
    · subst hx; simp [chunksOf_nil] at hb
    · have hpos : 0 < xs.length := List.length_pos_iff.mpr hx
      rw [chunksOf_cons_step k xs hk hx, List.mem_cons] at hb
      cases hb with
      | inl e => exact ⟨0, by simp [e], by rw [Nat.zero_mul]; omega⟩
      | inr e =>
        obtain ⟨j, hj, hlt⟩ := ih (xs.drop k).length (by simp only [List.length_drop]; omega)
          (xs.drop k) e rfl
        refine ⟨j + 1, ?_, ?_⟩
        · rw [hj, List.drop_drop]
          congr 2
          rw [Nat.add_mul]; omega
        · simp only [List.length_drop] at hlt
          rw [Nat.add_mul]; omega

theorem chunksOf_range'_mem (k : Nat) (hk : 0 < k) (a n : Nat) (b : List Nat)
    (hb : b ∈ chunksOf k (List.range' a n)) :
    ∃ c m, b = List.range' c m ∧ a ≤ c ∧ c + m ≤ a + n ∧ 0 < m ∧ m ≤ k := by
  obtain ⟨j, hj, hlt⟩ := chunksOf_mem k hk _ b hb
  simp only [List.length_range'] at hlt
  refine ⟨a + j * k, min k (n - j * k), ?_, by omega, by omega, by omega, by omega⟩
  rw [hj, List.drop_range', Nat.mul_one]
  by_cases hle : n - j * k ≤ k
  · rw [List.take_range'_of_length_le hle, Nat.min_eq_right hle]
  · rw [List.take_range'_of_length_ge (by omega), Nat.min_eq_left (by omega)]

/-! ### the `BatchVolumeSampler` loop -/

theorem isVolEnd_some (b c : Nat) : isVolEnd (some b) c = decide (c + 1 = b) := by
  unfold isVolEnd
  by_cases h : c + 1 = b
  · simp only [h, decide_true]
    have : (c : Int) = (b : Int) - 1 := by omega
    simp [this]
  · simp only [h, decide_false]
    have : ¬ ((c : Int) = (b : Int) - 1) := by omega
    simp [this]

/-- Loop invariant for one volume: with `next_value = stop` of the volume being traversed and a
partial batch shorter than `bs`, traversing the rest `c … stop-1` of the volume yields the `bs`-pieces
of `batch ++ rest`, ends with an empty batch, and advances the end-of-volume iterator once. -/
theorem iterLoop_volume (bs : Nat) (hbs : 0 < bs) (b : Nat) (rest tail : List Nat) :
    ∀ (m c : Nat) (batch : List Nat), c + (m + 1) = b → batch.length < bs →
      iterLoop bs batch (some b) rest (List.range' c (m + 1) ++ tail) =
        ((chunksOf bs (batch ++ List.range' c (m + 1))) ++
            (iterLoop bs [] (pyNext rest (some b)).1 (pyNext rest (some b)).2 tail).1,
          (iterLoop bs [] (pyNext rest (some b)).1 (pyNext rest (some b)).2 tail).2) := by
  intro m
  induction m with
  | zero =>
    intro c batch hc hlen
    have hend : c + 1 = b := by omega
    simp only [Nat.zero_add, List.range'_one, List.singleton_append]
    rw [iterLoop]
    simp only [yieldCond, isVolEnd_some, hend, decide_true, Bool.or_true, if_true]
    rw [chunksOf_of_length_le bs (batch ++ [c]) (by simp) (by simp; omega)]
    rfl
  | succ m ih =>
    intro c batch hc hlen
    have hne : ¬ (c + 1 = b) := by omega
    rw [List.range'_succ, List.cons_append, iterLoop]
    simp only [yieldCond, isVolEnd_some, hne, decide_false, Bool.or_false, if_false,
      Bool.false_eq_true]
    by_cases hfull : (batch ++ [c]).length = bs
    · simp only [hfull, beq_self_eq_true, if_true]
      rw [ih (c + 1) [] (by omega) (by simpa using hbs)]
      simp only [List.nil_append]
      have e : batch ++ c :: List.range' (c + 1) (m + 1) = (batch ++ [c]) ++ List.range' (c + 1) (m + 1) := by
        simp
      rw [e, chunksOf_append_of_length_eq bs _ _ hbs hfull]
      rfl
    · have hb : ((batch ++ [c]).length == bs) = false := by simpa using hfull
      simp only [hb, if_false, Bool.false_eq_true]
      rw [ih (c + 1) (batch ++ [c]) (by omega) (by
        simp only [List.length_append, List.length_cons, List.length_nil] at hfull ⊢; omega)]
      simp

theorem Vol.indices_eq_succ (v : Vol) (h : v.start < v.stop) :
    v.indices = List.range' v.start ((v.stop - v.start - 1) + 1) := by
  unfold Vol.indices
  congr 1; omega

/-- whole pass: with non-empty volumes the loop yields, volume after volume, its `bs`-pieces -/
theorem iterLoop_vols (bs : Nat) (hbs : 0 < bs) :
    ∀ (vols : List Vol), (∀ v ∈ vols, v.start < v.stop) → ∀ (prev : Option Nat),
      (iterLoop bs [] (pyNext (vols.map Vol.stop) prev).1 (pyNext (vols.map Vol.stop) prev).2
        (vols.flatMap Vol.indices)).1 = vols.flatMap fun v => chunksOf bs v.indices := by
  intro vols
  induction vols with
  | nil => intro _ prev; simp [pyNext, iterLoop]
  | cons v vs ih =>
    intro hpos prev
    have hv : v.start < v.stop := hpos v (by simp)
    simp only [List.map_cons, pyNext, List.flatMap_cons]
    rw [Vol.indices_eq_succ v hv,
      iterLoop_volume bs hbs v.stop (vs.map Vol.stop) (vs.flatMap Vol.indices)
        (v.stop - v.start - 1) v.start [] (by omega) (by simpa using hbs)]
    simp only [List.nil_append]
    rw [ih (fun w hw => hpos w (by simp [hw])) (some v.stop)]

theorem bvs_iterate_eq (vols : List Vol) (bs : Nat) (hbs : 0 < bs) (hpos : ∀ v ∈ vols, v.start < v.stop) :
    (BVS.mk' vols bs).iterate = vols.flatMap fun v => chunksOf bs v.indices := by
  unfold BVS.iterate BVS.mk'
  exact iterLoop_vols bs hbs vols hpos none

/-! ### dataset layout -/

theorem volsFrom_flatMap_indices (id off : Nat) (ns : List Nat) :
    (volsFrom id off ns).flatMap Vol.indices = List.range' off ns.sum := by
  induction ns generalizing id off with
  | nil => simp [volsFrom]
  | cons n ns ih =>
    simp only [volsFrom, List.flatMap_cons, ih, List.sum_cons, Vol.indices]
    rw [show off + n - off = n by omega, ← List.range'_append_1]

theorem volsFrom_pos (id off : Nat) (ns : List Nat) (h : ∀ n ∈ ns, 0 < n) :
    ∀ v ∈ volsFrom id off ns, v.start < v.stop := by
  induction ns generalizing id off with
  | nil => simp [volsFrom]
  | cons n ns ih =>
    intro v hv
    simp only [volsFrom, List.mem_cons] at hv
    cases hv with
    | inl e => subst e; have := h n (by simp); simp; omega
    | inr e => exact ih (id + 1) (off + n) (fun m hm => h m (by simp [hm])) v e

theorem volsFrom_take (id off : Nat) (ns : List Nat) (m : Nat) :
    (volsFrom id off ns).take m = volsFrom id off (ns.take m) := by
  induction ns generalizing id off m with
  | nil => simp [volsFrom]
  | cons n ns ih =>
    cases m with
    | zero => simp [volsFrom]
    | succ m => simp [volsFrom, ih]

theorem volsFrom_length (id off : Nat) (ns : List Nat) : (volsFrom id off ns).length = ns.length := by
  induction ns generalizing id off with
  | nil => simp [volsFrom]
  | cons n ns ih => simp [volsFrom, ih]

/-- ids are the positions: `(volsFrom id off ns)[i].id = id + i` -/
theorem volsFrom_id (id off : Nat) (ns : List Nat) (i : Nat) (v : Vol)
    (h : (volsFrom id off ns)[i]? = some v) : v.id = id + i := by
  induction ns generalizing id off i with
  | nil => simp [volsFrom] at h
  | cons n ns ih =>
    cases i with
    | zero => simp [volsFrom] at h; subst h; simp
    | succ i =>
      simp only [volsFrom, List.getElem?_cons_succ] at h
      have := ih (id + 1) (off + n) i h
      omega

theorem range_map_getD {α} (l : List (List α)) :
    (List.range l.length).map (fun r => l.getD r []) = l := by
  apply List.ext_getElem?
  intro i
  by_cases hi : i < l.length
  · rw [List.getElem?_map, List.getElem?_range hi]
    simp [List.getD_eq_getElem?_getD, List.getElem?_eq_getElem hi]
  · rw [List.getElem?_eq_none (by simpa using hi), List.getElem?_eq_none (by omega)]

theorem mem_of_mem_slice {α} (xs : List α) (lo hi : Nat) (x : α) (h : x ∈ slice xs lo hi) : x ∈ xs := by
  unfold slice at h
  exact List.mem_of_mem_take (List.mem_of_mem_drop h)

theorem mem_of_mem_pySlice {α} (xs : List α) (lo hi : Int) (x : α) (h : x ∈ pySlice xs lo hi) : x ∈ xs := by
  unfold pySlice at h
  exact mem_of_mem_slice _ _ _ _ h

theorem mem_of_mem_applyLimit {α} (xs : List α) (limit : Int) (x : α) (h : x ∈ applyLimit xs limit) :
    x ∈ xs := by
  unfold applyLimit at h
  split at h
  · exact h
  · exact mem_of_mem_pySlice _ _ _ _ h

theorem mem_of_mem_rankVols (layout : List Nat) (world rank : Nat) (limit : Int) (v : Vol)
    (h : v ∈ rankVols layout world rank limit) : v ∈ volumes layout := by
  unfold rankVols at h
  by_cases hr : rank < world
  · rw [chunks_getD _ _ _ hr] at h
    exact mem_of_mem_applyLimit _ _ _ (mem_of_mem_slice _ _ _ _ h)
  · rw [List.getD_eq_getElem?_getD, List.getElem?_eq_none (by simp [chunks_length']; omega)] at h
    simp at h

theorem rankVols_pos (layout : List Nat) (world rank : Nat) (limit : Int) (h : ∀ n ∈ layout, 0 < n) :
    ∀ v ∈ rankVols layout world rank limit, v.start < v.stop :=
  fun v hv => volsFrom_pos 0 0 layout h v (mem_of_mem_rankVols _ _ _ _ _ hv)

/-- the volumes of ranks `0 … world-1`, concatenated, are the (limited) volume list -/
theorem rank_volumes_cover' (layout : List Nat) (world : Nat) (hw : 0 < world) (limit : Int) :
    (List.range world).flatMap (fun r => rankVols layout world r limit) =
      applyLimit (volumes layout) limit := by
  unfold rankVols
  rw [List.flatMap_def]
  have h := range_map_getD (chunks (applyLimit (volumes layout) limit) world)
  rw [chunks_length'] at h
  rw [h, chunks_flatten' _ _ hw]

theorem flatMap_congr' {α β} (l : List α) (f g : α → List β) (h : ∀ a ∈ l, f a = g a) :
    l.flatMap f = l.flatMap g := by
  induction l with
  | nil => rfl
  | cons a l ih =>
    simp only [List.flatMap_cons]
    rw [h a (by simp), ih (fun b hb => h b (by simp [hb]))]

end DirectVerif.Sampler
