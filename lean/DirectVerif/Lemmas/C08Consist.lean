import DirectVerif.Lemmas.C08Static
/-!
# C08 helper lemmas — symbolic execution of the core of the pipeline

`ApplyMask → ComputeScalingFactor → Normalize → ComputeImage` executed on an arbitrary store: the
resulting masked k-space, normalised k-space, scaling factor and target as explicit expressions.
Generic in the scalar operations and the externals.
-/
set_option linter.unusedSimpArgs false
namespace DirectVerif.Pipeline
variable {K : Type} (S : Ops K) (X : Ext K) (m : Meta)

theorem exec_append (p q : List Instr) (s : Store K) :
    exec S X m (p ++ q) s = match exec S X m p s with
      | .ok s' => exec S X m q s'
      | .error e => .error e := by
  induction p generalizing s with
  | nil => rfl
  | cons i is ih =>
    simp only [List.cons_append, exec]
    cases execInstr S X m i s with
    | error e => rfl
    | ok s1 => exact ih s1

/-- the scaling factor `ComputeScalingFactor(normalize_key, percentile)` computes from tensor `v` -/
def sfVal (pct : Bool) (v : Val K) : Val K :=
  evalOp S X m (if pct then .kthModulus else .maxModulus) [v]

/-- `ComputeImage(type)` as a function of the k-space it reads and the sensitivity map in the sample -/
def reconVal (r : Recon) (k smap : Val K) : Val K :=
  let img := evalOp S X m (.lin .bwd) [k]
  match r with
  | .ifft => img
  | .complex => evalOp S X m .sumCoils [img]
  | .complexMod => evalOp S X m .modulus [evalOp S X m .sumCoils [img]]
  | .rss => evalOp S X m .rss [img]
  | .sense => evalOp S X m .senseCombine [smap, img]
  | .senseMod => evalOp S X m .modulus [evalOp S X m .senseCombine [smap, img]]

@[simp] theorem Store.set_same (s : Store K) (k : Key) (v : Option (Val K)) : (s.set k v) k = v := by
  simp [Store.set]

theorem Store.set_apply (s : Store K) (k k' : Key) (v : Option (Val K)) :
    (s.set k v) k' = if k' = k then v else s k' := rfl

theorem Store.set_ne (s : Store K) (k k' : Key) (v : Option (Val K)) (h : k' ≠ k) : (s.set k v) k' = s k' := by
  simp [Store.set, h]

/-- `ComputeImage` on a store holding k-space `k` under `kk` -/
theorem computeImage_exec (r : Recon) (s s' : Store K) (k : Val K) (hk : s .kspace = some k)
    (h : exec S X m (compile (.computeImage .kspace .target r)) s = .ok s') :
    s' .target = some (reconVal S X m r k ((s .sensitivityMap).getD Val.empty))
    ∧ ∀ k', k' ≠ .target → k' ≠ .t1 → s' k' = s k' := by
  cases r
  case sense =>
    cases hsm : s .sensitivityMap with
    | none => simp [compile, exec, execInstr, getAll, hk, Store.set, hsm] at h
    | some sm =>
      simp [compile, exec, execInstr, getAll, hk, Store.set, hsm] at h
      subst h
      refine ⟨by simp [reconVal, Store.set_apply], fun k' h1 h2 => by simp [Store.set_apply, h1, h2]⟩
  case senseMod =>
    cases hsm : s .sensitivityMap with
    | none => simp [compile, exec, execInstr, getAll, hk, Store.set, hsm] at h
    | some sm =>
      simp [compile, exec, execInstr, getAll, hk, Store.set, hsm] at h
      subst h
      refine ⟨by simp [reconVal, Store.set_apply], fun k' h1 h2 => by simp [Store.set_apply, h1, h2]⟩
  all_goals
    simp [compile, exec, execInstr, getAll, hk, Store.set] at h
    subst h
    refine ⟨by simp [reconVal, Store.set_apply], fun k' h1 h2 => by simp [Store.set_apply, h1, h2]⟩

/-- `ApplyMask → ComputeScalingFactor → Normalize` on a store holding the fully sampled k-space `k` and
the sampling mask `mk` -/
theorem core_exec (nk : Key) (pct : Bool) (s s' : Store K) (k mk : Val K)
    (hk : s .kspace = some k) (hm : s .samplingMask = some mk)
    (hnk : nk = .kspace ∨ nk = .maskedKspace ∨ nk = .bodyCoilImage)
    (h : exec S X m (program [.applyMask .samplingMask .kspace .maskedKspace,
                              .computeScalingFactor (.key nk) pct .scalingFactor,
                              .normalize .scalingFactor [.kspace, .maskedKspace]]) s = .ok s') :
    ∃ sf, s' .scalingFactor = some sf
      ∧ s' .kspace = some (evalOp S X m .safeDiv [sf, k])
      ∧ s' .maskedKspace = some (evalOp S X m .safeDiv [sf, evalOp S X m .applyMask [mk, k]])
      ∧ (∀ k', k' ≠ .kspace → k' ≠ .maskedKspace → k' ≠ .scalingFactor → s' k' = s k') := by
  rcases hnk with rfl | rfl | rfl
  · cases pct <;>
    · simp [program, compile, exec, execInstr, getAll, hk, hm, Store.set] at h
      subst h
      exact ⟨_, by simp [Store.set_apply]; rfl, by simp [Store.set_apply], by simp [Store.set_apply], fun k' h1 h2 h3 => by simp [Store.set_apply, h1, h2, h3]⟩
  · cases pct <;>
    · simp [program, compile, exec, execInstr, getAll, hk, hm, Store.set] at h
      subst h
      exact ⟨_, by simp [Store.set_apply]; rfl, by simp [Store.set_apply], by simp [Store.set_apply], fun k' h1 h2 h3 => by simp [Store.set_apply, h1, h2, h3]⟩
  · cases hb : s .bodyCoilImage with
    | none => cases pct <;> simp [program, compile, exec, execInstr, getAll, hk, hm, Store.set, hb] at h
    | some b =>
      cases pct <;>
      · simp [program, compile, exec, execInstr, getAll, hk, hm, Store.set, hb] at h
        subst h
        exact ⟨_, by simp [Store.set_apply]; rfl, by simp [Store.set_apply], by simp [Store.set_apply], fun k' h1 h2 h3 => by simp [Store.set_apply, h1, h2, h3]⟩

/-- the SSL tail up to (excluding) the second `ComputeImage`: split, delete, rename, delete -/
theorem ssl_split_exec (ty : Split) (ka : Bool) (seed : Option (List SeedField)) (s s' : Store K) (mkn mk : Val K)
    (hmk : s .maskedKspace = some mkn) (hm : s .samplingMask = some mk)
    (h : exec S X m (program [.maskSplitter ty ka seed .maskedKspace, .deleteKeys [.acsMask],
                              .renameKeys [.inputMaskedKspace, .targetMaskedKspace] [.inputKspace, .kspace],
                              .deleteKeys [.maskedKspace, .samplingMask]]) s = .ok s') :
    ∃ im tm, s' .inputSamplingMask = some im ∧ s' .targetSamplingMask = some tm
      ∧ s' .inputKspace = some (evalOp S X m .applyMask [im, mkn])
      ∧ s' .kspace = some (evalOp S X m .applyMask [tm, mkn])
      ∧ s' .maskedKspace = none ∧ s' .samplingMask = none
      ∧ s' .scalingFactor = s .scalingFactor ∧ s' .sensitivityMap = s .sensitivityMap := by
  cases ka
  · simp [program, compile, exec, execInstr, getAll, hmk, hm, Store.set, Key.prefixed] at h
    subst h
    exact ⟨_, _, by simp [Store.set_apply]; rfl, by simp [Store.set_apply]; rfl, by simp [Store.set_apply],
      by simp [Store.set_apply], by simp [Store.set_apply], by simp [Store.set_apply], by simp [Store.set_apply],
      by simp [Store.set_apply]⟩
  · cases ha : s .acsMask with
    | none => simp [program, compile, exec, execInstr, getAll, hmk, hm, Store.set, Key.prefixed, ha] at h
    | some a =>
      simp [program, compile, exec, execInstr, getAll, hmk, hm, Store.set, Key.prefixed, ha] at h
      subst h
      exact ⟨_, _, by simp [Store.set_apply]; rfl, by simp [Store.set_apply]; rfl, by simp [Store.set_apply],
        by simp [Store.set_apply], by simp [Store.set_apply], by simp [Store.set_apply], by simp [Store.set_apply],
        by simp [Store.set_apply]⟩

/-! ## the builder, split at the core -/

/-- everything before `ApplyMask` -/
def preStages (c : Config) : List Stage :=
  [.toTensor]
  ++ opt (c.crop != .none) [.cropKspace c.imageCenterCrop c.useSeed]
  ++ opt c.rescale [.rescaleKspace .kspace]
  ++ opt c.pad [.padKspace .kspace]
  ++ opt c.rotation [.randomRotation]
  ++ opt c.flip [.randomFlip]
  ++ opt c.reverse [.randomReverse]
  ++ opt c.paddingEps [.computeZeroPadding .kspace .padding thrCurrent, .applyZeroPadding .kspace .padding]
  ++ opt c.maskFunc [.createSamplingMask (c.crop == .tuple) (seedOf c.useSeed [.filename]) c.estimateSmaps]
  ++ opt c.compressCoils [.compressCoil .kspace]
  ++ opt c.padCoils [.padCoilDimension .kspace]
  ++ opt (c.bodyCoil && c.maskFunc) [.estimateBodyCoilImage (seedOf c.useSeed [.filename])]
  ++ opt c.estimateSmaps [.estimateSensitivityMap .kspace c.smapType c.smapGaussian]
  ++ opt (if !c.ssl then c.deleteAcsMask else false) [.deleteKeys [.acsMask]]

def coreStages (c : Config) : List Stage :=
  [.applyMask .samplingMask .kspace .maskedKspace,
   .computeScalingFactor c.scalingKey c.percentile .scalingFactor,
   .normalize .scalingFactor [.kspace, .maskedKspace]]

def sslTail (c : Config) : List Stage :=
  [.maskSplitter c.split c.splitKeepAcs (seedOf c.useSeed [.filename, .sliceNo]) .maskedKspace,
   .deleteKeys [.acsMask],
   .renameKeys [.inputMaskedKspace, .targetMaskedKspace] [.inputKspace, .kspace],
   .deleteKeys [.maskedKspace, .samplingMask]]

theorem build_split (c : Config) :
    build c = preStages c ++ (coreStages c ++ ([.computeImage .kspace .target c.recon]
      ++ (opt (if !c.ssl then c.deleteKspace else false) [.deleteKeys [.kspace]]
      ++ ([.addBooleanKeys] ++ opt c.ssl (sslTail c ++ [.computeImage .kspace .target c.recon]))))) := by
  simp [build, buildSupervised, preStages, coreStages, sslTail, List.append_assoc]

/-- state after the core of the pipeline, for every valid configuration: there is a fully sampled
(pre-processed) k-space `kfull` and a sampling mask such that … -/
theorem core_state (c : Config) (hv : c.valid = true) (x : Val K) (s2 : Store K)
    (h : exec S X m (program (preStages c ++ (coreStages c ++ [.computeImage .kspace .target c.recon])))
          (fun k => if k = .kspace then some x else none) = .ok s2) :
    ∃ kfull mask sf, s2 .samplingMask = some mask ∧ s2 .scalingFactor = some sf
      ∧ s2 .kspace = some (evalOp S X m .safeDiv [sf, kfull])
      ∧ s2 .maskedKspace = some (evalOp S X m .safeDiv [sf, evalOp S X m .applyMask [mask, kfull]])
      ∧ s2 .target = some (reconVal S X m c.recon (evalOp S X m .safeDiv [sf, kfull])
                            ((s2 .sensitivityMap).getD Val.empty)) := by
  have hsk : ∃ nk, c.scalingKey = .key nk ∧ (nk = .kspace ∨ nk = .maskedKspace ∨ nk = .bodyCoilImage) := by
    simp only [Config.valid, Bool.and_eq_true, Bool.or_eq_true, beq_iff_eq] at hv
    rcases hv.1.1.1.2 with h | h
    · exact ⟨_, h, Or.inr (Or.inl rfl)⟩
    · exact ⟨_, h, Or.inl rfl⟩
  obtain ⟨nk, hnk, hnk'⟩ := hsk
  rw [program_append, program_append, exec_append] at h
  cases h0 : exec S X m (program (preStages c)) (fun k => if k = .kspace then some x else none) with
  | error e => simp [h0] at h
  | ok s0 =>
    simp only [h0] at h
    rw [exec_append] at h
    cases h1 : exec S X m (program (coreStages c)) s0 with
    | error e => simp [h1] at h
    | ok s1 =>
      simp only [h1] at h
      cases hk : s0 .kspace with
      | none => simp [coreStages, program, compile, exec, execInstr, hk] at h1
      | some kfull =>
        cases hm : s0 .samplingMask with
        | none => simp [coreStages, program, compile, exec, execInstr, hk, hm] at h1
        | some mask =>
          simp only [coreStages, hnk] at h1
          obtain ⟨sf, a1, a2, a3, a4⟩ := core_exec S X m nk c.percentile s0 s1 kfull mask hk hm hnk' h1
          have h' : exec S X m (compile (.computeImage .kspace .target c.recon)) s1 = .ok s2 := by
            simpa [program] using h
          obtain ⟨b1, b2⟩ := computeImage_exec S X m c.recon s1 s2 _ a2 h'
          refine ⟨kfull, mask, sf, ?_, ?_, ?_, ?_, ?_⟩
          · rw [b2 _ (by decide) (by decide), a4 _ (by decide) (by decide) (by decide), hm]
          · rw [b2 _ (by decide) (by decide), a1]
          · rw [b2 _ (by decide) (by decide), a2]
          · rw [b2 _ (by decide) (by decide), a3]
          · rw [b1, b2 .sensitivityMap (by decide) (by decide)]

theorem run_split (c : Config) (x : Val K) :
    run S X m (build c) x =
      match exec S X m (program (preStages c ++ (coreStages c ++ [.computeImage .kspace .target c.recon])))
              (fun k => if k = .kspace then some x else none) with
      | .ok s2 => exec S X m (program (opt (if !c.ssl then c.deleteKspace else false) [.deleteKeys [.kspace]]
                    ++ ([.addBooleanKeys] ++ opt c.ssl (sslTail c ++ [.computeImage .kspace .target c.recon])))) s2
      | .error e => .error e := by
  unfold run
  rw [build_split]
  have : preStages c ++ (coreStages c ++ ([Stage.computeImage .kspace .target c.recon]
      ++ (opt (if !c.ssl then c.deleteKspace else false) [.deleteKeys [.kspace]]
      ++ ([.addBooleanKeys] ++ opt c.ssl (sslTail c ++ [.computeImage .kspace .target c.recon])))))
      = (preStages c ++ (coreStages c ++ [.computeImage .kspace .target c.recon]))
        ++ (opt (if !c.ssl then c.deleteKspace else false) [.deleteKeys [.kspace]]
      ++ ([.addBooleanKeys] ++ opt c.ssl (sslTail c ++ [.computeImage .kspace .target c.recon]))) := by
    simp [List.append_assoc]
  rw [this, program_append, exec_append]

/-- **supervised pipeline, every valid configuration**: the outputs in terms of the fully sampled
pre-processed k-space `kfull`, the sampling mask and the reported scaling factor -/
theorem sup_final (c : Config) (hv : c.valid = true) (hssl : c.ssl = false) (x : Val K) (out : Store K)
    (h : run S X m (build c) x = .ok out) :
    ∃ kfull mask sf, out .samplingMask = some mask ∧ out .scalingFactor = some sf
      ∧ out .maskedKspace = some (evalOp S X m .safeDiv [sf, evalOp S X m .applyMask [mask, kfull]])
      ∧ out .target = some (reconVal S X m c.recon (evalOp S X m .safeDiv [sf, kfull])
                              ((out .sensitivityMap).getD Val.empty))
      ∧ (out .kspace = some (evalOp S X m .safeDiv [sf, kfull]) ∨ (c.deleteKspace = true ∧ out .kspace = none)) := by
  rw [run_split] at h
  cases h2 : exec S X m (program (preStages c ++ (coreStages c ++ [.computeImage .kspace .target c.recon])))
              (fun k => if k = .kspace then some x else none) with
  | error e => simp [h2] at h
  | ok s2 =>
    obtain ⟨kfull, mask, sf, a1, a2, a3, a4, a5⟩ := core_state S X m c hv x s2 h2
    simp only [h2, hssl] at h
    cases hdk : c.deleteKspace
    · simp [hdk, opt, program, compile, exec] at h
      subst h
      exact ⟨kfull, mask, sf, a1, a2, a4, a5, Or.inl a3⟩
    · simp [hdk, opt, program, compile, exec, execInstr] at h
      subst h
      refine ⟨kfull, mask, sf, ?_, ?_, ?_, ?_, Or.inr ⟨rfl, by simp [Store.set_apply]⟩⟩
      · simpa [Store.set_apply] using a1
      · simpa [Store.set_apply] using a2
      · simpa [Store.set_apply] using a4
      · simpa [Store.set_apply] using a5

/-- **SSL pipeline, every valid configuration** -/
theorem ssl_final (c : Config) (hv : c.valid = true) (hssl : c.ssl = true) (x : Val K) (out : Store K)
    (h : run S X m (build c) x = .ok out) :
    ∃ kfull mask sf im tm, out .scalingFactor = some sf
      ∧ out .inputSamplingMask = some im ∧ out .targetSamplingMask = some tm
      ∧ out .inputKspace = some (evalOp S X m .applyMask
            [im, evalOp S X m .safeDiv [sf, evalOp S X m .applyMask [mask, kfull]]])
      ∧ out .kspace = some (evalOp S X m .applyMask
            [tm, evalOp S X m .safeDiv [sf, evalOp S X m .applyMask [mask, kfull]]])
      ∧ out .target = some (reconVal S X m c.recon
            (evalOp S X m .applyMask [tm, evalOp S X m .safeDiv [sf, evalOp S X m .applyMask [mask, kfull]]])
            ((out .sensitivityMap).getD Val.empty)) := by
  rw [run_split] at h
  cases h2 : exec S X m (program (preStages c ++ (coreStages c ++ [.computeImage .kspace .target c.recon])))
              (fun k => if k = .kspace then some x else none) with
  | error e => simp [h2] at h
  | ok s2 =>
    obtain ⟨kfull, mask, sf, a1, a2, a3, a4, a5⟩ := core_state S X m c hv x s2 h2
    simp only [h2, hssl] at h
    have h' : exec S X m (program (sslTail c ++ [.computeImage .kspace .target c.recon])) s2 = .ok out := by
      simpa [opt, program, compile, exec] using h
    rw [program_append, exec_append] at h'
    cases h3 : exec S X m (program (sslTail c)) s2 with
    | error e => simp [h3] at h'
    | ok s3 =>
      simp only [h3] at h'
      obtain ⟨im, tm, b1, b2, b3, b4, _, _, b7, b8⟩ :=
        ssl_split_exec S X m c.split c.splitKeepAcs _ s2 s3 _ mask a4 a1 (by simpa [sslTail] using h3)
      have h'' : exec S X m (compile (.computeImage .kspace .target c.recon)) s3 = .ok out := by
        simpa [program] using h'
      obtain ⟨d1, d2⟩ := computeImage_exec S X m c.recon s3 out _ b4 h''
      refine ⟨kfull, mask, sf, im, tm, ?_, ?_, ?_, ?_, ?_, ?_⟩
      · rw [d2 _ (by decide) (by decide), b7, a2]
      · rw [d2 _ (by decide) (by decide), b1]
      · rw [d2 _ (by decide) (by decide), b2]
      · rw [d2 _ (by decide) (by decide), b3]
      · rw [d2 _ (by decide) (by decide), b4]
      · rw [d1, d2 .sensitivityMap (by decide) (by decide)]

end DirectVerif.Pipeline
