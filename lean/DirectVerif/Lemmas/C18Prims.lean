import DirectVerif.Model.BatchSep
/-!
# C18 helper lemmas — operations along an axis, permutes as adjacent swaps, `batch * coil` folds

Core-only (no Mathlib).  The statements used by `Props/C18.lean`:
* an operation along any axis other than 0 of the batch tensor is a per-sample map (`batchedAlong_succ`);
* insertion-sorting an axis permutation whose first entry is 0 never swaps position 0 (`sortSwaps_swaps_pos`);
* `unmergeBC (mergeBC xs) = xs`, the index arithmetic of the fold, and the fold / map / un-fold of `MultiCoil`.
-/
namespace DirectVerif.C18
open DirectVerif DirectVerif.BatchSep

/-! ## separability (basic closure) -/

theorem sep_map {α β : Type} (g : α → β) : Separable (List.map g) := ⟨g, fun _ => rfl⟩

theorem sep_id {α : Type} : Separable (fun xs : List α => xs) := ⟨id, fun xs => (List.map_id xs).symm⟩

theorem sep_comp {α β γ : Type} {f : List α → List β} {g : List β → List γ}
    (hf : Separable f) (hg : Separable g) : Separable (fun xs => g (f xs)) := by
  obtain ⟨f₁, hf⟩ := hf
  obtain ⟨g₁, hg⟩ := hg
  exact ⟨g₁ ∘ f₁, fun xs => by simp [hf, hg]⟩

theorem sep_zipWith {α β γ δ : Type} {f : List α → List β} {g : List α → List γ} (op : β → γ → δ)
    (hf : Separable f) (hg : Separable g) : Separable (fun xs => List.zipWith op (f xs) (g xs)) := by
  obtain ⟨f₁, hf⟩ := hf
  obtain ⟨g₁, hg⟩ := hg
  refine ⟨fun a => op (f₁ a) (g₁ a), fun xs => ?_⟩
  simp only [hf, hg]
  induction xs with
  | nil => rfl
  | cons a xs ih => simp [ih]

theorem sep_foldl {α : Type} {ι : Type} (step : ι → List α → List α) (is : List ι) (h : ∀ i ∈ is, Separable (step i)) :
    Separable (fun b => is.foldl (fun b i => step i b) b) := by
  induction is with
  | nil => exact sep_id
  | cons i is ih =>
    have h1 := h i (by simp)
    have h2 := ih fun j hj => h j (by simp [hj])
    exact sep_comp h1 h2

/-! ## operations along an axis -/

theorem batchedAlong_succ (g : NT → NT) (d : Nat) : batchedAlong g (d + 1) = List.map (mapAt g d) := by
  funext batch
  simp [batchedAlong, mapAt, unbatch]

theorem along_separable (g : NT → NT) (d : Nat) (hd : 1 ≤ d) : Separable (batchedAlong g d) := by
  obtain ⟨k, rfl⟩ : ∃ k, d = k + 1 := ⟨d - 1, by omega⟩
  rw [batchedAlong_succ]
  exact sep_map _

theorem foldl_along_separable (g : NT → NT) (ds : List Nat) (h : ∀ d ∈ ds, 1 ≤ d) :
    Separable (fun b => ds.foldl (fun b d => batchedAlong g d b) b) :=
  sep_foldl (fun d => batchedAlong g d) ds fun d hd => along_separable g d (h d hd)

/-- the old single-axis reduction is the instance "combine the children" -/
theorem reduceAt_eq_mapAt (comb : List NT → NT) (d : Nat) (t : NT) :
    reduceAt comb d t = mapAt (fun t => match t with | .node xs => comb xs | t => t) d t := by
  induction d generalizing t with
  | zero => cases t <;> rfl
  | succ d ih =>
    cases t with
    | leaf v => rfl
    | node xs =>
      simp only [reduceAt, mapAt, NT.node.injEq]
      exact List.map_congr_left fun x _ => ih x

/-! ## permutes -/

theorem insertSwaps_zero (s : List Nat) (off : Nat) : insertSwaps 0 s off = [] := by
  cases s <;> simp [insertSwaps]

theorem sortSwaps_head_zero (rest : List Nat) : (sortSwaps (0 :: rest)).2 = (sortSwaps rest).2.map (· + 1) := by
  simp [sortSwaps, insertSwaps_zero]

/-- with the batch axis first in the permutation, no swap touches position 0 -/
theorem sortSwaps_swaps_pos (perm : List Nat) (h : perm.head? = some 0) : ∀ d ∈ (sortSwaps perm).2, 1 ≤ d := by
  cases perm with
  | nil => simp at h
  | cons a rest =>
    simp only [List.head?_cons, Option.some.injEq] at h
    subst h
    rw [sortSwaps_head_zero]
    intro d hd
    obtain ⟨k, _, rfl⟩ := List.mem_map.mp hd
    omega

theorem swapAt_node (d : Nat) (b : List NT) : swapAt d (.node b) = .node (batchedAlong transpose01 d b) := by
  cases d with
  | zero => simp [swapAt, mapAt, batchedAlong, transpose01, unbatch]
  | succ d => simp [swapAt, mapAt, batchedAlong, unbatch]

/-- permuting the whole batch tensor and viewing it as a batch again is the batched permute -/
theorem permuteNT_node (perm : List Nat) (b : List NT) : permuteNT perm (.node b) = .node (batchedPermute perm b) := by
  unfold permuteNT batchedPermute
  generalize (sortSwaps perm).2.reverse = ds
  induction ds generalizing b with
  | nil => rfl
  | cons d ds ih => simp only [List.foldl_cons, swapAt_node, ih]

/-! ## concatenation along an axis -/

theorem batchedCat_succ (d : Nat) (a b : List NT) : batchedCat (d + 1) a b = List.zipWith (catAt d) a b := by
  simp [batchedCat, catAt, unbatch]

theorem batchedCat_zero (a b : List NT) : batchedCat 0 a b = a ++ b := by
  simp [batchedCat, catAt, unbatch]

/-! ## `batch * coil` folds -/

theorem unmerge_merge {α : Type} (c : Nat) (xs : List (List α)) (h : ∀ x ∈ xs, x.length = c) :
    unmergeBC xs.length c (mergeBC xs) = xs := by
  induction xs with
  | nil => rfl
  | cons x xs ih =>
    have hx : x.length = c := h x (by simp)
    have ih' := ih fun y hy => h y (by simp [hy])
    unfold unmergeBC mergeBC at *
    rw [List.length_cons, List.range_succ_eq_map, List.map_cons, List.map_map]
    simp only [List.flatten_cons, Nat.zero_mul, List.drop_zero, List.cons.injEq]
    refine ⟨by rw [← hx, List.take_left'] ; rfl, ?_⟩
    refine Eq.trans ?_ ih'
    apply List.map_congr_left
    intro n _
    simp only [Function.comp, Nat.succ_eq_add_one]
    have e : (n + 1) * c = x.length + n * c := by rw [hx, Nat.add_mul, Nat.one_mul, Nat.add_comm]
    rw [e, List.drop_append, List.drop_of_length_le (Nat.le_add_right _ _), Nat.add_sub_cancel_left, List.nil_append]

theorem mergeBC_map {α β : Type} (f : α → β) (xs : List (List α)) : (mergeBC xs).map f = mergeBC (xs.map (List.map f)) := by
  simp [mergeBC, List.map_flatten]

/-- **fold, apply a model row by row, un-fold = apply the model to every coil of every sample** -/
theorem multiCoilFold_eq {α β : Type} (f : α → β) (c : Nat) (xs : List (List α)) (h : ∀ x ∈ xs, x.length = c) :
    multiCoilFold f c xs = xs.map (List.map f) := by
  unfold multiCoilFold
  rw [mergeBC_map]
  have := unmerge_merge c (xs.map (List.map f)) (by
    intro y hy
    obtain ⟨x, hx, rfl⟩ := List.mem_map.mp hy
    simpa using h x hx)
  simpa using this

/-- row `r = n·c + j` (`j < c`) of the folded tensor belongs to sample `n = r / c`, coil `j = r % c` -/
theorem merged_row_owner (c n j : Nat) (hj : j < c) : (n * c + j) / c = n ∧ (n * c + j) % c = j := by
  have hc : 0 < c := by omega
  constructor
  · rw [Nat.mul_comm, Nat.mul_add_div hc, Nat.div_eq_of_lt hj, Nat.add_zero]
  · rw [Nat.mul_comm, Nat.mul_add_mod, Nat.mod_eq_of_lt hj]

/-- a reduction over the trailing `m` entries of folded row `r` reads flat positions `r·m … r·m + m − 1`, all inside the
block `[(r / c)·c·m, (r / c + 1)·c·m)` of sample `r / c` -/
theorem merged_reduce_within_sample (c m r i : Nat) (hc : 0 < c) (hi : i < m) :
    (r / c) * (c * m) ≤ r * m + i ∧ r * m + i < (r / c + 1) * (c * m) := by
  have h1 : r / c * c ≤ r := Nat.div_mul_le_self r c
  have h2 : r < (r / c + 1) * c := by
    have := Nat.lt_succ_iff.mpr (Nat.le_refl (r / c))
    exact (Nat.div_lt_iff_lt_mul hc).mp this
  constructor
  · calc r / c * (c * m) = (r / c * c) * m := by rw [Nat.mul_assoc]
      _ ≤ r * m := Nat.mul_le_mul_right m h1
      _ ≤ r * m + i := Nat.le_add_right _ _
  · calc r * m + i < r * m + m := Nat.add_lt_add_left hi _
      _ = (r + 1) * m := by rw [Nat.add_mul, Nat.one_mul]
      _ ≤ ((r / c + 1) * c) * m := Nat.mul_le_mul_right m h2
      _ = (r / c + 1) * (c * m) := by rw [Nat.mul_assoc]


/-! ## chunked sums -/

theorem cadd_zero' (a : G) : cadd (0, 0) a = a := by
  simp [cadd]

theorem cadd_assoc' (a b c : G) : cadd (cadd a b) c = cadd a (cadd b c) := by
  simp only [cadd]; exact Prod.ext (Int.add_assoc _ _ _) (Int.add_assoc _ _ _)

theorem csum_append (a b : List G) : csum (a ++ b) = cadd (csum a) (csum b) := by
  induction a with
  | nil => simp [csum, cadd_zero']
  | cons x a ih =>
    simp only [List.cons_append, csum, List.foldr_cons] at *
    rw [ih, cadd_assoc']

/-- the first `m` chunks of `k` entries sum to the sum of the first `m·k` entries -/
theorem chunkSum_eq_take (k m : Nat) (xs : List G) : chunkSum k m xs = csum (xs.take (m * k)) := by
  unfold chunkSum
  induction m with
  | zero => simp [csum]
  | succ m ih =>
    rw [List.range_succ, List.foldl_append, ih]
    simp only [List.foldl_cons, List.foldl_nil]
    rw [← csum_append, Nat.succ_mul, List.take_add]

end DirectVerif.C18
