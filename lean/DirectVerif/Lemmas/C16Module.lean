import DirectVerif.Lemmas.C16
import Mathlib.Algebra.Module.Defs
import Mathlib.Algebra.BigOperators.Group.Finset.Basic
import Mathlib.Algebra.Field.Rat
import Mathlib.Tactic.Abel
import Mathlib.Algebra.Module.Prod
import Mathlib.Algebra.BigOperators.Pi
/-!
# The loop machine over a ℚ-module of gradients (`div_(k)` = multiplication by `1/k`)
-/
namespace DirectVerif.Train
variable {P O G B L Sc : Type}

/-- gradients live in a module over ℚ; `add`/`zero`/`div_` are the module operations; model, loss
(`grad`), clipping and optimiser stay arbitrary -/
def moduleOps [AddCommGroup G] [Module ℚ G] (grad : P → B → G) (clip : G → G)
    (opt : L → P → O → G → P × O) (supd : Sc → Sc := fun s => s) : Ops P O G B L Sc :=
  { grad := grad, add := (· + ·), zero := 0, divk := fun k g => ((k : ℚ))⁻¹ • g, clip := clip, opt := opt, supd := supd }

/-- two parameter groups — `self.model` (gradients in `G`) and the additional models in `self.models` (gradients in
`H`), all in one optimiser, **as on the pinned tree**: `div_(gradient_steps)` applied to `self.model.parameters()` only -/
def moduleOps2Pinned {H : Type} [AddCommGroup G] [Module ℚ G] [AddCommGroup H] [Module ℚ H]
    (grad : P → B → G × H) (clip : G × H → G × H) (opt : L → P → O → G × H → P × O) (supd : Sc → Sc := fun s => s) :
    Ops P O (G × H) B L Sc :=
  { grad := grad, add := (· + ·), zero := 0, divk := fun k g => (((k : ℚ))⁻¹ • g.1, g.2), clip := clip, opt := opt,
    supd := supd }

/-- additive gradients only (for the conservation law) -/
def addOps [AddCommMonoid G] (grad : P → B → G) (divk : Nat → G → G) (clip : G → G)
    (opt : L → P → O → G → P × O) (supd : Sc → Sc := fun s => s) : Ops P O G B L Sc :=
  { grad := grad, add := (· + ·), zero := 0, divk := divk, clip := clip, opt := opt, supd := supd }

theorem windowSum_eq_sum [AddCommMonoid G] (ops : Ops P O G B L Sc) (hadd : ops.add = (· + ·))
    (batch : Nat → B) (θ : P) (it0 n : Nat) (g0 : G) :
    windowSum ops batch θ it0 n g0 = g0 + ∑ j ∈ Finset.range n, ops.grad θ (batch (it0 + j)) := by
  induction n with
  | zero => simp [windowSum]
  | succ n ih =>
    have : windowSum ops batch θ it0 (n + 1) g0
        = ops.add (windowSum ops batch θ it0 n g0) (ops.grad θ (batch (it0 + n))) := by
      simp [windowSum, List.range_succ, List.foldl_append]
    rw [this, ih, hadd, Finset.sum_range_succ]; simp only [add_assoc]

end DirectVerif.Train
