import DirectVerif.Model.Rng
/-!
# Helper lemmas for C05: under an admissible table the general semantics `interp` collapses to the
well-scoped reading `runIn` (reads only the seeded private stream; writes only libc / entropy).
-/
namespace DirectVerif.Rng
variable {σ Seed Req Val Out : Type}

theorem lookup_ok {t : Table} (ht : tableOk t = true) {i : Nat} (hi : i < t.length) :
    (lookup t i).ok = true := by
  unfold lookup
  rw [List.getD_eq_getElem?_getD, List.getElem?_eq_getElem hi]
  exact List.all_eq_true.mp ht _ (List.getElem_mem hi)

/-- an admissible site is `(priv, in scope)` or `(fresh, in scope)` -/
theorem ok_cases {s : Site} (h : s.ok = true) :
    (s.src = .priv ∧ s.inScope = true) ∨ (s.src = .fresh ∧ s.inScope = true) := by
  obtain ⟨src, sc⟩ := s
  cases src <;> cases sc <;> simp_all [Site.ok]

/-- **collapse**: with an admissible table the body touches nothing but the in-scope private
stream, libc and (when unseeded) OS entropy -/
theorem interp_ok (t : Table) (O : Ops σ Seed Req Val) (seed : Option Seed) (ht : tableOk t = true) :
    ∀ (prog : Prog Req Val Out), SitesIn t.length prog → ∀ (cur outer : σ) (st : State σ Val),
      interp t O seed prog cur outer st =
        ((runIn t O seed prog cur st.ent st.libc).out, outer,
          { st with ent := (runIn t O seed prog cur st.ent st.libc).ent,
                    libc := (runIn t O seed prog cur st.ent st.libc).libc }) := by
  intro prog
  induction prog with
  | ret o => intro _ cur outer st; rfl
  | draw site r k ih =>
    intro h cur outer st
    cases h with
    | draw hs hk =>
      rcases ok_cases (lookup_ok ht hs) with ⟨h1, h2⟩ | ⟨h1, h2⟩
      · rw [interp, runIn]
        simp only [h1, h2, if_true]
        rw [ih _ (hk _)]
      · rw [interp, runIn]
        simp only [h1, h2, effSeed, reduceCtorEq, if_false]
        rw [ih _ (hk _)]
  | reseed site k ih =>
    intro h cur outer st
    cases h with
    | reseed hs hk =>
      rcases ok_cases (lookup_ok ht hs) with ⟨h1, h2⟩ | ⟨h1, h2⟩
      · rw [interp, runIn]
        simp only [h1, h2, effSeed, if_true]
        rw [ih hk]
      · rw [interp, runIn]
        simp only [h1, effSeed, reduceCtorEq, if_false]
        rw [ih hk]
  | kernel v k ih =>
    intro h cur outer st
    cases h with
    | kernel hk => rw [interp, runIn, ih hk]

/-- the call under an admissible table, in closed form -/
theorem call_ok (t : Table) (O : Ops σ Seed Req Val) (seed : Option Seed) (ht : tableOk t = true)
    (prog : Prog Req Val Out) (hp : SitesIn t.length prog) (i : Nat) (st : State σ Val) :
    call t O prog seed i st =
      ((runIn t O seed prog (O.seedTo (effSeedE O seed st.ent).1) (effSeedE O seed st.ent).2 st.libc).out,
        ({ st with ent := (runIn t O seed prog (O.seedTo (effSeedE O seed st.ent).1) (effSeedE O seed st.ent).2 st.libc).ent,
                   libc := (runIn t O seed prog (O.seedTo (effSeedE O seed st.ent).1) (effSeedE O seed st.ent).2 st.libc).libc }
          : State σ Val).setPriv i (st.priv i)) := by
  show ((interp t O seed prog (O.seedTo (effSeed O seed st).1) (st.priv i) (effSeed O seed st).2).1,
        (interp t O seed prog (O.seedTo (effSeed O seed st).1) (st.priv i) (effSeed O seed st).2).2.2.setPriv i
          (interp t O seed prog (O.seedTo (effSeed O seed st).1) (st.priv i) (effSeed O seed st).2).2.1) = _
  rw [interp_ok t O seed ht prog hp]
  rfl

theorem setPriv_self (st : State σ Val) (i : Nat) : st.setPriv i (st.priv i) = st := by
  obtain ⟨p, a, b, c, d, e⟩ := st
  simp only [State.setPriv, State.mk.injEq, and_true]
  funext j
  by_cases h : j = i <;> simp [h]

/-- for a seeded call output, final stream and request trace do not depend on entropy / libc -/
theorem runIn_seeded (t : Table) (O : Ops σ Seed Req Val) (s : Seed) :
    ∀ (prog : Prog Req Val Out) (cur : σ) (e e' : Nat) (l l' : Option Val),
      (runIn t O (some s) prog cur e l).out = (runIn t O (some s) prog cur e' l').out ∧
      (runIn t O (some s) prog cur e l).cur = (runIn t O (some s) prog cur e' l').cur ∧
      (runIn t O (some s) prog cur e l).trace = (runIn t O (some s) prog cur e' l').trace ∧
      (runIn t O (some s) prog cur e l).ent = e := by
  intro prog
  induction prog with
  | ret o => intro cur e e' l l'; simp [runIn]
  | draw site r k ih =>
    intro cur e e' l l'
    by_cases h : (lookup t site).src = .priv
    · rw [runIn, runIn]
      simp only [h, if_true]
      have := ih (O.draw cur r).1 (O.draw cur r).2 e e' l l'
      simp [this]
    · rw [runIn, runIn]
      simp only [h, if_false, effSeedE]
      have := ih (O.draw (O.seedTo s) r).1 cur e e' l l'
      simp [this]
  | reseed site k ih =>
    intro cur e e' l l'
    by_cases h : (lookup t site).src = .priv
    · rw [runIn, runIn]; simp only [h, if_true, effSeedE]; exact ih _ e e' l l'
    · rw [runIn, runIn]; simp only [h, if_false, effSeedE]; exact ih _ e e' l l'
  | kernel v k ih =>
    intro cur e e' l l'
    rw [runIn, runIn]; exact ih _ e e' _ _

theorem run_append {G A : Type} (t : Table) (O : Ops σ Seed Req Val) (body : G → A → Prog Req Val Out) :
    ∀ (h : List (Op Seed Req G A)) (st : State σ Val) (ops : List (Op Seed Req G A)),
      run t O body st (h ++ ops) =
        ((run t O body (run t O body st h).1 ops).1,
          (run t O body st h).2 ++ (run t O body (run t O body st h).1 ops).2) := by
  intro h
  induction h with
  | nil => intro st ops; simp [run]
  | cons op h ih => intro st ops; simp only [List.cons_append, run, ih]

end DirectVerif.Rng
