import DirectVerif.Model.Rng
/-!
# Helper lemmas for C05: under an admissible table the general semantics `interp` collapses to the
well-scoped reading `runIn` (reads only the seeded private stream; writes only libc / entropy).
-/
namespace DirectVerif.Rng
variable {σ Seed Req Val Out : Type}

theorem lookup_ok {t : Table} (ht : tableOk t = true) {i : Nat} (hi : i < t.length) :
    (lookup t i).ok = true := by
  unfold lookup
  rw [List.getD_eq_getElem?_getD, List.getElem?_eq_getElem hi]
  exact List.all_eq_true.mp ht _ (List.getElem_mem hi)

/-- an admissible site is `(priv, in scope)` or `(fresh, in scope)` -/
theorem ok_cases {s : Site} (h : s.ok = true) :
    (s.src = .priv ∧ s.inScope = true) ∨ (s.src = .fresh ∧ s.inScope = true) := by
  obtain ⟨src, sc⟩ := s
  cases src <;> cases sc <;> simp_all [Site.ok]

/-- **collapse**: with an admissible table the body touches nothing but the in-scope private
stream, libc and (when unseeded) OS entropy -/
theorem interp_ok (t : Table) (O : Ops σ Seed Req Val) (seed : Option Seed) (ht : tableOk t = true) :
    ∀ (prog : Prog Req Val Out), SitesIn t.length prog → ∀ (cur outer : σ) (st : State σ Val),
      interp t O seed prog cur outer st =
        ((runIn t O seed prog cur st.ent st.libc).out, outer,
          { st with ent := (runIn t O seed prog cur st.ent st.libc).ent,
                    libc := (runIn t O seed prog cur st.ent st.libc).libc }) := by
  intro prog
  induction prog with
  | ret o => intro _ cur outer st; rfl
  | draw site r k ih =>
    intro h cur outer st
    cases h with
    | draw hs hk =>
      rcases ok_cases (lookup_ok ht hs) with ⟨h1, h2⟩ | ⟨h1, h2⟩
      · rw [interp, runIn]
        simp only [h1, h2, if_true]
        rw [ih _ (hk _)]
      · rw [interp, runIn]
        simp only [h1, h2, effSeed, reduceCtorEq, if_false]
        rw [ih _ (hk _)]
  | reseed site k ih =>
    intro h cur outer st
    cases h with
    | reseed hs hk =>
      rcases ok_cases (lookup_ok ht hs) with ⟨h1, h2⟩ | ⟨h1, h2⟩
      · rw [interp, runIn]
        simp only [h1, h2, effSeed, if_true]
        rw [ih hk]
      · rw [interp, runIn]
        simp only [h1, effSeed, reduceCtorEq, if_false]
        rw [ih hk]
  | srand v k ih =>
    intro h cur outer st
    cases h with
    | srand hk => rw [interp, runIn, ih hk]
  | crand r k ih =>
    intro h cur outer st
    cases h with
    | crand hk => rw [interp, runIn, ih _ (hk _)]

/-- the call under an admissible table, in closed form -/
theorem call_ok (t : Table) (O : Ops σ Seed Req Val) (seed : Option Seed) (ht : tableOk t = true)
    (prog : Prog Req Val Out) (hp : SitesIn t.length prog) (i : Nat) (st : State σ Val) :
    call t O prog seed i st =
      ((runIn t O seed prog (O.seedTo (effSeedE O seed st.ent).1) (effSeedE O seed st.ent).2 st.libc).out,
        ({ st with ent := (runIn t O seed prog (O.seedTo (effSeedE O seed st.ent).1) (effSeedE O seed st.ent).2 st.libc).ent,
                   libc := (runIn t O seed prog (O.seedTo (effSeedE O seed st.ent).1) (effSeedE O seed st.ent).2 st.libc).libc }
          : State σ Val).setPriv i (st.priv i)) := by
  show ((interp t O seed prog (O.seedTo (effSeed O seed st).1) (st.priv i) (effSeed O seed st).2).1,
        (interp t O seed prog (O.seedTo (effSeed O seed st).1) (st.priv i) (effSeed O seed st).2).2.2.setPriv i
          (interp t O seed prog (O.seedTo (effSeed O seed st).1) (st.priv i) (effSeed O seed st).2).2.1) = _
  rw [interp_ok t O seed ht prog hp]
  rfl

theorem setPriv_self (st : State σ Val) (i : Nat) : st.setPriv i (st.priv i) = st := by
  obtain ⟨p, a, b, c, d, e⟩ := st
  simp only [State.setPriv, State.mk.injEq, and_true]
  funext j
  by_cases h : j = i <;> simp [h]

/-- for a seeded call whose body keeps the libc discipline (`LibcOk`: no `rand()` loop before an `srand` of the
same call) output, final private stream and request trace do not depend on the OS entropy counter nor on the
state libc was in; and libc afterwards is either untouched or in a state that does not depend on where it was -/
theorem runIn_seeded (t : Table) (O : Ops σ Seed Req Val) (s : Seed) :
    ∀ (prog : Prog Req Val Out) (b : Bool), LibcOk b prog → ∀ (cur : σ) (e e' : Nat) (l l' : σ),
      (b = true → l = l') →
      (runIn t O (some s) prog cur e l).out = (runIn t O (some s) prog cur e' l').out ∧
      (runIn t O (some s) prog cur e l).cur = (runIn t O (some s) prog cur e' l').cur ∧
      (runIn t O (some s) prog cur e l).trace = (runIn t O (some s) prog cur e' l').trace ∧
      (runIn t O (some s) prog cur e l).ent = e ∧
      (((runIn t O (some s) prog cur e l).libc = l ∧ (runIn t O (some s) prog cur e' l').libc = l') ∨
        (runIn t O (some s) prog cur e l).libc = (runIn t O (some s) prog cur e' l').libc) := by
  intro prog b h
  induction h with
  | ret o => intro cur e e' l l' _; simp [runIn]
  | @draw b site r k _ ih =>
    intro cur e e' l l' hl
    by_cases h : (lookup t site).src = .priv
    · rw [runIn, runIn]
      simp only [h, if_true]
      have := ih (O.draw cur r).1 (O.draw cur r).2 e e' l l' hl
      simp [this]
    · rw [runIn, runIn]
      simp only [h, if_false, effSeedE]
      have := ih (O.draw (O.seedTo s) r).1 cur e e' l l' hl
      simp [this]
  | @reseed b site k _ ih =>
    intro cur e e' l l' hl
    by_cases h : (lookup t site).src = .priv
    · rw [runIn, runIn]; simp only [h, if_true, effSeedE]; exact ih _ e e' l l' hl
    · rw [runIn, runIn]; simp only [h, if_false, effSeedE]; exact ih _ e e' l l' hl
  | @srand b v k _ ih =>
    intro cur e e' l l' _
    rw [runIn, runIn]
    obtain ⟨h1, h2, h3, h4, h5⟩ := ih cur e e' (O.srandTo v) (O.srandTo v) (fun _ => rfl)
    refine ⟨h1, h2, h3, h4, Or.inr ?_⟩
    rcases h5 with ⟨ha, hb⟩ | h
    · rw [ha, hb]
    · exact h
  | @crand r k _ ih =>
    intro cur e e' l l' hl
    have hll : l = l' := hl rfl
    subst hll
    rw [runIn, runIn]
    obtain ⟨h1, h2, h3, h4, h5⟩ := ih (O.draw l r).1 cur e e' (O.draw l r).2 (O.draw l r).2 (fun _ => rfl)
    refine ⟨h1, h2, h3, h4, Or.inr ?_⟩
    rcases h5 with ⟨ha, hb⟩ | h
    · rw [ha, hb]
    · exact h

/-- a body without kernel runs leaves libc where it was (seeded or not) -/
theorem runIn_noLibc (t : Table) (O : Ops σ Seed Req Val) (seed : Option Seed) :
    ∀ (prog : Prog Req Val Out), NoLibc prog → ∀ (cur : σ) (e : Nat) (l : σ),
      (runIn t O seed prog cur e l).libc = l := by
  intro prog h
  induction h with
  | ret o => intro cur e l; rfl
  | @draw site r k _ ih =>
    intro cur e l
    by_cases h : (lookup t site).src = .priv
    · rw [runIn]; simp only [h, if_true]; exact ih _ _ _ _
    · rw [runIn]; simp only [h, if_false]; exact ih _ _ _ _
  | @reseed site k _ ih =>
    intro cur e l
    by_cases h : (lookup t site).src = .priv
    · rw [runIn]; simp only [h, if_true]; exact ih _ _ _
    · rw [runIn]; simp only [h, if_false]; exact ih _ _ _

/-- a body that never touches libc keeps the discipline trivially -/
theorem NoLibc.libcOk {prog : Prog Req Val Out} (h : NoLibc prog) (b : Bool) : LibcOk b prog := by
  induction h with
  | ret o => exact .ret o
  | draw _ ih => exact .draw ih
  | reseed _ ih => exact .reseed ih

/-- the discipline is monotone in the flag -/
theorem LibcOk.mono {prog : Prog Req Val Out} {b : Bool} (h : LibcOk b prog) : LibcOk true prog := by
  induction h with
  | ret o => exact .ret o
  | draw _ ih => exact .draw ih
  | reseed _ ih => exact .reseed ih
  | srand hk _ => exact .srand hk
  | crand hk _ => exact .crand hk

theorem run_append {G A : Type} (t : Table) (O : Ops σ Seed Req Val) (body : G → A → Prog Req Val Out) :
    ∀ (h : List (Op Seed Req G A)) (st : State σ Val) (ops : List (Op Seed Req G A)),
      run t O body st (h ++ ops) =
        ((run t O body (run t O body st h).1 ops).1,
          (run t O body st h).2 ++ (run t O body (run t O body st h).1 ops).2) := by
  intro h
  induction h with
  | nil => intro st ops; simp [run]
  | cons op h ih => intro st ops; simp only [List.cons_append, run, ih]

end DirectVerif.Rng
