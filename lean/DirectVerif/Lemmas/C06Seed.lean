import DirectVerif.Lemmas.C06Assemble
import DirectVerif.Model.C06Seed
/-!
Helper lemmas for the object machine of `Model/C06Seed.lean`: with the seed handed on unchanged and nothing
remembered, a request is a function of its arguments, whatever the object has served before.
-/
namespace DirectVerif.C06Seed
open DirectVerif DirectVerif.MaskGeom

variable {σ Seed : Type}

/-- one request on the code as it is: the fresh-object answer, and the object is exactly as before -/
theorem call_eq (ops : RngOps σ Seed) (cfg : Cfg σ) (o : Obj σ) (c : Call Seed) :
    call ops cfg o c = (oneShot ops cfg c, o) := by
  unfold call callWith oneShot seededState
  cases c.returnAcs <;> rfl

theorem runWith_nil (a : SeedArg) (p : MemoPolicy) (ops : RngOps σ Seed) (cfg : Cfg σ) (o : Obj σ) :
    runWith a p ops cfg o [] = ([], o) := rfl

theorem runWith_cons (a : SeedArg) (p : MemoPolicy) (ops : RngOps σ Seed) (cfg : Cfg σ) (o : Obj σ)
    (c : Call Seed) (cs : List (Call Seed)) :
    runWith a p ops cfg o (c :: cs) =
      ((callWith a p ops cfg o c).1 :: (runWith a p ops cfg (callWith a p ops cfg o c).2 cs).1,
       (runWith a p ops cfg (callWith a p ops cfg o c).2 cs).2) := rfl

/-- a whole history: every answer is the fresh-object answer; the object ends as it began -/
theorem run_eq (ops : RngOps σ Seed) (cfg : Cfg σ) (o : Obj σ) (cs : List (Call Seed)) :
    run ops cfg o cs = (cs.map (oneShot ops cfg), o) := by
  induction cs generalizing o with
  | nil => rfl
  | cons c cs ih =>
    unfold run at ih ⊢
    rw [runWith_cons]
    have hc : callWith .unchanged .none ops cfg o c = (oneShot ops cfg c, o) := call_eq ops cfg o c
    rw [hc]
    simp only [ih o, List.map_cons]

theorem lastAnswer_append (ops : RngOps σ Seed) (cfg : Cfg σ) (o : Obj σ) (h : List (Call Seed)) (c : Call Seed) :
    lastAnswer .unchanged .none ops cfg o (h ++ [c]) = some (oneShot ops cfg c) := by
  have := run_eq ops cfg o (h ++ [c])
  unfold run at this
  unfold lastAnswer
  rw [this]
  simp

end DirectVerif.C06Seed
