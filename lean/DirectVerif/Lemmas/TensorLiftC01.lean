import DirectVerif.Lemmas.TensorLift
import DirectVerif.Props.C01
/-!
# n-D corollaries of the 1-D C01 property theorems

The drivers execute n-D operations as `Tensor.alongAxis` applications of the 1-D list models; the
lifting laws of `Lemmas/TensorLift.lean` (proved for the very `alongAxis` the drivers run) turn the
1-D theorems of `Props/C01.lean` into statements about whole tensors.
-/
namespace DirectVerif.TensorLift
open DirectVerif DirectVerif.Tensor
variable {α : Type} [Inhabited α]

/-- **C01, n-D (one axis)**: `fftshift ∘ ifftshift = id` along any axis of a well-formed tensor -/
theorem fftshift_ifftshift_id_nd (t : Tensor α) (a : Nat)
    (hwf : t.data.length = prod t.shape) (ha : a < t.shape.length) :
    (t.alongAxis a Shift.ifftshift1).alongAxis a Shift.fftshift1 = t :=
  alongAxis_cancel t a _ _ (t.shape.getD a 1) hwf ha
    (fun xs hxs => by rw [C01.ifftshift1_length, hxs]) (fun xs hxs => by rw [C01.fftshift1_length, hxs])
    (fun xs _ => C01.fftshift_ifftshift_id xs)

theorem ifftshift_fftshift_id_nd (t : Tensor α) (a : Nat)
    (hwf : t.data.length = prod t.shape) (ha : a < t.shape.length) :
    (t.alongAxis a Shift.fftshift1).alongAxis a Shift.ifftshift1 = t :=
  alongAxis_cancel t a _ _ (t.shape.getD a 1) hwf ha
    (fun xs hxs => by rw [C01.fftshift1_length, hxs]) (fun xs hxs => by rw [C01.ifftshift1_length, hxs])
    (fun xs _ => C01.ifftshift_fftshift_id xs)

/-- liftings of two *arbitrary* length-preserving functions along different axes do **not** commute
(so `alongAxis_comm_gather` needs a hypothesis of its kind): scaling every column by its first entry
and shifting every row by its first entry, on a 2×2 tensor. -/
theorem alongAxis_comm_fails_in_general :
    ∃ (t : Tensor Nat) (f g : List Nat → List Nat), LenUniform f 2 2 ∧ LenUniform g 2 2 ∧
      (t.alongAxis 0 f).alongAxis 1 g ≠ (t.alongAxis 1 g).alongAxis 0 f := by
  refine ⟨⟨[2, 2], [1, 2, 3, 4]⟩, fun xs => xs.map (· * xs.headD 0), fun xs => xs.map (· + xs.headD 0),
    fun xs h => by simpa using h, fun xs h => by simpa using h, ?_⟩
  simp only [alongAxis_eq_alongAxisL]
  decide

/-- `roll_one_dim` is an index gather (no fill) on lists of every length `n` -/
theorem rollOne_isGather (s : Int) (n : Nat) (c : α) :
    IsGather (Shift.rollOne s) n n (fun k => some ((k + n - (s % (n : Int)).toNat) % n)) c := by
  apply IsGather.of_getElem? (fun k => (k + n - (s % (n : Int)).toNat) % n) c
  · intro xs hxs; rw [C01.rollOne_length, hxs]
  · intro k hk; exact Nat.mod_lt _ (by omega)
  · intro xs hxs k hk
    subst hxs
    exact C01.rollOne_getElem? s xs k hk

theorem fftshift1_isGather (n : Nat) (c : α) :
    IsGather Shift.fftshift1 n n
      (fun k => some ((k + n - (Shift.fftshiftAmount n % (n : Int)).toNat) % n)) c :=
  (rollOne_isGather (Shift.fftshiftAmount n) n c).congr (fun xs hxs => by rw [Shift.fftshift1, hxs])

theorem ifftshift1_isGather (n : Nat) (c : α) :
    IsGather Shift.ifftshift1 n n
      (fun k => some ((k + n - (Shift.ifftshiftAmount n % (n : Int)).toNat) % n)) c :=
  (rollOne_isGather (Shift.ifftshiftAmount n) n c).congr (fun xs hxs => by rw [Shift.ifftshift1, hxs])

/-- **C01, n-D**: a roll along axis `a` commutes with *any* length-uniform per-axis operation `g`
(another roll, a shift, a 1-D transform …) along a different axis `b` -/
theorem roll_comm_nd (t : Tensor α) (a b : Nat) (s : Int) (g : List α → List α) (mb : Nat)
    (hne : a ≠ b) (ha : a < t.shape.length) (hb : b < t.shape.length)
    (hg : LenUniform g (t.shape.getD b 1) mb) :
    (t.alongAxis a (Shift.rollOne s)).alongAxis b g = (t.alongAxis b g).alongAxis a (Shift.rollOne s) :=
  alongAxis_comm_gather t a b _ g _ mb _ default hne ha hb (rollOne_isGather s _ default) hg
    (fun ⟨_, _, h⟩ => by cases h)

theorem fftshift_comm_nd (t : Tensor α) (a b : Nat) (g : List α → List α) (mb : Nat)
    (hne : a ≠ b) (ha : a < t.shape.length) (hb : b < t.shape.length)
    (hg : LenUniform g (t.shape.getD b 1) mb) :
    (t.alongAxis a Shift.fftshift1).alongAxis b g = (t.alongAxis b g).alongAxis a Shift.fftshift1 :=
  alongAxis_comm_gather t a b _ g _ mb _ default hne ha hb (fftshift1_isGather _ default) hg
    (fun ⟨_, _, h⟩ => by cases h)

theorem ifftshift_comm_nd (t : Tensor α) (a b : Nat) (g : List α → List α) (mb : Nat)
    (hne : a ≠ b) (ha : a < t.shape.length) (hb : b < t.shape.length)
    (hg : LenUniform g (t.shape.getD b 1) mb) :
    (t.alongAxis a Shift.ifftshift1).alongAxis b g = (t.alongAxis b g).alongAxis a Shift.ifftshift1 :=
  alongAxis_comm_gather t a b _ g _ mb _ default hne ha hb (ifftshift1_isGather _ default) hg
    (fun ⟨_, _, h⟩ => by cases h)

/-- the model's n-D `fftshift` / `ifftshift` on a single axis are the liftings of the 1-D shifts -/
theorem fftshift_single (t : Tensor α) (d : Nat) : Shift.fftshift t [d] = t.alongAxis d Shift.fftshift1 := by
  simp only [Shift.fftshift, Shift.roll, List.map_cons, List.map_nil, List.zip_cons_cons, List.zip_nil_right,
    List.foldl_cons, List.foldl_nil]
  exact alongAxis_congr t d _ _ (fun xs hxs => by rw [Shift.fftshift1, hxs])

theorem ifftshift_single (t : Tensor α) (d : Nat) : Shift.ifftshift t [d] = t.alongAxis d Shift.ifftshift1 := by
  simp only [Shift.ifftshift, Shift.roll, List.map_cons, List.map_nil, List.zip_cons_cons, List.zip_nil_right,
    List.foldl_cons, List.foldl_nil]
  exact alongAxis_congr t d _ _ (fun xs hxs => by rw [Shift.ifftshift1, hxs])

/-- **C01, n-D, on the model's tensor operations**: `fftshift(ifftshift(t, d), d) = t` -/
theorem shift_fftshift_ifftshift_id (t : Tensor α) (d : Nat)
    (hwf : t.data.length = prod t.shape) (hd : d < t.shape.length) :
    Shift.fftshift (Shift.ifftshift t [d]) [d] = t := by
  rw [fftshift_single, ifftshift_single]; exact fftshift_ifftshift_id_nd t d hwf hd

theorem shift_ifftshift_fftshift_id (t : Tensor α) (d : Nat)
    (hwf : t.data.length = prod t.shape) (hd : d < t.shape.length) :
    Shift.ifftshift (Shift.fftshift t [d]) [d] = t := by
  rw [fftshift_single, ifftshift_single]; exact ifftshift_fftshift_id_nd t d hwf hd


end DirectVerif.TensorLift
