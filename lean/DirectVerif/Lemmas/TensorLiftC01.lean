import DirectVerif.Lemmas.TensorLift
import DirectVerif.Props.C01
/-!
# n-D corollaries of the 1-D C01 property theorems

The drivers execute n-D operations as `Tensor.alongAxis` applications of the 1-D list models; the
lifting laws of `Lemmas/TensorLift.lean` (proved for the very `alongAxis` the drivers run) turn the
1-D theorems of `Props/C01.lean` into statements about whole tensors.
-/
namespace DirectVerif.TensorLift
open DirectVerif DirectVerif.Tensor
variable {α : Type} [Inhabited α]

/-- **C01, n-D (one axis)**: `fftshift ∘ ifftshift = id` along any axis of a well-formed tensor -/
theorem fftshift_ifftshift_id_nd (t : Tensor α) (a : Nat)
    (hwf : t.data.length = prod t.shape) (ha : a < t.shape.length) :
    (t.alongAxis a Shift.ifftshift1).alongAxis a Shift.fftshift1 = t :=
  alongAxis_cancel t a _ _ (t.shape.getD a 1) hwf ha
    (fun xs hxs => by rw [C01.ifftshift1_length, hxs]) (fun xs hxs => by rw [C01.fftshift1_length, hxs])
    (fun xs _ => C01.fftshift_ifftshift_id xs)

theorem ifftshift_fftshift_id_nd (t : Tensor α) (a : Nat)
    (hwf : t.data.length = prod t.shape) (ha : a < t.shape.length) :
    (t.alongAxis a Shift.fftshift1).alongAxis a Shift.ifftshift1 = t :=
  alongAxis_cancel t a _ _ (t.shape.getD a 1) hwf ha
    (fun xs hxs => by rw [C01.fftshift1_length, hxs]) (fun xs hxs => by rw [C01.ifftshift1_length, hxs])
    (fun xs _ => C01.ifftshift_fftshift_id xs)

/-- liftings of two *arbitrary* length-preserving functions along different axes do **not** commute
(so `alongAxis_comm_gather` needs a hypothesis of its kind): scaling every column by its first entry
and shifting every row by its first entry, on a 2×2 tensor. -/
theorem alongAxis_comm_fails_in_general :
    ∃ (t : Tensor Nat) (f g : List Nat → List Nat), LenUniform f 2 2 ∧ LenUniform g 2 2 ∧
      (t.alongAxis 0 f).alongAxis 1 g ≠ (t.alongAxis 1 g).alongAxis 0 f := by
  refine ⟨⟨[2, 2], [1, 2, 3, 4]⟩, fun xs => xs.map (· * xs.headD 0), fun xs => xs.map (· + xs.headD 0),
    fun xs h => by simpa using h, fun xs h => by simpa using h, ?_⟩
  simp only [alongAxis_eq_alongAxisL]
  decide

/-- `roll_one_dim` is an index gather (no fill) on lists of every length `n` -/
theorem rollOne_isGather (s : Int) (n : Nat) (c : α) :
    IsGather (Shift.rollOne s) n n (fun k => some ((k + n - (s % (n : Int)).toNat) % n)) c := by
  apply IsGather.of_getElem? (fun k => (k + n - (s % (n : Int)).toNat) % n) c
  · intro xs hxs; rw [C01.rollOne_length, hxs]
  · intro k hk; exact Nat.mod_lt _ (by omega)
  · intro xs hxs k hk
    subst hxs
    exact C01.rollOne_getElem? s xs k hk

theorem fftshift1_isGather (n : Nat) (c : α) :
    IsGather Shift.fftshift1 n n
      (fun k => some ((k + n - (Shift.fftshiftAmount n % (n : Int)).toNat) % n)) c :=
  (rollOne_isGather (Shift.fftshiftAmount n) n c).congr (fun xs hxs => by rw [Shift.fftshift1, hxs])

theorem ifftshift1_isGather (n : Nat) (c : α) :
    IsGather Shift.ifftshift1 n n
      (fun k => some ((k + n - (Shift.ifftshiftAmount n % (n : Int)).toNat) % n)) c :=
  (rollOne_isGather (Shift.ifftshiftAmount n) n c).congr (fun xs hxs => by rw [Shift.ifftshift1, hxs])

/-- **C01, n-D**: a roll along axis `a` commutes with *any* length-uniform per-axis operation `g`
(another roll, a shift, a 1-D transform …) along a different axis `b` -/
theorem roll_comm_nd (t : Tensor α) (a b : Nat) (s : Int) (g : List α → List α) (mb : Nat)
    (hne : a ≠ b) (ha : a < t.shape.length) (hb : b < t.shape.length)
    (hg : LenUniform g (t.shape.getD b 1) mb) :
    (t.alongAxis a (Shift.rollOne s)).alongAxis b g = (t.alongAxis b g).alongAxis a (Shift.rollOne s) :=
  alongAxis_comm_gather t a b _ g _ mb _ default hne ha hb (rollOne_isGather s _ default) hg
    (fun ⟨_, _, h⟩ => by cases h)

theorem fftshift_comm_nd (t : Tensor α) (a b : Nat) (g : List α → List α) (mb : Nat)
    (hne : a ≠ b) (ha : a < t.shape.length) (hb : b < t.shape.length)
    (hg : LenUniform g (t.shape.getD b 1) mb) :
    (t.alongAxis a Shift.fftshift1).alongAxis b g = (t.alongAxis b g).alongAxis a Shift.fftshift1 :=
  alongAxis_comm_gather t a b _ g _ mb _ default hne ha hb (fftshift1_isGather _ default) hg
    (fun ⟨_, _, h⟩ => by cases h)

theorem ifftshift_comm_nd (t : Tensor α) (a b : Nat) (g : List α → List α) (mb : Nat)
    (hne : a ≠ b) (ha : a < t.shape.length) (hb : b < t.shape.length)
    (hg : LenUniform g (t.shape.getD b 1) mb) :
    (t.alongAxis a Shift.ifftshift1).alongAxis b g = (t.alongAxis b g).alongAxis a Shift.ifftshift1 :=
  alongAxis_comm_gather t a b _ g _ mb _ default hne ha hb (ifftshift1_isGather _ default) hg
    (fun ⟨_, _, h⟩ => by cases h)

/-- the model's n-D `fftshift` / `ifftshift` on a single axis are the liftings of the 1-D shifts -/
theorem fftshift_single (t : Tensor α) (d : Nat) : Shift.fftshift t [d] = t.alongAxis d Shift.fftshift1 := by
  simp only [Shift.fftshift, Shift.roll, List.map_cons, List.map_nil, List.zip_cons_cons, List.zip_nil_right,
    List.foldl_cons, List.foldl_nil]
  exact alongAxis_congr t d _ _ (fun xs hxs => by rw [Shift.fftshift1, hxs])

theorem ifftshift_single (t : Tensor α) (d : Nat) : Shift.ifftshift t [d] = t.alongAxis d Shift.ifftshift1 := by
  simp only [Shift.ifftshift, Shift.roll, List.map_cons, List.map_nil, List.zip_cons_cons, List.zip_nil_right,
    List.foldl_cons, List.foldl_nil]
  exact alongAxis_congr t d _ _ (fun xs hxs => by rw [Shift.ifftshift1, hxs])

/-- **C01, n-D, on the model's tensor operations**: `fftshift(ifftshift(t, d), d) = t` -/
theorem shift_fftshift_ifftshift_id (t : Tensor α) (d : Nat)
    (hwf : t.data.length = prod t.shape) (hd : d < t.shape.length) :
    Shift.fftshift (Shift.ifftshift t [d]) [d] = t := by
  rw [fftshift_single, ifftshift_single]; exact fftshift_ifftshift_id_nd t d hwf hd

theorem shift_ifftshift_fftshift_id (t : Tensor α) (d : Nat)
    (hwf : t.data.length = prod t.shape) (hd : d < t.shape.length) :
    Shift.ifftshift (Shift.fftshift t [d]) [d] = t := by
  rw [fftshift_single, ifftshift_single]; exact ifftshift_fftshift_id_nd t d hwf hd


/-! ## several axes at once: the model's `fftshift` / `ifftshift` / `fft2` / `ifft2` over a
duplicate-free axis tuple, on the tensors (and the `alongAxis`) the driver runs -/

open DirectVerif.Fft DirectVerif.C01

/-- `f` moves through operators on other axes, under an invariant `P` -/
theorem applyAxes_comm_on {X} (P : X → Prop) (f : X → X) (g : Nat → X → X) (ds : List Nat)
    (hPg : ∀ d' ∈ ds, ∀ x, P x → P (g d' x))
    (hc : ∀ d' ∈ ds, ∀ x, P x → f (g d' x) = g d' (f x)) (x : X) (hx : P x) :
    f (applyAxes g ds x) = applyAxes g ds (f x) := by
  induction ds generalizing x with
  | nil => rfl
  | cons d ds ih =>
    have hd := List.mem_cons_self (a := d) (l := ds)
    rw [applyAxes_cons, applyAxes_cons,
      ih (fun d' hd' => hPg d' (List.mem_cons_of_mem _ hd')) (fun d' hd' => hc d' (List.mem_cons_of_mem _ hd'))
        _ (hPg d hd x hx), hc d hd x hx]

/-- invariant-carrying version of `C01.applyAxes_cancel` -/
theorem applyAxes_cancel_on {X} (P : X → Prop) (f g : Nat → X → X) (dims : List Nat) (hnd : dims.Nodup)
    (hPg : ∀ d ∈ dims, ∀ x, P x → P (g d x))
    (hinv : ∀ d ∈ dims, ∀ x, P x → f d (g d x) = x)
    (hcomm : ∀ d ∈ dims, ∀ d' ∈ dims, d ≠ d' → ∀ x, P x → f d (g d' x) = g d' (f d x))
    (x : X) (hx : P x) : applyAxes f dims (applyAxes g dims x) = x := by
  induction dims generalizing x with
  | nil => rfl
  | cons d ds ih =>
    rw [List.nodup_cons] at hnd
    have hd := List.mem_cons_self (a := d) (l := ds)
    rw [applyAxes_cons, applyAxes_cons,
      applyAxes_comm_on P (f d) g ds (fun d' hd' => hPg d' (List.mem_cons_of_mem _ hd'))
        (fun d' hd' => hcomm d hd d' (List.mem_cons_of_mem _ hd') (fun e => hnd.1 (e ▸ hd'))) _ (hPg d hd x hx),
      hinv d hd x hx]
    exact ih hnd.2 (fun d' hd' => hPg d' (List.mem_cons_of_mem _ hd'))
      (fun d' hd' => hinv d' (List.mem_cons_of_mem _ hd'))
      (fun a ha b hb => hcomm a (List.mem_cons_of_mem _ ha) b (List.mem_cons_of_mem _ hb)) x hx

/-- well-formed tensor of shape `s` -/
def WF (s : List Nat) (t : Tensor α) : Prop := t.data.length = prod t.shape ∧ t.shape = s

theorem WF.alongAxis {s : List Nat} {t : Tensor α} (h : WF s t) (d : Nat) (hd : d < s.length)
    (f : List α → List α) (hf : LenUniform f (s.getD d 1) (s.getD d 1)) : WF s (t.alongAxis d f) := by
  obtain ⟨hwf, hs⟩ := h
  subst hs
  refine ⟨alongAxis_wellFormed t d f _ hd hf, ?_⟩
  rw [alongAxis_shape t d f _ hf, set_getD_self]

omit [Inhabited α] in
theorem lenUniform_rollOne (s : Int) (n : Nat) : LenUniform (Shift.rollOne (α := α) s) n n :=
  fun xs hxs => by rw [C01.rollOne_length, hxs]
omit [Inhabited α] in
theorem lenUniform_fftshift1 (n : Nat) : LenUniform (Shift.fftshift1 (α := α)) n n :=
  fun xs hxs => by rw [C01.fftshift1_length, hxs]
omit [Inhabited α] in
theorem lenUniform_ifftshift1 (n : Nat) : LenUniform (Shift.ifftshift1 (α := α)) n n :=
  fun xs hxs => by rw [C01.ifftshift1_length, hxs]

/-- `roll` with per-axis amounts computed from the (unchanging) shape is the per-axis application -/
theorem roll_eq_applyAxes (s : List Nat) (amt : Int → Int) (op : List α → List α)
    (hop : ∀ xs : List α, op xs = Shift.rollOne (amt xs.length) xs)
    (dims : List Nat) (hr : ∀ d ∈ dims, d < s.length) (t : Tensor α) (ht : WF s t) :
    Shift.roll t (dims.map fun d => amt (s.getD d 1)) dims = applyAxes (fun d t => t.alongAxis d op) dims t := by
  induction dims generalizing t with
  | nil => rfl
  | cons d ds ih =>
    have hd := hr d (List.mem_cons_self ..)
    have hstep : t.alongAxis d (Shift.rollOne (amt (s.getD d 1))) = t.alongAxis d op :=
      alongAxis_congr t d _ _ (fun xs hxs => by rw [hop, hxs, ht.2])
    have hwf' : WF s (t.alongAxis d op) := ht.alongAxis d hd op (fun xs hxs => by rw [hop, C01.rollOne_length, hxs])
    have := ih (fun d' hd' => hr d' (List.mem_cons_of_mem _ hd')) (t.alongAxis d op) hwf'
    simp only [Shift.roll, List.map_cons, List.zip_cons_cons, List.foldl_cons, applyAxes_cons] at this ⊢
    rw [hstep]; exact this

theorem fftshift_eq_applyAxes (s : List Nat) (dims : List Nat) (hr : ∀ d ∈ dims, d < s.length)
    (t : Tensor α) (ht : WF s t) :
    Shift.fftshift t dims = applyAxes (fun d t => t.alongAxis d Shift.fftshift1) dims t := by
  have := roll_eq_applyAxes s Shift.fftshiftAmount Shift.fftshift1 (fun _ => rfl) dims hr t ht
  rw [← this, Shift.fftshift, ht.2]

theorem ifftshift_eq_applyAxes (s : List Nat) (dims : List Nat) (hr : ∀ d ∈ dims, d < s.length)
    (t : Tensor α) (ht : WF s t) :
    Shift.ifftshift t dims = applyAxes (fun d t => t.alongAxis d Shift.ifftshift1) dims t := by
  have := roll_eq_applyAxes s Shift.ifftshiftAmount Shift.ifftshift1 (fun _ => rfl) dims hr t ht
  rw [← this, Shift.ifftshift, ht.2]

theorem WF.applyAxes {s : List Nat} (op : Nat → List α → List α) (dims : List Nat)
    (hr : ∀ d ∈ dims, d < s.length) (hop : ∀ d ∈ dims, LenUniform (op d) (s.getD d 1) (s.getD d 1))
    {t : Tensor α} (ht : WF s t) : WF s (applyAxes (fun d t => t.alongAxis d (op d)) dims t) := by
  induction dims generalizing t with
  | nil => exact ht
  | cons d ds ih =>
    rw [applyAxes_cons]
    exact ih (fun d' hd' => hr d' (List.mem_cons_of_mem _ hd')) (fun d' hd' => hop d' (List.mem_cons_of_mem _ hd'))
      (ht.alongAxis d (hr d (List.mem_cons_self ..)) _ (hop d (List.mem_cons_self ..)))

/-- **C01, n-D, any duplicate-free axis tuple**: the model's `fftshift(ifftshift(t, dims), dims) = t`
for every well-formed tensor, every rank, every axis lengths (odd, even, 1) -/
theorem fftshift_ifftshift_id_dims (t : Tensor α) (dims : List Nat) (hnd : dims.Nodup)
    (hwf : t.data.length = prod t.shape) (hr : ∀ d ∈ dims, d < t.shape.length) :
    Shift.fftshift (Shift.ifftshift t dims) dims = t := by
  have ht : WF t.shape t := ⟨hwf, rfl⟩
  have hI : WF t.shape (Shift.ifftshift t dims) := by
    rw [ifftshift_eq_applyAxes t.shape dims hr t ht]
    exact WF.applyAxes (fun _ => Shift.ifftshift1) dims hr (fun d _ => lenUniform_ifftshift1 _) ht
  rw [fftshift_eq_applyAxes t.shape dims hr _ hI, ifftshift_eq_applyAxes t.shape dims hr t ht]
  exact applyAxes_cancel_on (WF t.shape) _ _ dims hnd
    (fun d hd x hx => hx.alongAxis d (hr d hd) _ (lenUniform_ifftshift1 _))
    (fun d hd x hx => fftshift_ifftshift_id_nd x d hx.1 (by rw [hx.2]; exact hr d hd))
    (fun d hd d' hd' hne x hx =>
      (fftshift_comm_nd x d d' Shift.ifftshift1 _ hne (by rw [hx.2]; exact hr d hd) (by rw [hx.2]; exact hr d' hd')
        (lenUniform_ifftshift1 _)).symm)
    t ht

theorem ifftshift_fftshift_id_dims (t : Tensor α) (dims : List Nat) (hnd : dims.Nodup)
    (hwf : t.data.length = prod t.shape) (hr : ∀ d ∈ dims, d < t.shape.length) :
    Shift.ifftshift (Shift.fftshift t dims) dims = t := by
  have ht : WF t.shape t := ⟨hwf, rfl⟩
  have hI : WF t.shape (Shift.fftshift t dims) := by
    rw [fftshift_eq_applyAxes t.shape dims hr t ht]
    exact WF.applyAxes (fun _ => Shift.fftshift1) dims hr (fun d _ => lenUniform_fftshift1 _) ht
  rw [ifftshift_eq_applyAxes t.shape dims hr _ hI, fftshift_eq_applyAxes t.shape dims hr t ht]
  exact applyAxes_cancel_on (WF t.shape) _ _ dims hnd
    (fun d hd x hx => hx.alongAxis d (hr d hd) _ (lenUniform_fftshift1 _))
    (fun d hd x hx => ifftshift_fftshift_id_nd x d hx.1 (by rw [hx.2]; exact hr d hd))
    (fun d hd d' hd' hne x hx =>
      (ifftshift_comm_nd x d d' Shift.fftshift1 _ hne (by rw [hx.2]; exact hr d hd) (by rw [hx.2]; exact hr d' hd')
        (lenUniform_fftshift1 _)).symm)
    t ht

/-- the laws of `C01.Lawful`, required only on the elements satisfying an invariant `P` that every
operation preserves -/
structure LawfulOn {X} (P : X → Prop) (B : Backend X) : Prop where
  pI : ∀ x, P x → P (B.ishift x)
  pS : ∀ x, P x → P (B.fshift x)
  pF : ∀ inv nm x, P x → P (B.transform inv nm x)
  pC : ∀ x, P x → P (B.viewComplex x)
  pR : ∀ x, P x → P (B.viewReal x)
  fshift_ishift : ∀ x, P x → B.fshift (B.ishift x) = x
  ishift_fshift : ∀ x, P x → B.ishift (B.fshift x) = x
  inv_fwd : ∀ nm x, P x → B.transform true nm (B.transform false nm x) = x
  fwd_inv : ∀ nm x, P x → B.transform false nm (B.transform true nm x) = x
  viewC_viewR : ∀ x, P x → B.viewComplex (B.viewReal x) = x
  viewR_viewC : ∀ x, P x → B.viewReal (B.viewComplex x) = x

theorem ifft2_fft2_id_of_lawfulOn {X} {P : X → Prop} {B : Backend X} (h : LawfulOn P B) (cfg : Cfg)
    (x : X) (hx : P x) : ifft2 B cfg (fft2 B cfg x) = x ∧ fft2 B cfg (ifft2 B cfg x) = x := by
  obtain ⟨c, n, ci⟩ := cfg
  cases c <;> cases n <;> cases ci <;>
    simp (maxDischargeDepth := 12) [ifft2, fft2, runData, fft2Plan, ifft2Plan, Guard.holds, applyOp, h.fshift_ishift,
      h.ishift_fshift, h.inv_fwd, h.fwd_inv, h.viewC_viewR, h.viewR_viewC, h.pI, h.pS, h.pF, h.pC, hx]

/-- what is assumed of the 1-D transform family `F inverse norm axis` on the axes `dims` of tensors
of shape `s`: it preserves the axis length, `F true` undoes `F false` (and conversely) on lists of
the axis length, and its liftings along two different axes commute (true of the DFT, which acts
linearly on fibres; false for arbitrary functions — `alongAxis_comm_fails_in_general`). -/
structure TransformLaws (s : List Nat) (dims : List Nat) (F : Bool → Norm → Nat → List α → List α) : Prop where
  len : ∀ inv nm, ∀ d ∈ dims, LenUniform (F inv nm d) (s.getD d 1) (s.getD d 1)
  inv_fwd : ∀ nm, ∀ d ∈ dims, ∀ xs : List α, xs.length = s.getD d 1 → F true nm d (F false nm d xs) = xs
  fwd_inv : ∀ nm, ∀ d ∈ dims, ∀ xs : List α, xs.length = s.getD d 1 → F false nm d (F true nm d xs) = xs
  comm : ∀ nm inv inv', ∀ d ∈ dims, ∀ d' ∈ dims, d ≠ d' → ∀ t : Tensor α, WF s t →
    (t.alongAxis d' (F inv' nm d')).alongAxis d (F inv nm d) = (t.alongAxis d (F inv nm d)).alongAxis d' (F inv' nm d')

theorem tensorBackend_lawfulOn (s : List Nat) (dims : List Nat) (hnd : dims.Nodup) (hr : ∀ d ∈ dims, d < s.length)
    (F : Bool → Norm → Nat → List α → List α) (hF : TransformLaws s dims F) :
    LawfulOn (WF s) (tensorBackend F dims) where
  pI := fun x hx => by
    show WF s (Shift.ifftshift x dims)
    rw [ifftshift_eq_applyAxes s dims hr x hx]
    exact WF.applyAxes (fun _ => Shift.ifftshift1) dims hr (fun d _ => lenUniform_ifftshift1 _) hx
  pS := fun x hx => by
    show WF s (Shift.fftshift x dims)
    rw [fftshift_eq_applyAxes s dims hr x hx]
    exact WF.applyAxes (fun _ => Shift.fftshift1) dims hr (fun d _ => lenUniform_fftshift1 _) hx
  pF := fun inv nm x hx => WF.applyAxes (F inv nm) dims hr (hF.len inv nm) hx
  pC := fun _ hx => hx
  pR := fun _ hx => hx
  fshift_ishift := fun x hx => by
    have := fftshift_ifftshift_id_dims x dims hnd hx.1 (by rw [hx.2]; exact hr)
    exact this
  ishift_fshift := fun x hx => by
    have := ifftshift_fftshift_id_dims x dims hnd hx.1 (by rw [hx.2]; exact hr)
    exact this
  inv_fwd := fun nm x hx =>
    applyAxes_cancel_on (WF s) _ _ dims hnd
      (fun d hd y hy => hy.alongAxis d (hr d hd) _ (hF.len false nm d hd))
      (fun d hd y hy => alongAxis_cancel y d _ _ _ hy.1 (by rw [hy.2]; exact hr d hd)
        (by rw [hy.2]; exact hF.len false nm d hd) (by rw [hy.2]; exact hF.len true nm d hd)
        (fun xs hxs => hF.inv_fwd nm d hd xs (by rw [hxs, hy.2])))
      (fun d hd d' hd' hne y hy => hF.comm nm true false d hd d' hd' hne y hy)
      x hx
  fwd_inv := fun nm x hx =>
    applyAxes_cancel_on (WF s) _ _ dims hnd
      (fun d hd y hy => hy.alongAxis d (hr d hd) _ (hF.len true nm d hd))
      (fun d hd y hy => alongAxis_cancel y d _ _ _ hy.1 (by rw [hy.2]; exact hr d hd)
        (by rw [hy.2]; exact hF.len true nm d hd) (by rw [hy.2]; exact hF.len false nm d hd)
        (fun xs hxs => hF.fwd_inv nm d hd xs (by rw [hxs, hy.2])))
      (fun d hd d' hd' hne y hy => hF.comm nm false true d hd d' hd' hne y hy)
      x hx
  viewC_viewR := fun _ _ => rfl
  viewR_viewC := fun _ _ => rfl

/-- **C01, n-D, on the backend the driver runs** (`Fft.tensorBackend`: the model's `fftshift` /
`ifftshift` over `dims` and the `alongAxis` lifting of a 1-D transform pair): for every
well-formed tensor of any rank and axis lengths, every duplicate-free in-range axis tuple and all 8
flag combinations, `ifft2 ∘ fft2 = id` and `fft2 ∘ ifft2 = id`. -/
theorem ifft2_fft2_id_tensor (t : Tensor α) (dims : List Nat) (hnd : dims.Nodup)
    (hwf : t.data.length = prod t.shape) (hr : ∀ d ∈ dims, d < t.shape.length)
    (F : Bool → Norm → Nat → List α → List α) (hF : TransformLaws t.shape dims F) (cfg : Cfg) :
    ifft2 (tensorBackend F dims) cfg (fft2 (tensorBackend F dims) cfg t) = t ∧
    fft2 (tensorBackend F dims) cfg (ifft2 (tensorBackend F dims) cfg t) = t :=
  ifft2_fft2_id_of_lawfulOn (tensorBackend_lawfulOn t.shape dims hnd hr F hF) cfg t ⟨hwf, rfl⟩

/-- non-vacuity: the identity transform family satisfies `TransformLaws` -/
example (s dims : List Nat) (hr : ∀ d ∈ dims, d < s.length) : TransformLaws (α := α) s dims (fun _ _ _ xs => xs) := by
  have h1 : ∀ d ∈ dims, ∀ u : Tensor α, WF s u → u.alongAxis d (fun xs => xs) = u := fun d hd u hu =>
    alongAxis_id_of u d _ hu.1 (by rw [hu.2]; exact hr d hd) (fun _ _ => rfl)
  exact ⟨fun _ _ _ _ _ h => h, fun _ _ _ _ _ => rfl, fun _ _ _ _ _ => rfl,
    fun _ _ _ d hd d' hd' _ t ht => by rw [h1 d' hd' t ht, h1 d hd t ht, h1 d' hd' t ht]⟩

example : Shift.fftshift (Shift.ifftshift (⟨[2, 3], [1, 2, 3, 4, 5, 6]⟩ : Tensor Nat) [0, 1]) [0, 1]
    = ⟨[2, 3], [1, 2, 3, 4, 5, 6]⟩ := fftshift_ifftshift_id_dims _ _ (by decide) (by decide) (by decide)

end DirectVerif.TensorLift
