import DirectVerif.Model.Crop
/-! Helper lemmas for the bounding-box theorem of C10 (slicing as index arithmetic). -/
namespace DirectVerif.C10
open DirectVerif DirectVerif.Crop

theorem slice_getElem? {α} (xs : List α) (lo hi k : Nat) :
    (slice xs lo hi)[k]? = if lo + k < hi then xs[lo + k]? else none := by
  unfold slice
  rw [List.getElem?_drop, List.getElem?_take]

theorem slice_length {α} (xs : List α) (lo hi : Nat) (h : hi ≤ xs.length) :
    (slice xs lo hi).length = hi - lo := by
  unfold slice; simp [List.length_drop, List.length_take]; omega

theorem bboxSpec_getElem? {α} (fill : α) (xs : List α) (c : Int) (s k : Nat) :
    (bboxSpec fill xs c s)[k]? =
      if k < s then (if 0 ≤ c + k ∧ c + k < xs.length then xs[(c + k).toNat]? else some fill) else none := by
  unfold bboxSpec
  by_cases hk : k < s
  · rw [List.getElem?_map, List.getElem?_range hk]
    simp only [Option.map_some, hk, if_true]
    split
    · rename_i h
      rw [List.getD_eq_getElem?_getD]
      have : (c + ↑k).toNat < xs.length := by omega
      simp [List.getElem?_eq_getElem this]
    · rfl
  · simp [hk]

/-- region as a plain slice with explicit Nat bounds -/
theorem bboxRegion_eq {α} (xs : List α) (c : Int) (s : Nat) :
    bboxRegion xs c s =
      slice xs (min (max c 0) xs.length).toNat (min (max (max c 0) (min (c + s) xs.length)) xs.length).toNat := by
  unfold bboxRegion pySlice bboxLOff bboxROff
  simp only
  congr 1 <;> (split <;> split <;> omega)

theorem bboxRegion_length {α} (xs : List α) (c : Int) (s : Nat) :
    (bboxRegion xs c s).length =
      (min (max (max c 0) (min (c + s) xs.length)) xs.length).toNat - (min (max c 0) xs.length).toNat := by
  rw [bboxRegion_eq, slice_length]
  omega

end DirectVerif.C10
