import DirectVerif.Model.Fft
import Mathlib.Tactic.SplitIfs
/-!
# C01 — every error branch of the `fft2` / `ifft2` glue, as one flat decision list

`Fft.validate` interprets the translated plan step by step (the order of the Python statements decides
which exception wins).  `Fft.validateSpec` is the same information as a flat priority list.  This file
proves them equal for both plans, every flag combination, every `dim` list, shape and dtype
(`validate_fft2_eq_spec`, `validate_ifft2_eq_spec`), and derives

* `validate_ok_iff` — the exact acceptance condition (for the `(…, 2)` float layout: `dim` entries are
  non-negative, distinct, in range, no empty transformed axis, last axis 2, dtype float32);
* one theorem per exception class with its exact precondition given that the earlier checks passed.
-/
set_option linter.unusedSimpArgs false
namespace DirectVerif.C01Validate
open DirectVerif DirectVerif.Fft

theorem spec_std (c n ci inv : Bool) (nT nF : Norm) (dims : List Int) (shape : List Nat) (dt : DType) :
    validate ⟨c, n, ci⟩ dims (stdPlan inv nT nF) ⟨shape, dt⟩ = validateSpec ⟨c, n, ci⟩ dims ⟨shape, dt⟩ := by
  cases h1 : dims.all dimOk
  · cases c <;> cases ci <;>
      simp only [validate, stdPlan, List.foldlM, Guard.holds, validateOp, validateSpec, h1, Bool.not_false, ↓reduceIte,
        Bool.false_eq_true, bind, Except.bind]
  · cases ci
    · -- complex tensor passed directly
      cases c <;>
      simp only [validate, stdPlan, List.foldlM, Guard.holds, validateOp, validateSpec, validateShift, h1, Bool.not_true,
        Bool.false_eq_true, Bool.false_and, Bool.true_and, ↓reduceIte, bind, Except.bind, pure, Except.pure] <;>
      cases hoor : (dims.any fun d => decide (d.toNat ≥ shape.length)) <;>
      cases hemp : (dims.any fun d => shape.getD d.toNat 1 == 0) <;>
      cases hf : (dt == DType.float32) <;>
      cases hok : dtypeOk dt (List.map (fun d => shape.getD d.toNat 1) dims) <;>
      cases hdup : hasDup dims <;>
      simp only [hoor, hemp, hf, hok, hdup, pure, Except.pure, Bool.false_and, Bool.true_and, Bool.not_false, Bool.not_true,
        ↓reduceIte, Bool.false_eq_true, reduceCtorEq, decide_false]
    · -- (…, 2) real layout
      by_cases h2 : shape.getLast? = some 2
      · cases h3 : dt.viewComplex with
        | none =>
          cases c <;>
          simp [validate, stdPlan, List.foldlM, Guard.holds, validateOp, validateSpec, h1, h2, h3, bind, Except.bind]
        | some dt' =>
          cases c <;>
          simp only [validate, stdPlan, List.foldlM, Guard.holds, validateOp, validateSpec, validateShift, h1, h2, h3,
            Bool.not_true, Bool.false_eq_true, Bool.false_and, Bool.true_and, ↓reduceIte, bind, Except.bind, pure, Except.pure,
            ne_eq, not_true_eq_false, decide_false, Option.getD_some, reduceCtorEq] <;>
          cases hoor : (dims.any fun d => decide (d.toNat ≥ shape.dropLast.length)) <;>
          cases hemp : (dims.any fun d => shape.dropLast.getD d.toNat 1 == 0) <;>
          cases hf : (dt' == DType.float32) <;>
          cases hok : dtypeOk dt' (List.map (fun d => shape.dropLast.getD d.toNat 1) dims) <;>
          cases hdup : hasDup dims <;>
          simp only [hoor, hemp, hf, hok, hdup, pure, Except.pure, Bool.false_and, Bool.true_and, Bool.not_false, Bool.not_true,
            ↓reduceIte, Bool.false_eq_true, reduceCtorEq, decide_false]
      · cases c <;>
        simp [validate, stdPlan, List.foldlM, Guard.holds, validateOp, validateSpec, h1, h2, bind, Except.bind]

/-- **`fft2`: the interpreted plan raises exactly what the flat decision list says** -/
theorem validate_fft2_eq_spec (cfg : Cfg) (dims : List Int) (s : VState) :
    validate cfg dims fft2Plan s = validateSpec cfg dims s := by
  obtain ⟨c, n, ci⟩ := cfg; obtain ⟨shape, dt⟩ := s
  exact spec_std c n ci false .ortho .backward dims shape dt

/-- **`ifft2`: the same decision list** (the two functions reject exactly the same calls) -/
theorem validate_ifft2_eq_spec (cfg : Cfg) (dims : List Int) (s : VState) :
    validate cfg dims ifft2Plan s = validateSpec cfg dims s := by
  obtain ⟨c, n, ci⟩ := cfg; obtain ⟨shape, dt⟩ := s
  exact spec_std c n ci true .ortho .backward dims shape dt

theorem fft2_ifft2_same_errors (cfg : Cfg) (dims : List Int) (s : VState) :
    validate cfg dims fft2Plan s = validate cfg dims ifft2Plan s := by
  rw [validate_fft2_eq_spec, validate_ifft2_eq_spec]

/-- what a call with the `(…, 2)` float layout must satisfy to be accepted -/
structure Accepts (dims : List Int) (cshape : List Nat) : Prop where
  nonneg : dims.all dimOk = true
  inRange : (dims.any fun d => decide (d.toNat ≥ cshape.length)) = false
  nodup : hasDup dims = false
  nonempty : (dims.any fun d => cshape.getD d.toNat 1 == 0) = false

/-- **exact acceptance condition, `complex_input=True`**: a float tensor of shape `cshape ++ [k]` is accepted (and comes
back with the same shape and dtype) iff `k = 2`, the dtype is float32, and `dim` consists of distinct non-negative
in-range axes of non-zero length — for both functions, centred or not, normalised or not -/
theorem validate_ok_iff (c n : Bool) (dims : List Int) (cshape : List Nat) (k : Nat) (dt : DType) (s' : VState) :
    validate ⟨c, n, true⟩ dims fft2Plan ⟨cshape ++ [k], dt⟩ = .ok s' ↔
      (k = 2 ∧ dt = .float32 ∧ Accepts dims cshape ∧ s' = ⟨cshape ++ [2], .float32⟩) := by
  rw [validate_fft2_eq_spec]
  simp only [validateSpec, List.getLast?_append, List.getLast?_singleton, List.dropLast_concat, Bool.true_and, ↓reduceIte]
  constructor
  · intro h
    split_ifs at h with a1 a2 a3 a4 a5 a6 a7 a8 a9 a10
    all_goals cases h
    have hk : k = 2 := by simpa using a2
    have hacc : Accepts dims cshape :=
      ⟨by cases h : dims.all dimOk <;> simp_all, (Bool.not_eq_true _).mp a8, (Bool.not_eq_true _).mp a9,
        (Bool.not_eq_true _).mp a10⟩
    cases dt <;> simp [DType.viewComplex, dtypeOk, DType.afterFft, DType.viewReal] at a3 a7 ⊢
    exact ⟨hk, hacc⟩
  · rintro ⟨rfl, rfl, ⟨h1, h2, h3, h4⟩, rfl⟩
    cases c <;>
      simp only [h1, h2, h3, h4, Bool.and_false, Bool.not_true, Bool.false_eq_true, ↓reduceIte, Bool.false_and, Bool.true_and] <;>
      simp [DType.viewComplex, dtypeOk, DType.afterFft, DType.viewReal]

/-- the same for `ifft2` -/
theorem validate_ifft2_ok_iff (c n : Bool) (dims : List Int) (cshape : List Nat) (k : Nat) (dt : DType) (s' : VState) :
    validate ⟨c, n, true⟩ dims ifft2Plan ⟨cshape ++ [k], dt⟩ = .ok s' ↔
      (k = 2 ∧ dt = .float32 ∧ Accepts dims cshape ∧ s' = ⟨cshape ++ [2], .float32⟩) := by
  rw [← fft2_ifft2_same_errors]; exact validate_ok_iff c n dims cshape k dt s'

/-- **exact acceptance condition, `complex_input=False`**: a tensor is accepted iff `dim` is acceptable and the dtype is
complex64, or float32 with every transformed length a power of two; the result is complex64 of the same shape -/
theorem validate_ok_iff_complex (c n : Bool) (dims : List Int) (shape : List Nat) (dt : DType) (s' : VState) :
    validate ⟨c, n, false⟩ dims fft2Plan ⟨shape, dt⟩ = .ok s' ↔
      (Accepts dims shape ∧ dtypeOk dt (dims.map fun d => shape.getD d.toNat 1) = true ∧ s' = ⟨shape, .complex64⟩) := by
  rw [validate_fft2_eq_spec]
  simp only [validateSpec, Bool.false_and, Bool.false_eq_true, ↓reduceIte]
  constructor
  · intro h
    split_ifs at h with a1 a4 a5 a6 a7 a8 a9 a10
    all_goals cases h
    have hok : dtypeOk dt (dims.map fun d => shape.getD d.toNat 1) = true := by
      cases h : dtypeOk dt (dims.map fun d => shape.getD d.toNat 1) <;> simp_all
    refine ⟨⟨by cases h : dims.all dimOk <;> simp_all, (Bool.not_eq_true _).mp a8, (Bool.not_eq_true _).mp a9,
      (Bool.not_eq_true _).mp a10⟩, hok, ?_⟩
    cases dt <;> simp [dtypeOk, DType.afterFft] at hok ⊢
  · rintro ⟨⟨h1, h2, h3, h4⟩, hok, rfl⟩
    cases c <;>
      simp only [h1, h2, h3, h4, hok, Bool.and_false, Bool.not_true, Bool.false_eq_true, ↓reduceIte, Bool.false_and, Bool.true_and] <;>
      (cases dt <;> simp [dtypeOk, DType.afterFft] at hok ⊢)

/-! ### one theorem per exception class (given that the earlier checks passed) -/

/-- `TypeError` iff some `dim` entry is negative — whatever else is wrong with the call -/
theorem typeError_iff (cfg : Cfg) (dims : List Int) (s : VState) :
    validate cfg dims fft2Plan s = .error .typeError ↔ dims.all dimOk = false := by
  rw [validate_fft2_eq_spec]
  obtain ⟨c, n, ci⟩ := cfg; obtain ⟨shape, dt⟩ := s
  cases h1 : dims.all dimOk
  · simp [validateSpec, h1]
  · simp only [reduceCtorEq, iff_false]
    intro h
    cases c <;> cases ci <;>
      simp only [validateSpec, h1, Bool.not_true, Bool.false_eq_true, ↓reduceIte, Bool.false_and, Bool.true_and] at h <;>
      split_ifs at h <;> cases h

/-- `AssertionError` iff `dim` is fine, `complex_input` is set and the last axis is not 2 -/
theorem assertionError_iff (cfg : Cfg) (dims : List Int) (s : VState) :
    validate cfg dims fft2Plan s = .error .assertionError ↔
      (dims.all dimOk = true ∧ cfg.complexInput = true ∧ s.shape.getLast? ≠ some 2) := by
  rw [validate_fft2_eq_spec]
  obtain ⟨c, n, ci⟩ := cfg; obtain ⟨shape, dt⟩ := s
  constructor
  · intro h
    cases h1 : dims.all dimOk <;> cases c <;> cases ci <;>
      simp only [validateSpec, h1, Bool.not_true, Bool.not_false, Bool.false_eq_true, ↓reduceIte, Bool.false_and, Bool.true_and,
        reduceCtorEq] at h <;>
      (first | cases h | (split_ifs at h with a2 <;> first | cases h | skip))
    all_goals exact ⟨rfl, rfl, by simpa using a2⟩
  · rintro ⟨h1, h2, h3⟩
    cases h2
    simp [validateSpec, h1, h3]

/-- `ValueError` ("half precision FFT is not supported") iff the earlier checks pass and the dtype test fails -/
theorem valueError_complex_iff (c n : Bool) (dims : List Int) (shape : List Nat) (dt : DType)
    (h1 : dims.all dimOk = true) (h2 : (dims.any fun d => decide (d.toNat ≥ shape.length)) = false)
    (h4 : (dims.any fun d => shape.getD d.toNat 1 == 0) = false) :
    validate ⟨c, n, false⟩ dims fft2Plan ⟨shape, dt⟩ = .error .valueError ↔
      dtypeOk dt (dims.map fun d => shape.getD d.toNat 1) = false := by
  rw [validate_fft2_eq_spec]
  simp only [validateSpec, Bool.false_and, Bool.false_eq_true, ↓reduceIte, h1, h2, h4, Bool.not_true, Bool.and_false]
  cases dtypeOk dt (dims.map fun d => shape.getD d.toNat 1) <;> simp
  split_ifs <;> simp

/-- a repeated axis in an otherwise valid call is rejected by torch ("FFT dims must be unique"): `RuntimeError` -/
theorem dup_runtimeError (c n : Bool) (dims : List Int) (cshape : List Nat)
    (h1 : dims.all dimOk = true) (h2 : (dims.any fun d => decide (d.toNat ≥ cshape.length)) = false)
    (h3 : hasDup dims = true) (h4 : (dims.any fun d => cshape.getD d.toNat 1 == 0) = false) :
    validate ⟨c, n, true⟩ dims fft2Plan ⟨cshape ++ [2], .float32⟩ = .error .runtimeError := by
  rw [validate_fft2_eq_spec]
  simp only [validateSpec, List.getLast?_append, List.getLast?_singleton, List.dropLast_concat, Bool.true_and, ↓reduceIte,
    h1, h2, h3, h4, Bool.and_false, Bool.not_true, Bool.false_eq_true]
  simp [DType.viewComplex, dtypeOk]

/-! ### call sites: an accepted `dim` form is accepted by the glue -/

theorem hasDup_false_iff_nodup (ds : List Int) : hasDup ds = false ↔ ds.Nodup := by
  induction ds with
  | nil => simp [hasDup]
  | cons d ds ih => simp [hasDup, ih]

/-- **every call site that passes the structural predicate reaches the transform**: for each axis tuple its `dim` argument
can denote, on every float32 `(…, 2)` tensor whose rank covers the tuple and whose transformed axes are non-empty,
`fft2` and `ifft2` raise nothing and return the input's shape and dtype — for every `centered` / `normalized` -/
theorem site_accepted (site : CallSite) (h : site.ok = true) (d : List Int) (hd : d ∈ site.dims)
    (cshape : List Nat) (hr : ∀ a ∈ d, a.toNat < cshape.length) (hne : ∀ a ∈ d, cshape.getD a.toNat 1 ≠ 0) (c n : Bool) :
    validate ⟨c, n, true⟩ d fft2Plan ⟨cshape ++ [2], .float32⟩ = .ok ⟨cshape ++ [2], .float32⟩ ∧
    validate ⟨c, n, true⟩ d ifft2Plan ⟨cshape ++ [2], .float32⟩ = .ok ⟨cshape ++ [2], .float32⟩ := by
  simp only [CallSite.ok, Bool.and_eq_true, List.all_eq_true] at h
  have hacc := h.1 d hd
  simp only [dimsAcceptable, Bool.and_eq_true, Bool.not_eq_true'] at hacc
  have A : Accepts d cshape := by
    refine ⟨hacc.1.1, ?_, hacc.1.2, ?_⟩
    · rw [List.any_eq_false]; intro a ha; simpa using hr a ha
    · rw [List.any_eq_false]; intro a ha; simpa using hne a ha
  exact ⟨(validate_ok_iff c n d cshape 2 .float32 _).mpr ⟨rfl, rfl, A, rfl⟩,
    (validate_ifft2_ok_iff c n d cshape 2 .float32 _).mpr ⟨rfl, rfl, A, rfl⟩⟩

/-- the axis list of an acceptable `dim`, as natural numbers, is duplicate-free (what the n-D theorems ask for) -/
theorem dimsAcceptable_nodup (d : List Int) (h : dimsAcceptable d = true) : (d.map Int.toNat).Nodup := by
  simp only [dimsAcceptable, Bool.and_eq_true, Bool.not_eq_true'] at h
  have hn := (hasDup_false_iff_nodup d).mp h.1.2
  have hpos : ∀ a ∈ d, 0 ≤ a := fun a ha => by
    have := List.all_eq_true.mp h.1.1 a ha
    simpa [dimOk] using this
  clear h
  induction d with
  | nil => simp
  | cons a ds ih =>
    rw [List.nodup_cons] at hn
    rw [List.map_cons, List.nodup_cons]
    refine ⟨?_, ih hn.2 (fun b hb => hpos b (List.mem_cons_of_mem _ hb))⟩
    intro hmem
    obtain ⟨b, hb, hab⟩ := List.mem_map.mp hmem
    have h1 := hpos a List.mem_cons_self
    have h2 := hpos b (List.mem_cons_of_mem _ hb)
    have : b = a := by omega
    exact hn.1 (this ▸ hb)

example : (⟨0, 0, true, [[2, 3], [1, 2]], [(2, false)]⟩ : CallSite).ok = true := by decide
example : (⟨0, 0, true, [[-2, -1]], []⟩ : CallSite).ok = false := by decide

/-! ### non-vacuity -/
example : Accepts [1, 2] [2, 3, 5] := ⟨by decide, by decide, by decide, by decide⟩
example : validate ⟨true, true, true⟩ [1, 2] fft2Plan ⟨[2, 3, 5] ++ [2], .float32⟩ = .ok ⟨[2, 3, 5] ++ [2], .float32⟩ :=
  (validate_ok_iff true true [1, 2] [2, 3, 5] 2 .float32 _).mpr ⟨rfl, rfl, ⟨by decide, by decide, by decide, by decide⟩, rfl⟩
example : validateSpec ⟨true, true, true⟩ [2, 2] ⟨[2, 3, 5, 2], .float32⟩ = .error .runtimeError := by rfl
example : validateSpec ⟨true, true, true⟩ [-1, 2] ⟨[2, 3, 5, 3], .float64⟩ = .error .typeError := by rfl
example : validateSpec ⟨true, true, true⟩ [1, 2] ⟨[2, 3, 5, 3], .float64⟩ = .error .assertionError := by rfl
example : validateSpec ⟨true, true, true⟩ [1, 2] ⟨[2, 0, 5, 2], .float32⟩ = .error .zeroDivisionError := by rfl
example : validateSpec ⟨false, true, true⟩ [1, 2] ⟨[2, 0, 5, 2], .float32⟩ = .error .runtimeError := by rfl
example : validateSpec ⟨false, true, true⟩ [1, 7] ⟨[2, 3, 5, 2], .float16⟩ = .error .valueError := by rfl
example : validateSpec ⟨false, true, true⟩ [1, 7] ⟨[2, 3, 5, 2], .float32⟩ = .error .indexError := by rfl
example : validateSpec ⟨false, true, false⟩ [1, 7] ⟨[2, 4, 8], .float32⟩ = .error .indexError := by rfl

end DirectVerif.C01Validate
