import DirectVerif.Lemmas.C04List
/-!
Helper lemmas for C06 (and the assembly part of C04): centre block arithmetic, discs, the CIRCUS disc
search, and the structure of `assemble`.
-/
namespace DirectVerif.MaskGeom
open DirectVerif

/-! ### centre block -/

theorem centerPad_cast (n l : Nat) (h : l ≤ n) :
    centerPad (n : Int) (l : Int) = (((n - l + 1) / 2 : Nat) : Int) := by
  unfold centerPad; omega

theorem centerMask_bounds (n l : Nat) (h : l ≤ n) :
    normIdx n (centerPad n l) = (n - l + 1) / 2 ∧ normIdx n (centerPad n l + l) = (n - l + 1) / 2 + l := by
  rw [centerPad_cast n l h]
  constructor
  · exact normIdx_nonneg n _ (by omega)
  · have := normIdx_nonneg n ((n - l + 1) / 2 + l) (by omega)
    rw [Int.natCast_add] at this
    exact this

theorem getD_centerMask (n l : Nat) (h : l ≤ n) (i : Nat) :
    (centerMask n l).getD i false = decide ((n - l + 1) / 2 ≤ i ∧ i < (n - l + 1) / 2 + l) := by
  unfold centerMask
  rw [getD_sliceMask, (centerMask_bounds n l h).1, (centerMask_bounds n l h).2]
  have hb : (n - l + 1) / 2 + l ≤ n := by omega
  by_cases hc : (n - l + 1) / 2 ≤ i ∧ i < (n - l + 1) / 2 + l
  · have : i < n := by omega
    simp [hc, this]
  · have : ¬ (i < n ∧ (n - l + 1) / 2 ≤ i ∧ i < (n - l + 1) / 2 + l) := fun hh => hc hh.2
    simp [hc]

theorem length_centerMask (n : Nat) (l : Int) : (centerMask n l).length = n := by
  simp [centerMask, length_sliceMask]

theorem count_centerMask (n l : Nat) (h : l ≤ n) : (centerMask n l).count true = l := by
  unfold centerMask
  rw [count_sliceMask, (centerMask_bounds n l h).1, (centerMask_bounds n l h).2]
  omega

theorem leftCount_centerMask (n l : Nat) (h : l ≤ n) :
    leftCount (centerMask n l) = min (min ((n - l + 1) / 2 + l) (n / 2)) n - min ((n - l + 1) / 2) n := by
  unfold leftCount
  rw [length_centerMask, ← countIn_interval]
  apply countIn_congr
  intro i _
  rw [getD_centerMask n l h]
  by_cases h1 : i < n / 2 <;> by_cases h2 : (n - l + 1) / 2 ≤ i ∧ i < (n - l + 1) / 2 + l
  · have : (n - l + 1) / 2 ≤ i ∧ i < min ((n - l + 1) / 2 + l) (n / 2) := by omega
    simp [h1, h2, this]
  · have : ¬ ((n - l + 1) / 2 ≤ i ∧ i < min ((n - l + 1) / 2 + l) (n / 2)) := by omega
    simp [h1, h2, this]
  · have : ¬ ((n - l + 1) / 2 ≤ i ∧ i < min ((n - l + 1) / 2 + l) (n / 2)) := by omega
    simp [h1, this]
  · have : ¬ ((n - l + 1) / 2 ≤ i ∧ i < min ((n - l + 1) / 2 + l) (n / 2)) := by omega
    simp [h1, this]

theorem rightCount_centerMask (n l : Nat) (h : l ≤ n) :
    rightCount (centerMask n l) = min ((n - l + 1) / 2 + l) n - min (max ((n - l + 1) / 2) (n / 2 + 1)) n := by
  unfold rightCount
  rw [length_centerMask, ← countIn_interval]
  apply countIn_congr
  intro i _
  rw [getD_centerMask n l h]
  by_cases h1 : n / 2 < i <;> by_cases h2 : (n - l + 1) / 2 ≤ i ∧ i < (n - l + 1) / 2 + l
  · have : max ((n - l + 1) / 2) (n / 2 + 1) ≤ i ∧ i < (n - l + 1) / 2 + l := by omega
    simp [h1, h2, this]
  · have : ¬ (max ((n - l + 1) / 2) (n / 2 + 1) ≤ i ∧ i < (n - l + 1) / 2 + l) := by omega
    simp [h1, h2, this]
  · have : ¬ (max ((n - l + 1) / 2) (n / 2 + 1) ≤ i ∧ i < (n - l + 1) / 2 + l) := by omega
    simp [h1, this]
  · have : ¬ (max ((n - l + 1) / 2) (n / 2 + 1) ≤ i ∧ i < (n - l + 1) / 2 + l) := by omega
    simp [h1, this]

theorem centerMask_full (n : Nat) : centerMask n (n : Int) = List.replicate n true := by
  apply List.ext_getElem?
  intro i
  by_cases hi : i < n
  · have h1 := getD_centerMask n n (Nat.le_refl n) i
    rw [List.getD_eq_getElem?_getD] at h1
    have hlen : i < (centerMask n (n : Int)).length := by rw [length_centerMask]; exact hi
    rw [List.getElem?_eq_getElem hlen] at h1 ⊢
    rw [List.getElem?_replicate]
    simp only [Option.getD_some] at h1
    rw [h1]
    have : (n - n + 1) / 2 ≤ i ∧ i < (n - n + 1) / 2 + n := by omega
    simp [hi]
  · rw [List.getElem?_eq_none (by rw [length_centerMask]; omega),
      List.getElem?_eq_none (by simp; omega)]

theorem zeroPadRow_eq_centerMask (n l : Nat) (h : l ≤ n) : zeroPadRow n l = some (centerMask n l) := by
  unfold zeroPadRow zeroPadRowWith
  by_cases e : l = n
  · subst e; simp [centerMask_full]
  · have : ¬ n < l := by omega
    simp only [e, this, if_false]
    rfl

theorem length_zeroPadRow (n l : Nat) (r : List Bool) (h : zeroPadRow n l = some r) : r.length = n := by
  unfold zeroPadRow zeroPadRowWith at h
  by_cases e : l = n
  · simp only [e, if_true, Option.some.injEq] at h; rw [← h]; simp
  · by_cases e2 : n < l
    · simp [e, e2] at h
    · simp only [e, e2, if_false, Option.some.injEq] at h; rw [← h]; exact length_sliceMask _ _ _

/-! ### Magic glue -/

theorem roundDiv_pos (a b : Nat) (hb : 0 < b) (hab : b ≤ a) : roundDiv a b ≠ 0 := by
  unfold roundDiv
  have hq : 1 ≤ a / b := (Nat.le_div_iff_mul_le hb).mpr (by omega)
  simp only []
  split
  · omega
  · split
    · omega
    · split <;> omega

/-! ### discs -/

theorem sq_neg (a : Int) : sq (-a) = sq a := by unfold sq; exact Int.neg_mul_neg a a

theorem sq_nonneg (a : Int) : 0 ≤ sq a := by
  unfold sq
  by_cases h : 0 ≤ a
  · exact Int.mul_nonneg h h
  · rw [← Int.neg_mul_neg]; exact Int.mul_nonneg (by omega) (by omega)

theorem abs_lt_of_sq_lt (a r : Int) (h0 : 0 ≤ r) (h : sq a < sq r) : -r < a ∧ a < r := by
  unfold sq at h
  constructor
  · apply Int.lt_of_not_ge
    intro hc
    have hb : r ≤ -a := by omega
    have := Int.mul_le_mul hb hb h0 (by omega : (0 : Int) ≤ -a)
    rw [Int.neg_mul_neg] at this
    omega
  · apply Int.lt_of_not_ge
    intro hc
    have := Int.mul_le_mul hc hc h0 (by omega : (0 : Int) ≤ a)
    omega

theorem div_mod_cell (cols x y : Nat) (hy : y < cols) : (x * cols + y) / cols = x ∧ (x * cols + y) % cols = y := by
  have hc : 0 < cols := by omega
  constructor
  · rw [Nat.mul_comm, Nat.mul_add_div hc, Nat.div_eq_of_lt hy, Nat.add_zero]
  · rw [Nat.mul_comm, Nat.mul_add_mod, Nat.mod_eq_of_lt hy]

theorem cell_lt (rows cols x y : Nat) (hx : x < rows) (hy : y < cols) : x * cols + y < rows * cols := by
  have : (x + 1) * cols ≤ rows * cols := Nat.mul_le_mul_right cols hx
  rw [Nat.succ_mul] at this
  omega

theorem getD_centeredDisk (rows cols : Nat) (radius : Int) (x y : Nat) (hx : x < rows) (hy : y < cols) :
    (centeredDisk rows cols radius).getD (x * cols + y) false = inDisk rows cols radius x y := by
  unfold centeredDisk
  rw [List.getD_eq_getElem?_getD, List.getElem?_map, List.getElem?_range (cell_lt rows cols x y hx hy)]
  simp only [Option.map_some, Option.getD_some]
  rw [(div_mod_cell cols x y hy).1, (div_mod_cell cols x y hy).2]

theorem length_centeredDisk (rows cols : Nat) (radius : Int) : (centeredDisk rows cols radius).length = rows * cols := by
  simp [centeredDisk]

theorem length_diskLe (rows cols : Nat) (t : Int) : (diskLe rows cols t).length = rows * cols := by
  simp [diskLe]

theorem disc_mirror_bounds (rows cols : Nat) (radius : Int) (x y : Nat) (hx : x < rows) (hy : y < cols)
    (hr : radius ≤ (rows / 2 : Nat)) (hc : radius ≤ (cols / 2 : Nat)) (h0 : 0 ≤ radius)
    (hin : inDisk rows cols radius x y = true) :
    2 * (rows / 2) - x < rows ∧ 2 * (cols / 2) - y < cols ∧ x ≤ 2 * (rows / 2) ∧ y ≤ 2 * (cols / 2) := by
  unfold inDisk at hin
  simp only [decide_eq_true_eq] at hin
  have hxq : sq ((x : Int) - ((rows / 2 : Nat) : Int)) < sq radius := by
    have := sq_nonneg ((y : Int) - ((cols / 2 : Nat) : Int)); omega
  have hyq : sq ((y : Int) - ((cols / 2 : Nat) : Int)) < sq radius := by
    have := sq_nonneg ((x : Int) - ((rows / 2 : Nat) : Int)); omega
  have ax := abs_lt_of_sq_lt _ _ h0 hxq
  have ay := abs_lt_of_sq_lt _ _ h0 hyq
  omega

/-! ### CIRCUS disc search -/

theorem getD_andL (a b : List Bool) (i : Nat) : (andL a b).getD i false = (a.getD i false && b.getD i false) := by
  unfold andL
  simp only [List.getD_eq_getElem?_getD, List.getElem?_zipWith]
  cases a[i]? <;> cases b[i]? <;> simp

theorem circusDisc_spec (rows cols : Nat) (mask : List Bool) (thr : List Int) (r : List Bool)
    (h : circusDisc rows cols mask thr = some r) :
    (∃ t ∈ thr, r = andL (diskLe rows cols t) mask) ∧ ∀ i, r.getD i false = true → mask.getD i false = true := by
  induction thr with
  | nil => simp [circusDisc] at h
  | cons t rest ih =>
    unfold circusDisc at h
    simp only [] at h
    split at h
    · simp only [Option.some.injEq] at h
      subst h
      refine ⟨⟨t, by simp, rfl⟩, ?_⟩
      intro i hi
      rw [getD_andL] at hi
      simp only [Bool.and_eq_true] at hi
      exact hi.2
    · obtain ⟨⟨t', ht', e⟩, hsub⟩ := ih h
      exact ⟨⟨t', by simp [ht'], e⟩, hsub⟩

theorem circusDisc_none_iff (rows cols : Nat) (mask : List Bool) (thr : List Int) :
    circusDisc rows cols mask thr = none ↔
      ∀ t ∈ thr, ¬ (10 * (diskLe rows cols t).count true > 11 * (andL (diskLe rows cols t) mask).count true) := by
  induction thr with
  | nil => simp [circusDisc]
  | cons t rest ih =>
    unfold circusDisc
    simp only []
    split
    · rename_i hc
      simp only [reduceCtorEq, false_iff]
      intro hall
      exact hall t (by simp) hc
    · rename_i hc
      rw [ih]
      constructor
      · intro hall t' ht'
        rcases List.mem_cons.mp ht' with e | e
        · subst e; exact hc
        · exact hall t' e
      · intro hall t' ht'
        exact hall t' (by simp [ht'])

theorem andL_replicate_true (a : List Bool) : andL a (List.replicate a.length true) = a := by
  unfold andL
  induction a with
  | nil => rfl
  | cons x xs ih => simp [List.replicate_succ, ih]

theorem circusDisc_full (rows cols : Nat) (thr : List Int) :
    circusDisc rows cols (List.replicate (rows * cols) true) thr = none := by
  rw [circusDisc_none_iff]
  intro t _
  have := andL_replicate_true (diskLe rows cols t)
  rw [length_diskLe] at this
  rw [this]
  omega

/-! ### structure of `assemble` -/

theorem getElem?_orL_of_right (p a : List Bool) (hl : p.length = a.length) (j : Nat)
    (h : a[j]? = some true) : (orL p a)[j]? = some true := by
  unfold orL
  rw [List.getElem?_zipWith]
  have hj : j < a.length := by
    rcases Nat.lt_or_ge j a.length with h1 | h1
    · exact h1
    · rw [List.getElem?_eq_none h1] at h; cases h
  have hp : j < p.length := by omega
  rw [List.getElem?_eq_getElem hp, h]
  simp

theorem length_orL (p a : List Bool) (hl : p.length = a.length) : (orL p a).length = a.length := by
  unfold orL; simp [hl]

theorem append_subset (a b a' b' : List Bool) (hl : a.length = a'.length)
    (ha : ∀ j : Nat, a[j]? = some true → a'[j]? = some true) (hb : ∀ j : Nat, b[j]? = some true → b'[j]? = some true) :
    ∀ i : Nat, (a ++ b)[i]? = some true → (a' ++ b')[i]? = some true := by
  intro i h
  by_cases hi : i < a.length
  · rw [List.getElem?_append_left hi] at h
    rw [List.getElem?_append_left (by omega)]
    exact ha i h
  · rw [List.getElem?_append_right (by omega)] at h
    rw [List.getElem?_append_right (by omega), ← hl]
    exact hb _ h

theorem tileRows_succ {α} (r : Nat) (x : List α) : tileRows (r + 1) x = x ++ tileRows r x := by
  simp [tileRows, List.replicate_succ]

theorem tileRows_subset (r : Nat) (a b : List Bool) (hl : a.length = b.length)
    (h : ∀ j : Nat, a[j]? = some true → b[j]? = some true) :
    ∀ i : Nat, (tileRows r a)[i]? = some true → (tileRows r b)[i]? = some true := by
  induction r with
  | zero => intro i hi; simp [tileRows] at hi
  | succ r ih =>
    rw [tileRows_succ, tileRows_succ]
    exact append_subset a _ b _ hl h ih

theorem flatten_map_subset {α} (l : List α) (f g : α → List Bool)
    (h : ∀ p ∈ l, (f p).length = (g p).length ∧ ∀ j : Nat, (f p)[j]? = some true → (g p)[j]? = some true) :
    ∀ i : Nat, (l.map f).flatten[i]? = some true → (l.map g).flatten[i]? = some true := by
  induction l with
  | nil => intro i hi; simp at hi
  | cons p ps ih =>
    simp only [List.map_cons, List.flatten_cons]
    exact append_subset _ _ _ _ (h p (by simp)).1 (h p (by simp)).2
      (ih fun q hq => h q (by simp [hq]))

theorem acsFrame_length (fam : Family) (rows cols : Nat) (spec : AcsSpec) (p a : List Bool)
    (hp : p.length = patLen fam rows cols) (h : acsFrame fam rows cols spec p = some a) :
    a.length = patLen fam rows cols := by
  unfold acsFrame at h
  cases fam <;> cases spec <;> simp only [patLen, reduceCtorEq] at h hp ⊢
  · simp only [Option.some.injEq] at h; rw [← h]; exact length_centerMask _ _
  · split at h
    · cases h
    · exact length_zeroPadRow _ _ _ h
  · simp only [Option.some.injEq] at h; rw [← h]; exact length_centeredDisk _ _ _
  · obtain ⟨⟨t, _, e⟩, _⟩ := circusDisc_spec _ _ _ _ _ h
    rw [e]; unfold andL; simp [length_diskLe, hp]

theorem frameData_length (fam : Family) (rows cols : Nat) (pat : List Bool) (h : pat.length = patLen fam rows cols) :
    (frameData fam rows pat).length = rows * cols := by
  cases fam <;> simp only [frameData, patLen] at h ⊢
  · rw [length_tileRows, h]
  · rw [length_tileRows, h]
  · exact h

theorem frameData_subset (fam : Family) (rows : Nat) (a b : List Bool) (hl : a.length = b.length)
    (h : ∀ j : Nat, a[j]? = some true → b[j]? = some true) :
    ∀ i : Nat, (frameData fam rows a)[i]? = some true → (frameData fam rows b)[i]? = some true := by
  cases fam <;> simp only [frameData]
  · exact tileRows_subset rows a b hl h
  · exact tileRows_subset rows a b hl h
  · exact h

theorem frameData_length_eq (fam : Family) (rows : Nat) (a b : List Bool) (hl : a.length = b.length) :
    (frameData fam rows a).length = (frameData fam rows b).length := by
  cases fam <;> simp only [frameData, length_tileRows, hl]

/-- what `assemble` returns when it returns -/
theorem assemble_ok_iff (g : Gen) (m : Mode) (shape : List Nat) (spec : AcsSpec) (racs : Bool)
    (interior : List (List Bool)) (t : Tensor Bool) (h : assemble g m shape spec racs interior = .ok t) :
    callRejects m.framed shape.length = false ∧
    (∀ p ∈ interior, (acsFrame g.family (rowsOf shape) (colsOf shape) spec p).isSome) ∧
    t.shape = maskShape m shape ∧
    t.data = (interior.map fun p => frameData g.family (rowsOf shape)
      (framePattern racs p ((acsFrame g.family (rowsOf shape) (colsOf shape) spec p).getD []))).flatten ∧
    neededRank m ≤ shape.length ∧ t.data.length = prod (maskShapeNoCoil m shape) := by
  unfold assemble at h
  unfold callGuard at h
  by_cases hc : callRejects m.framed shape.length = true
  · simp [hc] at h
  · simp only [hc, Bool.false_eq_true, if_false] at h
    by_cases hk : g.isKt = true
    · simp only [hk, if_true] at h
      unfold ktGuard at h
      by_cases hr : shape.length = 4 ∨ shape.length = 5
      · simp only [hr, if_true] at h
        exact assemble_tail g m shape spec racs interior t (by simpa using hc) h
      · simp [hr] at h
    · simp only [hk, Bool.false_eq_true, if_false] at h
      exact assemble_tail g m shape spec racs interior t (by simpa using hc) h
where
  assemble_tail (g : Gen) (m : Mode) (shape : List Nat) (spec : AcsSpec) (racs : Bool)
      (interior : List (List Bool)) (t : Tensor Bool) (hc : callRejects m.framed shape.length = false)
      (h : (match assembleFrames g.family (rowsOf shape) (colsOf shape) spec racs interior with
        | none => Except.error Err.valueError
        | some frames => reshapeAndAddCoil m
            { shape := [frames.length, rowsOf shape, colsOf shape],
              data := frames.flatten.map fun (b : Bool) => if b then (1 : Int) else 0 } shape) = .ok t) :
      callRejects m.framed shape.length = false ∧
      (∀ p ∈ interior, (acsFrame g.family (rowsOf shape) (colsOf shape) spec p).isSome) ∧
      t.shape = maskShape m shape ∧
      t.data = (interior.map fun p => frameData g.family (rowsOf shape)
        (framePattern racs p ((acsFrame g.family (rowsOf shape) (colsOf shape) spec p).getD []))).flatten ∧
      neededRank m ≤ shape.length ∧ t.data.length = prod (maskShapeNoCoil m shape) := by
    unfold assembleFrames at h
    by_cases ha : (interior.all fun p => (acsFrame g.family (rowsOf shape) (colsOf shape) spec p).isSome) = true
    · simp only [ha, if_true] at h
      unfold reshapeAndAddCoil at h
      split at h
      · cases h
      · rename_i hrank
        split at h
        · cases h
        · rename_i hlen
          simp only [Except.ok.injEq] at h
          subst h
          refine ⟨hc, ?_, rfl, ?_, by omega, ?_⟩
          · intro p hp; exact List.all_eq_true.mp ha p hp
          · simp only [bool_roundtrip]
          · simp only [List.length_map] at hlen ⊢
            omega
    · simp [ha] at h

theorem assemble_acs_subset (g : Gen) (m : Mode) (shape : List Nat) (spec : AcsSpec) (interior : List (List Bool))
    (hlen : ∀ p ∈ interior, p.length = patLen g.family (rowsOf shape) (colsOf shape))
    (ta tm : Tensor Bool) (ha : assemble g m shape spec true interior = .ok ta)
    (hm : assemble g m shape spec false interior = .ok tm) :
    ta.shape = tm.shape ∧ ∀ i : Nat, ta.data[i]? = some true → tm.data[i]? = some true := by
  obtain ⟨_, hsome, hsa, hda, _, _⟩ := assemble_ok_iff g m shape spec true interior ta ha
  obtain ⟨_, _, hsm, hdm, _, _⟩ := assemble_ok_iff g m shape spec false interior tm hm
  refine ⟨by rw [hsa, hsm], ?_⟩
  rw [hda, hdm]
  apply flatten_map_subset
  intro p hp
  have hs := hsome p hp
  obtain ⟨a, ea⟩ := Option.isSome_iff_exists.mp hs
  have hal := acsFrame_length _ _ _ _ p a (hlen p hp) ea
  have hpl : p.length = a.length := by rw [hal, hlen p hp]
  simp only [ea, Option.getD_some, framePattern, if_true, Bool.false_eq_true, if_false]
  refine ⟨frameData_length_eq _ _ _ _ (by rw [length_orL p a hpl]), ?_⟩
  apply frameData_subset _ _ _ _ (by rw [length_orL p a hpl])
  intro j hj
  exact getElem?_orL_of_right p a hpl j hj

end DirectVerif.MaskGeom
