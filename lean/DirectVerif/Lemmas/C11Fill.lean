import DirectVerif.Lemmas.C11Grid
/-!
# C11 helper lemmas — the rejection loop of `gaussian_fill`
-/
namespace DirectVerif.C11
open DirectVerif DirectVerif.SslSplit

/-- the kernel's range test on a candidate -/
def InRange (nrow ncol : Nat) (c : Int × Int) : Prop := 0 ≤ c.1 ∧ c.1 < nrow ∧ 0 ≤ c.2 ∧ c.2 < ncol

instance (nrow ncol : Nat) (c : Int × Int) : Decidable (InRange nrow ncol c) := by
  unfold InRange; infer_instance

theorem b2i_eq_one (b : Bool) : (b2i b == 1) = b := by cases b <;> decide
theorem b2i_ne_one (b : Bool) : (b2i b != 1) = !b := by cases b <;> decide

theorem accepts_some {nrow ncol : Nat} {mask out : Grid} {c : Int × Int} {k : Nat}
    (h : accepts nrow ncol mask out c = some k) :
    k = flatIdx ncol c ∧ InRange nrow ncol c ∧ cell mask k = true ∧ cell out k = false := by
  unfold accepts at h
  simp only at h
  split at h
  · rename_i ht
    injection h with hk
    subst hk
    simp only [acceptTest, b2i_eq_one, b2i_ne_one, Bool.and_eq_true, decide_eq_true_eq, Bool.not_eq_true'] at ht
    exact ⟨rfl, ⟨ht.1.1.1.1, ht.1.1.1.2, ht.1.1.2.1, ht.1.1.2.2⟩, ht.1.2, ht.2⟩
  · cases h

theorem accepts_of {nrow ncol : Nat} {mask out : Grid} {c : Int × Int}
    (hr : InRange nrow ncol c) (hm : cell mask (flatIdx ncol c) = true) (ho : cell out (flatIdx ncol c) = false) :
    accepts nrow ncol mask out c = some (flatIdx ncol c) := by
  unfold accepts
  simp only
  have : acceptTest c.1 c.2 nrow ncol (b2i (mask.getD (flatIdx ncol c) false)) (b2i (out.getD (flatIdx ncol c) false)) = true := by
    simp only [acceptTest, b2i_eq_one, b2i_ne_one, Bool.and_eq_true, decide_eq_true_eq, Bool.not_eq_true']
    exact ⟨⟨⟨⟨hr.1, hr.2.1⟩, hr.2.2.1, hr.2.2.2⟩, hm⟩, ho⟩
  rw [if_pos this]

theorem accepts_none_chosen {nrow ncol : Nat} {mask out : Grid} {c : Int × Int}
    (hr : InRange nrow ncol c) (hm : cell mask (flatIdx ncol c) = true)
    (h : accepts nrow ncol mask out c = none) : cell out (flatIdx ncol c) = true := by
  cases ho : cell out (flatIdx ncol c) with
  | true => rfl
  | false => rw [accepts_of hr hm ho] at h; cases h

/-- loop invariant of the kernel: the output mask has the length of the mask, lies inside it, and `count` is
its number of cells; `count` never exceeds `n + 1` -/
structure Inv (n : Int) (mask : Grid) (st : Int × Grid) : Prop where
  len : st.2.length = mask.length
  sub : Sub st.2 mask
  cnt_eq : (cnt st.2 : Int) = st.1
  le : st.1 ≤ max (n + 1) 0

theorem inv_init (n : Int) (mask : Grid) : Inv n mask (0, zeros mask.length) where
  len := by simp
  sub := fun k hk => by rw [cell_zeros] at hk; cases hk
  cnt_eq := by simp [cnt_zeros]
  le := by omega

theorem inv_step {n : Int} {nrow ncol : Nat} {mask : Grid} {st : Int × Grid} (c : Int × Int)
    (h : Inv n mask st) : Inv n mask (fillStep n nrow ncol mask st c) := by
  unfold fillStep
  by_cases hg : loopGuard st.1 n = true
  · rw [if_pos hg]
    cases ha : accepts nrow ncol mask st.2 c with
    | none => exact h
    | some k =>
      obtain ⟨_, _, hm, ho⟩ := accepts_some ha
      have hk : k < st.2.length := by rw [h.len]; exact cell_true_lt _ _ hm
      have hgn : st.1 ≤ n := by simpa [loopGuard] using hg
      refine ⟨by simpa using h.len, ?_, ?_, ?_⟩
      · intro j hj
        rw [cell_set_true _ _ _ hk] at hj
        by_cases e : k = j
        · subst e; exact hm
        · simp [e] at hj; exact h.sub j hj
      · show (cnt (st.2.set k true) : Int) = st.1 + 1
        rw [cnt_set_true _ _ hk ho]; have := h.cnt_eq; omega
      · show st.1 + 1 ≤ max (n + 1) 0
        omega
  · rw [if_neg hg]; exact h

theorem inv_run {n : Int} {nrow ncol : Nat} {mask : Grid} (cs : List (Int × Int)) :
    ∀ {st : Int × Grid}, Inv n mask st → Inv n mask (fillRun n nrow ncol mask st cs) := by
  induction cs with
  | nil => intro st h; exact h
  | cons c cs ih => intro st h; exact ih (inv_step c h)

/-- `count` and the output mask only grow -/
theorem step_mono {n : Int} {nrow ncol : Nat} {mask : Grid} {st : Int × Grid} (c : Int × Int) (h : Inv n mask st) :
    st.1 ≤ (fillStep n nrow ncol mask st c).1 ∧ Sub st.2 (fillStep n nrow ncol mask st c).2 := by
  unfold fillStep
  by_cases hg : loopGuard st.1 n = true
  · rw [if_pos hg]
    cases ha : accepts nrow ncol mask st.2 c with
    | none => exact ⟨Int.le_refl _, fun _ hk => hk⟩
    | some k =>
      obtain ⟨_, _, hm, _⟩ := accepts_some ha
      have hk : k < st.2.length := by rw [h.len]; exact cell_true_lt _ _ hm
      refine ⟨by show st.1 ≤ st.1 + 1; omega, fun j hj => ?_⟩
      show cell (st.2.set k true) j = true
      rw [cell_set_true _ _ _ hk, hj]; simp
  · rw [if_neg hg]; exact ⟨Int.le_refl _, fun _ hk => hk⟩

theorem run_mono {n : Int} {nrow ncol : Nat} {mask : Grid} (cs : List (Int × Int)) :
    ∀ {st : Int × Grid}, Inv n mask st →
      st.1 ≤ (fillRun n nrow ncol mask st cs).1 ∧ Sub st.2 (fillRun n nrow ncol mask st cs).2 := by
  induction cs with
  | nil => intro st _; exact ⟨Int.le_refl _, fun _ hk => hk⟩
  | cons c cs ih =>
    intro st h
    have h1 := step_mono (nrow := nrow) (ncol := ncol) c h
    have h2 := ih (inv_step (nrow := nrow) (ncol := ncol) c h)
    exact ⟨Int.le_trans h1.1 h2.1, fun k hk => h2.2 k (h1.2 k hk)⟩

/-- a free cell whose candidate went by while the loop was still running has been chosen -/
theorem run_covers {n : Int} {nrow ncol : Nat} {mask : Grid} (cs : List (Int × Int)) :
    ∀ {st : Int × Grid}, Inv n mask st → (fillRun n nrow ncol mask st cs).1 ≤ n →
      ∀ c ∈ cs, InRange nrow ncol c → cell mask (flatIdx ncol c) = true →
        cell (fillRun n nrow ncol mask st cs).2 (flatIdx ncol c) = true := by
  induction cs with
  | nil => intro st _ _ c hc; cases hc
  | cons c' cs ih =>
    intro st h hend c hc hr hm
    have hi' := inv_step (nrow := nrow) (ncol := ncol) c' h
    rcases List.mem_cons.mp hc with e | hin
    · subst e
      have hmono := run_mono (nrow := nrow) (ncol := ncol) cs hi'
      apply hmono.2
      -- the guard held when `c` was drawn
      have hst : st.1 ≤ n := by
        have := (step_mono (nrow := nrow) (ncol := ncol) c h).1
        have := hmono.1
        show st.1 ≤ n
        simp only [fillRun, List.foldl_cons] at hend
        simp only [fillRun] at hmono
        omega
      have hg : loopGuard st.1 n = true := by simpa [loopGuard] using hst
      show cell (fillStep n nrow ncol mask st c).2 (flatIdx ncol c) = true
      unfold fillStep
      rw [if_pos hg]
      cases ha : accepts nrow ncol mask st.2 c with
      | none => exact accepts_none_chosen hr hm ha
      | some k =>
        obtain ⟨hk, _, hm', _⟩ := accepts_some ha
        have hkl : k < st.2.length := by rw [h.len]; exact cell_true_lt _ _ hm'
        show cell (st.2.set k true) (flatIdx ncol c) = true
        rw [cell_set_true _ _ _ hkl, hk]; simp
    · exact ih hi' hend c hin hr hm

/-- every free cell occurs among the candidates -/
def Covers (nrow ncol : Nat) (mask : Grid) (cs : List (Int × Int)) : Prop :=
  ∀ k, cell mask k = true → ∃ c ∈ cs, InRange nrow ncol c ∧ flatIdx ncol c = k

/-! ### results about `gaussianFill` -/

theorem fill_some {n : Int} {nrow ncol : Nat} {mask : Grid} {cs : List (Int × Int)} {r : Grid}
    (h : gaussianFill n nrow ncol mask (zeros mask.length) cs = some r) :
    r.length = mask.length ∧ Sub r mask ∧ cnt r = (n + 1).toNat := by
  unfold gaussianFill at h
  simp only at h
  have hi := inv_run (nrow := nrow) (ncol := ncol) cs (inv_init n mask)
  split at h
  · cases h
  · rename_i hg
    injection h with hr
    subst hr
    have hgn : ¬ (fillRun n nrow ncol mask (0, zeros mask.length) cs).1 ≤ n := by simpa [loopGuard] using hg
    have h0 := (run_mono (nrow := nrow) (ncol := ncol) cs (inv_init n mask)).1
    refine ⟨hi.len, hi.sub, ?_⟩
    have := hi.cnt_eq
    have := hi.le
    simp only at h0
    omega

theorem fill_none_of_infeasible {n : Int} {nrow ncol : Nat} {mask : Grid} (cs : List (Int × Int))
    (h : (cnt mask : Int) < n + 1) : gaussianFill n nrow ncol mask (zeros mask.length) cs = none := by
  cases hr : gaussianFill n nrow ncol mask (zeros mask.length) cs with
  | none => rfl
  | some r =>
    obtain ⟨hl, hs, hc⟩ := fill_some hr
    have := cnt_le_of_sub r mask hl hs
    omega

theorem fill_some_of_covers {n : Int} {nrow ncol : Nat} {mask : Grid} {cs : List (Int × Int)}
    (hc : Covers nrow ncol mask cs) (hf : n + 1 ≤ (cnt mask : Int)) :
    (gaussianFill n nrow ncol mask (zeros mask.length) cs).isSome = true := by
  unfold gaussianFill
  simp only
  have hi := inv_run (nrow := nrow) (ncol := ncol) cs (inv_init n mask)
  split
  · rename_i hg
    exfalso
    have hgn : (fillRun n nrow ncol mask (0, zeros mask.length) cs).1 ≤ n := by simpa [loopGuard] using hg
    have hs : Sub mask (fillRun n nrow ncol mask (0, zeros mask.length) cs).2 := by
      intro k hk
      obtain ⟨c, hc1, hc2, hc3⟩ := hc k hk
      have := run_covers (nrow := nrow) (ncol := ncol) cs (inv_init n mask) hgn c hc1 hc2 (by rw [hc3]; exact hk)
      rwa [hc3] at this
    have := cnt_le_of_sub _ _ hi.len.symm hs
    have := hi.cnt_eq
    omega
  · rfl

/-- a stream in which every free cell occurs at least once has a covering prefix -/
theorem covering_prefix {nrow ncol : Nat} {mask : Grid} (s : Nat → Int × Int)
    (h : ∀ k, cell mask k = true → ∃ m, InRange nrow ncol (s m) ∧ flatIdx ncol (s m) = k) :
    ∃ fuel, Covers nrow ncol mask (streamPrefix s fuel) := by
  have key : ∀ L, ∃ M, ∀ k, k < L → cell mask k = true → ∃ m, m < M ∧ InRange nrow ncol (s m) ∧ flatIdx ncol (s m) = k := by
    intro L
    induction L with
    | zero => exact ⟨0, fun k hk => by omega⟩
    | succ L ih =>
      obtain ⟨M, hM⟩ := ih
      by_cases hL : cell mask L = true
      · obtain ⟨m, hm⟩ := h L hL
        refine ⟨max M (m + 1), fun k hk hc => ?_⟩
        by_cases e : k = L
        · subst e; exact ⟨m, by omega, hm⟩
        · obtain ⟨m', h1, h2⟩ := hM k (by omega) hc
          exact ⟨m', by omega, h2⟩
      · refine ⟨M, fun k hk hc => ?_⟩
        by_cases e : k = L
        · subst e; exact absurd hc hL
        · exact hM k (by omega) hc
  obtain ⟨M, hM⟩ := key mask.length
  refine ⟨M, fun k hk => ?_⟩
  obtain ⟨m, h1, h2⟩ := hM k (cell_true_lt _ _ hk) hk
  refine ⟨s m, ?_, h2⟩
  simp only [streamPrefix, List.mem_map, List.mem_range]
  exact ⟨m, h1, rfl⟩

/-! ### repeated candidates are no-ops -/

/-- candidate `c` cannot change state `st` any more -/
def Dead (n : Int) (nrow ncol : Nat) (mask : Grid) (st : Int × Grid) (c : Int × Int) : Prop :=
  fillStep n nrow ncol mask st c = st

theorem dead_of_guard {n : Int} {nrow ncol : Nat} {mask : Grid} {st : Int × Grid} (c : Int × Int)
    (h : loopGuard st.1 n = false) : Dead n nrow ncol mask st c := by
  unfold Dead fillStep; rw [h]; simp

theorem dead_of_none {n : Int} {nrow ncol : Nat} {mask : Grid} {st : Int × Grid} {c : Int × Int}
    (h : accepts nrow ncol mask st.2 c = none) : Dead n nrow ncol mask st c := by
  unfold Dead fillStep; rw [h]; split <;> rfl

theorem dead_cases {n : Int} {nrow ncol : Nat} {mask : Grid} {st : Int × Grid} {c : Int × Int}
    (h : Dead n nrow ncol mask st c) : loopGuard st.1 n = false ∨ accepts nrow ncol mask st.2 c = none := by
  unfold Dead fillStep at h
  cases hg : loopGuard st.1 n with
  | false => exact Or.inl rfl
  | true =>
    rw [hg] at h
    simp only [if_true] at h
    cases ha : accepts nrow ncol mask st.2 c with
    | none => exact Or.inr rfl
    | some k =>
      rw [ha] at h
      simp only at h
      have : st.1 + 1 = st.1 := congrArg Prod.fst h
      omega

theorem accepts_none_of_chosen {nrow ncol : Nat} {mask out : Grid} {c : Int × Int}
    (h : cell out (flatIdx ncol c) = true) : accepts nrow ncol mask out c = none := by
  cases ha : accepts nrow ncol mask out c with
  | none => rfl
  | some k =>
    obtain ⟨hk, _, _, ho⟩ := accepts_some ha
    rw [hk, h] at ho; cases ho

theorem step_dead_self {n : Int} {nrow ncol : Nat} {mask : Grid} {st : Int × Grid} (c : Int × Int)
    (h : Inv n mask st) : Dead n nrow ncol mask (fillStep n nrow ncol mask st c) c := by
  cases hg : loopGuard st.1 n with
  | false =>
    have e : fillStep n nrow ncol mask st c = st := dead_of_guard c hg
    rw [e]; exact e
  | true =>
    cases ha : accepts nrow ncol mask st.2 c with
    | none =>
      have e : fillStep n nrow ncol mask st c = st := dead_of_none ha
      rw [e]; exact e
    | some k =>
      obtain ⟨hk, _, hm, _⟩ := accepts_some ha
      have hkl : k < st.2.length := by rw [h.len]; exact cell_true_lt _ _ hm
      have e : fillStep n nrow ncol mask st c = (st.1 + 1, st.2.set k true) := by
        unfold fillStep; rw [hg, ha]; rfl
      rw [e]
      apply dead_of_none
      apply accepts_none_of_chosen
      show cell (st.2.set k true) (flatIdx ncol c) = true
      rw [cell_set_true _ _ _ hkl, hk]; simp

theorem step_dead_mono {n : Int} {nrow ncol : Nat} {mask : Grid} {st : Int × Grid} (c c' : Int × Int)
    (h : Inv n mask st) (hd : Dead n nrow ncol mask st c) :
    Dead n nrow ncol mask (fillStep n nrow ncol mask st c') c := by
  have hm := step_mono (nrow := nrow) (ncol := ncol) c' h
  rcases dead_cases hd with hg | hn
  · apply dead_of_guard
    have : ¬ st.1 ≤ n := by simpa [loopGuard] using hg
    have h1 := hm.1
    simp only [loopGuard, decide_eq_false_iff_not]
    omega
  · apply dead_of_none
    cases ha : accepts nrow ncol mask (fillStep n nrow ncol mask st c').2 c with
    | none => rfl
    | some k =>
      exfalso
      obtain ⟨hk, hr, hmk, ho⟩ := accepts_some ha
      have ho' : cell st.2 (flatIdx ncol c) = false := by
        cases hc : cell st.2 (flatIdx ncol c) with
        | false => rfl
        | true => rw [hk, hm.2 _ hc] at ho; cases ho
      rw [accepts_of hr (hk ▸ hmk) ho'] at hn
      cases hn

theorem run_dedupFrom {n : Int} {nrow ncol : Nat} {mask : Grid} (cs : List (Int × Int)) :
    ∀ (seen : List (Int × Int)) {st : Int × Grid}, Inv n mask st → (∀ c ∈ seen, Dead n nrow ncol mask st c) →
      fillRun n nrow ncol mask st (dedupFrom seen cs) = fillRun n nrow ncol mask st cs := by
  induction cs with
  | nil => intro seen st _ _; rfl
  | cons c cs ih =>
    intro seen st hi hd
    by_cases hc : seen.contains c = true
    · have hmem : c ∈ seen := by simpa using hc
      have e : fillStep n nrow ncol mask st c = st := hd c hmem
      simp only [dedupFrom, hc, if_true, fillRun, List.foldl_cons, e]
      exact ih seen hi hd
    · simp only [dedupFrom, hc, Bool.false_eq_true, if_false, fillRun, List.foldl_cons]
      apply ih (c :: seen) (inv_step c hi)
      intro c' hc'
      rcases List.mem_cons.mp hc' with e | hin
      · subst e; exact step_dead_self c' hi
      · exact step_dead_mono c' c hi (hd c' hin)

/-- **Repeated candidates do not matter**: the kernel's result on a candidate list equals its result on the
list of first occurrences -/
theorem gaussianFill_dedup (n : Int) (nrow ncol : Nat) (mask : Grid) (cs : List (Int × Int)) :
    gaussianFill n nrow ncol mask (zeros mask.length) (dedup cs) = gaussianFill n nrow ncol mask (zeros mask.length) cs := by
  unfold gaussianFill dedup
  simp only
  rw [run_dedupFrom cs [] (inv_init n mask) (fun c hc => by cases hc)]

theorem run_of_done {n : Int} {nrow ncol : Nat} {mask : Grid} (more : List (Int × Int)) :
    ∀ {st : Int × Grid}, loopGuard st.1 n = false → fillRun n nrow ncol mask st more = st := by
  induction more with
  | nil => intro st _; rfl
  | cons c cs ih =>
    intro st h
    have e : fillStep n nrow ncol mask st c = st := dead_of_guard c h
    simp only [fillRun, List.foldl_cons, e]
    exact ih h

/-- once the kernel has returned, further candidates are not consumed: the result is stable under extending
the prefix -/
theorem gaussianFill_stable {n : Int} {nrow ncol : Nat} {mask out : Grid} {cs : List (Int × Int)} {r : Grid}
    (h : gaussianFill n nrow ncol mask out cs = some r) (more : List (Int × Int)) :
    gaussianFill n nrow ncol mask out (cs ++ more) = some r := by
  unfold gaussianFill at h ⊢
  simp only at h ⊢
  have e : fillRun n nrow ncol mask (0, out) (cs ++ more)
      = fillRun n nrow ncol mask (fillRun n nrow ncol mask (0, out) cs) more := by
    simp [fillRun, List.foldl_append]
  split at h
  · cases h
  · rename_i hg
    have hg' : loopGuard (fillRun n nrow ncol mask (0, out) cs).1 n = false := by simpa using hg
    rw [e, run_of_done more hg', if_neg hg]
    exact h

end DirectVerif.C11
