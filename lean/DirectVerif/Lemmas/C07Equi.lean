import DirectVerif.Lemmas.C07
import Mathlib.Tactic.Linarith
import Mathlib.Tactic.Ring
import Mathlib.Tactic.FieldSimp
import Mathlib.Tactic.Positivity
/-!
# Helper lemmas for C07 (equispaced masks): counting over `List.range`, the rounded grid
`np.around(np.arange(offset, N - 1, a))` is strictly increasing and inside the row for `a > 1`, the
realised count decomposes as ACS + grid points outside the ACS block, and the resulting bounds.
-/
set_option linter.unusedSimpArgs false
set_option linter.unnecessarySeqFocus false
namespace DirectVerif.MaskBudget

/-- counting an interval inside `range n` -/
theorem countP_interval (lo hi : Int) (n : Nat) (h : lo ≤ hi) (h0 : 0 ≤ lo) :
    (List.range n).countP (fun (i : Nat) => decide (lo ≤ (i : Int)) && decide ((i : Int) < hi)) =
      (min hi n - min lo n).toNat := by
  induction n with
  | zero => simp; omega
  | succ n ih =>
    rw [List.range_succ, List.countP_append, ih]
    simp only [List.countP_cons, List.countP_nil, Bool.and_eq_true, decide_eq_true_eq]
    split_ifs with hc <;> push_cast <;> omega

theorem countP_or_disj {α} (p q : α → Bool) (l : List α) :
    l.countP (fun x => p x || q x) = l.countP p + l.countP (fun x => !p x && q x) := by
  induction l with
  | nil => simp
  | cons x l ih =>
    simp only [List.countP_cons, ih]
    cases p x <;> cases q x <;> simp <;> omega

/-- a duplicate-free list of integers inside `[0, n)` is counted exactly by membership over `range n` -/
theorem countP_mem_nodup (Q : List Int) (n : Nat) (hn : Q.Nodup) (hr : ∀ q ∈ Q, 0 ≤ q ∧ q < n) :
    (List.range n).countP (fun (i : Nat) => Q.contains (i : Int)) = Q.length := by
  induction Q with
  | nil => simp
  | cons q Q ih =>
    have hq := hr q List.mem_cons_self
    rw [List.nodup_cons] at hn
    have e : (fun (i : Nat) => (q :: Q).contains (i : Int)) =
        (fun (i : Nat) => (decide ((i : Int) = q)) || Q.contains (i : Int)) := by
      funext i; simp [List.contains_cons, eq_comm]
    rw [e, countP_or_disj]
    have h1 : (List.range n).countP (fun (i : Nat) => decide ((i : Int) = q)) = 1 := by
      have := countP_interval q (q + 1) n (by omega) hq.1
      have e2 : (fun (i : Nat) => decide ((i : Int) = q)) =
          (fun (i : Nat) => decide (q ≤ (i : Int)) && decide ((i : Int) < q + 1)) := by
        funext i; by_cases h : (i : Int) = q <;> simp [h] <;> omega
      rw [e2, this]; omega
    have h2 : (List.range n).countP (fun (i : Nat) => !(decide ((i : Int) = q)) && Q.contains (i : Int)) =
        (List.range n).countP (fun (i : Nat) => Q.contains (i : Int)) := by
      apply List.countP_congr
      intro i _
      by_cases h : (i : Int) = q
      · simp [h, hn.1]
      · simp [h]
    rw [h1, h2, ih hn.2 (fun x hx => hr x (List.mem_cons_of_mem _ hx))]
    simp; omega


/-- grid size: the `np.arange` length brackets the exact quotient -/
theorem arangeLen_bounds (start stop step : ℚ) (hs : 0 < step) (h : start ≤ stop) :
    (stop - start) / step ≤ (arangeLen start stop step : ℚ) ∧
    (arangeLen start stop step : ℚ) < (stop - start) / step + 1 := by
  unfold arangeLen
  have hq : 0 ≤ (stop - start) / step := div_nonneg (by linarith) hs.le
  have hc : 0 ≤ ((stop - start) / step).ceil := by
    rw [ceil_eq]; exact Int.ceil_nonneg hq
  have e : ((((stop - start) / step).ceil.toNat : ℕ) : ℚ) = ((((stop - start) / step).ceil : ℤ) : ℚ) := by
    have : ((((stop - start) / step).ceil.toNat : ℕ) : ℤ) = ((stop - start) / step).ceil := Int.toNat_of_nonneg hc
    exact_mod_cast this
  rw [e, ceil_eq]
  exact ⟨Int.le_ceil _, Int.ceil_lt_add_one _⟩

/-- the j-th unrounded grid point lies below `N − 1` -/
theorem grid_lt (N : Int) (a : ℚ) (off : Int) (ha : 0 < a) (j : Nat)
    (hj : j < arangeLen off (N - 1) a) : (off : ℚ) + (j : ℚ) * a < (N : ℚ) - 1 := by
  unfold arangeLen at hj
  have hj' : ((j : ℤ)) < (((N : ℚ) - 1 - off) / a).ceil := by
    have := hj
    omega
  rw [ceil_eq, Int.lt_ceil] at hj'
  rw [lt_div_iff₀ ha] at hj'
  push_cast at hj'
  linarith

theorem positions_length (N : Int) (a : ℚ) (off : Int) :
    (equiPositions N a off).length = arangeLen off (N - 1) a := by
  simp [equiPositions]

theorem positions_get (N : Int) (a : ℚ) (off : Int) (j : Nat) (hj : j < arangeLen off (N - 1) a) :
    (equiPositions N a off)[j]? = some (roundHalfEven ((off : ℚ) + (j : ℚ) * a)) := by
  simp [equiPositions, hj]

/-- every rounded grid point is a column index in `[off, N − 1]` -/
theorem positions_range (N : Int) (a : ℚ) (off : Int) (ha : 0 < a) :
    ∀ p ∈ equiPositions N a off, off ≤ p ∧ p ≤ N - 1 := by
  intro p hp
  simp only [equiPositions, List.mem_map, List.mem_range] at hp
  obtain ⟨j, hj, rfl⟩ := hp
  have hlt := grid_lt N a off ha j hj
  have hlo := rnd_lower ((off : ℚ) + (j : ℚ) * a)
  have hup := rnd_upper ((off : ℚ) + (j : ℚ) * a)
  have hja : 0 ≤ (j : ℚ) * a := by positivity
  constructor
  · have : ((off : ℚ)) - 1 / 2 ≤ (roundHalfEven ((off : ℚ) + (j : ℚ) * a) : ℚ) := by linarith
    have h2 : ((off : ℤ) : ℚ) - 1 < ((roundHalfEven ((off : ℚ) + (j : ℚ) * a) : ℤ) : ℚ) := by linarith
    have : off - 1 < roundHalfEven ((off : ℚ) + (j : ℚ) * a) := by exact_mod_cast h2
    omega
  · have h2 : ((roundHalfEven ((off : ℚ) + (j : ℚ) * a) : ℤ) : ℚ) < ((N : ℤ) : ℚ) := by linarith
    have : roundHalfEven ((off : ℚ) + (j : ℚ) * a) < N := by exact_mod_cast h2
    omega

/-- for `a > 1` the rounded grid is strictly increasing (hence duplicate free) -/
theorem positions_strict (N : Int) (a : ℚ) (off : Int) (ha : 1 < a) :
    (equiPositions N a off).Pairwise (· < ·) := by
  unfold equiPositions
  rw [List.pairwise_map]
  refine List.Pairwise.imp ?_ (List.pairwise_lt_range)
  intro i j hij
  have hlo := rnd_lower ((off : ℚ) + (j : ℚ) * a)
  have hup := rnd_upper ((off : ℚ) + (i : ℚ) * a)
  have hij' : (i : ℚ) + 1 ≤ (j : ℚ) := by exact_mod_cast hij
  have : ((roundHalfEven ((off : ℚ) + (i : ℚ) * a) : ℤ) : ℚ) < ((roundHalfEven ((off : ℚ) + (j : ℚ) * a) : ℤ) : ℚ) := by
    nlinarith
  exact_mod_cast this



/-- **count decomposition**: realised count = ACS columns + grid points outside the ACS block -/
theorem equi_count_decomp (N L : Int) (a : ℚ) (off : Int) (hL0 : 0 ≤ L) (hLN : L ≤ N) (ha : 1 < a)
    (hoff : 0 ≤ off) :
    countTrue (equiMask N L a off) = equiCountFast N L a off := by
  have hN : 0 ≤ N := le_trans hL0 hLN
  unfold countTrue equiMask equiCountFast
  rw [List.countP_map]
  have e : ((fun (b : Bool) => decide (b = true)) ∘ fun (i : Nat) => inAcs N L (i : Int) || (equiPositions N a off).contains (i : Int))
      = fun (i : Nat) => inAcs N L (i : Int) || (equiPositions N a off).contains (i : Int) := by
    funext i; simp
  rw [e, countP_or_disj]
  congr 1
  · -- the ACS block
    have := countP_interval (acsPad N L) (acsPad N L + L) N.toNat (by omega) (by unfold acsPad; omega)
    unfold inAcs
    rw [this]
    unfold acsPad
    omega
  · -- grid points outside the block
    have hnd : ((equiPositions N a off).filter fun p => !inAcs N L p).Nodup :=
      ((positions_strict N a off ha).imp (fun h => ne_of_lt h)).filter _
    have hr : ∀ q ∈ (equiPositions N a off).filter (fun p => !inAcs N L p), 0 ≤ q ∧ q < (N.toNat : Int) := by
      intro q hq
      have := positions_range N a off (by linarith) q (List.mem_filter.mp hq).1
      omega
    rw [← countP_mem_nodup _ N.toNat hnd hr]
    apply List.countP_congr
    intro i _
    simp only [List.contains_iff_mem, List.mem_filter, Bool.and_eq_true, Bool.not_eq_true', decide_eq_true_eq]
    constructor
    · rintro ⟨h1, h2⟩; exact ⟨h2, by simpa using h1⟩
    · rintro ⟨h1, h2⟩; exact ⟨by simpa using h2, h1⟩



theorem arangeLen_lower (start stop step : ℚ) : (stop - start) / step ≤ (arangeLen start stop step : ℚ) := by
  unfold arangeLen
  have h1 : (stop - start) / step ≤ ((((stop - start) / step).ceil : ℤ) : ℚ) := by rw [ceil_eq]; exact Int.le_ceil _
  have h2 : (((stop - start) / step).ceil : ℤ) ≤ ((((stop - start) / step).ceil.toNat : ℕ) : ℤ) := Int.self_le_toNat _
  have h3 : ((((stop - start) / step).ceil : ℤ) : ℚ) ≤ ((((stop - start) / step).ceil.toNat : ℕ) : ℚ) := by exact_mod_cast h2
  linarith

theorem countP_mono' {α} (p q : α → Bool) (l : List α) (h : ∀ x ∈ l, p x = true → q x = true) :
    l.countP p ≤ l.countP q := List.countP_mono_left h

/-- naturals below `m` satisfying a predicate that forces `c1 ≤ j ≤ c2` are at most `c2 − c1 + 1` many -/
theorem countP_le_of_real_bounds (m : ℕ) (pred : ℕ → Bool) (c1 c2 : ℚ)
    (h : ∀ j < m, pred j = true → c1 ≤ (j : ℚ) ∧ (j : ℚ) ≤ c2) :
    (((List.range m).countP pred : ℕ) : ℚ) ≤ max 0 (c2 - c1 + 1) := by
  by_cases hbad : c2 < 0 ∨ c2 < c1
  · have : (List.range m).countP pred = 0 := by
      rw [List.countP_eq_zero]
      intro j hj hp
      have := h j (List.mem_range.mp hj) hp
      have hj0 : (0 : ℚ) ≤ (j : ℚ) := Nat.cast_nonneg j
      rcases hbad with hb | hb <;> linarith [this.1, this.2]
    rw [this]; simp
  · rw [not_or, not_lt, not_lt] at hbad
    obtain ⟨h0, h12⟩ := hbad
    let lo : ℤ := max 0 ⌈c1⌉
    let hi : ℤ := ⌊c2⌋ + 1
    have hlo0 : 0 ≤ lo := le_max_left _ _
    have hlohi : lo ≤ hi := by
      apply max_le
      · have : 0 ≤ ⌊c2⌋ := Int.floor_nonneg.mpr h0
        omega
      · have : ⌈c1⌉ ≤ ⌈c2⌉ := Int.ceil_mono h12
        have : ⌈c2⌉ ≤ ⌊c2⌋ + 1 := Int.ceil_le_floor_add_one c2
        omega
    have hle : (List.range m).countP pred ≤
        (List.range m).countP (fun (i : Nat) => decide (lo ≤ (i : Int)) && decide ((i : Int) < hi)) := by
      apply List.countP_mono_left
      intro j hj hp
      have := h j (List.mem_range.mp hj) hp
      simp only [Bool.and_eq_true, decide_eq_true_eq]
      constructor
      · apply max_le
        · omega
        · rw [Int.ceil_le]; exact_mod_cast this.1
      · have : (j : ℤ) ≤ ⌊c2⌋ := by rw [Int.le_floor]; exact_mod_cast this.2
        omega
    rw [countP_interval lo hi m hlohi hlo0] at hle
    have hnat : ((min hi m - min lo m).toNat : ℤ) ≤ hi - lo := by omega
    have hq : (((List.range m).countP pred : ℕ) : ℚ) ≤ ((hi - lo : ℤ) : ℚ) := by
      have : (((List.range m).countP pred : ℕ) : ℤ) ≤ hi - lo := by omega
      exact_mod_cast this
    have hhi : ((hi : ℤ) : ℚ) ≤ c2 + 1 := by
      simp only [hi]; push_cast; linarith [Int.floor_le c2]
    have hlo : c1 ≤ ((lo : ℤ) : ℚ) := by
      have : (⌈c1⌉ : ℤ) ≤ lo := le_max_right _ _
      have h2 : ((⌈c1⌉ : ℤ) : ℚ) ≤ ((lo : ℤ) : ℚ) := by exact_mod_cast this
      linarith [Int.le_ceil c1]
    push_cast at hq
    exact le_trans (by linarith) (le_max_right _ _)



/-- the three-way split of the grid indices: below the block, in the block, above the block -/
theorem grid_split (N L : Int) (a : ℚ) (off : Int) (hL0 : 0 ≤ L) :
    let g := fun (j : Nat) => roundHalfEven ((off : ℚ) + (j : ℚ) * a)
    let m := arangeLen off (N - 1) a
    ((equiPositions N a off).filter fun p => !inAcs N L p).length =
      (List.range m).countP (fun j => decide (g j < acsPad N L)) +
      (List.range m).countP (fun j => decide (acsPad N L + L ≤ g j)) ∧
    ((equiPositions N a off).filter fun p => !inAcs N L p).length +
      (List.range m).countP (fun j => inAcs N L (g j)) = m := by
  intro g m
  have e1 : ((equiPositions N a off).filter fun p => !inAcs N L p).length =
      (List.range m).countP (fun j => !inAcs N L (g j)) := by
    rw [← List.countP_eq_length_filter]
    unfold equiPositions
    rw [List.countP_map]
    rfl
  constructor
  · rw [e1]
    have e2 : (fun (j : Nat) => !inAcs N L (g j)) =
        (fun (j : Nat) => decide (g j < acsPad N L) || decide (acsPad N L + L ≤ g j)) := by
      funext j
      unfold inAcs
      by_cases h1 : acsPad N L ≤ g j <;> by_cases h2 : g j < acsPad N L + L <;> simp [h1, h2] <;> omega
    rw [e2, countP_or_disj]
    congr 1
    apply List.countP_congr
    intro j _
    by_cases h1 : g j < acsPad N L <;> by_cases h2 : acsPad N L + L ≤ g j <;> simp [h1, h2]
    omega
  · rw [e1]
    have := List.length_eq_countP_add_countP (fun j => inAcs N L (g j)) (l := List.range m)
    simp only [List.length_range] at this
    have e3 : (List.range m).countP (fun j => !inAcs N L (g j)) =
        (List.range m).countP (fun a => decide ¬ (inAcs N L (g a) = true)) := by
      apply List.countP_congr; intro j _; simp
    omega



/-- **budget of one equispaced frame in terms of the adjusted acceleration `a`**:
`L + (N − L)/a − 1 − (1 + off)/a ≤ count < L + (N − L)/a + 2` -/
theorem equi_count_bounds (N L : Int) (a : ℚ) (off : Int) (hL0 : 0 ≤ L) (hLN : L ≤ N) (ha : 1 < a)
    (hoff : 0 ≤ off) :
    (L : ℚ) + ((N : ℚ) - L) / a - 1 - (1 + (off : ℚ)) / a ≤ (countTrue (equiMask N L a off) : ℚ) ∧
    (countTrue (equiMask N L a off) : ℚ) < (L : ℚ) + ((N : ℚ) - L) / a + 2 := by
  have ha0 : 0 < a := by linarith
  rw [equi_count_decomp N L a off hL0 hLN ha hoff]
  unfold equiCountFast
  obtain ⟨hsplit, hsum⟩ := grid_split N L a off hL0
  set g := fun (j : Nat) => roundHalfEven ((off : ℚ) + (j : ℚ) * a) with hg
  set m := arangeLen off (N - 1) a with hm
  set pad := acsPad N L with hpad
  have hpad0 : 0 ≤ pad := by simp only [hpad, acsPad]; omega
  have hpadN : pad + L ≤ N := by simp only [hpad, acsPad]; omega
  have hLq : ((L.toNat : ℕ) : ℚ) = (L : ℚ) := by
    have : ((L.toNat : ℕ) : ℤ) = L := Int.toNat_of_nonneg hL0
    exact_mod_cast this
  have hpad0q : (0 : ℚ) ≤ (pad : ℚ) := by exact_mod_cast hpad0
  have hpadNq : (pad : ℚ) + L ≤ N := by exact_mod_cast hpadN
  have hoffq : (0 : ℚ) ≤ (off : ℚ) := by exact_mod_cast hoff
  -- bounds of the three classes
  have hA := countP_le_of_real_bounds m (fun j => decide (g j < pad)) 0 (((pad : ℚ) - 1 / 2 - off) / a) (by
    intro j _ hp
    simp only [decide_eq_true_eq] at hp
    have h1 : ((g j : ℤ) : ℚ) ≤ (pad : ℚ) - 1 := by
      have : g j ≤ pad - 1 := by omega
      exact_mod_cast this
    have h2 := rnd_lower ((off : ℚ) + (j : ℚ) * a)
    refine ⟨Nat.cast_nonneg j, ?_⟩
    rw [le_div_iff₀ ha0]
    simp only [hg] at h1
    linarith)
  have hB := countP_le_of_real_bounds m (fun j => decide (pad + L ≤ g j))
    (((pad : ℚ) + L - 1 / 2 - off) / a) (((N : ℚ) - 1 - off) / a) (by
    intro j hj hp
    simp only [decide_eq_true_eq] at hp
    have h1 : (pad : ℚ) + L ≤ ((g j : ℤ) : ℚ) := by exact_mod_cast hp
    have h2 := rnd_upper ((off : ℚ) + (j : ℚ) * a)
    have h3 := grid_lt N a off ha0 j hj
    simp only [hg] at h1
    constructor
    · rw [div_le_iff₀ ha0]; linarith
    · rw [le_div_iff₀ ha0]; linarith)
  have hK := countP_le_of_real_bounds m (fun j => inAcs N L (g j))
    (((pad : ℚ) - 1 / 2 - off) / a) (((pad : ℚ) + L - 1 / 2 - off) / a) (by
    intro j _ hp
    simp only [inAcs, Bool.and_eq_true, decide_eq_true_eq] at hp
    have h1 : (pad : ℚ) ≤ ((g j : ℤ) : ℚ) := by exact_mod_cast hp.1
    have h2 : ((g j : ℤ) : ℚ) ≤ (pad : ℚ) + L - 1 := by
      have : g j ≤ pad + L - 1 := by omega
      exact_mod_cast this
    have h3 := rnd_upper ((off : ℚ) + (j : ℚ) * a)
    have h4 := rnd_lower ((off : ℚ) + (j : ℚ) * a)
    simp only [hg] at h1 h2
    constructor
    · rw [div_le_iff₀ ha0]; linarith
    · rw [le_div_iff₀ ha0]; linarith)
  have hmlow := arangeLen_lower (off : ℚ) ((N : ℚ) - 1) a
  -- simplify the three widths
  have wB : ((N : ℚ) - 1 - off) / a - ((pad : ℚ) + L - 1 / 2 - off) / a + 1 = ((N : ℚ) - pad - L - 1 / 2) / a + 1 := by
    field_simp; ring
  have wK : ((pad : ℚ) + L - 1 / 2 - off) / a - ((pad : ℚ) - 1 / 2 - off) / a + 1 = (L : ℚ) / a + 1 := by
    field_simp; ring
  have wBpos : 0 ≤ ((N : ℚ) - pad - L - 1 / 2) / a + 1 := by
    have : -(1 / 2 : ℚ) / a ≤ ((N : ℚ) - pad - L - 1 / 2) / a := by
      apply div_le_div_of_nonneg_right _ ha0.le; linarith
    have h2 : -(1 : ℚ) ≤ -(1 / 2 : ℚ) / a := by
      rw [le_div_iff₀ ha0]; linarith
    linarith
  have wKpos : 0 ≤ (L : ℚ) / a + 1 := by
    have : 0 ≤ (L : ℚ) / a := div_nonneg (by exact_mod_cast hL0) ha0.le
    linarith
  rw [wB, max_eq_right wBpos] at hB
  rw [wK, max_eq_right wKpos] at hK
  -- casts of the split identities
  have hsplitq : ((((equiPositions N a off).filter fun p => !inAcs N L p).length : ℕ) : ℚ) =
      (((List.range m).countP (fun j => decide (g j < pad)) : ℕ) : ℚ) +
      (((List.range m).countP (fun j => decide (pad + L ≤ g j)) : ℕ) : ℚ) := by exact_mod_cast hsplit
  have hsumq : ((((equiPositions N a off).filter fun p => !inAcs N L p).length : ℕ) : ℚ) +
      (((List.range m).countP (fun j => inAcs N L (g j)) : ℕ) : ℚ) = (m : ℚ) := by exact_mod_cast hsum
  push_cast
  rw [hLq]
  have e1 : ((N : ℚ) - 1 - off) / a = ((N : ℚ) - L) / a + (L : ℚ) / a - (1 + (off : ℚ)) / a := by
    field_simp; ring
  constructor
  · -- lower bound: count = L + m − k
    linarith
  · -- upper bound: count = L + A + B
    rw [hsplitq]
    rcases le_total 0 (((pad : ℚ) - 1 / 2 - off) / a - 0 + 1) with hpos | hneg
    · rw [max_eq_right hpos] at hA
      have e2 : ((pad : ℚ) - 1 / 2 - off) / a - 0 + 1 + (((N : ℚ) - pad - L - 1 / 2) / a + 1) =
          ((N : ℚ) - L) / a - (1 + (off : ℚ)) / a + 2 := by field_simp; ring
      have hpos2 : 0 < (1 + (off : ℚ)) / a := div_pos (by linarith) ha0
      linarith
    · rw [max_eq_left hneg] at hA
      have e3 : ((N : ℚ) - pad - L - 1 / 2) / a ≤ ((N : ℚ) - L) / a := by
        apply div_le_div_of_nonneg_right _ ha0.le; linarith
      linarith

/-- a downward-closed predicate on the naturals is counted, below `m`, by its first failure -/
theorem countP_prefix (P : ℕ → Bool) (hmono : ∀ i j, i ≤ j → P j = true → P i = true) (m : ℕ) :
    (∀ j < (List.range m).countP P, P j = true) ∧
    ((List.range m).countP P < m → P ((List.range m).countP P) = false) ∧
    (List.range m).countP P ≤ m := by
  induction m with
  | zero => simp
  | succ m ih =>
    obtain ⟨h1, h2, h3⟩ := ih
    rw [List.range_succ, List.countP_append]
    simp only [List.countP_cons, List.countP_nil]
    by_cases hp : P m = true
    · have hc : (List.range m).countP P = m := by
        by_contra hne
        have hlt : (List.range m).countP P < m := by omega
        have := h2 hlt
        have := hmono _ _ hlt.le hp
        simp_all
      simp only [hp, if_true, hc]
      refine ⟨?_, by omega, by omega⟩
      intro j hj
      exact hmono j m (by omega) hp
    · simp only [hp, Bool.false_eq_true, if_false, Nat.add_zero, Nat.zero_add]
      refine ⟨h1, ?_, by omega⟩
      intro hlt
      by_cases hc : (List.range m).countP P < m
      · exact h2 hc
      · have : (List.range m).countP P = m := by omega
        rw [this]; simpa using hp

/-- the rounded grid is weakly increasing in the index when `a > 1` -/
theorem grid_mono (a : ℚ) (off : Int) (ha : 1 < a) (i j : ℕ) (hij : i ≤ j) :
    roundHalfEven ((off : ℚ) + (i : ℚ) * a) ≤ roundHalfEven ((off : ℚ) + (j : ℚ) * a) := by
  rcases Nat.eq_or_lt_of_le hij with h | h
  · subst h; exact le_refl _
  · have hlo := rnd_lower ((off : ℚ) + (j : ℚ) * a)
    have hup := rnd_upper ((off : ℚ) + (i : ℚ) * a)
    have hij' : (i : ℚ) + 1 ≤ (j : ℚ) := by exact_mod_cast h
    have : ((roundHalfEven ((off : ℚ) + (i : ℚ) * a) : ℤ) : ℚ) < ((roundHalfEven ((off : ℚ) + (j : ℚ) * a) : ℤ) : ℚ) := by
      nlinarith
    have : roundHalfEven ((off : ℚ) + (i : ℚ) * a) < roundHalfEven ((off : ℚ) + (j : ℚ) * a) := by exact_mod_cast this
    omega



/-- integrality step: an integer multiple of `a > 0` strictly between `0` and `a` does not exist -/
theorem no_int_multiple_between (d : ℤ) (a : ℚ) (ha : 0 < a) (h1 : 0 < (d : ℚ) * a) (h2 : (d : ℚ) * a < a) : False := by
  rcases le_or_gt d 0 with h | h
  · have : (d : ℚ) ≤ 0 := by exact_mod_cast h
    nlinarith
  · have : (1 : ℚ) ≤ (d : ℚ) := by exact_mod_cast h
    nlinarith

/-- **lower side in full**: for `a ≥ 2` and an admissible offset the realised count is at least
`L + (N − L)/a − 2` -/
theorem equi_count_lower (N L : Int) (a : ℚ) (off : Int) (hL0 : 0 ≤ L) (hLN : L ≤ N) (ha2 : 2 ≤ a)
    (hoff : 0 ≤ off) (hoffb : off < roundHalfEven a) :
    (L : ℚ) + ((N : ℚ) - L) / a - 2 ≤ (countTrue (equiMask N L a off) : ℚ) := by
  have ha : 1 < a := by linarith
  have ha0 : 0 < a := by linarith
  rw [equi_count_decomp N L a off hL0 hLN ha hoff]
  unfold equiCountFast
  obtain ⟨hsplit, _⟩ := grid_split N L a off hL0
  set g := fun (j : Nat) => roundHalfEven ((off : ℚ) + (j : ℚ) * a) with hg
  set m := arangeLen off (N - 1) a with hm
  set pad := acsPad N L with hpad
  have hLq : ((L.toNat : ℕ) : ℚ) = (L : ℚ) := by
    have : ((L.toNat : ℕ) : ℤ) = L := Int.toNat_of_nonneg hL0
    exact_mod_cast this
  have hL0q : (0 : ℚ) ≤ (L : ℚ) := by exact_mod_cast hL0
  have hoffq : (0 : ℚ) ≤ (off : ℚ) := by exact_mod_cast hoff
  -- offset bound: off + 1 ≤ round(a) ≤ a + 1/2
  have ht : (off : ℚ) + 1 ≤ a + 1 / 2 := by
    have h1 : off + 1 ≤ roundHalfEven a := by omega
    have h2 : ((off + 1 : ℤ) : ℚ) ≤ ((roundHalfEven a : ℤ) : ℚ) := by exact_mod_cast h1
    have h3 := rnd_upper a
    push_cast at h2
    linarith
  -- the grid reaches N − 1
  have hmlow : (N : ℚ) - 1 - off ≤ (m : ℚ) * a := by
    have := arangeLen_lower (off : ℚ) ((N : ℚ) - 1) a
    rw [div_le_iff₀ ha0] at this
    exact this
  -- the two prefix counts
  let PA : ℕ → Bool := fun j => decide (g j < pad)
  let PJ : ℕ → Bool := fun j => decide (g j < pad + L)
  have monoA : ∀ i j, i ≤ j → PA j = true → PA i = true := by
    intro i j hij h
    simp only [PA, decide_eq_true_eq] at h ⊢
    have := grid_mono a off ha i j hij
    simp only [hg]; simp only [hg] at h; omega
  have monoJ : ∀ i j, i ≤ j → PJ j = true → PJ i = true := by
    intro i j hij h
    simp only [PJ, decide_eq_true_eq] at h ⊢
    have := grid_mono a off ha i j hij
    simp only [hg]; simp only [hg] at h; omega
  obtain ⟨_, hAfail, hAle⟩ := countP_prefix PA monoA m
  obtain ⟨hJall, _, hJle⟩ := countP_prefix PJ monoJ m
  set A := (List.range m).countP PA with hAdef
  set J := (List.range m).countP PJ with hJdef
  have hAJ : A ≤ J := by
    apply List.countP_mono_left
    intro j _ h
    simp only [PA, PJ, decide_eq_true_eq] at h ⊢
    omega
  -- number of grid points above the block = m − J
  have hB : (List.range m).countP (fun j => decide (pad + L ≤ g j)) + J = m := by
    have := List.length_eq_countP_add_countP PJ (l := List.range m)
    simp only [List.length_range] at this
    have e : (List.range m).countP (fun j => decide (pad + L ≤ g j)) =
        (List.range m).countP (fun a => decide ¬ (PJ a = true)) := by
      apply List.countP_congr; intro j _; simp [PJ]
    omega
  have hout : ((((equiPositions N a off).filter fun p => !inAcs N L p).length : ℕ) : ℚ) + (J : ℚ) = (A : ℚ) + (m : ℚ) := by
    have : ((equiPositions N a off).filter fun p => !inAcs N L p).length + J = A + m := by
      rw [hsplit]; omega
    exact_mod_cast this
  push_cast
  rw [hLq]
  -- reduce to (A + m − J + 2)·a ≥ N − L
  suffices hgoal : (N : ℚ) - L ≤ ((A : ℚ) + m - J + 2) * a by
    have : ((N : ℚ) - L) / a ≤ (A : ℚ) + m - J + 2 := by
      rw [div_le_iff₀ ha0]; exact hgoal
    linarith
  have hAleq : (A : ℚ) ≤ (m : ℚ) := by exact_mod_cast hAle
  have hJleq : (J : ℚ) ≤ (m : ℚ) := by exact_mod_cast hJle
  have hAJq : (A : ℚ) ≤ (J : ℚ) := by exact_mod_cast hAJ
  -- degenerate cases: no grid point below pad+L, or all grid points below pad
  rcases Nat.eq_zero_or_pos J with hJ0 | hJpos
  · have hA0 : A = 0 := by omega
    rw [hJ0, hA0]; push_cast
    nlinarith
  rcases Nat.eq_or_lt_of_le hAle with hAm | hAlt
  · have hJm : J = m := by omega
    rw [hAm, hJm]
    nlinarith
  -- main case
  obtain ⟨J', hJ'⟩ : ∃ J', J = J' + 1 := ⟨J - 1, by omega⟩
  have hgA : pad ≤ g A := by
    have := hAfail hAlt
    simp only [PA, decide_eq_false_iff_not, not_lt] at this
    exact this
  have hgJ : g J' < pad + L := by
    have := hJall J' (by omega)
    simp only [PJ, decide_eq_true_eq] at this
    exact this
  have s1 : (pad : ℚ) - 1 / 2 ≤ (off : ℚ) + (A : ℚ) * a := by
    have h1 : ((pad : ℤ) : ℚ) ≤ ((g A : ℤ) : ℚ) := by exact_mod_cast hgA
    have h2 := rnd_upper ((off : ℚ) + (A : ℚ) * a)
    simp only [hg] at h1
    linarith
  have s2 : (off : ℚ) + (J' : ℚ) * a ≤ (pad : ℚ) + L - 1 / 2 := by
    have h1 : ((g J' : ℤ) : ℚ) ≤ ((pad : ℤ) : ℚ) + L - 1 := by
      have : g J' ≤ pad + L - 1 := by omega
      exact_mod_cast this
    have h2 := rnd_lower ((off : ℚ) + (J' : ℚ) * a)
    simp only [hg] at h1
    linarith
  have hJq : (J : ℚ) = (J' : ℚ) + 1 := by rw [hJ']; push_cast; ring
  -- the block is centred: N − L = 2·pad − ε, ε ∈ {0, 1}
  have hε : (N : ℚ) - L = 2 * pad ∨ (N : ℚ) - L = 2 * pad - 1 := by
    have : N - L = 2 * pad ∨ N - L = 2 * pad - 1 := by simp only [hpad, acsPad]; omega
    rcases this with h | h
    · left; exact_mod_cast h
    · right; exact_mod_cast h
  rw [hJq]
  by_contra hneg
  rw [not_le] at hneg
  -- d = (m − J + 1) − A = m − J' − A
  have hd : (((m : ℤ) - J' - A : ℤ) : ℚ) * a = (m : ℚ) * a - (J' : ℚ) * a - (A : ℚ) * a := by push_cast; ring
  have hexp : ((A : ℚ) + m - (J' + 1) + 2) * a = (A : ℚ) * a + (m : ℚ) * a - (J' : ℚ) * a + a := by ring
  rw [hexp] at hneg
  apply no_int_multiple_between ((m : ℤ) - J' - A) a ha0
  · rw [hd]; rcases hε with h | h <;> linarith
  · rw [hd]; rcases hε with h | h <;> linarith


end DirectVerif.MaskBudget
