import DirectVerif.Model.Fft
import DirectVerif.Props.C01
import DirectVerif.Props.C10
import DirectVerif.Lemmas.TensorLiftC10
/-!
# C10 — the k-space crop / pad transforms over the C01 operators (obligations of the C10 check)

`CropKspace` / `PadKspace` call `forward_operator` / `backward_operator`, by default `T.fft2` / `T.ifft2`.  Here the plans
of `Model/Crop.lean` (regenerated from the source on every run) are interpreted with the *plans* of `fft2` / `ifft2`
from `Model/Fft.lean` (C01, likewise regenerated) over an abstract `Backend`:

    CropKspace  =  fft2 ∘ crop ∘ ifft2          PadKspace  =  fft2 ∘ view_as_real ∘ pad ∘ view_as_complex ∘ ifft2

and the equivalence with cropping / padding the backprojected image is *proved* for every lawful backend and all
8 flag combinations (`centered`, `normalized`, `complex_input`), then instantiated on one axis with the list models of
`center_crop` / `pad_tensor` (every length and parity, no hypothesis on crop/pad left) and lifted to two axes of the
tensors the driver runs.
-/
namespace DirectVerif.C10
open DirectVerif DirectVerif.Crop DirectVerif.Fft

/-- the operators of a k-space plan when the transform is built with the C01 operators -/
def c01Ops {X} (B : Backend X) (cfg : Cfg) (pad crop : X → X) : KOps X :=
  { fwd := fft2 B cfg, bwd := ifft2 B cfg, vc := B.viewComplex, vr := B.viewReal, pad := pad, crop := crop }

/-- `CropKspace` *is* `fft2 ∘ crop ∘ ifft2` (unfolding of the translated plan) -/
theorem crop_kspace_eq_plan {X} (B : Backend X) (cfg : Cfg) (pad crop : X → X) (k : X) :
    runPlan (c01Ops B cfg pad crop) cropKspacePlan k = fft2 B cfg (crop (ifft2 B cfg k)) := rfl

/-- `PadKspace` *is* `fft2 ∘ view_as_real ∘ pad ∘ view_as_complex ∘ ifft2` -/
theorem pad_kspace_eq_plan {X} (B : Backend X) (cfg : Cfg) (pad crop : X → X) (k : X) :
    runPlan (c01Ops B cfg pad crop) padKspacePlan k =
      fft2 B cfg (B.viewReal (pad (B.viewComplex (ifft2 B cfg k)))) := rfl

/-- **k-space crop ≡ image crop**: the image (backward operator) of the cropped k-space is the cropped image of the
k-space — for every lawful backend, every flag combination, every crop function -/
theorem kspace_crop_eq_image_crop {X} {B : Backend X} (hB : C01.Lawful B) (cfg : Cfg) (pad crop : X → X) (k : X) :
    ifft2 B cfg (runPlan (c01Ops B cfg pad crop) cropKspacePlan k) = crop (ifft2 B cfg k) :=
  crop_kspace_image_equiv (c01Ops B cfg pad crop) (fun y => C01.ifft2_fft2_id_of_lawful hB cfg y) k

/-- **k-space pad ≡ image pad** -/
theorem kspace_pad_eq_image_pad {X} {B : Backend X} (hB : C01.Lawful B) (cfg : Cfg) (pad crop : X → X) (k : X) :
    ifft2 B cfg (runPlan (c01Ops B cfg pad crop) padKspacePlan k) =
      B.viewReal (pad (B.viewComplex (ifft2 B cfg k))) :=
  pad_kspace_image_equiv (c01Ops B cfg pad crop) (fun y => C01.ifft2_fft2_id_of_lawful hB cfg y) k

/-- **`CropKspace ∘ PadKspace = id` on the k-space itself** whenever crop undoes pad on the backprojected image of `k`
(only that one image: shapes are whatever `k` has) -/
theorem kspace_pad_crop_id {X} {B : Backend X} (hB : C01.Lawful B) (cfg : Cfg) (pad crop : X → X) (k : X)
    (hcp : crop (B.viewReal (pad (B.viewComplex (ifft2 B cfg k)))) = ifft2 B cfg k) :
    runPlan (c01Ops B cfg pad crop) cropKspacePlan (runPlan (c01Ops B cfg pad crop) padKspacePlan k) = k := by
  rw [crop_kspace_eq_plan, kspace_pad_eq_image_pad hB, hcp, C01.fft2_ifft2_id_of_lawful hB]

/-- the same for the n-D per-axis backend of C01 (shifts / transforms applied along a duplicate-free axis tuple, e.g.
`dim = (1, 2)` or `(2, 3)`), whose lawfulness follows from per-axis laws (`C01.axesBackend_lawful`) -/
theorem kspace_pad_crop_id_axes {X} {sI sF : Nat → X → X} {F : Bool → Norm → Nat → X → X} {vC vR : X → X}
    (h : C01.AxisLaws sI sF F vC vR) (dims : List Nat) (hnd : dims.Nodup) (cfg : Cfg) (pad crop : X → X) (k : X)
    (hcp : crop (vR (pad (vC (ifft2 (axesBackend sI sF F vC vR dims) cfg k)))) = ifft2 (axesBackend sI sF F vC vR dims) cfg k) :
    runPlan (c01Ops (axesBackend sI sF F vC vR dims) cfg pad crop) cropKspacePlan
      (runPlan (c01Ops (axesBackend sI sF F vC vR dims) cfg pad crop) padKspacePlan k) = k :=
  kspace_pad_crop_id (C01.axesBackend_lawful h dims hnd) cfg pad crop k hcp

/-! ## one axis, concrete crop / pad (every length, every parity) -/

theorem runData_length {α} (F : Bool → Norm → List α → List α)
    (hlen : ∀ inv nm xs, (F inv nm xs).length = xs.length) (cfg : Cfg) (plan : List Step) (xs : List α) :
    (runData (listBackend F) cfg plan xs).length = xs.length := by
  unfold runData
  induction plan generalizing xs with
  | nil => rfl
  | cons st rest ih =>
    rw [List.foldl_cons]
    rw [ih]
    split
    · cases hop : st.op <;>
        simp [applyOp, listBackend, C01.fftshift1_length, C01.ifftshift1_length, hlen]
    · rfl

/-- `ifft2` / `fft2` keep the length of the axis (so the crop / pad targets mean what they say) -/
theorem ifft2_length {α} (F : Bool → Norm → List α → List α)
    (hlen : ∀ inv nm xs, (F inv nm xs).length = xs.length) (cfg : Cfg) (xs : List α) :
    (ifft2 (listBackend F) cfg xs).length = xs.length := runData_length F hlen cfg _ xs

/-- **one axis, no hypothesis about crop / pad**: zero-padding the k-space to `N` with `PadKspace` and cropping it back
with `CropKspace` returns the k-space, for every length `n ≤ N`, every parity of `N - n`, every flag combination and
every length-preserving inverse transform pair `F` -/
theorem kspace_pad_crop_id_1d {α} (F : Bool → Norm → List α → List α)
    (hif : ∀ nm xs, F true nm (F false nm xs) = xs) (hfi : ∀ nm xs, F false nm (F true nm xs) = xs)
    (hlen : ∀ inv nm xs, (F inv nm xs).length = xs.length) (cfg : Cfg) (fill : α) (N : Nat) (k : List α)
    (h : k.length ≤ N) :
    runPlan (c01Ops (listBackend F) cfg (padTo fill N) (centerCrop k.length)) cropKspacePlan
      (runPlan (c01Ops (listBackend F) cfg (padTo fill N) (centerCrop k.length)) padKspacePlan k) = k := by
  have hB := C01.listBackend_lawful F hif hfi
  rw [crop_kspace_eq_plan, kspace_pad_eq_image_pad hB]
  have hl := ifft2_length F hlen cfg k
  have : centerCrop k.length ((listBackend F).viewReal (padTo fill N ((listBackend F).viewComplex
      (ifft2 (listBackend F) cfg k)))) = ifft2 (listBackend F) cfg k := by
    show centerCrop k.length (padTo fill N (ifft2 (listBackend F) cfg k)) = _
    rw [← hl]
    exact pad_then_center_crop_id fill N _ (by omega)
  rw [this, C01.fft2_ifft2_id_of_lawful hB]

/-- **one axis: the image of the cropped k-space is the central window of the image**, start index
`floor((n - s) / 2)` -/
theorem kspace_crop_window_1d {α} (F : Bool → Norm → List α → List α)
    (hif : ∀ nm xs, F true nm (F false nm xs) = xs) (hfi : ∀ nm xs, F false nm (F true nm xs) = xs)
    (hlen : ∀ inv nm xs, (F inv nm xs).length = xs.length) (cfg : Cfg) (pad : List α → List α) (s : Nat) (k : List α)
    (h : s ≤ k.length) (i : Nat) (hi : i < s) :
    (ifft2 (listBackend F) cfg (runPlan (c01Ops (listBackend F) cfg pad (centerCrop s)) cropKspacePlan k))[i]? =
      (ifft2 (listBackend F) cfg k)[i + (k.length - s) / 2]? := by
  rw [kspace_crop_eq_image_crop (C01.listBackend_lawful F hif hfi)]
  have hl := ifft2_length F hlen cfg k
  rw [center_crop_window s _ (by omega) i hi, hl]

/-- **one axis: the image of the padded k-space is the image placed at `floor((N - n) / 2)`** -/
theorem kspace_pad_places_1d {α} (F : Bool → Norm → List α → List α)
    (hif : ∀ nm xs, F true nm (F false nm xs) = xs) (hfi : ∀ nm xs, F false nm (F true nm xs) = xs)
    (hlen : ∀ inv nm xs, (F inv nm xs).length = xs.length) (cfg : Cfg) (crop : List α → List α) (fill : α) (N : Nat)
    (k : List α) (h : k.length ≤ N) (i : Nat) (hi : i < k.length) :
    (ifft2 (listBackend F) cfg (runPlan (c01Ops (listBackend F) cfg (padTo fill N) crop) padKspacePlan k))[i + (N - k.length) / 2]? =
      (ifft2 (listBackend F) cfg k)[i]? := by
  rw [kspace_pad_eq_image_pad (C01.listBackend_lawful F hif hfi)]
  have hl := ifft2_length F hlen cfg k
  show (padTo fill N (ifft2 (listBackend F) cfg k))[i + (N - k.length) / 2]? = _
  rw [← hl]
  exact pad_places fill N _ (by omega) i (by omega)

/-- non-vacuity: the identity "transform" is a length-preserving inverse pair -/
example : runPlan (c01Ops (listBackend fun _ _ (xs : List Int) => xs) ⟨true, false, true⟩ (padTo 0 6) (centerCrop 3))
    cropKspacePlan (runPlan (c01Ops (listBackend fun _ _ xs => xs) ⟨true, false, true⟩ (padTo 0 6) (centerCrop 3))
      padKspacePlan [1, 2, 3]) = [1, 2, 3] :=
  kspace_pad_crop_id_1d (fun _ _ xs => xs) (fun _ _ => rfl) (fun _ _ => rfl) (fun _ _ _ => rfl) _ 0 6 [1, 2, 3] (by decide)

/-! ## two axes of a tensor (height and width): pad both, crop both -/

section TwoAxes
open DirectVerif.Tensor DirectVerif.TensorLift
variable {α : Type} [Inhabited α]

/-- **C10, n-D, two axes**: zero-padding axes `a ≠ b` of a well-formed tensor (as `pad_tensor` does, one `F.pad` per
axis) and centre-cropping both back is the identity — any rank, any position of the two axes, all sizes and parities -/
theorem pad2_then_center_crop2_id_nd (t : Tensor α) (a b Na Nb : Nat) (fill : α)
    (hwf : t.data.length = prod t.shape) (hne : a ≠ b) (ha : a < t.shape.length) (hb : b < t.shape.length)
    (hNa : t.shape.getD a 1 ≤ Na) (hNb : t.shape.getD b 1 ≤ Nb) :
    (((t.alongAxis a (padTo fill Na)).alongAxis b (padTo fill Nb)).alongAxis a
        (centerCrop (t.shape.getD a 1))).alongAxis b (centerCrop (t.shape.getD b 1)) = t := by
  have hpa : LenUniform (padTo fill Na) (t.shape.getD a 1) Na := fun xs hxs => pad_length fill Na xs (by omega)
  have hs1 : (t.alongAxis a (padTo fill Na)).shape = t.shape.set a Na := alongAxis_shape t a _ Na hpa
  have hb1 : (t.alongAxis a (padTo fill Na)).shape.getD b 1 = t.shape.getD b 1 := by
    rw [hs1]; exact getD_set_ne t.shape a b Na 1 hne
  have ha1 : (t.alongAxis a (padTo fill Na)).shape.getD a 1 = Na := by
    rw [hs1]; exact getD_set_self t.shape a Na 1 ha
  have hlen1 : (t.alongAxis a (padTo fill Na)).shape.length = t.shape.length := by rw [hs1]; simp
  have hpb : LenUniform (padTo fill Nb) ((t.alongAxis a (padTo fill Na)).shape.getD b 1) Nb := by
    rw [hb1]; exact fun xs hxs => pad_length fill Nb xs (by omega)
  -- move the crop along `a` inside the pad along `b`
  rw [← center_crop_comm_nd (t.alongAxis a (padTo fill Na)) a b (t.shape.getD a 1) (padTo fill Nb) Nb hne
    (by omega) (by omega) (by omega) hpb]
  rw [pad_then_center_crop_id_nd t a Na fill hwf ha hNa]
  exact pad_then_center_crop_id_nd t b Nb fill hwf hb hNb

/-- **C10, n-D, three axes** (the `(z, x, y)` form of `pad_tensor` / `PadKspace`): pad three pairwise different axes, centre
crop all three back — identity -/
theorem pad3_then_center_crop3_id_nd (t : Tensor α) (a b c Na Nb Nc : Nat) (fill : α)
    (hwf : t.data.length = prod t.shape) (hab : a ≠ b) (hac : a ≠ c) (hbc : b ≠ c)
    (ha : a < t.shape.length) (hb : b < t.shape.length) (hc : c < t.shape.length)
    (hNa : t.shape.getD a 1 ≤ Na) (hNb : t.shape.getD b 1 ≤ Nb) (hNc : t.shape.getD c 1 ≤ Nc) :
    (((((t.alongAxis a (padTo fill Na)).alongAxis b (padTo fill Nb)).alongAxis c (padTo fill Nc)).alongAxis a
        (centerCrop (t.shape.getD a 1))).alongAxis b (centerCrop (t.shape.getD b 1))).alongAxis c
        (centerCrop (t.shape.getD c 1)) = t := by
  have hpa : LenUniform (padTo fill Na) (t.shape.getD a 1) Na := fun xs hxs => pad_length fill Na xs (by omega)
  have hs1 : (t.alongAxis a (padTo fill Na)).shape = t.shape.set a Na := alongAxis_shape t a _ Na hpa
  have hpb : LenUniform (padTo fill Nb) ((t.alongAxis a (padTo fill Na)).shape.getD b 1) Nb := by
    rw [hs1, getD_set_ne t.shape a b Na 1 hab]; exact fun xs hxs => pad_length fill Nb xs (by omega)
  have hs2 : ((t.alongAxis a (padTo fill Na)).alongAxis b (padTo fill Nb)).shape = (t.shape.set a Na).set b Nb := by
    rw [alongAxis_shape _ b _ Nb hpb, hs1]
  -- t2 = padded along a and b
  have h2a : ((t.alongAxis a (padTo fill Na)).alongAxis b (padTo fill Nb)).shape.getD a 1 = Na := by
    rw [hs2, getD_set_ne _ b a Nb 1 (Ne.symm hab)]; exact getD_set_self t.shape a Na 1 ha
  have h2c : ((t.alongAxis a (padTo fill Na)).alongAxis b (padTo fill Nb)).shape.getD c 1 = t.shape.getD c 1 := by
    rw [hs2, getD_set_ne _ b c Nb 1 hbc, getD_set_ne _ a c Na 1 hac]
  have h2len : ((t.alongAxis a (padTo fill Na)).alongAxis b (padTo fill Nb)).shape.length = t.shape.length := by
    rw [hs2]; simp
  have hpc2 : LenUniform (padTo fill Nc) (((t.alongAxis a (padTo fill Na)).alongAxis b (padTo fill Nb)).shape.getD c 1) Nc := by
    rw [h2c]; exact fun xs hxs => pad_length fill Nc xs (by omega)
  -- move the crop along `a` inside the pad along `c`
  rw [← center_crop_comm_nd ((t.alongAxis a (padTo fill Na)).alongAxis b (padTo fill Nb)) a c (t.shape.getD a 1)
    (padTo fill Nc) Nc hac (by omega) (by omega) (by omega) hpc2]
  -- t3 = t2 cropped along a
  have hca : LenUniform (centerCrop (t.shape.getD a 1) : List α → List α)
      (((t.alongAxis a (padTo fill Na)).alongAxis b (padTo fill Nb)).shape.getD a 1) (t.shape.getD a 1) := by
    rw [h2a]; exact fun xs hxs => center_crop_length _ xs (by omega)
  have hs3 : (((t.alongAxis a (padTo fill Na)).alongAxis b (padTo fill Nb)).alongAxis a (centerCrop (t.shape.getD a 1))).shape =
      ((t.shape.set a Na).set b Nb).set a (t.shape.getD a 1) := by
    rw [alongAxis_shape _ a _ _ hca, hs2]
  have h3b : (((t.alongAxis a (padTo fill Na)).alongAxis b (padTo fill Nb)).alongAxis a (centerCrop (t.shape.getD a 1))).shape.getD b 1 = Nb := by
    rw [hs3, getD_set_ne _ a b _ 1 hab]; exact getD_set_self _ b Nb 1 (by simpa using hb)
  have h3c : (((t.alongAxis a (padTo fill Na)).alongAxis b (padTo fill Nb)).alongAxis a (centerCrop (t.shape.getD a 1))).shape.getD c 1 =
      t.shape.getD c 1 := by
    rw [hs3, getD_set_ne _ a c _ 1 hac, getD_set_ne _ b c Nb 1 hbc, getD_set_ne _ a c Na 1 hac]
  have h3len : (((t.alongAxis a (padTo fill Na)).alongAxis b (padTo fill Nb)).alongAxis a (centerCrop (t.shape.getD a 1))).shape.length =
      t.shape.length := by rw [hs3]; simp
  have hpc3 : LenUniform (padTo fill Nc)
      ((((t.alongAxis a (padTo fill Na)).alongAxis b (padTo fill Nb)).alongAxis a (centerCrop (t.shape.getD a 1))).shape.getD c 1) Nc := by
    rw [h3c]; exact fun xs hxs => pad_length fill Nc xs (by omega)
  rw [← center_crop_comm_nd (((t.alongAxis a (padTo fill Na)).alongAxis b (padTo fill Nb)).alongAxis a (centerCrop (t.shape.getD a 1)))
    b c (t.shape.getD b 1) (padTo fill Nc) Nc hbc (by omega) (by omega) (by omega) hpc3]
  rw [pad2_then_center_crop2_id_nd t a b Na Nb fill hwf hab ha hb hNa hNb]
  exact pad_then_center_crop_id_nd t c Nc fill hwf hc hNc

example : (((⟨[2, 2], [1, 2, 3, 4]⟩ : Tensor Nat).alongAxis 0 (padTo 0 3)).alongAxis 1 (padTo 0 5)).data =
    [0, 1, 2, 0, 0, 0, 3, 4, 0, 0, 0, 0, 0, 0, 0] := by
  rw [alongAxis_eq_alongAxisL, alongAxis_eq_alongAxisL]; decide

end TwoAxes

end DirectVerif.C10
