import DirectVerif.Model.C04Poisson
/-!
Helper lemmas for the `_poisson.pyx` model (`Model/C04Poisson.lean`): the truncation lemma behind "a written cell
is on the grid", what one run of the attempt loop does to the counters, and the loop invariant of
`while num_actives > 0`.
-/
namespace DirectVerif.C04Poisson
open DirectVerif

/-! ## dyadic values -/

theorem pow2_pos (k : Nat) : 0 < Dy.pow2 k := by
  unfold Dy.pow2
  rw [Nat.one_shiftLeft]
  exact_mod_cast Nat.two_pow_pos k

/-- `0 ≤ q < n` as C compares them  ⟹  `0 ≤ int(q) < n` -/
theorem trunc_toNat_lt (x : Dy) (n : Nat) (h0 : x.nonneg = true) (h1 : x.ltNat n = true) :
    (Dy.trunc x).toNat < n := by
  unfold Dy.nonneg at h0
  unfold Dy.ltNat at h1
  unfold Dy.trunc
  have hm : 0 ≤ x.m := by simpa using h0
  by_cases he : 0 ≤ x.e
  · simp only [he, if_true, decide_eq_true_eq] at h1 ⊢
    have hp := pow2_pos x.e.toNat
    have : 0 ≤ x.m * Dy.pow2 x.e.toNat := Int.mul_nonneg hm (Int.le_of_lt hp)
    omega
  · simp only [he, if_false, decide_eq_true_eq] at h1 ⊢
    have hp := pow2_pos (-x.e).toNat
    rw [Int.tdiv_eq_ediv_of_nonneg hm]
    have h2 : x.m / Dy.pow2 (-x.e).toNat < (n : Int) := Int.ediv_lt_of_lt_mul hp h1
    have h3 : 0 ≤ x.m / Dy.pow2 (-x.e).toNat := Int.ediv_nonneg hm (Int.le_of_lt hp)
    omega

/-! ## one attempt -/

/-- a candidate that passes the grid test is stored in a cell of the grid -/
theorem attempt_cell_in_grid (env : Env) (px py r1 : Nat) (c s : Dy)
    (h : (attempt env px py r1 c s).inGrid = true) :
    (attempt env px py r1 c s).cx < env.nx ∧ (attempt env px py r1 c s).cy < env.ny := by
  unfold attempt at h ⊢
  simp only at h ⊢
  split at h
  · rename_i hg
    simp only [hg, if_true]
    unfold inGridTest at hg
    simp only [Bool.and_eq_true] at hg
    exact ⟨trunc_toNat_lt _ _ hg.1.1.1 hg.1.1.2, trunc_toNat_lt _ _ hg.1.2 hg.2⟩
  · simp at h

theorem att_ok_inGrid (mask : Array Bool) (a : Att) (h : a.ok mask = true) : a.inGrid = true := by
  unfold Att.ok at h
  simp only [Bool.and_eq_true] at h
  exact h.1

/-! ## the attempt loop -/

/-- what `attempts` returns: at most `k` attempts, two `rand()` calls each, and an accepted cell is on the grid -/
theorem attempts_spec (env : Env) (mask : Array Bool) (px py : Nat) :
    ∀ (k pos att : Nat) (o : Option (Nat × Nat)) (pos' att' : Nat),
      attempts env mask px py k pos att = .ok (o, pos', att') →
      att ≤ att' ∧ att' ≤ att + k ∧ pos' = pos + 2 * (att' - att) ∧
      (∀ cx cy, o = some (cx, cy) → cx < env.nx ∧ cy < env.ny) ∧ (o = none → att' = att + k) := by
  intro k
  induction k with
  | zero =>
    intro pos att o pos' att' h
    simp only [attempts, Except.ok.injEq, Prod.mk.injEq] at h
    obtain ⟨h1, h2, h3⟩ := h
    subst h1 h2 h3
    refine ⟨Nat.le_refl _, by omega, by omega, ?_, fun _ => rfl⟩
    intro cx cy hc; cases hc
  | succ k ih =>
    intro pos att o pos' att' h
    unfold attempts at h
    split at h
    · rename_i r1 r2 t c s _ _ _
      split at h
      · cases h
      · dsimp only at h
        split at h
        · rename_i hok
          simp only [Except.ok.injEq, Prod.mk.injEq] at h
          obtain ⟨h1, h2, h3⟩ := h
          subst h1 h2 h3
          refine ⟨by omega, by omega, by omega, ?_, ?_⟩
          · intro cx cy hc
            simp only [Option.some.injEq, Prod.mk.injEq] at hc
            obtain ⟨e1, e2⟩ := hc
            subst e1 e2
            exact attempt_cell_in_grid env px py r1 c s (att_ok_inGrid mask _ hok)
          · intro hn; cases hn
        · obtain ⟨a1, a2, a3, a4, a5⟩ := ih (pos + 2) (att + 1) o pos' att' h
          refine ⟨by omega, by omega, by omega, a4, ?_⟩
          intro hn; have := a5 hn; omega
    · cases h

/-- the attempt loop itself only stops early for harness errors -/
theorem attempts_error (env : Env) (mask : Array Bool) (px py : Nat) :
    ∀ (k pos att : Nat) (h : Halt), attempts env mask px py k pos att = .error h → h = .desync ∨ h = .outOfDraws := by
  intro k
  induction k with
  | zero => intro pos att h e; simp [attempts] at e
  | succ k ih =>
    intro pos att h e
    unfold attempts at e
    split at e
    · split at e
      · simp only [Except.error.injEq] at e; exact Or.inl e.symm
      · dsimp only at e
        split at e
        · cases e
        · exact ih _ _ _ e
    · simp only [Except.error.injEq] at e; exact Or.inr e.symm

theorem attempts_ne_cell (env : Env) (mask : Array Bool) (px py k pos att : Nat) :
    attempts env mask px py k pos att ≠ .error .cellOutOfGrid := by
  intro e; rcases attempts_error env mask px py k pos att _ e with h | h <;> cases h

theorem attempts_ne_read (env : Env) (mask : Array Bool) (px py k pos att : Nat) :
    attempts env mask px py k pos att ≠ .error .readOutOfGrid := by
  intro e; rcases attempts_error env mask px py k pos att _ e with h | h <;> cases h

/-! ## the loop invariant of `while num_actives > 0` -/

/-- what holds of the state before and after every outer iteration -/
structure Inv (env : Env) (st : St) : Prop where
  maskSize : st.mask.size = env.nx * env.ny
  actsGrid : ∀ j (h : j < st.acts.size), st.acts[j].1 < env.nx ∧ st.acts[j].2 < env.ny
  actives : st.acts.size + st.removals = st.accepts + 1
  sampled : st.mask.count true + st.stale = st.accepts
  iters : st.iters = st.accepts + st.removals
  maxLe : st.acts.size ≤ st.maxna
  maxCap : st.maxna ≤ max 1 (env.nx * env.ny)
  draws : st.pos = 2 + st.iters + 2 * st.att
  attLe : st.att ≤ st.iters * env.maxAttempts

theorem count_setIfInBounds_true (mask : Array Bool) (k : Nat) (h : k < mask.size) :
    (mask.setIfInBounds k true).count true + (if mask.getD k false then 1 else 0) = mask.count true + 1 := by
  rw [Array.setIfInBounds_def]
  simp only [h, dite_true]
  rw [Array.count_set h]
  have hle := Array.boole_getElem_le_count (xs := mask) (a := true) h
  have hg : mask.getD k false = mask[k] := by simp [Array.getD, h]
  rw [hg]
  cases hb : mask[k]
  · simp
  · simp only [hb, beq_self_eq_true, if_true] at hle ⊢
    omega

theorem init_inv (env : Env) (st : St) (h : init env = .ok st) : Inv env st := by
  unfold init at h
  split at h
  · dsimp only at h
    split at h
    · cases h
    · rename_i hin
      simp only [Except.ok.injEq] at h
      subst h
      have hin' := Decidable.not_not.mp hin
      refine ⟨by simp, ?_, by simp, by simp [Array.count_replicate], by simp, by simp, by simp; omega, by simp, by simp⟩
      intro j hj
      have : j = 0 := by simp at hj; omega
      subst this
      simpa using hin'
  · cases h

theorem bookkeep_inv (env : Env) (st st' : St) (i : Nat) (o : Option (Nat × Nat)) (pos att : Nat)
    (hinv : Inv env st) (hi : i < st.acts.size)
    (ho : ∀ cx cy, o = some (cx, cy) → cx < env.nx ∧ cy < env.ny)
    (hpos : pos = st.pos + 1 + 2 * (att - st.att)) (hatt : st.att ≤ att) (hattk : att ≤ st.att + env.maxAttempts)
    (h : bookkeep env st i o pos att = .ok st') : Inv env st' := by
  unfold bookkeep at h
  cases o with
  | some c =>
    obtain ⟨cx, cy⟩ := c
    simp only at h
    split at h
    · cases h
    · rename_i hcap
      split at h
      · cases h
      · simp only [Except.ok.injEq] at h
        subst h
        obtain ⟨hx, hy⟩ := ho cx cy rfl
        have hk : cx * env.ny + cy < st.mask.size := by
          rw [hinv.maskSize]
          calc cx * env.ny + cy < cx * env.ny + env.ny := by omega
            _ = (cx + 1) * env.ny := by rw [Nat.add_mul, Nat.one_mul]
            _ ≤ env.nx * env.ny := Nat.mul_le_mul_right _ hx
        have hc := count_setIfInBounds_true st.mask (cx * env.ny + cy) hk
        have h1 := hinv.actives; have h2 := hinv.sampled; have h3 := hinv.iters
        have h4 := hinv.maxLe; have h5 := hinv.maxCap; have h6 := hinv.draws; have h7 := hinv.attLe
        refine ⟨by simp [hinv.maskSize], ?_, by simp; omega, ?_, by simp; omega, by simp; omega, ?_, by simp; omega, ?_⟩
        · intro j hj
          simp only [Array.size_push] at hj
          by_cases hjl : j < st.acts.size
          · rw [Array.getElem_push_lt hjl]; exact hinv.actsGrid j hjl
          · have : j = st.acts.size := by omega
            subst this
            simp [hx, hy]
        · simp only
          omega
        · simp only
          have : st.acts.size + 1 ≤ env.nx * env.ny := by omega
          omega
        · simp only
          have : att ≤ st.att + env.maxAttempts := hattk
          calc att ≤ st.att + env.maxAttempts := this
            _ ≤ st.iters * env.maxAttempts + env.maxAttempts := by omega
            _ = (st.iters + 1) * env.maxAttempts := by rw [Nat.add_mul, Nat.one_mul]
  | none =>
    simp only [Except.ok.injEq] at h
    subst h
    have h1 := hinv.actives; have h2 := hinv.sampled; have h3 := hinv.iters
    have h4 := hinv.maxLe; have h5 := hinv.maxCap; have h6 := hinv.draws; have h7 := hinv.attLe
    refine ⟨hinv.maskSize, ?_, ?_, h2, ?_, ?_, h5, ?_, ?_⟩
    rotate_left
    · simp only [Array.size_pop, Array.size_setIfInBounds]; omega
    · simp only; omega
    · simp only [Array.size_pop, Array.size_setIfInBounds]; omega
    · simp only; omega
    rotate_left
    · intro j hj
      simp only [Array.size_pop, Array.size_setIfInBounds] at hj
      rw [Array.getElem_pop]
      rw [Array.getElem_setIfInBounds (by omega)]
      split
      · have hl : st.acts.size - 1 < st.acts.size := by omega
        have : st.acts.getD (st.acts.size - 1) (0, 0) = st.acts[st.acts.size - 1] := by simp [Array.getD, hl]
        rw [this]
        exact hinv.actsGrid _ hl
      · exact hinv.actsGrid j (by omega)
    · simp only
      calc att ≤ st.att + env.maxAttempts := hattk
        _ ≤ st.iters * env.maxAttempts + env.maxAttempts := by omega
        _ = (st.iters + 1) * env.maxAttempts := by rw [Nat.add_mul, Nat.one_mul]

/-- one outer iteration keeps the invariant, advances `iters` by one, and never stops for a cell or a radius
read outside the grid -/
theorem step_inv (env : Env) (st : St) (hinv : Inv env st) :
    (∀ st', step env st = .ok st' → Inv env st' ∧ st'.iters = st.iters + 1) ∧
    step env st ≠ .error .cellOutOfGrid ∧ step env st ≠ .error .readOutOfGrid := by
  unfold step
  split
  · exact ⟨fun _ h => (by cases h), by simp, by simp⟩
  · rename_i r _
    simp only
    split
    · exact ⟨fun _ h => (by cases h), by simp, by simp⟩
    · rename_i hi
      have hi' : randint r st.acts.size < st.acts.size := by omega
      have hp : st.acts.getD (randint r st.acts.size) (0, 0) = st.acts[randint r st.acts.size] := by
        simp [Array.getD, hi']
      have hg := hinv.actsGrid _ hi'
      rw [hp]
      split
      · rename_i hng; exact absurd hg hng
      · split
        · rename_i h' heq
          refine ⟨fun _ h => (by cases h), ?_, ?_⟩
          · intro hc
            simp only [Except.error.injEq] at hc
            subst hc
            -- `attempts` never reports a cell outside the grid (it does not report cells at all on error)
            exact absurd heq (attempts_ne_cell env st.mask _ _ _ _ _)
          · intro hc
            simp only [Except.error.injEq] at hc
            subst hc
            exact absurd heq (attempts_ne_read env st.mask _ _ _ _ _)
        · rename_i o pos att heq
          obtain ⟨a1, a2, a3, a4, _⟩ := attempts_spec env st.mask _ _ _ _ _ o pos att heq
          refine ⟨?_, ?_, ?_⟩
          · intro st' h
            refine ⟨bookkeep_inv env st st' _ o pos att hinv hi' a4 (by omega) a1 a2 h, ?_⟩
            unfold bookkeep at h
            cases o with
            | some c =>
              simp only at h
              split at h
              · cases h
              · split at h
                · cases h
                · simp only [Except.ok.injEq] at h; subst h; rfl
            | none => simp only [Except.ok.injEq] at h; subst h; rfl
          · unfold bookkeep
            cases o with
            | some c =>
              obtain ⟨cx, cy⟩ := c
              simp only
              split
              · simp
              · split
                · rename_i hng; exact absurd (a4 cx cy rfl) hng
                · simp
            | none => simp
          · unfold bookkeep
            cases o with
            | some c =>
              simp only
              split
              · simp
              · split <;> simp
            | none => simp

/-- an outer iteration never reports `outOfFuel` -/
theorem step_ne_fuel (env : Env) (st : St) : step env st ≠ .error .outOfFuel := by
  unfold step
  split
  · simp
  · simp only
    split
    · simp
    · split
      · simp
      · split
        · rename_i heq
          intro h
          simp only [Except.error.injEq] at h
          subst h
          rcases attempts_error _ _ _ _ _ _ _ _ heq with e | e <;> cases e
        · unfold bookkeep
          split
          · split
            · simp
            · split <;> simp
          · simp

/-- the only way an outer iteration stops with `overrun`: a candidate was accepted while the active lists were full -/
theorem step_overrun (env : Env) (st : St) (h : step env st = .error .overrun) : env.nx * env.ny ≤ st.acts.size := by
  unfold step at h
  split at h
  · cases h
  · simp only at h
    split at h
    · cases h
    · split at h
      · cases h
      · split at h
        · rename_i heq
          simp only [Except.error.injEq] at h
          subst h
          rcases attempts_error _ _ _ _ _ _ _ _ heq with e | e <;> cases e
        · unfold bookkeep at h
          split at h
          · split at h
            · assumption
            · split at h <;> cases h
          · cases h

/-- … and whenever the lists are full an accepted candidate does stop the run (nothing else is checked first) -/
theorem bookkeep_overrun_iff (env : Env) (st : St) (i : Nat) (o : Option (Nat × Nat)) (pos att : Nat) :
    bookkeep env st i o pos att = .error .overrun ↔ o.isSome = true ∧ env.nx * env.ny ≤ st.acts.size := by
  unfold bookkeep
  cases o with
  | none => simp
  | some c =>
    obtain ⟨cx, cy⟩ := c
    simp only [Option.isSome_some, true_and]
    constructor
    · intro h
      split at h
      · assumption
      · split at h <;> cases h
    · intro h; simp [h]

/-- the run as a whole -/
theorem run_inv (env : Env) : ∀ (fuel : Nat) (st : St), Inv env st →
    Inv env (run env fuel st).st ∧
    (run env fuel st).halt ≠ some .cellOutOfGrid ∧ (run env fuel st).halt ≠ some .readOutOfGrid ∧
    ((run env fuel st).halt = none → (run env fuel st).st.acts.size = 0) ∧
    ((run env fuel st).halt = some .outOfFuel → (run env fuel st).st.iters = st.iters + fuel) ∧
    ((run env fuel st).halt = some .overrun → env.nx * env.ny ≤ (run env fuel st).st.acts.size) ∧
    (run env fuel st).st.iters ≤ st.iters + fuel := by
  intro fuel
  induction fuel with
  | zero =>
    intro st hinv
    unfold run
    refine ⟨hinv, ?_, ?_, ?_, ?_, ?_, by simp⟩
    · split <;> simp
    · split <;> simp
    · intro h; split at h
      · assumption
      · cases h
    · intro _; simp
    · intro h; split at h <;> cases h
  | succ fuel ih =>
    intro st hinv
    unfold run
    split
    · rename_i h0
      exact ⟨hinv, by simp, by simp, fun _ => h0, fun h => (by cases h), fun h => (by cases h), by simp⟩
    · obtain ⟨s1, s2, s3⟩ := step_inv env st hinv
      split
      · rename_i hh heq
        refine ⟨hinv, ?_, ?_, fun h => (by cases h), ?_, ?_, by simp⟩
        · intro h; simp only [Option.some.injEq] at h; subst h; exact s2 heq
        · intro h; simp only [Option.some.injEq] at h; subst h; exact s3 heq
        · intro h
          simp only [Option.some.injEq] at h; subst h
          -- `step` never reports `outOfFuel`
          exact absurd heq (step_ne_fuel env st)
        · intro h
          simp only [Option.some.injEq] at h; subst h
          exact step_overrun env st heq
      · rename_i st' heq
        obtain ⟨i1, i2⟩ := s1 st' heq
        obtain ⟨r1, r2, r3, r4, r5, r6, r7⟩ := ih st' i1
        refine ⟨r1, r2, r3, r4, ?_, r6, by omega⟩
        intro h; have := r5 h; omega

theorem init_ok_or_harness (env : Env) (h : Halt) (e : init env = .error h) : h = .badIndex ∨ h = .outOfDraws := by
  unfold init at e
  split at e
  · dsimp only at e
    split at e
    · simp only [Except.error.injEq] at e; exact Or.inl e.symm
    · cases e
  · simp only [Except.error.injEq] at e; exact Or.inr e.symm

end DirectVerif.C04Poisson
