import DirectVerif.Model.SslSplit
/-!
# C11 helper lemmas — boolean grids: pointwise algebra and counting
-/
namespace DirectVerif.C11
open DirectVerif DirectVerif.SslSplit

deriving instance DecidableEq for Except

/-- cell `k` of a grid, `false` outside -/
def cell (g : Grid) (k : Nat) : Bool := g.getD k false

/-- pointwise inclusion -/
def Sub (a b : Grid) : Prop := ∀ k, cell a k = true → cell b k = true

theorem cell_eq_getElem (g : Grid) (k : Nat) (h : k < g.length) : cell g k = g[k] := by
  simp [cell, List.getD_eq_getElem?_getD, List.getElem?_eq_getElem h]

theorem cell_of_ge (g : Grid) (k : Nat) (h : g.length ≤ k) : cell g k = false := by
  simp [cell, List.getD_eq_getElem?_getD, List.getElem?_eq_none h]

theorem cell_true_lt (g : Grid) (k : Nat) (h : cell g k = true) : k < g.length := by
  by_cases hk : k < g.length
  · exact hk
  · rw [cell_of_ge g k (by omega)] at h; cases h

theorem ext_cell (a b : Grid) (hl : a.length = b.length) (h : ∀ k, k < a.length → cell a k = cell b k) : a = b := by
  apply List.ext_getElem hl
  intro i h1 h2
  have := h i h1
  rwa [cell_eq_getElem a i h1, cell_eq_getElem b i h2] at this

@[simp] theorem length_gOr (a b : Grid) : (gOr a b).length = min a.length b.length := by simp [gOr]
@[simp] theorem length_gAnd (a b : Grid) : (gAnd a b).length = min a.length b.length := by simp [gAnd]
@[simp] theorem length_gAndNot (a b : Grid) : (gAndNot a b).length = min a.length b.length := by simp [gAndNot]
@[simp] theorem length_zeros (n : Nat) : (zeros n).length = n := by simp [zeros]
@[simp] theorem length_gNot (a : Grid) : (gNot a).length = a.length := by simp [gNot]

theorem cell_zipWith (f : Bool → Bool → Bool) (hf : f false false = false) (a b : Grid) (hl : a.length = b.length)
    (k : Nat) : cell (List.zipWith f a b) k = f (cell a k) (cell b k) := by
  by_cases hk : k < a.length
  · have h2 : k < b.length := by omega
    have h3 : k < (List.zipWith f a b).length := by simp; omega
    rw [cell_eq_getElem _ k h3, cell_eq_getElem a k hk, cell_eq_getElem b k h2, List.getElem_zipWith]
  · rw [cell_of_ge a k (by omega), cell_of_ge b k (by omega), cell_of_ge _ k (by simp; omega), hf]

theorem cell_gOr (a b : Grid) (hl : a.length = b.length) (k : Nat) : cell (gOr a b) k = (cell a k || cell b k) :=
  cell_zipWith _ rfl a b hl k
theorem cell_gAnd (a b : Grid) (hl : a.length = b.length) (k : Nat) : cell (gAnd a b) k = (cell a k && cell b k) :=
  cell_zipWith _ rfl a b hl k
theorem cell_gAndNot (a b : Grid) (hl : a.length = b.length) (k : Nat) :
    cell (gAndNot a b) k = (cell a k && !cell b k) :=
  cell_zipWith _ rfl a b hl k

theorem cell_zeros (n k : Nat) : cell (zeros n) k = false := by
  by_cases hk : k < n
  · rw [cell_eq_getElem _ k (by simpa using hk)]; simp [zeros]
  · exact cell_of_ge _ k (by simp; omega)

theorem cnt_zeros (n : Nat) : cnt (zeros n) = 0 := by simp [cnt, zeros, List.count_replicate]

theorem cell_mapIdx (g : Grid) (f : Nat → Bool → Bool) (hf : ∀ k, f k false = false) (k : Nat) :
    cell (g.mapIdx f) k = f k (cell g k) := by
  by_cases hk : k < g.length
  · rw [cell_eq_getElem _ k (by simpa using hk), cell_eq_getElem g k hk, List.getElem_mapIdx]
  · rw [cell_of_ge g k (by omega), cell_of_ge _ k (by simp; omega), hf]

/-- setting a cell that is `false` adds one to the count -/
theorem cnt_set_true (g : Grid) (k : Nat) (h : k < g.length) (hk : cell g k = false) :
    cnt (g.set k true) = cnt g + 1 := by
  rw [cell_eq_getElem g k h] at hk
  simp [cnt, List.count_set h, hk]

theorem cell_set_true (g : Grid) (k j : Nat) (h : k < g.length) :
    cell (g.set k true) j = (decide (k = j) || cell g j) := by
  by_cases hj : j < g.length
  · rw [cell_eq_getElem _ j (by simpa using hj), cell_eq_getElem g j hj, List.getElem_set]
    by_cases e : k = j <;> simp [e]
  · rw [cell_of_ge g j (by omega), cell_of_ge _ j (by simp; omega)]
    have : k ≠ j := by omega
    simp [this]

/-- pointwise inclusion of equally long grids bounds the count -/
theorem cnt_le_of_sub : ∀ (a b : Grid), a.length = b.length → Sub a b → cnt a ≤ cnt b
  | [], [], _, _ => by simp [cnt]
  | [], _ :: _, h, _ => by simp at h
  | _ :: _, [], h, _ => by simp at h
  | x :: a, y :: b, hl, hs => by
    have hl' : a.length = b.length := by simpa using hl
    have hs' : Sub a b := fun k hk => by
      have := hs (k + 1) (by simpa [cell] using hk)
      simpa [cell] using this
    have ih := cnt_le_of_sub a b hl' hs'
    have h0 := hs 0
    simp only [cell, List.getD_cons_zero] at h0
    simp only [cnt, List.count_cons] at ih ⊢
    cases x <;> cases y <;> simp_all <;> omega

/-- if the count of `a` is smaller there is a cell of `b` missing from `a` -/
theorem exists_missing (a b : Grid) (hl : a.length = b.length) (h : cnt a < cnt b) :
    ∃ k, cell b k = true ∧ cell a k = false := by
  apply Classical.byContradiction
  intro hne
  have hs : Sub b a := fun k hk => by
    cases hc : cell a k with
    | true => rfl
    | false => exact absurd ⟨k, hk, hc⟩ hne
  have := cnt_le_of_sub b a hl.symm hs
  omega

end DirectVerif.C11
