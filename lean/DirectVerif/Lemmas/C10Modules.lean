import DirectVerif.Model.Crop
import DirectVerif.Model.C10Modules
import DirectVerif.Props.C10
/-!
# C10 — k-space modules: key plumbing, call histories, argument forms (obligations of the C10 check)

All statements are about the definitions the driver executes (`moduleCall`, `padKspaceIO`, `cropKspaceIO`,
`cropShapeResolve`, `Module.run`) and about the predicates the translated tables are `decide`d against.
-/
namespace DirectVerif.C10
open DirectVerif DirectVerif.Crop

/-! ## key plumbing -/

theorem KSample.get_set_self {α} (s : KSample α) (k : KKey) (x : α) : (s.set k x).get k = some x := by
  cases k <;> rfl

theorem KSample.get_set_ne {α} (s : KSample α) (k k' : KKey) (x : α) (h : k' ≠ k) : (s.set k x).get k' = s.get k' := by
  cases k <;> cases k' <;> first | rfl | exact absurd rfl h

/-- **`PadKspace` / `RescaleKspace` with any `kspace_key`**: the call succeeds iff the sample has that key, and then
stores `f (sample[kspace_key])` under that very key … -/
theorem self_key_call_result {α} (cfg : KKey) (f : α → α) (s : KSample α) (x : α) (h : s.get cfg = some x) :
    moduleCall padKspaceIO cfg f s = some (s.set cfg (f x)) := by
  simp only [moduleCall, padKspaceIO, KeyRef.resolve, h]

theorem self_key_call_keyerror {α} (cfg : KKey) (f : α → α) (s : KSample α) (h : s.get cfg = none) :
    moduleCall padKspaceIO cfg f s = none := by
  simp only [moduleCall, padKspaceIO, KeyRef.resolve, h]

/-- … the configured key holds the transformed tensor … -/
theorem self_key_call_get {α} (cfg : KKey) (f : α → α) (s s' : KSample α) (x : α) (h : s.get cfg = some x)
    (hc : moduleCall padKspaceIO cfg f s = some s') : s'.get cfg = some (f x) := by
  rw [self_key_call_result cfg f s x h] at hc
  cases hc
  exact KSample.get_set_self s cfg (f x)

/-- … and **the other k-space key is untouched** (bit-identical: it is the same value). -/
theorem self_key_call_frame {α} (cfg : KKey) (f : α → α) (s s' : KSample α)
    (hc : moduleCall padKspaceIO cfg f s = some s') (k : KKey) (hk : k ≠ cfg) : s'.get k = s.get k := by
  cases hx : s.get cfg with
  | none => rw [self_key_call_keyerror cfg f s hx] at hc; cases hc
  | some x =>
    rw [self_key_call_result cfg f s x hx] at hc
    cases hc
    exact KSample.get_set_ne s cfg k (f x) hk

/-- `CropKspace` always works on `sample["kspace"]`; `masked_kspace` is untouched -/
theorem crop_kspace_call_frame {α} (cfg : KKey) (f : α → α) (s s' : KSample α)
    (hc : moduleCall cropKspaceIO cfg f s = some s') : s'.masked = s.masked ∧ s'.kspace = s.kspace.map f := by
  cases hx : s.kspace with
  | none => simp [moduleCall, cropKspaceIO, KeyRef.resolve, KSample.get, hx] at hc
  | some x =>
    simp only [moduleCall, cropKspaceIO, KeyRef.resolve, KSample.get, hx, Option.some.injEq] at hc
    subst hc
    exact ⟨rfl, rfl⟩

/-- **characterisation**: a read/write key pair honours the `kspace_key` option for *both* configurations exactly when
both are `self.kspace_key` — a literal, or an enum default reached through a helper's omitted keyword, cannot. -/
theorem io_honours_key_iff (io : KIO) :
    (∀ cfg, io.read.resolve cfg = some cfg ∧ io.write.resolve cfg = some cfg) ↔ io = padKspaceIO := by
  constructor
  · intro h
    obtain ⟨r, w⟩ := io
    have h1 := h .kspace
    have h2 := h .masked
    cases r <;> cases w <;> simp_all [KeyRef.resolve, padKspaceIO]
  · rintro rfl cfg
    exact ⟨rfl, rfl⟩

/-- regression witness (seeded C10-6): the plan's read/write key falls back to the helper's default
`KspaceKey.KSPACE`.  With `kspace_key = masked_kspace` the masked k-space is returned unchanged and the full k-space —
which the transform was not asked to touch — is overwritten. -/
theorem default_key_io_violates :
    moduleCall ⟨.enumKspace, .enumKspace⟩ .masked (fun x : Int => x + 100) ⟨some 1, some 2⟩ = some ⟨some 101, some 2⟩ := by
  decide

example : moduleCall padKspaceIO .masked (fun x : Int => x + 100) ⟨some 1, some 2⟩ = some ⟨some 1, some 102⟩ := by decide
example : ∃ s : KSample Int, s.get .masked = some 2 := ⟨⟨some 1, some 2⟩, rfl⟩

/-! ## call histories on a persistent instance -/

/-- **an instance whose call writes no state answers every sample of every history exactly as a fresh instance** -/
theorem stateless_history_independent {σ ι ο} (m : Module σ ι ο) (h : ∀ s x, (m.step s x).1 = s) (xs : List ι) :
    m.run m.init xs = m.fresh xs := by
  unfold Module.fresh
  induction xs with
  | nil => rfl
  | cons x xs ih =>
    simp only [Module.run, List.map_cons, h m.init x]
    exact congrArg _ ih

/-- the k-space modules as modelled (no state component at all): every history, both keys, every plan -/
theorem kspace_module_history_independent {α} (io : KIO) (cfg : KKey) (f : α → α) (xs : List (KSample α)) :
    (kspaceModule io cfg f).run () xs = xs.map (moduleCall io cfg f) :=
  stateless_history_independent (kspaceModule io cfg f) (fun _ _ => rfl) xs

/-- regression witness (seeded C10-5): resolving the crop shape once and keeping it in `self._crop_shape` makes the
second sample (4 slices) be cropped with the first sample's slice count (2). -/
theorem cached_crop_shape_violates : cachedCropShape.run none [2, 4] ≠ cachedCropShape.fresh [2, 4] := by decide

example : cachedCropShape.run none [2, 4] = [2, 2] := by decide
example : (kspaceModule padKspaceIO .kspace (fun x : Int => x + 1)).run () [⟨some 1, none⟩, ⟨none, some 2⟩] =
    [some ⟨some 2, none⟩, none] := by decide

/-! ## the crop shape for the three argument forms -/

/-- list / tuple crops: exactly the documented shape (a 2-element crop keeps the slice axis of 5-D k-space) -/
theorem crop_shape_seq_eq_spec (ndim : Int) (crop keyVal : List Int) (slices : Int) :
    cropShapeResolve .seq ndim crop keyVal slices = cropShapeSpec ndim crop slices := rfl

/-- **string crops (`"(3, 2)"`, `"[3,2]"`) resolve to the documented shape for every rank and every length** (full
statement; holds since f148874) -/
theorem crop_shape_string_eq_spec (ndim : Int) (crop keyVal : List Int) (slices : Int) :
    cropShapeResolve .intString ndim crop keyVal slices = cropShapeSpec ndim crop slices := rfl

/-- the way a fixed crop is written does not matter -/
theorem crop_shape_string_eq_tuple (ndim : Int) (crop keyVal : List Int) (slices : Int) :
    cropShapeResolve .intString ndim crop keyVal slices = cropShapeResolve .seq ndim crop keyVal slices := rfl

/-- a crop naming a sample key is `sample[key][:-1]`, as documented (no slice entry is added) -/
theorem crop_shape_key (ndim : Int) (crop keyVal : List Int) (slices : Int) :
    cropShapeResolve .key ndim crop keyVal slices = keyVal.dropLast := rfl

/-- the pinned tree took string crops as written: what held then … -/
theorem crop_shape_string_pinned_partial (ndim : Int) (crop keyVal : List Int) (slices : Int)
    (h : ¬ (ndim = 5 ∧ crop.length = 2)) :
    cropShapeResolvePinned .intString ndim crop keyVal slices = cropShapeSpec ndim crop slices := by
  simp only [cropShapeResolvePinned, cropShapeSpec, h, if_false]

/-- … and the regression witness: `CropKspace("(3, 2)")` on 5-D k-space with 4 slices resolved to `(3, 2)` — applied from
axis 1 that crops (slice, height) — whereas `CropKspace((3, 2))` resolved to `(4, 3, 2)` -/
theorem crop_shape_string_pinned_violates :
    cropShapeResolvePinned .intString 5 [3, 2] [] 4 ≠ cropShapeSpec 5 [3, 2] 4 := by decide

example : cropShapeResolve .intString 5 [3, 2] [] 4 = [4, 3, 2] := by decide

/-- an axis whose crop entry is the axis length is returned whole (so the list / tuple form really leaves the slice axis
alone): centre crop … -/
theorem center_crop_full {α} (xs : List α) : centerCrop xs.length xs = xs := by
  unfold centerCrop slice centerCropLower
  simp

/-- … and the bounding-box crop `complex_center_crop` builds (`start = (n - n) // 2 = 0`, `size = n`) -/
theorem ccc_full_axis {α} (fill : α) (xs : List α) :
    cropToBbox fill xs (cccStart xs.length xs.length) xs.length = .ok xs := by
  have h := bbox_inside_eq_slice fill xs 0 xs.length (by omega)
  have e : cccStart (xs.length : Int) (xs.length : Int) = ((0 : Nat) : Int) := by unfold cccStart; simp
  rw [e, h]
  simp [slice]

/-! ## the translated tables -/

/-- what the `decide`d predicate gives: every access is one of the allowed ones — in particular the only k-space key a
module with a `kspace_key` option touches is `self.kspace_key` -/
theorem key_access_ok_sound (rows : List (String × String × String)) (h : keyAccessOk rows = true) :
    ∀ r ∈ rows, r ∈ keyAllowed := by
  intro r hr
  simp only [keyAccessOk, Bool.and_eq_true, List.all_eq_true] at h
  have := h.1 r hr
  simpa using this

/-- the table of the seeded C10-6 tree (PadKspace reaching the k-space through the helper's default key) is rejected -/
example : keyAccessOk (("PadKspace", "write", "KspaceKey.KSPACE") :: keyAccessModel) = false := by decide +kernel
example : keyAccessOk keyAccessModel = true := by decide +kernel
/-- the table of the seeded C10-5 tree is rejected -/
example : stateWritesOk [("CropKspace", "_get_crop_shape", "self._crop_shape")] = false := by decide

end DirectVerif.C10
