import DirectVerif.Model.Pipeline
import DirectVerif.Model.PipelinePrePost
/-!
# C08 helper lemmas — list normal form of the builder

The translator emits the stage list in a normal form that does not depend on how the source groups
unconditional additions into statements: unconditional stages are `::` cells, guarded ones
`opt guard [...] ++ rest`.  `buildSupervised_nf` / `build_nf` relate the readable model to it (static,
proved once); the bridge is then `rfl` against the normal form.
-/
namespace DirectVerif.Pipeline

def buildSupervisedNF (c : Config) : List Stage :=
  .toTensor ::
  (opt (c.crop != .none) [.cropKspace c.imageCenterCrop c.useSeed] ++
  (opt c.rescale [.rescaleKspace .kspace] ++
  (opt c.pad [.padKspace .kspace] ++
  (opt c.rotation [.randomRotation] ++
  (opt c.flip [.randomFlip] ++
  (opt c.reverse [.randomReverse] ++
  (opt c.paddingEps [.computeZeroPadding .kspace .padding thrCurrent, .applyZeroPadding .kspace .padding] ++
  (opt c.maskFunc [.createSamplingMask (c.crop == .tuple) (seedOf c.useSeed [.filename]) c.estimateSmaps] ++
  (opt c.compressCoils [.compressCoil .kspace] ++
  (opt c.padCoils [.padCoilDimension .kspace] ++
  (opt (c.bodyCoil && c.maskFunc) [.estimateBodyCoilImage (seedOf c.useSeed [.filename])] ++
  (opt c.estimateSmaps [.estimateSensitivityMap .kspace c.smapType c.smapGaussian] ++
  (opt c.deleteAcsMask [.deleteKeys [.acsMask]] ++
  (.applyMask .samplingMask .kspace .maskedKspace ::
   .computeScalingFactor c.scalingKey c.percentile .scalingFactor ::
   .normalize .scalingFactor [.kspace, .maskedKspace] ::
   .computeImage .kspace .target c.recon ::
  (opt c.deleteKspace [.deleteKeys [.kspace]] ++ [])))))))))))))))

def buildNF (c : Config) : List Stage :=
  buildSupervisedNF { c with deleteAcsMask := if !c.ssl then c.deleteAcsMask else false,
                             deleteKspace := if !c.ssl then c.deleteKspace else false }
  ++ (.addBooleanKeys ::
  (opt c.ssl
      [.maskSplitter c.split c.splitKeepAcs (seedOf c.useSeed [.filename, .sliceNo]) .maskedKspace,
       .deleteKeys [.acsMask],
       .renameKeys [.inputMaskedKspace, .targetMaskedKspace] [.inputKspace, .kspace],
       .deleteKeys [.maskedKspace, .samplingMask],
       .computeImage .kspace .target c.recon] ++ []))

theorem buildSupervised_nf (c : Config) : buildSupervised c = buildSupervisedNF c := by
  simp only [buildSupervised, buildSupervisedNF, List.append_assoc, List.cons_append, List.nil_append,
    List.append_nil]

theorem build_nf (c : Config) : build c = buildNF c := by
  simp only [build, buildNF, buildSupervised_nf, List.append_assoc, List.cons_append, List.nil_append,
    List.append_nil]

/-- the second builder pair (phase 3) -/
theorem buildPreNF_eq (c : Config) : buildPre c = buildPreNF c := by
  simp only [buildPre, buildPreNF, List.append_assoc, List.cons_append, List.nil_append, List.append_nil]

theorem buildPostNF_eq (c : Config) : buildPost c = buildPostNF c := by
  simp only [buildPost, buildPostNF, List.append_assoc, List.cons_append, List.nil_append, List.append_nil]

end DirectVerif.Pipeline
