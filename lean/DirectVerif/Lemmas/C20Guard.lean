import DirectVerif.Model.ConfigGuard
/-!
Helper lemmas for `Props/GuardsC20.lean`: what the verdicts of the guard evaluator mean.
-/
namespace DirectVerif.Config

theorem guardsPass_iff (T : Tables) (G : GTables) (route : Nat) (cls : PStr × PStr) (schema : Option Ty) (block : Val) :
    guardsPass T G route cls schema block = true ↔
      ∀ r ∈ rowsOf G route cls,
        evalRow r (envOf T G schema block (((classInfo G (if route = 4 then 0 else route) cls).map (·.params)).getD []))
          ≠ some false := by
  unfold guardsPass
  simp only [List.all_eq_true, bne_iff_ne]

theorem oneOf_spec (cs : List GConst) (x : PyS) (o : Sym → PyV) :
    evalGuard (.oneOf cs false) (.s x) o = some true ↔ pyMem x cs = some true := by
  unfold evalGuard
  cases h : pyMem x cs with
  | none => simp [h]
  | some b => cases b <;> simp [h]

/-- `allO` of a total predicate is the conjunction -/
theorem allO_total {α} (p : α → Bool) (xs : List α) :
    allO (fun x => some (p x)) xs = some true ↔ ∀ x ∈ xs, p x = true := by
  induction xs with
  | nil => simp [allO]
  | cons x xs ih =>
    unfold allO
    cases hx : p x
    · simp [hx]
    · cases hr : allO (fun x => some (p x)) xs with
      | none =>
        have : ¬ ∀ y ∈ xs, p y = true := fun h => by simp [ih.mpr h] at hr
        simp only [List.mem_cons, forall_eq_or_imp, hx, true_and]
        exact ⟨fun h => by simp at h, fun h => absurd h this⟩
      | some b =>
        cases b
        · have : ¬ ∀ y ∈ xs, p y = true := fun h => by simp [ih.mpr h] at hr
          simp only [List.mem_cons, forall_eq_or_imp, hx, true_and]
          exact ⟨fun h => by simp at h, fun h => absurd h this⟩
        · have h2 := ih.mp hr
          simp only [List.mem_cons, forall_eq_or_imp, hx, true_and]
          exact ⟨fun _ => h2, fun _ => trivial⟩

theorem allBetween_spec (lo hi : Int) (xs : List (Int × Nat)) (o : Sym → PyV) :
    evalGuard (.allBetween lo hi) (.list (xs.map fun x => .num x.1 x.2 false)) o = some true ↔
      ∀ x ∈ xs, lo * x.2 < x.1 ∧ x.1 < hi * x.2 := by
  unfold evalGuard
  simp only [elems, Option.bind]
  induction xs with
  | nil => simp [allO]
  | cons x xs ih =>
    simp only [List.map_cons, List.mem_cons, forall_eq_or_imp]
    unfold allO
    by_cases hx : lo * (x.2 : Int) < x.1 ∧ x.1 < hi * (x.2 : Int)
    · simp only [hx, and_self, decide_true, true_and]
      rw [← ih]
      cases allO _ (List.map (fun x => PyS.num x.1 x.2 false) xs) with
      | none => simp
      | some b => cases b <;> simp
    · simp [hx]

/-! ## the merge stage, specified -/


/-- the key loop accepts a file exactly when it accepts every key (no key is skipped, none is looked at twice) -/
theorem checkTopKeys_ok_iff (t : Tables) (file : Val) (kvs : List (Sym × Val)) :
    checkTopKeys t file kvs = .ok () ↔ ∀ kv ∈ kvs, checkTopKey t file kv.1 kv.2 = .ok () := by
  induction kvs with
  | nil => simp [checkTopKeys]
  | cons kv rest ih =>
    obtain ⟨k, v⟩ := kv
    unfold checkTopKeys
    cases h : checkTopKey t file k v with
    | error e => simp [h]
    | ok u => cases u; simp [h, ih]

theorem checkModelBlocks_ok_iff (t : Tables) (bs : List (Sym × Val)) :
    checkModelBlocks t bs = .ok () ↔ ∀ b ∈ bs, checkModelBlock t b.2 = .ok () := by
  induction bs with
  | nil => simp [checkModelBlocks]
  | cons b rest ih =>
    obtain ⟨k, v⟩ := b
    unfold checkModelBlocks
    cases h : checkModelBlock t v with
    | error e => simp [h]
    | ok u => cases u; simp [h, ih]

/-- **what the merge stage checks, as a specification**: the file is a map with a `model` block; every model block
(`model`, then the additional models) names importable classes and merges into its config class; every top-level key passes
its own check -/
theorem mergeCheck_ok_iff (t : Tables) (file : Val) :
    mergeCheck t file = .ok () ↔
      ∃ kvs blocks, file = .map kvs ∧ modelBlocks t file = .ok blocks ∧
        (∀ b ∈ blocks, checkModelBlock t b.2 = .ok ()) ∧ (∀ kv ∈ kvs, checkTopKey t file kv.1 kv.2 = .ok ()) := by
  cases file with
  | map kvs =>
    unfold mergeCheck
    cases hb : modelBlocks t (.map kvs) with
    | error e => simp
    | ok blocks =>
      simp only
      cases hm : checkModelBlocks t blocks with
      | error e =>
        have : ¬ ∀ b ∈ blocks, checkModelBlock t b.2 = .ok () := fun h => by
          rw [(checkModelBlocks_ok_iff t blocks).mpr h] at hm; cases hm
        constructor
        · intro h; cases h
        · rintro ⟨kvs', blocks', hk, hb', hall, _⟩
          cases hk; cases hb'; exact absurd hall this
      | ok u =>
        cases u
        have hall := (checkModelBlocks_ok_iff t blocks).mp hm
        constructor
        · intro h; exact ⟨kvs, blocks, rfl, rfl, hall, (checkTopKeys_ok_iff t _ kvs).mp h⟩
        · rintro ⟨kvs', blocks', hk, _, _, hkeys⟩
          cases hk; exact (checkTopKeys_ok_iff t _ kvs).mpr hkeys
  | _ => simp [mergeCheck]

/-- **what the merge does *not* check**: a `List[Any]`-typed field (`training.datasets`, `validation.datasets`,
`loss.losses`) accepts every list whatsoever — containers are appended unchecked and `Any` takes every scalar -/
theorem list_any_unchecked (xs : List Val) : validate (.list .any) (.list xs) = .ok () := by
  have h : ∀ ys : List Val, validateElems .any ys = .ok () := by
    intro ys
    induction ys with
    | nil => simp [validateElems]
    | cons y rest ih =>
      cases y <;> simp [validateElems, validate, Ty.isOptional, Ty.core, validateScalar, ih]
  simp [validate, Ty.core, h]


/-- **what *is* checked for an untyped training / validation block**: it has a `transforms` map with a `masking` entry that
`build_masking_function` can be called with, and every flattened transform key is a builder parameter — nothing else
(no field of the block itself, no type of any value) -/
theorem rawBlockCheck_ok_iff (t : Tables) (b : Val) :
    rawBlockCheck t b = .ok () ↔
      ∃ kvs m, b.get? t.kTransforms = some (.map kvs) ∧ lookup t.kMasking kvs = some m ∧
        maskingCheck t m = .ok () ∧ transformsCheck t (.map kvs) = .ok () := by
  unfold rawBlockCheck
  cases h : b.get? t.kTransforms with
  | none => simp
  | some tr =>
    cases tr with
    | map kvs =>
      simp only
      cases hm : lookup t.kMasking kvs with
      | none => simp [hm]
      | some m =>
        simp only
        cases hc : maskingCheck t m with
        | error e =>
          simp only [reduceCtorEq, false_iff]
          rintro ⟨kvs', m', hk, hm', hc', _⟩
          cases hk; rw [hm] at hm'; cases hm'; rw [hc] at hc'; cases hc'
        | ok u =>
          cases u
          constructor
          · intro ht; exact ⟨kvs, m, rfl, hm, hc, ht⟩
          · rintro ⟨kvs', m', hk, _, _, ht⟩
            cases hk; exact ht
    | _ => simp

end DirectVerif.Config
