import DirectVerif.Model.ConfigGuard
/-!
Helper lemmas for `Props/C20Guards.lean`: what the verdicts of the guard evaluator mean.
-/
namespace DirectVerif.Config

theorem guardsPass_iff (T : Tables) (G : GTables) (route : Nat) (cls : PStr × PStr) (schema : Option Ty) (block : Val) :
    guardsPass T G route cls schema block = true ↔
      ∀ r ∈ rowsOf G route cls,
        evalRow r (envOf T G schema block (((classInfo G (if route = 4 then 0 else route) cls).map (·.params)).getD []))
          ≠ some false := by
  unfold guardsPass
  simp only [List.all_eq_true, bne_iff_ne]

theorem oneOf_spec (cs : List GConst) (x : PyS) (o : Sym → PyV) :
    evalGuard (.oneOf cs false) (.s x) o = some true ↔ pyMem x cs = some true := by
  unfold evalGuard
  cases h : pyMem x cs with
  | none => simp [h]
  | some b => cases b <;> simp [h]

/-- `allO` of a total predicate is the conjunction -/
theorem allO_total {α} (p : α → Bool) (xs : List α) :
    allO (fun x => some (p x)) xs = some true ↔ ∀ x ∈ xs, p x = true := by
  induction xs with
  | nil => simp [allO]
  | cons x xs ih =>
    unfold allO
    cases hx : p x
    · simp [hx]
    · cases hr : allO (fun x => some (p x)) xs with
      | none =>
        have : ¬ ∀ y ∈ xs, p y = true := fun h => by simp [ih.mpr h] at hr
        simp only [List.mem_cons, forall_eq_or_imp, hx, true_and]
        exact ⟨fun h => by simp at h, fun h => absurd h this⟩
      | some b =>
        cases b
        · have : ¬ ∀ y ∈ xs, p y = true := fun h => by simp [ih.mpr h] at hr
          simp only [List.mem_cons, forall_eq_or_imp, hx, true_and]
          exact ⟨fun h => by simp at h, fun h => absurd h this⟩
        · have h2 := ih.mp hr
          simp only [List.mem_cons, forall_eq_or_imp, hx, true_and]
          exact ⟨fun _ => h2, fun _ => trivial⟩

theorem allBetween_spec (lo hi : Int) (xs : List (Int × Nat)) (o : Sym → PyV) :
    evalGuard (.allBetween lo hi) (.list (xs.map fun x => .num x.1 x.2 false)) o = some true ↔
      ∀ x ∈ xs, lo * x.2 < x.1 ∧ x.1 < hi * x.2 := by
  unfold evalGuard
  simp only [elems, Option.bind]
  induction xs with
  | nil => simp [allO]
  | cons x xs ih =>
    simp only [List.map_cons, List.mem_cons, forall_eq_or_imp]
    unfold allO
    by_cases hx : lo * (x.2 : Int) < x.1 ∧ x.1 < hi * (x.2 : Int)
    · simp only [hx, and_self, decide_true, true_and]
      rw [← ih]
      cases allO _ (List.map (fun x => PyS.num x.1 x.2 false) xs) with
      | none => simp
      | some b => cases b <;> simp
    · simp [hx]

end DirectVerif.Config
