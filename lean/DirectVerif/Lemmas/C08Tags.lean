import DirectVerif.Lemmas.C08Static
/-!
# C08 helper lemmas — spatial-shape tags for every configuration

The shape-tag interpreter (`absProgram opSp`) is related to the degree interpreter (`typeProgram`) by a
simulation: for a *stable* instruction — one whose shape rule maps "every tensor key has tag `τ`, the
scaling factor is a scalar" to the same statement about the result — success of the degree check implies
success of the shape check, with the environment `tagEnv τ e'`.  All instructions after the
`CropKspace / RescaleKspace / PadKspace` prefix are stable (`CreateSamplingMask(shape=crop)` only for
`τ = cropped`, which is what excludes a tuple crop followed by pad / rescale); the prefix is evaluated
for its 12 flag combinations.
-/
namespace DirectVerif.Pipeline

/-- the nominal tag of a key: the scaling factor is a scalar, every other tensor has the spatial tag `τ` -/
def tagOf (τ : Sp) (k : Key) : Sp := if k = .scalingFactor then .scalar else τ

/-- the shape environment that has exactly the keys of `e`, with their nominal tags -/
def tagEnv (τ : Sp) (e : TEnv) : AEnv Sp := fun k => (e k).map fun _ => tagOf τ k

/-- the shape rule keeps the nominal tags -/
def stableB (τ : Sp) : Instr → Bool
  | .assign _ dst op args =>
      (match opSp op (args.map (tagOf τ)) with
       | .ok t => t == tagOf τ dst
       | .error _ => false)
  | .move src dst => (src == .scalingFactor) == (dst == .scalingFactor)
  | _ => true

theorem tagEnv_isSome (τ : Sp) (e : TEnv) (k : Key) : (tagEnv τ e k).isSome = (e k).isSome := by
  simp [tagEnv]

theorem tagEnv_set (τ : Sp) (e : TEnv) (k : Key) (d : Int) :
    tagEnv τ (e.set k (some d)) = (tagEnv τ e).set k (some (tagOf τ k)) := by
  funext k'; unfold tagEnv AEnv.set; by_cases h : k' = k <;> simp [h]

theorem tagEnv_set_none (τ : Sp) (e : TEnv) (k : Key) :
    tagEnv τ (e.set k none) = (tagEnv τ e).set k none := by
  funext k'; unfold tagEnv AEnv.set; by_cases h : k' = k <;> simp [h]

theorem getAllA_tag (τ : Sp) (e : TEnv) (args : List Key) (ts : List Int) (h : getAllA e args = .ok ts) :
    getAllA (tagEnv τ e) args = .ok (args.map (tagOf τ)) := by
  induction args generalizing ts with
  | nil => rfl
  | cons k ks ih =>
    simp only [getAllA] at h ⊢
    cases hk : e k with
    | none => simp [hk] at h
    | some d =>
      simp only [hk] at h
      cases hr : getAllA e ks with
      | error er => simp [hr] at h
      | ok ts' =>
        have : tagEnv τ e k = some (tagOf τ k) := by simp [tagEnv, hk]
        simp [this, ih ts' hr]

theorem stable_instr (τ : Sp) (i : Instr) (hs : stableB τ i = true) (e e' : TEnv)
    (ht : typeInstr i e = .ok e') : absInstr opSp i (tagEnv τ e) = .ok (tagEnv τ e') := by
  cases i with
  | assign gs dst op args =>
    simp only [typeInstr, absInstr] at ht ⊢
    have hg : gs.all (fun g => (tagEnv τ e g).isSome) = gs.all (fun g => (e g).isSome) := by
      congr 1; funext g; exact tagEnv_isSome τ e g
    rw [hg]
    by_cases hgs : gs.all (fun g => (e g).isSome) = true
    · simp only [hgs, if_true] at ht ⊢
      cases ha : getAllA e args with
      | error er => simp [ha] at ht
      | ok ts =>
        simp only [ha] at ht
        cases ho : opDeg op ts with
        | error er => simp [ho] at ht
        | ok d =>
          simp only [ho, Except.ok.injEq] at ht; subst ht
          rw [getAllA_tag τ e args ts ha]
          simp only [stableB] at hs
          cases hsp : opSp op (args.map (tagOf τ)) with
          | error er => simp [hsp] at hs
          | ok t =>
            simp only [hsp, beq_iff_eq] at hs; subst hs
            rw [tagEnv_set]; simp only [hsp]
    · simp only [hgs, if_false, Bool.false_eq_true, Except.ok.injEq] at ht ⊢
      subst ht; rfl
  | delete k =>
    simp only [typeInstr, absInstr, Except.ok.injEq] at ht ⊢; subst ht; exact (tagEnv_set_none τ e k).symm
  | move src dst =>
    simp only [typeInstr, absInstr] at ht ⊢
    cases hsrc : e src with
    | none =>
      simp only [hsrc, Except.ok.injEq] at ht; subst ht
      simp [tagEnv, hsrc]
    | some d =>
      simp only [hsrc, Except.ok.injEq] at ht; subst ht
      have h1 : tagEnv τ e src = some (tagOf τ src) := by simp [tagEnv, hsrc]
      have h2 : tagOf τ src = tagOf τ dst := by
        simp only [stableB, beq_iff_eq] at hs
        unfold tagOf
        by_cases a : src = .scalingFactor <;> by_cases b : dst = .scalingFactor <;> simp_all
      simp only [h1, tagEnv_set, tagEnv_set_none, h2]
  | require k =>
    simp only [typeInstr, absInstr, tagEnv_isSome] at ht ⊢
    split at ht
    · rename_i hk; simp only [Except.ok.injEq] at ht; subst ht; simp [hk]
    · simp at ht

theorem stable_program (τ : Sp) (p : List Instr) (hs : p.all (stableB τ) = true) (e e' : TEnv)
    (ht : typeProgram p e = .ok e') : absProgram opSp p (tagEnv τ e) = .ok (tagEnv τ e') := by
  induction p generalizing e with
  | nil => simp only [typeProgram, absProgram, Except.ok.injEq] at ht ⊢; subst ht; rfl
  | cons i is ih =>
    simp only [List.all_cons, Bool.and_eq_true] at hs
    simp only [typeProgram, absProgram] at ht ⊢
    cases hi : absInstr opDeg i e with
    | error er => simp [hi] at ht
    | ok e1 =>
      simp only [hi] at ht
      have := stable_instr τ i hs.1 e e1 hi
      simp only [this]
      exact ih hs.2 e1 ht

theorem absProgram_append {α} (rule : Op → List α → Except Err α) (p q : List Instr) (e : AEnv α) :
    absProgram rule (p ++ q) e = match absProgram rule p e with
      | .ok e' => absProgram rule q e'
      | .error er => .error er := by
  induction p generalizing e with
  | nil => rfl
  | cons i is ih =>
    simp only [List.cons_append, absProgram]
    cases absInstr rule i e with
    | error er => rfl
    | ok e1 => exact ih e1

/-! ## the builder: spatial prefix and the rest -/

/-- the spatial tag every tensor output carries -/
def finalSp (c : Config) : Sp :=
  if c.pad then .padded else if c.rescale then .rescaled else if c.crop != .none then .cropped else .raw

/-- the stages that change the spatial size -/
def spPrefix (c : Config) : List Stage :=
  [.toTensor] ++ (opt (c.crop != .none) [.cropKspace c.imageCenterCrop c.useSeed]
  ++ (opt c.rescale [.rescaleKspace .kspace] ++ opt c.pad [.padKspace .kspace]))

/-- everything after them -/
def spRest (c : Config) : List Stage :=
  opt c.rotation [.randomRotation]
  ++ (opt c.flip [.randomFlip]
  ++ (opt c.reverse [.randomReverse]
  ++ (opt c.paddingEps [.computeZeroPadding .kspace .padding thrCurrent, .applyZeroPadding .kspace .padding]
  ++ (opt c.maskFunc [.createSamplingMask (c.crop == .tuple) (seedOf c.useSeed [.filename]) c.estimateSmaps]
  ++ (opt c.compressCoils [.compressCoil .kspace]
  ++ (opt c.padCoils [.padCoilDimension .kspace]
  ++ (opt (c.bodyCoil && c.maskFunc) [.estimateBodyCoilImage (seedOf c.useSeed [.filename])]
  ++ (opt c.estimateSmaps [.estimateSensitivityMap .kspace c.smapType c.smapGaussian]
  ++ (opt (if !c.ssl then c.deleteAcsMask else false) [.deleteKeys [.acsMask]]
  ++ ([.applyMask .samplingMask .kspace .maskedKspace]
  ++ ([.computeScalingFactor c.scalingKey c.percentile .scalingFactor, .normalize .scalingFactor [.kspace, .maskedKspace]]
  ++ ([.computeImage .kspace .target c.recon]
  ++ (opt (if !c.ssl then c.deleteKspace else false) [.deleteKeys [.kspace]]
  ++ ([.addBooleanKeys]
  ++ opt c.ssl
      [.maskSplitter c.split c.splitKeepAcs (seedOf c.useSeed [.filename, .sliceNo]) .maskedKspace,
       .deleteKeys [.acsMask],
       .renameKeys [.inputMaskedKspace, .targetMaskedKspace] [.inputKspace, .kspace],
       .deleteKeys [.maskedKspace, .samplingMask],
       .computeImage .kspace .target c.recon]))))))))))))))

theorem build_sp_split (c : Config) : build c = spPrefix c ++ spRest c := by
  simp [build, buildSupervised, spPrefix, spRest, List.append_assoc]

def allKeys : List Key :=
  [.kspace, .maskedKspace, .samplingMask, .acsMask, .padding, .sensitivityMap, .scalingFactor, .target,
   .bodyCoilImage, .inputMaskedKspace, .targetMaskedKspace, .inputSamplingMask, .targetSamplingMask,
   .inputKspace, .t1, .t2, .t3, .t4, .t5]

/-- decidable pointwise comparison of an abstract run with an expected environment -/
def envEqB {α} [DecidableEq α] (r : Except Err (AEnv α)) (f : AEnv α) : Bool :=
  match r with
  | .ok e => allKeys.all fun k => decide (e k = f k)
  | .error _ => false

theorem envEqB_sound {α} [DecidableEq α] (r : Except Err (AEnv α)) (f : AEnv α) (h : envEqB r f = true) : r = .ok f := by
  cases r with
  | error er => simp [envEqB] at h
  | ok e =>
    simp only [envEqB, allKeys, List.all_cons, List.all_nil, Bool.and_true, Bool.and_eq_true, decide_eq_true_eq] at h
    congr 1; funext k
    cases k <;> simp_all

theorem spPrefix_deg_aux (crop : CropArg) (center us rescale pad : Bool) :
    envEqB (typeProgram (program ([Stage.toTensor] ++ (opt (crop != .none) [.cropKspace center us]
      ++ (opt rescale [.rescaleKspace .kspace] ++ opt pad [.padKspace .kspace])))) initEnv) initEnv = true := by
  cases crop <;> cases center <;> cases us <;> cases rescale <;> cases pad <;> decide

theorem spPrefix_sp_aux (crop : CropArg) (center us rescale pad : Bool) :
    envEqB (absProgram opSp (program ([Stage.toTensor] ++ (opt (crop != .none) [.cropKspace center us]
      ++ (opt rescale [.rescaleKspace .kspace] ++ opt pad [.padKspace .kspace])))) initSp)
      (tagEnv (if pad then .padded else if rescale then .rescaled else if crop != .none then .cropped else .raw)
        initEnv) = true := by
  cases crop <;> cases center <;> cases us <;> cases rescale <;> cases pad <;> decide

/-- the prefix: only `kspace` is present; its degree stays 1 and its tag becomes `finalSp` -/
theorem spPrefix_deg (c : Config) : typeProgram (program (spPrefix c)) initEnv = .ok initEnv :=
  envEqB_sound _ _ (spPrefix_deg_aux c.crop c.imageCenterCrop c.useSeed c.rescale c.pad)

theorem spPrefix_sp (c : Config) :
    absProgram opSp (program (spPrefix c)) initSp = .ok (tagEnv (finalSp c) initEnv) :=
  envEqB_sound _ _ (spPrefix_sp_aux c.crop c.imageCenterCrop c.useSeed c.rescale c.pad)

theorem finalSp_ne_scalar (c : Config) : finalSp c ≠ .scalar := by
  unfold finalSp; split <;> (try split) <;> (try split) <;> simp

/-- every instruction after the spatial prefix keeps the nominal tags — for every flag combination -/
theorem spRest_stable (c : Config) (τ : Sp) (hτ : τ ≠ .scalar) (hc : c.crop = .tuple → τ = .cropped) :
    (program (spRest c)).all (stableB τ) = true := by
  obtain ⟨crop, center, rescale, pad, rot, flip, rev, pe, mf, cc, pc, bc, es, st, sg, da, dk, recon, sk, pct,
    us, ssl, split, ka⟩ := c
  simp only at hc
  simp only [spRest, program_append, List.all_append, Bool.and_eq_true]
  refine ⟨?_, ?_, ?_, ?_, ?_, ?_, ?_, ?_, ?_, ?_, ?_, ?_, ?_, ?_, ?_, ?_⟩
  · cases τ <;> cases rot <;> first | rfl | exact absurd rfl hτ
  · cases τ <;> cases flip <;> first | rfl | exact absurd rfl hτ
  · cases τ <;> cases rev <;> first | rfl | exact absurd rfl hτ
  · cases τ <;> cases pe <;> first | rfl | exact absurd rfl hτ
  · cases crop
    · cases τ <;> cases mf <;> cases us <;> cases es <;> first | rfl | exact absurd rfl hτ
    · have := hc rfl; subst this
      cases mf <;> cases us <;> cases es <;> rfl
    · cases τ <;> cases mf <;> cases us <;> cases es <;> first | rfl | exact absurd rfl hτ
  · cases τ <;> cases cc <;> first | rfl | exact absurd rfl hτ
  · cases τ <;> cases pc <;> first | rfl | exact absurd rfl hτ
  · cases τ <;> cases bc <;> cases mf <;> cases us <;> first | rfl | exact absurd rfl hτ
  · cases τ <;> cases es <;> cases st <;> cases sg <;> first | rfl | exact absurd rfl hτ
  · cases τ <;> cases ssl <;> cases da <;> first | rfl | exact absurd rfl hτ
  · cases τ <;> first | rfl | exact absurd rfl hτ
  · cases sk with
    | key k => cases τ <;> cases pct <;> cases k <;> first | rfl | exact absurd rfl hτ
    | _ => cases τ <;> cases pct <;> first | rfl | exact absurd rfl hτ
  · cases τ <;> cases recon <;> first | rfl | exact absurd rfl hτ
  · cases τ <;> cases ssl <;> cases dk <;> first | rfl | exact absurd rfl hτ
  · rfl
  · cases τ <;> cases ssl <;> cases split <;> cases ka <;> cases us <;> cases recon <;> first | rfl | exact absurd rfl hτ

/-- **shape tags of the whole pipeline**: whenever the degree check succeeds with environment `ed`, the shape
check succeeds too and yields exactly the keys of `ed`, the scaling factor tagged scalar and every other
tensor tagged `finalSp c` — for every configuration in which a tuple crop is not followed by pad / rescale -/
theorem shape_tags_of_degrees (c : Config) (hc : c.crop = .tuple → c.rescale = false ∧ c.pad = false)
    (ed : TEnv) (hd : typeProgram (program (build c)) initEnv = .ok ed) :
    absProgram opSp (program (build c)) initSp = .ok (tagEnv (finalSp c) ed) := by
  rw [build_sp_split, program_append] at hd ⊢
  rw [typeProgram_append, spPrefix_deg] at hd
  rw [absProgram_append, spPrefix_sp]
  refine stable_program (finalSp c) _ (spRest_stable c _ (finalSp_ne_scalar c) ?_) initEnv ed hd
  intro h
  obtain ⟨h1, h2⟩ := hc h
  simp [finalSp, h, h1, h2]

end DirectVerif.Pipeline
