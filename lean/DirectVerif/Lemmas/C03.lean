import DirectVerif.Model.Mask
/-!
# Helper lemmas for C03: row-major index arithmetic and numpy broadcasting (reversed shapes)
-/
namespace DirectVerif.Mask
open DirectVerif

theorem unravelR_length (s : List Nat) (f : Nat) : (unravelR s f).length = s.length := by
  induction s generalizing f with
  | nil => rfl
  | cons n s ih => simp [unravelR, ih]

/-- `ravel ∘ unravel = id` on flat offsets below the element count -/
theorem ravelR_unravelR (s : List Nat) (f : Nat) (h : f < prodR s) :
    ravelR s (unravelR s f) = f := by
  induction s generalizing f with
  | nil => simp [prodR] at h; simp [ravelR, h]
  | cons n s ih =>
    simp only [prodR] at h
    have hn : 0 < n := by
      rcases Nat.eq_zero_or_pos n with h0 | h0
      · subst h0; simp at h
      · exact h0
    have hq : f / n < prodR s := Nat.div_lt_of_lt_mul h
    simp only [unravelR, ravelR, ih _ hq]
    exact Nat.mod_add_div f n

/-- an unravelled index is already its own broadcast source index for the same shape -/
theorem bIdxR_unravelR_self (s : List Nat) (f : Nat) : bIdxR s (unravelR s f) = unravelR s f := by
  induction s generalizing f with
  | nil => rfl
  | cons n s ih =>
    simp only [unravelR, bIdxR, ih]
    by_cases h1 : n = 1
    · subst h1; simp [Nat.mod_one]
    · simp [h1]

theorem unravelR_inRange (s : List Nat) (f : Nat) (h : f < prodR s) : inRangeR s (unravelR s f) := by
  induction s generalizing f with
  | nil => simp [unravelR, inRangeR]
  | cons n s ih =>
    simp only [prodR] at h
    have hn : 0 < n := by
      rcases Nat.eq_zero_or_pos n with h0 | h0
      · subst h0; simp at h
      · exact h0
    exact ⟨Nat.mod_lt _ hn, ih _ (Nat.div_lt_of_lt_mul h)⟩

theorem ravelR_lt (s i : List Nat) (h : inRangeR s i) : ravelR s i < prodR s := by
  induction s generalizing i with
  | nil => cases i <;> simp [inRangeR] at h <;> simp [ravelR, prodR]
  | cons n s ih =>
    cases i with
    | nil => simp [inRangeR] at h
    | cons j is =>
      obtain ⟨hj, hr⟩ := h
      have := ih is hr
      simp only [ravelR, prodR]
      calc j + n * ravelR s is < n + n * ravelR s is := by omega
        _ = n * (ravelR s is + 1) := by rw [Nat.mul_add, Nat.mul_one, Nat.add_comm]
        _ ≤ n * prodR s := Nat.mul_le_mul_left n this

/-- `unravel ∘ ravel = id` on in-range multi-indices -/
theorem unravelR_ravelR (s i : List Nat) (h : inRangeR s i) : unravelR s (ravelR s i) = i := by
  induction s generalizing i with
  | nil => cases i <;> simp [inRangeR] at h <;> simp [unravelR]
  | cons n s ih =>
    cases i with
    | nil => simp [inRangeR] at h
    | cons j is =>
      obtain ⟨hj, hr⟩ := h
      have hn : 0 < n := by omega
      simp only [ravelR, unravelR]
      rw [Nat.add_mul_mod_self_left, Nat.mod_eq_of_lt hj, Nat.add_mul_div_left _ _ hn,
        Nat.div_eq_of_lt hj, Nat.zero_add, ih is hr]

theorem bShapeR_self (s : List Nat) : bShapeR s s = some s := by
  induction s with
  | nil => rfl
  | cons a s ih => simp [bShapeR, ih]

/-- the broadcast result absorbs the operand: `broadcast(a, broadcast(a, b)) = broadcast(a, b)` -/
theorem bShapeR_idem (a b c : List Nat) (h : bShapeR a b = some c) : bShapeR a c = some c := by
  induction a generalizing b c with
  | nil => simp [bShapeR] at h; subst h; simp [bShapeR]
  | cons x s ih =>
    cases b with
    | nil => simp [bShapeR] at h; subst h; exact bShapeR_self _
    | cons y t =>
      simp only [bShapeR] at h
      split at h
      · cases hst : bShapeR s t with
        | none => simp [hst] at h
        | some c' =>
          simp [hst] at h; subst h
          simp [bShapeR, ih t c' hst]
      · rename_i hxy
        split at h
        · rename_i hx1
          cases hst : bShapeR s t with
          | none => simp [hst] at h
          | some c' =>
            simp [hst] at h; subst h
            subst hx1
            have hy : ¬ (1 = y ∨ y = 1) := hxy
            simp [bShapeR, hy, ih t c' hst]
        · simp at h

theorem bShapeR_nil (a b : List Nat) (h : bShapeR a b = some []) : a = [] ∧ b = [] := by
  cases a with
  | nil => simp [bShapeR] at h; exact ⟨rfl, h⟩
  | cons x s =>
    cases b with
    | nil => simp [bShapeR] at h
    | cons y t =>
      simp only [bShapeR] at h
      split at h
      · cases hst : bShapeR s t <;> simp [hst] at h
      · split at h
        · cases hst : bShapeR s t <;> simp [hst] at h
        · simp at h

theorem outShapeR_idem (m k c : List Nat) (h : outShapeR m k = some c) : outShapeR m c = some c := by
  unfold outShapeR at h
  cases hb : bShapeR m k with
  | none => simp [hb] at h
  | some r =>
    cases r with
    | nil =>
      simp [hb] at h; subst h
      obtain ⟨hm, _⟩ := bShapeR_nil _ _ hb
      subst hm
      simp [outShapeR, bShapeR]
    | cons r0 rs =>
      simp [hb] at h; subst h
      have := bShapeR_idem _ _ _ hb
      simp [outShapeR, this]

/-- broadcasting keeps a trailing complex axis of length 2 -/
theorem bShapeR_head_two (a t c : List Nat) (h : bShapeR a (2 :: t) = some c) : c.head? = some 2 := by
  cases a with
  | nil => simp [bShapeR] at h; subst h; rfl
  | cons x s =>
    simp only [bShapeR] at h
    split at h
    · rename_i hx
      cases hst : bShapeR s t with
      | none => simp [hst] at h
      | some c' =>
        simp [hst] at h; subst h
        have : x = 2 := by omega
        simp [this]
    · split at h
      · cases hst : bShapeR s t with
        | none => simp [hst] at h
        | some c' => simp [hst] at h; subst h; rfl
      · simp at h

theorem outShapeR_head_two (a t c : List Nat) (h : outShapeR a (2 :: t) = some c) :
    c.head? = some 2 := by
  unfold outShapeR at h
  cases hb : bShapeR a (2 :: t) with
  | none => simp [hb] at h
  | some r =>
    have h2 := bShapeR_head_two _ _ _ hb
    cases r with
    | nil => simp at h2
    | cons r0 rs => simp [hb] at h; subst h; exact h2

/-- `whereWith` unfolded -/
theorem whereWith_some {μ} [Inhabited μ] (f : μ → FVal → FVal) (m : Tensor μ) (k o : Tensor FVal)
    (h : whereWith f m k = some o) :
    ∃ sR, outShapeR m.shape.reverse k.shape.reverse = some sR ∧
      o = { shape := sR.reverse,
            data := (List.range (prodR sR)).map fun fl =>
              f (srcAt m default sR fl) (srcAt k .posZero sR fl) } := by
  unfold whereWith at h
  cases hs : outShapeR m.shape.reverse k.shape.reverse with
  | none => simp [hs] at h
  | some sR => simp [hs] at h; exact ⟨sR, rfl, h.symm⟩

/-- reading the output tensor back at its own flat positions -/
theorem srcAt_self {α} (sR : List Nat) (data : List α) (d : α) (fl : Nat) (h : fl < prodR sR) :
    srcAt { shape := sR.reverse, data := data } d sR fl = data.getD fl d := by
  simp only [srcAt, List.reverse_reverse, bIdxR_unravelR_self, ravelR_unravelR _ _ h]

/-! ## phase 3: broadcast reads stay in range (no default value is ever used for well-formed tensors) -/

theorem bIdxR_nil_left (i : List Nat) : bIdxR [] i = [] := by cases i <;> rfl

theorem bShapeR_nil_right (s : List Nat) : bShapeR s [] = some s := by
  cases s <;> rfl

/-- the index a broadcast operand is read at is in range for that operand -/
theorem bIdxR_inRange (a b c i : List Nat) (h : bShapeR a b = some c) (hi : inRangeR c i) :
    inRangeR a (bIdxR a i) := by
  induction a generalizing b c i with
  | nil => simp [bIdxR_nil_left, inRangeR]
  | cons x s ih =>
    cases b with
    | nil =>
      simp only [bShapeR, Option.some.injEq] at h; subst h
      cases i with
      | nil => simp [inRangeR] at hi
      | cons j is =>
        obtain ⟨hj, hr⟩ := hi
        simp only [bIdxR, inRangeR]
        refine ⟨?_, ih [] s is (bShapeR_nil_right s) hr⟩
        split <;> omega
    | cons y t =>
      simp only [bShapeR] at h
      split at h
      · rename_i hxy
        cases hst : bShapeR s t with
        | none => simp [hst] at h
        | some c' =>
          simp [hst] at h; subst h
          cases i with
          | nil => simp [inRangeR] at hi
          | cons j is =>
            obtain ⟨hj, hr⟩ := hi
            simp only [bIdxR, inRangeR]
            refine ⟨?_, ih t c' is hst hr⟩
            split <;> omega
      · split at h
        · rename_i hx1
          cases hst : bShapeR s t with
          | none => simp [hst] at h
          | some c' =>
            simp [hst] at h; subst h
            cases i with
            | nil => simp [inRangeR] at hi
            | cons j is =>
              obtain ⟨hj, hr⟩ := hi
              simp only [bIdxR, inRangeR]
              refine ⟨?_, ih t c' is hst hr⟩
              simp [hx1]
        · simp at h

/-- … hence the flat offset read from a well-formed operand is below its element count -/
theorem srcAt_index_lt (mR kR sR : List Nat) (h : outShapeR mR kR = some sR) (fl : Nat) (hfl : fl < prodR sR) :
    ravelR mR (bIdxR mR (unravelR sR fl)) < prodR mR := by
  unfold outShapeR at h
  cases hb : bShapeR mR kR with
  | none => simp [hb] at h
  | some r =>
    cases r with
    | nil =>
      obtain ⟨hm, _⟩ := bShapeR_nil _ _ hb
      subst hm
      simp [ravelR, prodR]
    | cons r0 rs =>
      simp [hb] at h; subst h
      exact ravelR_lt _ _ (bIdxR_inRange _ _ _ _ hb (unravelR_inRange _ _ hfl))

/-- reading a tensor whose data were mapped through `g`: the mapped entry (defaults play no role) -/
theorem srcAt_map {α β} (g : α → β) (shape : List Nat) (data : List α) (d : α) (d' : β) (kR sR : List Nat)
    (hwf : data.length = prodR shape.reverse) (h : outShapeR shape.reverse kR = some sR) (fl : Nat)
    (hfl : fl < prodR sR) :
    srcAt { shape := shape, data := data.map g } d' sR fl = g (srcAt { shape := shape, data := data } d sR fl) := by
  have hlt := srcAt_index_lt _ _ _ h fl hfl
  rw [← hwf] at hlt
  simp only [srcAt, List.getD_eq_getElem?_getD, List.getElem?_map, List.getElem?_eq_getElem hlt, Option.map_some,
    Option.getD_some]

end DirectVerif.Mask
