import DirectVerif.Lemmas.C01Dft
import DirectVerif.Lemmas.C10Kspace
/-!
# C10 — k-space crop / pad with the concrete centred DFT (Mathlib `ZMod.dft`), no hypotheses left

`C01Dft.torchFft` is the 1-D transform `torch.fft.fft / ifft (norm=…)` is documented to be; C01 proves it is a
length-preserving inverse pair.  Plugged into `Lemmas/C10Kspace.lean`, the statements about `CropKspace` / `PadKspace`
on one axis hold for every complex k-space line, every target size and parity and all 8 flag combinations.
-/
namespace DirectVerif.C10
open DirectVerif DirectVerif.Crop DirectVerif.Fft DirectVerif.C01Dft

/-- **`CropKspace(n) ∘ PadKspace(N) = id`** on every complex k-space line of length `n ≤ N` -/
theorem kspace_pad_crop_id_dft (cfg : Cfg) (N : Nat) (k : List ℂ) (h : k.length ≤ N) :
    runPlan (c01Ops (listBackend torchFft) cfg (padTo 0 N) (centerCrop k.length)) cropKspacePlan
      (runPlan (c01Ops (listBackend torchFft) cfg (padTo 0 N) (centerCrop k.length)) padKspacePlan k) = k :=
  kspace_pad_crop_id_1d torchFft torchFft_inv_fwd torchFft_fwd_inv torchFft_length cfg 0 N k h

/-- **the image of `CropKspace(s)(k)` is the central window of the image of `k`** (start `floor((n - s)/2)`) -/
theorem kspace_crop_window_dft (cfg : Cfg) (s : Nat) (k : List ℂ) (h : s ≤ k.length) (i : Nat) (hi : i < s) :
    (ifft2 (listBackend torchFft) cfg
      (runPlan (c01Ops (listBackend torchFft) cfg id (centerCrop s)) cropKspacePlan k))[i]? =
      (ifft2 (listBackend torchFft) cfg k)[i + (k.length - s) / 2]? :=
  kspace_crop_window_1d torchFft torchFft_inv_fwd torchFft_fwd_inv torchFft_length cfg id s k h i hi

/-- **the image of `PadKspace(N)(k)` is the image of `k` placed at `floor((N - n)/2)`** … -/
theorem kspace_pad_places_dft (cfg : Cfg) (N : Nat) (k : List ℂ) (h : k.length ≤ N) (i : Nat) (hi : i < k.length) :
    (ifft2 (listBackend torchFft) cfg
      (runPlan (c01Ops (listBackend torchFft) cfg (padTo 0 N) id) padKspacePlan k))[i + (N - k.length) / 2]? =
      (ifft2 (listBackend torchFft) cfg k)[i]? :=
  kspace_pad_places_1d torchFft torchFft_inv_fwd torchFft_fwd_inv torchFft_length cfg id 0 N k h i hi

example : ([1, 2, 3] : List ℂ).length ≤ 6 := by simp

end DirectVerif.C10
