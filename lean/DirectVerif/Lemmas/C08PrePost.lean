import DirectVerif.Lemmas.C08Enum
import DirectVerif.Lemmas.C08Consist
import DirectVerif.Model.PipelinePrePost
/-!
# C08 helper lemmas — `build_pre_mri_transforms` ++ `build_post_mri_transforms`

* list normal forms (`buildPre_nf`, `buildPost_nf`) for the `rfl` bridge;
* `rel_buildPP`: the program of any configuration is the canonical one with neutral instructions deleted;
* kernel evaluation of the degree check on the canonical configurations (`enumPP_all`);
* symbolic execution of the post-transform core (`post_core_exec`): the target is the *normalised
  reconstruction of the un-normalised k-space*.
-/
set_option linter.unusedSimpArgs false
namespace DirectVerif.Pipeline

theorem buildPre_nf (c : Config) : buildPre c = buildPreNF c := by
  simp only [buildPre, buildPreNF, List.append_assoc, List.cons_append, List.nil_append, List.append_nil]

theorem buildPost_nf (c : Config) : buildPost c = buildPostNF c := by
  simp only [buildPost, buildPostNF, List.append_assoc, List.cons_append, List.nil_append, List.append_nil]

/-! ## transport of the static check along `RelP`, from any initial environment -/

theorem degreesOkFrom_of_rel (e0 : TEnv) (ssl : Bool) (l l' : List Stage) (hr : RelP (program l) (program l'))
    (h : degreesOkFrom e0 ssl l' = true) : degreesOkFrom e0 ssl l = true := by
  unfold degreesOkFrom at h ⊢
  cases hq : typeProgram (program l') e0 with
  | error er => simp [hq] at h
  | ok r =>
    simp only [hq] at h
    rw [hr e0 r hq]
    exact h

theorem degreesOk_eq_from (ssl : Bool) (l : List Stage) : degreesOk ssl l = degreesOkFrom initEnv ssl l := rfl

theorem rel_buildPP (c : Config) : RelP (program (buildPrePost c)) (program (buildPrePost (canon c))) := by
  obtain ⟨crop, center, rescale, pad, rot, flip, rev, pe, mf, cc, pc, bc, es, st, sg, da, dk, recon, sk, pct,
    us, ssl, split, ka⟩ := c
  simp only [buildPrePost, buildPre, buildPost, canon, program_append]
  apply RelP.append
  · iterate 9 apply RelP.append
    · exact RelP.refl _
    · -- CropKspace
      have : (CropArg.tuple != CropArg.none) = true := by decide
      rw [this]
      apply rel_opt
      · cases center <;> cases us <;> exact relB_sound _ _ (by decide)
      · exact relB_sound _ _ (by decide)
    · exact rel_opt _ _ _ (RelP.refl _) (relB_sound _ _ (by decide))
    · exact rel_opt _ _ _ (RelP.refl _) (relB_sound _ _ (by decide))
    · exact rel_opt _ _ _ (RelP.refl _) (relB_sound _ _ (by decide))
    · exact rel_opt _ _ _ (RelP.refl _) (relB_sound _ _ (by decide))
    · exact RelP.refl _
    · -- CreateSamplingMask
      apply rel_opt_same
      cases crop <;> cases us <;> exact relB_sound _ _ (by decide)
    · exact RelP.refl _
    · -- EstimateBodyCoilImage
      apply rel_opt_same
      cases us <;> exact relB_sound _ _ (by decide)
  · iterate 4 apply RelP.append
    · -- EstimateSensitivityMap
      apply rel_opt_same
      cases st <;> cases sg <;> exact relB_sound _ _ (by decide)
    · exact RelP.refl _
    · exact RelP.refl _
    · -- ComputeScalingFactor / Normalize
      cases pct
      · cases sk <;> first | exact relB_sound _ _ (by decide) | (rename_i k; cases k <;> exact relB_sound _ _ (by decide))
      · exact RelP.refl _
    · exact RelP.refl _

/-! ## enumeration of the degree-relevant flags -/

/-- configurations of the pre/post pair the property quantifies over (no SSL variant exists for it) -/
def Config.validPP (c : Config) : Bool :=
  c.maskFunc
  && (c.scalingKey == .key .maskedKspace || c.scalingKey == .key .kspace)
  && (!(c.recon == .sense || c.recon == .senseMod) || c.estimateSmaps)
  && (!c.estimateSmaps || c.smapType != .espirit)

def chkPP (c : Config) : Bool := !c.validPP || degreesOk false (buildPrePost c)

def enumOkPP (r : Recon) (sk : ScalingKey) : Bool :=
  allB fun pe => allB fun bc => allB fun es => allSMap fun st => allB fun da => allB fun dk =>
    chkPP (canonOf pe true bc es st da dk r sk false false)

theorem enumPP_ifft_mk : enumOkPP .ifft (.key .maskedKspace) = true := by decide +kernel
theorem enumPP_ifft_ks : enumOkPP .ifft (.key .kspace) = true := by decide +kernel
theorem enumPP_rss_mk : enumOkPP .rss (.key .maskedKspace) = true := by decide +kernel
theorem enumPP_rss_ks : enumOkPP .rss (.key .kspace) = true := by decide +kernel
theorem enumPP_complex_mk : enumOkPP .complex (.key .maskedKspace) = true := by decide +kernel
theorem enumPP_complex_ks : enumOkPP .complex (.key .kspace) = true := by decide +kernel
theorem enumPP_complexMod_mk : enumOkPP .complexMod (.key .maskedKspace) = true := by decide +kernel
theorem enumPP_complexMod_ks : enumOkPP .complexMod (.key .kspace) = true := by decide +kernel
theorem enumPP_sense_mk : enumOkPP .sense (.key .maskedKspace) = true := by decide +kernel
theorem enumPP_sense_ks : enumOkPP .sense (.key .kspace) = true := by decide +kernel
theorem enumPP_senseMod_mk : enumOkPP .senseMod (.key .maskedKspace) = true := by decide +kernel
theorem enumPP_senseMod_ks : enumOkPP .senseMod (.key .kspace) = true := by decide +kernel

theorem enumPP_all (r : Recon) (sk : ScalingKey) (hsk : sk = .key .maskedKspace ∨ sk = .key .kspace) :
    enumOkPP r sk = true := by
  rcases hsk with rfl | rfl <;> cases r
  · exact enumPP_ifft_mk
  · exact enumPP_rss_mk
  · exact enumPP_complex_mk
  · exact enumPP_complexMod_mk
  · exact enumPP_sense_mk
  · exact enumPP_senseMod_mk
  · exact enumPP_ifft_ks
  · exact enumPP_rss_ks
  · exact enumPP_complex_ks
  · exact enumPP_complexMod_ks
  · exact enumPP_sense_ks
  · exact enumPP_senseMod_ks

/-- the pre/post pair does not read the SSL flags -/
theorem buildPrePost_canon (c : Config) :
    buildPrePost (canon c) = buildPrePost (canonOf c.paddingEps c.maskFunc c.bodyCoil c.estimateSmaps c.smapType
      c.deleteAcsMask c.deleteKspace c.recon c.scalingKey false false) := rfl

theorem prepost_degrees_canon (c : Config) (hv : c.validPP = true) :
    degreesOk false (buildPrePost (canon c)) = true := by
  have hsk : c.scalingKey = .key .maskedKspace ∨ c.scalingKey = .key .kspace := by
    simp only [Config.validPP, Bool.and_eq_true, Bool.or_eq_true, beq_iff_eq] at hv
    exact hv.1.1.2
  have hmf : c.maskFunc = true := by
    simp only [Config.validPP, Bool.and_eq_true] at hv; exact hv.1.1.1
  have h := enumPP_all c.recon c.scalingKey hsk
  have h2 := allB_spec (allB_spec (allSMap_spec (allB_spec (allB_spec (allB_spec h c.paddingEps)
    c.bodyCoil) c.estimateSmaps) c.smapType) c.deleteAcsMask) c.deleteKspace
  simp only [chkPP] at h2
  rw [buildPrePost_canon, hmf]
  have hv' : (canonOf c.paddingEps true c.bodyCoil c.estimateSmaps c.smapType c.deleteAcsMask c.deleteKspace
      c.recon c.scalingKey false false).validPP = true := by
    simpa [Config.validPP, canonOf, hmf] using hv
  simp only [hv', Bool.not_true, Bool.false_or] at h2
  exact h2

/-! ## symbolic execution of the post-transform core -/

variable {K : Type} (S : Ops K) (X : Ext K) (m : Meta)

/-- `ComputeImage → ApplyMask → ComputeScalingFactor → Normalize(default keys)` on a store holding the fully
sampled k-space `k` and the sampling mask `mk`: the target is `safeDiv(sf, ComputeImage(k))` -/
theorem post_core_exec (r : Recon) (nk : Key) (pct : Bool) (s s' : Store K) (k mk : Val K)
    (hk : s .kspace = some k) (hm : s .samplingMask = some mk)
    (hnk : nk = .kspace ∨ nk = .maskedKspace)
    (h : exec S X m (program [.computeImage .kspace .target r, .applyMask .samplingMask .kspace .maskedKspace,
                              .computeScalingFactor (.key nk) pct .scalingFactor,
                              .normalize .scalingFactor defaultNormKeys]) s = .ok s') :
    ∃ sf, s' .scalingFactor = some sf
      ∧ s' .kspace = some (evalOp S X m .safeDiv [sf, k])
      ∧ s' .maskedKspace = some (evalOp S X m .safeDiv [sf, evalOp S X m .applyMask [mk, k]])
      ∧ s' .target = some (evalOp S X m .safeDiv [sf, reconVal S X m r k ((s .sensitivityMap).getD Val.empty)])
      ∧ s' .samplingMask = some mk ∧ s' .sensitivityMap = s .sensitivityMap := by
  have hsplit : program [Stage.computeImage .kspace .target r, .applyMask .samplingMask .kspace .maskedKspace,
        .computeScalingFactor (.key nk) pct .scalingFactor, .normalize .scalingFactor defaultNormKeys]
      = compile (.computeImage .kspace .target r)
        ++ program [.applyMask .samplingMask .kspace .maskedKspace,
                    .computeScalingFactor (.key nk) pct .scalingFactor, .normalize .scalingFactor defaultNormKeys] := by
    simp [program]
  rw [hsplit, exec_append] at h
  cases h1 : exec S X m (compile (.computeImage .kspace .target r)) s with
  | error e => simp [h1] at h
  | ok s1 =>
    simp only [h1] at h
    obtain ⟨b1, b2⟩ := computeImage_exec S X m r s s1 k hk h1
    have hk1 : s1 .kspace = some k := by rw [b2 _ (by decide) (by decide), hk]
    have hm1 : s1 .samplingMask = some mk := by rw [b2 _ (by decide) (by decide), hm]
    have hsm1 : s1 .sensitivityMap = s .sensitivityMap := b2 _ (by decide) (by decide)
    cases hb : s1 .bodyCoilImage with
    | none =>
      rcases hnk with rfl | rfl <;> cases pct <;>
      · simp [program, compile, exec, execInstr, getAll, hk1, hm1, b1, hb, Store.set, defaultNormKeys] at h
        subst h
        refine ⟨_, by simp [Store.set_apply]; rfl, by simp [Store.set_apply], by simp [Store.set_apply],
          by simp [Store.set_apply], by simp [Store.set_apply, hm1], by simp [Store.set_apply, hsm1]⟩
    | some b =>
      rcases hnk with rfl | rfl <;> cases pct <;>
      · simp [program, compile, exec, execInstr, getAll, hk1, hm1, b1, hb, Store.set, defaultNormKeys] at h
        subst h
        refine ⟨_, by simp [Store.set_apply]; rfl, by simp [Store.set_apply], by simp [Store.set_apply],
          by simp [Store.set_apply], by simp [Store.set_apply, hm1], by simp [Store.set_apply, hsm1]⟩

/-! ## the builder pair, split at the core -/

def ppPrefix (c : Config) : List Stage :=
  buildPre c ++ (opt c.estimateSmaps [.estimateSensitivityMap .kspace c.smapType c.smapGaussian]
    ++ opt c.deleteAcsMask [.deleteKeys [.acsMask]])

def ppCore (c : Config) : List Stage :=
  [.computeImage .kspace .target c.recon, .applyMask .samplingMask .kspace .maskedKspace,
   .computeScalingFactor c.scalingKey c.percentile .scalingFactor, .normalize .scalingFactor defaultNormKeys]

theorem buildPrePost_split (c : Config) :
    buildPrePost c = ppPrefix c ++ (ppCore c ++ opt c.deleteKspace [.deleteKeys [.kspace]]) := by
  simp [buildPrePost, buildPost, ppPrefix, ppCore, List.append_assoc]

/-- **pre ++ post, every valid configuration**: the outputs in terms of the fully sampled pre-processed k-space
`kfull` (what reached `ComputeImage` / `ApplyMask`), the sampling mask and the reported scaling factor.  The
target is the reconstruction of the *un-normalised* k-space, divided by the scaling factor afterwards. -/
theorem prepost_final (c : Config) (hv : c.validPP = true) (x : Val K) (out : Store K)
    (h : run S X m (buildPrePost c) x = .ok out) :
    ∃ kfull mask sf, out .samplingMask = some mask ∧ out .scalingFactor = some sf
      ∧ out .maskedKspace = some (evalOp S X m .safeDiv [sf, evalOp S X m .applyMask [mask, kfull]])
      ∧ out .target = some (evalOp S X m .safeDiv [sf, reconVal S X m c.recon kfull ((out .sensitivityMap).getD Val.empty)])
      ∧ (out .kspace = some (evalOp S X m .safeDiv [sf, kfull]) ∨ (c.deleteKspace = true ∧ out .kspace = none)) := by
  have hsk : ∃ nk, c.scalingKey = .key nk ∧ (nk = .kspace ∨ nk = .maskedKspace) := by
    simp only [Config.validPP, Bool.and_eq_true, Bool.or_eq_true, beq_iff_eq] at hv
    rcases hv.1.1.2 with h | h
    · exact ⟨_, h, Or.inr rfl⟩
    · exact ⟨_, h, Or.inl rfl⟩
  obtain ⟨nk, hnk, hnk'⟩ := hsk
  unfold run at h
  rw [buildPrePost_split, program_append, exec_append] at h
  cases h0 : exec S X m (program (ppPrefix c)) (fun k => if k = .kspace then some x else none) with
  | error e => simp [h0] at h
  | ok s0 =>
    simp only [h0] at h
    rw [program_append, exec_append] at h
    cases h1 : exec S X m (program (ppCore c)) s0 with
    | error e => simp [h1] at h
    | ok s1 =>
      simp only [h1] at h
      cases hk : s0 .kspace with
      | none => cases hr : c.recon <;> simp [ppCore, program, compile, exec, execInstr, getAll, hk, hr] at h1
      | some kfull =>
        cases hm : s0 .samplingMask with
        | none =>
          exfalso
          have hsplit : program (ppCore c) = compile (.computeImage .kspace .target c.recon)
              ++ program [.applyMask .samplingMask .kspace .maskedKspace,
                          .computeScalingFactor c.scalingKey c.percentile .scalingFactor,
                          .normalize .scalingFactor defaultNormKeys] := by simp [ppCore, program]
          rw [hsplit, exec_append] at h1
          cases h2 : exec S X m (compile (.computeImage .kspace .target c.recon)) s0 with
          | error e => simp [h2] at h1
          | ok s2 =>
            simp only [h2] at h1
            obtain ⟨_, b2⟩ := computeImage_exec S X m c.recon s0 s2 kfull hk h2
            have hm2 : s2 .samplingMask = none := by rw [b2 _ (by decide) (by decide), hm]
            have hk2 : s2 .kspace = some kfull := by rw [b2 _ (by decide) (by decide), hk]
            simp [program, compile, exec, execInstr, hk2, hm2] at h1
        | some mask =>
          simp only [ppCore, hnk] at h1
          obtain ⟨sf, a1, a2, a3, a4, a5, a6⟩ := post_core_exec S X m c.recon nk c.percentile s0 s1 kfull mask hk hm hnk' h1
          cases hdk : c.deleteKspace
          · simp [hdk, opt, program, exec] at h
            subst h
            exact ⟨kfull, mask, sf, a5, a1, a3, by rw [a4, a6], Or.inl a2⟩
          · simp [hdk, opt, program, compile, exec, execInstr] at h
            subst h
            refine ⟨kfull, mask, sf, ?_, ?_, ?_, ?_, Or.inr ⟨rfl, by simp [Store.set_apply]⟩⟩
            · simpa [Store.set_apply] using a5
            · simpa [Store.set_apply] using a1
            · simpa [Store.set_apply] using a3
            · simp only [Store.set_apply]
              simp only [show (Key.target = Key.kspace) = False by simp, show (Key.sensitivityMap = Key.kspace) = False by simp, if_false]
              rw [a4, a6]

end DirectVerif.Pipeline
