import DirectVerif.Model.C07Random
import DirectVerif.Lemmas.C07
import DirectVerif.Lemmas.C07Equi
import Mathlib.Tactic.Linarith
import Mathlib.Tactic.Ring
import Mathlib.Tactic.FieldSimp
/-!
# C07 — random line masks: count decomposition, per-frame statements, and the expectation of the realised count
under the finite-uniform draw model of `Model/C07Random.lean`

Property-level statements live in namespace `DirectVerif.C07`; listed in `EXTRA_LEAN_MODULES` of the check.
-/
set_option linter.unusedSimpArgs false
set_option linter.unusedVariables false
set_option linter.unnecessarySeqFocus false
namespace DirectVerif.MaskBudget

theorem countTrue_map_range' (f : Nat → Bool) (n : Nat) :
    countTrue ((List.range n).map f) = (List.range n).countP f := by
  unfold countTrue
  rw [List.countP_map]
  apply List.countP_congr
  intro i _
  simp

/-- the ACS block has `L` columns -/
theorem countP_inAcs (N L : Int) (hL0 : 0 ≤ L) (hLN : L ≤ N) :
    (List.range N.toNat).countP (fun (i : Nat) => inAcs N L (i : Int)) = L.toNat := by
  unfold inAcs
  have hp : 0 ≤ acsPad N L := by unfold acsPad; omega
  have := countP_interval (acsPad N L) (acsPad N L + L) N.toNat (by omega) hp
  rw [this]
  unfold acsPad
  omega

theorem countP_eq_sum {α} (p : α → Bool) (l : List α) :
    l.countP p = (l.map fun x => if p x then 1 else 0).sum := by
  induction l with
  | nil => simp
  | cons x l ih =>
    simp only [List.countP_cons, List.map_cons, List.sum_cons, ih]
    split_ifs <;> omega

theorem sum_map_flatMap {α β} (l : List α) (f : α → List β) (g : β → Nat) :
    ((l.flatMap f).map g).sum = (l.map fun a => ((f a).map g).sum).sum := by
  induction l with
  | nil => simp
  | cons a l ih => simp [List.flatMap_cons, List.map_append, List.sum_append, ih]

theorem sum_map_add' {α} (l : List α) (f g : α → Nat) :
    (l.map fun x => f x + g x).sum = (l.map f).sum + (l.map g).sum := by
  induction l with
  | nil => simp
  | cons a l ih => simp only [List.map_cons, List.sum_cons, ih]; omega

theorem sum_map_const' {α} (l : List α) (c : Nat) : (l.map fun _ => c).sum = l.length * c := by
  induction l with
  | nil => simp
  | cons a l ih => simp only [List.map_cons, List.sum_cons, ih, List.length_cons]; ring

theorem sum_map_mul_left' {α} (l : List α) (c : Nat) (f : α → Nat) : (l.map fun x => c * f x).sum = c * (l.map f).sum := by
  induction l with
  | nil => simp
  | cons a l ih => simp only [List.map_cons, List.sum_cons, ih]; ring

theorem sum_ite_zero_const {α} (l : List α) (q : α → Bool) (c : Nat) :
    (l.map fun x => if q x then 0 else c).sum = (l.countP fun x => !q x) * c := by
  induction l with
  | nil => simp
  | cons a l ih =>
    simp only [List.map_cons, List.sum_cons, List.countP_cons, ih]
    cases q a <;> simp <;> ring

theorem countP_add_countP_not {α} (l : List α) (q : α → Bool) :
    l.countP q + (l.countP fun x => !q x) = l.length := by
  induction l with
  | nil => simp
  | cons a l ih =>
    simp only [List.countP_cons, List.length_cons]
    cases q a <;> simp <;> omega

theorem length_allDraws (k n : Nat) : (allDraws k n).length = k ^ n := by
  induction n with
  | zero => simp [allDraws]
  | succ n ih =>
    simp only [allDraws, List.length_flatMap, List.length_map, ih]
    rw [sum_map_const', List.length_range]
    ring

theorem mem_allDraws_length (k : Nat) : ∀ (n : Nat) (v : List Nat), v ∈ allDraws k n → v.length = n := by
  intro n
  induction n with
  | zero => intro v hv; simp [allDraws] at hv; simp [hv]
  | succ n ih =>
    intro v hv
    simp only [allDraws, List.mem_flatMap, List.mem_map, List.mem_range] at hv
    obtain ⟨j, _, w, hw, rfl⟩ := hv
    simp [ih w hw]

/-- **linearity over all draw vectors**: summing a column-wise score `Σ_i P i v_i` over all `k^n` vectors counts every
column's score `Σ_j P i j` exactly `k^(n−1)` times -/
theorem sum_allDraws (k : Nat) : ∀ (n : Nat) (P : Nat → Nat → Nat),
    k * ((allDraws k n).map fun v => ((List.range n).map fun i => P i (v.getD i 0)).sum).sum =
      k ^ n * ((List.range n).map fun i => ((List.range k).map fun j => P i j).sum).sum := by
  intro n
  induction n with
  | zero => intro P; simp [allDraws]
  | succ n ih =>
    intro P
    have hsplit : ∀ (g : Nat → Nat), ((List.range (n + 1)).map g).sum = g 0 + ((List.range n).map fun i => g (i + 1)).sum := by
      intro g
      rw [List.range_succ_eq_map, List.map_cons, List.sum_cons, List.map_map]
      rfl
    rw [hsplit]
    simp only [allDraws]
    rw [sum_map_flatMap]
    have inner : ∀ j, (((allDraws k n).map (j :: ·)).map fun v => ((List.range (n + 1)).map fun i => P i (v.getD i 0)).sum).sum =
        k ^ n * P 0 j + ((allDraws k n).map fun v => ((List.range n).map fun i => P (i + 1) (v.getD i 0)).sum).sum := by
      intro j
      rw [List.map_map]
      have : ((fun v => ((List.range (n + 1)).map fun i => P i (v.getD i 0)).sum) ∘ (j :: ·)) =
          fun v => P 0 j + ((List.range n).map fun i => P (i + 1) (v.getD i 0)).sum := by
        funext v
        simp only [Function.comp]
        rw [hsplit]
        simp
      rw [this, sum_map_add', sum_map_const', length_allDraws]
    simp only [inner]
    rw [sum_map_add', sum_map_mul_left', sum_map_const', List.length_range, Nat.mul_add]
    have := ih (fun i j => P (i + 1) j)
    rw [Nat.mul_left_comm k k, this]
    ring

/-- the grid count brackets `p·k` (it is `⌈p·k⌉`) for a probability `p` -/
theorem gridBelow_bounds (k : Nat) (hk : 0 < k) (p : ℚ) (h0 : 0 ≤ p) (h1 : p ≤ 1) :
    p * k ≤ (gridBelow k p : ℚ) ∧ (gridBelow k p : ℚ) < p * k + 1 ∧ gridBelow k p ≤ k := by
  have hkq : (0 : ℚ) < (k : ℚ) := by exact_mod_cast hk
  have hmono : ∀ i j : ℕ, i ≤ j → decide (((j : ℕ) : ℚ) / (k : ℚ) < p) = true → decide (((i : ℕ) : ℚ) / (k : ℚ) < p) = true := by
    intro i j hij hj
    simp only [decide_eq_true_eq] at hj ⊢
    have : ((i : ℕ) : ℚ) / k ≤ ((j : ℕ) : ℚ) / k := by
      apply div_le_div_of_nonneg_right _ hkq.le
      exact_mod_cast hij
    linarith
  obtain ⟨a, b, c⟩ := countP_prefix (fun (j : ℕ) => decide (((j : ℕ) : ℚ) / (k : ℚ) < p)) hmono k
  unfold gridBelow
  set g := (List.range k).countP (fun (j : ℕ) => decide (((j : ℕ) : ℚ) / (k : ℚ) < p)) with hg
  refine ⟨?_, ?_, c⟩
  · by_cases hlt : g < k
    · have := b hlt
      simp only [decide_eq_false_iff_not, not_lt] at this
      rw [le_div_iff₀ hkq] at this
      exact this
    · have : g = k := by omega
      rw [this]
      nlinarith
  · by_cases h0' : g = 0
    · rw [h0']; push_cast; nlinarith
    · have := a (g - 1) (by omega)
      simp only [decide_eq_true_eq] at this
      rw [div_lt_iff₀ hkq] at this
      have e : ((g - 1 : ℕ) : ℚ) = (g : ℚ) - 1 := by
        rw [Nat.cast_sub (by omega)]; simp
      rw [e] at this
      linarith

end DirectVerif.MaskBudget
