import DirectVerif.Model.SslHistory
/-!
Helper lemmas for the call-history part of C11: a memoising `forward` (`memoStep` / `runHist`).
-/
namespace DirectVerif.C11
open DirectVerif DirectVerif.SslSplit

/-- a `lookup` hit returns the value of an entry whose key equals the one looked up -/
theorem lookup_some_mem {κ ο : Type} [BEq κ] [LawfulBEq κ] (k : κ) (v : ο) :
    ∀ (c : List (κ × ο)), c.lookup k = some v → (k, v) ∈ c := by
  intro c
  induction c with
  | nil => intro h; cases h
  | cons e c ih =>
    intro h
    obtain ⟨k', v'⟩ := e
    rw [List.lookup_cons] at h
    by_cases hk : (k == k') = true
    · rw [hk] at h
      have e1 : k = k' := eq_of_beq hk
      have e2 : v' = v := by injection h
      rw [e1, e2]; exact List.mem_cons_self
    · have hk' : (k == k') = false := by simpa using hk
      rw [hk'] at h
      exact List.mem_cons_of_mem _ (ih h)

/-- every entry of the cache is the result of `f` on some sample with that key -/
def CacheOk {ι κ ο : Type} (kf : ι → κ) (f : ι → ο) (c : List (κ × ο)) : Prop :=
  ∀ e ∈ c, ∃ x, kf x = e.1 ∧ e.2 = f x

theorem memoStep_ok {ι κ ο : Type} [BEq κ] [LawfulBEq κ] (kf : ι → κ) (cap : Nat) (f : ι → ο)
    (hk : ∀ x y, kf x = kf y → f x = f y) (c : List (κ × ο)) (hc : CacheOk kf f c) (x : ι) :
    (memoStep (some kf) cap f c x).2 = f x ∧ CacheOk kf f (memoStep (some kf) cap f c x).1 := by
  unfold memoStep
  simp only
  cases hl : c.lookup (kf x) with
  | some v =>
    simp only
    have hm := lookup_some_mem (kf x) v c hl
    obtain ⟨x', h1, h2⟩ := hc _ hm
    simp only at h1 h2
    have hv : v = f x := by rw [h2]; exact hk _ _ h1
    refine ⟨hv, ?_⟩
    intro e he
    rw [List.mem_append] at he
    rcases he with he | he
    · exact hc e (List.mem_filter.mp he).1
    · rw [List.mem_singleton] at he
      exact ⟨x, by rw [he], by rw [he]; exact hv⟩
  | none =>
    simp only
    refine ⟨trivial, ?_⟩
    have hall : CacheOk kf f (c ++ [(kf x, f x)]) := by
      intro e he
      rw [List.mem_append] at he
      rcases he with he | he
      · exact hc e he
      · rw [List.mem_singleton] at he
        exact ⟨x, by rw [he], by rw [he]⟩
    split
    · intro e he
      exact hall e (List.mem_of_mem_drop he)
    · exact hall

theorem runHist_complete {ι κ ο : Type} [BEq κ] [LawfulBEq κ] (kf : ι → κ) (cap : Nat) (f : ι → ο)
    (hk : ∀ x y, kf x = kf y → f x = f y) :
    ∀ (xs : List ι) (c : List (κ × ο)), CacheOk kf f c → runHist (some kf) cap f c xs = xs.map f := by
  intro xs
  induction xs with
  | nil => intro c _; rfl
  | cons x xs ih =>
    intro c hc
    obtain ⟨h1, h2⟩ := memoStep_ok kf cap f hk c hc x
    rw [runHist, h1, ih _ h2, List.map_cons]

theorem runHist_none_eq {ι κ ο : Type} [BEq κ] (cap : Nat) (f : ι → ο) :
    ∀ (xs : List ι) (c : List (κ × ο)), runHist none cap f c xs = xs.map f := by
  intro xs
  induction xs with
  | nil => intro c; rfl
  | cons x xs ih =>
    intro c
    rw [runHist, List.map_cons, ih]
    rfl

/-- equal selected parts are what equal keys mean -/
theorem keyOf_eq_iff (parts : List KeyPart) (x y : SampleIn) :
    keyOf parts x = keyOf parts y ↔ ∀ p ∈ parts, partOf x p = partOf y p := by
  unfold keyOf
  induction parts with
  | nil => simp
  | cons p ps ih =>
    simp only [List.map_cons, List.cons.injEq, List.mem_cons, forall_eq_or_imp, ih]

theorem bits_inj : ∀ (a b : Grid), a.map (fun b => if b then (1 : Nat) else 0) = b.map (fun b => if b then 1 else 0) → a = b := by
  intro a
  induction a with
  | nil => intro b h; cases b with
    | nil => rfl
    | cons _ _ => cases h
  | cons x xs ih =>
    intro b h
    cases b with
    | nil => cases h
    | cons y ys =>
      simp only [List.map_cons, List.cons.injEq] at h
      have hx : x = y := by
        cases x <;> cases y <;> simp at h ⊢
      rw [hx, ih ys h.2]

end DirectVerif.C11
