import DirectVerif.Lemmas.C17Nets
/-!
C17: minimum sizes — characterisations and "fails below the minimum (never a wrong size)" for the 3-D U-Nets, the
Norm-U-Nets, DUB / DIDN and the instance-normalised Conv2dGRU.
-/
namespace DirectVerif.C17L
open DirectVerif.Shapes

theorem padPow2_ge (L n : Nat) : 2 ^ L ≤ padPow2 L n := by
  simp only [padPow2]; split <;> omega

theorem pos_map_padPow2 (L : Nat) (s : Shape) : Pos (s.map (padPow2 L)) := by
  intro n hn
  obtain ⟨m, _, rfl⟩ := List.mem_map.mp hn
  have := padPow2_ge L m
  have : 0 < 2 ^ L := Nat.two_pow_pos L
  omega

theorem pos_map_mult16 {s : Shape} (hs : Pos s) : Pos (s.map mult16) := by
  intro n hn
  obtain ⟨m, hm, rfl⟩ := List.mem_map.mp hn
  have := le_mult16 m
  have := hs m hm
  omega

theorem unet3d_fails (L : Nat) (s : Shape) (stk tr) (h : ¬ UAdm L (s.map (padPow2 L))) :
    ∃ e, run (unet3d UnetP.std L) ⟨s, stk, tr⟩ = .error e := by
  obtain ⟨e, he⟩ := unet_fails L (s.map (padPow2 L)) (s :: stk) tr (pos_map_padPow2 L s) h
  refine ⟨e, ?_⟩
  simp only [unet3d, List.cons_append, List.nil_append]
  rw [run_cons_ok (step_padPow2 _ _ _ _), run_append_err he]

theorem normUnet_fails (L : Nat) (s : Shape) (stk tr) (hs : Pos s) (h : ¬ UAdm L (s.map mult16)) :
    ∃ e, run (normUnet UnetP.std L) ⟨s, stk, tr⟩ = .error e := by
  obtain ⟨e, he⟩ := unet_fails L (s.map mult16) (s :: stk) tr (pos_map_mult16 hs) h
  refine ⟨e, ?_⟩
  simp only [normUnet, List.cons_append, List.nil_append]
  rw [run_cons_ok (step_pad16 _ _ _), run_append_err he]

theorem normUnet3d_fails (L : Nat) (s : Shape) (stk tr) (h : ¬ UAdm L ((s.map mult16).map (padPow2 L))) :
    ∃ e, run (normUnet3d UnetP.std L) ⟨s, stk, tr⟩ = .error e := by
  obtain ⟨e, he⟩ := unet3d_fails L (s.map mult16) (s :: stk) tr h
  refine ⟨e, ?_⟩
  simp only [normUnet3d, List.cons_append, List.nil_append]
  rw [run_cons_ok (step_pad16 _ _ _), run_append_err he]

/-- a product of positive numbers exceeds one iff some factor does -/
theorem numel_gt_one_iff {s : Shape} (hs : Pos s) : 1 < numel s ↔ ∃ n ∈ s, 2 ≤ n := by
  induction s with
  | nil => simp [numel]
  | cons a s ih =>
    have ha := hs a (by simp)
    have hs' : Pos s := fun n hn => hs n (by simp [hn])
    have hp := numel_pos hs'
    simp only [numel, List.mem_cons, exists_eq_or_imp]
    constructor
    · intro h
      by_cases h2 : 2 ≤ a
      · exact Or.inl h2
      · have : a = 1 := by omega
        subst this
        rw [Nat.one_mul] at h
        exact Or.inr ((ih hs').mp h)
    · rintro (h | h)
      · calc 1 < 2 * 1 := by decide
          _ ≤ a * numel s := Nat.mul_le_mul h hp
      · have := (ih hs').mpr h
        calc 1 < 1 * numel s := by omega
          _ ≤ a * numel s := Nat.mul_le_mul ha (Nat.le_refl _)

/-- **3-D U-Net, minimum size**: after padding every axis to at least `2^L`, the network is admissible exactly when some
axis reaches `2^(L+1)` (otherwise the bottleneck is a single voxel and `InstanceNorm3d` raises) -/
theorem unet3d_adm_iff (L : Nat) (s : Shape) : UAdm L (s.map (padPow2 L)) ↔ ∃ n ∈ s, 2 ^ (L + 1) ≤ n := by
  rw [UAdm_iff]
  have hpos : 0 < 2 ^ L := Nat.two_pow_pos L
  have e2 : 2 ^ (L + 1) = 2 * 2 ^ L := by rw [Nat.pow_succ]; omega
  have hge : ∀ n ∈ s.map (padPow2 L), 2 ^ L ≤ n := by
    intro n hn
    obtain ⟨m, _, rfl⟩ := List.mem_map.mp hn
    exact padPow2_ge L m
  have hq : Pos ((s.map (padPow2 L)).map (· / 2 ^ L)) := by
    intro n hn
    obtain ⟨m, hm, rfl⟩ := List.mem_map.mp hn
    exact (Nat.le_div_iff_mul_le hpos).mpr (by simpa using hge m hm)
  rw [numel_gt_one_iff hq]
  constructor
  · rintro ⟨_, k, hk, h2⟩
    obtain ⟨p, hp, rfl⟩ := List.mem_map.mp hk
    obtain ⟨n, hn, rfl⟩ := List.mem_map.mp hp
    refine ⟨n, hn, ?_⟩
    have := (Nat.le_div_iff_mul_le hpos).mp h2
    simp only [padPow2] at this
    split at this <;> omega
  · rintro ⟨n, hn, h2⟩
    refine ⟨hge, padPow2 L n / 2 ^ L, List.mem_map.mpr ⟨padPow2 L n, List.mem_map.mpr ⟨n, hn, rfl⟩, rfl⟩, ?_⟩
    refine (Nat.le_div_iff_mul_le hpos).mpr ?_
    simp only [padPow2]
    split <;> omega

/-! ## DUB / DIDN below the minimum -/

theorem padEven_one_fails {s : Shape} (stk tr) (h : ∃ n ∈ s, n = 1) : step .padEven ⟨s, stk, tr⟩ = .error .runtime := by
  apply axes_err
  obtain ⟨n, hn, rfl⟩ := h
  exact ⟨1, hn, by decide⟩

theorem dubWith_fails (em : List Op) (s : Shape) (stk tr) (h : ∃ n ∈ s, n = 1) :
    ∃ e, run (dubWith DidnP.std em) ⟨s, stk, tr⟩ = .error e := by
  refine ⟨.runtime, ?_⟩
  have e1 : run [.push, .padEven, .conv DidnP.std.ck 1 DidnP.std.cp 1, .conv DidnP.std.ck 1 DidnP.std.cp 1] ⟨s, stk, tr⟩ =
      .error .runtime := by
    rw [run_cons_ok (step_push _ _ _), run_cons_err (padEven_one_fails _ _ h)]
  unfold dubWith
  simp only [List.append_assoc]
  exact run_append_err e1

theorem dub_fails (e : Bool) (s : Shape) (stk tr) (hs : Pos s) (h : ∃ n ∈ s, n < 2) :
    ∃ err, run (dub DidnP.std e) ⟨s, stk, tr⟩ = .error err := by
  obtain ⟨n, hn, h2⟩ := h
  have : n = 1 := by have := hs n hn; omega
  exact dubWith_fails _ s stk tr ⟨n, hn, this⟩

theorem didn_fails (ndubs nconv : Nat) (skip : Bool) (s : Shape) (stk tr) (hs : Pos s) (hd : 1 ≤ ndubs) (h : ∃ n ∈ s, n < 3) :
    ∃ err, run (didn DidnP.std ndubs nconv skip) ⟨s, stk, tr⟩ = .error err := by
  obtain ⟨m, rfl⟩ : ∃ m, ndubs = m + 1 := ⟨ndubs - 1, by omega⟩
  have c1 := step_conv_same (k := 3) (p := 1) (d := 1) (by decide) (by decide) (s :: stk) tr hs
  have hs2 : s = s.map id := by simp
  have c2 : step (.conv 3 2 1 1) ⟨s, s :: stk, tr ++ [s]⟩ = .ok ⟨s.map (fun n => (n - 1) / 2 + 1), s :: stk, tr ++ [s]⟩ := by
    have := stepm_conv (k := 3) (st := 2) (p := 1) (d := 1) (g := id) (s := s) (s :: stk) (tr ++ [s])
      (by intro n hn; have := hs n hn; simp [convOk]; omega)
    rw [← hs2] at this
    rw [this]
    have e : s.map (fun n => convOut 3 2 1 1 (id n)) = s.map (fun n => (n - 1) / 2 + 1) := by
      apply List.map_congr_left
      intro n hn
      have := hs n hn
      simp only [convOut, id]; omega
    rw [e]
  obtain ⟨n, hn, h3⟩ := h
  have hone : ∃ k ∈ s.map (fun n => (n - 1) / 2 + 1), k = 1 :=
    ⟨(n - 1) / 2 + 1, List.mem_map.mpr ⟨n, hn, rfl⟩, by have := hs n hn; omega⟩
  obtain ⟨e, he⟩ := dubWith_fails [] (s.map (fun n => (n - 1) / 2 + 1)) (s :: stk) (tr ++ [s] ++ [s.map (fun n => (n - 1) / 2 + 1)]) hone
  refine ⟨e, ?_⟩
  simp only [didn, DidnP.std, dubs, dub, List.append_assoc, List.cons_append, List.nil_append, Bool.false_eq_true, if_false]
  rw [run_cons_ok (step_push _ _ _), run_cons_ok c1, run_cons_ok (step_emit _ _ _), run_cons_ok c2, run_cons_ok (step_emit _ _ _)]
  exact run_append_err he

/-! ## Conv2dGRU with instance normalisation on a single pixel -/

theorem gruLayers_instnorm_fails (repl : Bool) (m : Nat) (s : Shape) (stk tr) (hs : Pos s) (h1 : ¬ 1 < numel s) :
    run (gruLayers repl true (m + 1)) ⟨s, stk, tr⟩ = .error .value := by
  induction m with
  | zero =>
    simp only [gruLayers, List.nil_append, List.append_assoc]
    rw [run_append_ok (gruBlock_ok repl 0 s _ _ hs), List.cons_append, List.nil_append, run_cons_ok (step_emit _ _ _)]
    simp only [gruGate, if_true, List.cons_append, List.nil_append]
    rw [run_cons_err]
    simp [step, h1]
  | succ m ih =>
    rw [gruLayers]
    simp only [List.append_assoc]
    exact run_append_err ih

/-! ## MWCNN below the minimum: a successful run admits every axis -/

theorem run_append_inv {p q : List Op} {st st' : State} (h : run (p ++ q) st = .ok st') :
    ∃ s1, run p st = .ok s1 ∧ run q s1 = .ok st' := by
  rw [run_append] at h
  cases hp : run p st with
  | ok s1 => rw [hp] at h; exact ⟨s1, rfl, h⟩
  | error e => rw [hp] at h; cases h

/-- if a `padEven` step is part of a successful run, every axis admitted it -/
theorem padEven_inv {g : Nat → Nat} {s : Shape} {stk tr} {ops : List Op} {st' : State}
    (h : run (.padEven :: ops) ⟨s.map g, stk, tr⟩ = .ok st') : ∀ n ∈ s, padEvenOk (g n) = true := by
  simp only [run, step, axes] at h
  split at h
  · rename_i hs
    split at hs
    · rename_i hall
      intro n hn
      exact List.all_eq_true.mp hall (g n) (List.mem_map.mpr ⟨n, hn, rfl⟩)
    · cases hs
  · cases h

theorem mwBelow_conv (r : Nat) : ∀ (s : Shape) (f : Nat → Nat) (stk tr) (st' : State),
    (∀ n ∈ s, f n % 2 = 0 ∧ 2 ≤ f n) → run (mwBelow MwP.std r) ⟨s.map f, s.map f :: stk, tr⟩ = .ok st' →
    ∀ n ∈ s, belowOk r (f n) = true := by
  induction r with
  | zero =>
    intro s f stk tr st' H _ n hn
    have := H n hn
    simp [belowOk, this.1, this.2]
  | succ r ih =>
    intro s f stk tr st' H hrun n hn
    rw [mwBelow_split] at hrun
    -- the first six operations succeed for even axes ≥ 2
    have pre : ∃ tr1, run [.dwt, .emit, .conv 3 1 1 1, .conv 3 1 2 2, .conv 3 1 1 1, .emit] ⟨s.map f, s.map f :: stk, tr⟩ =
        .ok ⟨s.map (fun n => dwtOut (f n)), s.map f :: stk, tr1⟩ := by
      simp (disch := first | decide | (intro n hn; have := H n hn; simp [dwtOk_of_even this.1, dwtOut_of_even this.1] at this ⊢ <;> omega))
        only [run, stepm_conv_same, stepm_dwt, step_emit]
      exact ⟨_, rfl⟩
    obtain ⟨tr1, h1⟩ := pre
    have hsplit : ([.dwt, .emit, .conv 3 1 1 1, .conv 3 1 2 2, .conv 3 1 1 1, .emit, .padEven, .push] : List Op) ++
        (mwBelow MwP.std r ++ [.conv 3 1 2 2, .conv 3 1 1 1, .conv 3 1 1 1, .emit, .scale 2, .emit, .popCropSame]) =
        [.dwt, .emit, .conv 3 1 1 1, .conv 3 1 2 2, .conv 3 1 1 1, .emit] ++ (.padEven :: .push ::
          (mwBelow MwP.std r ++ [.conv 3 1 2 2, .conv 3 1 1 1, .conv 3 1 1 1, .emit, .scale 2, .emit, .popCropSame])) := rfl
    rw [hsplit, run_append_ok h1] at hrun
    have hpad := padEven_inv hrun
    rw [run_cons_ok (stepm_padEven _ _ hpad), run_cons_ok (step_push _ _ _)] at hrun
    obtain ⟨s2, h2, _⟩ := run_append_inv hrun
    have hev : ∀ m ∈ s, f m % 2 = 0 ∧ 2 ≤ f m := H
    have inner := ih s (fun n => padEvenOut (dwtOut (f n))) (s.map f :: stk) tr1 s2
      (by intro m hm; have := H m hm; rw [dwtOut_of_even this.1]; simp only [padEvenOut]; omega) h2 n hn
    have hn' := H n hn
    have hp := (padEvenOk_iff _).mp (hpad n hn)
    rw [dwtOut_of_even hn'.1] at inner hp
    simp only [belowOk, Bool.and_eq_true, Bool.or_eq_true, beq_iff_eq, decide_eq_true_eq]
    exact ⟨⟨⟨hn'.1, hn'.2⟩, hp⟩, inner⟩

theorem mwcnn_conv (S : Nat) (s : Shape) (stk tr) (st' : State) (hs : Pos s)
    (hrun : run (mwcnn MwP.std S) ⟨s, stk, tr⟩ = .ok st') : ∀ n ∈ s, mwAxisOk S n = true := by
  match S with
  | 0 => intro n _; rfl
  | 1 =>
    have e : mwcnn MwP.std 1 = .push :: .padEven :: [.conv 3 1 1 1, .conv 3 1 2 2, .conv 3 1 3 3, .emit, .padEven,
      .conv 3 1 3 3, .conv 3 1 2 2, .conv 3 1 1 1, .emit, .popCrop] := by decide
    rw [e, run_cons_ok (step_push _ _ _)] at hrun
    have hs' : s = s.map id := by simp
    rw [hs'] at hrun
    have hpad := padEven_inv hrun
    intro n hn
    have := (padEvenOk_iff _).mp (hpad n hn)
    have := hs n hn
    simp only [mwAxisOk, Bool.and_eq_true, Bool.or_eq_true, beq_iff_eq, decide_eq_true_eq, id] at *
    omega
  | S + 2 =>
    rw [mwcnn_split] at hrun
    have hs' : s = s.map id := by simp
    have hsplit : ([.push, .padEven, .conv 3 1 1 1, .conv 3 1 2 2, .conv 3 1 1 1, .emit, .padEven, .push] : List Op) ++
        (mwBelow MwP.std S ++ [.conv 3 1 2 2, .conv 3 1 1 1, .conv 3 1 1 1, .emit, .popCrop]) =
        .push :: .padEven :: ([.conv 3 1 1 1, .conv 3 1 2 2, .conv 3 1 1 1, .emit, .padEven, .push] ++
          (mwBelow MwP.std S ++ [.conv 3 1 2 2, .conv 3 1 1 1, .conv 3 1 1 1, .emit, .popCrop])) := rfl
    rw [hsplit, run_cons_ok (step_push _ _ _)] at hrun
    conv at hrun => lhs; arg 2; rw [hs']
    have hpad := padEven_inv hrun
    have H' : ∀ n ∈ s, 1 ≤ n ∧ (n % 2 = 0 ∨ 2 ≤ n) := fun n hn => ⟨hs n hn, (padEvenOk_iff _).mp (hpad n hn)⟩
    rw [run_cons_ok (stepm_padEven _ _ hpad)] at hrun
    have mid : ∃ tr1, run [.conv 3 1 1 1, .conv 3 1 2 2, .conv 3 1 1 1, .emit, .padEven, .push]
        ⟨s.map (fun n => padEvenOut (id n)), s.map id :: stk, tr⟩ = .ok ⟨s.map padEvenOut, s.map padEvenOut :: s.map id :: stk, tr1⟩ := by
      simp (disch := first | decide | (intro n hn; have := H' n hn; simp [padEvenOk_iff, padEvenOut] at this ⊢ <;> omega))
        only [run, stepm_conv_same, stepm_padEven, step_emit, step_push]
      have e : s.map (fun n => padEvenOut (padEvenOut (id n))) = s.map padEvenOut :=
        List.map_congr_left fun n _ => padEvenOut_idem n
      rw [e]
      exact ⟨_, rfl⟩
    obtain ⟨tr1, h1⟩ := mid
    rw [run_append_ok h1] at hrun
    obtain ⟨s2, h2, _⟩ := run_append_inv hrun
    have inner := mwBelow_conv S s padEvenOut (s.map id :: stk) tr1 s2
      (by intro m hm; have := H' m hm; simp only [padEvenOut]; omega) h2
    intro n hn
    have a := H' n hn
    have b := inner n hn
    simp only [mwAxisOk, Bool.and_eq_true, Bool.or_eq_true, beq_iff_eq, decide_eq_true_eq]
    exact ⟨⟨a.1, a.2⟩, b⟩

theorem mwcnn_fails (S : Nat) (s : Shape) (stk tr) (hs : Pos s) (h : ∃ n ∈ s, mwAxisOk S n = false) :
    ∃ e, run (mwcnn MwP.std S) ⟨s, stk, tr⟩ = .error e := by
  cases hr : run (mwcnn MwP.std S) ⟨s, stk, tr⟩ with
  | error e => exact ⟨e, rfl⟩
  | ok st' =>
    obtain ⟨n, hn, hf⟩ := h
    have := mwcnn_conv S s stk tr st' hs hr n hn
    rw [this] at hf
    cases hf

end DirectVerif.C17L
