import DirectVerif.Lemmas.C17Nets
/-!
C17: minimum sizes — characterisations and "fails below the minimum (never a wrong size)" for the 3-D U-Nets, the
Norm-U-Nets, DUB / DIDN and the instance-normalised Conv2dGRU.
-/
namespace DirectVerif.C17L
open DirectVerif.Shapes

theorem padPow2_ge (L n : Nat) : 2 ^ L ≤ padPow2 L n := by
  simp only [padPow2]; split <;> omega

theorem pos_map_padPow2 (L : Nat) (s : Shape) : Pos (s.map (padPow2 L)) := by
  intro n hn
  obtain ⟨m, _, rfl⟩ := List.mem_map.mp hn
  have := padPow2_ge L m
  have : 0 < 2 ^ L := Nat.two_pow_pos L
  omega

theorem pos_map_mult16 {s : Shape} (hs : Pos s) : Pos (s.map mult16) := by
  intro n hn
  obtain ⟨m, hm, rfl⟩ := List.mem_map.mp hn
  have := le_mult16 m
  have := hs m hm
  omega

theorem unet3d_fails (L : Nat) (s : Shape) (stk tr) (h : ¬ UAdm L (s.map (padPow2 L))) :
    ∃ e, run (unet3d UnetP.std L) ⟨s, stk, tr⟩ = .error e := by
  obtain ⟨e, he⟩ := unet_fails L (s.map (padPow2 L)) (s :: stk) tr (pos_map_padPow2 L s) h
  refine ⟨e, ?_⟩
  simp only [unet3d, List.cons_append, List.nil_append]
  rw [run_cons_ok (step_padPow2 _ _ _ _), run_append_err he]

theorem normUnet_fails (L : Nat) (s : Shape) (stk tr) (hs : Pos s) (h : ¬ UAdm L (s.map mult16)) :
    ∃ e, run (normUnet UnetP.std L) ⟨s, stk, tr⟩ = .error e := by
  obtain ⟨e, he⟩ := unet_fails L (s.map mult16) (s :: stk) tr (pos_map_mult16 hs) h
  refine ⟨e, ?_⟩
  simp only [normUnet, List.cons_append, List.nil_append]
  rw [run_cons_ok (step_pad16 _ _ _), run_append_err he]

theorem normUnet3d_fails (L : Nat) (s : Shape) (stk tr) (h : ¬ UAdm L ((s.map mult16).map (padPow2 L))) :
    ∃ e, run (normUnet3d UnetP.std L) ⟨s, stk, tr⟩ = .error e := by
  obtain ⟨e, he⟩ := unet3d_fails L (s.map mult16) (s :: stk) tr h
  refine ⟨e, ?_⟩
  simp only [normUnet3d, List.cons_append, List.nil_append]
  rw [run_cons_ok (step_pad16 _ _ _), run_append_err he]

/-- a product of positive numbers exceeds one iff some factor does -/
theorem numel_gt_one_iff {s : Shape} (hs : Pos s) : 1 < numel s ↔ ∃ n ∈ s, 2 ≤ n := by
  induction s with
  | nil => simp [numel]
  | cons a s ih =>
    have ha := hs a (by simp)
    have hs' : Pos s := fun n hn => hs n (by simp [hn])
    have hp := numel_pos hs'
    simp only [numel, List.mem_cons, exists_eq_or_imp]
    constructor
    · intro h
      by_cases h2 : 2 ≤ a
      · exact Or.inl h2
      · have : a = 1 := by omega
        subst this
        rw [Nat.one_mul] at h
        exact Or.inr ((ih hs').mp h)
    · rintro (h | h)
      · calc 1 < 2 * 1 := by decide
          _ ≤ a * numel s := Nat.mul_le_mul h hp
      · have := (ih hs').mpr h
        calc 1 < 1 * numel s := by omega
          _ ≤ a * numel s := Nat.mul_le_mul ha (Nat.le_refl _)

/-- **3-D U-Net, minimum size**: after padding every axis to at least `2^L`, the network is admissible exactly when some
axis reaches `2^(L+1)` (otherwise the bottleneck is a single voxel and `InstanceNorm3d` raises) -/
theorem unet3d_adm_iff (L : Nat) (s : Shape) : UAdm L (s.map (padPow2 L)) ↔ ∃ n ∈ s, 2 ^ (L + 1) ≤ n := by
  rw [UAdm_iff]
  have hpos : 0 < 2 ^ L := Nat.two_pow_pos L
  have e2 : 2 ^ (L + 1) = 2 * 2 ^ L := by rw [Nat.pow_succ]; omega
  have hge : ∀ n ∈ s.map (padPow2 L), 2 ^ L ≤ n := by
    intro n hn
    obtain ⟨m, _, rfl⟩ := List.mem_map.mp hn
    exact padPow2_ge L m
  have hq : Pos ((s.map (padPow2 L)).map (· / 2 ^ L)) := by
    intro n hn
    obtain ⟨m, hm, rfl⟩ := List.mem_map.mp hn
    exact (Nat.le_div_iff_mul_le hpos).mpr (by simpa using hge m hm)
  rw [numel_gt_one_iff hq]
  constructor
  · rintro ⟨_, k, hk, h2⟩
    obtain ⟨p, hp, rfl⟩ := List.mem_map.mp hk
    obtain ⟨n, hn, rfl⟩ := List.mem_map.mp hp
    refine ⟨n, hn, ?_⟩
    have := (Nat.le_div_iff_mul_le hpos).mp h2
    simp only [padPow2] at this
    split at this <;> omega
  · rintro ⟨n, hn, h2⟩
    refine ⟨hge, padPow2 L n / 2 ^ L, List.mem_map.mpr ⟨padPow2 L n, List.mem_map.mpr ⟨n, hn, rfl⟩, rfl⟩, ?_⟩
    refine (Nat.le_div_iff_mul_le hpos).mpr ?_
    simp only [padPow2]
    split <;> omega

/-! ## DUB / DIDN below the minimum -/

theorem padEven_one_fails {s : Shape} (stk tr) (h : ∃ n ∈ s, n = 1) : step .padEven ⟨s, stk, tr⟩ = .error .runtime := by
  apply axes_err
  obtain ⟨n, hn, rfl⟩ := h
  exact ⟨1, hn, by decide⟩

theorem dubWith_fails (em : List Op) (s : Shape) (stk tr) (h : ∃ n ∈ s, n = 1) :
    ∃ e, run (dubWith DidnP.std em) ⟨s, stk, tr⟩ = .error e := by
  refine ⟨.runtime, ?_⟩
  have e1 : run [.push, .padEven, .conv DidnP.std.ck 1 DidnP.std.cp 1, .conv DidnP.std.ck 1 DidnP.std.cp 1] ⟨s, stk, tr⟩ =
      .error .runtime := by
    rw [run_cons_ok (step_push _ _ _), run_cons_err (padEven_one_fails _ _ h)]
  unfold dubWith
  simp only [List.append_assoc]
  exact run_append_err e1

theorem dub_fails (e : Bool) (s : Shape) (stk tr) (hs : Pos s) (h : ∃ n ∈ s, n < 2) :
    ∃ err, run (dub DidnP.std e) ⟨s, stk, tr⟩ = .error err := by
  obtain ⟨n, hn, h2⟩ := h
  have : n = 1 := by have := hs n hn; omega
  exact dubWith_fails _ s stk tr ⟨n, hn, this⟩

theorem didn_fails (ndubs nconv : Nat) (skip : Bool) (s : Shape) (stk tr) (hs : Pos s) (hd : 1 ≤ ndubs) (h : ∃ n ∈ s, n < 3) :
    ∃ err, run (didn DidnP.std ndubs nconv skip) ⟨s, stk, tr⟩ = .error err := by
  obtain ⟨m, rfl⟩ : ∃ m, ndubs = m + 1 := ⟨ndubs - 1, by omega⟩
  have c1 := step_conv_same (k := 3) (p := 1) (d := 1) (by decide) (by decide) (s :: stk) tr hs
  have hs2 : s = s.map id := by simp
  have c2 : step (.conv 3 2 1 1) ⟨s, s :: stk, tr ++ [s]⟩ = .ok ⟨s.map (fun n => (n - 1) / 2 + 1), s :: stk, tr ++ [s]⟩ := by
    have := stepm_conv (k := 3) (st := 2) (p := 1) (d := 1) (g := id) (s := s) (s :: stk) (tr ++ [s])
      (by intro n hn; have := hs n hn; simp [convOk]; omega)
    rw [← hs2] at this
    rw [this]
    have e : s.map (fun n => convOut 3 2 1 1 (id n)) = s.map (fun n => (n - 1) / 2 + 1) := by
      apply List.map_congr_left
      intro n hn
      have := hs n hn
      simp only [convOut, id]; omega
    rw [e]
  obtain ⟨n, hn, h3⟩ := h
  have hone : ∃ k ∈ s.map (fun n => (n - 1) / 2 + 1), k = 1 :=
    ⟨(n - 1) / 2 + 1, List.mem_map.mpr ⟨n, hn, rfl⟩, by have := hs n hn; omega⟩
  obtain ⟨e, he⟩ := dubWith_fails [] (s.map (fun n => (n - 1) / 2 + 1)) (s :: stk) (tr ++ [s] ++ [s.map (fun n => (n - 1) / 2 + 1)]) hone
  refine ⟨e, ?_⟩
  simp only [didn, DidnP.std, dubs, dub, List.append_assoc, List.cons_append, List.nil_append, Bool.false_eq_true, if_false]
  rw [run_cons_ok (step_push _ _ _), run_cons_ok c1, run_cons_ok (step_emit _ _ _), run_cons_ok c2, run_cons_ok (step_emit _ _ _)]
  exact run_append_err he

/-! ## Conv2dGRU with instance normalisation on a single pixel -/

theorem gruLayers_instnorm_fails (repl : Bool) (m : Nat) (s : Shape) (stk tr) (hs : Pos s) (h1 : ¬ 1 < numel s) :
    run (gruLayers repl true (m + 1)) ⟨s, stk, tr⟩ = .error .value := by
  induction m with
  | zero =>
    simp only [gruLayers, List.nil_append, List.append_assoc]
    rw [run_append_ok (gruBlock_ok repl 0 s _ _ hs), List.cons_append, List.nil_append, run_cons_ok (step_emit _ _ _)]
    simp only [gruGate, if_true, List.cons_append, List.nil_append]
    rw [run_cons_err]
    simp [step, h1]
  | succ m ih =>
    rw [gruLayers]
    simp only [List.append_assoc]
    exact run_append_err ih

end DirectVerif.C17L
