import DirectVerif.Lemmas.C08Enum
import DirectVerif.Lemmas.C08PrePost
/-!
# C08 helper lemmas — samples that already contain tensor entries

Kernel evaluation of the degree check of `build` from the static environment of a sample that already holds
(A) `sampling_mask` + `acs_mask` (prospectively under-sampled data, no mask function) or (B) a `sensitivity_map`
from the dataset (mask function given).  Same scheme as `Lemmas/C08Enum.lean`: one small `decide +kernel` per
(scenario, reconstruction type, scaling key, supervised/SSL) over the 192 combinations of the remaining
degree-relevant flags; the other flags are removed by `rel_build`.
(Generated once by a script; kept as plain text.)
-/
namespace DirectVerif.Pipeline

def chkG (gm ga gs : Bool) (c : Config) : Bool :=
  !c.validG gm ga gs || degreesOkFrom (givenEnv gm ga gs) c.ssl (build c)

def enumOkG (gm ga gs mf : Bool) (r : Recon) (sk : ScalingKey) (ssl : Bool) : Bool :=
  allB fun pe => allB fun bc => allB fun es => allSMap fun st => allB fun da => allB fun dk => allB fun ka =>
    chkG gm ga gs (canonOf pe mf bc es st da dk r sk ssl ka)

theorem enumGA_ifft_mk_false : enumOkG true true false false .ifft (.key .maskedKspace) false = true := by decide +kernel
theorem enumGA_ifft_mk_true : enumOkG true true false false .ifft (.key .maskedKspace) true = true := by decide +kernel
theorem enumGA_ifft_ks_false : enumOkG true true false false .ifft (.key .kspace) false = true := by decide +kernel
theorem enumGA_ifft_ks_true : enumOkG true true false false .ifft (.key .kspace) true = true := by decide +kernel
theorem enumGA_rss_mk_false : enumOkG true true false false .rss (.key .maskedKspace) false = true := by decide +kernel
theorem enumGA_rss_mk_true : enumOkG true true false false .rss (.key .maskedKspace) true = true := by decide +kernel
theorem enumGA_rss_ks_false : enumOkG true true false false .rss (.key .kspace) false = true := by decide +kernel
theorem enumGA_rss_ks_true : enumOkG true true false false .rss (.key .kspace) true = true := by decide +kernel
theorem enumGA_complex_mk_false : enumOkG true true false false .complex (.key .maskedKspace) false = true := by decide +kernel
theorem enumGA_complex_mk_true : enumOkG true true false false .complex (.key .maskedKspace) true = true := by decide +kernel
theorem enumGA_complex_ks_false : enumOkG true true false false .complex (.key .kspace) false = true := by decide +kernel
theorem enumGA_complex_ks_true : enumOkG true true false false .complex (.key .kspace) true = true := by decide +kernel
theorem enumGA_complexMod_mk_false : enumOkG true true false false .complexMod (.key .maskedKspace) false = true := by decide +kernel
theorem enumGA_complexMod_mk_true : enumOkG true true false false .complexMod (.key .maskedKspace) true = true := by decide +kernel
theorem enumGA_complexMod_ks_false : enumOkG true true false false .complexMod (.key .kspace) false = true := by decide +kernel
theorem enumGA_complexMod_ks_true : enumOkG true true false false .complexMod (.key .kspace) true = true := by decide +kernel
theorem enumGA_sense_mk_false : enumOkG true true false false .sense (.key .maskedKspace) false = true := by decide +kernel
theorem enumGA_sense_mk_true : enumOkG true true false false .sense (.key .maskedKspace) true = true := by decide +kernel
theorem enumGA_sense_ks_false : enumOkG true true false false .sense (.key .kspace) false = true := by decide +kernel
theorem enumGA_sense_ks_true : enumOkG true true false false .sense (.key .kspace) true = true := by decide +kernel
theorem enumGA_senseMod_mk_false : enumOkG true true false false .senseMod (.key .maskedKspace) false = true := by decide +kernel
theorem enumGA_senseMod_mk_true : enumOkG true true false false .senseMod (.key .maskedKspace) true = true := by decide +kernel
theorem enumGA_senseMod_ks_false : enumOkG true true false false .senseMod (.key .kspace) false = true := by decide +kernel
theorem enumGA_senseMod_ks_true : enumOkG true true false false .senseMod (.key .kspace) true = true := by decide +kernel

theorem enumGA_all (r : Recon) (sk : ScalingKey) (ssl : Bool)
    (hsk : sk = .key .maskedKspace ∨ sk = .key .kspace) : enumOkG true true false false r sk ssl = true := by
  rcases hsk with rfl | rfl <;> cases r <;> cases ssl
  · exact enumGA_ifft_mk_false
  · exact enumGA_ifft_mk_true
  · exact enumGA_rss_mk_false
  · exact enumGA_rss_mk_true
  · exact enumGA_complex_mk_false
  · exact enumGA_complex_mk_true
  · exact enumGA_complexMod_mk_false
  · exact enumGA_complexMod_mk_true
  · exact enumGA_sense_mk_false
  · exact enumGA_sense_mk_true
  · exact enumGA_senseMod_mk_false
  · exact enumGA_senseMod_mk_true
  · exact enumGA_ifft_ks_false
  · exact enumGA_ifft_ks_true
  · exact enumGA_rss_ks_false
  · exact enumGA_rss_ks_true
  · exact enumGA_complex_ks_false
  · exact enumGA_complex_ks_true
  · exact enumGA_complexMod_ks_false
  · exact enumGA_complexMod_ks_true
  · exact enumGA_sense_ks_false
  · exact enumGA_sense_ks_true
  · exact enumGA_senseMod_ks_false
  · exact enumGA_senseMod_ks_true

theorem enumGB_ifft_mk_false : enumOkG false false true true .ifft (.key .maskedKspace) false = true := by decide +kernel
theorem enumGB_ifft_mk_true : enumOkG false false true true .ifft (.key .maskedKspace) true = true := by decide +kernel
theorem enumGB_ifft_ks_false : enumOkG false false true true .ifft (.key .kspace) false = true := by decide +kernel
theorem enumGB_ifft_ks_true : enumOkG false false true true .ifft (.key .kspace) true = true := by decide +kernel
theorem enumGB_rss_mk_false : enumOkG false false true true .rss (.key .maskedKspace) false = true := by decide +kernel
theorem enumGB_rss_mk_true : enumOkG false false true true .rss (.key .maskedKspace) true = true := by decide +kernel
theorem enumGB_rss_ks_false : enumOkG false false true true .rss (.key .kspace) false = true := by decide +kernel
theorem enumGB_rss_ks_true : enumOkG false false true true .rss (.key .kspace) true = true := by decide +kernel
theorem enumGB_complex_mk_false : enumOkG false false true true .complex (.key .maskedKspace) false = true := by decide +kernel
theorem enumGB_complex_mk_true : enumOkG false false true true .complex (.key .maskedKspace) true = true := by decide +kernel
theorem enumGB_complex_ks_false : enumOkG false false true true .complex (.key .kspace) false = true := by decide +kernel
theorem enumGB_complex_ks_true : enumOkG false false true true .complex (.key .kspace) true = true := by decide +kernel
theorem enumGB_complexMod_mk_false : enumOkG false false true true .complexMod (.key .maskedKspace) false = true := by decide +kernel
theorem enumGB_complexMod_mk_true : enumOkG false false true true .complexMod (.key .maskedKspace) true = true := by decide +kernel
theorem enumGB_complexMod_ks_false : enumOkG false false true true .complexMod (.key .kspace) false = true := by decide +kernel
theorem enumGB_complexMod_ks_true : enumOkG false false true true .complexMod (.key .kspace) true = true := by decide +kernel
theorem enumGB_sense_mk_false : enumOkG false false true true .sense (.key .maskedKspace) false = true := by decide +kernel
theorem enumGB_sense_mk_true : enumOkG false false true true .sense (.key .maskedKspace) true = true := by decide +kernel
theorem enumGB_sense_ks_false : enumOkG false false true true .sense (.key .kspace) false = true := by decide +kernel
theorem enumGB_sense_ks_true : enumOkG false false true true .sense (.key .kspace) true = true := by decide +kernel
theorem enumGB_senseMod_mk_false : enumOkG false false true true .senseMod (.key .maskedKspace) false = true := by decide +kernel
theorem enumGB_senseMod_mk_true : enumOkG false false true true .senseMod (.key .maskedKspace) true = true := by decide +kernel
theorem enumGB_senseMod_ks_false : enumOkG false false true true .senseMod (.key .kspace) false = true := by decide +kernel
theorem enumGB_senseMod_ks_true : enumOkG false false true true .senseMod (.key .kspace) true = true := by decide +kernel

theorem enumGB_all (r : Recon) (sk : ScalingKey) (ssl : Bool)
    (hsk : sk = .key .maskedKspace ∨ sk = .key .kspace) : enumOkG false false true true r sk ssl = true := by
  rcases hsk with rfl | rfl <;> cases r <;> cases ssl
  · exact enumGB_ifft_mk_false
  · exact enumGB_ifft_mk_true
  · exact enumGB_rss_mk_false
  · exact enumGB_rss_mk_true
  · exact enumGB_complex_mk_false
  · exact enumGB_complex_mk_true
  · exact enumGB_complexMod_mk_false
  · exact enumGB_complexMod_mk_true
  · exact enumGB_sense_mk_false
  · exact enumGB_sense_mk_true
  · exact enumGB_senseMod_mk_false
  · exact enumGB_senseMod_mk_true
  · exact enumGB_ifft_ks_false
  · exact enumGB_ifft_ks_true
  · exact enumGB_rss_ks_false
  · exact enumGB_rss_ks_true
  · exact enumGB_complex_ks_false
  · exact enumGB_complex_ks_true
  · exact enumGB_complexMod_ks_false
  · exact enumGB_complexMod_ks_true
  · exact enumGB_sense_ks_false
  · exact enumGB_sense_ks_true
  · exact enumGB_senseMod_ks_false
  · exact enumGB_senseMod_ks_true

/-- a successful check of the canonical configuration carries over, from any initial environment -/
theorem degreesOkFrom_of_canon (e0 : TEnv) (c : Config) (h : degreesOkFrom e0 c.ssl (build (canon c)) = true) :
    degreesOkFrom e0 c.ssl (build c) = true :=
  degreesOkFrom_of_rel e0 c.ssl _ _ (rel_build c) h

theorem canon_eq' (c : Config) :
    canon c = canonOf c.paddingEps c.maskFunc c.bodyCoil c.estimateSmaps c.smapType c.deleteAcsMask c.deleteKspace
      c.recon c.scalingKey c.ssl c.splitKeepAcs := rfl

/-- **scenario A**: the sample brings `sampling_mask` and `acs_mask`, no mask function is configured -/
theorem givenA_degrees_ok (c : Config) (hmf : c.maskFunc = false) (hv : c.validG true true false = true) :
    degreesOkFrom (givenEnv true true false) c.ssl (build c) = true := by
  apply degreesOkFrom_of_canon
  have hsk : c.scalingKey = .key .maskedKspace ∨ c.scalingKey = .key .kspace := by
    simp only [Config.validG, Bool.and_eq_true, Bool.or_eq_true, beq_iff_eq] at hv
    exact hv.1.1.1.1.1.2
  have h := enumGA_all c.recon c.scalingKey c.ssl hsk
  have h2 := allB_spec (allB_spec (allB_spec (allSMap_spec (allB_spec (allB_spec (allB_spec h c.paddingEps)
    c.bodyCoil) c.estimateSmaps) c.smapType) c.deleteAcsMask) c.deleteKspace) c.splitKeepAcs
  simp only [chkG] at h2
  rw [canon_eq', hmf]
  have hv' : (canonOf c.paddingEps false c.bodyCoil c.estimateSmaps c.smapType c.deleteAcsMask c.deleteKspace
      c.recon c.scalingKey c.ssl c.splitKeepAcs).validG true true false = true := by
    simpa [Config.validG, canonOf, hmf] using hv
  simp only [hv', Bool.not_true, Bool.false_or] at h2
  exact h2

/-- **scenario B**: the sample brings a `sensitivity_map`; a mask function is configured -/
theorem givenB_degrees_ok (c : Config) (hmf : c.maskFunc = true) (hv : c.validG false false true = true) :
    degreesOkFrom (givenEnv false false true) c.ssl (build c) = true := by
  apply degreesOkFrom_of_canon
  have hsk : c.scalingKey = .key .maskedKspace ∨ c.scalingKey = .key .kspace := by
    simp only [Config.validG, Bool.and_eq_true, Bool.or_eq_true, beq_iff_eq] at hv
    exact hv.1.1.1.1.1.2
  have h := enumGB_all c.recon c.scalingKey c.ssl hsk
  have h2 := allB_spec (allB_spec (allB_spec (allSMap_spec (allB_spec (allB_spec (allB_spec h c.paddingEps)
    c.bodyCoil) c.estimateSmaps) c.smapType) c.deleteAcsMask) c.deleteKspace) c.splitKeepAcs
  simp only [chkG] at h2
  rw [canon_eq', hmf]
  have hv' : (canonOf c.paddingEps true c.bodyCoil c.estimateSmaps c.smapType c.deleteAcsMask c.deleteKspace
      c.recon c.scalingKey c.ssl c.splitKeepAcs).validG false false true = true := by
    simpa [Config.validG, canonOf, hmf] using hv
  simp only [hv', Bool.not_true, Bool.false_or] at h2
  exact h2

end DirectVerif.Pipeline
