import DirectVerif.Model.Pipeline
import Mathlib.Algebra.Order.Field.Power
import Mathlib.Tactic.FieldSimp
import Mathlib.Tactic.Ring
/-!
# C08 helper lemmas — homogeneity of the primitive operations over an ordered field

`fieldOps sqrt` instantiates the scalar-operation record of `Model/Pipeline.lean` with the operations
of a linearly ordered field `K` and a square-root function about which only
`sqrt (q·q·x) = q·sqrt x` for `q > 0` is assumed (`SqrtHom`).
-/
set_option linter.unusedSectionVars false
namespace DirectVerif.Pipeline
variable {K : Type} [Field K] [LinearOrder K] [IsStrictOrderedRing K]

/-- the model's scalar operations, read in an ordered field -/
def fieldOps (sqrt : K → K) : Ops K where
  zero := 0
  one := 1
  add := (· + ·)
  mul := (· * ·)
  div := (· / ·)
  neg := (- ·)
  lt := fun a b => decide (a < b)
  isZero := fun a => decide (a = 0)
  sqrt := sqrt
  ofNat := fun n => (n : K)

section proj
variable (sqrt : K → K) (a b : K) (n : Nat)
@[simp] theorem fo_zero : (fieldOps sqrt).zero = 0 := rfl
@[simp] theorem fo_one : (fieldOps sqrt).one = 1 := rfl
@[simp] theorem fo_add : (fieldOps sqrt).add a b = a + b := rfl
@[simp] theorem fo_mul : (fieldOps sqrt).mul a b = a * b := rfl
@[simp] theorem fo_div : (fieldOps sqrt).div a b = a / b := rfl
@[simp] theorem fo_neg : (fieldOps sqrt).neg a = -a := rfl
@[simp] theorem fo_lt : (fieldOps sqrt).lt a b = decide (a < b) := rfl
@[simp] theorem fo_isZero : (fieldOps sqrt).isZero a = decide (a = 0) := rfl
@[simp] theorem fo_sqrt : (fieldOps sqrt).sqrt a = sqrt a := rfl
@[simp] theorem fo_ofNat : (fieldOps sqrt).ofNat n = (n : K) := rfl
end proj

/-- the only property of the square root the theorems use -/
def SqrtHom (sqrt : K → K) : Prop := ∀ q : K, 0 < q → ∀ x, sqrt (q * q * x) = q * sqrt x

/-- multiply every entry by `q` (sizes kept) -/
def scaleV (q : K) (v : Val K) : Val K := v.map (q * ·)

@[simp] theorem scaleV_one (v : Val K) : scaleV 1 v = v := by
  cases v; simp [scaleV, Val.map]

@[simp] theorem scaleV_nc (q : K) (v : Val K) : (scaleV q v).nc = v.nc := rfl
@[simp] theorem scaleV_ns (q : K) (v : Val K) : (scaleV q v).ns = v.ns := rfl
@[simp] theorem scaleV_cplx (q : K) (v : Val K) : (scaleV q v).cplx = v.cplx := rfl
@[simp] theorem scaleV_stride (q : K) (v : Val K) : (scaleV q v).stride = v.stride := rfl
@[simp] theorem scaleV_data (q : K) (v : Val K) : (scaleV q v).data = v.data.map (q * ·) := rfl

section lists
variable (sqrt : K → K)
local notation "S" => fieldOps sqrt

theorem mapIdxAux_map (f : Nat → K → K) (g : K → K) (n : Nat) (xs : List K) :
    mapIdxAux f n (xs.map g) = mapIdxAux (fun i a => f i (g a)) n xs := by
  induction xs generalizing n with
  | nil => rfl
  | cons a t ih => simp [mapIdxAux, ih]

theorem map_mapIdxAux (f : Nat → K → K) (g : K → K) (n : Nat) (xs : List K) :
    (mapIdxAux f n xs).map g = mapIdxAux (fun i a => g (f i a)) n xs := by
  induction xs generalizing n with
  | nil => rfl
  | cons a t ih => simp [mapIdxAux, ih]

theorem mapIdxAux_congr {f g : Nat → K → K} (h : ∀ i a, f i a = g i a) (n : Nat) (xs : List K) :
    mapIdxAux f n xs = mapIdxAux g n xs := by
  induction xs generalizing n with
  | nil => rfl
  | cons a t ih => simp [mapIdxAux, ih, h]

theorem bget_scale (q : K) (ys : List K) (st i : Nat) :
    bget S (ys.map (q * ·)) st i = q * bget S ys st i := by
  unfold bget
  simp only [List.length_map]
  rw [List.getD_eq_getElem?_getD, List.getD_eq_getElem?_getD, List.getElem?_map]
  cases ys[(i / st) % ys.length]? <;> simp

theorem pairs_map (g : K → K) (xs : List K) :
    pairs (xs.map g) = (pairs xs).map fun (a, b) => (g a, g b) := by
  induction xs using pairs.induct with
  | case1 a b t ih => simp [pairs, ih]
  | case2 xs h =>
    match xs, h with
    | [], _ => simp [pairs]
    | [a], _ => simp [pairs]
    | a :: b :: t, h => exact absurd rfl (h a b t)

theorem sqAbs_scale (q : K) (xs : List K) :
    sqAbs S (xs.map (q * ·)) = (sqAbs S xs).map (q * q * ·) := by
  simp only [sqAbs, pairs_map, List.map_map]
  apply List.map_congr_left
  rintro ⟨a, b⟩ _
  simp; ring

theorem modulusL_scale (hs : SqrtHom sqrt) (q : K) (hq : 0 < q) (xs : List K) :
    modulusL S (xs.map (q * ·)) = (modulusL S xs).map (q * ·) := by
  simp only [modulusL, sqAbs_scale, List.map_map]
  apply List.map_congr_left
  intro a _
  simp [hs q hq]

theorem addLists_scale (q : K) (xs ys : List K) :
    addLists S (xs.map (q * ·)) (ys.map (q * ·)) = (addLists S xs ys).map (q * ·) := by
  induction xs generalizing ys with
  | nil => cases ys <;> simp [addLists]
  | cons a t ih =>
    cases ys with
    | nil => simp [addLists]
    | cons b u => simp [addLists, ih, mul_add]

theorem sumBlocksAux_scale (q : K) (len n : Nat) (xs : List K) :
    sumBlocksAux S len n (xs.map (q * ·)) = (sumBlocksAux S len n xs).map (q * ·) := by
  induction n generalizing xs with
  | zero => simp [sumBlocksAux]
  | succ n ih =>
    simp only [sumBlocksAux]
    rw [← List.map_take, ← List.map_drop, ih, addLists_scale]

theorem sumBlocks_scale (q : K) (n : Nat) (xs : List K) :
    sumBlocks S n (xs.map (q * ·)) = (sumBlocks S n xs).map (q * ·) := by
  simp [sumBlocks, sumBlocksAux_scale]

theorem sumList_scale (q : K) (xs : List K) :
    sumList S (xs.map (q * ·)) = q * sumList S xs := by
  induction xs with
  | nil => simp [sumList]
  | cons a t ih =>
    simp only [sumList, List.map_cons, List.foldr_cons] at ih ⊢
    rw [ih]; simp [mul_add]

theorem maxL_scale (q : K) (hq : 0 < q) (xs : List K) :
    maxL S (xs.map (q * ·)) = q * maxL S xs := by
  induction xs with
  | nil => simp [maxL]
  | cons a t ih =>
    cases t with
    | nil => simp [maxL]
    | cons b u =>
      simp only [List.map_cons, maxL] at ih ⊢
      rw [ih]
      simp only [fo_lt, mul_lt_mul_iff_right₀ hq, decide_eq_true_eq]
      split <;> rfl

theorem insertDesc_scale (q : K) (hq : 0 < q) (a : K) (xs : List K) :
    insertDesc S (q * a) (xs.map (q * ·)) = (insertDesc S a xs).map (q * ·) := by
  induction xs with
  | nil => simp [insertDesc]
  | cons b t ih =>
    simp only [List.map_cons, insertDesc, fo_lt, mul_lt_mul_iff_right₀ hq, decide_eq_true_eq] at ih ⊢
    split
    · simp
    · simp [ih]

theorem sortDesc_scale (q : K) (hq : 0 < q) (xs : List K) :
    sortDesc S (xs.map (q * ·)) = (sortDesc S xs).map (q * ·) := by
  induction xs with
  | nil => rfl
  | cons a t ih => simp only [List.map_cons, sortDesc, ih, insertDesc_scale sqrt q hq]

theorem all_isZero_scale (q : K) (hq : 0 < q) (c : List K) :
    (c.map (q * ·)).all (fieldOps sqrt).isZero = c.all (fieldOps sqrt).isZero := by
  induction c with
  | nil => rfl
  | cons a t ih => simp only [List.map_cons, List.all_cons, ih]; simp [hq.ne']

theorem nonzeroCoils_scale (q : K) (hq : 0 < q) (chunk n : Nat) (xs : List K) :
    nonzeroCoils S chunk n (xs.map (q * ·)) = (nonzeroCoils S chunk n xs).map (q * ·) := by
  induction n generalizing xs with
  | zero => rfl
  | succ n ih =>
    simp only [nonzeroCoils, ← List.map_take, ← List.map_drop, ih, List.map_append,
      all_isZero_scale sqrt q hq]
    split <;> simp

theorem conjMul_scale (p q : K) : ∀ (s x : List K),
    conjMul S (s.map (p * ·)) (x.map (q * ·)) = (conjMul S s x).map (p * q * ·)
  | sr :: si :: s, xr :: xi :: x => by
      simp only [List.map_cons, conjMul, conjMul_scale p q s x, fo_add, fo_mul, fo_neg, List.cons.injEq, and_true]
      constructor <;> ring
  | [], _ => by simp [conjMul]
  | [_], _ => by simp [conjMul]
  | _ :: _ :: _, [] => by simp [conjMul]
  | _ :: _ :: _, [_] => by simp [conjMul]

theorem evalTE_scale (eps : K) (q v m : K) (e : TE) (d : Nat) (h : e.deg = some d) :
    evalTE S eps (q * v) (q * m) e = q ^ d * evalTE S eps v m e := by
  induction e generalizing d with
  | x => simp [TE.deg] at h; subst h; simp [evalTE]
  | mean => simp [TE.deg] at h; subst h; simp [evalTE]
  | eps => simp [TE.deg] at h; subst h; simp [evalTE]
  | lit n => simp [TE.deg] at h; subst h; simp [evalTE]
  | mul a b iha ihb =>
    simp only [TE.deg] at h
    cases ha : a.deg with
    | none => simp [ha] at h
    | some p =>
      cases hb : b.deg with
      | none => simp [ha, hb] at h
      | some r =>
        simp [ha, hb] at h; subst h
        simp only [evalTE, iha p ha, ihb r hb, fo_mul]; ring
  | add a b iha ihb =>
    simp only [TE.deg] at h
    cases ha : a.deg with
    | none => simp [ha] at h
    | some p =>
      cases hb : b.deg with
      | none => simp [ha, hb] at h
      | some r =>
        simp [ha, hb] at h
        obtain ⟨h1, h2⟩ := h
        subst h1; subst h2
        simp only [evalTE, iha p ha, ihb p hb, fo_add]; ring

theorem evalThr_scale (eps : K) (q : K) (hq : 0 < q) (p : ThrPred) (hp : p.homogeneous = true) (v m : K) :
    evalThr S eps p (q * v) (q * m) = evalThr S eps p v m := by
  unfold ThrPred.homogeneous at hp
  cases hl : p.lhs.deg with
  | none => simp [hl] at hp
  | some a =>
    cases hr : p.rhs.deg with
    | none => simp [hl, hr] at hp
    | some b =>
      simp [hl, hr] at hp; subst hp
      have hqa : 0 < q ^ a := pow_pos hq a
      simp only [evalThr, evalTE_scale sqrt eps q v m _ a hl, evalTE_scale sqrt eps q v m _ a hr, fo_lt,
        mul_lt_mul_iff_right₀ hqa]

end lists
end DirectVerif.Pipeline
