import DirectVerif.Model.SslSplit
import Mathlib.Tactic.Linarith
import Mathlib.Tactic.Ring
import Mathlib.Tactic.FieldSimp
import Mathlib.Tactic.Positivity
import Mathlib.Algebra.Order.Field.Rat
import Mathlib.Algebra.Order.Field.Basic
/-!
# C11 helper lemmas — the float32 product `S · ρ` and its ceiling / floor
-/
namespace DirectVerif.C11
open DirectVerif DirectVerif.SslSplit

/-- a fraction `a / b` closer than `1 / q` to `X / q` has the same ceiling and floor when `X / q` is not an
integer, and is off by at most one (ceiling up, floor down) when it is -/
theorem ceil_floor_near (X q a b : Int) (hq : 0 < q) (hb : 0 < b) (h1 : a * q < X * b + b) (h2 : X * b - b < a * q) :
    (¬ q ∣ X → -((-a) / b) = -((-X) / q) ∧ a / b = X / q) ∧
    (q ∣ X → (-((-a) / b) = -((-X) / q) ∨ -((-a) / b) = -((-X) / q) + 1) ∧ (a / b = X / q ∨ a / b = X / q - 1)) := by
  have hX := Int.emod_add_mul_ediv X q
  have hr0 := Int.emod_nonneg X (Int.ne_of_gt hq)
  have hr1 := Int.emod_lt_of_pos X hq
  generalize hk : X / q = k at *
  generalize hr : X % q = r at *
  have hXe : X = r + q * k := by omega
  constructor
  · intro hnd
    have hrpos : 0 < r := by
      rcases Int.lt_or_eq_of_le hr0 with h | h
      · exact h
      · exfalso; apply hnd; rw [← hr] at h; exact Int.dvd_of_emod_eq_zero h.symm
    have hlo : k * b < a := by
      have : k * b * q < a * q := by nlinarith
      exact lt_of_mul_lt_mul_right this (le_of_lt hq)
    have hhi : a < (k + 1) * b := by
      have : a * q < (k + 1) * b * q := by nlinarith
      exact lt_of_mul_lt_mul_right this (le_of_lt hq)
    have e1 : a / b = k := by
      have := (Int.le_ediv_iff_mul_le hb).mpr (le_of_lt hlo)
      have := (Int.ediv_lt_iff_lt_mul hb).mpr hhi
      omega
    have e2 : (-a) / b = -(k + 1) := by
      have h3 : (-(k + 1)) * b ≤ -a := by nlinarith
      have h4 : -a < (-(k + 1) + 1) * b := by nlinarith
      have := (Int.le_ediv_iff_mul_le hb).mpr h3
      have := (Int.ediv_lt_iff_lt_mul hb).mpr h4
      omega
    have e3 : (-X) / q = -(k + 1) := by
      have h3 : (-(k + 1)) * q ≤ -X := by nlinarith
      have h4 : -X < (-(k + 1) + 1) * q := by nlinarith
      have := (Int.le_ediv_iff_mul_le hq).mpr h3
      have := (Int.ediv_lt_iff_lt_mul hq).mpr h4
      omega
    rw [e1, e2, e3]; exact ⟨rfl, rfl⟩
  · intro hd
    have hr0' : r = 0 := by rw [← hr]; exact Int.emod_eq_zero_of_dvd hd
    subst hr0'
    have hlo : (k - 1) * b < a := by
      have : (k - 1) * b * q < a * q := by nlinarith
      exact lt_of_mul_lt_mul_right this (le_of_lt hq)
    have hhi : a < (k + 1) * b := by
      have : a * q < (k + 1) * b * q := by nlinarith
      exact lt_of_mul_lt_mul_right this (le_of_lt hq)
    have e3 : (-X) / q = -k := by
      have : -X = (-k) * q := by rw [hXe]; ring
      rw [this, Int.mul_ediv_cancel _ (Int.ne_of_gt hq)]
    have f1 : k - 1 ≤ a / b := (Int.le_ediv_iff_mul_le hb).mpr (le_of_lt hlo)
    have f2 : a / b < k + 1 := (Int.ediv_lt_iff_lt_mul hb).mpr hhi
    have g1 : (-(k + 1)) ≤ (-a) / b := (Int.le_ediv_iff_mul_le hb).mpr (by nlinarith)
    have g2 : (-a) / b < -(k - 1) := (Int.ediv_lt_iff_lt_mul hb).mpr (by nlinarith)
    rw [e3]
    -- relate ceil and floor of a / b: a / b = k - 1 iff a not multiple … keep it elementary
    constructor
    · omega
    · omega

/-- value of a fraction pair -/
def qval (r : Nat × Nat) : ℚ := (r.1 : ℚ) / (r.2 : ℚ)

/-- nearest-even choice of the significand: within 1/2 of `N / D`, hence (as `N / D ≥ 2^23`) within relative 2^-24 -/
theorem round_core (N D : Nat) (hD : 0 < D) (hN : 2 ^ 23 * D ≤ N) :
    |(((if 2 * (N % D) > D ∨ (2 * (N % D) = D ∧ (N / D) % 2 = 1) then N / D + 1 else N / D : Nat) : ℚ)) - (N : ℚ) / D|
      * 2 ^ 24 ≤ (N : ℚ) / D := by
  have hDq : (0 : ℚ) < D := by exact_mod_cast hD
  have hdm : (N : ℚ) = D * (N / D : Nat) + (N % D : Nat) := by exact_mod_cast (Nat.div_add_mod N D).symm
  have hlt : ((N % D : Nat) : ℚ) < D := by exact_mod_cast Nat.mod_lt N hD
  have hge : (2 : ℚ) ^ 23 ≤ (N : ℚ) / D := by
    rw [le_div_iff₀ hDq]; exact_mod_cast hN
  have hND : (N : ℚ) / D = (N / D : Nat) + ((N % D : Nat) : ℚ) / D := by
    rw [hdm]; field_simp
  generalize hm0 : ((N / D : Nat) : ℚ) = m0 at *
  generalize hr : ((N % D : Nat) : ℚ) = r at *
  have hr0 : 0 ≤ r := by rw [← hr]; positivity
  have ht0 : 0 ≤ r / D := by positivity
  have ht1 : r / D < 1 := by rw [div_lt_one hDq]; exact hlt
  split
  · rename_i hc
    have h2 : (D : ℚ) ≤ 2 * r := by
      rw [← hr]
      rcases hc with h | ⟨h, _⟩
      · exact_mod_cast le_of_lt h
      · exact_mod_cast le_of_eq h.symm
    have ht : 1 / 2 ≤ r / D := by rw [le_div_iff₀ hDq]; linarith
    push_cast
    rw [hm0, hND]
    have : |m0 + 1 - (m0 + r / D)| = 1 - r / D := by
      rw [abs_of_nonneg] <;> linarith
    rw [this]
    nlinarith
  · rename_i hc
    have h2 : 2 * r ≤ (D : ℚ) := by
      rw [← hr]
      have : ¬ (2 * (N % D) > D) := fun h => hc (Or.inl h)
      exact_mod_cast Nat.le_of_not_lt this
    have ht : r / D ≤ 1 / 2 := by rw [div_le_iff₀ hDq]; linarith
    rw [hm0, hND]
    have : |m0 - (m0 + r / D)| = r / D := by
      rw [show m0 - (m0 + r / D) = -(r / D) by ring, abs_neg, abs_of_nonneg ht0]
    rw [this]
    nlinarith

theorem roundAt_spec (num den : Nat) (hd : 0 < den) (e : Int) (r : Nat × Nat) (h : roundAt num den e = some r) :
    0 < r.2 ∧ |qval r - (num : ℚ) / den| * 2 ^ 24 ≤ (num : ℚ) / den := by
  have hdq : (0 : ℚ) < den := by exact_mod_cast hd
  unfold roundAt at h
  by_cases he : e ≥ 0
  · simp only [he, if_true] at h
    split at h
    · rename_i hc
      injection h with h
      subst h
      have hD : 0 < den * 2 ^ e.toNat := by positivity
      have core := round_core num (den * 2 ^ e.toNat) hD hc.1
      generalize (if 2 * (num % (den * 2 ^ e.toNat)) > den * 2 ^ e.toNat ∨
        2 * (num % (den * 2 ^ e.toNat)) = den * 2 ^ e.toNat ∧ num / (den * 2 ^ e.toNat) % 2 = 1
        then num / (den * 2 ^ e.toNat) + 1 else num / (den * 2 ^ e.toNat)) = m at *
      refine ⟨Nat.one_pos, ?_⟩
      simp only [qval]
      push_cast at core ⊢
      have hp : (0 : ℚ) < 2 ^ e.toNat := by positivity
      have e1 : (num : ℚ) / den = (num : ℚ) / (den * 2 ^ e.toNat) * 2 ^ e.toNat := by field_simp
      have e2 : (m : ℚ) * 2 ^ e.toNat / 1 - (num : ℚ) / den
          = ((m : ℚ) - (num : ℚ) / (den * 2 ^ e.toNat)) * 2 ^ e.toNat := by rw [e1]; ring
      rw [e2, abs_mul, abs_of_pos hp, e1]
      nlinarith
    · cases h
  · simp only [he, if_false] at h
    split at h
    · rename_i hc
      injection h with h
      subst h
      have core := round_core (num * 2 ^ (-e).toNat) den hd hc.1
      generalize (if 2 * (num * 2 ^ (-e).toNat % den) > den ∨
        2 * (num * 2 ^ (-e).toNat % den) = den ∧ num * 2 ^ (-e).toNat / den % 2 = 1
        then num * 2 ^ (-e).toNat / den + 1 else num * 2 ^ (-e).toNat / den) = m at *
      refine ⟨by positivity, ?_⟩
      simp only [qval]
      push_cast at core ⊢
      have hp : (0 : ℚ) < 2 ^ (-e).toNat := by positivity
      have e1 : (num : ℚ) / den = (num : ℚ) * 2 ^ (-e).toNat / den / 2 ^ (-e).toNat := by field_simp
      have e2 : (m : ℚ) / 2 ^ (-e).toNat - (num : ℚ) / den
          = ((m : ℚ) - (num : ℚ) * 2 ^ (-e).toNat / den) / 2 ^ (-e).toNat := by rw [e1]; ring
      rw [e2, abs_div, abs_of_pos hp, e1, div_mul_eq_mul_div, div_le_div_iff_of_pos_right hp]
      exact core
    · cases h

/-- binary32 rounding has relative error at most 2^-24 (for the definition as it is executed) -/
theorem roundF32_spec (num den : Nat) (hd : 0 < den) :
    0 < (roundF32 num den).2 ∧ |qval (roundF32 num den) - (num : ℚ) / den| * 2 ^ 24 ≤ (num : ℚ) / den := by
  have hx : (0 : ℚ) ≤ (num : ℚ) / den := by positivity
  have exact : 0 < ((num, den) : Nat × Nat).2 ∧ |qval (num, den) - (num : ℚ) / den| * 2 ^ 24 ≤ (num : ℚ) / den := by
    refine ⟨hd, ?_⟩
    simp only [qval, sub_self, abs_zero, zero_mul]; exact hx
  unfold roundF32
  split
  · exact exact
  · simp only
    split
    · rename_i r h; exact roundAt_spec num den hd _ r h
    · split
      · rename_i r h; exact roundAt_spec num den hd _ r h
      · exact exact

/-- the float32 product `fl(S · fl(p/q))`: relative error at most 2^-23 + 2^-48 -/
theorem mulF32_spec (S p q : Nat) (hq : 0 < q) :
    0 < (mulF32 S p q).2 ∧
      |qval (mulF32 S p q) - (S : ℚ) * p / q| * 2 ^ 48 ≤ (S : ℚ) * p / q * (2 ^ 25 + 1) := by
  obtain ⟨hb, h1⟩ := roundF32_spec p q hq
  unfold mulF32
  simp only
  obtain ⟨hb2, h2⟩ := roundF32_spec (S * (roundF32 p q).1) (roundF32 p q).2 hb
  refine ⟨hb2, ?_⟩
  generalize qval (roundF32 (S * (roundF32 p q).1) (roundF32 p q).2) = z at *
  have hS : (0 : ℚ) ≤ S := by positivity
  have hu : ((S * (roundF32 p q).1 : Nat) : ℚ) / (roundF32 p q).2 = (S : ℚ) * qval (roundF32 p q) := by
    simp only [qval]; push_cast; ring
  rw [hu] at h2
  generalize qval (roundF32 p q) = y at *
  have hv : (S : ℚ) * p / q = (S : ℚ) * ((p : ℚ) / q) := by ring
  rw [hv]
  generalize (p : ℚ) / q = x at *
  have a1 := abs_le.mp ((le_div_iff₀ (by positivity : (0 : ℚ) < 2 ^ 24)).mpr h1)
  have a2 := abs_le.mp ((le_div_iff₀ (by positivity : (0 : ℚ) < 2 ^ 24)).mpr h2)
  have m1 : (S : ℚ) * (y - x) ≤ S * (x / 2 ^ 24) := mul_le_mul_of_nonneg_left a1.2 hS
  have m2 : (S : ℚ) * (-(x / 2 ^ 24)) ≤ S * (y - x) := mul_le_mul_of_nonneg_left a1.1 hS
  generalize hu' : (S : ℚ) * y = u at *
  generalize hv' : (S : ℚ) * x = v at *
  have m1' : u - v ≤ v / 2 ^ 24 := by
    have : (S : ℚ) * (y - x) = u - v := by rw [← hu', ← hv']; ring
    have e : (S : ℚ) * (x / 2 ^ 24) = v / 2 ^ 24 := by rw [← hv']; ring
    linarith
  have m2' : -(v / 2 ^ 24) ≤ u - v := by
    have : (S : ℚ) * (y - x) = u - v := by rw [← hu', ← hv']; ring
    have e : (S : ℚ) * (-(x / 2 ^ 24)) = -(v / 2 ^ 24) := by rw [← hv']; ring
    linarith
  have hle : |z - v| ≤ v * (2 ^ 25 + 1) / 2 ^ 48 := by
    rw [abs_le]
    constructor
    · have := a2.1; have : -(u / 2 ^ 24) ≤ z - u := by linarith
      have hh : u ≤ v + v / 2 ^ 24 := by linarith
      have : -(v * (2 ^ 25 + 1) / 2 ^ 48) = -((v + v / 2 ^ 24) / 2 ^ 24) - v / 2 ^ 24 := by ring
      rw [this]
      have : (u / 2 ^ 24 : ℚ) ≤ (v + v / 2 ^ 24) / 2 ^ 24 := by
        apply div_le_div_of_nonneg_right hh (by positivity)
      linarith
    · have := a2.2
      have hh : u ≤ v + v / 2 ^ 24 := by linarith
      have : v * (2 ^ 25 + 1) / 2 ^ 48 = (v + v / 2 ^ 24) / 2 ^ 24 + v / 2 ^ 24 := by ring
      rw [this]
      have : (u / 2 ^ 24 : ℚ) ≤ (v + v / 2 ^ 24) / 2 ^ 24 := by
        apply div_le_div_of_nonneg_right hh (by positivity)
      linarith
  calc |z - v| * 2 ^ 48 ≤ v * (2 ^ 25 + 1) / 2 ^ 48 * 2 ^ 48 := by
        apply mul_le_mul_of_nonneg_right hle (by positivity)
    _ = v * (2 ^ 25 + 1) := by rw [div_mul_cancel₀ _ (by positivity)]

/-- the float32 product is closer than `1 / q` to the exact product as long as `S · p < 2^22` -/
theorem mulF32_near (S p q : Nat) (hq : 0 < q) (hsp : S * p < 2 ^ 22) :
    0 < ((mulF32 S p q).2 : Int) ∧
    ((mulF32 S p q).1 : Int) * q < ((S : Int) * p) * (mulF32 S p q).2 + (mulF32 S p q).2 ∧
    ((S : Int) * p) * (mulF32 S p q).2 - (mulF32 S p q).2 < ((mulF32 S p q).1 : Int) * q := by
  obtain ⟨hb, h⟩ := mulF32_spec S p q hq
  generalize mulF32 S p q = r at *
  obtain ⟨a, b⟩ := r
  simp only [qval] at h hb ⊢
  have hbq : (0 : ℚ) < b := by exact_mod_cast hb
  have hqq : (0 : ℚ) < q := by exact_mod_cast hq
  have hX : ((S : ℚ) * p) < 2 ^ 22 := by exact_mod_cast hsp
  have hX0 : (0 : ℚ) ≤ (S : ℚ) * p := by positivity
  -- |a/b - X/q| < 1/q
  have hlt : |(a : ℚ) / b - (S : ℚ) * p / q| * 2 ^ 48 < 1 / q * 2 ^ 48 := by
    apply lt_of_le_of_lt h
    rw [div_mul_eq_mul_div, div_mul_eq_mul_div, div_lt_div_iff_of_pos_right hqq]
    nlinarith
  have hlt' : |(a : ℚ) / b - (S : ℚ) * p / q| < 1 / q := lt_of_mul_lt_mul_right hlt (by positivity)
  have hab := abs_lt.mp hlt'
  have e : (a : ℚ) / b - (S : ℚ) * p / q = ((a : ℚ) * q - (S : ℚ) * p * b) / (b * q) := by field_simp
  rw [e] at hab
  have hbqp : (0 : ℚ) < (b : ℚ) * q := by positivity
  have u1 : ((a : ℚ) * q - (S : ℚ) * p * b) < b := by
    have := hab.2
    rw [div_lt_iff₀ hbqp] at this
    have e2 : 1 / (q : ℚ) * (b * q) = b := by field_simp
    linarith
  have u2 : -(b : ℚ) < ((a : ℚ) * q - (S : ℚ) * p * b) := by
    have := hab.1
    rw [lt_div_iff₀ hbqp] at this
    have e2 : -(1 / (q : ℚ)) * (b * q) = -b := by field_simp
    linarith
  refine ⟨by exact_mod_cast hb, ?_, ?_⟩
  · have : ((a : ℚ) * q) < (S : ℚ) * p * b + b := by linarith
    exact_mod_cast this
  · have : (S : ℚ) * p * b - b < (a : ℚ) * q := by linarith
    exact_mod_cast this

/-- **The float32 count versus the exact-rational count.**  For `S · p < 2^22`: when `S·p/q` is not an integer the
float32 ceiling and floor are the exact ones; when it is an integer `k` the float32 product may land just off
`k`, and then the ceiling is `k` or `k + 1` and the floor `k` or `k - 1` — the only way the two differ. -/
theorem count_f32_spec (S p q : Nat) (hq : 0 < q) (hsp : S * p < 2 ^ 22) :
    (¬ (q : Int) ∣ (S : Int) * p → countCeilF32 S p q = ratioCeil S p q ∧ countFloorF32 S p q = ratioFloor S p q) ∧
    ((q : Int) ∣ (S : Int) * p →
      (countCeilF32 S p q = ratioCeil S p q ∨ countCeilF32 S p q = ratioCeil S p q + 1) ∧
      (countFloorF32 S p q = ratioFloor S p q ∨ countFloorF32 S p q = ratioFloor S p q - 1)) := by
  obtain ⟨hb, h1, h2⟩ := mulF32_near S p q hq hsp
  have hqi : (0 : Int) < q := by exact_mod_cast hq
  have := ceil_floor_near ((S : Int) * p) q (mulF32 S p q).1 (mulF32 S p q).2 hqi hb h1 h2
  simpa only [countCeilF32, countFloorF32, ratioCeil, ratioFloor] using this

end DirectVerif.C11
