import DirectVerif.Model.SslSplit
import Mathlib.Tactic.Linarith
import Mathlib.Tactic.Ring
import Mathlib.Tactic.FieldSimp
import Mathlib.Tactic.Positivity
import Mathlib.Algebra.Order.Field.Rat
import Mathlib.Algebra.Order.Field.Basic
/-!
# C11 helper lemmas — the float32 product `S · ρ` and its ceiling / floor
-/
namespace DirectVerif.C11
open DirectVerif DirectVerif.SslSplit

/-- a fraction `a / b` closer than `1 / q` to `X / q` has the same ceiling and floor when `X / q` is not an
integer, and is off by at most one (ceiling up, floor down) when it is -/
theorem ceil_floor_near (X q a b : Int) (hq : 0 < q) (hb : 0 < b) (h1 : a * q < X * b + b) (h2 : X * b - b < a * q) :
    (¬ q ∣ X → -((-a) / b) = -((-X) / q) ∧ a / b = X / q) ∧
    (q ∣ X → (-((-a) / b) = -((-X) / q) ∨ -((-a) / b) = -((-X) / q) + 1) ∧ (a / b = X / q ∨ a / b = X / q - 1)) := by
  have hX := Int.emod_add_mul_ediv X q
  have hr0 := Int.emod_nonneg X (Int.ne_of_gt hq)
  have hr1 := Int.emod_lt_of_pos X hq
  generalize hk : X / q = k at *
  generalize hr : X % q = r at *
  have hXe : X = r + q * k := by omega
  constructor
  · intro hnd
    have hrpos : 0 < r := by
      rcases Int.lt_or_eq_of_le hr0 with h | h
      · exact h
      · exfalso; apply hnd; rw [← hr] at h; exact Int.dvd_of_emod_eq_zero h.symm
    have hlo : k * b < a := by
      have : k * b * q < a * q := by nlinarith
      exact lt_of_mul_lt_mul_right this (le_of_lt hq)
    have hhi : a < (k + 1) * b := by
      have : a * q < (k + 1) * b * q := by nlinarith
      exact lt_of_mul_lt_mul_right this (le_of_lt hq)
    have e1 : a / b = k := by
      have := (Int.le_ediv_iff_mul_le hb).mpr (le_of_lt hlo)
      have := (Int.ediv_lt_iff_lt_mul hb).mpr hhi
      omega
    have e2 : (-a) / b = -(k + 1) := by
      have h3 : (-(k + 1)) * b ≤ -a := by nlinarith
      have h4 : -a < (-(k + 1) + 1) * b := by nlinarith
      have := (Int.le_ediv_iff_mul_le hb).mpr h3
      have := (Int.ediv_lt_iff_lt_mul hb).mpr h4
      omega
    have e3 : (-X) / q = -(k + 1) := by
      have h3 : (-(k + 1)) * q ≤ -X := by nlinarith
      have h4 : -X < (-(k + 1) + 1) * q := by nlinarith
      have := (Int.le_ediv_iff_mul_le hq).mpr h3
      have := (Int.ediv_lt_iff_lt_mul hq).mpr h4
      omega
    rw [e1, e2, e3]; exact ⟨rfl, rfl⟩
  · intro hd
    have hr0' : r = 0 := by rw [← hr]; exact Int.emod_eq_zero_of_dvd hd
    subst hr0'
    have hlo : (k - 1) * b < a := by
      have : (k - 1) * b * q < a * q := by nlinarith
      exact lt_of_mul_lt_mul_right this (le_of_lt hq)
    have hhi : a < (k + 1) * b := by
      have : a * q < (k + 1) * b * q := by nlinarith
      exact lt_of_mul_lt_mul_right this (le_of_lt hq)
    have e3 : (-X) / q = -k := by
      have : -X = (-k) * q := by rw [hXe]; ring
      rw [this, Int.mul_ediv_cancel _ (Int.ne_of_gt hq)]
    have f1 : k - 1 ≤ a / b := (Int.le_ediv_iff_mul_le hb).mpr (le_of_lt hlo)
    have f2 : a / b < k + 1 := (Int.ediv_lt_iff_lt_mul hb).mpr hhi
    have g1 : (-(k + 1)) ≤ (-a) / b := (Int.le_ediv_iff_mul_le hb).mpr (by nlinarith)
    have g2 : (-a) / b < -(k - 1) := (Int.ediv_lt_iff_lt_mul hb).mpr (by nlinarith)
    rw [e3]
    -- relate ceil and floor of a / b: a / b = k - 1 iff a not multiple … keep it elementary
    constructor
    · omega
    · omega

/-- value of a fraction pair -/
def qval (r : Nat × Nat) : ℚ := (r.1 : ℚ) / (r.2 : ℚ)

/-- nearest-even choice of the significand: within 1/2 of `N / D`, hence (as `N / D ≥ 2^23`) within relative 2^-24 -/
theorem round_core (N D : Nat) (hD : 0 < D) (hN : 2 ^ 23 * D ≤ N) :
    |(((if 2 * (N % D) > D ∨ (2 * (N % D) = D ∧ (N / D) % 2 = 1) then N / D + 1 else N / D : Nat) : ℚ)) - (N : ℚ) / D|
      * 2 ^ 24 ≤ (N : ℚ) / D := by
  have hDq : (0 : ℚ) < D := by exact_mod_cast hD
  have hdm : (N : ℚ) = D * (N / D : Nat) + (N % D : Nat) := by exact_mod_cast (Nat.div_add_mod N D).symm
  have hlt : ((N % D : Nat) : ℚ) < D := by exact_mod_cast Nat.mod_lt N hD
  have hge : (2 : ℚ) ^ 23 ≤ (N : ℚ) / D := by
    rw [le_div_iff₀ hDq]; exact_mod_cast hN
  have hND : (N : ℚ) / D = (N / D : Nat) + ((N % D : Nat) : ℚ) / D := by
    rw [hdm]; field_simp
  generalize hm0 : ((N / D : Nat) : ℚ) = m0 at *
  generalize hr : ((N % D : Nat) : ℚ) = r at *
  have hr0 : 0 ≤ r := by rw [← hr]; positivity
  have ht0 : 0 ≤ r / D := by positivity
  have ht1 : r / D < 1 := by rw [div_lt_one hDq]; exact hlt
  split
  · rename_i hc
    have h2 : (D : ℚ) ≤ 2 * r := by
      rw [← hr]
      rcases hc with h | ⟨h, _⟩
      · exact_mod_cast le_of_lt h
      · exact_mod_cast le_of_eq h.symm
    have ht : 1 / 2 ≤ r / D := by rw [le_div_iff₀ hDq]; linarith
    push_cast
    rw [hm0, hND]
    have : |m0 + 1 - (m0 + r / D)| = 1 - r / D := by
      rw [abs_of_nonneg] <;> linarith
    rw [this]
    nlinarith
  · rename_i hc
    have h2 : 2 * r ≤ (D : ℚ) := by
      rw [← hr]
      have : ¬ (2 * (N % D) > D) := fun h => hc (Or.inl h)
      exact_mod_cast Nat.le_of_not_lt this
    have ht : r / D ≤ 1 / 2 := by rw [div_le_iff₀ hDq]; linarith
    rw [hm0, hND]
    have : |m0 - (m0 + r / D)| = r / D := by
      rw [show m0 - (m0 + r / D) = -(r / D) by ring, abs_neg, abs_of_nonneg ht0]
    rw [this]
    nlinarith

end DirectVerif.C11
