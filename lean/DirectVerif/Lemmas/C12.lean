import DirectVerif.Model.Dataset
/-!
# Lemmas for C12 (core Lean only)

* Python `range` / `slice.indices`: elements of `range(*sl.indices(n))` are distinct and lie in `[0, n)`;
  counting lemma `numSlices_eq_length`.
* specification functions `readable`, `dataOf`, `volsFrom`, `Contiguous` of `parse_filenames_data` and the
  fold invariant `parse_spec`.
* context-window entries, cumulative sizes and `bisect_right`.
-/
namespace DirectVerif.Dataset
open DirectVerif

theorem mul_le_of_le_div {k d s : Int} (hs : 0 < s) (hk : k ≤ d / s) : k * s ≤ d := by
  have h1 : k * s ≤ (d / s) * s := Int.mul_le_mul_of_nonneg_right hk (Int.le_of_lt hs)
  have h2 : (d / s) * s ≤ d := Int.ediv_mul_le d (Int.ne_of_gt hs)
  omega

/-- elements of a positive-step range lie in `[a, b)` -/
theorem rangeLen_pos {a b st : Int} (hst : 0 < st) {k : Nat} (hk : k < rangeLen a b st) :
    a ≤ a + (k : Int) * st ∧ a + (k : Int) * st < b := by
  unfold rangeLen at hk
  simp only [hst, if_true] at hk
  split at hk
  · rename_i hab
    have hd : 0 ≤ (b - a - 1) / st := Int.ediv_nonneg (by omega) (Int.le_of_lt hst)
    have hk' : (k : Int) ≤ (b - a - 1) / st := by omega
    have := mul_le_of_le_div hst hk'
    have h0 : 0 ≤ (k : Int) * st := Int.mul_nonneg (by omega) (Int.le_of_lt hst)
    omega
  · omega

theorem rangeLen_neg {a b st : Int} (hst : st < 0) {k : Nat} (hk : k < rangeLen a b st) :
    b < a + (k : Int) * st ∧ a + (k : Int) * st ≤ a := by
  unfold rangeLen at hk
  have h1 : ¬ (0 < st) := by omega
  simp only [h1, if_false, hst, if_true] at hk
  split at hk
  · rename_i hab
    have hs : 0 < -st := by omega
    have hd : 0 ≤ (a - b - 1) / (-st) := Int.ediv_nonneg (by omega) (Int.le_of_lt hs)
    have hk' : (k : Int) ≤ (a - b - 1) / (-st) := by omega
    have := mul_le_of_le_div hs hk'
    have h0 : 0 ≤ (k : Int) * (-st) := Int.mul_nonneg (by omega) (Int.le_of_lt hs)
    have e : (k : Int) * (-st) = -((k : Int) * st) := by rw [Int.mul_neg]
    omega
  · omega

theorem rangeLen_zero (a b : Int) : rangeLen a b 0 = 0 := by simp [rangeLen]

theorem sliceIndices_step (sl : PySliceT) (n : Int) : (sliceIndices sl n).2.2 = sl.step.getD 1 := rfl

/-- `slice.indices(n)` clips into the file: for a positive step `0 ≤ start`, `stop ≤ n`; for a
negative step `start ≤ n-1`, `-1 ≤ stop`. -/
theorem sliceIndices_bounds (sl : PySliceT) (n : Int) (hn : 0 ≤ n) :
    (0 < (sliceIndices sl n).2.2 → 0 ≤ (sliceIndices sl n).1 ∧ (sliceIndices sl n).2.1 ≤ n) ∧
    ((sliceIndices sl n).2.2 < 0 → (sliceIndices sl n).1 ≤ n - 1 ∧ -1 ≤ (sliceIndices sl n).2.1) := by
  obtain ⟨a, b, s⟩ := sl
  simp only [sliceIndices]
  constructor
  · intro h
    have h' : ¬ (s.getD 1 < 0) := by omega
    simp only [h', if_false]
    constructor
    · cases a <;> simp only <;> (try split) <;> omega
    · cases b <;> simp only <;> (try split) <;> omega
  · intro h
    simp only [h, if_true]
    constructor
    · cases a <;> simp only <;> (try split) <;> omega
    · cases b <;> simp only <;> (try split) <;> omega

theorem pyRange_mem_bounds (sl : PySliceT) (n : Nat) (x : Int)
    (hx : x ∈ pyRange (sliceIndices sl n).1 (sliceIndices sl n).2.1 (sliceIndices sl n).2.2) :
    0 ≤ x ∧ x < n := by
  unfold pyRange at hx
  rw [List.mem_map] at hx
  obtain ⟨k, hk, rfl⟩ := hx
  rw [List.mem_range] at hk
  have hb := sliceIndices_bounds sl n (by omega)
  rcases Int.lt_trichotomy 0 (sliceIndices sl n).2.2 with h | h | h
  · have := rangeLen_pos h hk
    have := hb.1 h
    omega
  · rw [← h, rangeLen_zero] at hk; omega
  · have := rangeLen_neg h hk
    have := hb.2 h
    omega

theorem pyRange_nodup (a b st : Int) : (pyRange a b st).Nodup := by
  unfold pyRange
  by_cases hst : st = 0
  · subst hst; rw [rangeLen_zero]; simp
  · rw [List.nodup_iff_pairwise_ne, List.pairwise_map]
    refine List.Pairwise.imp ?_ (List.pairwise_lt_range)
    intro i j hij h
    have : (i : Int) * st = (j : Int) * st := by omega
    have := Int.eq_of_mul_eq_mul_right hst this
    omega

theorem pyRange_length (a b st : Int) : (pyRange a b st).length = rangeLen a b st := by
  simp [pyRange]

/-- counting: filtering `range n` by membership in a duplicate-free list of integers that all lie
in `[0, n)` keeps exactly as many elements as the list has -/
theorem filter_contains_length (l : List Int) (n : Nat) (hnd : l.Nodup)
    (hb : ∀ x ∈ l, 0 ≤ x ∧ x < n) :
    ((List.range n).filter fun (x : Nat) => l.contains (x : Int)).length = l.length := by
  have hm : (((List.range n).filter fun (x : Nat) => l.contains (x : Int)).map Int.ofNat).Perm l := by
    rw [List.perm_ext_iff_of_nodup _ hnd]
    · intro y
      simp only [List.mem_map, List.mem_filter, List.mem_range, List.contains_iff_mem]
      constructor
      · rintro ⟨x, ⟨_, hx⟩, rfl⟩; exact hx
      · intro hy
        have := hb y hy
        exact ⟨y.toNat, ⟨by omega, by rw [Int.toNat_of_nonneg this.1]; exact hy⟩, by
          show Int.ofNat y.toNat = y
          exact Int.toNat_of_nonneg this.1⟩
    · rw [List.nodup_iff_pairwise_ne, List.pairwise_map]
      refine List.Pairwise.imp ?_ ((List.pairwise_lt_range).filter _)
      intro i j hij h
      have : (i : Int) = (j : Int) := h
      omega
  have := hm.length_eq
  simpa using this

/-- **`len(admissible_indices)` is the number of slices that enter `self.data`** -/
theorem numSlices_eq_length (filt : Option PySliceT) (n : Nat) :
    numSlices filt n = (sliceList filt n).length := by
  cases filt with
  | none => simp [numSlices, sliceList]
  | some sl =>
    simp only [numSlices, sliceList]
    rw [filter_contains_length _ n (pyRange_nodup _ _ _) (pyRange_mem_bounds sl n), pyRange_length]



/-- the readable files (those whose `h5py.File(...)['kspace'].shape` does not raise `OSError`) -/
def readable {φ : Type} (files : List (φ × Option Nat)) : List (φ × Nat) :=
  files.filterMap fun x => x.2.map fun n => (x.1, n)

/-- specification of `self.data`: volume after volume, the admissible slices in increasing order -/
def dataOf {φ : Type} (filt : Option PySliceT) (vs : List (φ × Nat)) : List (φ × Nat) :=
  vs.flatMap fun x => (sliceList filt x.2).map fun s => (x.1, s)

/-- specification of `self.volume_indices`: consecutive ranges, one per readable file -/
def volsFrom {φ : Type} (filt : Option PySliceT) : Nat → List (φ × Nat) → List (φ × Nat × Nat)
  | _, [] => []
  | c, x :: r => (x.1, c, c + (sliceList filt x.2).length) :: volsFrom filt (c + (sliceList filt x.2).length) r

/-- consecutive ranges from `s` to `e` -/
def Contiguous {φ : Type} : Nat → List (φ × Nat × Nat) → Nat → Prop
  | s, [], e => s = e
  | s, v :: r, e => v.2.1 = s ∧ v.2.1 ≤ v.2.2 ∧ Contiguous v.2.2 r e

theorem dictSet_fresh {φ : Type} [DecidableEq φ] (d : List (φ × Nat × Nat)) (f : φ) (v : Nat × Nat)
    (h : f ∉ d.map (·.1)) : dictSet d f v = d ++ [(f, v)] := by
  unfold dictSet
  have : d.any (fun x => x.1 == f) = false := by
    rw [List.any_eq_false]
    intro x hx hxf
    exact h (List.mem_map.mpr ⟨x, hx, by simpa using hxf⟩)
  simp [this]

/-- `self.data` and the slice counter do not depend on the `dict`: unconditional -/
theorem parse_fold_data {φ : Type} [DecidableEq φ] (filt : Option PySliceT) (files : List (φ × Option Nat))
    (st : Parsed φ) :
    (files.foldl (parseStep filt) st).data = st.data ++ dataOf filt (readable files) ∧
    (files.foldl (parseStep filt) st).cur = st.cur + (dataOf filt (readable files)).length := by
  induction files generalizing st with
  | nil => simp [readable, dataOf]
  | cons x xs ih =>
    obtain ⟨f, o⟩ := x
    cases o with
    | none =>
      have e : readable ((f, none) :: xs) = readable xs := by simp [readable]
      rw [List.foldl_cons, e]
      exact ih st
    | some n =>
      have e : readable ((f, some n) :: xs) = (f, n) :: readable xs := by simp [readable]
      rw [List.foldl_cons, e]
      obtain ⟨h1, h3⟩ := ih (parseStep filt st (f, some n))
      refine ⟨?_, ?_⟩
      · rw [h1]; simp [parseStep, dataOf]
      · rw [h3]; simp [parseStep, dataOf, numSlices_eq_length]; omega

/-- with distinct file names the `dict` is filled by appending -/
theorem parse_fold {φ : Type} [DecidableEq φ] (filt : Option PySliceT) (files : List (φ × Option Nat))
    (st : Parsed φ) (hnd : (st.vols.map (·.1) ++ (readable files).map (·.1)).Nodup) :
    (files.foldl (parseStep filt) st).vols = st.vols ++ volsFrom filt st.cur (readable files) := by
  induction files generalizing st with
  | nil => simp [readable, volsFrom]
  | cons x xs ih =>
    obtain ⟨f, o⟩ := x
    cases o with
    | none =>
      have e : readable ((f, none) :: xs) = readable xs := by simp [readable]
      rw [List.foldl_cons, e]
      rw [e] at hnd
      exact ih st hnd
    | some n =>
      have e : readable ((f, some n) :: xs) = (f, n) :: readable xs := by simp [readable]
      rw [List.foldl_cons, e]
      rw [e] at hnd
      have hf : f ∉ st.vols.map (·.1) := by
        intro hmem
        rw [List.nodup_append] at hnd
        exact hnd.2.2 f hmem f (by simp) rfl
      have hv : (parseStep filt st (f, some n)).vols = st.vols ++ [(f, st.cur, st.cur + numSlices filt n)] := by
        simp only [parseStep]
        exact dictSet_fresh _ _ _ hf
      have hc : (parseStep filt st (f, some n)).cur = st.cur + numSlices filt n := by simp [parseStep]
      have hnd' : ((parseStep filt st (f, some n)).vols.map (·.1) ++ (readable xs).map (·.1)).Nodup := by
        rw [hv]
        simpa [List.append_assoc] using hnd
      rw [ih (parseStep filt st (f, some n)) hnd', hv, hc]
      simp [volsFrom, numSlices_eq_length]

theorem parse_spec {φ : Type} [DecidableEq φ] (files : List (φ × Option Nat)) (filt : Option PySliceT)
    (hnd : ((readable files).map (·.1)).Nodup) :
    (parseFilenames files filt).data = dataOf filt (readable files) ∧
    (parseFilenames files filt).vols = volsFrom filt 0 (readable files) ∧
    (parseFilenames files filt).cur = (dataOf filt (readable files)).length := by
  have h1 := parse_fold_data filt files ({} : Parsed φ)
  have h2 := parse_fold filt files ({} : Parsed φ) (by simpa using hnd)
  refine ⟨by simpa [parseFilenames] using h1.1, by simpa [parseFilenames] using h2, by simpa [parseFilenames] using h1.2⟩

/-- `self.data` is the specification list for every list of files, duplicates included -/
theorem parse_data_spec {φ : Type} [DecidableEq φ] (files : List (φ × Option Nat)) (filt : Option PySliceT) :
    (parseFilenames files filt).data = dataOf filt (readable files) := by
  have h1 := parse_fold_data filt files ({} : Parsed φ)
  simpa [parseFilenames] using h1.1

theorem volsFrom_length {φ : Type} (filt : Option PySliceT) (c : Nat) (vs : List (φ × Nat)) :
    (volsFrom filt c vs).length = vs.length := by
  induction vs generalizing c with
  | nil => rfl
  | cons x r ih => simp [volsFrom, ih]

theorem volsFrom_contiguous {φ : Type} (filt : Option PySliceT) (c : Nat) (vs : List (φ × Nat)) :
    Contiguous c (volsFrom filt c vs) (c + (dataOf filt vs).length) := by
  induction vs generalizing c with
  | nil => simp [volsFrom, dataOf, Contiguous]
  | cons x r ih =>
    simp only [volsFrom, Contiguous, true_and]
    refine ⟨by omega, ?_⟩
    have := ih (c + (sliceList filt x.2).length)
    have e : (dataOf filt (x :: r)).length = (sliceList filt x.2).length + (dataOf filt r).length := by
      simp [dataOf]
    rw [e, ← Nat.add_assoc]; exact this

theorem contiguous_le {φ : Type} {s e : Nat} {vols : List (φ × Nat × Nat)} (h : Contiguous s vols e) : s ≤ e := by
  induction vols generalizing s with
  | nil => simp [Contiguous] at h; omega
  | cons v r ih =>
    obtain ⟨h1, h2, h3⟩ := h
    have := ih h3; omega

/-- every index of `[s, e)` lies in the range of some volume … -/
theorem contiguous_cover {φ : Type} {s e : Nat} {vols : List (φ × Nat × Nat)} (h : Contiguous s vols e)
    (i : Nat) (hs : s ≤ i) (he : i < e) :
    ∃ k, ∃ hk : k < vols.length, vols[k].2.1 ≤ i ∧ i < vols[k].2.2 := by
  induction vols generalizing s with
  | nil => simp [Contiguous] at h; omega
  | cons v r ih =>
    obtain ⟨h1, h2, h3⟩ := h
    by_cases hi : i < v.2.2
    · exact ⟨0, by simp, by simp; omega, by simpa using hi⟩
    · obtain ⟨k, hk, hk1, hk2⟩ := ih h3 (by omega)
      exact ⟨k + 1, by simpa using hk, by simpa using hk1, by simpa using hk2⟩

/-- … and of only one -/
theorem contiguous_disjoint {φ : Type} {s e : Nat} {vols : List (φ × Nat × Nat)} (h : Contiguous s vols e)
    (i k k' : Nat) (hk : k < vols.length) (hk' : k' < vols.length)
    (h1 : vols[k].2.1 ≤ i ∧ i < vols[k].2.2) (h2 : vols[k'].2.1 ≤ i ∧ i < vols[k'].2.2) : k = k' := by
  -- ranges later in the list start at or after the end of earlier ones
  have mono : ∀ {s e : Nat} {vols : List (φ × Nat × Nat)}, Contiguous s vols e →
      ∀ k (hk : k < vols.length), s ≤ vols[k].2.1 ∧ vols[k].2.2 ≤ e := by
    intro s e vols h
    induction vols generalizing s with
    | nil => intro k hk; simp at hk
    | cons v r ih =>
      obtain ⟨h1, h2, h3⟩ := h
      intro k hk
      cases k with
      | zero => simp; have := contiguous_le h3; omega
      | succ k =>
        have := ih h3 k (by simpa using hk)
        simp; omega
  induction vols generalizing s k k' with
  | nil => simp at hk
  | cons v r ih =>
    obtain ⟨g1, g2, g3⟩ := h
    cases k with
    | zero =>
      cases k' with
      | zero => rfl
      | succ k' =>
        have := mono g3 k' (by simpa using hk')
        simp at h1 h2; omega
    | succ k =>
      cases k' with
      | zero =>
        have := mono g3 k (by simpa using hk)
        simp at h1 h2; omega
      | succ k' =>
        have := ih g3 k k' (by simpa using hk) (by simpa using hk') (by simpa using h1) (by simpa using h2)
        omega

theorem volsFrom_get {φ : Type} (filt : Option PySliceT) (vs : List (φ × Nat)) (c k : Nat) (hk : k < vs.length) :
    ∃ a, (volsFrom filt c vs)[k]? = some (vs[k].1, a, a + (sliceList filt vs[k].2).length) ∧
      ∀ pre : List (φ × Nat), pre.length = c → ∀ r (hr : r < (sliceList filt vs[k].2).length),
        (pre ++ dataOf filt vs)[a + r]? = some (vs[k].1, (sliceList filt vs[k].2)[r]) := by
  induction vs generalizing c k with
  | nil => simp at hk
  | cons x rest ih =>
    have ed : dataOf filt (x :: rest) = ((sliceList filt x.2).map fun s => (x.1, s)) ++ dataOf filt rest := by
      simp [dataOf]
    cases k with
    | zero =>
      refine ⟨c, by simp [volsFrom], ?_⟩
      intro pre hpre r hr
      simp only [List.getElem_cons_zero] at hr ⊢
      rw [ed, List.getElem?_append_right (by omega), List.getElem?_append_left (by simpa using (by omega))]
      simp [hpre, hr]
    | succ k =>
      obtain ⟨a, ha, hd⟩ := ih (c + (sliceList filt x.2).length) k (by simpa using hk)
      refine ⟨a, by simpa [volsFrom] using ha, ?_⟩
      intro pre hpre r hr
      simp only [List.getElem_cons_succ] at hr ⊢
      rw [ed, ← List.append_assoc]
      exact hd (pre ++ (sliceList filt x.2).map fun s => (x.1, s)) (by simp [hpre]) r hr


theorem irange_length (a b : Int) : (irange a b).length = (b - a).toNat := by simp [irange]

theorem irange_getElem? (a b : Int) (k : Nat) :
    (irange a b)[k]? = if k < (b - a).toNat then some (a + k) else none := by
  unfold irange
  rw [List.getElem?_map]
  by_cases h : k < (b - a).toNat
  · simp [h]
  · simp [h]

theorem readSlices_length (lo hi : Int) : (readSlices lo hi).length = (hi - lo).toNat := by
  simp [readSlices, irange_length]

theorem readSlices_getElem? (lo hi : Int) (k : Nat) :
    (readSlices lo hi)[k]? = if k < (hi - lo).toNat then some (Entry.slice (lo + k).toNat) else none := by
  unfold readSlices
  rw [List.getElem?_map, irange_getElem?]
  split <;> simp

/-- the specification of one window entry: slice `s - c + j` when that index lies in the file, a block
of zeros otherwise -/
def windowSpec (c n s j : Nat) : Entry :=
  if (0 : Int) ≤ (s : Int) - c + j ∧ (s : Int) - c + j < n then Entry.slice ((s : Int) - c + j).toNat else Entry.zero

theorem window_entries (c n s : Nat) (hs : s < n) (j : Nat) (hj : j < 2 * c + 1) :
    (getSliceWindow c n s)[j]? = some (windowSpec c n s j) := by
  unfold getSliceWindow windowSpec
  simp only [windowShort, fillBeforeGuard, fillAfterGuard, fillBeforeLen, fillAfterLen, readSlices_length,
    windowLo, windowHi, decide_eq_true_eq]
  by_cases h1 : (s : Int) - c < 0 <;> by_cases h2 : (c : Int) + s > (n : Int) - 1
  all_goals simp only [h1, h2, if_true, if_false]
  all_goals split
  all_goals (try omega)
  all_goals simp only [List.getElem?_append, List.length_replicate, List.length_append, readSlices_length,
    List.getElem?_replicate, readSlices_getElem?]
  all_goals (repeat' split)
  all_goals (first | rfl | omega | (simp only [Option.some.injEq, Entry.slice.injEq]; omega))


theorem window_length (c n s : Nat) (hs : s < n) : (getSliceWindow c n s).length = 2 * c + 1 := by
  unfold getSliceWindow
  simp only [windowShort, fillBeforeGuard, fillAfterGuard, fillBeforeLen, fillAfterLen, readSlices_length,
    windowLo, windowHi, decide_eq_true_eq]
  by_cases h1 : (s : Int) - c < 0 <;> by_cases h2 : (c : Int) + s > (n : Int) - 1
  all_goals simp only [h1, h2, if_true, if_false]
  all_goals split
  all_goals simp only [List.length_replicate, List.length_append, readSlices_length]
  all_goals omega

theorem window_centre (c n s : Nat) (hs : s < n) : (getSliceWindow c n s)[c]? = some (Entry.slice s) := by
  rw [window_entries c n s hs c (by omega)]
  unfold windowSpec
  have : (0 : Int) ≤ (s : Int) - c + c ∧ (s : Int) - c + c < n := by omega
  simp only [this, and_self, if_true]
  congr 2; omega

theorem window_pinned_violates : (getSliceWindowPinned 1 3 0).length ≠ 2 * 1 + 1 := by decide
theorem window_pinned_violates' : (getSliceWindowPinned 1 2 1).length ≠ 2 * 1 + 1 := by decide
example : getSliceWindow 1 3 0 = [.zero, .slice 0, .slice 1] := by decide
example : getSliceWindow 2 2 1 = [.zero, .slice 0, .slice 1, .zero, .zero] := by decide
example : getSliceWindow 3 1 0 = [.zero, .zero, .zero, .slice 0, .zero, .zero, .zero] := by decide


theorem cumsumFrom_length (t : Nat) (sizes : List Nat) : (cumsumFrom t sizes).length = sizes.length := by
  induction sizes generalizing t with
  | nil => rfl
  | cons l ls ih => simp [cumsumFrom, ih]

theorem cumsumFrom_getElem? (t : Nat) (sizes : List Nat) (k : Nat) :
    (cumsumFrom t sizes)[k]? = if k < sizes.length then some (t + (sizes.take (k + 1)).sum) else none := by
  induction sizes generalizing t k with
  | nil => simp [cumsumFrom]
  | cons l ls ih =>
    cases k with
    | zero => simp [cumsumFrom]; omega
    | succ k =>
      simp only [cumsumFrom, List.getElem?_cons_succ, ih, List.length_cons, Nat.add_lt_add_iff_right,
        List.take_succ_cons, List.sum_cons]
      split <;> simp <;> omega

theorem cumsumFrom_getLast (t : Nat) (sizes : List Nat) :
    (cumsumFrom t sizes).getLast?.getD t = t + sizes.sum := by
  induction sizes generalizing t with
  | nil => simp [cumsumFrom]
  | cons l ls ih =>
    have := ih (t + l)
    cases ls with
    | nil => simp [cumsumFrom]; omega
    | cons m ms =>
      simp only [cumsumFrom, List.getLast?_cons_cons, List.sum_cons] at this ⊢
      have e : ((m + (t + l)) :: cumsumFrom (t + l + m) ms).getLast?.getD t =
          ((m + (t + l)) :: cumsumFrom (t + l + m) ms).getLast?.getD (t + l) := by
        simp [List.getLast?_cons]
      rw [e, this]; omega

/-- the cumulative sizes are non-decreasing (precondition of `bisect_right`) -/
theorem cumsumFrom_sorted (t : Nat) (sizes : List Nat) :
    (cumsumFrom t sizes).Pairwise (· ≤ ·) ∧ ∀ v ∈ cumsumFrom t sizes, t ≤ v ∧ v ≤ t + sizes.sum := by
  induction sizes generalizing t with
  | nil => simp [cumsumFrom]
  | cons l ls ih =>
    obtain ⟨h1, h2⟩ := ih (t + l)
    simp only [cumsumFrom, List.pairwise_cons, List.mem_cons, List.sum_cons]
    refine ⟨⟨?_, h1⟩, ?_⟩
    · intro v hv; have := h2 v hv; omega
    · rintro v (rfl | hv)
      · omega
      · have := h2 v hv; omega

/-! ### `bisect_right`: the binary search CPython runs returns the count of elements `≤ x` on sorted lists -/

theorem bisectRight_le_length (xs : List Nat) (x : Int) : bisectRight xs x ≤ xs.length := by
  unfold bisectRight
  exact (List.takeWhile_sublist _).length_le

/-- on a non-decreasing list, position `i` is below the count iff `xs[i] ≤ x` -/
theorem bisectRight_lt_iff (xs : List Nat) (x : Int) (hs : xs.Pairwise (· ≤ ·)) (i : Nat) (hi : i < xs.length) :
    i < bisectRight xs x ↔ ((xs[i] : Nat) : Int) ≤ x := by
  unfold bisectRight
  induction xs generalizing i with
  | nil => simp at hi
  | cons a as ih =>
    rw [List.pairwise_cons] at hs
    simp only [List.takeWhile_cons]
    by_cases ha : (a : Int) ≤ x
    · simp only [ha, decide_true, if_true, List.length_cons]
      cases i with
      | zero => simp [ha]
      | succ i =>
        simp only [List.getElem_cons_succ]
        have := ih hs.2 i (by simpa using hi)
        omega
    · simp only [ha, decide_false, Bool.false_eq_true, if_false, List.length_nil, Nat.not_lt_zero, false_iff]
      cases i with
      | zero => simpa using ha
      | succ i =>
        simp only [List.getElem_cons_succ]
        have hi' : i < as.length := by simpa using hi
        have := hs.1 (as[i]'hi') (List.getElem_mem _)
        omega

/-- loop invariant of the binary search: `lo ≤ count ≤ hi`; it ends with `lo = count` -/
theorem bisectLoop_eq (xs : List Nat) (x : Int) (hs : xs.Pairwise (· ≤ ·)) :
    ∀ fuel lo hi, lo ≤ bisectRight xs x → bisectRight xs x ≤ hi → hi ≤ xs.length → hi - lo ≤ fuel →
      bisectLoop xs x fuel lo hi = bisectRight xs x := by
  intro fuel
  induction fuel with
  | zero => intro lo hi h1 h2 _ h4; simp only [bisectLoop]; omega
  | succ fuel ih =>
    intro lo hi h1 h2 h3 h4
    simp only [bisectLoop]
    by_cases hlt : lo < hi
    · simp only [hlt, if_true]
      have hm : (lo + hi) / 2 < xs.length := by omega
      have hget : xs.getD ((lo + hi) / 2) 0 = xs[(lo + hi) / 2] := by
        simp [List.getD, List.getElem?_eq_getElem hm]
      have key := bisectRight_lt_iff xs x hs _ hm
      rw [hget]
      by_cases hx : x < ((xs[(lo + hi) / 2] : Nat) : Int)
      · simp only [hx, if_true]
        apply ih
        · exact h1
        · have : ¬ ((lo + hi) / 2 < bisectRight xs x) := fun h => by have := key.mp h; omega
          omega
        · omega
        · omega
      · simp only [hx, if_false]
        apply ih
        · have : (lo + hi) / 2 < bisectRight xs x := key.mpr (by omega)
          omega
        · exact h2
        · exact h3
        · omega
    · simp only [hlt, if_false]; omega

/-- **`bisect.bisect_right` as CPython computes it = the number of elements `≤ x`**, for every non-decreasing list -/
theorem bisectRightBin_eq_count (xs : List Nat) (x : Int) (hs : xs.Pairwise (· ≤ ·)) :
    bisectRightBin xs x = bisectRight xs x :=
  bisectLoop_eq xs x hs xs.length 0 xs.length (Nat.zero_le _) (bisectRight_le_length xs x) (Nat.le_refl _) (by omega)

theorem bisect_spec (sizes : List Nat) (t idx : Nat) (h1 : t ≤ idx) (h2 : idx < t + sizes.sum) :
    bisectRight (cumsumFrom t sizes) idx < sizes.length ∧
    t + (sizes.take (bisectRight (cumsumFrom t sizes) idx)).sum ≤ idx ∧
    idx < t + (sizes.take (bisectRight (cumsumFrom t sizes) idx + 1)).sum := by
  induction sizes generalizing t with
  | nil => simp at h2; omega
  | cons l ls ih =>
    unfold bisectRight at *
    simp only [cumsumFrom, List.takeWhile_cons]
    by_cases hl : ((l + t : Nat) : Int) ≤ (idx : Int)
    · simp only [hl, decide_true, if_true, List.length_cons]
      have := ih (t + l) (by omega) (by simp at h2; omega)
      simp only [List.take_succ_cons, List.sum_cons]
      omega
    · simp only [hl, decide_false]
      simp; omega

theorem takeWhile_of_all {α} (p : α → Bool) (l : List α) (h : ∀ v ∈ l, p v = true) : l.takeWhile p = l := by
  induction l with
  | nil => rfl
  | cons x xs ih =>
    simp only [List.takeWhile_cons, h x (by simp), if_true]
    rw [ih (fun v hv => h v (by simp [hv]))]

theorem bisect_high (sizes : List Nat) (t : Nat) (x : Int) (h : ((t + sizes.sum : Nat) : Int) ≤ x) :
    bisectRight (cumsumFrom t sizes) x = sizes.length := by
  unfold bisectRight
  rw [takeWhile_of_all, cumsumFrom_length]
  intro v hv
  have := (cumsumFrom_sorted t sizes).2 v hv
  simp; omega

theorem locate_len (sizes : List Nat) : ((cumsum sizes).getLast?.getD 0 : Nat) = sizes.sum := by
  have := cumsumFrom_getLast 0 sizes
  simpa [cumsum] using this

/-- **`ConcatDataset.__getitem__(idx)` for `0 ≤ idx < len`** selects member `d` and local index `j`
with `j < sizes[d]` and `idx = sizes[0] + … + sizes[d-1] + j`. -/
theorem concat_locate_spec (sizes : List Nat) (idx : Nat) (h : idx < sizes.sum) :
    ∃ d j, locate sizes idx = .ok (d, j) ∧ ∃ hd : d < sizes.length, j < sizes[d] ∧
      idx = (sizes.take d).sum + j := by
  obtain ⟨b1, b2, b3⟩ := bisect_spec sizes 0 idx (by omega) (by omega)
  have hnn : ¬ ((idx : Int) < 0) := by omega
  have hbin : bisectRightBin (cumsum sizes) idx = bisectRight (cumsum sizes) idx :=
    bisectRightBin_eq_count _ _ (cumsumFrom_sorted 0 sizes).1
  refine ⟨bisectRight (cumsum sizes) idx, idx - (sizes.take (bisectRight (cumsum sizes) idx)).sum, ?_, b1, ?_, ?_⟩
  · unfold locate
    simp only [hnn, false_and, if_false, hbin]
    simp only [cumsum] at *
    simp only [b1, if_true]
    congr 2
    unfold concatSampleIdx
    by_cases hd : bisectRight (cumsumFrom 0 sizes) ↑idx = 0
    · simp [hd]
    · have hd' : ¬ ((bisectRight (cumsumFrom 0 sizes) ↑idx : Nat) : Int) = 0 := by omega
      simp only [hd', if_false]
      rw [cumsumFrom_getElem?]
      have : bisectRight (cumsumFrom 0 sizes) ↑idx - 1 < sizes.length := by omega
      simp only [this, if_true, Option.getD_some]
      have e : bisectRight (cumsumFrom 0 sizes) ↑idx - 1 + 1 = bisectRight (cumsumFrom 0 sizes) ↑idx := by omega
      rw [e]; omega
  · simp only [cumsum] at *
    rw [List.take_add_one, List.sum_append] at b3
    simp [List.getElem?_eq_getElem b1] at b3
    omega
  · simp only [cumsum] at *; omega

/-- the decomposition is unique -/
theorem concat_locate_unique (sizes : List Nat) (d d' j j' : Nat) (hd : d < sizes.length) (hd' : d' < sizes.length)
    (hj : j < sizes[d]) (hj' : j' < sizes[d']) (h : (sizes.take d).sum + j = (sizes.take d').sum + j') :
    d = d' ∧ j = j' := by
  have key : ∀ a b (hb : b < sizes.length) (hab : a < b), (sizes.take a).sum + sizes[a]'(by omega) ≤ (sizes.take b).sum := by
    intro a b hb hab
    have h1 : (sizes.take (a + 1)).sum ≤ (sizes.take b).sum := by
      have : sizes.take (a + 1) = (sizes.take b).take (a + 1) := by
        rw [List.take_take]; congr 1; omega
      rw [this]
      have := List.take_append_drop (a + 1) (sizes.take b)
      calc ((sizes.take b).take (a + 1)).sum ≤ ((sizes.take b).take (a + 1)).sum + ((sizes.take b).drop (a + 1)).sum := by omega
        _ = (sizes.take b).sum := by rw [← List.sum_append, this]
    rw [List.take_add_one, List.sum_append] at h1
    simp [List.getElem?_eq_getElem (show a < sizes.length by omega)] at h1
    exact h1
  rcases Nat.lt_trichotomy d d' with hlt | heq | hgt
  · have := key d d' hd' hlt; omega
  · subst heq; omega
  · have := key d' d hd hgt; omega

/-- **negative indices**: `-len ≤ idx < 0` behaves as `len + idx`; anything below is rejected with
`ValueError`, anything at or above `len` with `IndexError`. -/
theorem concat_negative (sizes : List Nat) (idx : Int) (h0 : idx < 0) (h1 : -(sizes.sum : Int) ≤ idx) :
    locate sizes idx = locate sizes ((sizes.sum : Int) + idx) := by
  have hnn : ¬ ((sizes.sum : Int) + idx < 0) := by omega
  unfold locate
  simp only [locate_len, concatNegReject, concatNegIdx, h0, hnn, true_and, false_and, if_true, if_false,
    decide_eq_true_eq]
  have : ¬ (-idx > (sizes.sum : Int)) := by omega
  simp only [this, if_false]

theorem concat_rejects_below (sizes : List Nat) (idx : Int) (h : idx < -(sizes.sum : Int)) :
    locate sizes idx = .error .valueError := by
  unfold locate
  have h0 : idx < 0 := by omega
  have : -idx > (sizes.sum : Int) := by omega
  simp only [locate_len, concatNegReject, h0, this, decide_true, and_self, if_true]

theorem concat_rejects_above (sizes : List Nat) (idx : Int) (h : (sizes.sum : Int) ≤ idx) :
    locate sizes idx = .error .indexError := by
  unfold locate
  have h0 : ¬ idx < 0 := by omega
  have hbin : bisectRightBin (cumsum sizes) idx = bisectRight (cumsum sizes) idx :=
    bisectRightBin_eq_count _ _ (cumsumFrom_sorted 0 sizes).1
  have hhigh : bisectRight (cumsum sizes) idx = sizes.length := bisect_high sizes 0 idx (by simpa using h)
  simp only [h0, false_and, if_false, hbin, hhigh]
  simp


/-- `x in range(a, b, st)` for `st > 0` is the arithmetic test Python performs -/
theorem mem_pyRange_pos (a b st x : Int) (hst : 0 < st) :
    x ∈ pyRange a b st ↔ a ≤ x ∧ x < b ∧ (x - a) % st = 0 := by
  unfold pyRange
  rw [List.mem_map]
  constructor
  · rintro ⟨k, hk, rfl⟩
    rw [List.mem_range] at hk
    have := rangeLen_pos hst hk
    refine ⟨this.1, this.2, ?_⟩
    rw [show a + (k : Int) * st - a = (k : Int) * st by omega]
    exact Int.mul_emod_left _ _
  · rintro ⟨h1, h2, h3⟩
    have hd : st ∣ x - a := Int.dvd_of_emod_eq_zero h3
    obtain ⟨q, hq⟩ := hd
    have hq0 : 0 ≤ q := by
      rcases Int.lt_or_le q 0 with h | h
      · have : st * q < 0 := Int.mul_neg_of_pos_of_neg hst h
        omega
      · exact h
    refine ⟨q.toNat, ?_, ?_⟩
    · rw [List.mem_range]
      unfold rangeLen
      have hab : a < b := by omega
      simp only [hst, hab, if_true]
      have : q ≤ (b - a - 1) / st := by
        apply Int.le_ediv_of_mul_le hst
        rw [Int.mul_comm]; omega
      omega
    · rw [Int.toNat_of_nonneg hq0, Int.mul_comm]; omega

theorem mem_pyRange_neg (a b st x : Int) (hst : st < 0) :
    x ∈ pyRange a b st ↔ b < x ∧ x ≤ a ∧ (a - x) % (-st) = 0 := by
  unfold pyRange
  rw [List.mem_map]
  constructor
  · rintro ⟨k, hk, rfl⟩
    rw [List.mem_range] at hk
    have := rangeLen_neg hst hk
    refine ⟨this.1, this.2, ?_⟩
    rw [show a - (a + (k : Int) * st) = (k : Int) * (-st) by rw [Int.mul_neg]; omega]
    exact Int.mul_emod_left _ _
  · rintro ⟨h1, h2, h3⟩
    have hs : 0 < -st := by omega
    have hd : -st ∣ a - x := Int.dvd_of_emod_eq_zero h3
    obtain ⟨q, hq⟩ := hd
    have hq0 : 0 ≤ q := by
      rcases Int.lt_or_le q 0 with h | h
      · have : -st * q < 0 := Int.mul_neg_of_pos_of_neg hs h
        omega
      · exact h
    refine ⟨q.toNat, ?_, ?_⟩
    · rw [List.mem_range]
      unfold rangeLen
      have h0 : ¬ (0 < st) := by omega
      have hab : b < a := by omega
      simp only [h0, hst, hab, if_true, if_false]
      have : q ≤ (a - b - 1) / (-st) := by
        apply Int.le_ediv_of_mul_le hs
        rw [Int.mul_comm]; omega
      omega
    · rw [Int.toNat_of_nonneg hq0]
      have : q * st = -(-st * q) := by rw [Int.neg_mul, Int.neg_neg, Int.mul_comm]
      omega


/-! ### sorting the directory listing -/
theorem insertSorted_perm {φ : Type} (le : φ → φ → Bool) (x : φ) (l : List φ) :
    (insertSorted le x l).Perm (x :: l) := by
  induction l with
  | nil => exact List.Perm.refl _
  | cons y ys ih =>
    unfold insertSorted
    split
    · exact List.Perm.refl _
    · exact ((List.Perm.cons y ih).trans (List.Perm.swap x y ys))

theorem sortFiles_perm {φ : Type} (le : φ → φ → Bool) (l : List φ) : (sortFiles le l).Perm l := by
  induction l with
  | nil => exact List.Perm.refl _
  | cons x xs ih => exact (insertSorted_perm le x _).trans (List.Perm.cons x ih)

theorem insertSorted_sorted {φ : Type} (le : φ → φ → Bool) (htot : ∀ a b, le a b = true ∨ le b a = true)
    (htr : ∀ a b c, le a b = true → le b c = true → le a c = true) (x : φ) (l : List φ)
    (hl : l.Pairwise (fun a b => le a b = true)) : (insertSorted le x l).Pairwise (fun a b => le a b = true) := by
  induction l with
  | nil => simp [insertSorted]
  | cons y ys ih =>
    unfold insertSorted
    rw [List.pairwise_cons] at hl
    split
    · rename_i hxy
      rw [List.pairwise_cons]
      refine ⟨?_, List.pairwise_cons.mpr hl⟩
      intro b hb
      rcases List.mem_cons.mp hb with rfl | hb
      · exact hxy
      · exact htr _ _ _ hxy (hl.1 b hb)
    · rename_i hxy
      have hyx : le y x = true := by rcases htot x y with h | h; exact absurd h hxy; exact h
      rw [List.pairwise_cons]
      refine ⟨?_, ih hl.2⟩
      intro b hb
      have := (insertSorted_perm le x ys).mem_iff.mp hb
      rcases List.mem_cons.mp this with rfl | hb
      · exact hyx
      · exact hl.1 b hb

theorem sortFiles_sorted {φ : Type} (le : φ → φ → Bool) (htot : ∀ a b, le a b = true ∨ le b a = true)
    (htr : ∀ a b c, le a b = true → le b c = true → le a c = true) (l : List φ) :
    (sortFiles le l).Pairwise (fun a b => le a b = true) := by
  induction l with
  | nil => simp [sortFiles]
  | cons x xs ih => exact insertSorted_sorted le htot htr x _ ih

/-- sorting makes the result independent of the order in which the directory is listed -/
theorem sortFiles_eq_of_perm {φ : Type} (le : φ → φ → Bool) (htot : ∀ a b, le a b = true ∨ le b a = true)
    (htr : ∀ a b c, le a b = true → le b c = true → le a c = true)
    (hanti : ∀ a b, le a b = true → le b a = true → a = b) (l l' : List φ) (h : l.Perm l') :
    sortFiles le l = sortFiles le l' :=
  List.Perm.eq_of_pairwise (le := fun a b => le a b = true) (fun a b _ _ => hanti a b)
    (sortFiles_sorted le htot htr l) (sortFiles_sorted le htot htr l')
    ((sortFiles_perm le l).trans (h.trans (sortFiles_perm le l').symm))

/-! ### CMRxRecon index map -/
theorem cmrPairs_length (a b : Nat) : (cmrPairs a b).length = a * b := by
  unfold cmrPairs
  induction a with
  | zero => simp
  | succ a ih =>
    rw [List.range_succ, List.flatMap_append, List.length_append, ih]
    simp [Nat.succ_mul]

/-- the `enumerate` dictionary maps `s` to `(s // b, s % b)` (row-major) -/
theorem cmrPairs_getElem? (a b s : Nat) (h : s < a * b) : (cmrPairs a b)[s]? = some (s / b, s % b) := by
  unfold cmrPairs
  induction a generalizing s with
  | zero => simp at h
  | succ a ih =>
    have hb : 0 < b := by
      rcases Nat.eq_zero_or_pos b with h0 | h0
      · subst h0; simp at h
      · exact h0
    rw [List.range_succ, List.flatMap_append]
    have hl : ((List.range a).flatMap fun k => (List.range b).map fun l => (k, l)).length = a * b :=
      cmrPairs_length a b
    by_cases hs : s < a * b
    · rw [List.getElem?_append_left (by rw [hl]; exact hs)]
      exact ih s hs
    · rw [List.getElem?_append_right (by rw [hl]; omega), hl]
      have hlt : s - a * b < b := by rw [Nat.succ_mul] at h; omega
      simp only [List.flatMap_cons, List.flatMap_nil, List.append_nil, List.getElem?_map,
        List.getElem?_range hlt, Option.map_some]
      obtain ⟨r, hr, hrb⟩ : ∃ r, s = b * a + r ∧ r < b := ⟨s - a * b, by rw [Nat.mul_comm b a]; omega, hlt⟩
      have e : s - a * b = r := by rw [hr, Nat.mul_comm b a]; omega
      rw [e, hr, Nat.mul_add_div hb, Nat.mul_add_mod, Nat.div_eq_of_lt hrb, Nat.mod_eq_of_lt hrb]
      simp


theorem mem_dedupFirst {φ : Type} [DecidableEq φ] (l : List φ) (x : φ) : x ∈ dedupFirst l ↔ x ∈ l := by
  induction l with
  | nil => simp [dedupFirst]
  | cons y ys ih =>
    simp only [dedupFirst, List.mem_cons, List.mem_filter, ih, decide_eq_true_eq]
    by_cases h : x = y <;> simp [h]

theorem dedupFirst_nodup {φ : Type} [DecidableEq φ] (l : List φ) : (dedupFirst l).Nodup := by
  induction l with
  | nil => simp [dedupFirst]
  | cons y ys ih =>
    simp only [dedupFirst, List.nodup_cons, List.mem_filter, decide_eq_true_eq]
    exact ⟨fun h => h.2 rfl, ih.sublist List.filter_sublist⟩

/-- a list without repetitions is left alone -/
theorem dedupFirst_of_nodup {φ : Type} [DecidableEq φ] (l : List φ) (h : l.Nodup) : dedupFirst l = l := by
  induction l with
  | nil => rfl
  | cons y ys ih =>
    rw [List.nodup_cons] at h
    simp only [dedupFirst, ih h.2]
    congr 1
    rw [List.filter_eq_self]
    intro a ha
    simp only [decide_eq_true_eq]
    intro e; subst e; exact h.1 ha

theorem readable_map_fst {φ : Type} (fs : List φ) (nOf : φ → Option Nat) :
    (readable (fs.map fun f => (f, nOf f))).map (·.1) = fs.filter fun f => (nOf f).isSome := by
  induction fs with
  | nil => rfl
  | cons f r ih =>
    cases h : nOf f <;> simp [readable, h] at ih ⊢ <;> exact ih


end DirectVerif.Dataset
