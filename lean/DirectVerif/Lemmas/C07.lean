import DirectVerif.Model.MaskBudget
import Mathlib.Algebra.Order.Floor.Ring
import Mathlib.Data.Rat.Floor
import Mathlib.Tactic.Linarith
import Mathlib.Tactic.FieldSimp
import Mathlib.Tactic.Ring
/-!
# Helper lemmas for C07: half-even rounding on ℚ, counting in boolean lists
-/
namespace DirectVerif.MaskBudget

theorem floor_eq (q : ℚ) : q.floor = ⌊q⌋ := rfl
theorem ceil_eq (q : ℚ) : q.ceil = ⌈q⌉ := by
  rw [Rat.ceil_eq_neg_floor_neg, floor_eq, Int.floor_neg, neg_neg]
theorem floor_le' (q : ℚ) : (q.floor : ℚ) ≤ q := by rw [floor_eq]; exact Int.floor_le q
theorem lt_floor' (q : ℚ) : q < (q.floor : ℚ) + 1 := by rw [floor_eq]; exact Int.lt_floor_add_one q

theorem absQ_eq (x : ℚ) : absQ x = |x| := by
  unfold absQ
  split_ifs with h
  · exact (abs_of_neg h).symm
  · exact (abs_of_nonneg (not_lt.mp h)).symm

/-- half-even rounding moves by at most one half -/
theorem rnd_spec (q : ℚ) : |(roundHalfEven q : ℚ) - q| ≤ 1 / 2 := by
  have h1 := floor_le' q
  have h2 := lt_floor' q
  unfold roundHalfEven
  split_ifs with a b c
  · rw [abs_le]; constructor <;> linarith
  · push_cast; rw [abs_le]; constructor <;> linarith
  · rw [abs_le]; constructor <;> linarith
  · push_cast; rw [abs_le]; constructor <;> linarith

theorem rnd_lower (q : ℚ) : q - 1 / 2 ≤ (roundHalfEven q : ℚ) := by
  have := abs_le.mp (rnd_spec q); linarith [this.1]

theorem rnd_upper (q : ℚ) : (roundHalfEven q : ℚ) ≤ q + 1 / 2 := by
  have := abs_le.mp (rnd_spec q); linarith [this.2]

/-- it is the floor or the floor plus one -/
theorem rnd_floor_or (q : ℚ) : roundHalfEven q = q.floor ∨ roundHalfEven q = q.floor + 1 := by
  unfold roundHalfEven
  split_ifs <;> simp

/-- integers are fixed -/
theorem rnd_int (z : ℤ) : roundHalfEven (z : ℚ) = z := by
  have hf : ((z : ℚ)).floor = z := by rw [floor_eq]; exact Int.floor_intCast z
  unfold roundHalfEven
  rw [hf]
  norm_num

/-- the request is negative exactly below `-1/2` -/
theorem rnd_neg_iff (q : ℚ) : roundHalfEven q < 0 ↔ q < -(1 / 2) := by
  constructor
  · intro h
    by_contra hq
    rw [not_lt] at hq
    -- q ≥ -1/2: floor ≥ -1
    have hfl : (-1 : ℤ) ≤ q.floor := by
      rw [floor_eq, Int.le_floor]; push_cast; linarith
    rcases rnd_floor_or q with e | e
    · -- result = floor ≤ -1 → floor = -1, then q - floor ≥ 1/2 so the first branch is excluded
      have hf : q.floor = -1 := by omega
      unfold roundHalfEven at h
      rw [hf] at h
      split_ifs at h with a b c
      · push_cast at a; linarith
      · omega
      · omega
      · omega
    · omega
  · intro h
    have hfl : q.floor ≤ -1 := by
      rw [floor_eq]
      have : ⌊q⌋ < 0 := by rw [Int.floor_lt]; push_cast; linarith
      omega
    have hf := lt_floor' q
    rcases rnd_floor_or q with e | e
    · omega
    · -- result = floor + 1 requires q - floor ≥ 1/2, i.e. floor ≤ q - 1/2 < -1, so floor ≤ -2
      by_cases h2 : q.floor ≤ -2
      · omega
      · have hfe : q.floor = -1 := by omega
        exfalso
        unfold roundHalfEven at e
        rw [hfe] at e
        split_ifs at e with a b c
        · omega
        · push_cast at a; linarith
        · push_cast at a; linarith
        · push_cast at a; linarith

/-! ### counting -/

theorem countTrue_set_new (m : List Bool) (i : Nat) (h : i < m.length) (hi : m.getD i true = false) :
    countTrue (m.set i true) = countTrue m + 1 := by
  unfold countTrue
  rw [List.countP_set h]
  have : m[i] = false := by
    rw [List.getD_eq_getElem?_getD, List.getElem?_eq_getElem h] at hi
    simpa using hi
  simp [this]

end DirectVerif.MaskBudget
