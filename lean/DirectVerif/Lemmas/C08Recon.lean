import DirectVerif.Lemmas.C08Sound
import DirectVerif.Lemmas.C08Consist
/-!
# C08 helper lemmas — `ComputeImage` commutes with a positive scalar normalisation

`reconVal_scale`: every reconstruction type is homogeneous of degree 1 in the k-space (sensitivity map fixed);
`safeDiv_scalar`: dividing by a one-entry, non-zero scaling factor is the scaling by its inverse.  Together: the
target of the pre/post pair — `ComputeImage(kfull) / s` — *is* the reconstruction of the normalised k-space.
-/
set_option linter.unusedSectionVars false
namespace DirectVerif.Pipeline
variable {K : Type} [Field K] [LinearOrder K] [IsStrictOrderedRing K]
variable {sqrt : K → K}
local notation "S" => fieldOps sqrt

theorem mapIdxAux_const (f : K → K) (n : Nat) (xs : List K) : mapIdxAux (fun _ a => f a) n xs = xs.map f := by
  induction xs generalizing n with
  | nil => rfl
  | cons a t ih => simp [mapIdxAux, ih]

/-- division by a scalar (one-entry) non-zero scaling factor is the scaling by its inverse -/
theorem safeDiv_scalar (X : Ext K) (m : Meta) (sf x : Val K) (s : K) (hsf : sf.data = [s]) (hs0 : s ≠ 0) :
    evalOp S X m .safeDiv [sf, x] = scaleV s⁻¹ x := by
  have hb : ∀ i, bget S sf.data x.stride i = s := by
    intro i; simp [bget, hsf, Nat.mod_one]
  simp only [evalOp, scaleV, Val.map, mapIdx]
  congr 1
  rw [mapIdxAux_congr (g := fun _ a => s⁻¹ * a) (by
    intro i a
    simp only [hb, fo_isZero, decide_eq_true_eq, hs0, if_false, fo_div]
    rw [div_eq_inv_mul]), mapIdxAux_const]

section
variable (hs : SqrtHom sqrt) {X : Ext K} (hX : ExtHom X) (m : Meta)
include hs hX

theorem op1_scale (op : Op) (hop : opDeg op [1] = .ok 1) (q : K) (hq : 0 < q) (v : Val K) :
    evalOp S X m op [scaleV q v] = scaleV q (evalOp S X m op [v]) := by
  have := evalOp_hom hs hX q hq m op [1] [v] 1 rfl hop
  simpa [zpow_one] using this

/-- **`ComputeImage` is homogeneous of degree 1 in the k-space**, for all six reconstruction types -/
theorem reconVal_scale (r : Recon) (q : K) (hq : 0 < q) (k smap : Val K) :
    reconVal S X m r (scaleV q k) smap = scaleV q (reconVal S X m r k smap) := by
  have hb := op1_scale hs hX m (.lin .bwd) rfl q hq k
  have hsense : ∀ img : Val K, evalOp S X m .senseCombine [smap, scaleV q img] = scaleV q (evalOp S X m .senseCombine [smap, img]) := by
    intro img
    have := evalOp_hom hs hX q hq m .senseCombine [0, 1] [smap, img] 1 rfl rfl
    simpa [zpow_one, zpow_zero] using this
  cases r <;> simp only [reconVal, hb]
  · exact op1_scale hs hX m .rss rfl q hq _
  · exact op1_scale hs hX m .sumCoils rfl q hq _
  · rw [op1_scale hs hX m .sumCoils rfl q hq _]; exact op1_scale hs hX m .modulus rfl q hq _
  · exact hsense _
  · rw [hsense]; exact op1_scale hs hX m .modulus rfl q hq _

/-- the target of the pre/post pair, `ComputeImage(kfull) / s`, is `ComputeImage(kfull / s)` for a positive
scalar scaling factor -/
theorem recon_normalise_comm (r : Recon) (sf k smap : Val K) (s : K) (hsf : sf.data = [s]) (hpos : 0 < s) :
    evalOp S X m .safeDiv [sf, reconVal S X m r k smap]
      = reconVal S X m r (evalOp S X m .safeDiv [sf, k]) smap := by
  rw [safeDiv_scalar X m sf _ s hsf hpos.ne', safeDiv_scalar X m sf k s hsf hpos.ne',
    reconVal_scale hs hX m r s⁻¹ (inv_pos.mpr hpos) k smap]

end
end DirectVerif.Pipeline
