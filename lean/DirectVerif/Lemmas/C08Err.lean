import DirectVerif.Lemmas.C08Sound
import DirectVerif.Model.PipelinePrePost
/-!
# C08 helper lemmas — the `IndexError` branch of the percentile scaling

`execE` refines `exec` (`execE_ok`, `execE_base`, `exec_ok_cases`); definedness of an instruction is invariant
under positive scaling of the store (`instrDefined_scale`: the coils kept by the percentile branch are those
that have a non-zero entry, and `q·a = 0 ↔ a = 0`); hence a well-typed program fails on the scaled
input exactly when it fails on the original one, with the same error (`execE_sound`).
-/
set_option linter.unusedSectionVars false
namespace DirectVerif.Pipeline

section generic
variable {K : Type} (S : Ops K) (X : Ext K) (m : Meta)

theorem execE_ok : ∀ (p : List Instr) (s s' : Store K), execE S X m p s = .ok s' → exec S X m p s = .ok s'
  | [], s, s', h => by simpa [execE, exec] using h
  | i :: is, s, s', h => by
    simp only [execE] at h
    split at h
    · cases hi : execInstr S X m i s with
      | error e => simp [hi] at h
      | ok s1 =>
        simp only [hi] at h
        simp only [exec, hi]
        exact execE_ok is s1 s' h
    · simp at h

theorem execE_base : ∀ (p : List Instr) (s : Store K) (e : Err), execE S X m p s = .error (.base e) →
    exec S X m p s = .error e
  | [], s, e, h => by simp [execE] at h
  | i :: is, s, e, h => by
    simp only [execE] at h
    split at h
    · cases hi : execInstr S X m i s with
      | error e1 =>
        simp only [hi, Except.error.injEq, ErrE.base.injEq] at h
        simp [exec, hi, h]
      | ok s1 =>
        simp only [hi] at h
        simp only [exec, hi]
        exact execE_base is s1 e h
    · simp at h

/-- a run that `exec` completes either completes under `execE` too, or hits the `IndexError` -/
theorem exec_ok_cases : ∀ (p : List Instr) (s s' : Store K), exec S X m p s = .ok s' →
    execE S X m p s = .ok s' ∨ ∃ k, execE S X m p s = .error (.indexError k)
  | [], s, s', h => by left; simpa [execE, exec] using h
  | i :: is, s, s', h => by
    simp only [exec] at h
    cases hi : execInstr S X m i s with
    | error e => simp [hi] at h
    | ok s1 =>
      simp only [hi] at h
      simp only [execE]
      split
      · simp only [hi]
        exact exec_ok_cases is s1 s' h
      · exact Or.inr ⟨_, rfl⟩

end generic

variable {K : Type} [Field K] [LinearOrder K] [IsStrictOrderedRing K]
variable (sqrt : K → K)
local notation "S" => fieldOps sqrt

theorem kthSelection_scale (q : K) (hq : 0 < q) (x : Val K) :
    kthSelection S (scaleV q x) = (kthSelection S x).map (q * ·) := by
  unfold kthSelection
  simp only [scaleV_data, scaleV_nc, List.length_map]
  exact nonzeroCoils_scale sqrt q hq _ _ _

/-- definedness does not depend on a positive scale of the store -/
theorem instrDefined_scale (c : K) (hc : 0 < c) (i : Instr) (e : TEnv) (s : Store K) (h : Agree e s) :
    instrDefined S i (scaleS c e s) = instrDefined S i s := by
  unfold instrDefined
  split
  · rename_i guards dst a
    have hg : guards.all (fun g => (scaleS c e s g).isSome) = guards.all (fun g => (s g).isSome) := by
      congr 1; funext g; exact scaleS_isSome c e s h g
    rw [hg]
    split
    · have hk := h a
      cases he : e a with
      | none =>
        cases hsk : s a with
        | some v => simp [he, hsk] at hk
        | none => simp [scaleS, he, hsk]
      | some d =>
        cases hsk : s a with
        | none => simp [scaleS, he, hsk]
        | some v =>
          have hq : 0 < c ^ d := zpow_pos hc d
          simp [scaleS, he, hsk, kthSelection_scale sqrt (c ^ d) hq v]
    · rfl
  · rfl

section exec
variable {sqrt}
variable (hs : SqrtHom sqrt) {X : Ext K} (hX : ExtHom X) (c : K) (hc : 0 < c) (m : Meta)
include hs hX hc

/-- a well-typed program: the refined run on the scaled store is the refined run on the store, mapped through
the scaling — same `IndexError` (raised for the same key) or the scaled result -/
theorem execE_sound (p : List Instr) (e e' : TEnv) (s : Store K) (h : Agree e s)
    (ht : typeProgram p e = .ok e') :
    execE S X m p (scaleS c e s) = (execE S X m p s).map (scaleS c e') := by
  induction p generalizing e s with
  | nil =>
    simp only [typeProgram, absProgram, Except.ok.injEq] at ht; subst ht
    rfl
  | cons i is ih =>
    simp only [typeProgram, absProgram] at ht
    cases hi : absInstr opDeg i e with
    | error er => simp [hi] at ht
    | ok e1 =>
      simp only [hi] at ht
      obtain ⟨s1, a1, a2, a3⟩ := execInstr_sound hs hX c hc m i e e1 s h hi
      simp only [execE, instrDefined_scale sqrt c hc i e s h, a1, a3]
      split
      · exact ih e1 s1 a2 ht
      · rfl

end exec
end DirectVerif.Pipeline
