import DirectVerif.Lemmas.C08Hom
/-!
# C08 helper lemmas — soundness of the degree rules

`evalOp_hom`: every primitive operation is homogeneous of the degree its rule `opDeg` claims, for every
positive scale `c` (this is `stage_sound` at the level of primitives); `execInstr_sound`,
`exec_sound`: the static environment computed by `typeProgram` describes exactly how the run on the
scaled input relates to the run on the original input.
-/
set_option linter.unusedSectionVars false
namespace DirectVerif.Pipeline
variable {K : Type} [Field K] [LinearOrder K] [IsStrictOrderedRing K]

/-- recorded assumption about the external operators (FFT-based crop / pad / rescale, backward operator,
rotations, flips, coil compression, Gaussian weighting): positively homogeneous of degree 1 -/
structure ExtHom (X : Ext K) : Prop where
  lin : ∀ (l : Lin) (m : Meta) (q : K) (v : Val K), 0 < q → X.lin l m (scaleV q v) = scaleV q (X.lin l m v)
  crop : ∀ (c : Bool) (sd : Option (List Nat)) (q : K) (v : Val K), 0 < q →
    X.crop c sd (scaleV q v) = scaleV q (X.crop c sd v)

variable (sqrt : K → K)
local notation "S" => fieldOps sqrt

theorem getD_map_scale (q : K) (xs : List K) (n : Nat) :
    (xs.map (q * ·)).getD n 0 = q * xs.getD n 0 := by
  rw [List.getD_eq_getElem?_getD, List.getD_eq_getElem?_getD, List.getElem?_map]
  cases xs[n]? <;> simp

section ops
variable {sqrt}
variable (hs : SqrtHom sqrt) {X : Ext K} (hX : ExtHom X) (c : K) (hc : 0 < c) (m : Meta)
include hs hX hc

theorem applyMask_hom (mk x : Val K) (q : K) :
    evalOp S X m .applyMask [mk, scaleV q x] = scaleV q (evalOp S X m .applyMask [mk, x]) := by
  obtain ⟨nc, ns, cplx, data⟩ := x
  cases cplx <;>
  · simp only [evalOp, scaleV, Val.map, mapIdx, mapIdxAux_map, map_mapIdxAux, Val.stride, Bool.false_eq_true, ↓reduceIte]
    congr 1
    apply mapIdxAux_congr
    intro i a
    split <;> simp

theorem applyPadding_hom (p x : Val K) (q : K) :
    evalOp S X m .applyPadding [p, scaleV q x] = scaleV q (evalOp S X m .applyPadding [p, x]) := by
  obtain ⟨nc, ns, cplx, data⟩ := x
  cases cplx <;>
  · simp only [evalOp, scaleV, Val.map, mapIdx, mapIdxAux_map, map_mapIdxAux, Val.stride, Bool.false_eq_true, ↓reduceIte]
    congr 1
    apply mapIdxAux_congr
    intro i a
    split <;> simp

theorem safeDiv_hom (y x : Val K) (p q : K) (hp : 0 < p) :
    evalOp S X m .safeDiv [scaleV p y, scaleV q x] = scaleV (q / p) (evalOp S X m .safeDiv [y, x]) := by
  obtain ⟨nc, ns, cplx, data⟩ := x
  cases cplx <;>
  · simp only [evalOp, scaleV, Val.map, mapIdx, mapIdxAux_map, map_mapIdxAux, Val.stride, bget_scale, Bool.false_eq_true, ↓reduceIte]
    congr 1
    apply mapIdxAux_congr
    intro i a
    simp only [fo_isZero, fo_zero, fo_div, mul_eq_zero, hp.ne', false_or, decide_eq_true_eq]
    split
    · simp
    · field_simp

theorem sumSlices_hom (x : Val K) (q : K) :
    evalOp S X m .sumSlices [scaleV q x] = scaleV q (evalOp S X m .sumSlices [x]) := by
  simp only [evalOp, scaleV, Val.map, sumBlocks_scale]

theorem copy_hom (x : Val K) (q : K) :
    evalOp S X m .copy [scaleV q x] = scaleV q (evalOp S X m .copy [x]) := rfl

theorem divUnsafe_hom (y x : Val K) (p q : K) (hp : 0 < p) :
    evalOp S X m .divUnsafe [scaleV p y, scaleV q x] = scaleV (q / p) (evalOp S X m .divUnsafe [y, x]) := by
  obtain ⟨nc, ns, cplx, data⟩ := x
  cases cplx <;>
  · simp only [evalOp, scaleV, Val.map, mapIdx, mapIdxAux_map, map_mapIdxAux, Val.stride, bget_scale, Bool.false_eq_true, ↓reduceIte]
    congr 1
    apply mapIdxAux_congr
    intro i a
    simp only [fo_div]
    field_simp

theorem threshold_hom (p : ThrPred) (hp : p.homogeneous = true) (x : Val K) (q : K) (hq : 0 < q) :
    evalOp S X m (.threshold p) [scaleV q x] = evalOp S X m (.threshold p) [x] := by
  simp only [evalOp, scaleV, Val.map, List.map_map, List.length_map, sumList_scale, fo_div, fo_ofNat]
  congr 1
  apply List.map_congr_left
  intro a _
  simp only [Function.comp]
  rw [mul_div_assoc, evalThr_scale sqrt X.eps q hq p hp]

theorem extMask_hom (src : MaskSrc) (seed : Option (List SeedField)) (fc : Bool) (x : Val K) (q : K) :
    evalOp S X m (.extMask src seed fc) [scaleV q x] = evalOp S X m (.extMask src seed fc) [x] := by
  simp only [evalOp, scaleV, Val.map, List.length_map]

theorem rss_hom (x : Val K) (q : K) (hq : 0 < q) :
    evalOp S X m .rss [scaleV q x] = scaleV q (evalOp S X m .rss [x]) := by
  obtain ⟨nc, ns, cplx, data⟩ := x
  simp only [evalOp, scaleV, Val.map]
  congr 1
  cases cplx
  · simp only [Bool.false_eq_true, if_false, List.map_map]
    have : (List.map ((fun a => (fieldOps sqrt).mul a a) ∘ fun x => q * x) data)
        = (data.map fun a => (fieldOps sqrt).mul a a).map (q * q * ·) := by
      simp only [List.map_map]; apply List.map_congr_left; intro a _; simp; ring
    rw [this, sumBlocks_scale, List.map_map]
    apply List.map_congr_left; intro a _; simp [hs q hq]
  · simp only [if_true, sqAbs_scale, sumBlocks_scale, List.map_map]
    apply List.map_congr_left; intro a _; simp [hs q hq]

theorem unitMap_hom (x : Val K) (q : K) :
    evalOp S X m .unitMap [scaleV q x] = evalOp S X m .unitMap [x] := by
  simp only [evalOp, scaleV, Val.map, mapIdx, mapIdxAux_map]

theorem kthModulus_hom (x : Val K) (q : K) (hq : 0 < q) :
    evalOp S X m .kthModulus [scaleV q x] = scaleV q (evalOp S X m .kthModulus [x]) := by
  simp only [evalOp, scaleV, Val.map, List.length_map, nonzeroCoils_scale sqrt q hq,
    modulusL_scale sqrt hs q hq, sortDesc_scale sqrt q hq, List.map_cons, List.map_nil, fo_zero,
    getD_map_scale]

theorem maxModulus_hom (x : Val K) (q : K) (hq : 0 < q) :
    evalOp S X m .maxModulus [scaleV q x] = scaleV q (evalOp S X m .maxModulus [x]) := by
  simp only [evalOp, scaleV, Val.map, modulusL_scale sqrt hs q hq, maxL_scale sqrt q hq, List.map_cons,
    List.map_nil]

theorem sumCoils_hom (x : Val K) (q : K) :
    evalOp S X m .sumCoils [scaleV q x] = scaleV q (evalOp S X m .sumCoils [x]) := by
  simp only [evalOp, scaleV, Val.map, sumBlocks_scale]

theorem modulus_hom (x : Val K) (q : K) (hq : 0 < q) :
    evalOp S X m .modulus [scaleV q x] = scaleV q (evalOp S X m .modulus [x]) := by
  simp only [evalOp, scaleV, Val.map, modulusL_scale sqrt hs q hq]

theorem senseCombine_hom (s x : Val K) (p q : K) :
    evalOp S X m .senseCombine [scaleV p s, scaleV q x] = scaleV (p * q) (evalOp S X m .senseCombine [s, x]) := by
  simp only [evalOp, scaleV, Val.map, conjMul_scale, sumBlocks_scale]

theorem padCoils_hom (x : Val K) (q : K) :
    evalOp S X m .padCoils [scaleV q x] = scaleV q (evalOp S X m .padCoils [x]) := by
  simp only [evalOp, scaleV, Val.map, List.length_map]
  split
  · rfl
  · simp

/-- **soundness of the degree rules** (`stage_sound` for the primitives): if the rule assigns degree
`d` to `op` applied to arguments of degrees `ds`, then scaling argument `i` by `c ^ dsᵢ` scales the
result by `c ^ d` — for every `c > 0`. -/
theorem evalOp_hom (op : Op) (ds : List Int) (vs : List (Val K)) (d : Int)
    (hlen : ds.length = vs.length) (h : opDeg op ds = .ok d) :
    evalOp S X m op (List.zipWith (fun d v => scaleV (c ^ d) v) ds vs) = scaleV (c ^ d) (evalOp S X m op vs) := by
  have pos : ∀ z : Int, 0 < c ^ z := fun z => zpow_pos hc z
  cases op with
  | lin l =>
    match ds, vs, hlen, h with
    | [x], [v], _, h =>
      simp only [opDeg, Except.ok.injEq] at h; subst h
      cases l <;> simp only [List.zipWith, evalOp] <;> first | exact hX.lin _ m _ v (pos _) | exact hX.crop _ _ _ v (pos _)
  | applyMask =>
    match ds, vs, hlen, h with
    | [a, x], [mk, v], _, h =>
      simp only [opDeg] at h
      split at h
      · rename_i ha; simp only [Except.ok.injEq] at h; subst h; subst ha
        simp only [List.zipWith, zpow_zero, scaleV_one]; exact applyMask_hom hs hX c hc m mk v _
      · exact absurd h (by simp)
  | applyPadding =>
    match ds, vs, hlen, h with
    | [a, x], [mk, v], _, h =>
      simp only [opDeg] at h
      split at h
      · rename_i ha; simp only [Except.ok.injEq] at h; subst h; subst ha
        simp only [List.zipWith, zpow_zero, scaleV_one]; exact applyPadding_hom hs hX c hc m mk v _
      · exact absurd h (by simp)
  | sumSlices =>
    match ds, vs, hlen, h with
    | [x], [v], _, h =>
      simp only [opDeg, Except.ok.injEq] at h; subst h
      simp only [List.zipWith]; exact sumSlices_hom hs hX c hc m v _
  | copy =>
    match ds, vs, hlen, h with
    | [x], [v], _, h =>
      simp only [opDeg, Except.ok.injEq] at h; subst h
      simp only [List.zipWith]; exact copy_hom hs hX c hc m v _
  | divUnsafe =>
    match ds, vs, hlen, h with
    | [y, x], [vy, vx], _, h =>
      simp only [opDeg, Except.ok.injEq] at h; subst h
      simp only [List.zipWith, zpow_sub₀ hc.ne']; exact divUnsafe_hom hs hX c hc m vy vx _ _ (pos _)
  | threshold p =>
    match ds, vs, hlen, h with
    | [x], [v], _, h =>
      simp only [opDeg] at h
      split at h
      · rename_i hp; simp only [Except.ok.injEq] at h; subst h
        simp only [List.zipWith, zpow_zero, scaleV_one]; exact threshold_hom hs hX c hc m p hp v _ (pos _)
      · exact absurd h (by simp)
  | extMask src seed fc =>
    match ds, vs, hlen, h with
    | [x], [v], _, h =>
      simp only [opDeg, Except.ok.injEq] at h; subst h
      simp only [List.zipWith, zpow_zero, scaleV_one]; exact extMask_hom hs hX c hc m src seed fc v _
  | rss =>
    match ds, vs, hlen, h with
    | [x], [v], _, h =>
      simp only [opDeg, Except.ok.injEq] at h; subst h
      simp only [List.zipWith]; exact rss_hom hs hX c hc m v _ (pos _)
  | safeDiv =>
    match ds, vs, hlen, h with
    | [y, x], [vy, vx], _, h =>
      simp only [opDeg, Except.ok.injEq] at h; subst h
      simp only [List.zipWith, zpow_sub₀ hc.ne']; exact safeDiv_hom hs hX c hc m vy vx _ _ (pos _)
  | unitMap =>
    match ds, vs, hlen, h with
    | [x], [v], _, h =>
      simp only [opDeg, Except.ok.injEq] at h; subst h
      simp only [List.zipWith, zpow_zero, scaleV_one]; exact unitMap_hom hs hX c hc m v _
  | kthModulus =>
    match ds, vs, hlen, h with
    | [x], [v], _, h =>
      simp only [opDeg, Except.ok.injEq] at h; subst h
      simp only [List.zipWith]; exact kthModulus_hom hs hX c hc m v _ (pos _)
  | maxModulus =>
    match ds, vs, hlen, h with
    | [x], [v], _, h =>
      simp only [opDeg, Except.ok.injEq] at h; subst h
      simp only [List.zipWith]; exact maxModulus_hom hs hX c hc m v _ (pos _)
  | constOne =>
    match ds, vs, hlen, h with
    | [x], [v], _, h =>
      simp only [opDeg, Except.ok.injEq] at h; subst h
      simp only [List.zipWith, zpow_zero, scaleV_one, evalOp]
  | sumCoils =>
    match ds, vs, hlen, h with
    | [x], [v], _, h =>
      simp only [opDeg, Except.ok.injEq] at h; subst h
      simp only [List.zipWith]; exact sumCoils_hom hs hX c hc m v _
  | modulus =>
    match ds, vs, hlen, h with
    | [x], [v], _, h =>
      simp only [opDeg, Except.ok.injEq] at h; subst h
      simp only [List.zipWith]; exact modulus_hom hs hX c hc m v _ (pos _)
  | senseCombine =>
    match ds, vs, hlen, h with
    | [s, x], [vs', vx], _, h =>
      simp only [opDeg, Except.ok.injEq] at h; subst h
      simp only [List.zipWith, zpow_add₀ hc.ne']; exact senseCombine_hom hs hX c hc m vs' vx _ _
  | padCoils =>
    match ds, vs, hlen, h with
    | [x], [v], _, h =>
      simp only [opDeg, Except.ok.injEq] at h; subst h
      simp only [List.zipWith]; exact padCoils_hom hs hX c hc m v _
  | split inp ty seed =>
    match ds, vs, hlen, h with
    | [a], [v], _, h =>
      simp only [opDeg] at h
      split at h
      · rename_i ha; simp only [Except.ok.injEq] at h; subst h; subst ha
        simp only [List.zipWith, zpow_zero, scaleV_one]
      · exact absurd h (by simp)
    | [a, b], [v, w], _, h =>
      simp only [opDeg] at h
      split at h
      · rename_i hab; simp only [Except.ok.injEq] at h; subst h
        simp only [Bool.and_eq_true, decide_eq_true_eq] at hab
        obtain ⟨ha, hb⟩ := hab; subst ha; subst hb
        simp only [List.zipWith, zpow_zero, scaleV_one]
      · exact absurd h (by simp)
  | espirit => exact absurd h (by cases ds <;> simp [opDeg])

end ops

/-- masking commutes with the safe division by a (broadcast) factor: `where(m, 0, x) / s = where(m, 0, x / s)` -/
theorem mapIdxAux_comp (f g : Nat → K → K) (n : Nat) (xs : List K) :
    mapIdxAux f n (mapIdxAux g n xs) = mapIdxAux (fun i a => f i (g i a)) n xs := by
  induction xs generalizing n with
  | nil => rfl
  | cons a t ih => simp [mapIdxAux, ih]

theorem safeDiv_applyMask_comm (X : Ext K) (m : Meta) (sf mk k : Val K) :
    evalOp S X m .safeDiv [sf, evalOp S X m .applyMask [mk, k]]
      = evalOp S X m .applyMask [mk, evalOp S X m .safeDiv [sf, k]] := by
  obtain ⟨nc, ns, cplx, data⟩ := k
  cases cplx <;>
  · simp only [evalOp, mapIdx, mapIdxAux_comp, Val.stride, Bool.false_eq_true, ↓reduceIte]
    congr 1
    apply mapIdxAux_congr
    intro i a
    simp only [fo_isZero, fo_zero, fo_div, decide_eq_true_eq]
    split <;> split <;> simp

/-- identity externals (what the exact correspondence runs use for the FFT-based operators) -/
def idExt : Ext K where
  lin := fun _ _ v => v
  crop := fun _ _ v => v
  mask := fun _ _ _ _ _ len => List.replicate (len / 2) true
  split := fun input _ _ ms => (ms.headD []).map fun b => b && input
  eps := 0
  kOf := fun _ => 1
  padCoilsTo := 0
  espirit := fun v => v

theorem idExt_hom : ExtHom (idExt (K := K)) := ⟨fun _ _ _ _ _ => rfl, fun _ _ _ _ _ => rfl⟩
theorem zeroSqrt_hom : SqrtHom (K := K) (fun _ => 0) := fun _ _ _ => by simp

/-! ## stores -/

/-- the store obtained from `s` by scaling the tensor under key `k` by `c ^ (e k)` -/
def scaleS (c : K) (e : TEnv) (s : Store K) : Store K := fun k =>
  match e k, s k with
  | some d, some v => some (scaleV (c ^ d) v)
  | _, _ => none

/-- the static environment tracks presence exactly -/
def Agree (e : TEnv) (s : Store K) : Prop := ∀ k, (e k).isSome = (s k).isSome

theorem scaleS_isSome (c : K) (e : TEnv) (s : Store K) (h : Agree e s) (k : Key) :
    (scaleS c e s k).isSome = (s k).isSome := by
  have := h k
  unfold scaleS
  cases he : e k <;> cases hs : s k <;> simp_all

theorem scaleS_set (c : K) (e : TEnv) (s : Store K) (k : Key) (d : Int) (v : Val K) :
    scaleS c (e.set k (some d)) (s.set k (some v)) = (scaleS c e s).set k (some (scaleV (c ^ d) v)) := by
  funext k'
  unfold scaleS AEnv.set Store.set
  by_cases hk : k' = k <;> simp [hk]

theorem scaleS_set_none (c : K) (e : TEnv) (s : Store K) (k : Key) :
    scaleS c (e.set k none) (s.set k none) = (scaleS c e s).set k none := by
  funext k'
  unfold scaleS AEnv.set Store.set
  by_cases hk : k' = k <;> simp [hk]

theorem Agree.set {e : TEnv} {s : Store K} (h : Agree e s) (k : Key) (d : Int) (v : Val K) :
    Agree (e.set k (some d)) (s.set k (some v)) := by
  intro k'; unfold AEnv.set Store.set; by_cases hk : k' = k <;> simp [hk, h k']

theorem Agree.set_none {e : TEnv} {s : Store K} (h : Agree e s) (k : Key) :
    Agree (e.set k none) (s.set k none) := by
  intro k'; unfold AEnv.set Store.set; by_cases hk : k' = k <;> simp [hk, h k']

theorem guards_agree {e : TEnv} {s : Store K} (h : Agree e s) (gs : List Key) :
    gs.all (fun g => (s g).isSome) = gs.all (fun g => (e g).isSome) := by
  induction gs with
  | nil => rfl
  | cons g t ih => simp [List.all_cons, ih, h g]

theorem getAll_sound (c : K) {e : TEnv} {s : Store K} (h : Agree e s) (args : List Key) (ts : List Int)
    (ht : getAllA e args = .ok ts) :
    ∃ vs, getAll s args = .ok vs ∧ ts.length = vs.length ∧
      getAll (scaleS c e s) args = .ok (List.zipWith (fun d v => scaleV (c ^ d) v) ts vs) := by
  induction args generalizing ts with
  | nil => simp only [getAllA, Except.ok.injEq] at ht; subst ht; exact ⟨[], rfl, rfl, rfl⟩
  | cons k ks ih =>
    simp only [getAllA] at ht
    cases hek : e k with
    | none => simp [hek] at ht
    | some d =>
      simp only [hek] at ht
      cases hrest : getAllA e ks with
      | error er => simp [hrest] at ht
      | ok ts' =>
        simp only [hrest, Except.ok.injEq] at ht; subst ht
        obtain ⟨vs, h1, h2, h3⟩ := ih ts' hrest
        have hk := h k
        cases hsk : s k with
        | none => simp [hek, hsk] at hk
        | some v =>
          refine ⟨v :: vs, ?_, ?_, ?_⟩
          · simp [getAll, hsk, h1]
          · simp [h2]
          · simp [getAll, scaleS, hek, hsk, h3]

section exec
variable {sqrt}
variable (hs : SqrtHom sqrt) {X : Ext K} (hX : ExtHom X) (c : K) (hc : 0 < c) (m : Meta)
include hs hX hc

/-- one instruction: a well-typed instruction never fails, keeps the presence invariant, and maps the
scaled store to the scaled result -/
theorem execInstr_sound (i : Instr) (e e' : TEnv) (s : Store K) (h : Agree e s)
    (ht : typeInstr i e = .ok e') :
    ∃ s', execInstr S X m i s = .ok s' ∧ Agree e' s' ∧
      execInstr S X m i (scaleS c e s) = .ok (scaleS c e' s') := by
  cases i with
  | assign gs dst op args =>
    simp only [typeInstr, absInstr] at ht
    simp only [execInstr]
    have hg1 := guards_agree h gs
    have hg2 : gs.all (fun g => (scaleS c e s g).isSome) = gs.all (fun g => (e g).isSome) := by
      rw [← hg1]; congr 1; funext g; exact scaleS_isSome c e s h g
    rw [hg1, hg2]
    by_cases hgs : gs.all (fun g => (e g).isSome) = true
    · simp only [hgs, if_true] at ht ⊢
      cases hta : getAllA e args with
      | error er => simp [hta] at ht
      | ok ts =>
        simp only [hta] at ht
        cases hop : opDeg op ts with
        | error er => simp [hop] at ht
        | ok d =>
          simp only [hop, Except.ok.injEq] at ht; subst ht
          obtain ⟨vs, h1, h2, h3⟩ := getAll_sound c h args ts hta
          refine ⟨s.set dst (some (evalOp S X m op vs)), ?_, h.set dst d _, ?_⟩
          · simp [h1]
          · simp only [h3, evalOp_hom hs hX c hc m op ts vs d h2 hop, scaleS_set]
    · simp only [hgs, if_false, Bool.false_eq_true] at ht ⊢
      simp only [Except.ok.injEq] at ht; subst ht
      exact ⟨s, rfl, h, rfl⟩
  | delete k =>
    simp only [typeInstr, absInstr, Except.ok.injEq] at ht; subst ht
    exact ⟨s.set k none, rfl, h.set_none k, by simp [execInstr, scaleS_set_none]⟩
  | move src dst =>
    simp only [typeInstr, absInstr] at ht
    have hk := h src
    cases he : e src with
    | none =>
      simp only [he, Except.ok.injEq] at ht; subst ht
      cases hsk : s src with
      | some v => simp [he, hsk] at hk
      | none =>
        refine ⟨s, by simp [execInstr, hsk], h, ?_⟩
        simp [execInstr, scaleS, he, hsk]
    | some d =>
      simp only [he, Except.ok.injEq] at ht; subst ht
      cases hsk : s src with
      | none => simp [he, hsk] at hk
      | some v =>
        refine ⟨(s.set src none).set dst (some v), by simp [execInstr, hsk], (h.set_none src).set dst d v, ?_⟩
        have : scaleS c e s src = some (scaleV (c ^ d) v) := by simp [scaleS, he, hsk]
        simp only [execInstr, this, scaleS_set, scaleS_set_none]
  | require k =>
    simp only [typeInstr, absInstr] at ht
    have hk := h k
    by_cases hek : (e k).isSome = true
    · simp only [hek, if_true, Except.ok.injEq] at ht; subst ht
      refine ⟨s, ?_, h, ?_⟩
      · simp [execInstr, ← hk, hek]
      · simp [execInstr, scaleS_isSome c e s h k, ← hk, hek]
    · simp [hek] at ht

/-- whole programs -/
theorem exec_sound (p : List Instr) (e e' : TEnv) (s : Store K) (h : Agree e s)
    (ht : typeProgram p e = .ok e') :
    ∃ s', exec S X m p s = .ok s' ∧ Agree e' s' ∧ exec S X m p (scaleS c e s) = .ok (scaleS c e' s') := by
  induction p generalizing e s with
  | nil =>
    simp only [typeProgram, absProgram, Except.ok.injEq] at ht; subst ht
    exact ⟨s, rfl, h, rfl⟩
  | cons i is ih =>
    simp only [typeProgram, absProgram] at ht
    cases hi : absInstr opDeg i e with
    | error er => simp [hi] at ht
    | ok e1 =>
      simp only [hi] at ht
      obtain ⟨s1, a1, a2, a3⟩ := execInstr_sound hs hX c hc m i e e1 s h hi
      obtain ⟨s2, b1, b2, b3⟩ := ih e1 s1 a2 ht
      exact ⟨s2, by simp [exec, a1, b1], b2, by simp [exec, a3, b3]⟩

end exec
end DirectVerif.Pipeline
