import DirectVerif.Model.Ckpt
/-!
# What `load` restores — no Mathlib
-/
namespace DirectVerif.Ckpt.Bundle

theorem map_lookup_self (A B : Objs) (hk : B.map (·.1) = A.map (·.1)) (hn : (A.map (·.1)).Nodup) :
    B.map (fun kv => (kv.1, (A.lookup kv.1).getD kv.2)) = A := by
  induction A generalizing B with
  | nil => cases B with
    | nil => rfl
    | cons b B => simp at hk
  | cons a A ih =>
    cases B with
    | nil => simp at hk
    | cons b B =>
      simp only [List.map_cons, List.cons.injEq] at hk
      simp only [List.map_cons, List.nodup_cons] at hn
      obtain ⟨k, va⟩ := a
      obtain ⟨kb, vb⟩ := b
      simp only at hk
      obtain ⟨rfl, hk'⟩ := hk
      simp only [List.map_cons, List.lookup_cons_self, Option.getD_some, List.cons.injEq, true_and]
      rw [← ih B hk' hn.2]
      apply List.map_congr_left
      intro kv hkv
      have hne : kv.1 ≠ kb := by
        intro e
        apply hn.1
        rw [← hk', ← e]
        exact List.mem_map.mpr ⟨kv, hkv, rfl⟩
      have : (kv.1 == kb) = false := by simpa using hne
      rw [List.lookup_cons, this, ih B hk' hn.2]

end DirectVerif.Ckpt.Bundle
