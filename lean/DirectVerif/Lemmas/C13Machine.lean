import DirectVerif.Model.C13Machine
import DirectVerif.Lemmas.C13Misc
/-!
Helper lemmas for the multi-iterator machine of `BatchVolumeSampler` (C13).
-/
namespace DirectVerif.Sampler
open DirectVerif

/-- running the loop to the next suspension point yields the head of what the whole loop yields, and the
suspended generator will yield the rest -/
theorem loopHead_spec (b : BVS) (rest : List Nat) : ∀ (batch : List Nat) (next : Option Nat) (it : List Nat),
    (loopHead b.bs batch next it rest).1 = (iterLoop b.bs batch next it rest).1.head? ∧
      b.remaining (loopHead b.bs batch next it rest).2 = (iterLoop b.bs batch next it rest).1.tail := by
  induction rest with
  | nil =>
    intro batch next it
    simp only [loopHead, iterLoop]
    by_cases h : batch.length > 0
    · simp [h, BVS.remaining]
    · simp [h, BVS.remaining]
  | cons idx rest ih =>
    intro batch next it
    simp only [loopHead, iterLoop]
    by_cases h : yieldCond (batch ++ [idx]).length b.bs next idx = true
    · simp only [h, if_true, List.head?_cons, List.tail_cons, BVS.remaining, and_self]
    · simp only [h, if_false, Bool.false_eq_true]
      exact ih _ _ _

/-- `next(gen)` returns the head of what the generator would still yield; afterwards the tail remains -/
theorem resume_spec (b : BVS) (g : GenSt) :
    (b.resume g).1 = (b.remaining g).head? ∧ b.remaining (b.resume g).2 = (b.remaining g).tail := by
  cases g with
  | fresh => exact loopHead_spec b b.indices [] _ _
  | atYield idx next it rest => exact loopHead_spec b rest [] _ _
  | atTail => simp [BVS.resume, BVS.remaining]
  | done => simp [BVS.resume, BVS.remaining]

/-- no operation writes the object -/
theorem Machine.step_obj (m : Machine) (op : MOp) : (m.step op).1.obj = m.obj := by
  cases op with
  | iter => rfl
  | len => rfl
  | next h =>
    simp only [Machine.step]
    split <;> rfl
  | abandon h =>
    simp only [Machine.step]
    split <;> rfl

theorem Machine.exec_obj (m : Machine) (ops : List MOp) : (m.exec ops).obj = m.obj := by
  induction ops generalizing m with
  | nil => rfl
  | cons op ops ih => rw [Machine.exec, ih, Machine.step_obj]

/-- an operation that is neither `next h` nor `abandon h` leaves generator `h` as it is -/
theorem Machine.step_gens_other (m : Machine) (op : MOp) (h : Nat) (g : GenSt)
    (hg : m.gens[h]? = some (some g)) (h1 : op ≠ .next h) (h2 : op ≠ .abandon h) :
    (m.step op).1.gens[h]? = some (some g) := by
  have hlt : h < m.gens.length := by
    rcases Nat.lt_or_ge h m.gens.length with hl | hl
    · exact hl
    · rw [List.getElem?_eq_none hl] at hg; cases hg
  cases op with
  | iter => simp only [Machine.step]; rw [List.getElem?_append_left hlt]; exact hg
  | len => exact hg
  | next h' =>
    have hne : h' ≠ h := fun e => h1 (by rw [e])
    simp only [Machine.step]
    split
    · simp only [List.getElem?_set_ne hne]; exact hg
    · exact hg
  | abandon h' =>
    have hne : h' ≠ h := fun e => h2 (by rw [e])
    simp only [Machine.step]
    split
    · simp only [List.getElem?_set_ne hne]; exact hg
    · exact hg

theorem range_succ_map_eq {β} (k : Nat) (f : Nat → β) :
    (List.range (k + 1)).map f = f 0 :: (List.range k).map (fun n => f (n + 1)) := by
  rw [List.range_succ_eq_map, List.map_cons, List.map_map]
  rfl

/-- **Generator `h` is observed independently of everything else that happens on the object**: in any
continuation in which it is not abandoned, the `n`-th `next(it_h)` returns the `n`-th element of what it
still had to yield (`StopIteration` beyond the end), whatever other generators are created, advanced,
abandoned or `len()` is called in between. -/
theorem machine_pass_general (ops : List MOp) : ∀ (m : Machine) (h : Nat) (g : GenSt),
    m.gens[h]? = some (some g) → MOp.abandon h ∉ ops →
    nextOuts h ops (m.run ops) =
      (List.range (ops.count (.next h))).map fun n => MOut.ofOpt ((m.obj.remaining g)[n]?) := by
  induction ops with
  | nil => intro m h g _ _; rfl
  | cons op ops ih =>
    intro m h g hg hna
    have hna' : MOp.abandon h ∉ ops := fun hm => hna (List.mem_cons_of_mem _ hm)
    have hop2 : op ≠ .abandon h := fun e => hna (by rw [e]; exact List.mem_cons_self)
    by_cases hop : op = .next h
    · subst hop
      have hlt : h < m.gens.length := by
        rcases Nat.lt_or_ge h m.gens.length with hl | hl
        · exact hl
        · rw [List.getElem?_eq_none hl] at hg; cases hg
      have hstep : m.step (.next h) =
          ({ m with gens := m.gens.set h (some (m.obj.resume g).2) }, MOut.ofOpt (m.obj.resume g).1) := by
        simp only [Machine.step, hg]
      obtain ⟨r1, r2⟩ := resume_spec m.obj g
      have hg' : (m.step (.next h)).1.gens[h]? = some (some (m.obj.resume g).2) := by
        rw [hstep]; simp only [List.getElem?_set_self hlt]
      have hobj : (m.step (.next h)).1.obj = m.obj := Machine.step_obj _ _
      simp only [Machine.run, nextOuts, if_true, List.count_cons_self]
      rw [ih _ h _ hg' hna', hobj, r2, range_succ_map_eq]
      congr 1
      · rw [hstep, r1, List.head?_eq_getElem?]
      · apply List.map_congr_left
        intro n _
        rw [List.getElem?_tail]
    · have hg' := Machine.step_gens_other m op h g hg hop hop2
      have hobj : (m.step op).1.obj = m.obj := Machine.step_obj _ _
      have hc : (op :: ops).count (.next h) = ops.count (.next h) := by
        rw [List.count_cons]; simp [hop]
      simp only [Machine.run, nextOuts, hop, if_false]
      rw [ih _ h g hg' hna', hobj, hc]

/-- invariant of every reachable state: each live generator still has to yield a suffix of the one
pass `b.iterate` -/
def Machine.Inv (b : BVS) (m : Machine) : Prop :=
  m.obj = b ∧ ∀ (h : Nat) (g : GenSt), m.gens[h]? = some (some g) → ∃ n, b.remaining g = b.iterate.drop n

theorem Machine.inv_init (b : BVS) : Machine.Inv b (Machine.init b) := by
  refine ⟨rfl, ?_⟩
  intro h g hg
  simp [Machine.init] at hg

theorem Machine.inv_step (b : BVS) (m : Machine) (hm : Machine.Inv b m) (op : MOp) :
    Machine.Inv b (m.step op).1 := by
  obtain ⟨hobj, hgens⟩ := hm
  refine ⟨by rw [Machine.step_obj, hobj], ?_⟩
  intro h g hg
  cases op with
  | len => exact hgens h g hg
  | iter =>
    simp only [Machine.step] at hg
    by_cases hlt : h < m.gens.length
    · rw [List.getElem?_append_left hlt] at hg; exact hgens h g hg
    · rw [List.getElem?_append_right (by omega)] at hg
      by_cases h0 : h - m.gens.length = 0
      · rw [h0] at hg
        simp only [List.getElem?_cons_zero, Option.some.injEq] at hg
        subst hg
        exact ⟨0, by simp [BVS.remaining]⟩
      · rw [List.getElem?_eq_none (by simp; omega)] at hg; cases hg
  | next h' =>
    simp only [Machine.step] at hg
    split at hg
    · rename_i g' hg'
      by_cases hh : h' = h
      · subst hh
        have hlt : h' < m.gens.length := by
          rcases Nat.lt_or_ge h' m.gens.length with hl | hl
          · exact hl
          · rw [List.getElem?_eq_none hl] at hg'; cases hg'
        simp only [List.getElem?_set_self hlt, Option.some.injEq] at hg
        obtain ⟨n, hn⟩ := hgens h' g' hg'
        refine ⟨n + 1, ?_⟩
        rw [← hg, ← hobj, (resume_spec m.obj g').2, hobj, hn, List.tail_drop]
      · simp only [List.getElem?_set_ne hh] at hg
        exact hgens h g hg
    · exact hgens h g hg
  | abandon h' =>
    simp only [Machine.step] at hg
    split at hg
    · by_cases hh : h' = h
      · subst hh
        rename_i g' hg'
        have hlt : h' < m.gens.length := by
          rcases Nat.lt_or_ge h' m.gens.length with hl | hl
          · exact hl
          · rw [List.getElem?_eq_none hl] at hg'; cases hg'
        simp only [List.getElem?_set_self hlt] at hg
        cases hg
      · simp only [List.getElem?_set_ne hh] at hg
        exact hgens h g hg
    · exact hgens h g hg

theorem Machine.inv_exec (b : BVS) (m : Machine) (hm : Machine.Inv b m) (ops : List MOp) :
    Machine.Inv b (m.exec ops) := by
  induction ops generalizing m with
  | nil => exact hm
  | cons op ops ih => exact ih _ (Machine.inv_step b m hm op)

/-- every batch any generator ever returns, in any interleaving, is one of the batches of the single pass -/
theorem machine_batches_mem (b : BVS) (ops : List MOp) : ∀ (m : Machine), Machine.Inv b m →
    ∀ batch, MOut.batch batch ∈ m.run ops → batch ∈ b.iterate := by
  induction ops with
  | nil => intro m _ batch h; simp [Machine.run] at h
  | cons op ops ih =>
    intro m hm batch hmem
    simp only [Machine.run, List.mem_cons] at hmem
    cases hmem with
    | inr h => exact ih _ (Machine.inv_step b m hm op) batch h
    | inl h =>
      cases op with
      | iter => simp [Machine.step] at h
      | len => simp [Machine.step] at h
      | abandon h' =>
        simp only [Machine.step] at h
        split at h <;> cases h
      | next h' =>
        simp only [Machine.step] at h
        split at h
        · rename_i g hg
          obtain ⟨n, hn⟩ := hm.2 h' g hg
          have r1 := (resume_spec m.obj g).1
          rw [hm.1, hn] at r1
          simp only [hm.1, r1] at h
          cases hd : (List.drop n b.iterate).head? with
          | none => rw [hd] at h; simp [MOut.ofOpt] at h
          | some x =>
            rw [hd] at h
            simp only [MOut.ofOpt, MOut.batch.injEq] at h
            subst h
            exact List.mem_of_mem_drop (List.mem_of_mem_head? hd)
        · cases h

end DirectVerif.Sampler
