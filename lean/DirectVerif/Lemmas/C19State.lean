import DirectVerif.Model.DataConsistency
/-!
# C19 — call histories on one block instance (core Lean only)

The blocks are modelled as functions of their arguments.  A real instance could also read what earlier calls left on it.
`Stateful` makes that explicit; the translated table `Gen.C19.dc_state_writes` lists every write a call can make; when it is
empty (`Bridge.C19.dc_state_writes_ok`) the answer of a call after ANY history is the answer of a first call.
-/
namespace DirectVerif.DataConsistency
universe u v w
variable {σ : Type u} {ι : Type v} {ο : Type w}

theorem applyWrites_nil (eff : StateWrite → σ → ι → σ) (s : σ) (i : ι) : applyWrites eff [] s i = s := rfl

/-- a block that leaves nothing behind stays in its initial state -/
theorem Stateful.after_of_no_update (b : Stateful σ ι ο) (h : ∀ s i, b.upd s i = s) (s : σ) (hist : List ι) :
    b.after s hist = s := by
  induction hist generalizing s with
  | nil => rfl
  | cons a t ih => simp only [Stateful.after, List.foldl_cons, h] at ih ⊢; exact ih s

/-- **history independence**: for every block whose calls have exactly the effects listed in the table, if the table is
empty (and complete: `stateWritesOk`) then a call made after any history of earlier calls — same tensor objects with other
masks, other scalings, buffers refilled in place, alternating problems — answers what a first call answers. -/
theorem dc_history_independent (ws : List StateWrite) (reach : List String) (h : stateWritesOk ws reach = true)
    (out : σ → ι → ο) (eff : StateWrite → σ → ι → σ) (s0 : σ) (hist : List ι) (i : ι) :
    (Stateful.mk out (applyWrites eff ws)).call s0 hist i = out s0 i := by
  have hw : ws = [] := by
    unfold stateWritesOk at h
    cases ws with
    | nil => rfl
    | cons a t => simp at h
  subst hw
  unfold Stateful.call
  rw [Stateful.after_of_no_update _ (fun s i => applyWrites_nil eff s i)]

/-- two instances, interleaved: the other instance's calls do not matter either (they do not even share state) -/
theorem dc_instance_independent (ws : List StateWrite) (reach : List String) (h : stateWritesOk ws reach = true)
    (out : σ → ι → ο) (eff : StateWrite → σ → ι → σ) (s0 : σ) (h1 h2 : List ι) (i : ι) :
    (Stateful.mk out (applyWrites eff ws)).call s0 h1 i = (Stateful.mk out (applyWrites eff ws)).call s0 h2 i := by
  rw [dc_history_independent ws reach h, dc_history_independent ws reach h]

/-- the predicate is not vacuous: a block that memoises its data term under the identity of the k-space argument (seeded
regression C19-5) answers `5` instead of `0 = mask · data` when the same object comes back with another mask -/
theorem memo_on_identity_violates :
    memoBlock.call none [(1, 1, 5)] (1, 0, 5) ≠ memoBlock.out none (1, 0, 5) := by decide

/-- … while its first call, repeated calls with the same arguments, and calls with another object are all exact -/
theorem memo_on_identity_looks_fine :
    memoBlock.call none [] (1, 1, 5) = 5 ∧ memoBlock.call none [(1, 1, 5)] (1, 1, 5) = 5 ∧
      memoBlock.call none [(1, 1, 5)] (2, 0, 5) = 0 := by decide

example : stateWritesOk [] dcRequiredReach = true := by decide
example : stateWritesOk [⟨"MRILogLikelihood", "MRILogLikelihood._data_term", "self", "_kspace_ref", "assign"⟩]
    dcRequiredReach = false := by decide

end DirectVerif.DataConsistency
