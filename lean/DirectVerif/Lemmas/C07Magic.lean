import DirectVerif.Model.C07Magic
import DirectVerif.Lemmas.C07
import DirectVerif.Lemmas.C07Equi
import Mathlib.Tactic.Linarith
import Mathlib.Tactic.Ring
/-!
# Helper lemmas for C07 (Magic masks): entries of strided / flipped / shifted rows, counting combs
-/
set_option linter.unusedSimpArgs false
set_option linter.unnecessarySeqFocus false
namespace DirectVerif.MaskBudget

/-! ### counting over `range` -/

theorem countP_range_split (P : Nat → Bool) (a b : Nat) :
    (List.range (a + b)).countP P = (List.range a).countP P + (List.range b).countP (fun j => P (a + j)) := by
  rw [List.range_add, List.countP_append, List.countP_map]
  rfl

theorem countP_range_reverse (P : Nat → Bool) (n : Nat) :
    (List.range n).countP (fun i => P (n - 1 - i)) = (List.range n).countP P := by
  induction n with
  | zero => simp
  | succ n ih =>
    conv_lhs => rw [List.range_succ_eq_map, List.countP_cons, List.countP_map]
    conv_rhs => rw [List.range_succ, List.countP_append]
    have e : ((fun i => P (n + 1 - 1 - i)) ∘ Nat.succ) = fun i => P (n - 1 - i) := by
      funext i; simp only [Function.comp]; congr 1; omega
    rw [e, ih]
    simp only [List.countP_cons, List.countP_nil, Nat.add_sub_cancel, Nat.sub_zero]
    omega

theorem countP_range_congr (P Q : Nat → Bool) (n : Nat) (h : ∀ i, i < n → P i = Q i) :
    (List.range n).countP P = (List.range n).countP Q := by
  apply List.countP_congr
  intro i hi
  rw [h i (List.mem_range.mp hi)]

theorem countTrue_map_range (f : Nat → Bool) (n : Nat) :
    countTrue ((List.range n).map f) = (List.range n).countP f := by
  unfold countTrue
  rw [List.countP_map]
  apply List.countP_congr
  intro i _
  simp

/-- the comb predicate -/
def combAt (off step : Nat) (i : Nat) : Bool := decide (off ≤ i ∧ (i - off) % step = 0)

/-- a comb with start `off` and step `step ≥ 1` has `strideCount off step x` points below `x` -/
theorem countP_comb (off step : Nat) (x : Nat) :
    (List.range x).countP (combAt off step) = strideCount off step x := by
  induction x with
  | zero => simp [strideCount]
  | succ x ih =>
    rw [List.range_succ, List.countP_append, ih]
    simp only [List.countP_cons, List.countP_nil, combAt, decide_eq_true_eq, Nat.zero_add]
    unfold strideCount
    by_cases h1 : x + 1 ≤ off
    · have h2 : x ≤ off := by omega
      have h3 : ¬ (off ≤ x ∧ (x - off) % step = 0) := by omega
      rw [if_pos h1, if_pos h2, if_neg h3]
    · rw [if_neg h1]
      by_cases h2 : x ≤ off
      · -- x = off: the first point
        have hx : x = off := by omega
        subst hx
        simp
      · rw [if_neg h2]
        have hle : off ≤ x := by omega
        -- (x + 1 - off - 1) = (x - off - 1) + 1
        have e : x + 1 - off - 1 = (x - off - 1) + 1 := by omega
        rw [e, Nat.succ_div]
        have hd : (step ∣ x - off - 1 + 1) ↔ (x - off) % step = 0 := by
          rw [show x - off - 1 + 1 = x - off by omega]
          exact Nat.dvd_iff_mod_eq_zero
        by_cases hm : (x - off) % step = 0
        · rw [if_pos ⟨hle, hm⟩, if_pos (hd.mpr hm)]
        · rw [if_neg (fun h => hm h.2), if_neg (fun h => hm (hd.mp h))]

/-- `strideCount` is monotone -/
theorem strideCount_mono (off step a b : Nat) (h : a ≤ b) : strideCount off step a ≤ strideCount off step b := by
  unfold strideCount
  split_ifs with h1 h2 h2
  · exact Nat.le_refl _
  · exact Nat.zero_le _
  · omega
  · have : (a - off - 1) / step ≤ (b - off - 1) / step := Nat.div_le_div_right (by omega)
    omega

/-- a prefix `[0, a)` united with a predicate: `a + #(points of the predicate in [a, n))` -/
theorem countP_prefix_or (Q : Nat → Bool) (a n : Nat) (h : a ≤ n) :
    (List.range n).countP (fun i => decide (i < a) || Q i) =
      a + ((List.range n).countP Q - (List.range a).countP Q) := by
  obtain ⟨b, rfl⟩ := Nat.exists_eq_add_of_le h
  rw [countP_range_split, countP_range_split Q a b]
  have e1 : (List.range a).countP (fun i => decide (i < a) || Q i) = a := by
    rw [countP_range_congr _ (fun _ => true) a (by intro i hi; simp [hi])]
    simp
  have e2 : (List.range b).countP (fun j => decide (a + j < a) || Q (a + j)) = (List.range b).countP (fun j => Q (a + j)) := by
    apply countP_range_congr
    intro j _
    have : ¬ a + j < a := by omega
    simp [this]
  rw [e1, e2]
  omega

/-! ### entries of the rows -/

theorem length_strided (len off step : Nat) : (strided len off step).length = len := by simp [strided]

theorem getD_strided (len off step i : Nat) :
    (strided len off step).getD i false = (decide (i < len) && combAt off step i) := by
  unfold strided combAt
  by_cases h : i < len
  · simp [List.getD_eq_getElem?_getD, h]
  · simp [List.getD_eq_getElem?_getD, h]

theorem length_fftshift1 {α} (xs : List α) : (fftshift1 xs).length = xs.length := by
  unfold fftshift1
  simp only [List.length_append, List.length_drop, List.length_take]
  omega

theorem getD_fftshift1 {α} (xs : List α) (d : α) (i : Nat) (hi : i < xs.length) :
    (fftshift1 xs).getD i d =
      if i < xs.length / 2 then xs.getD (xs.length - xs.length / 2 + i) d else xs.getD (i - xs.length / 2) d := by
  unfold fftshift1
  simp only [List.getD_eq_getElem?_getD]
  have hl : (xs.drop (xs.length - xs.length / 2)).length = xs.length / 2 := by
    simp only [List.length_drop]; omega
  split_ifs with h
  · rw [List.getElem?_append_left (by omega), List.getElem?_drop]
  · rw [List.getElem?_append_right (by omega), hl, List.getElem?_take]
    rw [if_pos (by omega)]

theorem getD_reverse (xs : List Bool) (i : Nat) (hi : i < xs.length) :
    xs.reverse.getD i false = xs.getD (xs.length - 1 - i) false := by
  simp only [List.getD_eq_getElem?_getD]
  rw [List.getElem?_reverse hi]

/-- column `i` of the shifted row: negative half mirrored below `N / 2`, positive half from `N / 2` on -/
theorem getD_magicRow (N adj off i : Nat) (hi : i < N) :
    (magicRow N adj off).getD i false =
      if i < N / 2 then combAt (magicOffNeg off).toNat adj (N / 2 - 1 - i) && decide (N / 2 - 1 - i < N / 2)
      else combAt (magicOffPos off).toNat adj (i - N / 2) := by
  unfold magicRow
  have hp : (magicPosLen N).toNat = N - N / 2 := by unfold magicPosLen; omega
  have hn : (magicNegLen N).toNat = N / 2 := by unfold magicNegLen; omega
  rw [hp, hn]
  set pos := strided (N - N / 2) (magicOffPos off).toNat adj with hpos
  set neg := strided (N / 2) (magicOffNeg off).toNat adj with hneg
  have lpos : pos.length = N - N / 2 := length_strided _ _ _
  have lneg : neg.length = N / 2 := length_strided _ _ _
  have lcat : (pos ++ neg.reverse).length = N := by
    simp only [List.length_append, List.length_reverse, lpos, lneg]; omega
  rw [getD_fftshift1 _ _ _ (by rw [lcat]; exact hi), lcat]
  split_ifs with h
  · -- negative half
    have : N - N / 2 + i = pos.length + i := by rw [lpos]
    simp only [List.getD_eq_getElem?_getD]
    rw [this, List.getElem?_append_right (by omega), Nat.add_sub_cancel_left]
    have := getD_reverse neg i (by rw [lneg]; exact h)
    simp only [List.getD_eq_getElem?_getD] at this
    rw [this, lneg]
    have g := getD_strided (N / 2) (magicOffNeg off).toNat adj (N / 2 - 1 - i)
    simp only [List.getD_eq_getElem?_getD] at g
    rw [← hneg] at g
    rw [g, Bool.and_comm]
  · -- positive half
    simp only [List.getD_eq_getElem?_getD]
    rw [List.getElem?_append_left (by rw [lpos]; omega)]
    have g := getD_strided (N - N / 2) (magicOffPos off).toNat adj (i - N / 2)
    simp only [List.getD_eq_getElem?_getD] at g
    rw [← hpos] at g
    rw [g]
    have : i - N / 2 < N - N / 2 := by omega
    simp [this]

/-- the count of a frame as two half-row counts -/
theorem magicCount_halves (N L adj off : Nat) (hL : 1 ≤ L) (hLN : L ≤ N) :
    magicCount N L adj off =
      (List.range (N / 2)).countP (fun k => decide (k < magicNegIn N L) || combAt (magicOffNeg off).toNat adj k) +
      (List.range (N - N / 2)).countP (fun j => decide (j < magicPosIn N L) || combAt (magicOffPos off).toNat adj j) := by
  unfold magicCount magicMask
  rw [countTrue_map_range]
  have hN : N = N / 2 + (N - N / 2) := by omega
  have hpad : (acsPad (N : Int) (L : Int)).toNat ≤ N / 2 := by unfold acsPad; omega
  have hpad2 : N / 2 ≤ (acsPad (N : Int) (L : Int)).toNat + L := by unfold acsPad; omega
  have hpad0 : 0 ≤ acsPad (N : Int) (L : Int) := by unfold acsPad; omega
  rw [congrArg List.range hN, countP_range_split]
  congr 1
  · -- negative half, mirrored
    rw [← countP_range_reverse (fun k => decide (k < magicNegIn N L) || combAt (magicOffNeg off).toNat adj k) (N / 2)]
    apply countP_range_congr
    intro i hi
    rw [getD_magicRow N adj off i (by omega), if_pos hi]
    have h1 : N / 2 - 1 - i < N / 2 := by omega
    have hacs : inAcs (N : Int) (L : Int) (i : Int) = decide (N / 2 - 1 - i < magicNegIn N L) := by
      unfold inAcs magicNegIn
      by_cases hc : acsPad (N : Int) (L : Int) ≤ (i : Int)
      · have : (i : Int) < acsPad (N : Int) (L : Int) + L := by omega
        have h2 : N / 2 - 1 - i < N / 2 - (acsPad (N : Int) (L : Int)).toNat := by omega
        simp [hc, this, h2]
      · have h2 : ¬ N / 2 - 1 - i < N / 2 - (acsPad (N : Int) (L : Int)).toNat := by omega
        simp [hc, h2]
    rw [hacs]
    simp [h1, Bool.or_comm]
  · -- positive half
    apply countP_range_congr
    intro j hj
    rw [getD_magicRow N adj off (N / 2 + j) (by omega), if_neg (by omega), Nat.add_sub_cancel_left]
    have hacs : inAcs (N : Int) (L : Int) ((N / 2 + j : Nat) : Int) = decide (j < magicPosIn N L) := by
      unfold inAcs magicPosIn
      have h1 : acsPad (N : Int) (L : Int) ≤ ((N / 2 + j : Nat) : Int) := by omega
      by_cases hc : ((N / 2 + j : Nat) : Int) < acsPad (N : Int) (L : Int) + L
      · have h2 : j < (acsPad (N : Int) (L : Int)).toNat + L - N / 2 := by omega
        push_cast at h1 hc
        simp [h1, hc, h2]
      · have h2 : ¬ j < (acsPad (N : Int) (L : Int)).toNat + L - N / 2 := by omega
        push_cast at h1 hc
        simp [h1, hc, h2]
    rw [hacs, Bool.or_comm]

/-- comb points in a window `[a, b)`: at most `⌈(b − a)/step⌉`, and at least `(b − a − max(step − 1, off − a))/step` -/
theorem strideCount_window (off step a b : Nat) (hs : 0 < step) (hab : a ≤ b) :
    step * (strideCount off step b - strideCount off step a) ≤ (b - a) + (step - 1) ∧
    (b - a) ≤ step * (strideCount off step b - strideCount off step a) + max (step - 1) (off - a) := by
  unfold strideCount
  have ha1 := Nat.mul_div_le (a - off - 1) step
  have ha2 := Nat.lt_mul_div_succ (a - off - 1) hs
  have hb1 := Nat.mul_div_le (b - off - 1) step
  have hb2 := Nat.lt_mul_div_succ (b - off - 1) hs
  rw [Nat.mul_add, Nat.mul_one] at ha2 hb2
  have hmono : (a - off - 1) / step ≤ (b - off - 1) / step := Nat.div_le_div_right (by omega)
  split_ifs with h1 h2 h2
  · simp only [Nat.sub_self, Nat.mul_zero]
    constructor
    · omega
    · have : b - a ≤ off - a := by omega
      omega
  · omega
  · -- a ≤ off < b : all points of [off, b)
    rw [Nat.sub_zero, Nat.mul_add, Nat.mul_one]
    constructor
    · omega
    · have : b - a = (b - off) + (off - a) := by omega
      omega
  · -- off < a ≤ b
    have e : (b - off - 1) / step + 1 - ((a - off - 1) / step + 1) = (b - off - 1) / step - (a - off - 1) / step := by omega
    rw [e, Nat.mul_sub]
    constructor
    · omega
    · omega

end DirectVerif.MaskBudget
