import DirectVerif.Model.C07Ties
import DirectVerif.Lemmas.C07
import Mathlib.Tactic.Linarith
/-!
# C07 — the tie-input model of the equispaced grid generalises the exact one (namespace `DirectVerif.C07`)
-/
set_option linter.unusedSimpArgs false
namespace DirectVerif.C07
open DirectVerif DirectVerif.MaskBudget

/-- a rational with denominator 2 has fractional part exactly one half -/
theorem frac_of_den_two (x : ℚ) (h : x.den = 2) : x - x.floor = 1 / 2 := by
  have hx : x = (x.num : ℚ) / 2 := by
    have := Rat.num_div_den x
    rw [h] at this
    exact_mod_cast this.symm
  have hodd : x.num % 2 = 1 := by
    by_contra hne
    have hev : x.num % 2 = 0 := by omega
    have hc : Nat.Coprime x.num.natAbs x.den := x.reduced
    rw [h] at hc
    have hdvd : 2 ∣ x.num.natAbs := by omega
    have := Nat.Coprime.eq_one_of_dvd hc.symm hdvd
    omega
  have h2 : ((x.num - 1) / 2 : ℤ) * 2 = x.num - 1 := by omega
  have h2q : (((x.num - 1) / 2 : ℤ) : ℚ) * 2 = (x.num : ℚ) - 1 := by exact_mod_cast h2
  have hfl : x.floor = (x.num - 1) / 2 := by
    rw [floor_eq, Int.floor_eq_iff]
    constructor <;> linarith
  rw [hfl]
  linarith

/-- half-even rounding at an exact tie: the floor if it is even, else the floor plus one -/
theorem rnd_at_tie (x : ℚ) (h : x.den = 2) :
    roundHalfEven x = x.floor + (if x.floor % 2 ≠ 0 then 1 else 0) := by
  have hf := frac_of_den_two x h
  unfold roundHalfEven
  rw [hf]
  simp only [lt_irrefl, if_false]
  split_ifs <;> omega

/-- **away from exact ties the decisions are irrelevant**: if no grid point is an exact half-integer and the length
quotient is not an exact integer, the tie-input model is the exact model, whatever the inputs -/
theorem equi_ties_irrelevant (N : Int) (a : ℚ) (off : Int) (ups : List Int) (extra : Nat)
    (hlen : exactLen N a off = false) (hties : tieIndices N a off = []) :
    equiPositionsT N a off ups extra = equiPositions N a off := by
  unfold equiPositionsT equiPositions
  simp only [hlen, Bool.false_eq_true, if_false, Nat.add_zero]
  apply List.map_congr_left
  intro j hj
  have : ¬ (gridPoint a off j).den = 2 := by
    intro hd
    have hm : j ∈ tieIndices N a off := by
      unfold tieIndices
      exact List.mem_filter.mpr ⟨hj, by simpa using hd⟩
    rw [hties] at hm
    exact List.not_mem_nil hm
  rw [if_neg this]
  rfl

/-- **with the half-even decisions the tie-input model is the exact model** -/
theorem equi_ties_half_even (N : Int) (a : ℚ) (off : Int) :
    equiPositionsT N a off (halfEvenUps N a off) 0 = equiPositions N a off := by
  unfold equiPositionsT equiPositions
  have h0 : (if exactLen N a off then 0 else 0) = 0 := by split_ifs <;> rfl
  rw [h0, Nat.add_zero]
  apply List.map_congr_left
  intro j hj
  by_cases hd : (gridPoint a off j).den = 2
  · rw [if_pos hd]
    have hr := rnd_at_tie (gridPoint a off j) hd
    have hmem : (halfEvenUps N a off).contains (j : Int) = decide ((gridPoint a off j).floor % 2 ≠ 0) := by
      unfold halfEvenUps
      by_cases ho : (gridPoint a off j).floor % 2 ≠ 0
      · have : (j : Int) ∈ ((List.range (arangeLen off (N - 1) a)).filter fun (j : Nat) =>
            decide ((gridPoint a off j).den = 2) && decide ((gridPoint a off j).floor % 2 ≠ 0)).map fun (j : Nat) => (j : Int) := by
          apply List.mem_map.mpr
          exact ⟨j, List.mem_filter.mpr ⟨hj, by simp [hd, ho]⟩, rfl⟩
        rw [List.contains_iff_mem.mpr this]
        simp [ho]
      · have : ¬ (j : Int) ∈ ((List.range (arangeLen off (N - 1) a)).filter fun (j : Nat) =>
            decide ((gridPoint a off j).den = 2) && decide ((gridPoint a off j).floor % 2 ≠ 0)).map fun (j : Nat) => (j : Int) := by
          intro hm
          obtain ⟨j', hj', e⟩ := List.mem_map.mp hm
          have : j' = j := by exact_mod_cast e
          subst this
          have := (List.mem_filter.mp hj').2
          simp only [Bool.and_eq_true, decide_eq_true_eq] at this
          exact ho this.2
        have hc : (((List.range (arangeLen off (N - 1) a)).filter fun (j : Nat) =>
            decide ((gridPoint a off j).den = 2) && decide ((gridPoint a off j).floor % 2 ≠ 0)).map fun (j : Nat) => (j : Int)).contains (j : Int) = false := by
          rw [Bool.eq_false_iff]
          intro hc
          exact this (List.contains_iff_mem.mp hc)
        rw [hc]
        simp [ho]
    rw [hmem]
    have : roundHalfEven ((off : ℚ) + (j : ℚ) * a) = roundHalfEven (gridPoint a off j) := rfl
    rw [this, hr]
    by_cases ho : (gridPoint a off j).floor % 2 ≠ 0 <;> simp [ho]
  · rw [if_neg hd]
    rfl

/-- an exact tie resolved either way: 32 columns, `R = 4`, 6 ACS columns gives `a = 52/5`; no tie there, but `a = 5/2`
(offset 1) has ties at `j = 1, 3, …`: `1 + 5/2 = 7/2` goes to 3 (down) or 4 (up, half-even) -/
example : equiPositionsT 12 (5 / 2) 1 [] 0 = [1, 3, 6, 8] ∧ equiPositionsT 12 (5 / 2) 1 [1, 3] 0 = [1, 4, 6, 9] ∧
    equiPositions 12 (5 / 2) 1 = [1, 4, 6, 8] ∧ halfEvenUps 12 (5 / 2) 1 = [1] := by decide +kernel

end DirectVerif.C07
