import DirectVerif.Model.C07Circus
import DirectVerif.Lemmas.C07
import Mathlib.Tactic.Linarith
import Mathlib.Tactic.Ring
import Mathlib.Tactic.FieldSimp
/-!
# C07 — CIRCUS patterns never exceed their pick budget (namespace `DirectVerif.C07`)
-/
set_option linter.unusedSimpArgs false
namespace DirectVerif.C07
open DirectVerif DirectVerif.MaskBudget DirectVerif.MaskGeom

theorem count_set_le (l : List Bool) (i : Nat) : (l.set i true).count true ≤ l.count true + 1 := by
  induction l generalizing i with
  | nil => simp
  | cons x xs ih =>
    cases i with
    | zero => cases x <;> simp [List.count_cons]
    | succ i =>
      have := ih i
      simp only [List.set_cons_succ, List.count_cons]
      omega

theorem foldl_set_count (cells : List (Nat × Nat)) (side : Nat) (a : Array Bool) :
    ((cells.foldl (fun (a : Array Bool) (rc : Nat × Nat) => a.set! (rc.1 * side + rc.2) true) a).toList).count true ≤
      a.toList.count true + cells.length := by
  induction cells generalizing a with
  | nil => simp
  | cons c cs ih =>
    simp only [List.foldl_cons, List.length_cons]
    have h1 := ih (a.set! (c.1 * side + c.2) true)
    have h2 : (a.set! (c.1 * side + c.2) true).toList.count true ≤ a.toList.count true + 1 := by
      rw [Array.set!_eq_setIfInBounds, Array.toList_setIfInBounds]
      exact count_set_le _ _
    omega

/-- **the square array holds at most one cell per pick** — `M` picks on each of the nested squares give at most
`M · num_nested_squares` sampled cells, for every choice of perimeter positions -/
theorem circus_count_le_picks (side : Nat) (picks : List (List Nat)) (sqm : List Bool)
    (h : circusSquare side picks = some sqm) : sqm.count true ≤ circusPicks picks := by
  unfold circusSquare at h
  simp only [] at h
  split_ifs at h with hall
  simp only [Option.some.injEq] at h
  subst h
  have hz : ∀ (ks : List Nat) (ps : List (List Nat)),
      ((ks.zip ps).map fun (x : Nat × List Nat) => x.2.length).sum ≤ (ps.map List.length).sum := by
    intro ks
    induction ks with
    | nil => intro ps; simp
    | cons k ks ih =>
      intro ps
      cases ps with
      | nil => simp
      | cons p ps =>
        simp only [List.zip_cons_cons, List.map_cons, List.sum_cons]
        have := ih ps
        omega
  refine le_trans (foldl_set_count _ side _) ?_
  have h0 : (Array.replicate (side * side) false).toList.count true = 0 := by
    simp [Array.toList_replicate, List.count_replicate]
  rw [h0, Nat.zero_add]
  refine le_trans (List.length_filterMap_le _ _) ?_
  unfold circusPicks
  rw [List.length_flatMap]
  simp only [List.length_map]
  exact hz _ _

/-- on an even square grid the denominator of `M` is half the side, so `M = ⌊2n / a⌋` … -/
theorem circus_even_square_M (n : ℚ) (a : ℚ) (hn : 0 < n) (ha : 0 < a) :
    circusM (n * n) a n n = ((2 * n) / a).floor := by
  unfold circusM circusDenom
  congr 1
  field_simp
  ring

/-- … and `M` picks on each of the `n / 2` nested squares stay within the requested budget `n² / a` -/
theorem circus_even_square_budget (n : ℚ) (a : ℚ) (hn : 0 < n) (ha : 0 < a) :
    ((circusM (n * n) a n n : ℤ) : ℚ) * (n / 2) ≤ n * n / a := by
  rw [circus_even_square_M n a hn ha]
  have h := floor_le' ((2 * n) / a)
  have : ((2 * n) / a) * (n / 2) = n * n / a := by field_simp
  calc ((((2 * n) / a).floor : ℤ) : ℚ) * (n / 2) ≤ ((2 * n) / a) * (n / 2) :=
        mul_le_mul_of_nonneg_right h (by linarith)
    _ = n * n / a := this

/-- 32 × 32, acceleration 4: `M = 16` picks on each of 16 squares, at most 256 = 1024 / 4 cells -/
example : circusM (32 * 32) 4 32 32 = 16 := by decide +kernel
example : circusMAdmissible (32 * 32) 4 32 32 15 = true ∧ circusMAdmissible (32 * 32) 4 32 32 14 = false := by decide +kernel

end DirectVerif.C07
