import DirectVerif.Model.Shapes
/-!
# Helper lemmas for C17 (shape programs): execution lemmas, the U-Net induction, the `|15` identity
-/
set_option linter.unusedSimpArgs false
namespace DirectVerif.C17L
open DirectVerif.Shapes

theorem run_append (p q : List Op) (st : State) :
    run (p ++ q) st = match run p st with | .ok s => run q s | .error e => .error e := by
  induction p generalizing st with
  | nil => simp [run]
  | cons op ops ih =>
    simp only [List.cons_append, run]
    cases step op st with
    | ok s => simp [ih]
    | error e => simp

theorem run_append_ok {p q : List Op} {st s1 : State} (h : run p st = .ok s1) :
    run (p ++ q) st = run q s1 := by
  rw [run_append, h]

theorem run_append_err {p q : List Op} {st : State} {e : Err} (h : run p st = .error e) :
    run (p ++ q) st = .error e := by
  rw [run_append, h]

theorem run_cons_ok {op : Op} {ops : List Op} {st s1 : State} (h : step op st = .ok s1) :
    run (op :: ops) st = run ops s1 := by
  simp [run, h]

def Pos (s : Shape) : Prop := ∀ n ∈ s, 1 ≤ n

theorem axes_ok {ok : Nat → Bool} {f : Nat → Nat} {s : Shape} (stk tr) (h : ∀ n ∈ s, ok n = true) :
    axes ok f ⟨s, stk, tr⟩ = .ok ⟨s.map f, stk, tr⟩ := by
  simp only [axes]
  rw [if_pos (List.all_eq_true.mpr h)]

theorem axes_same {ok : Nat → Bool} {f : Nat → Nat} {s : Shape} (stk tr) (h : ∀ n ∈ s, ok n = true)
    (hf : ∀ n ∈ s, f n = n) : axes ok f ⟨s, stk, tr⟩ = .ok ⟨s, stk, tr⟩ := by
  rw [axes_ok stk tr h]
  congr 2
  conv => rhs; rw [← List.map_id s]
  exact List.map_congr_left hf

/-- a stride-1 convolution whose padding compensates the (dilated) kernel keeps every axis -/
theorem step_conv_same {k p d : Nat} (hk : d * (k - 1) = 2 * p) (hk1 : 1 ≤ k) {s : Shape} (stk tr) (hs : Pos s) :
    step (.conv k 1 p d) ⟨s, stk, tr⟩ = .ok ⟨s, stk, tr⟩ := by
  apply axes_same
  · intro n hn; have := hs n hn; simp [convOk]; omega
  · intro n hn; have := hs n hn; simp [convOut]; omega

theorem step_instNorm {s : Shape} (stk tr) (h : 1 < numel s) :
    step .instNorm ⟨s, stk, tr⟩ = .ok ⟨s, stk, tr⟩ := by
  simp [step, h]

theorem step_pool2 {s : Shape} (stk tr) (h : ∀ n ∈ s, 2 ≤ n) :
    step (.avgPool 2 2) ⟨s, stk, tr⟩ = .ok ⟨s.map (· / 2), stk, tr⟩ := by
  simp only [step]
  rw [axes_ok stk tr]
  · congr 2; apply List.map_congr_left; intro n hn; have := h n hn; simp [poolOut]; omega
  · intro n hn; have := h n hn; simp [poolOk]; omega

theorem step_convT2 {s : Shape} (stk tr) (h : Pos s) :
    step (.convT 2 2 0) ⟨s, stk, tr⟩ = .ok ⟨s.map (2 * ·), stk, tr⟩ := by
  simp only [step]
  rw [axes_ok stk tr]
  · congr 2; apply List.map_congr_left; intro n hn; have := h n hn; simp [convTOut]; omega
  · intro n hn; have := h n hn; simp [convTOk]; omega

theorem zipWith_map_map {α β γ δ} (f : β → γ → δ) (g : α → β) (h : α → γ) (s : List α) :
    List.zipWith f (s.map g) (s.map h) = s.map (fun n => f (g n) (h n)) := by
  induction s with
  | nil => rfl
  | cons a s ih => simp [ih]

theorem zipWith_self_map {α γ δ} (f : α → γ → δ) (h : α → γ) (s : List α) :
    List.zipWith f s (s.map h) = s.map (fun n => f n (h n)) := by
  have := zipWith_map_map f id h s
  simpa using this

theorem step_popPadCat {s : Shape} (g : Nat → Nat) (rest tr)
    (h : ∀ n ∈ s, g n + upPad n (g n) = n ∧ upPad n (g n) < g n) :
    step .popPadCat ⟨s.map g, s :: rest, tr⟩ = .ok ⟨s, rest, tr⟩ := by
  simp only [step]
  rw [zipWith_self_map, zipWith_map_map, zipWith_map_map]
  have e : s.map (fun n => g n + upPad n (g n)) = s := by
    conv => rhs; rw [← List.map_id s]
    exact List.map_congr_left fun n hn => (h n hn).1
  have c : (List.map (fun n => reflectOk 0 (upPad n (g n)) (g n)) s).all id = true := by
    simp only [List.all_map, List.all_eq_true]
    intro n hn
    have := h n hn
    simp [reflectOk]; omega
  simp [e, c]


theorem step_emit (s : Shape) (stk tr) : step .emit ⟨s, stk, tr⟩ = .ok ⟨s, stk, tr ++ [s]⟩ := rfl
theorem step_push (s : Shape) (stk tr) : step .push ⟨s, stk, tr⟩ = .ok ⟨s, s :: stk, tr⟩ := rfl

/-- admissible sizes of an `L`-level U-Net: every axis can be halved `L` times and the bottleneck has more than one
element (instance normalisation). -/
def UAdm : Nat → Shape → Prop
  | 0, s => Pos s ∧ 1 < numel s
  | L + 1, s => (∀ n ∈ s, 2 ≤ n) ∧ UAdm L (s.map (· / 2))

theorem prod_le_prod_map {s : Shape} {f : Nat → Nat} (h : ∀ n ∈ s, f n ≤ n) : numel (s.map f) ≤ numel s := by
  induction s with
  | nil => simp [numel]
  | cons a s ih =>
    simp only [List.map_cons, numel]
    exact Nat.mul_le_mul (h a (by simp)) (ih fun n hn => h n (by simp [hn]))

theorem prod_map_le_prod_map {s : Shape} {f g : Nat → Nat} (h : ∀ n ∈ s, f n ≤ g n) : numel (s.map f) ≤ numel (s.map g) := by
  induction s with
  | nil => simp [numel]
  | cons a s ih =>
    simp only [List.map_cons, numel]
    exact Nat.mul_le_mul (h a (by simp)) (ih fun n hn => h n (by simp [hn]))

theorem UAdm.prod {L : Nat} {s : Shape} (h : UAdm L s) : 1 < numel s := by
  induction L generalizing s with
  | zero => exact h.2
  | succ L ih =>
    have := ih h.2
    exact Nat.lt_of_lt_of_le this (prod_le_prod_map (f := fun x => x / 2) fun n _ => Nat.div_le_self n 2)

theorem UAdm.pos {L : Nat} {s : Shape} (h : UAdm L s) : Pos s := by
  cases L with
  | zero => exact h.1
  | succ L => intro n hn; have := h.1 n hn; omega

theorem run_convBlock {s : Shape} (stk tr) (hs : Pos s) (hp : 1 < numel s) :
    run (convBlock UnetP.std) ⟨s, stk, tr⟩ = .ok ⟨s, stk, tr⟩ := by
  simp only [convBlock, UnetP.std]
  rw [run_cons_ok (step_conv_same (by decide) (by decide) stk tr hs), run_cons_ok (step_instNorm stk tr hp),
    run_cons_ok (step_conv_same (by decide) (by decide) stk tr hs), run_cons_ok (step_instNorm stk tr hp)]
  rfl

/-- one level of the U-Net around an inner program `inner` that preserves the pooled shape; `fin` (executed inside the last
hooked block) preserves every positive shape -/
theorem unetLevel_ok (inner fin : List Op)
    (hfin : ∀ (s : Shape) (stk tr), Pos s → run fin ⟨s, stk, tr⟩ = .ok ⟨s, stk, tr⟩)
    (L : Nat) (ih : ∀ (s : Shape) (stk tr), UAdm L s → ∃ tr', run inner ⟨s, stk, tr⟩ = .ok ⟨s, stk, tr'⟩) :
    ∀ (s : Shape) (stk tr), UAdm (L + 1) s →
      ∃ tr', run (convBlock UnetP.std ++ [.emit, .push, .avgPool UnetP.std.pk UnetP.std.ps] ++ inner ++
        [.convT UnetP.std.tk UnetP.std.ts 0, .instNorm, .emit, .popPadCat] ++ convBlock UnetP.std ++ fin ++ [.emit])
        ⟨s, stk, tr⟩ = .ok ⟨s, stk, tr'⟩ := by
  intro s stk tr h
  have hpos := UAdm.pos h
  have hprod := UAdm.prod h
  obtain ⟨tr1, h1⟩ := ih (s.map (· / 2)) (s :: stk) (tr ++ [s]) h.2
  refine ⟨tr1 ++ [s.map fun n => 2 * (n / 2)] ++ [s], ?_⟩
  simp only [List.append_assoc]
  rw [run_append_ok (run_convBlock stk tr hpos hprod)]
  simp only [List.cons_append, List.nil_append, show UnetP.std.pk = 2 from rfl, show UnetP.std.ps = 2 from rfl,
    show UnetP.std.tk = 2 from rfl, show UnetP.std.ts = 2 from rfl]
  rw [run_cons_ok (step_emit _ _ _), run_cons_ok (step_push _ _ _), run_cons_ok (step_pool2 _ _ h.1),
    run_append_ok h1]
  have hpos2 : Pos (s.map (· / 2)) := UAdm.pos h.2
  rw [run_cons_ok (step_convT2 _ _ hpos2)]
  have hprod2 : 1 < numel (List.map (fun x => 2 * x) (s.map (· / 2))) := by
    have := UAdm.prod h.2
    refine Nat.lt_of_lt_of_le this ?_
    rw [List.map_map]
    exact prod_map_le_prod_map (g := (fun x => 2 * x) ∘ fun x => x / 2) fun n _ => by
      simp only [Function.comp]; omega
  rw [run_cons_ok (step_instNorm _ _ hprod2), run_cons_ok (step_emit _ _ _)]
  rw [List.map_map]
  simp only [Function.comp_def]
  rw [run_cons_ok (step_popPadCat (fun n => 2 * (n / 2)) stk _ (by
    intro n hn; have := h.1 n hn; simp only [upPad]; split <;> simp_all <;> omega))]
  rw [run_append_ok (run_convBlock stk _ hpos hprod), run_append_ok (hfin s stk _ hpos)]
  simp [run, step, Function.comp_def]

theorem unetLv_ok (L : Nat) : ∀ (s : Shape) (stk tr), UAdm L s →
    ∃ tr', run (unetLv UnetP.std L) ⟨s, stk, tr⟩ = .ok ⟨s, stk, tr'⟩ := by
  induction L with
  | zero =>
    intro s stk tr h
    refine ⟨tr ++ [s], ?_⟩
    simp only [unetLv]
    rw [run_append_ok (run_convBlock stk tr h.1 h.2)]
    rfl
  | succ L ih =>
    intro s stk tr h
    have := unetLevel_ok (unetLv UnetP.std L) [] (fun _ _ _ _ => rfl) L ih s stk tr h
    simpa only [unetLv, List.append_nil, List.append_assoc] using this


/-! map-form step lemmas: every shape is `s.map g` -/
theorem axes_map {ok : Nat → Bool} {f g : Nat → Nat} {s : Shape} (stk tr) (h : ∀ n ∈ s, ok (g n) = true) :
    axes ok f ⟨s.map g, stk, tr⟩ = .ok ⟨s.map (fun n => f (g n)), stk, tr⟩ := by
  rw [axes_ok stk tr (by simpa using h), List.map_map]; rfl

theorem stepm_conv {k st p d : Nat} {g : Nat → Nat} {s : Shape} (stk tr)
    (h : ∀ n ∈ s, convOk k st p d (g n) = true) :
    step (.conv k st p d) ⟨s.map g, stk, tr⟩ = .ok ⟨s.map (fun n => convOut k st p d (g n)), stk, tr⟩ := axes_map stk tr h
theorem padEvenOk_iff (n : Nat) : padEvenOk n = true ↔ (n % 2 = 0 ∨ 2 ≤ n) := by
  simp only [padEvenOk, reflectOk, Bool.or_eq_true, Bool.and_eq_true, beq_iff_eq, decide_eq_true_eq]; omega

theorem dwtOk_of_even {n : Nat} (h : n % 2 = 0) : dwtOk n = true := by
  have : (n + 1) / 2 = n / 2 := by omega
  simp [dwtOk, this]
theorem dwtOut_of_even {n : Nat} (h : n % 2 = 0) : dwtOut n = n / 2 := by
  have : (n + 1) / 2 = n / 2 := by omega
  simp [dwtOut, this]

theorem convOut_same {k p d m : Nat} (hk : d * (k - 1) = 2 * p) (hm : 1 ≤ m) : convOut k 1 p d m = m := by
  simp only [convOut, Nat.div_one]; omega

/-- map form of a shape-preserving stride-1 convolution: the per-axis function is unchanged -/
theorem stepm_conv_same {k p d : Nat} {g : Nat → Nat} {s : Shape} (stk tr) (hk : d * (k - 1) = 2 * p) (hk1 : 1 ≤ k)
    (h : ∀ n ∈ s, 1 ≤ g n) :
    step (.conv k 1 p d) ⟨s.map g, stk, tr⟩ = .ok ⟨s.map g, stk, tr⟩ :=
  step_conv_same hk hk1 stk tr (by intro m hm; obtain ⟨n, hn, rfl⟩ := List.mem_map.mp hm; exact h n hn)

/-- strided convolution in map form -/
theorem stepm_conv2 {k p d : Nat} {g : Nat → Nat} {s : Shape} (stk tr)
    (h : ∀ n ∈ s, convOk k 2 p d (g n) = true) :
    step (.conv k 2 p d) ⟨s.map g, stk, tr⟩ = .ok ⟨s.map (fun n => convOut k 2 p d (g n)), stk, tr⟩ := axes_map stk tr h

theorem stepm_padEven {g : Nat → Nat} {s : Shape} (stk tr) (h : ∀ n ∈ s, padEvenOk (g n) = true) :
    step .padEven ⟨s.map g, stk, tr⟩ = .ok ⟨s.map (fun n => padEvenOut (g n)), stk, tr⟩ := axes_map stk tr h
theorem stepm_scale {r : Nat} {g : Nat → Nat} {s : Shape} (stk tr) :
    step (.scale r) ⟨s.map g, stk, tr⟩ = .ok ⟨s.map (fun n => r * g n), stk, tr⟩ := axes_map stk tr (by simp)
theorem stepm_popCropSame {g t : Nat → Nat} {s : Shape} (rest tr) (h : ∀ n ∈ s, cropTo (t n) (g n) = t n) :
    step .popCropSame ⟨s.map g, s.map t :: rest, tr⟩ = .ok ⟨s.map t, rest, tr⟩ := by
  simp only [step]
  rw [zipWith_map_map, if_pos ⟨by simp, List.map_congr_left h⟩]
theorem stepm_popCrop {g t : Nat → Nat} {s : Shape} (rest tr) :
    step .popCrop ⟨s.map g, s.map t :: rest, tr⟩ = .ok ⟨s.map (fun n => cropTo (t n) (g n)), rest, tr⟩ := by
  simp only [step]
  rw [zipWith_map_map]; simp

theorem cropTo_eq_min (t n : Nat) : cropTo t n = min n t := by
  unfold cropTo; split <;> omega

theorem run_nil (st : State) : run [] st = .ok st := rfl


theorem lor15_of_lt : ∀ y, y < 16 → y ||| 15 = 15 := by decide

theorem lor15 (x : Nat) : x ||| 15 = 16 * (x / 16) + 15 := by
  have h1 : x = (x / 16) <<< 4 + x % 16 := by
    rw [Nat.shiftLeft_eq]; omega
  have h2 : (x / 16) <<< 4 + x % 16 = (x / 16) <<< 4 ||| x % 16 :=
    Nat.shiftLeft_add_eq_or_of_lt (by omega) _
  have h3 : (x / 16) <<< 4 + 15 = (x / 16) <<< 4 ||| 15 :=
    Nat.shiftLeft_add_eq_or_of_lt (by omega) _
  calc x ||| 15 = ((x / 16) <<< 4 ||| x % 16) ||| 15 := by rw [← h2, ← h1]
    _ = (x / 16) <<< 4 ||| (x % 16 ||| 15) := by rw [Nat.or_assoc]
    _ = (x / 16) <<< 4 ||| 15 := by rw [lor15_of_lt _ (Nat.mod_lt _ (by omega))]
    _ = (x / 16) <<< 4 + 15 := h3.symm
    _ = 16 * (x / 16) + 15 := by rw [Nat.shiftLeft_eq]; omega

theorem mult16_eq (n : Nat) : mult16 n = 16 * ((n + 15) / 16) := by
  unfold mult16
  split
  · subst_vars; rfl
  · rw [lor15]; omega

/-! ## composite stack operations = their fine-grained expansion -/

theorem step_expand1 (op : Op) (st : State) : run (expand1 op) st = step op st := by
  obtain ⟨cur, stack, trace⟩ := st
  have base : ∀ o : Op, run [o] ⟨cur, stack, trace⟩ = step o ⟨cur, stack, trace⟩ := by
    intro o; simp only [run]; cases step o ⟨cur, stack, trace⟩ <;> rfl
  cases op
  case popPadCat =>
    cases stack with
    | nil => rfl
    | cons t rest =>
      simp only [expand1, run, step]
      by_cases h : t.length = cur.length ∧
          (List.zipWith (fun p n => reflectOk 0 p n) (List.zipWith upPad t cur) cur).all id = true
      · by_cases h2 : List.zipWith (fun x1 x2 => x1 + x2) cur (List.zipWith upPad t cur) = t
        · simp only [if_pos h, if_pos h2, step]
        · simp only [if_pos h, if_neg h2, step]
      · simp only [if_neg h]
  case popCropSame =>
    cases stack with
    | nil => rfl
    | cons t rest =>
      simp only [expand1, run, step]
      by_cases h : t.length = cur.length
      · by_cases h2 : List.zipWith cropTo t cur = t
        · simp only [if_pos h, if_pos h2, if_pos (And.intro h h2), step, h2, if_true, and_true]
        · simp only [if_pos h, if_neg h2, if_neg (fun c : _ ∧ _ => h2 c.2), step]
      · simp only [if_neg h, if_neg (fun c : _ ∧ _ => h c.1)]
  case popCrop =>
    cases stack with
    | nil => rfl
    | cons t rest =>
      simp only [expand1, run, step]
      by_cases h : t.length = cur.length
      · simp only [if_pos h, step]
      · simp only [if_neg h]
  all_goals exact base _

theorem run_expand (p : List Op) (st : State) : run (expand p) st = run p st := by
  induction p generalizing st with
  | nil => rfl
  | cons op ops ih =>
    simp only [expand, List.flatMap_cons] at *
    rw [run_append, step_expand1]
    simp only [run]
    cases step op st with
    | ok s => simp [ih]
    | error e => simp

end DirectVerif.C17L
