import DirectVerif.Lemmas.C19Ops
/-!
# C19 — the loop invariant of `ConjGrad.cg` (exact arithmetic)

For `B` self-adjoint positive definite the loop body `cgStep` (with the code's own coefficients
`ak = <r,r>/<r,Bp>`, FR `bk = <r',r'>/<r,r>`, PRP `bk = <r', r'-r>/<r,r>`, and `0/0 = 0`) preserves

* `r = b − B x`, `rr = <r,r>` (the cached norm), `<p,r> = <r,r>`, `<r,Bp> = <p,Bp>`.

From these: consecutive residuals are orthogonal, consecutive directions are `B`-conjugate, PRP
coincides with FR, and the energy `½<x,Bx> − re<b,x>` never increases.
-/
open ComplexInnerProductSpace DirectVerif.DataConsistency
open scoped ComplexConjugate

namespace DirectVerif.C19
variable {E : Type*} [NormedAddCommGroup E] [InnerProductSpace ℂ E]
variable {G : Type*} [NormedAddCommGroup G] [InnerProductSpace ℂ G]

/-! ### algebra of one residual update `r' = r − a • B p` -/

theorem resid_orth {B : E →ₗ[ℂ] E} (r p : E) (a : ℂ)
    (had : a * ⟪r, B p⟫ = ⟪r, r⟫) : ⟪r, r - a • B p⟫ = 0 := by
  rw [inner_sub_right, inner_smul_right, had, sub_self]

theorem resid_orth_p {B : E →ₗ[ℂ] E} (r p : E) (a : ℂ) (hpr : ⟪p, r⟫ = ⟪r, r⟫)
    (hc : ⟪r, B p⟫ = ⟪p, B p⟫) (had : a * ⟪r, B p⟫ = ⟪r, r⟫) : ⟪p, r - a • B p⟫ = 0 := by
  rw [inner_sub_right, inner_smul_right, hpr, ← hc, had, sub_self]

theorem resid_Bp {B : E →ₗ[ℂ] E} (r p : E) (a : ℂ) (ha : conj a = a)
    (had : a * ⟪r, B p⟫ = ⟪r, r⟫) :
    a * ⟪B p, r - a • B p⟫ = - ⟪r - a • B p, r - a • B p⟫ := by
  have h0 := resid_orth (B := B) r p a had
  have h1 : ⟪a • B p, r - a • B p⟫ = a * ⟪B p, r - a • B p⟫ := by rw [inner_smul_left, ha]
  have h2 : ⟪r - a • B p, r - a • B p⟫ = ⟪r, r - a • B p⟫ - ⟪a • B p, r - a • B p⟫ :=
    inner_sub_left _ _ _
  rw [h2, h0, h1]; ring

section CG
variable (F Fb : G →ₗ[ℂ] G) (Ex : E →ₗ[ℂ] G) (R : G →ₗ[ℂ] E) (M : G →ₗ[ℂ] G)
variable (B : E →ₗ[ℂ] E) (b : E)

local notation "𝒪" => mathOps F Fb Ex R M

/-- the loop invariant of `cg` for the system `B x = b` -/
structure CGInv (s : CGState ℂ E) : Prop where
  res : s.r = b - B s.x
  rr : s.rr = ⟪s.r, s.r⟫
  pr : ⟪s.p, s.r⟫ = ⟪s.r, s.r⟫
  cj : ⟪s.r, B s.p⟫ = ⟪s.p, B s.p⟫

/-- the step length of the code: `ak = rk_norm_sq_old / <rk_old, B pk>` -/
noncomputable def alpha (s : CGState ℂ E) : ℂ := s.rr / ⟪s.r, B s.p⟫

/-! ### the loop body over `mathOps`, field by field (all by `rfl`) -/
theorem cgStep_x (u : Update) (s : CGState ℂ E) :
    (cgStep 𝒪 u B s).x = s.x + alpha B s • s.p := rfl
theorem cgStep_r (u : Update) (s : CGState ℂ E) :
    (cgStep 𝒪 u B s).r = s.r - alpha B s • B s.p := rfl
theorem cgStep_rr (u : Update) (s : CGState ℂ E) :
    (cgStep 𝒪 u B s).rr = ⟪(cgStep 𝒪 u B s).r, (cgStep 𝒪 u B s).r⟫ := rfl
theorem cgStep_p (u : Update) (s : CGState ℂ E) :
    (cgStep 𝒪 u B s).p = (cgStep 𝒪 u B s).r +
      beta 𝒪 u (cgStep 𝒪 u B s).r s.r s.p (cgStep 𝒪 u B s).rr s.rr • s.p := rfl
theorem beta_FR (rN rO p : E) (a c : ℂ) : beta 𝒪 .FR rN rO p a c = a / c := rfl
theorem beta_PRP (rN rO p : E) (a c : ℂ) :
    beta 𝒪 .PRP rN rO p a c = ⟪rN, rN - rO⟫ / ⟪rO, rO⟫ := rfl

theorem beta_DY (rN rO p : E) (a c : ℂ) :
    beta 𝒪 .DY rN rO p a c = ⟪rN, rN⟫ / ⟪p, rN - rO⟫ := rfl
theorem beta_BAN (rN rO p : E) (a c : ℂ) :
    beta 𝒪 .BAN rN rO p a c = ⟪rN, rN - rO⟫ / ⟪rO, rN - rO⟫ := rfl

variable {B b}

theorem CGInv.p_eq_zero (hB : SPD B) {s : CGState ℂ E} (h : CGInv B b s) (hr : s.r = 0) :
    s.p = 0 := by
  apply hB.eq_zero
  rw [← h.cj, hr, inner_zero_left]

/-- `ak · <r, B p> = <r, r>`, including the guarded `0/0` case -/
theorem CGInv.alpha_mul (hB : SPD B) {s : CGState ℂ E} (h : CGInv B b s) :
    alpha B s * ⟪s.r, B s.p⟫ = ⟪s.r, s.r⟫ := by
  unfold alpha
  by_cases hd : ⟪s.r, B s.p⟫ = 0
  · have hp : s.p = 0 := hB.eq_zero _ (by rw [← h.cj, hd])
    have : ⟪s.r, s.r⟫ = 0 := by rw [← h.pr, hp, inner_zero_left]
    rw [hd, this]; simp
  · rw [h.rr, div_mul_cancel₀ _ hd]

/-- `ak` is real -/
theorem CGInv.alpha_real (hB : SPD B) {s : CGState ℂ E} (h : CGInv B b s) :
    conj (alpha B s) = alpha B s := by
  unfold alpha
  rw [map_div₀, h.rr, h.cj, hB.inner_self_real, inner_conj_symm]

/-- **consecutive residuals are orthogonal** -/
theorem cg_r_orth_next (hB : SPD B) (u : Update) {s : CGState ℂ E} (h : CGInv B b s) :
    ⟪(cgStep 𝒪 u B s).r, s.r⟫ = 0 := by
  rw [cgStep_r, inner_eq_zero_symm]
  exact resid_orth s.r s.p _ (h.alpha_mul hB)

theorem cg_p_orth_next (hB : SPD B) (u : Update) {s : CGState ℂ E} (h : CGInv B b s) :
    ⟪s.p, (cgStep 𝒪 u B s).r⟫ = 0 := by
  rw [cgStep_r]
  exact resid_orth_p s.r s.p _ h.pr h.cj (h.alpha_mul hB)

/-- on the invariant the Polak–Ribière coefficient equals the Fletcher–Reeves one -/
theorem beta_prp_eq_fr (hB : SPD B) {s : CGState ℂ E} (h : CGInv B b s) :
    beta 𝒪 .PRP (cgStep 𝒪 .PRP B s).r s.r s.p (cgStep 𝒪 .PRP B s).rr s.rr =
      beta 𝒪 .FR (cgStep 𝒪 .FR B s).r s.r s.p (cgStep 𝒪 .FR B s).rr s.rr := by
  rw [beta_PRP, beta_FR, inner_sub_right, cg_r_orth_next F Fb Ex R M hB .PRP h, sub_zero, cgStep_rr,
    h.rr]
  rfl

/-- NOTE (outside the property, which covers FR and PRP only): on the invariant the Dai–Yuan
coefficient as coded, `<r',r'> / <p, r'-r>`, is **minus** the Fletcher–Reeves one … -/
theorem beta_dy_eq_neg_fr (hB : SPD B) {s : CGState ℂ E} (h : CGInv B b s) :
    beta 𝒪 .DY (cgStep 𝒪 .FR B s).r s.r s.p (cgStep 𝒪 .FR B s).rr s.rr =
      - beta 𝒪 .FR (cgStep 𝒪 .FR B s).r s.r s.p (cgStep 𝒪 .FR B s).rr s.rr := by
  rw [beta_DY, beta_FR, inner_sub_right, cg_p_orth_next F Fb Ex R M hB .FR h, h.pr, zero_sub, div_neg,
    cgStep_rr, h.rr]

/-- … and so is the Bamigbola–Ali–Nwaeze one, `<r', r'-r> / <r, r'-r>` -/
theorem beta_ban_eq_neg_fr (hB : SPD B) {s : CGState ℂ E} (h : CGInv B b s) :
    beta 𝒪 .BAN (cgStep 𝒪 .FR B s).r s.r s.p (cgStep 𝒪 .FR B s).rr s.rr =
      - beta 𝒪 .FR (cgStep 𝒪 .FR B s).r s.r s.p (cgStep 𝒪 .FR B s).rr s.rr := by
  have h1 := cg_r_orth_next F Fb Ex R M hB .FR h
  have h2 : ⟪s.r, (cgStep 𝒪 .FR B s).r⟫ = 0 := inner_eq_zero_symm.mp h1
  rw [beta_BAN, beta_FR, inner_sub_right, inner_sub_right, h1, h2, sub_zero, zero_sub, div_neg,
    cgStep_rr, h.rr]

/-- **PRP = FR in exact arithmetic** (whole loop body) -/
theorem prp_eq_fr (hB : SPD B) {s : CGState ℂ E} (h : CGInv B b s) :
    cgStep 𝒪 .PRP B s = cgStep 𝒪 .FR B s := by
  refine CGState.ext_fields ?_ ?_ ?_ ?_
  · rfl
  · rfl
  · rw [cgStep_p, cgStep_p, beta_prp_eq_fr F Fb Ex R M hB h]
    rfl
  · rfl

/-- `<Bp, p'> = 0` for the FR update — the heart of conjugacy -/
theorem fr_Bp_orth (hB : SPD B) {s : CGState ℂ E} (h : CGInv B b s) :
    ⟪B s.p, (cgStep 𝒪 .FR B s).p⟫ = 0 := by
  by_cases hr : s.r = 0
  · rw [h.p_eq_zero hB hr, map_zero, inner_zero_left]
  · have hρ : ⟪s.r, s.r⟫ ≠ 0 := fun e => hr (inner_self_eq_zero.mp e)
    have had := h.alpha_mul hB
    have ha : alpha B s ≠ 0 := by
      intro e; rw [e, zero_mul] at had; exact hρ had.symm
    have key : alpha B s * ⟪B s.p, (cgStep 𝒪 .FR B s).p⟫ = 0 := by
      rw [cgStep_p, beta_FR, inner_add_right, inner_smul_right, mul_add, cgStep_r,
        resid_Bp s.r s.p _ (h.alpha_real hB) had, cgStep_rr, cgStep_r, h.rr,
        ← inner_conj_symm (B s.p) s.p, hB.inner_self_real, ← h.cj]
      have : alpha B s * (⟪s.r - alpha B s • B s.p, s.r - alpha B s • B s.p⟫ / ⟪s.r, s.r⟫ * ⟪s.r, B s.p⟫)
          = ⟪s.r - alpha B s • B s.p, s.r - alpha B s • B s.p⟫ / ⟪s.r, s.r⟫ * (alpha B s * ⟪s.r, B s.p⟫) := by
        ring
      rw [this, had, div_mul_cancel₀ _ hρ]; ring
    exact (mul_eq_zero.mp key).resolve_left ha

/-- **the FR loop body preserves the invariant** -/
theorem cgStep_fr_inv (hB : SPD B) {s : CGState ℂ E} (h : CGInv B b s) :
    CGInv B b (cgStep 𝒪 .FR B s) where
  res := by
    rw [cgStep_r, cgStep_x, map_add, map_smul, h.res]; abel
  rr := cgStep_rr F Fb Ex R M B .FR s
  pr := by
    rw [cgStep_p, inner_add_left, inner_smul_left, cg_p_orth_next F Fb Ex R M hB .FR h, mul_zero,
      add_zero]
  cj := by
    have h0 : ⟪s.p, B (cgStep 𝒪 .FR B s).p⟫ = 0 := by
      rw [← hB.sa]; exact fr_Bp_orth F Fb Ex R M hB h
    have key : ∀ (r' q : E) (β : ℂ), ⟪s.p, B q⟫ = 0 → ⟪r', B q⟫ = ⟪r' + β • s.p, B q⟫ := by
      intro r' q β hq
      rw [inner_add_left, inner_smul_left, hq, mul_zero, add_zero]
    exact key _ _ _ h0

/-- **the loop body preserves the invariant for the default (FR) and the Polak–Ribière update** -/
theorem cgStep_inv (hB : SPD B) (u : Update) (hu : u = .FR ∨ u = .PRP) {s : CGState ℂ E}
    (h : CGInv B b s) : CGInv B b (cgStep 𝒪 u B s) := by
  rcases hu with rfl | rfl
  · exact cgStep_fr_inv F Fb Ex R M hB h
  · rw [prp_eq_fr F Fb Ex R M hB h]; exact cgStep_fr_inv F Fb Ex R M hB h

/-- **consecutive search directions are `B`-conjugate** -/
theorem cg_conjugate (hB : SPD B) (u : Update) (hu : u = .FR ∨ u = .PRP) {s : CGState ℂ E}
    (h : CGInv B b s) : ⟪(cgStep 𝒪 u B s).p, B s.p⟫ = 0 := by
  rw [inner_eq_zero_symm]
  rcases hu with rfl | rfl
  · exact fr_Bp_orth F Fb Ex R M hB h
  · rw [prp_eq_fr F Fb Ex R M hB h]; exact fr_Bp_orth F Fb Ex R M hB h

end CG
end DirectVerif.C19
