import DirectVerif.Model.Ckpt
/-!
# `int(str(n)) = n` for the label written to `last_model.txt` — no Mathlib
-/
namespace DirectVerif.Ckpt

theorem isSpace_of_isDigit {c : Nat} (h : isDigit c = true) : isSpace c = false := by
  simp only [isDigit, Bool.and_eq_true, decide_eq_true_eq] at h
  simp only [isSpace, Bool.or_eq_false_iff, beq_eq_false_iff_ne, Bool.and_eq_false_iff, decide_eq_false_iff_not]
  omega

theorem ne_newline_of_isDigit {c : Nat} (h : isDigit c = true) : (c != 10) = true := by
  simp only [isDigit, Bool.and_eq_true, decide_eq_true_eq] at h
  simp only [bne_iff_ne, ne_eq]
  omega

theorem digitsFuel_all (f n : Nat) : (digitsFuel f n).all isDigit = true := by
  induction f generalizing n with
  | zero => simp [digitsFuel]
  | succ f ih =>
    unfold digitsFuel
    split
    · simp [isDigit]; omega
    · simp only [List.all_append, ih, List.all_cons, List.all_nil, Bool.and_true, Bool.true_and]
      simp [isDigit]; omega

theorem digitsFuel_ne_nil (f n : Nat) : digitsFuel (f + 1) n ≠ [] := by
  unfold digitsFuel
  split <;> simp

theorem digitsFuel_value (f n : Nat) (h : n < f) :
    (digitsFuel f n).foldl (fun a c => 10 * a + (c - 48)) 0 = n := by
  induction f generalizing n with
  | zero => omega
  | succ f ih =>
    unfold digitsFuel
    split
    · simp
    · rw [List.foldl_append, ih (n / 10) (by omega)]
      simp only [List.foldl_cons, List.foldl_nil]
      omega

theorem dropWhile_isSpace_of_all {l : List Nat} (h : l.all isDigit = true) : l.dropWhile isSpace = l := by
  cases l with
  | nil => rfl
  | cons c r =>
    simp only [List.all_cons, Bool.and_eq_true] at h
    simp [List.dropWhile, isSpace_of_isDigit h.1]

theorem strip_of_all {l : List Nat} (h : l.all isDigit = true) : strip l = l := by
  unfold strip
  rw [dropWhile_isSpace_of_all h, dropWhile_isSpace_of_all (by simpa using h), List.reverse_reverse]

theorem readline_of_all {l : List Nat} (h : l.all isDigit = true) : readline l = l := by
  unfold readline
  induction l with
  | nil => rfl
  | cons c r ih =>
    simp only [List.all_cons, Bool.and_eq_true] at h
    rw [List.takeWhile_cons, ne_newline_of_isDigit h.1]
    simp [ih h.2]

theorem parseNat_digits (n : Nat) : parseNat (digits n) = some n := by
  unfold parseNat digits
  rw [if_pos ⟨digitsFuel_ne_nil n n, digitsFuel_all _ _⟩, digitsFuel_value _ _ (Nat.lt_succ_self n)]

/-- the label survives the round trip through `last_model.txt` -/
theorem parseInt_strInt (n : Nat) : parseInt (readline (strInt (n : Int))) = some (n : Int) := by
  have hs : strInt (n : Int) = digits n := by
    unfold strInt
    rw [if_neg (by omega)]
    simp
  have ha : (digits n).all isDigit = true := digitsFuel_all _ _
  rw [hs, readline_of_all ha]
  unfold parseInt
  simp only [strip_of_all ha, parseNat_digits]
  rfl

end DirectVerif.Ckpt
