import Mathlib.Analysis.Real.Sqrt
import DirectVerif.Model.Sens
/-!
# Helper lemmas for C09: sums of squares over a coil fibre, over ℝ
-/
namespace DirectVerif.Sens

/-- the real instance of the two non-ring operations: field division and `Real.sqrt` -/
noncomputable def realNum : Num ℝ := { div := fun a b => a / b, sqrt := Real.sqrt }

theorem realNum_sqrt (x : ℝ) : realNum.sqrt x = Real.sqrt x := rfl

theorem safeDivide_real_zero (x n : ℝ) (h : n = 0) : safeDivide realNum x n = 0 := by
  simp [safeDivide, h]

theorem safeDivide_real_ne (x n : ℝ) (h : n ≠ 0) : safeDivide realNum x n = x / n := by
  simp [safeDivide, h, realNum]

section generic
variable {α : Type}

/-- the coil fibre of an entrywise-divided map is the entrywise-divided fibre -/
theorem fibre_divMapWith (dv : α → α → α) (S : SMap α) (n : Nat → α) (p : Nat) :
    fibre (divMapWith dv S n) p = (fibre S p).map (fun c => (dv c.1 (n p), dv c.2 (n p))) := by
  unfold fibre divMapWith
  rw [List.filterMap_map, List.map_filterMap]
  congr 1
  funext coil
  simp [List.getElem?_mapIdx]

theorem mem_fibre (S : SMap α) (p : Nat) (coil : List (α × α)) (c : α × α) (hc : coil ∈ S)
    (hp : coil[p]? = some c) : c ∈ fibre S p := by
  unfold fibre
  exact List.mem_filterMap.mpr ⟨coil, hc, hp⟩

/-- two entrywise divisions agree when they agree at every entry of every coil -/
theorem divMapWith_congr (dv dv' : α → α → α) (S : SMap α) (n n' : Nat → α)
    (h : ∀ coil ∈ S, ∀ p c, coil[p]? = some c →
      (dv c.1 (n p), dv c.2 (n p)) = (dv' c.1 (n' p), dv' c.2 (n' p))) :
    divMapWith dv S n = divMapWith dv' S n' := by
  unfold divMapWith
  apply List.map_congr_left
  intro coil hcoil
  apply List.ext_getElem?
  intro p
  simp only [List.getElem?_mapIdx]
  cases hp : coil[p]? with
  | none => rfl
  | some c => simp [h coil hcoil p c hp]

/-- dividing twice entrywise -/
theorem divMapWith_divMapWith (dv : α → α → α) (S : SMap α) (n n' : Nat → α) :
    divMapWith dv (divMapWith dv S n) n' =
      S.map fun coil => coil.mapIdx fun p c =>
        (dv (dv c.1 (n p)) (n' p), dv (dv c.2 (n p)) (n' p)) := by
  unfold divMapWith
  rw [List.map_map]
  apply List.map_congr_left
  intro coil _
  apply List.ext_getElem?
  intro p
  simp only [Function.comp, List.getElem?_mapIdx]
  cases coil[p]? <;> rfl

end generic

/-! ### sums of squares over ℝ -/

theorem sq_nonneg_cx (c : ℝ × ℝ) : 0 ≤ sq c := by
  unfold sq; nlinarith [mul_self_nonneg c.1, mul_self_nonneg c.2]

theorem sq_eq_zero (c : ℝ × ℝ) : sq c = 0 ↔ c = (0, 0) := by
  unfold sq
  constructor
  · intro h
    have h1 : c.1 = 0 := by nlinarith [mul_self_nonneg c.1, mul_self_nonneg c.2]
    have h2 : c.2 = 0 := by nlinarith [mul_self_nonneg c.1, mul_self_nonneg c.2]
    exact Prod.ext h1 h2
  · rintro rfl; simp

theorem sumsq_nonneg (v : List (ℝ × ℝ)) : 0 ≤ (v.map sq).sum := by
  induction v with
  | nil => simp
  | cons c v ih => simp only [List.map_cons, List.sum_cons]; linarith [sq_nonneg_cx c]

theorem sumsq_eq_zero (v : List (ℝ × ℝ)) : (v.map sq).sum = 0 ↔ ∀ c ∈ v, c = (0, 0) := by
  induction v with
  | nil => simp
  | cons c v ih =>
    simp only [List.map_cons, List.sum_cons, List.mem_cons, forall_eq_or_imp]
    constructor
    · intro h
      have h1 := sq_nonneg_cx c
      have h2 := sumsq_nonneg v
      have hc : sq c = 0 := by linarith
      have hv : (v.map sq).sum = 0 := by linarith
      exact ⟨(sq_eq_zero c).mp hc, ih.mp hv⟩
    · rintro ⟨hc, hv⟩
      rw [(sq_eq_zero c).mpr hc, ih.mpr hv]; simp

theorem sumsq_div (v : List (ℝ × ℝ)) (n : ℝ) (hn : n ≠ 0) :
    ((v.map fun c => (c.1 / n, c.2 / n)).map sq).sum = (v.map sq).sum / (n * n) := by
  induction v with
  | nil => simp
  | cons c v ih =>
    simp only [List.map_cons, List.sum_cons, ih]
    unfold sq
    field_simp

theorem sumsq_zero_map (v : List (ℝ × ℝ)) :
    ((v.map fun _ => ((0 : ℝ), (0 : ℝ))).map sq).sum = 0 := by
  induction v with
  | nil => simp
  | cons c v ih => simp only [List.map_cons, List.sum_cons, ih]; simp [sq]

end DirectVerif.Sens
