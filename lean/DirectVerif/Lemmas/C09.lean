import Mathlib.Analysis.Real.Sqrt
import Mathlib.Analysis.Complex.Exponential
import DirectVerif.Model.Sens
/-!
# Helper lemmas for C09: sums of squares over a coil fibre, over ℝ
-/
namespace DirectVerif.Sens

/-- the real instance of the two non-ring operations: field division and `Real.sqrt` -/
noncomputable def realNum : Num ℝ := { div := fun a b => a / b, sqrt := Real.sqrt }

theorem realNum_sqrt (x : ℝ) : realNum.sqrt x = Real.sqrt x := rfl

theorem safeDivide_real_zero (x n : ℝ) (h : n = 0) : safeDivide realNum x n = 0 := by
  simp [safeDivide, h]

theorem safeDivide_real_ne (x n : ℝ) (h : n ≠ 0) : safeDivide realNum x n = x / n := by
  simp [safeDivide, h, realNum]

section generic
variable {α : Type}

/-- the coil fibre of an entrywise-divided map is the entrywise-divided fibre -/
theorem fibre_divMapWith (dv : α → α → α) (S : SMap α) (n : Nat → α) (p : Nat) :
    fibre (divMapWith dv S n) p = (fibre S p).map (fun c => (dv c.1 (n p), dv c.2 (n p))) := by
  unfold fibre divMapWith
  rw [List.filterMap_map, List.map_filterMap]
  congr 1
  funext coil
  simp [List.getElem?_mapIdx]

theorem mem_fibre (S : SMap α) (p : Nat) (coil : List (α × α)) (c : α × α) (hc : coil ∈ S)
    (hp : coil[p]? = some c) : c ∈ fibre S p := by
  unfold fibre
  exact List.mem_filterMap.mpr ⟨coil, hc, hp⟩

/-- two entrywise divisions agree when they agree at every entry of every coil -/
theorem divMapWith_congr (dv dv' : α → α → α) (S : SMap α) (n n' : Nat → α)
    (h : ∀ coil ∈ S, ∀ p c, coil[p]? = some c →
      (dv c.1 (n p), dv c.2 (n p)) = (dv' c.1 (n' p), dv' c.2 (n' p))) :
    divMapWith dv S n = divMapWith dv' S n' := by
  unfold divMapWith
  apply List.map_congr_left
  intro coil hcoil
  apply List.ext_getElem?
  intro p
  simp only [List.getElem?_mapIdx]
  cases hp : coil[p]? with
  | none => rfl
  | some c => simp [h coil hcoil p c hp]

/-- dividing twice entrywise -/
theorem divMapWith_divMapWith (dv : α → α → α) (S : SMap α) (n n' : Nat → α) :
    divMapWith dv (divMapWith dv S n) n' =
      S.map fun coil => coil.mapIdx fun p c =>
        (dv (dv c.1 (n p)) (n' p), dv (dv c.2 (n p)) (n' p)) := by
  unfold divMapWith
  rw [List.map_map]
  apply List.map_congr_left
  intro coil _
  apply List.ext_getElem?
  intro p
  simp only [Function.comp, List.getElem?_mapIdx]
  cases coil[p]? <;> rfl

end generic

/-! ### sums of squares over ℝ -/

theorem sq_nonneg_cx (c : ℝ × ℝ) : 0 ≤ sq c := by
  unfold sq; nlinarith [mul_self_nonneg c.1, mul_self_nonneg c.2]

theorem sq_eq_zero (c : ℝ × ℝ) : sq c = 0 ↔ c = (0, 0) := by
  unfold sq
  constructor
  · intro h
    have h1 : c.1 = 0 := by nlinarith [mul_self_nonneg c.1, mul_self_nonneg c.2]
    have h2 : c.2 = 0 := by nlinarith [mul_self_nonneg c.1, mul_self_nonneg c.2]
    exact Prod.ext h1 h2
  · rintro rfl; simp

theorem sumsq_nonneg (v : List (ℝ × ℝ)) : 0 ≤ (v.map sq).sum := by
  induction v with
  | nil => simp
  | cons c v ih => simp only [List.map_cons, List.sum_cons]; linarith [sq_nonneg_cx c]

theorem sumsq_eq_zero (v : List (ℝ × ℝ)) : (v.map sq).sum = 0 ↔ ∀ c ∈ v, c = (0, 0) := by
  induction v with
  | nil => simp
  | cons c v ih =>
    simp only [List.map_cons, List.sum_cons, List.mem_cons, forall_eq_or_imp]
    constructor
    · intro h
      have h1 := sq_nonneg_cx c
      have h2 := sumsq_nonneg v
      have hc : sq c = 0 := by linarith
      have hv : (v.map sq).sum = 0 := by linarith
      exact ⟨(sq_eq_zero c).mp hc, ih.mp hv⟩
    · rintro ⟨hc, hv⟩
      rw [(sq_eq_zero c).mpr hc, ih.mpr hv]; simp

theorem sumsq_div (v : List (ℝ × ℝ)) (n : ℝ) (hn : n ≠ 0) :
    ((v.map fun c => (c.1 / n, c.2 / n)).map sq).sum = (v.map sq).sum / (n * n) := by
  induction v with
  | nil => simp
  | cons c v ih =>
    simp only [List.map_cons, List.sum_cons, ih]
    unfold sq
    field_simp

theorem sumsq_zero_map (v : List (ℝ × ℝ)) :
    ((v.map fun _ => ((0 : ℝ), (0 : ℝ))).map sq).sum = 0 := by
  induction v with
  | nil => simp
  | cons c v ih => simp only [List.map_cons, List.sum_cons, ih]; simp [sq]


/-! ### phase 3: weights, the Gaussian window over ℝ -/

/-- the real instance of the window operations: integer casts and `x ↦ exp (-x)` -/
noncomputable def realWin : WinNum ℝ := { ofInt := fun n => (n : ℝ), expNeg := fun x => Real.exp (-x) }

section generic2
variable {α : Type}

/-- two different entrywise operations in a row -/
theorem divMapWith_divMapWith' (dv dv' : α → α → α) (S : SMap α) (n n' : Nat → α) :
    divMapWith dv' (divMapWith dv S n) n' =
      S.map fun coil => coil.mapIdx fun p c =>
        (dv' (dv c.1 (n p)) (n' p), dv' (dv c.2 (n p)) (n' p)) := by
  unfold divMapWith
  rw [List.map_map]
  apply List.map_congr_left
  intro coil _
  apply List.ext_getElem?
  intro p
  simp only [Function.comp, List.getElem?_mapIdx]
  cases coil[p]? <;> rfl

theorem fibre_weightPixels [Zero α] [Add α] [Mul α] [DecidableEq α] (w : Nat → α) (S : SMap α) (p : Nat) :
    fibre (weightPixels w S) p = (fibre S p).map (fun c => (c.1 * w p, c.2 * w p)) :=
  fibre_divMapWith _ S w p

/-- an entrywise operation with a per-pixel second argument, as an explicit `map`/`mapIdx` -/
theorem divMapWith_eq_map (dv : α → α → α) (S : SMap α) (n : Nat → α) :
    divMapWith dv S n = S.map fun coil => coil.mapIdx fun p c => (dv c.1 (n p), dv c.2 (n p)) := rfl

end generic2

theorem sumsq_mul (v : List (ℝ × ℝ)) (w : ℝ) :
    ((v.map fun c => (c.1 * w, c.2 * w)).map sq).sum = w * w * (v.map sq).sum := by
  induction v with
  | nil => simp
  | cons c v ih =>
    simp only [List.map_cons, List.sum_cons, ih]
    unfold sq
    ring

theorem sumSqAt_weightPixels (w : Nat → ℝ) (S : SMap ℝ) (p : Nat) :
    sumSqAt (weightPixels w S) p = w p * w p * sumSqAt S p := by
  unfold sumSqAt
  rw [fibre_weightPixels, sumsq_mul]

theorem normAt_weightPixels (w : Nat → ℝ) (S : SMap ℝ) (p : Nat) (hw : 0 ≤ w p) :
    normAt realNum (weightPixels w S) p = w p * normAt realNum S p := by
  unfold normAt
  rw [sumSqAt_weightPixels, realNum_sqrt, realNum_sqrt,
    Real.sqrt_mul (mul_self_nonneg (w p)), Real.sqrt_mul_self hw]

/-- `safe_divide (x·w) (w·n) = safe_divide x n` for a positive weight -/
theorem safeDivide_real_scale (x n w : ℝ) (hw : 0 < w) :
    safeDivide realNum (x * w) (w * n) = safeDivide realNum x n := by
  by_cases hn : n = 0
  · rw [safeDivide_real_zero _ _ hn, safeDivide_real_zero _ _ (by rw [hn, mul_zero])]
  · have hwn : w * n ≠ 0 := mul_ne_zero (ne_of_gt hw) hn
    rw [safeDivide_real_ne _ _ hn, safeDivide_real_ne _ _ hwn]
    field_simp

/-! ### magnitudes: the documented float32 range -/

/-- upper / lower end of the documented range of magnitudes, `2^60` and `2^-60` -/
noncomputable def rangeHi : ℝ := 2 ^ 60
noncomputable def rangeLo : ℝ := 1 / 2 ^ 60

theorem mul_self_le_of_abs_le (x b : ℝ) (h : |x| ≤ b) : x * x ≤ b * b := by
  have h0 : 0 ≤ |x| := abs_nonneg x
  calc x * x = |x| * |x| := (abs_mul_abs_self x).symm
    _ ≤ b * b := mul_le_mul h h h0 (le_trans h0 h)

theorem mul_self_ge_of_abs_ge (x b : ℝ) (hb : 0 ≤ b) (h : b ≤ |x|) : b * b ≤ x * x := by
  calc b * b ≤ |x| * |x| := mul_le_mul h h hb (le_trans hb h)
    _ = x * x := abs_mul_abs_self x

theorem sumsq_le_length (v : List (ℝ × ℝ)) (b : ℝ) (h : ∀ c ∈ v, |c.1| ≤ b ∧ |c.2| ≤ b) :
    (v.map sq).sum ≤ v.length * (2 * (b * b)) := by
  induction v with
  | nil => simp
  | cons c v ih =>
    have hc := h c (by simp)
    have ih' := ih fun d hd => h d (by simp [hd])
    simp only [List.map_cons, List.sum_cons, List.length_cons, Nat.cast_add, Nat.cast_one]
    have h1 := mul_self_le_of_abs_le c.1 b hc.1
    have h2 := mul_self_le_of_abs_le c.2 b hc.2
    have hs : sq c ≤ 2 * (b * b) := by unfold sq; linarith
    have he : ((v.length : ℝ) + 1) * (2 * (b * b)) = v.length * (2 * (b * b)) + 2 * (b * b) := by ring
    rw [he]
    linarith

theorem sq_le_sumsq (v : List (ℝ × ℝ)) (c : ℝ × ℝ) (hc : c ∈ v) : sq c ≤ (v.map sq).sum := by
  induction v with
  | nil => simp at hc
  | cons d v ih =>
    simp only [List.map_cons, List.sum_cons]
    rcases List.mem_cons.mp hc with rfl | h
    · linarith [sumsq_nonneg v]
    · linarith [ih h, sq_nonneg_cx d]

end DirectVerif.Sens
