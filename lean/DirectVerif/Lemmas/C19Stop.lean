import Mathlib.Analysis.Real.Sqrt
import DirectVerif.Lemmas.C19Term
/-!
# C19 — what the stopping rule of `ConjGrad.cg` guarantees on exit

`if rk_norm_sq_new.abs().sqrt().mean() < self.tol: break` — for one sample the statistic is the mean over the
`(re, im)` pair of `√|·|` of the complex number `⟪r, r⟫`, i.e. `‖r‖ / 2` (the imaginary part of `⟪r, r⟫` is zero): the
loop is left when `‖r‖ < 2·tol`.
-/
open ComplexInnerProductSpace DirectVerif.DataConsistency
open scoped ComplexConjugate

namespace DirectVerif.C19
variable {E : Type*} [NormedAddCommGroup E] [InnerProductSpace ℂ E]
variable {G : Type*} [NormedAddCommGroup G] [InnerProductSpace ℂ G]

/-- the test of the code on one sample, over the reals -/
noncomputable def stopTol (tol : ℝ) (c : ℂ) : Bool :=
  decide ((Real.sqrt |c.re| + Real.sqrt |c.im|) / 2 < tol)

/-- on the squared norm of a vector the test reads `‖r‖ < 2·tol` -/
theorem stopTol_inner_self (tol : ℝ) (r : E) : stopTol tol ⟪r, r⟫ = true ↔ ‖r‖ < 2 * tol := by
  have hre : (⟪r, r⟫ : ℂ).re = ‖r‖ ^ 2 := re_inner_self r
  have him : (⟪r, r⟫ : ℂ).im = 0 := inner_self_im (𝕜 := ℂ) r
  unfold stopTol
  rw [decide_eq_true_iff, hre, him, abs_zero, Real.sqrt_zero, add_zero, abs_of_nonneg (sq_nonneg _),
    Real.sqrt_sq (norm_nonneg r)]
  constructor <;> intro h <;> linarith

/-- **the square-root-free form of the test** that the executable model decides over exact rationals (`stopQ`):
for `a, b ≥ 0`, `(√a + √b)/2 < t ⟺ 0 < t ∧ 0 < c ∧ 4ab < c²` with `c = 4t² − a − b` -/
theorem stop_test_iff (a b t : ℝ) (ha : 0 ≤ a) (hb : 0 ≤ b) :
    (Real.sqrt a + Real.sqrt b) / 2 < t ↔
      0 < t ∧ 0 < 4 * t ^ 2 - a - b ∧ 4 * a * b < (4 * t ^ 2 - a - b) ^ 2 := by
  have hp := Real.sqrt_nonneg a
  have hq := Real.sqrt_nonneg b
  have hpa : Real.sqrt a ^ 2 = a := Real.sq_sqrt ha
  have hqb : Real.sqrt b ^ 2 = b := Real.sq_sqrt hb
  set p := Real.sqrt a
  set q := Real.sqrt b
  rw [← hpa, ← hqb]
  constructor
  · intro h
    have h2 : p + q < 2 * t := by linarith
    have ht : 0 < t := by linarith
    have hsq : (p + q) ^ 2 < (2 * t) ^ 2 := by
      apply pow_lt_pow_left₀ h2 (by positivity) (by norm_num)
    have hc : 2 * (p * q) < 4 * t ^ 2 - p ^ 2 - q ^ 2 := by nlinarith
    have hpq : 0 ≤ 2 * (p * q) := by positivity
    refine ⟨ht, by linarith, ?_⟩
    have := pow_lt_pow_left₀ hc hpq (n := 2) (by norm_num)
    nlinarith
  · rintro ⟨ht, hc, h4⟩
    have hpq : 0 ≤ 2 * (p * q) := by positivity
    have h1 : (2 * (p * q)) ^ 2 < (4 * t ^ 2 - p ^ 2 - q ^ 2) ^ 2 := by nlinarith
    have h2 : 2 * (p * q) < 4 * t ^ 2 - p ^ 2 - q ^ 2 := lt_of_pow_lt_pow_left₀ 2 hc.le h1
    have h3 : (p + q) ^ 2 < (2 * t) ^ 2 := by nlinarith
    have h4' : p + q < 2 * t := lt_of_pow_lt_pow_left₀ 2 (by linarith) h3
    linarith

section Loop
universe u v w
variable {K : Type u} {V : Type v} {W : Type w} (o : Ops K V W)

theorem cgIter_succ' (u : Update) (B : V → V) (k : ℕ) (s : CGState K V) :
    cgIter o u B (k + 1) s = cgStep o u B (cgIter o u B k s) := by
  induction k generalizing s with
  | zero => rfl
  | succ k ih => exact ih (cgStep o u B s)

/-- **the loop with its `break`, exactly**: the returned `x` is that of pass `j`, the FIRST pass (`1 ≤ j`) whose new squared
residual norm passes the test, or `j = num_iters` when none does (for any operations record, any test) -/
theorem cgLoop_spec_first (u : Update) (B : V → V) (stop : K → Bool) (n : ℕ) (s : CGState K V) :
    ∃ j, j ≤ n ∧ cgLoop o u B stop n s = (cgIter o u B j s).x ∧
      (j < n → 0 < j ∧ stop (cgIter o u B j s).rr = true) ∧
      (∀ i, 0 < i → i < j → stop (cgIter o u B i s).rr = false) := by
  induction n generalizing s with
  | zero => exact ⟨0, Nat.le_refl 0, rfl, fun h => absurd h (Nat.lt_irrefl 0), fun i h1 h2 => by omega⟩
  | succ n ih =>
    by_cases hs : stop (cgStep o u B s).rr = true
    · refine ⟨1, by omega, ?_, fun _ => ⟨by omega, hs⟩, fun i h1 h2 => by omega⟩
      simp only [cgLoop, hs, if_true]; rfl
    · obtain ⟨j, hj, e, hst, hfirst⟩ := ih (cgStep o u B s)
      refine ⟨j + 1, by omega, ?_, fun h => ⟨by omega, (hst (by omega)).2⟩, ?_⟩
      · simp only [cgLoop, hs]
        exact e
      · intro i h1 h2
        cases i with
        | zero => omega
        | succ i =>
          cases i with
          | zero =>
            have e1 : cgIter o u B 1 s = cgStep o u B s := rfl
            rw [e1]; simpa using hs
          | succ i => exact hfirst (i + 1) (by omega) (by omega)

/-- with `num_iters = 0` the block returns its starting point -/
theorem cg_zero_iters (u : Update) (stop : K → Bool) (lam : K) (x0 : V) (y : W) (z : V) :
    cg o u 0 stop lam x0 y z = x0 := rfl

/-- a test that never fires (`tol ≤ 0`) makes the block run all `num_iters` passes -/
theorem cgLoop_never_stop (u : Update) (B : V → V) (n : ℕ) (s : CGState K V) :
    cgLoop o u B (fun _ => false) n s = (cgIter o u B n s).x := by
  induction n generalizing s with
  | zero => rfl
  | succ n ih => simp only [cgLoop, Bool.false_eq_true, if_false]; exact ih (cgStep o u B s)

end Loop

theorem stopTol_nonpos (tol : ℝ) (h : tol ≤ 0) (c : ℂ) : stopTol tol c = false := by
  unfold stopTol
  rw [decide_eq_false_iff_not, not_lt]
  have := Real.sqrt_nonneg |c.re|
  have := Real.sqrt_nonneg |c.im|
  linarith

end DirectVerif.C19
