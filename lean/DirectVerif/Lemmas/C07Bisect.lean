import DirectVerif.Model.C07Bisect
import DirectVerif.Lemmas.C07
import Mathlib.Tactic.Linarith
import Mathlib.Tactic.Ring
/-!
# C07 — theorems about the interval bookkeeping of the VD-Poisson bisection (`Model/C07Bisect.lean`)

Property-level statements (namespace `DirectVerif.C07`), kept in their own module so that they build independently of
the equispaced / Magic proofs; listed in `EXTRA_LEAN_MODULES` of the check (hygiene + axiom audit).
-/
set_option linter.unusedVariables false
set_option linter.unusedSimpArgs false
namespace DirectVerif.C07
open DirectVerif DirectVerif.MaskBudget

theorem applyPost_id' (post : List PostStmt) (h : ∀ s ∈ post, s.modifiesMask = false) (a : ℚ) :
    applyPost post a = a := by
  unfold applyPost
  induction post generalizing a with
  | nil => rfl
  | cons s post ih =>
    simp only [List.foldl_cons, h s List.mem_cons_self, Bool.false_eq_true, if_false]
    exact ih (fun t ht => h t (List.mem_cons_of_mem _ ht)) a

/-! ### Variable-density Poisson: the interval bookkeeping (`Model/C07Bisect.lean`)

`bisectIv mid` carries the slope interval; `mid` is any midpoint function (the driver runs the binary64 one). -/

/-- a midpoint function stays inside the interval -/
def IsMid (mid : ℚ → ℚ → ℚ) : Prop := ∀ lo hi, lo < hi → lo ≤ mid lo hi ∧ mid lo hi ≤ hi

theorem exactMid_isMid : IsMid exactMid := by
  intro lo hi h; unfold exactMid; constructor <;> linarith

/-- **post-condition with the interval**: whatever the midpoint function, the kernel results and the configured
slopes, a returned mask realises the requested acceleration within the tolerance -/
theorem bisection_iv_post (mid : ℚ → ℚ → ℚ) (R tol : ℚ) :
    ∀ (accs : List ℚ) (lo hi : ℚ) (n : Nat) (a : ℚ) (m : Nat) (s : ℚ),
      bisectIv mid R tol accs lo hi n = .returned a m s → |a - R| < tol := by
  intro accs
  induction accs with
  | nil => intro lo hi n a m s h; unfold bisectIv at h; split_ifs at h
  | cons x xs ih =>
    intro lo hi n a m s h
    unfold bisectIv at h
    split_ifs at h with h0 h1 h2 h3 h4
    · simp only [IvOutcome.returned.injEq] at h
      rw [← h.1, ← absQ_eq]; exact h1
    · exact ih _ _ _ _ _ _ h
    · exact ih _ _ _ _ _ _ h

/-- … and for the mask the caller gets, for every generated post table without a mask-modifying statement -/
theorem bisection_iv_post_returned (mid : ℚ → ℚ → ℚ) (R tol : ℚ) (accs : List ℚ) (lo hi : ℚ)
    (tbl : List (String × Bool)) (htbl : postOk tbl = true) (effect : ℚ → ℚ) (a : ℚ) (n : Nat) (s : ℚ)
    (hr : poissonIv mid R tol accs lo hi (postOfTable tbl effect) = .returned a n s) : |a - R| < tol := by
  unfold poissonIv at hr
  cases hb : bisectIv mid R tol accs lo hi 0 with
  | returned a' n' s' =>
    rw [hb] at hr
    simp only [IvOutcome.returned.injEq] at hr
    have hid : applyPost (postOfTable tbl effect) a' = a' := by
      apply applyPost_id'
      intro st hs
      simp only [postOfTable, List.mem_map] at hs
      obtain ⟨t, ht, rfl⟩ := hs
      have := List.all_eq_true.mp htbl t ht
      simpa using this
    rw [← hr.1, hid]
    exact bisection_iv_post mid R tol accs lo hi 0 a' n' s' hb
  | raised n' s' => rw [hb] at hr; simp at hr
  | running n' l' h' => rw [hb] at hr; simp at hr
  | notEntered => rw [hb] at hr; simp at hr

/-- **the interval model refines the flag model**: for a midpoint function that stays inside the interval, running
the loop with the interval is `MaskBudget.bisect` on the `stalled` flags computed from the interval -/
theorem bisection_iv_eq_bisect (mid : ℚ → ℚ → ℚ) (hmid : IsMid mid) (R tol : ℚ) :
    ∀ (accs : List ℚ) (lo hi : ℚ) (n : Nat), lo < hi →
      (bisectIv mid R tol accs lo hi n).erase = bisect R tol (ivProbes mid R tol accs lo hi) n := by
  intro accs
  induction accs with
  | nil =>
    intro lo hi n hlt
    unfold bisectIv ivProbes bisect
    rw [if_neg (by intro h; exact h.2 hlt)]
    rfl
  | cons x xs ih =>
    intro lo hi n hlt
    obtain ⟨m1, m2⟩ := hmid lo hi hlt
    by_cases h1 : absQ (x - R) < tol
    · simp only [bisectIv, ivProbes, bisect, if_pos hlt, if_pos h1, IvOutcome.erase]
    · by_cases h2 : mid lo hi = lo ∨ mid lo hi = hi
      · have hd : decide (mid lo hi = lo ∨ mid lo hi = hi) = true := decide_eq_true h2
        simp only [bisectIv, ivProbes, bisect, if_pos hlt, if_neg h1, if_pos h2, IvOutcome.erase, hd, if_true]
      · have hd : decide (mid lo hi = lo ∨ mid lo hi = hi) = false := decide_eq_false h2
        rw [not_or] at h2
        by_cases h3 : x < R
        · simp only [bisectIv, ivProbes, bisect, if_pos hlt, if_neg h1, if_pos h3, hd, h2.1, h2.2, or_self, if_false,
            Bool.false_eq_true]
          exact ih _ _ _ (lt_of_le_of_ne m2 h2.2)
        · simp only [bisectIv, ivProbes, bisect, if_pos hlt, if_neg h1, if_neg h3, hd, h2.1, h2.2, or_self, if_false,
            Bool.false_eq_true]
          exact ih _ _ _ (lt_of_le_of_ne m1 (Ne.symm h2.1))

/-- **every probed slope lies inside the configured interval** (option `slopes`, or `0 … max(rows, cols)`) -/
theorem bisection_iv_slopes_inside (mid : ℚ → ℚ → ℚ) (hmid : IsMid mid) (R tol : ℚ) :
    ∀ (accs : List ℚ) (lo hi : ℚ), ∀ s ∈ probedSlopes mid R tol accs lo hi, lo ≤ s ∧ s ≤ hi := by
  intro accs
  induction accs with
  | nil => intro lo hi s hs; simp [probedSlopes] at hs
  | cons x xs ih =>
    intro lo hi s hs
    unfold probedSlopes at hs
    by_cases hlt : lo < hi
    · rw [if_pos hlt] at hs
      obtain ⟨m1, m2⟩ := hmid lo hi hlt
      split_ifs at hs with h1 h2 h3
      · simp only [List.mem_singleton] at hs; subst hs; exact ⟨m1, m2⟩
      · simp only [List.mem_singleton] at hs; subst hs; exact ⟨m1, m2⟩
      · rcases List.mem_cons.mp hs with h | h
        · subst h; exact ⟨m1, m2⟩
        · obtain ⟨a, b⟩ := ih _ _ s h
          exact ⟨le_trans m1 a, b⟩
      · rcases List.mem_cons.mp hs with h | h
        · subst h; exact ⟨m1, m2⟩
        · obtain ⟨a, b⟩ := ih _ _ s h
          exact ⟨a, le_trans b m2⟩
    · rw [if_neg hlt] at hs
      simp at hs

/-- with the exact midpoint the interval halves at every iteration that does not stop … -/
theorem bisection_exact_halves (R tol : ℚ) :
    ∀ (accs : List ℚ) (lo hi : ℚ) (n m : Nat) (lo' hi' : ℚ), lo < hi →
      bisectIv exactMid R tol accs lo hi n = .running m lo' hi' →
        (hi' - lo') * 2 ^ (m - n) = hi - lo ∧ lo' < hi' ∧ n ≤ m := by
  intro accs
  induction accs with
  | nil =>
    intro lo hi n m lo' hi' hlt h
    unfold bisectIv at h
    rw [if_neg (by intro h; exact h.2 hlt)] at h
    simp only [IvOutcome.running.injEq] at h
    obtain ⟨rfl, rfl, rfl⟩ := h
    simp [hlt]
  | cons x xs ih =>
    intro lo hi n m lo' hi' hlt h
    unfold bisectIv at h
    rw [if_pos hlt] at h
    split_ifs at h with h1 h2 h3
    · have hs : (exactMid lo hi) < hi := by unfold exactMid; linarith
      obtain ⟨e, l, k⟩ := ih _ _ _ _ _ _ hs h
      refine ⟨?_, l, by omega⟩
      have : m - n = (m - (n + 1)) + 1 := by omega
      rw [this, pow_succ, ← mul_assoc, e]
      unfold exactMid; ring
    · have hs : lo < (exactMid lo hi) := by unfold exactMid; linarith
      obtain ⟨e, l, k⟩ := ih _ _ _ _ _ _ hs h
      refine ⟨?_, l, by omega⟩
      have : m - n = (m - (n + 1)) + 1 := by omega
      rw [this, pow_succ, ← mul_assoc, e]
      unfold exactMid; ring

/-- … and never runs out of slopes: over ℚ the code would raise only through a midpoint equal to an end point, which
the exact midpoint of a proper interval never is — raising is a binary64 effect (≥ 45 halvings) -/
theorem bisection_exact_never_raises (R tol : ℚ) :
    ∀ (accs : List ℚ) (lo hi : ℚ) (n m : Nat) (s : ℚ), lo < hi →
      bisectIv exactMid R tol accs lo hi n ≠ .raised m s := by
  intro accs
  induction accs with
  | nil => intro lo hi n m s hlt h; unfold bisectIv at h; split_ifs at h
  | cons x xs ih =>
    intro lo hi n m s hlt h
    unfold bisectIv at h
    rw [if_pos hlt] at h
    have h1 : exactMid lo hi ≠ lo := by unfold exactMid; intro e; linarith
    have h2 : exactMid lo hi ≠ hi := by unfold exactMid; intro e; linarith
    split_ifs at h with a b c
    · rcases b with b | b
      · exact h1 b
      · exact h2 b
    · exact ih _ _ _ _ _ (by unfold exactMid; linarith) h
    · exact ih _ _ _ _ _ (by unfold exactMid; linarith) h

/-- binary64 rounding as executed by the driver: `1/3` → `6004799503160661 · 2⁻⁵⁴`; small dyadic values are exact; the
midpoint of two neighbouring doubles is one of them (the stall the code tests for) -/
example : rnd53 (1 / 3) = 6004799503160661 / 18014398509481984 := by decide +kernel
example : floatMid 0 128 = 64 ∧ floatMid (1 / 2) 60 = 121 / 4 := by decide +kernel
example : floatMid 1 (1 + 1 / 2 ^ 52) = 1 := by decide +kernel
example : bisectIv floatMid 4 (1 / 10) [5, 3, 81 / 20] 0 64 0 = .returned (81 / 20) 3 24 := by decide +kernel
example : bisectIv floatMid 4 (1 / 10) [3] 1 (1 + 1 / 2 ^ 52) 0 = .raised 1 1 := by decide +kernel
example : IsMid exactMid := exactMid_isMid

end DirectVerif.C07
