import DirectVerif.Lemmas.C19Energy
/-!
# C19 — `ConjGrad` with an un-normalised operator pair

With `normalized=False` the backward operator is `c ·` the adjoint `Fa` of the forward operator, `c = 1/N = d²`.
The block then builds `B = c A†A + λ` and `b = c A† y + λ z`: exactly what it builds for the ADJOINT pair
`(d F, d Fa)` and data `d y`.  So every theorem about the normalised case transfers: the block solves
`(c A†A + λ) x = c A† y + λ z`, i.e. minimises `½(c‖A x − M y‖² + λ‖x − z‖²)`.
-/
open ComplexInnerProductSpace DirectVerif.DataConsistency
open scoped ComplexConjugate

namespace DirectVerif.C19
variable {E : Type*} [NormedAddCommGroup E] [InnerProductSpace ℂ E]
variable {G : Type*} [NormedAddCommGroup G] [InnerProductSpace ℂ G]
variable {F Fa : G →ₗ[ℂ] G} {Ex : E →ₗ[ℂ] G} {R : G →ₗ[ℂ] E} {M : G →ₗ[ℂ] G}

/-- scaling both operators of an adjoint pair by a real `d` keeps them adjoint -/
theorem physics_scaled (P : Physics F Fa Ex R M) (d : ℝ) :
    Physics ((d : ℂ) • F) ((d : ℂ) • Fa) Ex R M where
  bwd_adjoint := by
    intro u v
    simp only [LinearMap.smul_apply, inner_smul_left, inner_smul_right, Complex.conj_ofReal, P.bwd_adjoint]
  reduce_adjoint := P.reduce_adjoint
  mask_sa := P.mask_sa
  mask_idem := P.mask_idem

/-- the loop only sees the vector operations, which do not depend on the five operators -/
theorem cgLoop_ops_irrelevant (F₁ Fb₁ F₂ Fb₂ : G →ₗ[ℂ] G) (Ex₁ Ex₂ : E →ₗ[ℂ] G) (R₁ R₂ : G →ₗ[ℂ] E)
    (M₁ M₂ : G →ₗ[ℂ] G) (u : Update) (B : E → E) (stop : ℂ → Bool) (n : ℕ) (s : CGState ℂ E) :
    cgLoop (mathOps F₁ Fb₁ Ex₁ R₁ M₁) u B stop n s = cgLoop (mathOps F₂ Fb₂ Ex₂ R₂ M₂) u B stop n s := by
  induction n generalizing s with
  | zero => rfl
  | succ n ih =>
    have e : cgStep (mathOps F₁ Fb₁ Ex₁ R₁ M₁) u B s = cgStep (mathOps F₂ Fb₂ Ex₂ R₂ M₂) u B s := by
      cases u <;> rfl
    simp only [cgLoop, e, ih]

/-- **un-normalised pair = adjoint pair with rescaled data** (same `B_op`, same right-hand side, same iterates) -/
theorem cg_unnormalised (d : ℝ) (u : Update) (n : ℕ) (stop : ℂ → Bool) (lam : ℂ) (x0 z : E) (y : G) :
    cg (mathOps F (((d : ℂ) * (d : ℂ)) • Fa) Ex R M) u n stop lam x0 y z =
      cg (mathOps ((d : ℂ) • F) ((d : ℂ) • Fa) Ex R M) u n stop lam x0 ((d : ℂ) • y) z := by
  have hB : bOp (mathOps F (((d : ℂ) * (d : ℂ)) • Fa) Ex R M) lam =
      bOp (mathOps ((d : ℂ) • F) ((d : ℂ) • Fa) Ex R M) lam := by
    funext x
    show R ((((d : ℂ) * (d : ℂ)) • Fa) (M (F (Ex x)))) + lam • x =
      R (((d : ℂ) • Fa) (M (((d : ℂ) • F) (Ex x)))) + lam • x
    simp only [LinearMap.smul_apply, map_smul, smul_smul]
  have hI : cgInit (mathOps F (((d : ℂ) * (d : ℂ)) • Fa) Ex R M) lam y z x0 =
      cgInit (mathOps ((d : ℂ) • F) ((d : ℂ) • Fa) Ex R M) lam ((d : ℂ) • y) z x0 := by
    have hr : rhs (mathOps F (((d : ℂ) * (d : ℂ)) • Fa) Ex R M) lam y z =
        rhs (mathOps ((d : ℂ) • F) ((d : ℂ) • Fa) Ex R M) lam ((d : ℂ) • y) z := by
      show R ((((d : ℂ) * (d : ℂ)) • Fa) (M y)) + lam • z = R (((d : ℂ) • Fa) (M ((d : ℂ) • y))) + lam • z
      simp only [LinearMap.smul_apply, map_smul, smul_smul]
    unfold cgInit
    rw [hr, hB]
    rfl
  unfold cg
  rw [hI, hB]
  exact cgLoop_ops_irrelevant _ _ _ _ _ _ _ _ _ _ u _ stop n _

end DirectVerif.C19
