import DirectVerif.Driver.C05
import DirectVerif.Props.C05
/-!
# C05 — the hypotheses of the property theorems, discharged for the bodies the driver executes

`Props/C05.lean` states history independence for bodies `prog` with `SitesIn t.length prog` (every site
index is listed in the table) and `LibcOk false prog` (no `rand()` loop before an `srand` of the same
call).  The correspondence drives the model with bodies built by `Driver.C05.progOf` from the *recorded*
statements of real calls.  Here both hypotheses are proved for **every** recorded event list whose
indices are in range (`evsOk`, a decidable check on the protocol line) under a `.pyx` table in which every
kernel seeds first — so the theorems apply to exactly the programs whose outputs are diffed against
the implementation, for all call histories.
-/
namespace DirectVerif.C05Driver
open DirectVerif DirectVerif.Rng DirectVerif.Driver.C05

/-- site indices of draws / reseeds are `< nSites`, kernel indices are `< nKernels` -/
def evsOk (nSites nKernels : Nat) : List Int → Bool
  | kind :: site :: _ :: es =>
    (if kind = 0 then decide (site.toNat < nSites)
     else if kind = 1 then decide (site.toNat < nSites)
     else decide (site.toNat < nKernels)) && evsOk nSites nKernels es
  | _ => true

theorem getD_of_all {flags : List Bool} (hf : flags.all id = true) {i : Nat} (hi : i < flags.length) :
    flags.getD i false = true := by
  rw [List.getD_eq_getElem?_getD, List.getElem?_eq_getElem hi]
  exact List.all_eq_true.mp hf _ (List.getElem_mem hi)

/-- **every body the driver builds is admissible**: listed sites only, libc discipline kept -/
theorem progOf_ok (n : Nat) (flags : List Bool) (hf : flags.all id = true) (key : List Int) :
    ∀ (evs acc : List Int) (last : Sym), evsOk n flags.length evs = true →
      SitesIn n (progOf flags key evs acc last) ∧ ∀ b, LibcOk b (progOf flags key evs acc last)
  | [], acc, last, _ => by
    simp only [progOf]
    exact ⟨.ret _, fun _ => .ret _⟩
  | [_], acc, last, _ => by
    simp only [progOf]
    exact ⟨.ret _, fun _ => .ret _⟩
  | [_, _], acc, last, _ => by
    simp only [progOf]
    exact ⟨.ret _, fun _ => .ret _⟩
  | kind :: site :: r :: es, acc, last, h => by
    rw [evsOk, Bool.and_eq_true] at h
    have ih := fun acc' last' => progOf_ok n flags hf key es acc' last' h.2
    rw [progOf]
    by_cases h0 : kind = 0
    · have hs : site.toNat < n := by simpa [h0] using h.1
      simp only [h0, if_true]
      exact ⟨.draw hs fun v => (ih _ _).1, fun b => .draw fun v => (ih _ _).2 b⟩
    · by_cases h1 : kind = 1
      · have hs : site.toNat < n := by simpa [h0, h1] using h.1
        simp only [h1, if_true]
        exact ⟨.reseed hs (ih _ _).1, fun b => .reseed ((ih _ _).2 b)⟩
      · have hs : site.toNat < flags.length := by simpa [h0, h1] using h.1
        simp only [h0, h1, if_false, kernelProg, getD_of_all hf hs, if_true]
        exact ⟨.srand (.crand fun x => (ih _ _).1), fun b => .srand (.crand fun x => (ih _ _).2 true)⟩

/-- the body of a recorded call `(key, events)` -/
theorem bodyOf_ok (n : Nat) (flags : List Bool) (hf : flags.all id = true) (g : List Int × List Int)
    (hg : evsOk n flags.length g.2 = true) :
    SitesIn n (bodyOf flags g ()) ∧ LibcOk false (bodyOf flags g ()) :=
  ⟨(progOf_ok n flags hf g.1 g.2 [] [] hg).1, (progOf_ok n flags hf g.1 g.2 [] [] hg).2 false⟩

/-- **history independence of the driver's own calls**, no hypothesis left but the two decidable ones (table and
event indices): for every admissible site table `t`, every `.pyx` flag list in which every kernel seeds first,
every recorded body with indices in range, every seed, any two instances and any two states (reached by any
histories), the symbolic output the driver prints for the seeded call is the same -/
theorem driver_call_history_independent (t : Table) (ht : tableOk t = true) (flags : List Bool)
    (hf : flags.all id = true) (g : List Int × List Int) (hg : evsOk t.length flags.length g.2 = true)
    (s : Int) (i i' : Nat) (st st' : State Sym Sym) :
    (call t symOps (bodyOf flags g ()) (some s) i st).1 = (call t symOps (bodyOf flags g ()) (some s) i' st').1 :=
  C05.seeded_call_history_independent t ht symOps _ (bodyOf_ok t.length flags hf g hg).1
    (bodyOf_ok t.length flags hf g hg).2 s i i' st st'

/-- … and every such call restores the private streams and leaves numpy / torch / python alone -/
theorem driver_call_restores (t : Table) (ht : tableOk t = true) (flags : List Bool)
    (hf : flags.all id = true) (g : List Int × List Int) (hg : evsOk t.length flags.length g.2 = true)
    (seed : Option Int) (i : Nat) (st : State Sym Sym) :
    (call t symOps (bodyOf flags g ()) seed i st).2.priv = st.priv ∧
    (call t symOps (bodyOf flags g ()) seed i st).2.np = st.np ∧
    (call t symOps (bodyOf flags g ()) seed i st).2.torch = st.torch ∧
    (call t symOps (bodyOf flags g ()) seed i st).2.py = st.py :=
  C05.seeded_call_restores t ht symOps _ (bodyOf_ok t.length flags hf g hg).1 seed i st

/-- the flags the driver derives from an admissible `.pyx` event table are all `true` -/
theorem flags_of_pyxTableOk (tbl : List (String × List String)) (h : pyxTableOk tbl = true) :
    (tbl.map fun k => pyxSrandFirst k.2).all id = true := by
  simp only [pyxTableOk, Bool.and_eq_true, List.all_eq_true] at h
  simp only [List.all_map, List.all_eq_true]
  intro k hk
  exact (h.2 k hk).1.1

/-! non-vacuity -/
example : evsOk 20 3 [1, 4, 0, 0, 0, 0, 0, 8, 1, 2, 0, 2] = true := by decide
example : evsOk 20 3 [2, 99, 0] = false := by decide
example : (call [⟨.priv, true⟩] symOps (bodyOf [true] ([7], [0, 0, 1, 2, 0, 2]) ()) (some 3) 0 initState).1 =
    (call [⟨.priv, true⟩] symOps (bodyOf [true] ([7], [0, 0, 1, 2, 0, 2]) ()) (some 3) 5
      { initState with libc := [9, 9], np := [8] }).1 := by decide

end DirectVerif.C05Driver
