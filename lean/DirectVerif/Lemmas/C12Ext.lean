import DirectVerif.Lemmas.C12
/-!
# C12 — helper lemmas added in phase 3

Flat enumeration of a concatenation, the index structure of the synthetic datasets, the request sequence of
`make_blobs`.  Core-only (no Mathlib).
-/
namespace DirectVerif.Dataset
open DirectVerif

/-! ### flat enumeration of a concatenation -/

theorem flatPairsFrom_length (d0 : Nat) (sizes : List Nat) : (flatPairsFrom d0 sizes).length = sizes.sum := by
  induction sizes generalizing d0 with
  | nil => rfl
  | cons n ns ih => simp [flatPairsFrom, ih]

theorem flatPairsFrom_getElem? (d0 : Nat) (sizes : List Nat) (d j : Nat) (hd : d < sizes.length) (hj : j < sizes[d]) :
    (flatPairsFrom d0 sizes)[(sizes.take d).sum + j]? = some (d0 + d, j) := by
  induction sizes generalizing d0 d with
  | nil => simp at hd
  | cons n ns ih =>
    cases d with
    | zero =>
      simp only [List.getElem_cons_zero] at hj
      simp only [flatPairsFrom, List.take_zero, List.sum_nil, Nat.zero_add, Nat.add_zero]
      rw [List.getElem?_append_left (by simpa using hj)]
      simp [hj]
    | succ d =>
      simp only [List.getElem_cons_succ] at hj
      have hd' : d < ns.length := by simpa using hd
      simp only [flatPairsFrom, List.take_succ_cons, List.sum_cons]
      rw [List.getElem?_append_right (by simp; omega)]
      simp only [List.length_map, List.length_range]
      have := ih (d0 + 1) d hd' hj
      rw [show n + (ns.take d).sum + j - n = (ns.take d).sum + j by omega, this]
      congr 2; omega

/-! ### `xs.flatMap (fun x => (range nz).map (f x))`: position `i` is `(xs[i / nz], i % nz)` -/

theorem flatMap_range_length {α β : Type} (xs : List α) (nz : Nat) (f : α → Nat → β) :
    (xs.flatMap fun x => (List.range nz).map (f x)).length = xs.length * nz := by
  induction xs with
  | nil => simp
  | cons x xs ih => simp [List.flatMap_cons, ih, Nat.succ_mul]; omega

theorem flatMap_range_getElem? {α β : Type} (xs : List α) (nz : Nat) (f : α → Nat → β) (i : Nat)
    (hi : i < xs.length * nz) :
    (xs.flatMap fun x => (List.range nz).map (f x))[i]? = (xs[i / nz]?).map fun x => f x (i % nz) := by
  have hnz : 0 < nz := by
    rcases Nat.eq_zero_or_pos nz with h0 | h0
    · subst h0; simp at hi
    · exact h0
  induction xs generalizing i with
  | nil => simp at hi
  | cons x xs ih =>
    simp only [List.flatMap_cons]
    by_cases h : i < nz
    · rw [List.getElem?_append_left (by simpa using h)]
      simp [Nat.div_eq_of_lt h, Nat.mod_eq_of_lt h, h]
    · have hge : nz ≤ i := by omega
      rw [List.getElem?_append_right (by simp; omega)]
      simp only [List.length_map, List.length_range]
      have hi' : i - nz < xs.length * nz := by
        simp only [List.length_cons, Nat.succ_mul] at hi; omega
      rw [ih (i - nz) hi']
      have e1 : i / nz = (i - nz) / nz + 1 := by
        rw [Nat.div_eq i nz]; simp [hnz, hge]
      have e2 : i % nz = (i - nz) % nz := Nat.mod_eq_sub_mod hge
      rw [e1, e2, List.getElem?_cons_succ]

/-! ### `make_blobs`: the per-centre sample counts add up to `n_samples` -/

theorem sum_map_const {α : Type} (l : List α) (c : Nat) : (l.map fun _ => c).sum = l.length * c := by
  induction l with
  | nil => simp
  | cons x xs ih => simp [ih, Nat.succ_mul]; omega

theorem sum_map_range_ite (k r : Nat) (h : r ≤ k) :
    ((List.range k).map fun i => if i < r then 1 else 0).sum = r := by
  induction k with
  | zero => simp; omega
  | succ k ih =>
    rw [List.range_succ, List.map_append, List.sum_append]
    by_cases hr : r ≤ k
    · rw [ih hr]; simp; omega
    · have e : r = k + 1 := by omega
      subst e
      have : ((List.range k).map fun i => if i < k + 1 then 1 else 0) = (List.range k).map fun _ => 1 := by
        apply List.map_congr_left
        intro a ha; simp at ha; simp; omega
      rw [this, sum_map_const]; simp

theorem sum_map_add {α : Type} (l : List α) (f g : α → Nat) :
    (l.map fun x => f x + g x).sum = (l.map f).sum + (l.map g).sum := by
  induction l with
  | nil => rfl
  | cons x xs ih => simp [ih]; omega

theorem blobCounts_sum (n k : Nat) (hk : 0 < k) : (blobCounts n k).sum = n := by
  unfold blobCounts
  rw [sum_map_add, sum_map_range_ite k (n % k) (Nat.le_of_lt (Nat.mod_lt _ hk))]
  rw [sum_map_const, List.length_range]
  have := Nat.div_add_mod n k
  omega

/-! ### `FakeMRIBlobsDataset`: every "file" is readable and has `nz` slices -/

theorem readable_all_some {φ : Type} (names : List φ) (nz : Nat) :
    readable (names.map fun f => (f, some nz)) = names.map fun f => (f, nz) := by
  induction names with
  | nil => rfl
  | cons x xs ih => simp only [readable] at ih ⊢; simp [ih]

theorem dataOf_none_const {φ : Type} (names : List φ) (nz : Nat) :
    dataOf none (names.map fun f => (f, nz)) = names.flatMap fun f => (List.range nz).map fun s => (f, s) := by
  induction names with
  | nil => rfl
  | cons x xs ih => simp only [dataOf, sliceList] at ih ⊢; simp [List.flatMap_map]

theorem nodup_map_of_inj {α β : Type} (f : α → β) (hinj : ∀ a b, f a = f b → a = b) (l : List α) (h : l.Nodup) :
    (l.map f).Nodup := by
  unfold List.Nodup at *
  rw [List.pairwise_map]
  exact h.imp (fun hne e => hne (hinj _ _ e))

/-- with the same number of slices in every volume, the running counter is the closed form `c + k · nz` -/
theorem volsFrom_const_getElem? {φ : Type} (names : List φ) (nz c k : Nat) (hk : k < names.length) :
    (volsFrom none c (names.map fun f => (f, nz)))[k]? = some (names[k], c + k * nz, c + k * nz + nz) := by
  induction names generalizing c k with
  | nil => simp at hk
  | cons x xs ih =>
    cases k with
    | zero => simp [volsFrom, sliceList]
    | succ k =>
      have hk' : k < xs.length := by simpa using hk
      simp only [List.map_cons, volsFrom, sliceList, List.length_range, List.getElem?_cons_succ, List.getElem_cons_succ]
      rw [ih (c + nz) k hk']
      congr 3 <;> simp only [Nat.succ_mul] <;> omega

end DirectVerif.Dataset
