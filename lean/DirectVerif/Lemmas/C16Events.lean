import DirectVerif.Model.C16Events
import DirectVerif.Lemmas.C16
/-!
# C16 — between-iteration events leave the trainer state alone; the schedule stays in step across stop / resume
(no Mathlib)
-/
namespace DirectVerif.C16E
open DirectVerif DirectVerif.Train

variable {P O G B L Sc : Type} (ops : Ops P O G B L Sc) (lrAt : Nat → L) (cfg : Cfg) (e : EvCfg) (batch : Nat → B)

theorem all_cons {r : Row} {t : Table} (h : allPrologueZero (r :: t) = true) :
    (r.site = .prologue ∧ r.touch = .zeroGrad ∧ r.needsVal = false) ∧ allPrologueZero t = true := by
  simp only [allPrologueZero, List.all_cons, Bool.and_eq_true, beq_iff_eq, Bool.not_eq_true'] at h
  exact ⟨⟨h.1.1.1, h.1.1.2, h.1.2⟩, by simpa [allPrologueZero] using h.2⟩

theorem wf_all {t : Table} (h : wfBetween t = true) : allPrologueZero t = true := by
  simp only [wfBetween, Bool.and_eq_true] at h; exact h.1

theorem site_of_all (tbl : Table) (h : allPrologueZero tbl = true) (hv : Bool) (st : Site) (hst : st ≠ .prologue)
    (s : St P O G Sc) : site tbl ops lrAt hv st s = s := by
  induction tbl generalizing s with
  | nil => rfl
  | cons r t ih =>
    obtain ⟨⟨hs, _, _⟩, ht⟩ := all_cons h
    have hne : (r.site == st) = false := by
      rw [hs]; cases st <;> first | rfl | exact absurd rfl hst
    simp only [site, List.foldl_cons, hne, Bool.false_and, Bool.false_eq_true, if_false]
    exact ih ht s

/-- a well-formed table lists nothing for any call site but the prologue -/
theorem site_of_wf (tbl : Table) (h : wfBetween tbl = true) (hv : Bool) (st : Site) (hst : st ≠ .prologue)
    (s : St P O G Sc) : site tbl ops lrAt hv st s = s :=
  site_of_all ops lrAt tbl (wf_all h) hv st hst s

theorem site_prologue_of_all (tbl : Table) (h : allPrologueZero tbl = true) (hv : Bool) (s : St P O G Sc)
    (hg : s.grad = ops.zero) : site tbl ops lrAt hv .prologue s = s := by
  induction tbl generalizing s with
  | nil => rfl
  | cons r t ih =>
    obtain ⟨⟨_, htch, _⟩, ht⟩ := all_cons h
    have e1 : applyTouch ops lrAt s r.touch = s := by
      rw [htch]; cases s; simp_all [applyTouch]
    simp only [site, List.foldl_cons, e1, ite_self]
    exact ih ht s hg

/-- … and the prologue clears the gradients, whatever the parameters carried when `train()` was entered -/
theorem site_prologue_clears (tbl : Table) (h : wfBetween tbl = true) (hv : Bool) (s : St P O G Sc) :
    site tbl ops lrAt hv .prologue s = { s with grad := ops.zero } := by
  have hall := wf_all h
  cases tbl with
  | nil => simp [wfBetween] at h
  | cons r t =>
    obtain ⟨⟨hs, htch, hnv⟩, ht⟩ := all_cons hall
    have e1 : applyTouch ops lrAt s r.touch = { s with grad := ops.zero } := by rw [htch]; rfl
    have := site_prologue_of_all ops lrAt t ht hv { s with grad := ops.zero } rfl
    simp only [site, List.foldl_cons, hs, hnv, beq_self_eq_true, Bool.true_and, Bool.not_false, Bool.true_or, if_true, e1]
      at this ⊢
    exact this

/-- a process that starts with empty gradients of its own is not affected by stale gradients on the parameters -/
theorem site_prologue_of_wf (tbl : Table) (h : wfBetween tbl = true) (hv : Bool) (batch : Nat → B) (init : St P O G Sc)
    (p : Proc) (s : St P O G Sc) (hg : s.grad = ops.zero) :
    site tbl ops lrAt hv .prologue (addStale ops batch init p s) = s := by
  rw [site_prologue_clears ops lrAt tbl h hv]
  unfold addStale
  cases p.stale <;> (cases s; simp_all)

/-- an iteration of a live process that is not the killed one, under a well-formed table: exactly the loop body -/
theorem oneIter_alive (tbl : Table) (h : wfBetween tbl = true) (p : Proc) (ps : PS P O G Sc) (it : Nat)
    (hd : ps.dead = false) (hk : p.kill ≠ some it) :
    oneIter tbl ops lrAt cfg e batch p ps it =
      { ps with
        s := iter ops lrAt cfg ps.s it (batch it),
        latest := if ckptGuard it e.ckSteps p.total then some (it, snapshot (iter ops lrAt cfg ps.s it (batch it)))
                  else ps.latest,
        recs := ps.recs ++ [⟨it, ps.s.epoch, (iter ops lrAt cfg ps.s it (batch it)).theta,
                             (iter ops lrAt cfg ps.s it (batch it)).epoch⟩] } := by
  have hs : ∀ (st : Site), st ≠ .prologue → ∀ s : St P O G Sc, site tbl ops lrAt e.hasVal st s = s :=
    fun st hst s => site_of_wf ops lrAt tbl h e.hasVal st hst s
  simp only [oneIter, hd, Bool.false_eq_true, if_false, hk,
    hs .logFirst (by decide), hs .validationLoop (by decide), hs .checkpoint (by decide), hs .writeLogs (by decide),
    ite_self]

theorem oneIter_dead (tbl : Table) (p : Proc) (ps : PS P O G Sc) (it : Nat) (hd : ps.dead = true) :
    oneIter tbl ops lrAt cfg e batch p ps it = ps := by
  simp [oneIter, hd]

theorem runFrom_succ (tbl : Table) (p : Proc) (ps : PS P O G Sc) (a n : Nat) :
    runFrom tbl ops lrAt cfg e batch p ps a (n + 1) =
      oneIter tbl ops lrAt cfg e batch p (runFrom tbl ops lrAt cfg e batch p ps a n) (a + n) := by
  simp [runFrom, List.range'_concat, List.foldl_append]

theorem oneIter_start (tbl : Table) (p : Proc) (ps : PS P O G Sc) (it : Nat) :
    (oneIter tbl ops lrAt cfg e batch p ps it).start = ps.start := by
  unfold oneIter; split
  · rfl
  · split <;> rfl

/-- `start_iter` of a process never changes while it runs -/
theorem runFrom_start (tbl : Table) (p : Proc) (ps : PS P O G Sc) (a n : Nat) :
    (runFrom tbl ops lrAt cfg e batch p ps a n).start = ps.start := by
  induction n with
  | zero => rfl
  | succ n ih => rw [runFrom_succ, oneIter_start, ih]

/-- **Between-iteration events do not disturb the run**: with a well-formed table a process that is not killed in
`a … a+n-1` is, on the trainer state, exactly `runRange` — for every `validation_steps`, `checkpoint_steps`,
`start_with_validation`, with or without validation data -/
theorem runFrom_eq_runRange (tbl : Table) (h : wfBetween tbl = true) (p : Proc) (ps : PS P O G Sc) (a n : Nat)
    (hd : ps.dead = false) (hk : ∀ j, p.kill = some j → j < a ∨ a + n ≤ j) :
    (runFrom tbl ops lrAt cfg e batch p ps a n).s = runRange ops lrAt cfg batch ps.s a n ∧
    (runFrom tbl ops lrAt cfg e batch p ps a n).dead = false ∧
    (runFrom tbl ops lrAt cfg e batch p ps a n).start = ps.start := by
  induction n with
  | zero => exact ⟨rfl, hd, rfl⟩
  | succ n ih =>
    obtain ⟨h1, h2, h3⟩ := ih (fun j hj => by have := hk j hj; omega)
    have hkn : p.kill ≠ some (a + n) := fun hj => by have := hk _ hj; omega
    rw [runFrom_succ, oneIter_alive ops lrAt cfg e batch tbl h p _ _ h2 hkn]
    exact ⟨by simp only [h1]; rfl, h2, h3⟩

/-! ## the schedule across kill / stop / resume -/

def RecOK (r : Rec P) : Prop := r.epochBefore = r.it ∧ r.epochAfter = r.it + 1
def LatestOK (l : Option (Nat × Snap P O Sc)) : Prop := ∀ lab c, l = some (lab, c) → c.epoch = lab + 1

/-- invariant of a process about to run iteration `next` -/
structure Inv (ps : PS P O G Sc) (next : Nat) : Prop where
  ep : ps.dead = false → ps.s.epoch = next
  recs : ∀ r ∈ ps.recs, RecOK r
  latest : LatestOK ps.latest

theorem oneIter_inv (tbl : Table) (h : wfBetween tbl = true) (p : Proc) (ps : PS P O G Sc) (it : Nat)
    (hi : Inv ps it) : Inv (oneIter tbl ops lrAt cfg e batch p ps it) (it + 1) := by
  by_cases hd : ps.dead = true
  · rw [oneIter_dead ops lrAt cfg e batch tbl p ps it hd]
    exact ⟨fun h0 => by simp [hd] at h0, hi.recs, hi.latest⟩
  · have hd' : ps.dead = false := by simpa using hd
    have hep := hi.ep hd'
    by_cases hk : p.kill = some it
    · -- the kill path: `save(iter_idx - 1)` of the state before the iteration
      refine ⟨fun h0 => ?_, ?_, ?_⟩
      · simp [oneIter, hd', hk] at h0
      · simpa [oneIter, hd', hk] using hi.recs
      · intro lab c hl
        simp only [oneIter, hd', Bool.false_eq_true, if_false, hk, if_true] at hl
        by_cases hg : killGuard (it : Int) = true
        · simp only [hg, if_true, Option.some.injEq, Prod.mk.injEq] at hl
          obtain ⟨hl1, hl2⟩ := hl
          have h5 : (5 : Int) ≤ (it : Int) := by simpa [killGuard] using hg
          have : (killLabel (it : Int)).toNat = it - 1 := by simp only [killLabel]; omega
          have hse : (site tbl ops lrAt e.hasVal .killSave ps.s) = ps.s :=
            site_of_wf ops lrAt tbl h e.hasVal .killSave (by decide) ps.s
          rw [← hl2, ← hl1, this, hse]
          simp only [snapshot, hep]; omega
        · have hg' : killGuard (it : Int) = false := by simpa using hg
          simp only [hg', Bool.false_eq_true, if_false] at hl
          exact hi.latest lab c hl
    · rw [oneIter_alive ops lrAt cfg e batch tbl h p ps it hd' hk]
      refine ⟨fun _ => by simp only [iter_epoch, hep], ?_, ?_⟩
      · intro r hr
        simp only [List.mem_append, List.mem_singleton] at hr
        rcases hr with hr | hr
        · exact hi.recs r hr
        · subst hr; exact ⟨hep, by simp only [iter_epoch, hep]⟩
      · intro lab c hl
        by_cases hg : ckptGuard it e.ckSteps p.total = true
        · simp only [hg, if_true, Option.some.injEq, Prod.mk.injEq] at hl
          obtain ⟨hl1, hl2⟩ := hl
          rw [← hl2, ← hl1]; simp only [snapshot, iter_epoch, hep]
        · have hg' : ckptGuard it e.ckSteps p.total = false := by simpa using hg
          simp only [hg', Bool.false_eq_true, if_false] at hl
          exact hi.latest lab c hl

theorem runFrom_inv (tbl : Table) (h : wfBetween tbl = true) (p : Proc) (ps : PS P O G Sc) (a n : Nat)
    (hi : Inv ps a) : Inv (runFrom tbl ops lrAt cfg e batch p ps a n) (a + n) := by
  induction n with
  | zero => exact hi
  | succ n ih => rw [runFrom_succ]; exact oneIter_inv ops lrAt cfg e batch tbl h p _ (a + n) ih

/-- a process starts in step: fresh objects at iteration 0 with `last_epoch = 0`; restored objects at
`start_iter = label + 1` with the `last_epoch = label + 1` of the checkpoint -/
theorem procStart_inv (tbl : Table) (h : wfBetween tbl = true) (rs : Int → Int → Int)
    (hrs : ∀ label : Nat, rs (label : Int) (cfg.k : Int) = (label : Int) + 1)
    (init : St P O G Sc) (h0 : init.epoch = 0) (hg0 : init.grad = ops.zero)
    (latest : Option (Nat × Snap P O Sc)) (hl : LatestOK latest) (p : Proc) :
    Inv (procStart tbl rs ops lrAt cfg e batch init latest p) (procStart tbl rs ops lrAt cfg e batch init latest p).start := by
  unfold procStart
  cases hsel : (if p.resume then latest else none) with
  | none =>
    simp only [site_prologue_of_wf ops lrAt tbl h e.hasVal batch init p init hg0]
    exact ⟨fun _ => h0, fun r hr => by simp at hr, hl⟩
  | some lc =>
    obtain ⟨label, c⟩ := lc
    have hlat : latest = some (label, c) := by
      by_cases hr : p.resume = true
      · simpa [hr] using hsel
      · simp [hr] at hsel
    simp only [site_prologue_of_wf ops lrAt tbl h e.hasVal batch init p (restore ops.zero c) rfl, hrs]
    refine ⟨fun _ => ?_, fun r hr => by simp at hr, hl⟩
    have := hl label c hlat
    simp only [restore, this]; omega

theorem runProc_inv (tbl : Table) (h : wfBetween tbl = true) (rs : Int → Int → Int)
    (hrs : ∀ label : Nat, rs (label : Int) (cfg.k : Int) = (label : Int) + 1)
    (init : St P O G Sc) (h0 : init.epoch = 0) (hg0 : init.grad = ops.zero)
    (latest : Option (Nat × Snap P O Sc)) (hl : LatestOK latest) (p : Proc) :
    let ps := runProc tbl rs ops lrAt cfg e batch init latest p
    (∀ r ∈ ps.recs, RecOK r) ∧ LatestOK ps.latest ∧
    (ps.dead = false → ps.s.epoch = (procStart tbl rs ops lrAt cfg e batch init latest p).start +
      (p.total - (procStart tbl rs ops lrAt cfg e batch init latest p).start)) := by
  intro ps
  have := runFrom_inv ops lrAt cfg e batch tbl h p _ _ (p.total - (procStart tbl rs ops lrAt cfg e batch init latest p).start)
    (procStart_inv ops lrAt cfg e batch tbl h rs hrs init h0 hg0 latest hl p)
  exact ⟨this.recs, this.latest, this.ep⟩

/-- the invariant along a whole history of processes -/
theorem history_inv (tbl : Table) (h : wfBetween tbl = true) (rs : Int → Int → Int)
    (hrs : ∀ label : Nat, rs (label : Int) (cfg.k : Int) = (label : Int) + 1)
    (init : St P O G Sc) (h0 : init.epoch = 0) (hg0 : init.grad = ops.zero)
    (procs : List Proc) (latest : Option (Nat × Snap P O Sc)) (hl : LatestOK latest) :
    ∀ ps ∈ history tbl rs ops lrAt cfg e batch init latest procs, (∀ r ∈ ps.recs, RecOK r) ∧ LatestOK ps.latest := by
  induction procs generalizing latest with
  | nil => intro ps hps; simp [history] at hps
  | cons p rest ih =>
    intro ps hps
    have hp := runProc_inv ops lrAt cfg e batch tbl h rs hrs init h0 hg0 latest hl p
    simp only [history, List.mem_cons] at hps
    rcases hps with hps | hps
    · subst hps; exact ⟨hp.1, hp.2.1⟩
    · exact ih _ hp.2.1 ps hps

/-! ## histories whose resumes all fall on window boundaries reproduce the uninterrupted run -/

/-- invariant: a live process about to run iteration `next` is in the state of the uninterrupted run after `next`
iterations, and every checkpoint is a snapshot of the uninterrupted run -/
structure InvU (init : St P O G Sc) (ps : PS P O G Sc) (next : Nat) : Prop where
  st : ps.dead = false → ps.s = runRange ops lrAt cfg batch init 0 next
  latest : ∀ lab c, ps.latest = some (lab, c) → c = snapshot (runRange ops lrAt cfg batch init 0 (lab + 1))

theorem oneIter_invU (tbl : Table) (h : wfBetween tbl = true) (init : St P O G Sc) (p : Proc) (ps : PS P O G Sc)
    (it : Nat) (hi : InvU ops lrAt cfg batch init ps it) :
    InvU ops lrAt cfg batch init (oneIter tbl ops lrAt cfg e batch p ps it) (it + 1) := by
  by_cases hd : ps.dead = true
  · rw [oneIter_dead ops lrAt cfg e batch tbl p ps it hd]
    exact ⟨fun h0 => by simp [hd] at h0, hi.latest⟩
  · have hd' : ps.dead = false := by simpa using hd
    have hst := hi.st hd'
    by_cases hk : p.kill = some it
    · refine ⟨fun h0 => ?_, ?_⟩
      · simp [oneIter, hd', hk] at h0
      · intro lab c hl
        simp only [oneIter, hd', Bool.false_eq_true, if_false, hk, if_true] at hl
        by_cases hg : killGuard (it : Int) = true
        · simp only [hg, if_true, Option.some.injEq, Prod.mk.injEq] at hl
          obtain ⟨hl1, hl2⟩ := hl
          have h5 : (5 : Int) ≤ (it : Int) := by simpa [killGuard] using hg
          have hlab : (killLabel (it : Int)).toNat = it - 1 := by simp only [killLabel]; omega
          have hse : (site tbl ops lrAt e.hasVal .killSave ps.s) = ps.s :=
            site_of_wf ops lrAt tbl h e.hasVal .killSave (by decide) ps.s
          have hit : lab + 1 = it := by rw [← hl1, hlab]; omega
          rw [← hl2, hse, hst, hit]
        · have hg' : killGuard (it : Int) = false := by simpa using hg
          simp only [hg', Bool.false_eq_true, if_false] at hl
          exact hi.latest lab c hl
    · rw [oneIter_alive ops lrAt cfg e batch tbl h p ps it hd' hk]
      have hnext : iter ops lrAt cfg ps.s it (batch it) = runRange ops lrAt cfg batch init 0 (it + 1) := by
        rw [runRange_succ, hst, Nat.zero_add]
      refine ⟨fun _ => hnext, ?_⟩
      intro lab c hl
      by_cases hg : ckptGuard it e.ckSteps p.total = true
      · simp only [hg, if_true, Option.some.injEq, Prod.mk.injEq] at hl
        obtain ⟨hl1, hl2⟩ := hl
        rw [← hl2, ← hl1, hnext]
      · have hg' : ckptGuard it e.ckSteps p.total = false := by simpa using hg
        simp only [hg', Bool.false_eq_true, if_false] at hl
        exact hi.latest lab c hl

theorem runFrom_invU (tbl : Table) (h : wfBetween tbl = true) (init : St P O G Sc) (p : Proc) (ps : PS P O G Sc)
    (a n : Nat) (hi : InvU ops lrAt cfg batch init ps a) :
    InvU ops lrAt cfg batch init (runFrom tbl ops lrAt cfg e batch p ps a n) (a + n) := by
  induction n with
  | zero => exact hi
  | succ n ih => rw [runFrom_succ]; exact oneIter_invU ops lrAt cfg e batch tbl h init p _ (a + n) ih

/-- a process that starts from scratch, or from a checkpoint of the uninterrupted run written at a window boundary, starts
in a state of the uninterrupted run -/
theorem procStart_invU (tbl : Table) (h : wfBetween tbl = true) (rs : Int → Int → Int)
    (hrs : ∀ label : Nat, rs (label : Int) (cfg.k : Int) = (label : Int) + 1)
    (init : St P O G Sc) (hg0 : init.grad = ops.zero)
    (latest : Option (Nat × Snap P O Sc))
    (hl : ∀ lab c, latest = some (lab, c) → c = snapshot (runRange ops lrAt cfg batch init 0 (lab + 1)))
    (p : Proc) (hal : (procStart tbl rs ops lrAt cfg e batch init latest p).start % cfg.k = 0) :
    InvU ops lrAt cfg batch init (procStart tbl rs ops lrAt cfg e batch init latest p)
      (procStart tbl rs ops lrAt cfg e batch init latest p).start := by
  unfold procStart at hal ⊢
  cases hsel : (if p.resume then latest else none) with
  | none =>
    simp only [site_prologue_of_wf ops lrAt tbl h e.hasVal batch init p init hg0]
    exact ⟨fun _ => rfl, hl⟩
  | some lc =>
    obtain ⟨label, c⟩ := lc
    have hlat : latest = some (label, c) := by
      by_cases hr : p.resume = true
      · simpa [hr] using hsel
      · simp [hr] at hsel
    simp only [hsel, hrs] at hal
    have hst : ((label : Int) + 1).toNat = label + 1 := by omega
    rw [hst] at hal
    simp only [site_prologue_of_wf ops lrAt tbl h e.hasVal batch init p (restore ops.zero c) rfl, hrs, hst]
    refine ⟨fun _ => ?_, hl⟩
    have hc := hl label c hlat
    have hz := runRange_grad_zero ops lrAt cfg batch init 0 (label + 1) (by simpa using hal) (by omega)
    rw [hc]
    generalize runRange ops lrAt cfg batch init 0 (label + 1) = u at hz ⊢
    cases u; simp_all [restore, snapshot]

/-- **Histories that only ever resume at window boundaries reproduce the uninterrupted run** — with validation rounds,
checkpoints, log writes, kills and clean stops anywhere (also inside windows): every live process state of the history
is the state of the uninterrupted run after as many iterations as its scheduler has counted -/
theorem history_aligned_eq_uninterrupted (tbl : Table) (h : wfBetween tbl = true) (rs : Int → Int → Int)
    (hrs : ∀ label : Nat, rs (label : Int) (cfg.k : Int) = (label : Int) + 1)
    (init : St P O G Sc) (h0 : init.epoch = 0) (hg0 : init.grad = ops.zero)
    (procs : List Proc) (latest : Option (Nat × Snap P O Sc))
    (hl : ∀ lab c, latest = some (lab, c) → c = snapshot (runRange ops lrAt cfg batch init 0 (lab + 1)))
    (hal : ∀ ps ∈ history tbl rs ops lrAt cfg e batch init latest procs, ps.start % cfg.k = 0) :
    ∀ ps ∈ history tbl rs ops lrAt cfg e batch init latest procs,
      ps.dead = false → ps.s = runRange ops lrAt cfg batch init 0 ps.s.epoch := by
  induction procs generalizing latest with
  | nil => intro ps hps; simp [history] at hps
  | cons p rest ih =>
    have hstart : (runProc tbl rs ops lrAt cfg e batch init latest p).start
        = (procStart tbl rs ops lrAt cfg e batch init latest p).start := runFrom_start ops lrAt cfg e batch tbl p _ _ _
    have ha : (procStart tbl rs ops lrAt cfg e batch init latest p).start % cfg.k = 0 := by
      rw [← hstart]; exact hal _ (by simp [history])
    have hinv := runFrom_invU ops lrAt cfg e batch tbl h init p _ _
      (p.total - (procStart tbl rs ops lrAt cfg e batch init latest p).start)
      (procStart_invU ops lrAt cfg e batch tbl h rs hrs init hg0 latest hl p ha)
    intro ps hps
    simp only [history, List.mem_cons] at hps
    rcases hps with hps | hps
    · subst hps
      intro hd
      have := hinv.st hd
      have he : (runProc tbl rs ops lrAt cfg e batch init latest p).s.epoch
          = (procStart tbl rs ops lrAt cfg e batch init latest p).start
            + (p.total - (procStart tbl rs ops lrAt cfg e batch init latest p).start) := by
        show (runFrom tbl ops lrAt cfg e batch p _ _ _).s.epoch = _
        rw [this, runRange_epoch, h0, Nat.zero_add]
      rw [he]; exact this
    · exact ih _ hinv.latest (fun ps' hps' => hal ps' (by simp only [history, List.mem_cons]; exact Or.inr hps')) ps hps

end DirectVerif.C16E
