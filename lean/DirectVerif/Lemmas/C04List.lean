import DirectVerif.Model.MaskGeom
/-!
Helper lemmas for C04 / C06: flattening of uniform-length lists, row tiling, `prod`, explicit form of
`maskShape`, counting over intervals.
-/
namespace DirectVerif.MaskGeom
open DirectVerif

/-! ### flatten / tile -/

theorem getElem?_flatten_uniform {α} (L : List (List α)) (m : Nat) (h : ∀ x ∈ L, x.length = m)
    (i j : Nat) (hj : j < m) : L.flatten[i * m + j]? = (L[i]?).bind (·[j]?) := by
  induction L generalizing i with
  | nil => simp
  | cons x xs ih =>
    have hx : x.length = m := h x (by simp)
    have hxs : ∀ y ∈ xs, y.length = m := fun y hy => h y (by simp [hy])
    cases i with
    | zero =>
      simp only [List.flatten_cons, Nat.zero_mul, Nat.zero_add, List.getElem?_cons_zero, Option.bind_some]
      rw [List.getElem?_append_left (by omega)]
    | succ i =>
      simp only [List.flatten_cons, List.getElem?_cons_succ]
      rw [List.getElem?_append_right (by rw [hx, Nat.succ_mul]; omega)]
      have : (i + 1) * m + j - x.length = i * m + j := by rw [hx, Nat.succ_mul]; omega
      rw [this]
      exact ih hxs i

theorem length_flatten_uniform {α} (L : List (List α)) (m : Nat) (h : ∀ x ∈ L, x.length = m) :
    L.flatten.length = L.length * m := by
  induction L with
  | nil => simp
  | cons x xs ih =>
    have hx : x.length = m := h x (by simp)
    have hxs : ∀ y ∈ xs, y.length = m := fun y hy => h y (by simp [hy])
    simp only [List.flatten_cons, List.length_append, List.length_cons, ih hxs, hx, Nat.succ_mul]
    omega

theorem length_tileRows {α} (r : Nat) (row : List α) : (tileRows r row).length = r * row.length := by
  unfold tileRows
  rw [length_flatten_uniform _ row.length (by intro x hx; rw [List.eq_of_mem_replicate hx])]
  simp

/-- element `(i, j)` of the tiled block is element `j` of the row: all rows are the row vector -/
theorem getElem?_tileRows {α} (r : Nat) (row : List α) (i j : Nat) (hi : i < r) (hj : j < row.length) :
    (tileRows r row)[i * row.length + j]? = row[j]? := by
  unfold tileRows
  rw [getElem?_flatten_uniform _ row.length (by intro x hx; rw [List.eq_of_mem_replicate hx]) i j hj]
  simp [hi]

/-! ### bool ↔ int round trip of `assemble` / `reshapeAndAddCoil` -/

theorem bool_roundtrip (l : List Bool) : (l.map fun b => if b then (1 : Int) else 0).map (· != 0) = l := by
  induction l with
  | nil => rfl
  | cons b bs ih => cases b <;> simp [ih]

/-! ### `prod` -/

theorem foldl_mul (l : List Nat) (a : Nat) : l.foldl (· * ·) a = a * l.foldl (· * ·) 1 := by
  induction l generalizing a with
  | nil => simp
  | cons x xs ih => simp only [List.foldl_cons, Nat.one_mul]; rw [ih (a * x), ih x, Nat.mul_assoc]

theorem prod_cons (a : Nat) (l : List Nat) : prod (a :: l) = a * prod l := by
  unfold prod; simp only [List.foldl_cons, Nat.one_mul]; exact foldl_mul l a

theorem prod_nil : prod [] = 1 := rfl

theorem prod_append (a b : List Nat) : prod (a ++ b) = prod a * prod b := by
  induction a with
  | nil => simp [prod_nil]
  | cons x xs ih => simp only [List.cons_append, prod_cons, ih, Nat.mul_assoc]

theorem prod_replicate_one (k : Nat) : prod (List.replicate k 1) = 1 := by
  induction k with
  | zero => rfl
  | succ k ih => simp [List.replicate_succ, prod_cons, ih]

/-! ### explicit form of `maskShape` -/

theorem rank_decomp3 (shape : List Nat) (h : 3 ≤ shape.length) :
    ∃ pre a b c, shape = pre ++ [a, b, c] := by
  refine ⟨shape.take (shape.length - 3), shape[shape.length - 3], shape[shape.length - 2],
    shape[shape.length - 1], ?_⟩
  apply List.ext_getElem?
  intro i
  by_cases hi : i < shape.length - 3
  · rw [List.getElem?_append_left (by simp; omega), List.getElem?_take_of_lt hi]
  · rw [List.getElem?_append_right (by simp; omega)]
    simp only [List.length_take]
    have hm : min (shape.length - 3) shape.length = shape.length - 3 := by omega
    rw [hm]
    by_cases h0 : i = shape.length - 3
    · subst h0; simp
    · by_cases h1 : i = shape.length - 2
      · subst h1
        have : shape.length - 2 - (shape.length - 3) = 1 := by omega
        simp [this]
      · by_cases h2 : i = shape.length - 1
        · subst h2
          have : shape.length - 1 - (shape.length - 3) = 2 := by omega
          simp [this]
        · have : 3 ≤ i - (shape.length - 3) := by omega
          rw [List.getElem?_eq_none (by omega), List.getElem?_eq_none (by simp; omega)]

theorem rank_decomp4 (shape : List Nat) (h : 4 ≤ shape.length) :
    ∃ pre f a b c, shape = pre ++ [f, a, b, c] := by
  obtain ⟨pre, a, b, c, e⟩ := rank_decomp3 shape (by omega)
  have hp : 1 ≤ pre.length := by
    have := congrArg List.length e; simp at this; omega
  refine ⟨pre.dropLast, pre.getLast (by intro h0; simp [h0] at hp), a, b, c, ?_⟩
  rw [e]
  have : pre = pre.dropLast ++ [pre.getLast (by intro h0; simp [h0] at hp)] :=
    (List.dropLast_concat_getLast _).symm
  conv => lhs; rw [this]
  simp

theorem maskShapeNoCoil_static (pre : List Nat) (a b c : Nat) :
    maskShapeNoCoil .static (pre ++ [a, b, c]) = List.replicate pre.length 1 ++ [a, b, 1] := by
  simp only [maskShapeNoCoil, Mode.framed, applyAssign, reshapeAssign, List.foldl_cons, List.foldl_nil,
    setFromEnd, fromEnd, List.length_map, List.length_append, List.length_cons, List.length_nil,
    Bool.false_eq_true, if_false]
  have e2 : pre.length + (0 + 1 + 1 + 1) - 2 = pre.length + 1 := by omega
  have e3 : pre.length + (0 + 1 + 1 + 1) - 3 = pre.length := by omega
  simp only [List.length_set, List.length_map, List.length_append, List.length_cons, List.length_nil, e2, e3]
  apply List.ext_getElem?
  intro i
  simp only [List.getElem?_set, List.length_set, List.length_map, List.length_append, List.length_cons,
    List.length_nil, List.getElem?_map, List.getD_eq_getElem?_getD]
  by_cases h0 : i < pre.length
  · have n1 : ¬ pre.length = i := by omega
    have n2 : ¬ pre.length + 1 = i := by omega
    simp [n1, n2, List.getElem?_append_left, h0]
  · by_cases h1 : i = pre.length
    · subst h1; simp
    · by_cases h2 : i = pre.length + 1
      · subst h2; simp
      · by_cases h3 : i = pre.length + 2
        · subst h3
          simp
        · have : pre.length + 3 ≤ i := by omega
          have n1 : ¬ pre.length = i := by omega
          have n2 : ¬ pre.length + 1 = i := by omega
          simp only [n1, n2, if_false]
          rw [List.getElem?_eq_none (by simp; omega), List.getElem?_eq_none (by simp; omega)]
          rfl

theorem maskShapeNoCoil_framed (m : Mode) (hm : m.framed = true) (pre : List Nat) (f a b c : Nat) :
    maskShapeNoCoil m (pre ++ [f, a, b, c]) = List.replicate pre.length 1 ++ [f, a, b, 1] := by
  simp only [maskShapeNoCoil, hm, applyAssign, reshapeAssign, reshapeAssignFramed, List.foldl_cons,
    List.foldl_nil, setFromEnd, fromEnd, List.length_map, List.length_append, List.length_cons,
    List.length_nil, if_true]
  have e2 : pre.length + (0 + 1 + 1 + 1 + 1) - 2 = pre.length + 2 := by omega
  have e3 : pre.length + (0 + 1 + 1 + 1 + 1) - 3 = pre.length + 1 := by omega
  have e4 : pre.length + (0 + 1 + 1 + 1 + 1) - 4 = pre.length := by omega
  simp only [List.length_set, List.length_map, List.length_append, List.length_cons, List.length_nil, e2, e3, e4]
  apply List.ext_getElem?
  intro i
  simp only [List.getElem?_set, List.length_set, List.length_map, List.length_append, List.length_cons,
    List.length_nil, List.getElem?_map, List.getD_eq_getElem?_getD]
  by_cases h0 : i < pre.length
  · have n0 : ¬ pre.length = i := by omega
    have n1 : ¬ pre.length + 1 = i := by omega
    have n2 : ¬ pre.length + 2 = i := by omega
    simp [n0, n1, n2, List.getElem?_append_left, h0]
  · by_cases h1 : i = pre.length
    · subst h1; simp
    · by_cases h2 : i = pre.length + 1
      · subst h2; simp
      · by_cases h3 : i = pre.length + 2
        · subst h3; simp
        · by_cases h4 : i = pre.length + 3
          · subst h4; simp
          · have : pre.length + 4 ≤ i := by omega
            have n0 : ¬ pre.length = i := by omega
            have n1 : ¬ pre.length + 1 = i := by omega
            have n2 : ¬ pre.length + 2 = i := by omega
            simp only [n0, n1, n2, if_false]
            rw [List.getElem?_eq_none (by simp; omega), List.getElem?_eq_none (by simp; omega)]
            rfl

theorem rowsOf_decomp (pre : List Nat) (a b c : Nat) : rowsOf (pre ++ [a, b, c]) = a := by
  simp [rowsOf, fromEnd, List.getD_eq_getElem?_getD]

theorem colsOf_decomp (pre : List Nat) (a b c : Nat) : colsOf (pre ++ [a, b, c]) = b := by
  have e : pre.length + (0 + 1 + 1 + 1) - 2 = pre.length + 1 := by omega
  simp [colsOf, fromEnd, List.getD_eq_getElem?_getD, e]

theorem framesOf_static (shape : List Nat) : framesOf .static shape = 1 := by
  simp [framesOf, Mode.framed]

theorem framesOf_framed (m : Mode) (hm : m.framed = true) (pre : List Nat) (f a b c : Nat) :
    framesOf m (pre ++ [f, a, b, c]) = f := by
  simp [framesOf, hm, fromEnd, List.getD_eq_getElem?_getD]

theorem prod_maskShapeNoCoil_static (pre : List Nat) (a b c : Nat) :
    prod (maskShapeNoCoil .static (pre ++ [a, b, c])) = a * b := by
  rw [maskShapeNoCoil_static, prod_append, prod_replicate_one]
  simp [prod_cons, prod_nil]

theorem prod_maskShapeNoCoil_framed (m : Mode) (hm : m.framed = true) (pre : List Nat) (f a b c : Nat) :
    prod (maskShapeNoCoil m (pre ++ [f, a, b, c])) = f * a * b := by
  rw [maskShapeNoCoil_framed m hm, prod_append, prod_replicate_one]
  simp [prod_cons, prod_nil, Nat.mul_assoc]

/-! ### counting over intervals -/

theorem countIn_succ (p : Nat → Bool) (n : Nat) :
    countIn p (n + 1) = countIn p n + (if p n then 1 else 0) := by
  unfold countIn
  rw [List.range_succ, List.filter_append, List.length_append]
  by_cases h : p n <;> simp [h]

/-- number of indices `i < n` with `a ≤ i < b` -/
theorem countIn_interval (a b n : Nat) :
    countIn (fun i => decide (a ≤ i ∧ i < b)) n = min b n - min a n := by
  induction n with
  | zero => simp [countIn]
  | succ n ih =>
    rw [countIn_succ, ih]
    by_cases h : a ≤ n ∧ n < b
    · simp only [h, and_self, decide_true, if_true]; omega
    · simp only [h, decide_false, Bool.false_eq_true, if_false]; omega

theorem countIn_congr (p q : Nat → Bool) (n : Nat) (h : ∀ i, i < n → p i = q i) : countIn p n = countIn q n := by
  induction n with
  | zero => simp [countIn]
  | succ n ih =>
    rw [countIn_succ, countIn_succ, ih (fun i hi => h i (by omega)), h n (by omega)]

theorem countIn_succ_left (p : Nat → Bool) (n : Nat) :
    countIn p (n + 1) = (if p 0 then 1 else 0) + countIn (fun i => p (i + 1)) n := by
  induction n with
  | zero => by_cases h : p 0 <;> simp [countIn, h]
  | succ n ih => rw [countIn_succ, ih, countIn_succ]; omega

/-- `List.count true` of a boolean list as `countIn` -/
theorem count_true_eq_countIn (l : List Bool) :
    l.count true = countIn (fun i => l.getD i false) l.length := by
  induction l with
  | nil => simp [countIn]
  | cons x xs ih =>
    rw [List.length_cons, countIn_succ_left, List.count_cons, ih]
    simp only [List.getD_cons_zero, List.getD_cons_succ]
    cases x <;> simp <;> omega

/-! ### `sliceMask` -/

theorem length_sliceMask (n : Nat) (lo hi : Int) : (sliceMask n lo hi).length = n := by
  simp [sliceMask]

theorem getD_sliceMask (n : Nat) (lo hi : Int) (i : Nat) :
    (sliceMask n lo hi).getD i false = decide (i < n ∧ normIdx n lo ≤ i ∧ i < normIdx n hi) := by
  unfold sliceMask
  rw [List.getD_eq_getElem?_getD, List.getElem?_map]
  by_cases h : i < n
  · rw [List.getElem?_range h]; simp [h]
  · rw [List.getElem?_eq_none (by simpa using h)]; simp [h]

theorem count_sliceMask (n : Nat) (lo hi : Int) :
    (sliceMask n lo hi).count true = min (normIdx n hi) n - min (normIdx n lo) n := by
  rw [count_true_eq_countIn, length_sliceMask, ← countIn_interval]
  apply countIn_congr
  intro i hi'
  rw [getD_sliceMask]
  simp [hi']

theorem normIdx_nonneg (n : Nat) (i : Nat) (h : i ≤ n) : normIdx n (i : Int) = i := by
  unfold normIdx
  have : ¬ ((i : Int) < 0) := by omega
  simp only [this, if_false]
  omega

end DirectVerif.MaskGeom
