import DirectVerif.Model.DataConsistency
/-!
# C19 — `ConjGrad.cg` on a batch (core Lean only)

The `break` test is a mean over the batch, so all samples leave the loop at the same pass `j`: the first pass at
which the batch statistic passes the test (or `num_iters`).  Every sample's output is therefore ITS OWN `j`-th
conjugate-gradient iterate — which is what makes "never worse than the start" hold per sample
(`Props/C19.lean : cg_batch_never_worse`), although `j` depends on the other samples (the known C18 coupling).
-/
namespace DirectVerif.DataConsistency
universe u v w
variable {K : Type u} {V : Type v} {W : Type w}

/-- `k` passes of the loop body on every sample -/
def iterAll (steps : List (CGState K V → CGState K V)) : Nat → List (CGState K V) → List (CGState K V)
  | 0, ss => ss
  | k + 1, ss => iterAll steps k (stepAll steps ss)

theorem stepAll_length (steps : List (CGState K V → CGState K V)) (ss : List (CGState K V))
    (h : steps.length = ss.length) : (stepAll steps ss).length = ss.length := by
  simp [stepAll, h]

/-- **`cg_batch_mean_stop`**: on a batch `cg` returns, for every sample, the iterate of pass `j`, where `j` is the
FIRST pass (`1 ≤ j`) at which the batch statistic passes the test, or `num_iters` if it never does. -/
theorem cg_batch_mean_stop (steps : List (CGState K V → CGState K V)) (stopB : List K → Bool) (n : Nat)
    (ss : List (CGState K V)) :
    ∃ j, j ≤ n ∧ cgLoopBatch steps stopB n ss = (iterAll steps j ss).map (·.x) ∧
      (j < n → stopB ((iterAll steps j ss).map (·.rr)) = true ∧ 0 < j) ∧
      (∀ i, 0 < i → i < j → stopB ((iterAll steps i ss).map (·.rr)) = false) := by
  induction n generalizing ss with
  | zero => exact ⟨0, Nat.le_refl 0, rfl, fun h => absurd h (Nat.lt_irrefl 0), fun i h1 h2 => by omega⟩
  | succ n ih =>
    by_cases hs : stopB ((stepAll steps ss).map (·.rr)) = true
    · refine ⟨1, by omega, ?_, fun _ => ⟨hs, by omega⟩, fun i h1 h2 => by omega⟩
      simp only [cgLoopBatch, hs, if_true]; rfl
    · obtain ⟨j, hj, e, hst, hfirst⟩ := ih (stepAll steps ss)
      refine ⟨j + 1, by omega, ?_, fun h => ⟨(hst (by omega)).1, by omega⟩, ?_⟩
      · simp only [cgLoopBatch, hs]
        exact e
      · intro i h1 h2
        cases i with
        | zero => omega
        | succ i =>
          cases i with
          | zero =>
            have e1 : iterAll steps 1 ss = stepAll steps ss := rfl
            rw [e1]; simpa using hs
          | succ i => exact hfirst (i + 1) (by omega) (by omega)

/-- `k`-fold application -/
def iterFn {α : Type u} (f : α → α) : Nat → α → α
  | 0, a => a
  | k + 1, a => iterFn f k (f a)

/-- sample `b` of the batch after `k` passes is sample `b` iterated `k` times on its own -/
theorem iterAll_getElem? (steps : List (CGState K V → CGState K V)) (k : Nat) (ss : List (CGState K V))
    (h : steps.length = ss.length) (b : Nat) (f : CGState K V → CGState K V) (s : CGState K V)
    (hf : steps[b]? = some f) (hs : ss[b]? = some s) :
    (iterAll steps k ss)[b]? = some (iterFn f k s) := by
  induction k generalizing ss s with
  | zero => exact hs
  | succ k ih =>
    have h' := stepAll_length steps ss h
    have e : (stepAll steps ss)[b]? = some (f s) := by
      simp [stepAll, List.getElem?_zipWith, hf, hs]
    exact ih (stepAll steps ss) (h'.symm ▸ h) (f s) e

theorem cgIter_eq_iterate (o : Ops K V W) (u : Update) (B : V → V) (k : Nat) (s : CGState K V) :
    cgIter o u B k s = iterFn (cgStep o u B) k s := by
  induction k generalizing s with
  | zero => rfl
  | succ k ih => exact ih (cgStep o u B s)

/-- per-sample reading of `cgBatch`: there is ONE pass count `j ≤ num_iters` (the first at which the batch test
fires, if any) such that every sample's output is that sample's own `j`-th iterate. -/
theorem cgBatch_per_sample (u : Update) (n : Nat) (stopB : List K → Bool) (lam : K) (samples : List (Sample K V W)) :
    ∃ j, j ≤ n ∧ ∀ (b : Nat) (s : Sample K V W), samples[b]? = some s →
      (cgBatch u n stopB lam samples)[b]? = some (cgIter s.o u (bOp s.o lam) j (cgInit s.o lam s.y s.z s.x0)).x := by
  obtain ⟨j, hj, e, _, _⟩ := cg_batch_mean_stop (samples.map fun s => cgStep s.o u (bOp s.o lam)) stopB n
    (samples.map fun s => cgInit s.o lam s.y s.z s.x0)
  refine ⟨j, hj, fun b s hb => ?_⟩
  unfold cgBatch
  rw [e, List.getElem?_map, cgIter_eq_iterate]
  rw [iterAll_getElem? _ j _ (by simp) b (cgStep s.o u (bOp s.o lam)) (cgInit s.o lam s.y s.z s.x0)
    (by simp [hb]) (by simp [hb])]
  rfl

end DirectVerif.DataConsistency
