import DirectVerif.Lemmas.C19CG
import DirectVerif.Lemmas.C19Loglik
/-!
# C19 — energy monotonicity of `ConjGrad.cg`, the loop with its `break`, and `B_op` is SPD
-/
open ComplexInnerProductSpace DirectVerif.DataConsistency
open scoped ComplexConjugate

namespace DirectVerif.C19
variable {E : Type*} [NormedAddCommGroup E] [InnerProductSpace ℂ E]
variable {G : Type*} [NormedAddCommGroup G] [InnerProductSpace ℂ G]

/-- the quadratic energy `½⟪x, Bx⟫ − re⟪b, x⟫`; for SPD `B` its unique minimiser solves `B x = b` -/
noncomputable def energy (B : E →ₗ[ℂ] E) (b x : E) : ℝ := (⟪x, B x⟫).re / 2 - (⟪b, x⟫).re

theorem SPD.nonneg {B : E →ₗ[ℂ] E} (hB : SPD B) (p : E) : 0 ≤ (⟪p, B p⟫).re := by
  by_cases hp : p = 0
  · rw [hp, inner_zero_left]; simp
  · exact (hB.pd p hp).le

theorem energy_add_real_smul {B : E →ₗ[ℂ] E} (hB : SPD B) (b x p : E) (t : ℝ) :
    energy B b (x + (t : ℂ) • p) =
      energy B b x - t * (⟪p, b - B x⟫).re + t ^ 2 * (⟪p, B p⟫).re / 2 := by
  unfold energy
  have h1 : (⟪x, B p⟫).re = (⟪p, B x⟫).re := by rw [← hB.sa, re_inner_symm]
  have h2 : (⟪b, p⟫).re = (⟪p, b⟫).re := re_inner_symm _ _
  simp only [map_add, map_smul, inner_add_left, inner_add_right, inner_smul_left, inner_smul_right,
    inner_sub_right, Complex.add_re, Complex.sub_re, Complex.conj_ofReal, Complex.re_ofReal_mul]
  rw [h1, h2]; ring

/-- the energy is the `B`-norm distance to the solution, up to a constant -/
theorem energy_eq_error {B : E →ₗ[ℂ] E} (hB : SPD B) (b x xs : E) (hs : B xs = b) :
    energy B b x = energy B b xs + (⟪x - xs, B (x - xs)⟫).re / 2 := by
  have e : x = xs + ((1 : ℝ) : ℂ) • (x - xs) := by simp
  conv_lhs => rw [e, energy_add_real_smul hB, hs, sub_self, inner_zero_right]
  simp

section CG
variable (F Fb : G →ₗ[ℂ] G) (Ex : E →ₗ[ℂ] G) (R : G →ₗ[ℂ] E) (M : G →ₗ[ℂ] G)
variable {B : E →ₗ[ℂ] E} {b : E}

local notation "𝒪" => mathOps F Fb Ex R M

/-- exact energy decrease of one pass through the loop body -/
theorem cg_energy_step (hB : SPD B) (u : Update) {s : CGState ℂ E} (h : CGInv B b s) :
    energy B b (cgStep 𝒪 u B s).x =
      energy B b s.x - (alpha B s).re ^ 2 * (⟪s.p, B s.p⟫).re / 2 := by
  have ha : ((alpha B s).re : ℂ) = alpha B s := Complex.conj_eq_iff_re.mp (h.alpha_real hB)
  have hm := h.alpha_mul hB
  rw [← ha, h.cj] at hm
  have hm' : (alpha B s).re * (⟪s.p, B s.p⟫).re = (⟪s.r, s.r⟫).re := by
    rw [← hm, Complex.re_ofReal_mul]
  have e : (cgStep 𝒪 u B s).x = s.x + ((alpha B s).re : ℂ) • s.p := by rw [cgStep_x, ha]
  rw [e, energy_add_real_smul hB, ← h.res, h.pr, ← hm']
  ring

/-- **one pass through the loop body never increases the energy** -/
theorem cg_energy_step_le (hB : SPD B) (u : Update) {s : CGState ℂ E} (h : CGInv B b s) :
    energy B b (cgStep 𝒪 u B s).x ≤ energy B b s.x := by
  rw [cg_energy_step F Fb Ex R M hB u h]
  have := mul_nonneg (sq_nonneg (alpha B s).re) (hB.nonneg s.p)
  linarith

/-! ### iterating the body -/

theorem cgIter_succ (u : Update) (B : E → E) (k : ℕ) (s : CGState ℂ E) :
    cgIter 𝒪 u B (k + 1) s = cgStep 𝒪 u B (cgIter 𝒪 u B k s) := by
  induction k generalizing s with
  | zero => rfl
  | succ k ih => exact ih (cgStep 𝒪 u B s)

theorem cgIter_inv (hB : SPD B) (u : Update) (hu : u = .FR ∨ u = .PRP) (k : ℕ) {s : CGState ℂ E}
    (h : CGInv B b s) : CGInv B b (cgIter 𝒪 u B k s) := by
  induction k with
  | zero => exact h
  | succ k ih => rw [cgIter_succ]; exact cgStep_inv F Fb Ex R M hB u hu ih

/-- the loop with its `break` returns the `x` of some iterate `j ≤ num_iters`; it stops early only
because the test fired on that iterate -/
theorem cgLoop_spec (u : Update) (B : E → E) (stop : ℂ → Bool) (n : ℕ) (s : CGState ℂ E) :
    ∃ j, j ≤ n ∧ cgLoop 𝒪 u B stop n s = (cgIter 𝒪 u B j s).x ∧
      (j < n → stop (cgIter 𝒪 u B j s).rr = true) := by
  induction n generalizing s with
  | zero => exact ⟨0, le_rfl, rfl, fun h => absurd h (lt_irrefl 0)⟩
  | succ n ih =>
    by_cases hs : stop (cgStep 𝒪 u B s).rr = true
    · refine ⟨1, by omega, ?_, fun _ => hs⟩
      simp only [cgLoop, hs, if_true]; rfl
    · obtain ⟨j, hj, e, hst⟩ := ih (cgStep 𝒪 u B s)
      refine ⟨j + 1, by omega, ?_, fun h => hst (by omega)⟩
      simp only [cgLoop, hs]
      exact e

end CG

/-! ### `B_op` of the code is self-adjoint positive definite -/
section BOp
variable (F Fb : G →ₗ[ℂ] G) (Ex : E →ₗ[ℂ] G) (R : G →ₗ[ℂ] E) (M : G →ₗ[ℂ] G)

local notation "𝒪" => mathOps F Fb Ex R M

/-- `B_op` as a linear map: `R Fb M F E + λ` -/
def bLin (lam : ℂ) : E →ₗ[ℂ] E := R ∘ₗ Fb ∘ₗ M ∘ₗ F ∘ₗ Ex + lam • LinearMap.id

theorem bOp_eq (lam : ℂ) : bOp 𝒪 lam = ⇑(bLin F Fb Ex R M lam) := by
  funext x; rfl

variable {F Fb Ex R M}

theorem aStarA_eq (P : Physics F Fb Ex R M) (x : E) :
    R (Fb (M (F (Ex x)))) = adjModel Fb R M (fwdModel F Ex M x) := by
  simp only [fwdModel, adjModel, LinearMap.comp_apply, P.mask_idem]

theorem bLin_apply (P : Physics F Fb Ex R M) (lam : ℂ) (x : E) :
    bLin F Fb Ex R M lam x = adjModel Fb R M (fwdModel F Ex M x) + lam • x := by
  rw [← aStarA_eq P]; rfl

/-- for a real `λ > 0`, `B = A†A + λ` is self-adjoint and positive definite -/
theorem bLin_spd (P : Physics F Fb Ex R M) (lam : ℝ) (hl : 0 < lam) : SPD (bLin F Fb Ex R M (lam : ℂ)) where
  sa := by
    intro u v
    rw [bLin_apply P, bLin_apply P, inner_add_left, inner_add_right, inner_smul_left, inner_smul_right,
      Complex.conj_ofReal, ← adjModel_adjoint P, ← inner_conj_symm, ← adjModel_adjoint P, inner_conj_symm]
  pd := by
    intro u hu
    rw [bLin_apply P, inner_add_right, inner_smul_right, ← adjModel_adjoint P, Complex.add_re,
      Complex.re_ofReal_mul]
    have h1 : 0 ≤ (⟪fwdModel F Ex M u, fwdModel F Ex M u⟫).re := by
      rw [re_inner_self]; positivity
    have h2 : 0 < (⟪u, u⟫).re := re_inner_self_pos hu
    have := mul_pos hl h2
    linarith

end BOp
end DirectVerif.C19
