import DirectVerif.Lemmas.C06Assemble
/-!
Helper lemmas for C04: the Gaussian rejection loop, the bisection wrapper, cells of the assembled mask.
-/
namespace DirectVerif.MaskGeom
open DirectVerif

/-! ### setting one cell -/

theorem count_set_true (l : List Bool) (i : Nat) (hi : i < l.length) (hf : l.getD i true = false) :
    (l.set i true).count true = l.count true + 1 := by
  induction l generalizing i with
  | nil => simp at hi
  | cons x xs ih =>
    cases i with
    | zero =>
      simp only [List.getD_cons_zero] at hf
      subst hf
      simp
    | succ i =>
      simp only [List.getD_cons_succ] at hf
      simp only [List.set_cons_succ, List.count_cons]
      rw [ih i (by simpa using hi) hf]
      omega

theorem count_set_false (l : List Bool) (i : Nat) (hi : i < l.length) (hf : l.getD i true = false) :
    (l.set i true).count false + 1 = l.count false := by
  induction l generalizing i with
  | nil => simp at hi
  | cons x xs ih =>
    cases i with
    | zero =>
      simp only [List.getD_cons_zero] at hf
      subst hf
      simp
    | succ i =>
      simp only [List.getD_cons_succ] at hf
      simp only [List.set_cons_succ, List.count_cons]
      have := ih i (by simpa using hi) hf
      omega

theorem getD_set_mono (l : List Bool) (i j : Nat) (h : l.getD j false = true) :
    (l.set i true).getD j false = true := by
  rw [List.getD_eq_getElem?_getD] at h ⊢
  rw [List.getElem?_set]
  by_cases e : i = j
  · subst e
    by_cases hi : i < l.length
    · simp [hi]
    · rw [List.getElem?_eq_none (by omega)] at h; simp at h
  · simp [e, h]

/-- a list with a free cell has one at a definite position -/
theorem exists_free (l : List Bool) (h : 0 < l.count false) : ∃ i, i < l.length ∧ l.getD i true = false := by
  induction l with
  | nil => simp at h
  | cons x xs ih =>
    cases x with
    | false => exact ⟨0, by simp, by simp⟩
    | true =>
      have : 0 < xs.count false := by simpa using h
      obtain ⟨i, hi, hf⟩ := ih this
      exact ⟨i + 1, by simpa using hi, by simpa using hf⟩

/-! ### Gaussian rejection loop -/

/-- the acceptance test of the loop -/
def accepts (mask : List Bool) (c : Int) : Prop := 0 ≤ c ∧ c < mask.length ∧ mask.getD c.toNat true = false

instance (mask : List Bool) (c : Int) : Decidable (accepts mask c) := by unfold accepts; infer_instance

theorem gaussLoop_zero (mask : List Bool) (cands : List Int) : gaussLoop 0 mask cands = (mask, 0) := by
  cases cands <;> rfl

theorem gaussLoop_cons_accept (need : Nat) (mask : List Bool) (c : Int) (cs : List Int) (h : accepts mask c) :
    gaussLoop (need + 1) mask (c :: cs) = gaussLoop need (mask.set c.toNat true) cs := by
  unfold accepts at h
  rw [gaussLoop]; simp only [h, and_self, if_true]

theorem gaussLoop_cons_reject (need : Nat) (mask : List Bool) (c : Int) (cs : List Int) (h : ¬ accepts mask c) :
    gaussLoop (need + 1) mask (c :: cs) = gaussLoop (need + 1) mask cs := by
  unfold accepts at h
  rw [gaussLoop]; simp only [h, if_false]

theorem gaussLoop_adds (need : Nat) (mask : List Bool) (cands : List Int)
    (h : (gaussLoop need mask cands).2 = 0) :
    (gaussLoop need mask cands).1.count true = mask.count true + need ∧
    (gaussLoop need mask cands).1.length = mask.length ∧
    ∀ i, mask.getD i false = true → (gaussLoop need mask cands).1.getD i false = true := by
  induction cands generalizing need mask with
  | nil =>
    cases need with
    | zero => simp [gaussLoop]
    | succ n => simp [gaussLoop] at h
  | cons c cs ih =>
    cases need with
    | zero => simp [gaussLoop]
    | succ n =>
      by_cases ha : accepts mask c
      · rw [gaussLoop_cons_accept n mask c cs ha] at h ⊢
        obtain ⟨h1, h2, h3⟩ := ih n (mask.set c.toNat true) h
        have hlt : c.toNat < mask.length := by unfold accepts at ha; omega
        refine ⟨?_, ?_, ?_⟩
        · rw [h1, count_set_true mask c.toNat hlt ha.2.2]; omega
        · rw [h2]; simp
        · intro i hi; exact h3 i (getD_set_mono mask c.toNat i hi)
      · rw [gaussLoop_cons_reject n mask c cs ha] at h ⊢
        exact ih (n + 1) mask h

theorem gaussLoop_stuck (need : Nat) (mask : List Bool) (cands : List Int) (h : freeCount mask < need) :
    (gaussLoop need mask cands).2 ≠ 0 := by
  induction cands generalizing need mask with
  | nil =>
    cases need with
    | zero => omega
    | succ n => simp [gaussLoop]
  | cons c cs ih =>
    cases need with
    | zero => omega
    | succ n =>
      by_cases ha : accepts mask c
      · rw [gaussLoop_cons_accept n mask c cs ha]
        apply ih
        have hlt : c.toNat < mask.length := by unfold accepts at ha; omega
        have := count_set_false mask c.toNat hlt ha.2.2
        unfold freeCount at h ⊢
        omega
      · rw [gaussLoop_cons_reject n mask c cs ha]
        exact ih (n + 1) mask h

theorem range_succ_map_shift {α} (s : Nat → α) (k fuel : Nat) :
    (List.range (fuel + 1)).map (fun j => s (k + j)) = s k :: (List.range fuel).map (fun j => s (k + 1 + j)) := by
  rw [List.range_succ_eq_map, List.map_cons, List.map_map]
  simp only [Nat.add_zero, List.cons.injEq, true_and]
  apply List.map_congr_left
  intro j _
  simp only [Function.comp, Nat.succ_eq_add_one]
  congr 1; omega

/-- the loop exits on every fair candidate stream when the request fits into the free cells -/
theorem gaussLoop_terminates (stream : Nat → Int) (n : Nat)
    (fair : ∀ k i, i < n → ∃ j, k ≤ j ∧ stream j = (i : Int)) :
    ∀ need (mask : List Bool), mask.length = n → need ≤ freeCount mask → ∀ k,
      ∃ fuel, (gaussLoop need mask ((List.range fuel).map fun j => stream (k + j))).2 = 0 := by
  intro need
  induction need with
  | zero => intro mask _ _ k; exact ⟨0, by simp [gaussLoop]⟩
  | succ need ih =>
    intro mask hlen hfree k
    obtain ⟨i0, hi0, hf0⟩ := exists_free mask (by unfold freeCount at hfree; omega)
    obtain ⟨j, hkj, hj⟩ := fair k i0 (by omega)
    -- strong induction on the distance to an acceptable candidate
    have key : ∀ d k', accepts mask (stream (k' + d)) →
        ∃ fuel, (gaussLoop (need + 1) mask ((List.range fuel).map fun j => stream (k' + j))).2 = 0 := by
      intro d
      induction d with
      | zero =>
        intro k' hacc
        simp only [Nat.add_zero] at hacc
        have hlt : (stream k').toNat < mask.length := by unfold accepts at hacc; omega
        obtain ⟨fuel, hfuel⟩ := ih (mask.set (stream k').toNat true) (by simp [hlen])
          (by have := count_set_false mask _ hlt hacc.2.2; unfold freeCount at hfree ⊢; omega) (k' + 1)
        refine ⟨fuel + 1, ?_⟩
        rw [range_succ_map_shift, gaussLoop_cons_accept _ _ _ _ hacc]
        exact hfuel
      | succ d ihd =>
        intro k' hacc
        by_cases h0 : accepts mask (stream k')
        · have hlt : (stream k').toNat < mask.length := by unfold accepts at h0; omega
          obtain ⟨fuel, hfuel⟩ := ih (mask.set (stream k').toNat true) (by simp [hlen])
            (by have := count_set_false mask _ hlt h0.2.2; unfold freeCount at hfree ⊢; omega) (k' + 1)
          refine ⟨fuel + 1, ?_⟩
          rw [range_succ_map_shift, gaussLoop_cons_accept _ _ _ _ h0]
          exact hfuel
        · have : k' + (d + 1) = k' + 1 + d := by omega
          rw [this] at hacc
          obtain ⟨fuel, hfuel⟩ := ihd (k' + 1) hacc
          refine ⟨fuel + 1, ?_⟩
          rw [range_succ_map_shift, gaussLoop_cons_reject _ _ _ _ h0]
          exact hfuel
    have hacc : accepts mask (stream (k + (j - k))) := by
      have : k + (j - k) = j := by omega
      rw [this, hj]
      unfold accepts
      refine ⟨by omega, by omega, ?_⟩
      simpa using hf0
    exact key (j - k) k hacc

/-! ### bisection wrapper -/

theorem bisect_fuel (mid : Nat → Nat → Nat)
    (hmid : ∀ lo hi, lo < hi → lo ≤ mid lo hi ∧ mid lo hi ≤ hi) (f : Nat → Verdict) :
    ∀ fuel lo hi, hi - lo < fuel → bisect mid f fuel lo hi ≠ .outOfFuel := by
  intro fuel
  induction fuel with
  | zero => intro lo hi h; omega
  | succ fuel ih =>
    intro lo hi h
    unfold bisect
    by_cases hlt : lo < hi
    · simp only [hlt, if_true]
      have hm := hmid lo hi hlt
      cases hv : f (mid lo hi) with
      | within => simp
      | below =>
        simp only []
        by_cases he : mid lo hi = lo ∨ mid lo hi = hi
        · simp [he]
        · simp only [he, if_false]
          exact ih _ _ (by omega)
      | above =>
        simp only []
        by_cases he : mid lo hi = lo ∨ mid lo hi = hi
        · simp [he]
        · simp only [he, if_false]
          exact ih _ _ (by omega)
    · simp [hlt]

theorem bisect_returned (mid : Nat → Nat → Nat) (f : Nat → Verdict) :
    ∀ fuel lo hi p, bisect mid f fuel lo hi = .returned p → f p = .within := by
  intro fuel
  induction fuel with
  | zero => intro lo hi p h; simp [bisect] at h
  | succ fuel ih =>
    intro lo hi p h
    unfold bisect at h
    by_cases hlt : lo < hi
    · simp only [hlt, if_true] at h
      cases hv : f (mid lo hi) with
      | within => rw [hv] at h; simp only [BisectResult.returned.injEq] at h; rw [← h]; exact hv
      | below =>
        rw [hv] at h; simp only [] at h
        by_cases he : mid lo hi = lo ∨ mid lo hi = hi
        · simp [he] at h
        · simp only [he, if_false] at h; exact ih _ _ _ h
      | above =>
        rw [hv] at h; simp only [] at h
        by_cases he : mid lo hi = lo ∨ mid lo hi = hi
        · simp [he] at h
        · simp only [he, if_false] at h; exact ih _ _ _ h
    · simp [hlt] at h

/-- the pinned loop on an interval of two adjacent grid points whose midpoint is the lower one and
where the acceleration stays too low: the state never changes -/
theorem bisectPinned_spins (mid : Nat → Nat → Nat) (f : Nat → Verdict) (lo hi : Nat) (hlt : lo < hi)
    (hm : mid lo hi = lo) (hv : f lo = .below) : ∀ fuel, bisectPinned mid f fuel lo hi = .outOfFuel := by
  intro fuel
  induction fuel with
  | zero => rfl
  | succ fuel ih =>
    unfold bisectPinned
    simp only [hlt, if_true, hm, hv]
    exact ih

/-! ### cells of the assembled mask -/

theorem framePattern_length (racs : Bool) (p a : List Bool) (h : p.length = a.length) :
    (framePattern racs p a).length = a.length := by
  unfold framePattern
  cases racs
  · simp [length_orL p a h]
  · simp

theorem getElem?_orL (p a : List Bool) (c : Nat) (hp : c < p.length) (ha : c < a.length) :
    (orL p a)[c]? = some (p.getD c false || a.getD c false) := by
  unfold orL
  rw [List.getElem?_zipWith, List.getElem?_eq_getElem hp, List.getElem?_eq_getElem ha]
  simp [List.getD_eq_getElem?_getD, List.getElem?_eq_getElem hp, List.getElem?_eq_getElem ha]

/-- frame `f` of the assembled data is the frame pattern of `interior[f]` -/
theorem assemble_frame (g : Gen) (m : Mode) (shape : List Nat) (spec : AcsSpec) (racs : Bool)
    (interior : List (List Bool)) (t : Tensor Bool) (h : assemble g m shape spec racs interior = .ok t)
    (hlen : ∀ p ∈ interior, p.length = patLen g.family (rowsOf shape) (colsOf shape))
    (f : Nat) (hf : f < interior.length) (k : Nat) (hk : k < rowsOf shape * colsOf shape) :
    t.data[f * (rowsOf shape * colsOf shape) + k]? =
      (frameData g.family (rowsOf shape) (framePattern racs interior[f]
        ((acsFrame g.family (rowsOf shape) (colsOf shape) spec interior[f]).getD [])))[k]? := by
  obtain ⟨_, hsome, _, hd, _, _⟩ := assemble_ok_iff g m shape spec racs interior t h
  rw [hd, getElem?_flatten_uniform _ (rowsOf shape * colsOf shape) ?_ f k hk]
  · rw [List.getElem?_map, List.getElem?_eq_getElem hf]; rfl
  · intro x hx
    obtain ⟨p, hp, e⟩ := List.mem_map.mp hx
    subst e
    obtain ⟨a, ea⟩ := Option.isSome_iff_exists.mp (hsome p hp)
    have hal := acsFrame_length _ _ _ _ p a (hlen p hp) ea
    rw [ea, Option.getD_some]
    apply frameData_length
    rw [framePattern_length racs p a (by rw [hal, hlen p hp]), hal]

end DirectVerif.MaskGeom
