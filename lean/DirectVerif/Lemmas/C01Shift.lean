import DirectVerif.Model.Shift
/-!
# Helper lemmas for C01: index form of `rollOne` (core Lean only)

`rollOne s xs` is `xs.drop (n - k) ++ xs.take (n - k)` with `k = s mod n` (Python `%`), exactly the
`narrow`/`cat` the code performs.  Everything else follows from the index form
`(rollOne s xs)[i] = xs[(i - s) mod n]`.
-/
namespace DirectVerif.C01L
open DirectVerif DirectVerif.Shift

/-- `(i - s) mod n` for a representative `k` of `s mod n` -/
theorem sub_emod_repr (i s n : Int) : (i - s) % n = (i - s % n) % n := by
  rw [Int.sub_emod i s, Int.sub_emod i (s % n), Int.emod_emod]

theorem emod_of_ge {i k n : Int} (h0 : k ≤ i) (h1 : i - k < n) : (i - k) % n = i - k :=
  Int.emod_eq_of_lt (by omega) h1

theorem emod_of_lt {i k n : Int} (h0 : i < k) (h1 : 0 ≤ i - k + n) : (i - k) % n = i - k + n := by
  rw [← Int.add_emod_right (i - k) n]
  exact Int.emod_eq_of_lt h1 (by omega)

theorem rollOne_length {α} (s : Int) (xs : List α) : (rollOne s xs).length = xs.length := by
  simp only [rollOne]
  split
  · rfl
  · split
    · rfl
    · simp only [List.length_append, List.length_drop, List.length_take]; omega

/-- **index form** (integer version): output position `i` reads input position `(i - s) mod n`. -/
theorem rollOne_getElem?_int {α} (s : Int) (xs : List α) (i : Nat) (hi : i < xs.length) :
    (rollOne s xs)[i]? = xs[(((i : Int) - s) % (xs.length : Int)).toNat]? := by
  have hn : 0 < xs.length := by omega
  simp only [rollOne]
  rw [if_neg (by omega)]
  have hfm : Int.fmod s xs.length = s % (xs.length : Int) :=
    Int.fmod_eq_emod_of_nonneg _ (by omega)
  simp only [hfm]
  rw [sub_emod_repr]
  generalize hk : s % (xs.length : Int) = k
  have hk0 : 0 ≤ k := by rw [← hk]; exact Int.emod_nonneg _ (by omega)
  have hkn : k < xs.length := by rw [← hk]; exact Int.emod_lt_of_pos _ (by omega)
  by_cases hz : k.toNat = 0
  · have : k = 0 := by omega
    subst this
    rw [if_pos hz, Int.sub_zero, Int.emod_eq_of_lt (by omega) (by omega)]
    simp
  · rw [if_neg hz, List.getElem?_append]
    simp only [List.length_drop, List.getElem?_drop, List.getElem?_take]
    by_cases hik : (i : Int) < k
    · rw [emod_of_lt hik (by omega)]
      have h1 : i < xs.length - (xs.length - k.toNat) := by omega
      rw [if_pos h1]
      congr 1; omega
    · rw [emod_of_ge (by omega) (by omega)]
      have h1 : ¬ i < xs.length - (xs.length - k.toNat) := by omega
      rw [if_neg h1]
      have h2 : i - (xs.length - (xs.length - k.toNat)) < xs.length - k.toNat := by omega
      rw [if_pos h2]
      congr 1; omega

theorem srcIdx_lt (s : Int) (n i : Nat) (hn : 0 < n) : (((i : Int) - s) % (n : Int)).toNat < n := by
  have h0 : 0 ≤ ((i : Int) - s) % (n : Int) := Int.emod_nonneg _ (by omega)
  have h1 : ((i : Int) - s) % (n : Int) < n := Int.emod_lt_of_pos _ (by omega)
  omega

/-- the natural-number form of the source index: `(i + n - s mod n) mod n` -/
theorem srcIdx_nat (s : Int) (n i : Nat) (hi : i < n) :
    (((i : Int) - s) % (n : Int)).toNat = (i + n - (s % (n : Int)).toNat) % n := by
  have hn : 0 < n := by omega
  rw [sub_emod_repr]
  generalize hk : s % (n : Int) = k
  have hk0 : 0 ≤ k := by rw [← hk]; exact Int.emod_nonneg _ (by omega)
  have hkn : k < n := by rw [← hk]; exact Int.emod_lt_of_pos _ (by omega)
  by_cases hik : (i : Int) < k
  · rw [emod_of_lt hik (by omega)]
    have : i + n - k.toNat < n := by omega
    rw [Nat.mod_eq_of_lt this]; omega
  · rw [emod_of_ge (by omega) (by omega)]
    have e : i + n - k.toNat = (i - k.toNat) + n := by omega
    rw [e, Nat.add_mod_right, Nat.mod_eq_of_lt (by omega)]; omega

end DirectVerif.C01L
