import Mathlib.Algebra.BigOperators.Fin
import Mathlib.Algebra.BigOperators.Group.List.Basic
import Mathlib.Algebra.BigOperators.Intervals
/-!
# C02 — list sums over flat row-major data as iterated finite sums (generic, Mathlib)

`((List.range n).map f).sum` is `∑ k ∈ range n, f k`; a sum over `range (Q * (c * P))` splits into the
triple sum over `[o, j, i]` with flat position `o*c*P + j*P + i`; `zipWith` of two lists of length `N`
is a `map` over `range N`.  Used by `Props/C02.lean` to read `cdot` on the flat data of the driver's
tensors as the inner product over coils × pixels.
-/
namespace DirectVerif.C02S
open scoped BigOperators

theorem list_sum_range_map {M : Type} [AddCommMonoid M] (f : ℕ → M) (n : ℕ) :
    ((List.range n).map f).sum = ∑ k ∈ Finset.range n, f k := by
  induction n with
  | zero => simp
  | succ n ih =>
    rw [List.range_succ, List.map_append, List.sum_append, ih, Finset.sum_range_succ]
    simp

theorem sum_range_mul {M : Type} [AddCommMonoid M] (g : ℕ → M) (A B : ℕ) :
    ∑ k ∈ Finset.range (A * B), g k = ∑ a ∈ Finset.range A, ∑ b ∈ Finset.range B, g (a * B + b) := by
  induction A with
  | zero => simp
  | succ A ih => rw [Nat.succ_mul, Finset.sum_range_add, ih, Finset.sum_range_succ]

/-- a sum over the flat positions of a `Q × c × P` tensor is the triple sum over `[o, j, i]` -/
theorem sum_range_pos3 {M : Type} [AddCommMonoid M] (g : ℕ → M) (Q c P : ℕ) :
    ∑ k ∈ Finset.range (Q * (c * P)), g k =
      ∑ o ∈ Finset.range Q, ∑ j ∈ Finset.range c, ∑ i ∈ Finset.range P, g (o * c * P + j * P + i) := by
  rw [sum_range_mul]
  refine Finset.sum_congr rfl fun o _ => ?_
  rw [sum_range_mul]
  refine Finset.sum_congr rfl fun j _ => Finset.sum_congr rfl fun i _ => ?_
  rw [Nat.mul_assoc, Nat.add_assoc]

theorem zipWith_eq_range_map {α β γ : Type} (f : α → β → γ) (a : List α) (b : List β) (da : α) (db : β) (N : ℕ)
    (ha : a.length = N) (hb : b.length = N) :
    List.zipWith f a b = (List.range N).map fun k => f (a.getD k da) (b.getD k db) := by
  apply List.ext_getElem
  · simp [ha, hb]
  · intro k h1 h2
    have hk : k < N := by simpa using h2
    simp [List.getD_eq_getElem?_getD, List.getElem?_eq_getElem (ha ▸ hk), List.getElem?_eq_getElem (hb ▸ hk)]

end DirectVerif.C02S
