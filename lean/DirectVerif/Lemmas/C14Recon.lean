import DirectVerif.Model.Recon
import DirectVerif.Lemmas.C13Bvs
/-!
Helper lemmas for C14: the loop invariant of `reconstruct_volumes`.
-/
namespace DirectVerif.Recon
open DirectVerif DirectVerif.Sampler

theorem filenameOf_replicate (n f : Nat) (h : 0 < n) : filenameOf (List.replicate n f) = some f := by
  cases n with
  | zero => omega
  | succ n => simp [List.replicate_succ, filenameOf]

/-- writing the next piece into a partially filled volume -/
theorem writeSlice_fill {β} (zero : β) (done p : List β) (N : Nat) (h : done.length + p.length ≤ N) :
    writeSlice (done ++ List.replicate (N - done.length) zero) done.length p =
      some ((done ++ p) ++ List.replicate (N - (done ++ p).length) zero) := by
  unfold writeSlice
  have hl : (done ++ List.replicate (N - done.length) zero).length = N := by
    simp only [List.length_append, List.length_replicate]; omega
  simp only [hl]
  have e1 : min done.length N = done.length := by omega
  have e2 : min (done.length + p.length) N = done.length + p.length := by omega
  rw [e1, e2]
  have e3 : done.length + p.length - done.length = p.length := by omega
  simp only [e3, if_true]
  congr 1
  rw [List.take_left' rfl, List.drop_append, List.length_append]
  have e4 : List.drop (done.length + p.length) done = [] := List.drop_eq_nil_of_le (by omega)
  have e5 : done.length + p.length - done.length = p.length := by omega
  rw [e4, e5, List.drop_replicate, List.nil_append]
  congr 2
  omega

/-- states in which the next batch of a *new* filename `f` starts a fresh volume -/
def Fresh {β} (s : RState β) (f : Nat) : Prop :=
  (s.last = none ∧ s.cur = none ∧ s.counter = 0) ∨ (∃ g, s.last = some g ∧ g ≠ f)

/-- the first batch of a volume behaves as if the zero volume had already been allocated -/
theorem rstep_fresh {β} (sizeOf : Nat → Option Nat) (zero : β) (s : RState β) (f N : Nat) (b : RBatch β)
    (hs : Fresh s f) (hsz : sizeOf f = some N) (hb : filenameOf b.fnames = some f) :
    rstep sizeOf zero s b =
      rstep sizeOf zero ⟨some f, some (List.replicate N zero), 0, N⟩ b := by
  unfold rstep
  simp only [hb]
  cases hs with
  | inl h =>
    obtain ⟨h1, h2, h3⟩ := h
    simp [h1, h2, h3, hsz]
  | inr h =>
    obtain ⟨g, h1, h2⟩ := h
    simp [h1, h2, hsz]

/-- **Loop invariant.**  In the middle of volume `f` — `done` already written, the rest still zero,
`slice_counter = |done|` — the remaining non-empty pieces `ps` (which complete the volume) produce
exactly one yield, of the completed volume, after the last of them; the loop then continues in the
state `(f, full volume, N, N)`. -/
theorem reconstruct_volume_rest {β} (sizeOf : Nat → Option Nat) (zero : β) (f N : Nat)
    (tail : List (RBatch β)) :
    ∀ (ps : List (List β)) (done : List β), ps ≠ [] → (∀ p ∈ ps, p ≠ []) →
      done.length + ps.flatten.length = N →
      reconstruct sizeOf zero
          ⟨some f, some (done ++ List.replicate (N - done.length) zero), done.length, N⟩
          (volBatches f ps ++ tail) =
        ((done ++ ps.flatten, f) ::
            (reconstruct sizeOf zero ⟨some f, some (done ++ ps.flatten), N, N⟩ tail).1,
          (reconstruct sizeOf zero ⟨some f, some (done ++ ps.flatten), N, N⟩ tail).2) := by
  intro ps
  induction ps with
  | nil => intro done h; exact absurd rfl h
  | cons p ps ih =>
    intro done _ hne hlen
    have hp : p ≠ [] := hne p (by simp)
    have hp0 : 0 < p.length := List.length_pos_iff.mpr hp
    simp only [List.flatten_cons, List.length_append] at hlen
    have hstep : rstep sizeOf zero
        ⟨some f, some (done ++ List.replicate (N - done.length) zero), done.length, N⟩
        ⟨List.replicate p.length f, p⟩ =
        .ok (⟨some f, some ((done ++ p) ++ List.replicate (N - (done ++ p).length) zero),
              (done ++ p).length, N⟩,
             if (done ++ p).length = N then
               some ((done ++ p) ++ List.replicate (N - (done ++ p).length) zero, f) else none) := by
      unfold rstep
      simp only [filenameOf_replicate _ _ hp0, Option.getD_some, ne_eq, not_true_eq_false, if_false]
      rw [writeSlice_fill zero done p N (by omega)]
      simp only [List.length_append]
    simp only [volBatches, List.map_cons, List.cons_append]
    rw [reconstruct, hstep]
    by_cases hps : ps = []
    · subst hps
      have hN : (done ++ p).length = N := by
        simp only [List.flatten_nil, List.length_nil, List.length_append] at hlen ⊢; omega
      simp only [hN, if_true, Nat.sub_self, List.replicate_zero, List.append_nil, List.map_nil,
        List.nil_append, List.flatten_cons, List.flatten_nil, Option.toList_some, List.cons_append]
    · have hrest : 0 < ps.flatten.length := by
        cases ps with
        | nil => exact absurd rfl hps
        | cons q qs =>
          have hq : q ≠ [] := hne q (by simp)
          have : 0 < q.length := List.length_pos_iff.mpr hq
          simp only [List.flatten_cons, List.length_append]; omega
      have hN : ¬ ((done ++ p).length = N) := by
        simp only [List.length_append]; omega
      simp only [hN, if_false, Option.toList_none, List.nil_append]
      have := ih (done ++ p) hps (fun q hq => hne q (by simp [hq]))
        (by simp only [List.length_append]; omega)
      simp only [volBatches] at this
      rw [this]
      simp only [List.flatten_cons, List.append_assoc]

/-- a whole volume from a fresh state -/
theorem reconstruct_volume {β} (sizeOf : Nat → Option Nat) (zero : β) (f : Nat) (s : RState β)
    (ps : List (List β)) (tail : List (RBatch β)) (hs : Fresh s f) (hps : ps ≠ [])
    (hne : ∀ p ∈ ps, p ≠ []) (hsz : sizeOf f = some ps.flatten.length) :
    reconstruct sizeOf zero s (volBatches f ps ++ tail) =
      ((ps.flatten, f) ::
          (reconstruct sizeOf zero ⟨some f, some ps.flatten, ps.flatten.length, ps.flatten.length⟩ tail).1,
        (reconstruct sizeOf zero ⟨some f, some ps.flatten, ps.flatten.length, ps.flatten.length⟩ tail).2) := by
  have key := reconstruct_volume_rest sizeOf zero f ps.flatten.length tail ps [] hps hne (by simp)
  simp only [List.nil_append, List.length_nil, Nat.sub_zero] at key
  rw [← key]
  cases ps with
  | nil => exact absurd rfl hps
  | cons p ps' =>
    have hp : p ≠ [] := hne p (by simp)
    have hp0 : 0 < p.length := List.length_pos_iff.mpr hp
    simp only [volBatches, List.map_cons, List.cons_append]
    rw [reconstruct, reconstruct]
    rw [rstep_fresh sizeOf zero s f _ _ hs hsz (filenameOf_replicate _ _ hp0)]

/-- all volumes: any start state that is fresh for the first volume, pairwise distinct filenames -/
theorem reconstruct_volumes_spec {β} (sizeOf : Nat → Option Nat) (zero : β) :
    ∀ (vs : List (Nat × List (List β))) (s : RState β),
      (∀ v ∈ vs, v.2 ≠ [] ∧ (∀ p ∈ v.2, p ≠ []) ∧ sizeOf v.1 = some v.2.flatten.length) →
      vs.Pairwise (fun a b => a.1 ≠ b.1) →
      (∀ v ∈ vs.head?, Fresh s v.1) →
      reconstruct sizeOf zero s (vs.flatMap fun v => volBatches v.1 v.2) =
        (vs.map fun v => (v.2.flatten, v.1), none) := by
  intro vs
  induction vs with
  | nil => intro s _ _ _; simp [reconstruct]
  | cons v vs ih =>
    intro s hv hpw hfresh
    obtain ⟨h1, h2, h3⟩ := hv v (by simp)
    rw [List.flatMap_cons, reconstruct_volume sizeOf zero v.1 s v.2 _ (hfresh v (by simp)) h1 h2 h3]
    rw [List.pairwise_cons] at hpw
    rw [ih _ (fun w hw => hv w (by simp [hw])) hpw.2 (by
      intro w hw
      right
      refine ⟨v.1, rfl, ?_⟩
      have : w ∈ vs := by
        cases vs with
        | nil => simp at hw
        | cons x xs => simp at hw; subst hw; simp
      exact hpw.1 w this)]
    simp

/-! ### facts about the layout needed to instantiate the specification -/

theorem volsFrom_start_stop (id off : Nat) (ns : List Nat) :
    ∀ v ∈ volsFrom id off ns, id ≤ v.id ∧ off ≤ v.start ∧ v.start ≤ v.stop := by
  induction ns generalizing id off with
  | nil => simp [volsFrom]
  | cons n ns ih =>
    intro v hv
    simp only [volsFrom, List.mem_cons] at hv
    cases hv with
    | inl e => subst e; simp
    | inr e => have := ih (id + 1) (off + n) v e; omega

/-- ids increase and ranges are disjoint and ascending along the volume list -/
theorem volsFrom_pairwise (id off : Nat) (ns : List Nat) :
    (volsFrom id off ns).Pairwise fun a b => a.id < b.id ∧ a.stop ≤ b.start := by
  induction ns generalizing id off with
  | nil => simp [volsFrom]
  | cons n ns ih =>
    simp only [volsFrom, List.pairwise_cons]
    refine ⟨?_, ih (id + 1) (off + n)⟩
    intro v hv
    have := volsFrom_start_stop (id + 1) (off + n) ns v hv
    omega

theorem pairwise_of_sublist_slice {α} (R : α → α → Prop) (xs : List α) (lo hi : Nat)
    (h : xs.Pairwise R) : (slice xs lo hi).Pairwise R := by
  unfold slice
  exact (h.sublist (List.take_sublist hi xs)).sublist (List.drop_sublist lo _)

theorem rankVols_pairwise (layout : List Nat) (world rank : Nat) :
    (rankVols layout world rank 0).Pairwise fun a b => a.id < b.id ∧ a.stop ≤ b.start := by
  unfold rankVols
  by_cases hr : rank < world
  · rw [chunks_getD _ _ _ hr]
    simp only [applyLimit, if_true]
    exact pairwise_of_sublist_slice _ _ _ _ (volsFrom_pairwise 0 0 layout)
  · rw [List.getD_eq_getElem?_getD, List.getElem?_eq_none (by simp [chunks_length']; omega)]
    simp

theorem find?_of_pairwise_id (vols : List Vol) (h : vols.Pairwise fun a b => a.id < b.id ∧ a.stop ≤ b.start)
    (v : Vol) (hv : v ∈ vols) : (vols.find? fun w => w.id == v.id) = some v := by
  induction vols with
  | nil => simp at hv
  | cons w ws ih =>
    rw [List.pairwise_cons] at h
    rw [List.find?_cons]
    simp only [List.mem_cons] at hv
    cases hv with
    | inl e => subst e; simp
    | inr e =>
      have := h.1 v e
      have hne : (w.id == v.id) = false := by
        rw [beq_eq_false_iff_ne]; omega
      rw [hne]
      exact ih h.2 e

theorem find?_of_pairwise_range (vols : List Vol)
    (h : vols.Pairwise fun a b => a.id < b.id ∧ a.stop ≤ b.start)
    (v : Vol) (hv : v ∈ vols) (i : Nat) (h1 : v.start ≤ i) (h2 : i < v.stop) :
    (vols.find? fun w => decide (w.start ≤ i ∧ i < w.stop)) = some v := by
  induction vols with
  | nil => simp at hv
  | cons w ws ih =>
    rw [List.pairwise_cons] at h
    rw [List.find?_cons]
    simp only [List.mem_cons] at hv
    cases hv with
    | inl e => subst e; simp [h1, h2]
    | inr e =>
      have := h.1 v e
      have hne : decide (w.start ≤ i ∧ i < w.stop) = false := by
        rw [decide_eq_false_iff_not]; omega
      rw [hne]
      exact ih h.2 e

theorem mem_range'_iff (a n i : Nat) : i ∈ List.range' a n ↔ a ≤ i ∧ i < a + n := by
  rw [List.mem_range']
  constructor
  · rintro ⟨k, hk, rfl⟩; omega
  · intro h; exact ⟨i - a, by omega, by omega⟩

end DirectVerif.Recon
