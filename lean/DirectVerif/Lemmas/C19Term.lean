import Mathlib.LinearAlgebra.Dimension.Finite
import DirectVerif.Lemmas.C19Energy
/-!
# C19 — full orthogonality of the residuals and finite termination of `ConjGrad.cg`

With the first direction equal to the first residual (as `cg` sets `pk = rk_old.clone()`), all
residuals are mutually orthogonal and all directions mutually `B`-conjugate; hence in a space of
dimension `n` the residual after `n` passes is exactly zero (exact arithmetic).
-/
open ComplexInnerProductSpace DirectVerif.DataConsistency
open scoped ComplexConjugate

namespace DirectVerif.C19
variable {E : Type*} [NormedAddCommGroup E] [InnerProductSpace ℂ E]
variable {G : Type*} [NormedAddCommGroup G] [InnerProductSpace ℂ G]

/-- the classical induction, for any sequences obeying the two recurrences of the loop body -/
theorem full_orth {B : E →ₗ[ℂ] E} (sa : ∀ u v, ⟪B u, v⟫ = ⟪u, B v⟫)
    (r p : ℕ → E) (a β : ℕ → ℂ)
    (hr : ∀ k, r (k + 1) = r k - a k • B (p k))
    (hp : ∀ k, p (k + 1) = r (k + 1) + β k • p k)
    (h0 : p 0 = r 0)
    (H1 : ∀ k, ⟪r k, r (k + 1)⟫ = 0)
    (H2 : ∀ k, ⟪p k, B (p (k + 1))⟫ = 0)
    (H3 : ∀ k, conj (a k) = a k)
    (H4 : ∀ k, a k = 0 → p k = 0) :
    ∀ k i, i < k → ⟪r i, r k⟫ = 0 ∧ ⟪p i, B (p k)⟫ = 0 := by
  intro k
  induction k with
  | zero => intro i hi; omega
  | succ k ih =>
    -- residual against earlier directions' images
    have hrB : ∀ i, i < k → ⟪r i, B (p k)⟫ = 0 := by
      intro i hi
      cases i with
      | zero => rw [← h0]; exact (ih 0 hi).2
      | succ j =>
        have e : r (j + 1) = p (j + 1) - β j • p j := by rw [hp j]; abel
        rw [e, inner_sub_left, inner_smul_left, (ih (j + 1) hi).2, (ih j (by omega)).2]
        simp
    have ha : ∀ i, i < k + 1 → ⟪r i, r (k + 1)⟫ = 0 := by
      intro i hi
      by_cases hik : i = k
      · rw [hik]; exact H1 k
      · have hi' : i < k := by omega
        rw [hr k, inner_sub_right, inner_smul_right, (ih i hi').1, hrB i hi']
        simp
    intro i hi
    refine ⟨ha i hi, ?_⟩
    by_cases hik : i = k
    · rw [hik]; exact H2 k
    · have hi' : i < k := by omega
      rw [← sa, hp k, inner_add_right, inner_smul_right, sa (p i) (p k), (ih i hi').2, mul_zero, add_zero]
      by_cases hai : a i = 0
      · rw [H4 i hai, map_zero, inner_zero_left]
      · have e : a i • B (p i) = r i - r (i + 1) := by rw [hr i]; abel
        have key : a i * ⟪B (p i), r (k + 1)⟫ = 0 := by
          have : ⟪a i • B (p i), r (k + 1)⟫ = 0 := by
            rw [e, inner_sub_left, ha i hi, ha (i + 1) (by omega), sub_self]
          rwa [inner_smul_left, H3 i] at this
        exact (mul_eq_zero.mp key).resolve_left hai

section CG
variable (F Fb : G →ₗ[ℂ] G) (Ex : E →ₗ[ℂ] G) (R : G →ₗ[ℂ] E) (M : G →ₗ[ℂ] G)
variable {B : E →ₗ[ℂ] E} {b : E}

local notation "𝒪" => mathOps F Fb Ex R M

/-- a zero residual stays zero (the guarded `0/0` makes the body the identity) -/
theorem cgStep_r_zero (hB : SPD B) (u : Update) {s : CGState ℂ E} (h : CGInv B b s) (hr : s.r = 0) :
    (cgStep 𝒪 u B s).r = 0 := by
  rw [cgStep_r, h.p_eq_zero hB hr, map_zero, smul_zero, sub_zero, hr]

theorem cgIter_r_zero (hB : SPD B) (u : Update) (hu : u = .FR ∨ u = .PRP) {s : CGState ℂ E}
    (h : CGInv B b s) (k j : ℕ) (hr : (cgIter 𝒪 u B k s).r = 0) : (cgIter 𝒪 u B (k + j) s).r = 0 := by
  induction j with
  | zero => exact hr
  | succ j ih =>
    rw [← Nat.add_assoc, cgIter_succ]
    exact cgStep_r_zero F Fb Ex R M hB u (cgIter_inv F Fb Ex R M hB u hu _ h) ih

/-- **all residuals are mutually orthogonal, all directions mutually `B`-conjugate** -/
theorem cg_full_orth (hB : SPD B) (u : Update) (hu : u = .FR ∨ u = .PRP) {s : CGState ℂ E}
    (h : CGInv B b s) (h0 : s.p = s.r) (k i : ℕ) (hik : i < k) :
    ⟪(cgIter 𝒪 u B i s).r, (cgIter 𝒪 u B k s).r⟫ = 0 ∧
      ⟪(cgIter 𝒪 u B i s).p, B (cgIter 𝒪 u B k s).p⟫ = 0 := by
  have inv := fun k => cgIter_inv F Fb Ex R M hB u hu k h
  refine full_orth hB.sa (fun k => (cgIter 𝒪 u B k s).r) (fun k => (cgIter 𝒪 u B k s).p)
    (fun k => alpha B (cgIter 𝒪 u B k s))
    (fun k => beta 𝒪 u (cgIter 𝒪 u B (k + 1) s).r (cgIter 𝒪 u B k s).r (cgIter 𝒪 u B k s).p
      (cgIter 𝒪 u B (k + 1) s).rr (cgIter 𝒪 u B k s).rr)
    ?_ ?_ h0 ?_ ?_ ?_ ?_ k i hik
  · intro k; simp only [cgIter_succ]; rfl
  · intro k; simp only [cgIter_succ]; rfl
  · intro k; simp only [cgIter_succ]
    rw [inner_eq_zero_symm]; exact cg_r_orth_next F Fb Ex R M hB u (inv k)
  · intro k; simp only [cgIter_succ]
    rw [← hB.sa, inner_eq_zero_symm]; exact cg_conjugate F Fb Ex R M hB u hu (inv k)
  · intro k; exact (inv k).alpha_real hB
  · intro k hk
    have hm := (inv k).alpha_mul hB
    rw [hk, zero_mul] at hm
    exact (inv k).p_eq_zero hB (inner_self_eq_zero.mp hm.symm)

/-- **finite termination**: after `dim E` passes the residual is exactly zero -/
theorem cgIter_finite_termination [Module.Finite ℂ E] (hB : SPD B) (u : Update)
    (hu : u = .FR ∨ u = .PRP) {s : CGState ℂ E} (h : CGInv B b s) (h0 : s.p = s.r) :
    (cgIter 𝒪 u B (Module.finrank ℂ E) s).r = 0 := by
  by_contra hne
  set n := Module.finrank ℂ E with hn
  have hnz : ∀ i : Fin (n + 1), (cgIter 𝒪 u B i s).r ≠ 0 := by
    intro i hi
    have := cgIter_r_zero F Fb Ex R M hB u hu h i (n - i) hi
    rw [Nat.add_sub_cancel' (Nat.lt_succ_iff.mp i.2)] at this
    exact hne this
  have horth : Pairwise fun i j : Fin (n + 1) =>
      ⟪(cgIter 𝒪 u B i s).r, (cgIter 𝒪 u B j s).r⟫ = 0 := by
    intro i j hij
    rcases lt_or_gt_of_ne (Fin.val_ne_of_ne hij) with hlt | hgt
    · exact (cg_full_orth F Fb Ex R M hB u hu h h0 j i hlt).1
    · rw [inner_eq_zero_symm]; exact (cg_full_orth F Fb Ex R M hB u hu h h0 i j hgt).1
  have hli := linearIndependent_of_ne_zero_of_inner_eq_zero (𝕜 := ℂ) hnz horth
  have := hli.fintype_card_le_finrank
  rw [Fintype.card_fin] at this
  omega

end CG
end DirectVerif.C19
