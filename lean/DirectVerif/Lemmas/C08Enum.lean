import DirectVerif.Lemmas.C08Static
/-!
# C08 helper lemmas — kernel evaluation of the degree check on the canonical configurations

One lemma per (reconstruction type, supervised/SSL, scaling key); each evaluates the type checker on
the 192 combinations of the remaining degree-relevant flags (zero-padding stage on/off, body-coil
image, sensitivity maps on/off and their type, the two delete flags, ACS kept in the SSL split).
(Generated once by a script; kept as plain text so that every lemma is a small `decide +kernel`.)
-/
namespace DirectVerif.Pipeline

def allB (p : Bool → Bool) : Bool := p false && p true
def allSMap (p : SMap → Bool) : Bool := p .espirit && p .rssEstimate && p .unit

theorem allB_spec {p : Bool → Bool} (h : allB p = true) (b : Bool) : p b = true := by
  simp only [allB, Bool.and_eq_true] at h; cases b; exact h.1; exact h.2
theorem allSMap_spec {p : SMap → Bool} (h : allSMap p = true) (s : SMap) : p s = true := by
  simp only [allSMap, Bool.and_eq_true] at h; cases s; exact h.1.1; exact h.1.2; exact h.2

/-- the canonical configuration with the given degree-relevant flags -/
def canonOf (pe mf bc es : Bool) (st : SMap) (da dk : Bool) (r : Recon) (sk : ScalingKey) (ssl ka : Bool) : Config :=
  { crop := .tuple, imageCenterCrop := true, rescale := true, pad := true, rotation := true, flip := true,
    reverse := true, paddingEps := pe, maskFunc := mf, compressCoils := true, padCoils := true, bodyCoil := bc,
    estimateSmaps := es, smapType := st, smapGaussian := true, deleteAcsMask := da, deleteKspace := dk,
    recon := r, scalingKey := sk, percentile := true, useSeed := true, ssl := ssl, split := .gaussian,
    splitKeepAcs := ka }

/-- valid ⇒ well-typed -/
def chk (c : Config) : Bool := !c.valid || degreesOk c.ssl (build c)

def enumOk (r : Recon) (sk : ScalingKey) (ssl : Bool) : Bool :=
  allB fun pe => allB fun bc => allB fun es => allSMap fun st => allB fun da => allB fun dk => allB fun ka =>
    chk (canonOf pe true bc es st da dk r sk ssl ka)

theorem enum_ifft_mk_false : enumOk .ifft (.key .maskedKspace) false = true := by decide +kernel
theorem enum_ifft_mk_true : enumOk .ifft (.key .maskedKspace) true = true := by decide +kernel
theorem enum_ifft_ks_false : enumOk .ifft (.key .kspace) false = true := by decide +kernel
theorem enum_ifft_ks_true : enumOk .ifft (.key .kspace) true = true := by decide +kernel
theorem enum_rss_mk_false : enumOk .rss (.key .maskedKspace) false = true := by decide +kernel
theorem enum_rss_mk_true : enumOk .rss (.key .maskedKspace) true = true := by decide +kernel
theorem enum_rss_ks_false : enumOk .rss (.key .kspace) false = true := by decide +kernel
theorem enum_rss_ks_true : enumOk .rss (.key .kspace) true = true := by decide +kernel
theorem enum_complex_mk_false : enumOk .complex (.key .maskedKspace) false = true := by decide +kernel
theorem enum_complex_mk_true : enumOk .complex (.key .maskedKspace) true = true := by decide +kernel
theorem enum_complex_ks_false : enumOk .complex (.key .kspace) false = true := by decide +kernel
theorem enum_complex_ks_true : enumOk .complex (.key .kspace) true = true := by decide +kernel
theorem enum_complexMod_mk_false : enumOk .complexMod (.key .maskedKspace) false = true := by decide +kernel
theorem enum_complexMod_mk_true : enumOk .complexMod (.key .maskedKspace) true = true := by decide +kernel
theorem enum_complexMod_ks_false : enumOk .complexMod (.key .kspace) false = true := by decide +kernel
theorem enum_complexMod_ks_true : enumOk .complexMod (.key .kspace) true = true := by decide +kernel
theorem enum_sense_mk_false : enumOk .sense (.key .maskedKspace) false = true := by decide +kernel
theorem enum_sense_mk_true : enumOk .sense (.key .maskedKspace) true = true := by decide +kernel
theorem enum_sense_ks_false : enumOk .sense (.key .kspace) false = true := by decide +kernel
theorem enum_sense_ks_true : enumOk .sense (.key .kspace) true = true := by decide +kernel
theorem enum_senseMod_mk_false : enumOk .senseMod (.key .maskedKspace) false = true := by decide +kernel
theorem enum_senseMod_mk_true : enumOk .senseMod (.key .maskedKspace) true = true := by decide +kernel
theorem enum_senseMod_ks_false : enumOk .senseMod (.key .kspace) false = true := by decide +kernel
theorem enum_senseMod_ks_true : enumOk .senseMod (.key .kspace) true = true := by decide +kernel

theorem enum_all (r : Recon) (sk : ScalingKey) (ssl : Bool)
    (hsk : sk = .key .maskedKspace ∨ sk = .key .kspace) : enumOk r sk ssl = true := by
  rcases hsk with rfl | rfl <;> cases r <;> cases ssl
  · exact enum_ifft_mk_false
  · exact enum_ifft_mk_true
  · exact enum_rss_mk_false
  · exact enum_rss_mk_true
  · exact enum_complex_mk_false
  · exact enum_complex_mk_true
  · exact enum_complexMod_mk_false
  · exact enum_complexMod_mk_true
  · exact enum_sense_mk_false
  · exact enum_sense_mk_true
  · exact enum_senseMod_mk_false
  · exact enum_senseMod_mk_true
  · exact enum_ifft_ks_false
  · exact enum_ifft_ks_true
  · exact enum_rss_ks_false
  · exact enum_rss_ks_true
  · exact enum_complex_ks_false
  · exact enum_complex_ks_true
  · exact enum_complexMod_ks_false
  · exact enum_complexMod_ks_true
  · exact enum_sense_ks_false
  · exact enum_sense_ks_true
  · exact enum_senseMod_ks_false
  · exact enum_senseMod_ks_true

end DirectVerif.Pipeline
