import DirectVerif.Model.C06Round
import Mathlib.Tactic.Ring
import Mathlib.Tactic.Linarith
/-!
Lemmas about the exact binary64 glue of `Model/C06Round.lean`: Python's `round` is a nearest integer (ties to
even), `floorLog2Q` finds the binade, `fl53` is within half a unit in the 53rd place.
-/
namespace DirectVerif.C06Round

/-! ### `round` -/

/-- `round(num / den)` is a nearest integer: `|r − num/den| ≤ 1/2` (cross-multiplied) -/
theorem roundHalfEven_nearest (num den : Nat) (hd : 0 < den) :
    2 * (roundHalfEven num den * den) ≤ 2 * num + den ∧ 2 * num ≤ 2 * (roundHalfEven num den * den) + den := by
  have h := Nat.div_add_mod num den
  have hm := Nat.mod_lt num hd
  unfold roundHalfEven
  simp only []
  generalize num / den = q at h ⊢
  generalize num % den = r at h hm ⊢
  split_ifs <;> constructor <;> nlinarith

/-- on a tie the even neighbour is taken -/
theorem roundHalfEven_tie (q den : Nat) (hd : 0 < den) (heven : den % 2 = 0) :
    roundHalfEven (q * den + den / 2) den = if q % 2 = 0 then q else q + 1 := by
  have h1 : (q * den + den / 2) / den = q := by
    rw [Nat.add_comm, Nat.add_mul_div_right _ _ hd, Nat.div_eq_of_lt (by omega)]; omega
  have h2 : (q * den + den / 2) % den = den / 2 := by
    rw [Nat.add_comm, Nat.add_mul_mod_self_right, Nat.mod_eq_of_lt (by omega)]
  unfold roundHalfEven
  simp only [h1, h2]
  have : ¬ (2 * (den / 2) < den) := by omega
  have : ¬ (2 * (den / 2) > den) := by omega
  simp [*]

/-- an integer is returned unchanged -/
theorem roundHalfEven_int (k den : Nat) (hd : 0 < den) : roundHalfEven (k * den) den = k := by
  unfold roundHalfEven
  simp [Nat.mul_div_cancel _ hd, hd]

/-- `round` is monotone in the numerator -/
theorem roundHalfEven_le_succ_div (num den : Nat) : roundHalfEven num den ≤ num / den + 1 := by
  unfold roundHalfEven; simp only []; split_ifs <;> omega

theorem div_le_roundHalfEven (num den : Nat) : num / den ≤ roundHalfEven num den := by
  unfold roundHalfEven; simp only []; split_ifs <;> omega

/-! ### the binade -/

/-- `2^e ≤ num / den < 2^(e+1)`, for an integer exponent -/
def InBinade (num den : Nat) (e : Int) : Prop :=
  if e ≥ 0 then den * 2 ^ e.toNat ≤ num ∧ num < den * 2 ^ (e.toNat + 1)
  else den ≤ num * 2 ^ (-e).toNat ∧ num * 2 ^ (-e).toNat < 2 * den

theorem log2_bounds (n : Nat) (h : n ≠ 0) : 2 ^ Nat.log2 n ≤ n ∧ n < 2 ^ (Nat.log2 n + 1) :=
  ⟨Nat.log2_self_le h, Nat.lt_log2_self⟩

theorem floorLog2Q_spec (num den : Nat) (hn : num ≠ 0) (hd : den ≠ 0) : InBinade num den (floorLog2Q num den) := by
  obtain ⟨ha1, ha2⟩ := log2_bounds num hn
  obtain ⟨hb1, hb2⟩ := log2_bounds den hd
  unfold floorLog2Q InBinade
  simp only []
  generalize Nat.log2 num = a at ha1 ha2 ⊢
  generalize Nat.log2 den = b at hb1 hb2 ⊢
  by_cases hab : b ≤ a
  · -- e0 = a - b ≥ 0
    obtain ⟨k, rfl⟩ : ∃ k, a = b + k := ⟨a - b, by omega⟩
    have he0 : ((b + k : Nat) : Int) - (b : Int) = (k : Int) := by omega
    rw [he0]
    have hk : (k : Int) ≥ 0 := by omega
    simp only [hk, if_true, Int.toNat_natCast]
    have hpow : (2 : Nat) ^ (b + k) = 2 ^ b * 2 ^ k := Nat.pow_add 2 b k
    have hpow1 : (2 : Nat) ^ (b + k + 1) = 2 ^ b * 2 ^ k * 2 := by rw [Nat.pow_succ, hpow]
    have hpk : 0 < (2 : Nat) ^ k := Nat.pow_pos (by decide)
    by_cases ht : den * 2 ^ k ≤ num
    · rw [if_pos ht]
      simp only [hk, if_true, Int.toNat_natCast]
      refine ⟨ht, ?_⟩
      rw [Nat.pow_succ]
      nlinarith
    · rw [if_neg ht]
      cases k with
      | zero =>
        have : ¬ ((((0 : Nat) : Int) - 1) ≥ 0) := by omega
        simp only [this, if_false]
        have e1 : (-(((0 : Nat) : Int) - 1)).toNat = 1 := by omega
        rw [e1]
        simp only [Nat.pow_zero, Nat.mul_one, Nat.add_zero] at ht ha1 ha2 hb1 hb2 ⊢
        rw [Nat.pow_succ] at hb2
        omega
      | succ j =>
        have hj : (((j + 1 : Nat) : Int) - 1) ≥ 0 := by omega
        have e1 : (((j + 1 : Nat) : Int) - 1).toNat = j := by omega
        simp only [hj, if_true, e1]
        have hpj : (2 : Nat) ^ (j + 1) = 2 ^ j * 2 := by rw [Nat.pow_succ]
        rw [hpj] at ht hpow
        refine ⟨?_, by rw [hpj]; omega⟩
        rw [Nat.pow_succ] at hb2
        nlinarith [Nat.pow_pos (n := j) (show 0 < 2 by decide)]
  · -- e0 = a - b < 0
    obtain ⟨t, rfl⟩ : ∃ t, b = a + (t + 1) := ⟨b - a - 1, by omega⟩
    have he0 : ((a : Nat) : Int) - ((a + (t + 1) : Nat) : Int) = -((t + 1 : Nat) : Int) := by omega
    rw [he0]
    have hneg : ¬ (-((t + 1 : Nat) : Int) ≥ 0) := by omega
    have e1 : (- -((t + 1 : Nat) : Int)).toNat = t + 1 := by omega
    simp only [hneg, if_false, e1]
    have hpow : (2 : Nat) ^ (a + (t + 1)) = 2 ^ a * 2 ^ (t + 1) := Nat.pow_add 2 a (t + 1)
    have hpow1 : (2 : Nat) ^ (a + (t + 1) + 1) = 2 ^ a * 2 ^ (t + 1) * 2 := by rw [Nat.pow_succ, hpow]
    have hpt : 0 < (2 : Nat) ^ (t + 1) := Nat.pow_pos (by decide)
    by_cases ht : den ≤ num * 2 ^ (t + 1)
    · rw [if_pos ht]
      simp only [hneg, if_false, e1]
      refine ⟨ht, ?_⟩
      rw [Nat.pow_succ] at ha2
      nlinarith
    · rw [if_neg ht]
      have hneg2 : ¬ (-((t + 1 : Nat) : Int) - 1 ≥ 0) := by omega
      have e2 : (-(-((t + 1 : Nat) : Int) - 1)).toNat = t + 2 := by omega
      simp only [hneg2, if_false, e2]
      have hp2 : (2 : Nat) ^ (t + 2) = 2 ^ (t + 1) * 2 := by rw [Nat.pow_succ]
      rw [hp2, ← Nat.mul_assoc]
      refine ⟨?_, by omega⟩
      nlinarith

/-! ### `fl53` -/

/-- **binary64 rounding error**: `fl53 num den = (n', d')` is within `2^-53` (relative) of `num / den`:
`|n'/d' − num/den| · 2^53 ≤ num/den`, cross-multiplied -/
theorem fl53_close (num den : Nat) (hn : num ≠ 0) (hd : den ≠ 0) :
    let p := fl53 num den
    0 < p.2 ∧
    (p.1 * den - num * p.2) * 2 ^ 53 ≤ num * p.2 ∧ (num * p.2 - p.1 * den) * 2 ^ 53 ≤ num * p.2 := by
  have hspec := floorLog2Q_spec num den hn hd
  unfold fl53
  have h0 : ¬ (num = 0 ∨ den = 0) := by omega
  simp only [h0, if_false, prec]
  generalize floorLog2Q num den = e at hspec
  unfold InBinade at hspec
  have hdpos : 0 < den := by omega
  by_cases hs : ((53 : Nat) : Int) - 1 - e ≥ 0
  · -- s ≥ 0
    simp only [hs, if_true]
    generalize hsn : (((53 : Nat) : Int) - 1 - e).toNat = s
    have hps : 0 < (2 : Nat) ^ s := Nat.pow_pos (by decide)
    obtain ⟨r1, r2⟩ := roundHalfEven_nearest (num * 2 ^ s) den hdpos
    generalize roundHalfEven (num * 2 ^ s) den = m at r1 r2
    -- normalisation: den * 2^52 ≤ num * 2^s
    have hnorm : den * 2 ^ 52 ≤ num * 2 ^ s := by
      by_cases he : e ≥ 0
      · simp only [he, if_true] at hspec
        have hse : s + e.toNat = 52 := by omega
        have : (2 : Nat) ^ 52 = 2 ^ s * 2 ^ e.toNat := by rw [← Nat.pow_add, hse]
        rw [this]
        nlinarith [hspec.1]
      · simp only [he, if_false] at hspec
        have hse : s = 52 + (-e).toNat := by omega
        have : (2 : Nat) ^ s = 2 ^ 52 * 2 ^ (-e).toNat := by rw [hse, Nat.pow_add]
        rw [this]
        nlinarith [hspec.1]
    refine ⟨hps, ?_, ?_⟩
    · have : (m * den - num * 2 ^ s) * 2 ≤ den := by omega
      have e53 : (2 : Nat) ^ 53 = 2 * 2 ^ 52 := by norm_num
      rw [e53]
      nlinarith
    · have : (num * 2 ^ s - m * den) * 2 ≤ den := by omega
      have e53 : (2 : Nat) ^ 53 = 2 * 2 ^ 52 := by norm_num
      rw [e53]
      nlinarith
  · -- s < 0: e > 52
    simp only [hs, if_false]
    have he : e ≥ 0 := by omega
    simp only [he, if_true] at hspec
    generalize hsn : (-(((53 : Nat) : Int) - 1 - e)).toNat = t
    have hpt : 0 < (2 : Nat) ^ t := Nat.pow_pos (by decide)
    have hB : 0 < den * 2 ^ t := Nat.mul_pos hdpos hpt
    obtain ⟨r1, r2⟩ := roundHalfEven_nearest num (den * 2 ^ t) hB
    generalize roundHalfEven num (den * 2 ^ t) = m at r1 r2
    have hte : e.toNat = 52 + t := by omega
    have hnorm : den * 2 ^ t * 2 ^ 52 ≤ num := by
      have : (2 : Nat) ^ e.toNat = 2 ^ t * 2 ^ 52 := by rw [hte, Nat.add_comm, Nat.pow_add]
      calc den * 2 ^ t * 2 ^ 52 = den * 2 ^ e.toNat := by rw [this, Nat.mul_assoc]
        _ ≤ num := hspec.1
    have e53 : (2 : Nat) ^ 53 = 2 * 2 ^ 52 := by norm_num
    refine ⟨by decide, ?_, ?_⟩
    · simp only [Nat.mul_one]
      have hm : m * 2 ^ t * den = m * (den * 2 ^ t) := by ring
      rw [hm, e53]
      have : (m * (den * 2 ^ t) - num) * 2 ≤ den * 2 ^ t := by omega
      nlinarith
    · simp only [Nat.mul_one]
      have hm : m * 2 ^ t * den = m * (den * 2 ^ t) := by ring
      rw [hm, e53]
      have : (num - m * (den * 2 ^ t)) * 2 ≤ den * 2 ^ t := by omega
      nlinarith

/-- truncated differences as inequalities -/
theorem sub_mul_le_iff (a b K c : Nat) (h : (a - b) * K ≤ c) : a * K ≤ b * K + c := by
  by_cases hab : a ≤ b
  · exact Nat.le_trans (Nat.mul_le_mul_right K hab) (Nat.le_add_right _ _)
  · obtain ⟨d, rfl⟩ : ∃ d, a = b + d := ⟨a - b, by omega⟩
    have : b + d - b = d := by omega
    rw [this] at h
    rw [Nat.add_mul]
    omega

/-- **`int(round(x))` of a binary64 result with exact value `X / D`**: within `1/2 + (X/D)·2^-53` of `X / D`
(both sides multiplied by `2 · 2^53 · D`) -/
theorem roundFl_close (X D : Nat) (hX : X ≠ 0) (hD : D ≠ 0) :
    2 * 2 ^ 53 * (roundFl X D * D) ≤ 2 * 2 ^ 53 * X + 2 ^ 53 * D + 2 * X ∧
    2 * 2 ^ 53 * X ≤ 2 * 2 ^ 53 * (roundFl X D * D) + 2 ^ 53 * D + 2 * X := by
  obtain ⟨hp2, c1, c2⟩ := fl53_close X D hX hD
  unfold roundFl
  simp only [] at c1 c2 hp2 ⊢
  generalize fl53 X D = p at c1 c2 hp2 ⊢
  obtain ⟨p1, p2⟩ := p
  simp only [] at c1 c2 hp2 ⊢
  obtain ⟨r1, r2⟩ := roundHalfEven_nearest p1 p2 hp2
  generalize roundHalfEven p1 p2 = L at r1 r2 ⊢
  generalize (2 : Nat) ^ 53 = K at c1 c2 ⊢
  have c1' := sub_mul_le_iff _ _ _ _ c1
  have c2' := sub_mul_le_iff _ _ _ _ c2
  constructor
  · apply Nat.le_of_mul_le_mul_right _ hp2
    have h1 := Nat.mul_le_mul_left (K * D) r1
    nlinarith [h1, c1']
  · apply Nat.le_of_mul_le_mul_right _ hp2
    have h2 := Nat.mul_le_mul_left (K * D) r2
    nlinarith [h2, c2']

end DirectVerif.C06Round
