import DirectVerif.Model.Pipeline
/-!
# C08 helper lemmas — the static degree check for *every* configuration

Kernel evaluation of the type checker costs tens of milliseconds per configuration, and the builder has
24 flags.  Thirteen of them cannot influence degrees:

* they only change an *argument* that the degree rules ignore (centre / random crop, seeding, percentile
  vs. maximum, the splitter type, which shape the mask generator is given), or
* they insert stages made of *neutral* instructions `k ← linear(k)` / `k ← padCoils(k)`, which — when
  they type-check — leave the static environment unchanged (crop, rescale, pad, rotation, flip,
  reverse, coil compression, coil padding, Gaussian weighting of the ACS).

`rel_build` proves, for symbolic flags, that the program of any configuration is obtained from the
program of its *canonical* configuration (all of those stages present) by deleting neutral instructions
and replacing instructions by degree-equivalent ones; `RelP` transports a successful type check from
the canonical program to the actual one.  The remaining flags are enumerated by `decide +kernel`.
-/
namespace DirectVerif.Pipeline

/-! ## program relation -/

/-- `p` type-checks (with the same result) wherever `q` does -/
def RelP (p q : List Instr) : Prop := ∀ e r, typeProgram q e = .ok r → typeProgram p e = .ok r

theorem typeProgram_append (p q : List Instr) (e : TEnv) :
    typeProgram (p ++ q) e = match typeProgram p e with
      | .ok e' => typeProgram q e'
      | .error er => .error er := by
  induction p generalizing e with
  | nil => rfl
  | cons i is ih =>
    simp only [List.cons_append, typeProgram, absProgram]
    cases absInstr opDeg i e with
    | error er => rfl
    | ok e1 => exact ih e1

theorem RelP.refl (p : List Instr) : RelP p p := fun _ _ h => h

theorem RelP.append {p p' q q' : List Instr} (h1 : RelP p q) (h2 : RelP p' q') : RelP (p ++ p') (q ++ q') := by
  intro e r h
  rw [typeProgram_append] at h ⊢
  cases hq : typeProgram q e with
  | error er => simp [hq] at h
  | ok e1 =>
    simp only [hq] at h
    rw [h1 e e1 hq]
    exact h2 e1 r h

theorem program_append (a b : List Stage) : program (a ++ b) = program a ++ program b := by
  simp [program, List.flatMap_append]

/-- syntactically neutral for degrees -/
def neutralB : Instr → Bool
  | .assign _ dst (.lin _) [a] => dst == a
  | .assign _ dst .padCoils [a] => dst == a
  | _ => false

theorem set_self (e : TEnv) (k : Key) (d : Int) (h : e k = some d) : e.set k (some d) = e := by
  funext k'; unfold AEnv.set; by_cases hk : k' = k <;> simp [hk, h]

theorem neutral_sound (i : Instr) (hn : neutralB i = true) (e e' : TEnv) (h : typeInstr i e = .ok e') :
    e' = e := by
  match i, hn with
  | .assign gs dst (.lin l) [a], hn =>
    simp only [neutralB, beq_iff_eq] at hn; subst hn
    simp only [typeInstr, absInstr, getAllA] at h
    split at h
    · cases hd : e dst with
      | none => simp [hd] at h
      | some d => simp [hd, opDeg] at h; rw [← h]; exact set_self e dst d hd
    · simp at h; exact h.symm
  | .assign gs dst .padCoils [a], hn =>
    simp only [neutralB, beq_iff_eq] at hn; subst hn
    simp only [typeInstr, absInstr, getAllA] at h
    split at h
    · cases hd : e dst with
      | none => simp [hd] at h
      | some d => simp [hd, opDeg] at h; rw [← h]; exact set_self e dst d hd
    · simp at h; exact h.symm

/-- operations with the same degree rule -/
def opSameDeg : Op → Op → Bool
  | .lin _, .lin _ => true
  | .kthModulus, .maxModulus => true
  | .maxModulus, .kthModulus => true
  | .extMask _ _ _, .extMask _ _ _ => true
  | .split _ _ _, .split _ _ _ => true
  | a, b => a == b

theorem opSameDeg_sound (o o' : Op) (h : opSameDeg o o' = true) (ds : List Int) : opDeg o ds = opDeg o' ds := by
  cases o <;> cases o' <;> simp [opSameDeg] at h <;> first | rfl | (subst_vars; rfl) | skip
  all_goals (try (rcases ds with _ | ⟨_, _ | ⟨_, _ | ⟨_, _⟩⟩⟩ <;> rfl))
  all_goals (obtain ⟨h1, h2, h3⟩ := h; subst h1; subst h2; subst h3; rfl)

def sameB : Instr → Instr → Bool
  | .assign g d o a, .assign g' d' o' a' => g == g' && d == d' && a == a' && opSameDeg o o'
  | i, j => i == j

theorem same_sound (i j : Instr) (h : sameB i j = true) (e : TEnv) : typeInstr i e = typeInstr j e := by
  match i, j, h with
  | .assign g d o a, .assign g' d' o' a', h =>
    simp only [sameB, Bool.and_eq_true, beq_iff_eq] at h
    obtain ⟨⟨⟨h1, h2⟩, h3⟩, h4⟩ := h
    subst h1; subst h2; subst h3
    simp only [typeInstr, absInstr, opSameDeg_sound _ _ h4]
  | .assign .., .delete _, h => simp [sameB] at h
  | .assign .., .move .., h => simp [sameB] at h
  | .assign .., .require _, h => simp [sameB] at h
  | .delete _, j, h => simp only [sameB, beq_iff_eq] at h; subst h; rfl
  | .move .., j, h => simp only [sameB, beq_iff_eq] at h; subst h; rfl
  | .require _, j, h => simp only [sameB, beq_iff_eq] at h; subst h; rfl

/-- `p` is `q` with neutral instructions deleted and instructions replaced by degree-equivalent ones -/
def relB : List Instr → List Instr → Bool
  | [], [] => true
  | _ :: _, [] => false
  | [], j :: q => neutralB j && relB [] q
  | i :: p, j :: q => (sameB i j && relB p q) || (neutralB j && relB (i :: p) q)

theorem relB_sound : ∀ (p q : List Instr), relB p q = true → RelP p q
  | [], [], _ => RelP.refl _
  | _ :: _, [], h => by simp [relB] at h
  | [], j :: q, h => by
      simp only [relB, Bool.and_eq_true] at h
      intro e r ht
      simp only [typeProgram, absProgram] at ht
      cases hj : absInstr opDeg j e with
      | error er => simp [hj] at ht
      | ok e1 =>
        simp only [hj] at ht
        have := neutral_sound j h.1 e e1 hj; subst this
        exact relB_sound [] q h.2 e1 r ht
  | i :: p, j :: q, h => by
      simp only [relB, Bool.or_eq_true, Bool.and_eq_true] at h
      intro e r ht
      simp only [typeProgram, absProgram] at ht
      cases hj : absInstr opDeg j e with
      | error er => simp [hj] at ht
      | ok e1 =>
        simp only [hj] at ht
        rcases h with ⟨h1, h2⟩ | ⟨h1, h2⟩
        · have hs := same_sound i j h1 e
          simp only [typeInstr] at hs
          simp only [typeProgram, absProgram, hs, hj]
          exact relB_sound p q h2 e1 r ht
        · have := neutral_sound j h1 e e1 hj; subst this
          exact relB_sound (i :: p) q h2 e1 r ht

/-! ## the canonical configuration -/

/-- all degree-neutral stages present, all degree-irrelevant arguments fixed -/
def canon (c : Config) : Config :=
  { c with crop := .tuple, imageCenterCrop := true, rescale := true, pad := true, rotation := true,
           flip := true, reverse := true, compressCoils := true, padCoils := true, smapGaussian := true,
           percentile := true, useSeed := true, split := .gaussian }

theorem rel_opt (f : Bool) (l l' : List Stage) (h : RelP (program l) (program l'))
    (hn : RelP (program []) (program l')) : RelP (program (opt f l)) (program (opt true l')) := by
  cases f
  · exact hn
  · exact h

theorem rel_opt_same (f : Bool) (l l' : List Stage) (h : RelP (program l) (program l')) :
    RelP (program (opt f l)) (program (opt f l')) := by
  cases f
  · exact RelP.refl _
  · exact h

theorem rel_build (c : Config) : RelP (program (build c)) (program (build (canon c))) := by
  obtain ⟨crop, center, rescale, pad, rot, flip, rev, pe, mf, cc, pc, bc, es, st, sg, da, dk, recon, sk, pct,
    us, ssl, split, ka⟩ := c
  simp only [build, buildSupervised, canon, program_append]
  iterate 19 apply RelP.append
  · exact RelP.refl _
  · -- CropKspace
    have : (CropArg.tuple != CropArg.none) = true := by decide
    rw [this]
    apply rel_opt
    · cases center <;> cases us <;> exact relB_sound _ _ (by decide)
    · exact relB_sound _ _ (by decide)
  · exact rel_opt _ _ _ (RelP.refl _) (relB_sound _ _ (by decide))
  · exact rel_opt _ _ _ (RelP.refl _) (relB_sound _ _ (by decide))
  · exact rel_opt _ _ _ (RelP.refl _) (relB_sound _ _ (by decide))
  · exact rel_opt _ _ _ (RelP.refl _) (relB_sound _ _ (by decide))
  · exact rel_opt _ _ _ (RelP.refl _) (relB_sound _ _ (by decide))
  · exact RelP.refl _
  · -- CreateSamplingMask
    apply rel_opt_same
    cases crop <;> cases us <;> cases es <;> exact relB_sound _ _ (by decide)
  · exact rel_opt _ _ _ (RelP.refl _) (relB_sound _ _ (by decide))
  · exact rel_opt _ _ _ (RelP.refl _) (relB_sound _ _ (by decide))
  · -- EstimateBodyCoilImage
    apply rel_opt_same
    cases us <;> exact relB_sound _ _ (by decide)
  · -- EstimateSensitivityMap
    apply rel_opt_same
    cases st <;> cases sg <;> exact relB_sound _ _ (by decide)
  · exact RelP.refl _
  · exact RelP.refl _
  · -- ComputeScalingFactor / Normalize
    cases pct
    · cases sk <;> first | exact relB_sound _ _ (by decide) | (rename_i k; cases k <;> exact relB_sound _ _ (by decide))
    · exact RelP.refl _
  · exact RelP.refl _
  · exact RelP.refl _
  · exact RelP.refl _
  · -- SSL tail
    apply rel_opt_same
    simp only [program_append]
    iterate 2 apply RelP.append
    · cases split <;> cases ka <;> cases us <;> exact relB_sound _ _ (by decide)
    · exact RelP.refl _
    · exact RelP.refl _

/-- a successful check of the canonical configuration carries over -/
theorem degreesOk_of_canon (c : Config) (h : degreesOk c.ssl (build (canon c)) = true) :
    degreesOk c.ssl (build c) = true := by
  unfold degreesOk at h ⊢
  cases hq : typeProgram (program (build (canon c))) initEnv with
  | error er => simp [hq] at h
  | ok r =>
    simp only [hq] at h
    rw [rel_build c initEnv r hq]
    exact h

end DirectVerif.Pipeline
