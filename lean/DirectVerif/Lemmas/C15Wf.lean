import DirectVerif.Lemmas.C15Safe
/-!
# Crash safety of *every* well-formed save table — no Mathlib
-/
namespace DirectVerif.Ckpt

/-! ### interleavings -/

theorem mem_interleave_mem {α} {X Y A : List α} (h : A ∈ interleave X Y) : ∀ a ∈ A, a ∈ X ∨ a ∈ Y := by
  induction X generalizing Y A with
  | nil => simp only [interleave, List.mem_singleton] at h; subst h; intro a ha; exact Or.inr ha
  | cons x xs ih =>
    simp only [interleave, List.mem_flatMap, List.mem_map, List.mem_range] at h
    obtain ⟨i, _, r, hr, rfl⟩ := h
    intro a ha
    rcases List.mem_append.mp ha with h1 | h1
    · exact Or.inr (List.mem_of_mem_take h1)
    · rcases List.mem_cons.mp h1 with rfl | h2
      · exact Or.inl List.mem_cons_self
      · rcases ih hr a h2 with h3 | h3
        · exact Or.inl (List.mem_cons_of_mem _ h3)
        · exact Or.inr (List.mem_of_mem_drop h3)

theorem flatMap_eq_nil_of {α β} (l : List α) (g : α → List β) (h : ∀ a ∈ l, g a = []) : l.flatMap g = [] := by
  induction l with
  | nil => rfl
  | cons a l ih =>
    rw [List.flatMap_cons, h a List.mem_cons_self, ih (fun b hb => h b (List.mem_cons_of_mem _ hb))]; rfl

/-- mapping the second sequence to nothing leaves the first -/
theorem interleave_flatMap_left {α β} {X Y A : List α} (g : α → List β) (h : A ∈ interleave X Y)
    (hY : ∀ y ∈ Y, g y = []) : A.flatMap g = X.flatMap g := by
  induction X generalizing Y A with
  | nil =>
    simp only [interleave, List.mem_singleton] at h; subst h
    rw [flatMap_eq_nil_of _ _ hY]; rfl
  | cons x xs ih =>
    simp only [interleave, List.mem_flatMap, List.mem_map, List.mem_range] at h
    obtain ⟨i, _, r, hr, rfl⟩ := h
    rw [List.flatMap_append, List.flatMap_cons, List.flatMap_cons,
      flatMap_eq_nil_of _ _ (fun a ha => hY a (List.mem_of_mem_take ha)),
      ih hr (fun a ha => hY a (List.mem_of_mem_drop ha))]
    rfl

/-- mapping the first sequence to nothing leaves the second -/
theorem interleave_flatMap_right {α β} {X Y A : List α} (g : α → List β) (h : A ∈ interleave X Y)
    (hX : ∀ x ∈ X, g x = []) : A.flatMap g = Y.flatMap g := by
  induction X generalizing Y A with
  | nil => simp only [interleave, List.mem_singleton] at h; subst h; rfl
  | cons x xs ih =>
    simp only [interleave, List.mem_flatMap, List.mem_map, List.mem_range] at h
    obtain ⟨i, _, r, hr, rfl⟩ := h
    rw [List.flatMap_append, List.flatMap_cons, hX x List.mem_cons_self,
      ih hr (fun a ha => hX a (List.mem_cons_of_mem _ ha)), List.nil_append, ← List.flatMap_append,
      List.take_append_drop]

/-! ### projection of a run on one temporary name -/

def touchesB (g : FName) : FsOp → Bool
  | .openTrunc f => g == f
  | .write f _ => g == f
  | .close _ => false
  | .replace s t => g == s || g == t
  | .unlink f => g == f

theorem touchesB_iff (g : FName) (o : FsOp) : touchesB g o = true ↔ touches o g := by
  cases o <;> simp [touchesB, touches]

/-- the content of a name that is never the *destination* of a replace depends only on the operations that touch it -/
theorem run_proj (g : FName) (ops : List FsOp) (hdest : ∀ s t, FsOp.replace s t ∈ ops → t ≠ g)
    (d d' : Dir) (h : d g = d' g) : run d ops g = run d' (ops.filter (touchesB g)) g := by
  induction ops generalizing d d' with
  | nil => exact h
  | cons o r ih =>
    have hd' : ∀ s t, FsOp.replace s t ∈ r → t ≠ g := fun s t hm => hdest s t (List.mem_cons_of_mem _ hm)
    by_cases ht : touchesB g o = true
    · rw [List.filter_cons_of_pos ht, run_cons, run_cons]
      apply ih hd'
      cases o with
      | openTrunc f =>
        simp only [touchesB, beq_iff_eq] at ht; subst ht
        simp [applyOp, set_same]
      | write f c =>
        simp only [touchesB, beq_iff_eq] at ht; subst ht
        simp only [applyOp, ← h]
        cases d g <;> simp [set_same, h]
      | close f => simp [touchesB] at ht
      | replace s t =>
        have hne : t ≠ g := hdest s t List.mem_cons_self
        simp only [touchesB, Bool.or_eq_true, beq_iff_eq] at ht
        have hs : g = s := by
          rcases ht with h1 | h1
          · exact h1
          · exact absurd h1.symm hne
        subst hs
        simp only [applyOp, ← h]
        cases hg : d g with
        | none => simp [← h, hg]
        | some b => simp [set_same]
      | unlink f =>
        simp only [touchesB, beq_iff_eq] at ht; subst ht
        simp [applyOp, set_same]
    · rw [List.filter_cons_of_neg ht, run_cons]
      have : ¬ touches o g := fun hh => ht ((touchesB_iff g o).mpr hh)
      exact ih hd' _ _ (by rw [applyOp_frame _ _ _ this]; exact h)

/-! ### what the statements of the two sequences do -/

def isTmp (g : FName) : Prop := g ≠ .last ∧ ∀ j, g ≠ .model j

theorem load_of_crash_in_tmp_ops {S} (decode : Bytes → Option S) (d : Dir) (seg p : List FsOp)
    (hseg : ∀ o ∈ seg, ∀ g, touches o g → isTmp g) (hp : CrashOf seg p) :
    loadLatest decode (run d p) = loadLatest decode d := by
  have fr : ∀ g, ¬ isTmp g → run d p g = d g := by
    intro g hg
    apply run_frame
    intro o ho ht
    obtain ⟨o', ho', ht'⟩ := hp.touches o ho g ht
    exact hg (hseg o' ho' g ht')
  exact loadLatest_congr decode d _ (fr _ (fun h => h.1 rfl)) (fun j => fr _ (fun h => h.2 j rfl))

theorem instStmt_seqModel_touches (it : Int) (chunks : List Bytes) (st : Stmt) (hs : st ∈ seqModel) :
    ∀ o ∈ instStmt it chunks st, ∀ g, touches o g → g = .modelTmp it := by
  simp only [seqModel, List.mem_cons, List.not_mem_nil, or_false] at hs
  rcases hs with rfl | rfl | rfl <;> intro o ho g hg <;>
    simp only [instStmt, FKind.name, List.mem_singleton, List.mem_map] at ho
  · subst ho; exact hg
  · obtain ⟨c, _, rfl⟩ := ho; exact hg
  · subst ho; exact hg.elim

theorem instStmt_seqLast_touches (it : Int) (chunks : List Bytes) (st : Stmt) (hs : st ∈ seqLast) :
    ∀ o ∈ instStmt it chunks st, ∀ g, touches o g → g = .lastTmp := by
  simp only [seqLast, List.mem_cons, List.not_mem_nil, or_false] at hs
  rcases hs with rfl | rfl | rfl <;> intro o ho g hg <;>
    simp only [instStmt, FKind.name, List.mem_singleton] at ho
  · subst ho; exact hg
  · subst ho; exact hg
  · subst ho; exact hg.elim

theorem filter_eq_nil_of {α} (l : List α) (p : α → Bool) (h : ∀ a ∈ l, p a = false) : l.filter p = [] := by
  rw [List.filter_eq_nil_iff]; intro a ha; simp [h a ha]

theorem seqLast_filter_modelTmp (it : Int) (chunks : List Bytes) (st : Stmt) (hs : st ∈ seqLast) :
    (instStmt it chunks st).filter (touchesB (.modelTmp it)) = [] := by
  apply filter_eq_nil_of
  intro o ho
  cases hb : touchesB (.modelTmp it) o with
  | false => rfl
  | true =>
    have := instStmt_seqLast_touches it chunks st hs o ho _ ((touchesB_iff _ _).mp hb)
    simp at this

theorem seqModel_filter_lastTmp (it : Int) (chunks : List Bytes) (st : Stmt) (hs : st ∈ seqModel) :
    (instStmt it chunks st).filter (touchesB .lastTmp) = [] := by
  apply filter_eq_nil_of
  intro o ho
  cases hb : touchesB .lastTmp o with
  | false => rfl
  | true =>
    have := instStmt_seqModel_touches it chunks st hs o ho _ ((touchesB_iff _ _).mp hb)
    simp at this

theorem filter_flatMap {α β} (l : List α) (f : α → List β) (p : β → Bool) :
    (l.flatMap f).filter p = l.flatMap fun a => (f a).filter p := by
  induction l with
  | nil => rfl
  | cons a l ih => simp [List.flatMap_cons, List.filter_append, ih]

theorem seqModel_proj (it : Int) (chunks : List Bytes) :
    (seqModel.flatMap fun st => (instStmt it chunks st).filter (touchesB (.modelTmp it)))
      = .openTrunc (.modelTmp it) :: chunks.map (.write (.modelTmp it)) := by
  have : (chunks.map (FsOp.write (.modelTmp it))).filter (touchesB (.modelTmp it))
      = chunks.map (FsOp.write (.modelTmp it)) := by
    rw [List.filter_eq_self]; intro o ho
    obtain ⟨c, _, rfl⟩ := List.mem_map.mp ho
    simp [touchesB]
  simp [seqModel, instStmt, FKind.name, touchesB, this]

theorem seqLast_proj (it : Int) (chunks : List Bytes) :
    (seqLast.flatMap fun st => (instStmt it chunks st).filter (touchesB .lastTmp))
      = [.openTrunc .lastTmp, .write .lastTmp (strInt it)] := by
  simp [seqLast, instStmt, FKind.name, touchesB]

theorem run_open_writes (d : Dir) (f : FName) (chunks : List Bytes) :
    run d (.openTrunc f :: chunks.map (.write f)) f = some chunks.flatten := by
  rw [run_cons, run_writes _ _ _ [] (by simp [applyOp, set_same])]; rfl

/-! ### the main theorem -/

/-- the decomposition a well-formed table comes with -/
theorem wfTables_decomp {t : List Stmt} (h : t ∈ wfTables) :
    ∃ i a, a ∈ interleave seqModel (seqLast.take i) ∧
      t = a ++ [.replace .modelTmp .model] ++ seqLast.drop i ++ [.replace .lastTmp .last] := by
  simp only [wfTables, List.mem_flatMap, List.mem_map, List.mem_range] at h
  obtain ⟨i, _, a, ha, rfl⟩ := h
  exact ⟨i, a, ha, rfl⟩

section main
variable {S : Type} (decode : Bytes → Option S) (it : Nat) (chunks : List Bytes) (s : S)
  (hdec : decode chunks.flatten = some s) (i : Nat) (a : List Stmt)
  (ha : a ∈ interleave seqModel (seqLast.take i))
include ha

private theorem OA_touches : ∀ o ∈ opsOf a it chunks, ∀ g, touches o g → isTmp g := by
  intro o ho g hg
  simp only [opsOf, List.mem_flatMap] at ho
  obtain ⟨st, hst, ho⟩ := ho
  rcases mem_interleave_mem ha st hst with h1 | h1
  · rw [instStmt_seqModel_touches it chunks st h1 o ho g hg]; exact ⟨by simp, by simp⟩
  · rw [instStmt_seqLast_touches it chunks st (List.mem_of_mem_take h1) o ho g hg]; exact ⟨by simp, by simp⟩

private theorem OA_no_replace : ∀ s' t', FsOp.replace s' t' ∈ opsOf a it chunks → False := by
  intro s' t' hm
  simp only [opsOf, List.mem_flatMap] at hm
  obtain ⟨st, hst, ho⟩ := hm
  rcases mem_interleave_mem ha st hst with h1 | h1
  · simp only [seqModel, List.mem_cons, List.not_mem_nil, or_false] at h1
    rcases h1 with rfl | rfl | rfl <;> simp [instStmt] at ho
  · have h1 := List.mem_of_mem_take h1
    simp only [seqLast, List.mem_cons, List.not_mem_nil, or_false] at h1
    rcases h1 with rfl | rfl | rfl <;> simp [instStmt] at ho

private theorem OA_modelTmp (d : Dir) : run d (opsOf a it chunks) (.modelTmp it) = some chunks.flatten := by
  rw [run_proj _ _ (fun s' t' hm => (OA_no_replace it chunks i a ha s' t' hm).elim) d d rfl]
  have : (opsOf a it chunks).filter (touchesB (.modelTmp it))
      = .openTrunc (.modelTmp it) :: chunks.map (.write (.modelTmp it)) := by
    rw [opsOf, filter_flatMap,
      interleave_flatMap_left _ ha (fun y hy => seqLast_filter_modelTmp it chunks y (List.mem_of_mem_take hy)),
      seqModel_proj]
  rw [this, run_open_writes]

private theorem OAB_lastTmp (d : Dir) :
    run d (opsOf a it chunks ++ .replace (.modelTmp it) (.model it) :: opsOf (seqLast.drop i) it chunks) .lastTmp
      = some (strInt it) := by
  have hd : ∀ s' t', FsOp.replace s' t' ∈
      (opsOf a it chunks ++ .replace (.modelTmp it) (.model it) :: opsOf (seqLast.drop i) it chunks) → t' ≠ .lastTmp := by
    intro s' t' hm
    rcases List.mem_append.mp hm with h1 | h1
    · exact (OA_no_replace it chunks i a ha s' t' h1).elim
    · rcases List.mem_cons.mp h1 with h2 | h2
      · injection h2 with _ h3; subst h3; simp
      · simp only [opsOf, List.mem_flatMap] at h2
        obtain ⟨st, hst, ho⟩ := h2
        have h1 := List.mem_of_mem_drop hst
        simp only [seqLast, List.mem_cons, List.not_mem_nil, or_false] at h1
        rcases h1 with rfl | rfl | rfl <;> simp [instStmt] at ho
  rw [run_proj _ _ hd d d rfl]
  have : (opsOf a it chunks ++ .replace (.modelTmp it) (.model it) :: opsOf (seqLast.drop i) it chunks).filter
      (touchesB .lastTmp) = [.openTrunc .lastTmp, .write .lastTmp (strInt it)] := by
    rw [List.filter_append, List.filter_cons_of_neg (by simp [touchesB]), opsOf, opsOf, filter_flatMap, filter_flatMap,
      interleave_flatMap_right _ ha (fun x hx => seqModel_filter_lastTmp it chunks x hx), ← List.flatMap_append,
      List.take_append_drop, seqLast_proj]
  rw [this]
  simp [run, applyOp, set_same]

set_option linter.unusedSectionVars false in
private theorem OB_touches : ∀ o ∈ opsOf (seqLast.drop i) it chunks, ∀ g, touches o g → g = .lastTmp := by
  intro o ho g hg
  simp only [opsOf, List.mem_flatMap] at ho
  obtain ⟨st, hst, ho⟩ := ho
  exact instStmt_seqLast_touches it chunks st (List.mem_of_mem_drop hst) o ho g hg

include hdec

/-- **Crash safety of every well-formed save table**, from any directory, at any crash point. -/
theorem crash_safe_decomp (d : Dir) (p : List FsOp)
    (hp : CrashOf (opsOf (a ++ [.replace .modelTmp .model] ++ seqLast.drop i ++ [.replace .lastTmp .last]) it chunks) p) :
    loadLatest decode (run d p) = loadLatest decode d ∨ loadLatest decode (run d p) = .ok it s := by
  have e : opsOf (a ++ [.replace .modelTmp .model] ++ seqLast.drop i ++ [.replace .lastTmp .last]) it chunks
      = opsOf a it chunks ++ (.replace (.modelTmp it) (.model it) ::
          (opsOf (seqLast.drop i) it chunks ++ [.replace .lastTmp .last])) := by
    simp [opsOf, List.flatMap_append, instStmt, FKind.name]
  rw [e] at hp
  have hA := OA_touches it chunks i a ha
  have hB : ∀ o ∈ opsOf (seqLast.drop i) it chunks, ∀ g, touches o g → isTmp g := by
    intro o ho g hg; rw [OB_touches it chunks i a ha o ho g hg]; exact ⟨by simp, by simp⟩
  rcases hp.append_cases with h1 | ⟨q, rfl, hq⟩
  · exact Or.inl (load_of_crash_in_tmp_ops decode d _ p hA h1)
  · cases hq with
    | nil =>
      rw [List.append_nil]
      exact Or.inl (load_of_crash_in_tmp_ops decode d _ _ hA (.refl _))
    | cons _ _ q' hq' =>
      have hd0 : ∀ g, ¬ isTmp g → run d (opsOf a it chunks) g = d g := by
        intro g hg
        apply run_frame
        intro o ho ht
        exact hg (hA o ho g ht)
      rw [run_append, run_cons]
      generalize hD1 : applyOp (run d (opsOf a it chunks)) (.replace (.modelTmp it) (.model it)) = d1
      have hm : d1 (.model it) = some chunks.flatten := by
        rw [← hD1]
        simp only [applyOp, OA_modelTmp it chunks i a ha]
        rw [set_other _ _ _ _ (by simp), set_same]
      have hother : ∀ g, g ≠ .modelTmp (it : Int) → g ≠ .model (it : Int) → d1 g = run d (opsOf a it chunks) g := by
        intro g h1 h2
        rw [← hD1]
        simp only [applyOp, OA_modelTmp it chunks i a ha]
        rw [set_other _ _ _ _ h1, set_other _ _ _ _ h2]
      have base := load_after_model_replace decode d d1 it chunks.flatten s hdec
        (by rw [hother _ (by simp) (by simp), hd0 _ (fun h => h.1 rfl)]) hm
        (fun j hj => by rw [hother _ (by simp) (by simpa using hj), hd0 _ (fun h => h.2 j rfl)])
      rcases hq'.append_cases with h2 | ⟨q'', rfl, hq''⟩
      · rw [load_of_crash_in_tmp_ops decode d1 _ q' hB h2]; exact base
      · cases hq'' with
        | nil =>
          rw [List.append_nil, load_of_crash_in_tmp_ops decode d1 _ _ hB (.refl _)]; exact base
        | cons _ _ q3 hq3 =>
          cases hq3
          right
          have hL : run d1 (opsOf (seqLast.drop i) it chunks) .lastTmp = some (strInt it) := by
            have := OAB_lastTmp it chunks i a ha d
            rw [run_append, run_cons, hD1] at this
            exact this
          apply load_after_last_replace decode _ it chunks.flatten s hdec
          · rw [run_append, run_cons, run_nil]
            simp only [applyOp, hL]
            rw [set_other _ _ _ _ (by simp), set_same]
          · rw [run_append, run_cons, run_nil]
            simp only [applyOp, hL]
            rw [set_other _ _ _ _ (by simp), set_other _ _ _ _ (by simp),
              run_frame d1 _ _ (fun o ho ht => by
                have := OB_touches it chunks i a ha o ho _ ht; simp at this)]
            exact hm

end main

/-- **`wfSave t` ⇒ one save by table `t` is crash safe** -/
theorem crash_safe_of_wf {S} (decode : Bytes → Option S) (t : List Stmt) (hwf : wfSave t = true)
    (d : Dir) (it : Nat) (chunks : List Bytes) (s : S) (hdec : decode chunks.flatten = some s)
    (p : List FsOp) (hp : CrashOf (opsOf t it chunks) p) :
    loadLatest decode (run d p) = loadLatest decode d ∨ loadLatest decode (run d p) = .ok it s := by
  have hmem : t ∈ wfTables := by simpa [wfSave] using hwf
  obtain ⟨i, a, ha, rfl⟩ := wfTables_decomp hmem
  exact crash_safe_decomp decode it chunks s hdec i a ha d p hp

/-- … and a complete save by a well-formed table followed by `load('latest')` returns what was saved -/
theorem save_then_load_of_wf {S} (decode : Bytes → Option S) (t : List Stmt) (hwf : wfSave t = true)
    (d : Dir) (it : Nat) (chunks : List Bytes) (s : S) (hdec : decode chunks.flatten = some s) :
    loadLatest decode (run d (opsOf t it chunks)) = .ok it s := by
  have hmem : t ∈ wfTables := by simpa [wfSave] using hwf
  obtain ⟨i, a, ha, rfl⟩ := wfTables_decomp hmem
  have e : opsOf (a ++ [.replace .modelTmp .model] ++ seqLast.drop i ++ [.replace .lastTmp .last]) it chunks
      = (opsOf a it chunks ++ .replace (.modelTmp it) (.model it) :: opsOf (seqLast.drop i) it chunks)
          ++ [.replace .lastTmp .last] := by
    simp [opsOf, List.flatMap_append, instStmt, FKind.name]
  rw [e, run_append, run_cons, run_nil]
  have hL := OAB_lastTmp it chunks i a ha d
  apply load_after_last_replace decode _ it chunks.flatten s hdec
  · simp only [applyOp, hL]
    rw [set_other _ _ _ _ (by simp), set_same]
  · simp only [applyOp, hL]
    rw [set_other _ _ _ _ (by simp), set_other _ _ _ _ (by simp), run_append, run_cons,
      run_frame _ (opsOf (seqLast.drop i) it chunks) _ (fun o ho ht => by
        have := OB_touches it chunks i a ha o ho _ ht; simp at this)]
    simp only [applyOp, OA_modelTmp it chunks i a ha]
    rw [set_other _ _ _ _ (by simp), set_same]

end DirectVerif.Ckpt
