import DirectVerif.Lemmas.TensorLift
import DirectVerif.Props.C10
/-!
# n-D corollaries of the 1-D C10 property theorems

The drivers execute n-D operations as `Tensor.alongAxis` applications of the 1-D list models; the
lifting laws of `Lemmas/TensorLift.lean` (proved for the very `alongAxis` the drivers run) turn the
1-D theorems of `Props/C10.lean` into statements about whole tensors.
-/
namespace DirectVerif.TensorLift
open DirectVerif DirectVerif.Tensor
variable {α : Type} [Inhabited α]

/-! ## n-D corollaries of the 1-D property theorems -/

/-- **C10, n-D**: zero-padding axis `a` of a well-formed tensor from its length `n` to `N ≥ n`
(`pad_tensor`'s per-axis `padTo`) and centre-cropping that axis back to `n` is the identity. -/
theorem pad_then_center_crop_id_nd (t : Tensor α) (a N : Nat) (fill : α)
    (hwf : t.data.length = prod t.shape) (ha : a < t.shape.length) (hN : t.shape.getD a 1 ≤ N) :
    (t.alongAxis a (Crop.padTo fill N)).alongAxis a (Crop.centerCrop (t.shape.getD a 1)) = t := by
  apply alongAxis_cancel t a _ _ N hwf ha
  · intro xs hxs; exact C10.pad_length fill N xs (by omega)
  · intro xs hxs; exact C10.center_crop_length _ xs (by omega)
  · intro xs hxs
    rw [← hxs]; exact C10.pad_then_center_crop_id fill N xs (by omega)

/-- the same, with the pad written as the driver executes it: `F.pad` with the explicit amounts
`(padBefore N n, padAfter N n)` -/
theorem fpad_then_center_crop_id_nd (t : Tensor α) (a N : Nat) (fill : α)
    (hwf : t.data.length = prod t.shape) (ha : a < t.shape.length) (hN : t.shape.getD a 1 ≤ N) :
    (t.alongAxis a (Crop.fPad fill (Crop.padBefore N (t.shape.getD a 1 : Nat)).toNat
        (Crop.padAfter N (t.shape.getD a 1 : Nat)).toNat)).alongAxis a
      (Crop.centerCrop (t.shape.getD a 1)) = t := by
  rw [alongAxis_congr t a _ (Crop.padTo fill N) (fun xs hxs => by simp only [Crop.padTo, hxs])]
  exact pad_then_center_crop_id_nd t a N fill hwf ha hN


omit [Inhabited α] in
theorem fPad_length (fill : α) (l r : Nat) (xs : List α) : (Crop.fPad fill l r xs).length = l + xs.length + r := by
  simp only [Crop.fPad, List.length_append, List.length_replicate]

/-- `F.pad` with a constant is an index gather with fill -/
theorem fPad_isGather (fill : α) (l r n : Nat) :
    IsGather (Crop.fPad fill l r) n (l + n + r)
      (fun k => if k < l then none else if k < l + n then some (k - l) else none) fill := by
  refine ⟨fun xs hxs => by rw [fPad_length, hxs], ?_, ?_⟩
  · intro k j _ h
    split at h
    · cases h
    · split at h
      · cases h; omega
      · cases h
  · intro xs hxs k hk
    subst hxs
    simp only [Crop.fPad, List.getD_eq_getElem?_getD]
    by_cases h1 : k < l
    · simp [h1, List.getElem?_append]
    · by_cases h2 : k < l + xs.length
      · have : k - l < xs.length := by omega
        simp [h1, h2, List.getElem?_append, this]
      · have h3 : ¬ k - l < xs.length := by omega
        have h4 : k - l - xs.length < r := by omega
        simp [h1, h2, List.getElem?_append, h3, h4]

omit [Inhabited α] in
theorem fPad_replicate (fill : α) (l r n : Nat) :
    Crop.fPad fill l r (List.replicate n fill) = List.replicate (l + n + r) fill := by
  simp [Crop.fPad, List.replicate_append_replicate]

/-- the centre crop is an index gather (no fill) -/
theorem centerCrop_isGather (s n : Nat) (h : s ≤ n) (c : α) :
    IsGather (Crop.centerCrop s) n s (fun k => some (k + (n - s) / 2)) c := by
  apply IsGather.of_getElem? (fun k => k + (n - s) / 2) c
  · intro xs hxs; exact C10.center_crop_length s xs (by omega)
  · intro k hk; omega
  · intro xs hxs k hk
    subst hxs
    exact C10.center_crop_window s xs h k hk

/-- **C10, n-D**: constant pads (same fill value) along two different axes commute -/
theorem pad_comm_nd (t : Tensor α) (a b : Nat) (fill : α) (l r l' r' : Nat)
    (hne : a ≠ b) (ha : a < t.shape.length) (hb : b < t.shape.length) :
    (t.alongAxis a (Crop.fPad fill l r)).alongAxis b (Crop.fPad fill l' r') =
      (t.alongAxis b (Crop.fPad fill l' r')).alongAxis a (Crop.fPad fill l r) :=
  alongAxis_comm_gather t a b _ _ _ _ _ fill hne ha hb (fPad_isGather fill l r _)
    (fPad_isGather fill l' r' _).len (fun _ => fPad_replicate fill l' r' _)

/-- **C10, n-D**: a centre crop along one axis commutes with any length-uniform operation (crop,
pad, …) along another axis -/
theorem center_crop_comm_nd (t : Tensor α) (a b s : Nat) (g : List α → List α) (mb : Nat)
    (hne : a ≠ b) (ha : a < t.shape.length) (hb : b < t.shape.length) (hs : s ≤ t.shape.getD a 1)
    (hg : LenUniform g (t.shape.getD b 1) mb) :
    (t.alongAxis a (Crop.centerCrop s)).alongAxis b g = (t.alongAxis b g).alongAxis a (Crop.centerCrop s) :=
  alongAxis_comm_gather t a b _ g _ mb _ default hne ha hb (centerCrop_isGather s _ hs default) hg
    (fun ⟨_, _, h⟩ => by cases h)


/-! ### non-vacuity: the hypotheses are met by concrete tensors -/
example : (⟨[2, 3, 2], List.range 12⟩ : Tensor Nat).data.length = prod [2, 3, 2] := by decide
example : LenUniform (Crop.padTo (0 : Nat) 5) 3 5 := fun xs h => C10.pad_length 0 5 xs (by omega)
example : ((⟨[2, 3, 2], List.range 12⟩ : Tensor Nat).alongAxis 1 (Crop.padTo 0 5)).alongAxis 1
    (Crop.centerCrop 3) = ⟨[2, 3, 2], List.range 12⟩ :=
  pad_then_center_crop_id_nd ⟨[2, 3, 2], List.range 12⟩ 1 5 0 (by decide) (by decide) (by decide)
example : ((⟨[2, 3, 2], List.range 12⟩ : Tensor Nat).alongAxis 1 (Crop.padTo 0 5)).data =
    [0, 0, 0, 1, 2, 3, 4, 5, 0, 0, 0, 0, 6, 7, 8, 9, 10, 11, 0, 0] := by
  rw [alongAxis_eq_alongAxisL]; decide


end DirectVerif.TensorLift
