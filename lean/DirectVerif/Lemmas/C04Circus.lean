import DirectVerif.Lemmas.C06Assemble
/-!
Helper lemmas for C04: the CIRCUS largest-sampled-disc search returns promptly on masks that are not almost full.
-/
namespace DirectVerif.MaskGeom
open DirectVerif

/-- squared distance of the farthest grid cell (a corner) from the centre cell `(rows / 2, cols / 2)` -/
def farSq (rows cols : Nat) : Int := sq ((rows / 2 : Nat) : Int) + sq ((cols / 2 : Nat) : Int)

theorem sq_le_of_abs_le (a b : Int) (h1 : -b ≤ a) (h2 : a ≤ b) : sq a ≤ sq b := by
  unfold sq
  by_cases ha : 0 ≤ a
  · exact Int.mul_le_mul h2 h2 ha (by omega)
  · have h3 : 0 ≤ -a := by omega
    have : -a * -a ≤ b * b := Int.mul_le_mul (by omega) (by omega) h3 (by omega)
    rwa [Int.neg_mul_neg] at this

/-- a disc of squared radius at least `farSq` contains every cell of the grid -/
theorem inDiskLe_of_far (rows cols : Nat) (t : Int) (ht : farSq rows cols ≤ t) (x y : Nat) (hx : x < rows) (hy : y < cols) :
    inDiskLe rows cols t x y = true := by
  unfold inDiskLe
  simp only [decide_eq_true_eq]
  have h1 : sq ((x : Int) - ((rows / 2 : Nat) : Int)) ≤ sq ((rows / 2 : Nat) : Int) :=
    sq_le_of_abs_le _ _ (by omega) (by omega)
  have h2 : sq ((y : Int) - ((cols / 2 : Nat) : Int)) ≤ sq ((cols / 2 : Nat) : Int) :=
    sq_le_of_abs_le _ _ (by omega) (by omega)
  unfold farSq at ht
  omega

theorem diskLe_of_far (rows cols : Nat) (t : Int) (ht : farSq rows cols ≤ t) :
    diskLe rows cols t = List.replicate (rows * cols) true := by
  unfold diskLe
  apply List.ext_getElem
  · simp
  · intro k h1 h2
    simp only [List.length_map, List.length_range] at h1
    simp only [List.getElem_map, List.getElem_range, List.getElem_replicate]
    have hc : 0 < cols := by
      rcases Nat.eq_zero_or_pos cols with h | h
      · subst h; simp at h1
      · exact h
    apply inDiskLe_of_far rows cols t ht
    · exact (Nat.div_lt_iff_lt_mul hc).mpr h1
    · exact Nat.mod_lt _ hc

theorem andL_replicate_true_left (a : List Bool) : andL (List.replicate a.length true) a = a := by
  unfold andL
  induction a with
  | nil => rfl
  | cons x xs ih => simp [List.replicate_succ, ih]

/-- the search returns at (or before) the first radius whose disc covers the grid, whenever fewer than 10/11 of
the cells are sampled -/
theorem circusDisc_returns_of_sparse (rows cols : Nat) (mask : List Bool) (thr : List Int)
    (hlen : mask.length = rows * cols) (hfar : ∃ t ∈ thr, farSq rows cols ≤ t)
    (hsparse : 11 * mask.count true < 10 * (rows * cols)) : (circusDisc rows cols mask thr).isSome = true := by
  obtain ⟨t, ht, hge⟩ := hfar
  cases hr : circusDisc rows cols mask thr with
  | some r => rfl
  | none =>
    have := (circusDisc_none_iff rows cols mask thr).mp hr t ht
    rw [diskLe_of_far rows cols t hge] at this
    have e : andL (List.replicate (rows * cols) true) mask = mask := by
      rw [← hlen]; exact andL_replicate_true_left mask
    rw [e] at this
    simp only [List.count_replicate_self] at this
    omega

/-- the prefix of the radii that is actually visited -/
theorem circusDisc_take (rows cols : Nat) (mask : List Bool) (thr : List Int) (n : Nat)
    (h : (circusDisc rows cols mask (thr.take n)).isSome = true) :
    circusDisc rows cols mask thr = circusDisc rows cols mask (thr.take n) := by
  induction thr generalizing n with
  | nil => simp
  | cons t rest ih =>
    cases n with
    | zero => simp [circusDisc] at h
    | succ n =>
      simp only [List.take_succ_cons] at h ⊢
      unfold circusDisc at h ⊢
      simp only [] at h ⊢
      split
      · rfl
      · rename_i hc
        simp only [hc, if_false] at h
        exact ih n h

end DirectVerif.MaskGeom
