import DirectVerif.Model.Train
/-!
# Closed form of one loop iteration and of runs (shared by C15 and C16) — no Mathlib
-/
namespace DirectVerif.Train
variable {P O G B L Sc : Type} (ops : Ops P O G B L Sc) (lrAt : Nat → L) (cfg : Cfg)

/-- an iteration whose step branch is taken -/
theorem iter_step (s : St P O G Sc) (it : Nat) (b : B) (h : (it + 1) % cfg.k = 0) :
    iter ops lrAt cfg s it b =
      { theta := (ops.opt (lrAt s.epoch) s.theta s.ostate (received ops cfg (accum ops s b))).1,
        ostate := (ops.opt (lrAt s.epoch) s.theta s.ostate (received ops cfg (accum ops s b))).2,
        grad := ops.zero, epoch := s.epoch + 1, scaler := ops.supd s.scaler } := by
  by_cases hk : cfg.k > 1 <;> by_cases hc : cfg.clipOn = true <;>
    simp [iter, iterT, loopTable, evalGuard, applyEv, received, accum, h, hk, hc]

/-- an iteration inside an accumulation window -/
theorem iter_nostep (s : St P O G Sc) (it : Nat) (b : B) (h : (it + 1) % cfg.k ≠ 0) :
    iter ops lrAt cfg s it b = { s with grad := accum ops s b, epoch := s.epoch + 1 } := by
  simp [iter, iterT, loopTable, evalGuard, applyEv, accum, h]

end DirectVerif.Train

namespace DirectVerif.Train
variable {P O G B L Sc : Type} (ops : Ops P O G B L Sc) (lrAt : Nat → L) (cfg : Cfg) (batch : Nat → B)

/-- `.grad` after `backward` of batches `it0 … it0+n-1`, all at parameters `θ`, starting from `g0` -/
def windowSum (θ : P) (it0 n : Nat) (g0 : G) : G :=
  (List.range n).foldl (fun g j => ops.add g (ops.grad θ (batch (it0 + j)))) g0

/-- the state after an optimiser step on accumulated gradient `a` -/
def stepWith (s : St P O G Sc) (a : G) (epoch : Nat) : St P O G Sc :=
  { theta := (ops.opt (lrAt (epoch - 1)) s.theta s.ostate (received ops cfg a)).1,
    ostate := (ops.opt (lrAt (epoch - 1)) s.theta s.ostate (received ops cfg a)).2,
    grad := ops.zero, epoch := epoch, scaler := ops.supd s.scaler }

theorem runRange_succ (s : St P O G Sc) (a n : Nat) :
    runRange ops lrAt cfg batch s a (n + 1) =
      iter ops lrAt cfg (runRange ops lrAt cfg batch s a n) (a + n) (batch (a + n)) := rfl

theorem runRange_zero (s : St P O G Sc) (a : Nat) : runRange ops lrAt cfg batch s a 0 = s := rfl

theorem runRange_add (s : St P O G Sc) (a n m : Nat) :
    runRange ops lrAt cfg batch s a (n + m) =
      runRange ops lrAt cfg batch (runRange ops lrAt cfg batch s a n) (a + n) m := by
  induction m with
  | zero => rfl
  | succ m ih => rw [← Nat.add_assoc, runRange_succ, ih, runRange_succ, Nat.add_assoc]

/-- inside a window nothing but accumulation and the scheduler happens -/
theorem runRange_no_boundary (s : St P O G Sc) (it0 n : Nat)
    (h : ∀ j, j < n → (it0 + j + 1) % cfg.k ≠ 0) :
    runRange ops lrAt cfg batch s it0 n =
      { s with grad := windowSum ops batch s.theta it0 n s.grad, epoch := s.epoch + n } := by
  induction n with
  | zero => rfl
  | succ n ih =>
    rw [runRange_succ, ih (fun j hj => h j (Nat.lt_succ_of_lt hj)),
      iter_nostep _ _ _ _ _ _ (h n (Nat.lt_succ_self n))]
    simp [accum, windowSum, List.range_succ, List.foldl_append, Nat.add_assoc]

/-- **a window that ends with a step**: `n` accumulating iterations followed by the iteration whose
step branch is taken hand the optimiser everything accumulated since `it0` -/
theorem runRange_window (s : St P O G Sc) (it0 n : Nat)
    (h : ∀ j, j < n → (it0 + j + 1) % cfg.k ≠ 0) (hs : (it0 + n + 1) % cfg.k = 0) :
    runRange ops lrAt cfg batch s it0 (n + 1) =
      stepWith ops lrAt cfg s (windowSum ops batch s.theta it0 (n + 1) s.grad) (s.epoch + n + 1) := by
  rw [runRange_succ, runRange_no_boundary ops lrAt cfg batch s it0 n h, iter_step _ _ _ _ _ _ hs]
  simp [stepWith, accum, windowSum, List.range_succ, List.foldl_append]

theorem mod_window (k it0 r j : Nat) (hr : it0 % k = r) (hj : r + j + 1 < k) : (it0 + j + 1) % k ≠ 0 := by
  have : (it0 + j + 1) % k = r + j + 1 := by
    rw [Nat.add_assoc, Nat.add_mod, hr, Nat.mod_eq_of_lt (a := j + 1) (by omega), ← Nat.add_assoc,
      Nat.mod_eq_of_lt hj]
  omega

theorem mod_window_end (k it0 r : Nat) (hr : it0 % k = r) (hrk : r < k) : (it0 + (k - r - 1) + 1) % k = 0 := by
  have e : it0 + (k - r - 1) + 1 = it0 + (k - r) := by omega
  rw [e, Nat.add_mod, hr]
  by_cases h0 : r = 0
  · subst h0; simp
  · rw [Nat.mod_eq_of_lt (a := k - r) (by omega)]
    have : r + (k - r) = k := by omega
    rw [this, Nat.mod_self]

/-- starting `r` iterations into a window (`it0 % k = r`), the first optimiser step comes after
`k - r` iterations and receives what was accumulated over exactly these `k - r` batches -/
theorem runRange_first_step (s : St P O G Sc) (it0 r : Nat) (hr : it0 % cfg.k = r) (hrk : r < cfg.k) :
    runRange ops lrAt cfg batch s it0 (cfg.k - r) =
      stepWith ops lrAt cfg s (windowSum ops batch s.theta it0 (cfg.k - r) s.grad) (s.epoch + (cfg.k - r)) := by
  have e : cfg.k - r = (cfg.k - r - 1) + 1 := by omega
  rw [e, runRange_window ops lrAt cfg batch s it0 (cfg.k - r - 1)
    (fun j hj => mod_window cfg.k it0 r j hr (by omega)) (mod_window_end cfg.k it0 r hr hrk)]
  rfl

/-- the epoch counter advances by one per iteration, whatever happens to the gradients -/
theorem iter_epoch (s : St P O G Sc) (it : Nat) (b : B) : (iter ops lrAt cfg s it b).epoch = s.epoch + 1 := by
  by_cases h : (it + 1) % cfg.k = 0
  · rw [iter_step _ _ _ _ _ _ h]
  · rw [iter_nostep _ _ _ _ _ _ h]

theorem runRange_epoch (s : St P O G Sc) (a n : Nat) :
    (runRange ops lrAt cfg batch s a n).epoch = s.epoch + n := by
  induction n with
  | zero => rfl
  | succ n ih => rw [runRange_succ, iter_epoch, ih]; omega

/-- the scaler is only touched by `scaler.update()` inside the step branch -/
theorem iter_scaler (s : St P O G Sc) (it : Nat) (b : B) :
    (iter ops lrAt cfg s it b).scaler = if (it + 1) % cfg.k = 0 then ops.supd s.scaler else s.scaler := by
  by_cases h : (it + 1) % cfg.k = 0
  · rw [iter_step _ _ _ _ _ _ h, if_pos h]
  · rw [iter_nostep _ _ _ _ _ _ h, if_neg h]

/-- after an iteration that closes a window the accumulator is empty -/
theorem runRange_grad_zero (s : St P O G Sc) (a n : Nat) (h : (a + n) % cfg.k = 0) (hn : 0 < n) :
    (runRange ops lrAt cfg batch s a n).grad = ops.zero := by
  obtain ⟨m, rfl⟩ : ∃ m, n = m + 1 := ⟨n - 1, by omega⟩
  rw [runRange_succ, iter_step _ _ _ _ _ _ (by rw [Nat.add_assoc]; exact h)]

end DirectVerif.Train

namespace DirectVerif.Train
variable {P O G B L Sc : Type} (ops : Ops P O G B L Sc) (lrAt : Nat → L) (cfg : Cfg) (batch : Nat → B)

/-! ### runs with OOM-skipped iterations -/

theorem runRangeO_succ (oom : Nat → Bool) (s : St P O G Sc) (a n : Nat) :
    runRangeO ops lrAt cfg batch oom s a (n + 1) =
      if oom (a + n) then oomSkip ops (runRangeO ops lrAt cfg batch oom s a n)
      else iter ops lrAt cfg (runRangeO ops lrAt cfg batch oom s a n) (a + n) (batch (a + n)) := rfl

theorem runRangeO_add (oom : Nat → Bool) (s : St P O G Sc) (a n m : Nat) :
    runRangeO ops lrAt cfg batch oom s a (n + m) =
      runRangeO ops lrAt cfg batch oom (runRangeO ops lrAt cfg batch oom s a n) (a + n) m := by
  induction m with
  | zero => rfl
  | succ m ih => rw [← Nat.add_assoc, runRangeO_succ, ih, runRangeO_succ, Nat.add_assoc]

theorem runRangeO_no_oom (oom : Nat → Bool) (s : St P O G Sc) (a n : Nat) (h : ∀ j, j < n → oom (a + j) = false) :
    runRangeO ops lrAt cfg batch oom s a n = runRange ops lrAt cfg batch s a n := by
  induction n with
  | zero => rfl
  | succ n ih =>
    rw [runRangeO_succ, h n (Nat.lt_succ_self n), ih (fun j hj => h j (Nat.lt_succ_of_lt hj)), runRange_succ]
    rfl

/-- number of skipped iterations among `a … a+n-1` -/
def oomCount (oom : Nat → Bool) (a : Nat) : Nat → Nat
  | 0 => 0
  | n + 1 => oomCount oom a n + if oom (a + n) then 1 else 0

/-- the schedule advances once per *completed* iteration: every OOM-skipped iteration makes `last_epoch` lag one
behind the iteration index for the rest of the run -/
theorem runRangeO_epoch (oom : Nat → Bool) (s : St P O G Sc) (a n : Nat) :
    (runRangeO ops lrAt cfg batch oom s a n).epoch + oomCount oom a n = s.epoch + n := by
  induction n with
  | zero => rfl
  | succ n ih =>
    rw [runRangeO_succ]
    by_cases h : oom (a + n) = true
    · simp only [h, if_true, oomCount, oomSkip]; omega
    · have hf : oom (a + n) = false := by simpa using h
      simp only [hf, Bool.false_eq_true, if_false, oomCount, iter_epoch]; omega

end DirectVerif.Train
