import Mathlib.Analysis.InnerProductSpace.Basic
import DirectVerif.Model.DataConsistency
/-!
# C19 — the operations record of `Model/DataConsistency.lean` over Mathlib's inner-product spaces

`mathOps F Fb Ex R M` instantiates `Ops` with `K = ℂ`, images `E`, multi-coil k-space `G` (complex
inner-product spaces of any dimension), `complex_dot_product = ⟪·,·⟫` (conjugate-linear in the first
argument, like the code), `complex_division = /` in `ℂ` (`x / 0 = 0`, like `safe_divide`), and the
five operators as linear maps.  The property theorems are about `loglik (mathOps …)`,
`cgStep (mathOps …)`, … — the same `def`s the driver executes over Gaussian rationals.
-/
open ComplexInnerProductSpace DirectVerif.DataConsistency
open scoped ComplexConjugate

namespace DirectVerif.C19
variable {E : Type*} [NormedAddCommGroup E] [InnerProductSpace ℂ E]
variable {G : Type*} [NormedAddCommGroup G] [InnerProductSpace ℂ G]

/-- the record of tensor operations instantiated with Mathlib's complex inner-product spaces -/
noncomputable def mathOps (F Fb : G →ₗ[ℂ] G) (Ex : E →ₗ[ℂ] G) (R : G →ₗ[ℂ] E) (M : G →ₗ[ℂ] G) :
    Ops ℂ E G where
  addV := fun a b => a + b
  subV := fun a b => a - b
  smulV := fun k a => k • a
  inner := fun a b => ⟪a, b⟫
  div := fun a b => a / b
  subW := fun a b => a - b
  smulW := fun k a => k • a
  expand := Ex
  reduce := R
  fwd := F
  bwd := Fb
  mask := M

/-- `B` is self-adjoint and positive definite (stated with inner products only, so no completeness
or finite dimension is needed) -/
structure SPD (B : E →ₗ[ℂ] E) : Prop where
  sa : ∀ u v, ⟪B u, v⟫ = ⟪u, B v⟫
  pd : ∀ u, u ≠ 0 → 0 < (⟪u, B u⟫).re

theorem SPD.inner_self_real {B : E →ₗ[ℂ] E} (h : SPD B) (p : E) : conj ⟪p, B p⟫ = ⟪p, B p⟫ := by
  rw [inner_conj_symm, h.sa]

theorem SPD.eq_zero {B : E →ₗ[ℂ] E} (h : SPD B) (p : E) (hp : ⟪p, B p⟫ = 0) : p = 0 := by
  by_contra hne
  have := h.pd p hne
  rw [hp] at this
  simp at this

theorem re_inner_symm (x y : E) : (⟪x, y⟫).re = (⟪y, x⟫).re := by
  rw [← inner_conj_symm, Complex.conj_re]

theorem re_inner_self (x : E) : (⟪x, x⟫).re = ‖x‖ ^ 2 := inner_self_eq_norm_sq (𝕜 := ℂ) x

theorem re_inner_self_pos {x : E} (hx : x ≠ 0) : 0 < (⟪x, x⟫).re := by
  rw [re_inner_self]; exact pow_pos (norm_pos_iff.mpr hx) 2

theorem CGState.ext_fields {K V : Type*} {a b : CGState K V} (hx : a.x = b.x) (hr : a.r = b.r)
    (hp : a.p = b.p) (hrr : a.rr = b.rr) : a = b := by
  cases a; cases b; simp_all

end DirectVerif.C19
