import DirectVerif.Model.C15Engine
import DirectVerif.Lemmas.C15History
/-!
# `training_loop` with validation events and training-mode flags refines the core machine — no Mathlib
-/
namespace DirectVerif.C15E
open DirectVerif.Ckpt DirectVerif.Train
variable {P O G B L Sc : Type}

/-- standing assumptions about the mode flags: a validation ends with `models_training_mode()` (the code as it is now),
entering training mode is idempotent, and an optimiser step does not touch the flags -/
structure VCfg.Ok (v : VCfg P) (r : Run P O G B L Sc) : Prop where
  after : ∀ θ, v.afterVal θ = v.enter θ
  idem : ∀ θ, v.enter (v.enter θ) = v.enter θ
  opt : ∀ lr θ o g, v.enter θ = θ → v.enter (r.ops.opt lr θ o g).1 = (r.ops.opt lr θ o g).1
  init : v.enter r.init.theta = r.init.theta

/-- every model is in training mode -/
def Entered (v : VCfg P) (s : St P O G Sc) : Prop := v.enter s.theta = s.theta

theorem applyEv_entered (v : VCfg P) (r : Run P O G B L Sc) (h : v.Ok r) (b : B) (s : St P O G Sc) (e : Ev)
    (hs : Entered v s) : Entered v (applyEv r.ops r.lrAt r.cfg b s e) := by
  cases e <;> simp only [applyEv, Entered] at * <;> try exact hs
  exact h.opt _ _ _ _ hs

theorem iterT_entered (v : VCfg P) (r : Run P O G B L Sc) (h : v.Ok r) (t : LoopTable) (it : Nat) (b : B)
    (s : St P O G Sc) (hs : Entered v s) : Entered v (iterT t r.ops r.lrAt r.cfg s it b) := by
  unfold iterT
  induction t generalizing s with
  | nil => exact hs
  | cons eg rest ih =>
    rw [List.foldl_cons]
    apply ih
    by_cases hg : eg.2.all (evalGuard r.cfg it) = true
    · rw [if_pos hg]; exact applyEv_entered v r h b s eg.1 hs
    · rw [if_neg hg]; exact hs

theorem validate_entered (v : VCfg P) (r : Run P O G B L Sc) (h : v.Ok r) (s : St P O G Sc) (hs : Entered v s) :
    v.validate s = s := by
  unfold VCfg.validate
  by_cases hv : v.hasVal = true
  · rw [if_pos hv]
    have : v.afterVal s.theta = s.theta := by rw [h.after]; exact hs
    cases s; simp_all
  · rw [if_neg hv]

/-- the bookkeeping after an iteration leaves an entered state alone and saves exactly what the core machine saves -/
theorem afterIter_entered (v : VCfg P) (r : Run P O G B L Sc) (h : v.Ok r) (it : Nat) (s : St P O G Sc) (d : Dir)
    (ev : List Event) (hs : Entered v s) :
    (afterIter r v it s d ev).1 = s ∧
    (afterIter r v it s d ev).2.1 = (if ckptGuard it r.ckSteps r.total then r.save d it (snapshot s) else d) := by
  unfold afterIter
  by_cases hv : valGuard it v.valSteps r.total = true
  · rw [if_pos hv]; exact ⟨validate_entered v r h s hs, rfl⟩
  · rw [if_neg hv]; exact ⟨rfl, rfl⟩

/-- **the loop with validations and mode flags computes the state and the directory of the core machine `Run.loop`**
(the events aside), for every stop, `start_with_validation` flag and start iteration, from a state in training mode -/
theorem vloop_eq_loop (v : VCfg P) (r : Run P O G B L Sc) (h : v.Ok r) (stop : Stop) (start : Nat) (swv : Bool)
    (fuel it : Nat) (s : St P O G Sc) (d : Dir) (ev : List Event) (hs : Entered v s) :
    (vloop r v stop none start swv fuel it s d ev).1 = (r.loop stop fuel it s d).1 ∧
    (vloop r v stop none start swv fuel it s d ev).2.1 = (r.loop stop fuel it s d).2 := by
  induction fuel generalizing it s d ev with
  | zero => exact ⟨rfl, rfl⟩
  | succ fuel ih =>
    rw [vloop, Run.loop]
    by_cases hge : it ≥ r.total
    · rw [if_pos hge, if_pos hge]; exact ⟨rfl, rfl⟩
    · rw [if_neg hge, if_neg hge]
      -- the optional validation before the first iteration does not change an entered state
      have hsv : (if (swv && it == start) = true then (v.validate s, ev ++ [Event.validate it]) else (s, ev)).1 = s := by
        by_cases hc : (swv && it == start) = true
        · rw [if_pos hc]; exact validate_entered v r h s hs
        · rw [if_neg hc]
      simp only [hsv]
      generalize (if (swv && it == start) = true then (v.validate s, ev ++ [Event.validate it]) else (s, ev)).2 = ev'
      by_cases hk : stop = .killDuring it
      · rw [if_pos hk, if_pos hk]; exact ⟨rfl, rfl⟩
      · rw [if_neg hk, if_neg hk]
        simp only [Option.filter_none]
        have hs' := iterT_entered v r h r.table it (r.batch it) s hs
        generalize iterT r.table r.ops r.lrAt r.cfg s it (r.batch it) = s' at hs' ⊢
        have ha := afterIter_entered v r h it s' d ev' hs'
        -- continuing after the bookkeeping = continuing the core loop
        have key := ih (it + 1) (afterIter r v it s' d ev').1 (afterIter r v it s' d ev').2.1 (afterIter r v it s' d ev').2.2
          (by rw [ha.1]; exact hs')
        have hR : r.loop stop fuel (it + 1) (afterIter r v it s' d ev').1 (afterIter r v it s' d ev').2.1 =
            r.loop stop fuel (it + 1) s' (if ckptGuard it r.ckSteps r.total then r.save d it (snapshot s') else d) := by
          rw [ha.1, ha.2]
        rw [hR] at key
        cases stop with
        | crashInSave j n m =>
          simp only
          by_cases hck : ckptGuard it r.ckSteps r.total = true
          · rw [if_pos hck]
            by_cases hj : j = it
            · rw [if_pos ⟨hj, hck⟩, if_pos hj]; exact ⟨rfl, rfl⟩
            · rw [if_neg (fun hh => hj hh.1), if_neg hj]
              rw [if_pos hck] at key
              exact key
          · rw [if_neg (fun hh => hck hh.2), if_neg hck]
            rw [if_neg hck] at key
            by_cases hv : Stop.crashInSave j n m = Stop.vanishAfter it
            · cases hv
            · rw [if_neg hv]; exact key
        | finish =>
          simp only [reduceCtorEq, if_false]
          by_cases hck : ckptGuard it r.ckSteps r.total = true
          · rw [if_pos hck] at key ⊢; exact key
          · rw [if_neg hck] at key ⊢; exact key
        | killDuring j =>
          simp only [reduceCtorEq, if_false]
          by_cases hck : ckptGuard it r.ckSteps r.total = true
          · rw [if_pos hck] at key ⊢; exact key
          · rw [if_neg hck] at key ⊢; exact key
        | vanishAfter j =>
          simp only
          by_cases hv : Stop.vanishAfter j = Stop.vanishAfter it
          · rw [if_pos hv]
            by_cases hck : ckptGuard it r.ckSteps r.total = true
            · rw [if_pos hck, if_pos hv]; rw [if_pos hck] at ha; exact ⟨ha.1, ha.2⟩
            · rw [if_neg hck, if_pos hv]; rw [if_neg hck] at ha; exact ⟨ha.1, ha.2⟩
          · rw [if_neg hv]
            by_cases hck : ckptGuard it r.ckSteps r.total = true
            · rw [if_pos hck, if_neg hv]; rw [if_pos hck] at key; exact key
            · rw [if_neg hck, if_neg hv]; rw [if_neg hck] at key; exact key

/-- every state of the uninterrupted run has all models in training mode -/
theorem U_entered (v : VCfg P) (r : Run P O G B L Sc) (h : v.Ok r) (hr : r.Ok) (n : Nat) : Entered v (r.U n) := by
  induction n with
  | zero => exact h.init
  | succ n ih =>
    rw [← r.U_succ hr n]
    exact iterT_entered v r h r.table n (r.batch n) _ ih

theorem initActs_noinit (start : Nat) : initActs start false initTable false = [] := by
  simp [initActs, initTable, InitCond.eval]

theorem struct_eta_theta (s : St P O G Sc) : { s with theta := s.theta } = s := by cases s; rfl

/-- **a process of the engine (validation data, mode flags, any `start_with_validation`) that resumes on a consistent
directory is the process of the core machine** -/
theorem vprocess_eq_process (v : VCfg P) (r : Run P O G B L Sc) (h : v.Ok r) (hr : r.Ok) (swv : Bool)
    (file : Snap P O Sc) (stop : Stop) (d : Dir) (hd : r.Inv d) :
    (vprocess r v ⟨true, false, swv⟩ file stop d).map (fun x => (x.2.1, x.2.2.1)) = r.process stop d := by
  unfold vprocess vprocessT vstartT trainStartT Run.process
  rcases hd with e | ⟨t, _, e⟩
  · simp only [e, if_true, initActs_noinit, List.contains_nil, Bool.or_false, Bool.false_eq_true, if_false]
    have : ({ r.init with theta := v.enter r.init.theta } : St P O G Sc) = r.init := by
      rw [h.init]
    rw [this]
    have := vloop_eq_loop v r h stop 0 swv r.total 0 r.init d [] h.init
    simp only [Option.map_some, this.1, this.2]
  · simp only [e, if_true, initActs_noinit, List.contains_nil, Bool.or_false, Bool.false_eq_true, if_false]
    have hst : (resumeStart (t : Int)).toNat = t + 1 := by unfold resumeStart; omega
    have hent : Entered v (restore r.ops.zero (snapshot (r.U (t + 1)))) := U_entered v r h hr (t + 1)
    have : ({ restore r.ops.zero (snapshot (r.U (t + 1))) with
              theta := v.enter (restore r.ops.zero (snapshot (r.U (t + 1)))).theta } : St P O G Sc)
        = restore r.ops.zero (snapshot (r.U (t + 1))) := by
      rw [hent]
    rw [this]
    have := vloop_eq_loop v r h stop (resumeStart (t : Int)).toNat swv r.total (resumeStart (t : Int)).toNat
      (restore r.ops.zero (snapshot (r.U (t + 1)))) d [] hent
    simp only [Option.map_some, this.1, this.2]

/-- histories of engine processes = histories of the core machine -/
theorem vhistory_eq_history (v : VCfg P) (r : Run P O G B L Sc) (h : v.Ok r) (hr : r.Ok) (file : Snap P O Sc)
    (stops : List (Stop × Bool)) (d : Dir) (hd : r.Inv d) (ha : r.AlignedHist (stops.map (·.1)) d) :
    vhistory r v file stops d = r.history (stops.map (·.1)) d := by
  induction stops generalizing d with
  | nil => rfl
  | cons x rest ih =>
    obtain ⟨st, swv⟩ := x
    have hp := vprocess_eq_process v r h hr swv file st d hd
    obtain ⟨start, _, e⟩ := r.process_eq hr st d hd ha.1
    have ha2 := ha.2
    simp only [List.map_cons] at ha2 ⊢
    rw [e] at ha2 hp
    simp only [vhistory, Run.history, e]
    cases hv : vprocess r v ⟨true, false, swv⟩ file st d with
    | none => rw [hv] at hp; simp at hp
    | some y =>
      rw [hv] at hp
      simp only [Option.map_some, Option.some.injEq] at hp
      have hdir : y.2.2.1 = (r.loop st r.total start (r.U start) d).2 := by rw [← hp]
      simp only [hdir]
      exact ih _ (r.loop_inv hr st _ _ d hd) ha2

/-- a process that is said to die inside `write_to_logs` has executed the whole loop body -/
def Die.wf (x : Die) (r : Run P O G B L Sc) : Prop := 2 ≤ x.phase → r.table.length ≤ x.nEv

/-- **whatever ends a process — also a death at a statement boundary outside the kill path — the directory invariant is
kept**: 'latest' stays absent or the uninterrupted run's state after its label -/
theorem vloop_inv (v : VCfg P) (r : Run P O G B L Sc) (h : v.Ok r) (hr : r.Ok) (stop : Stop) (die : Option Die)
    (hdie : ∀ x, die = some x → x.wf r) (start : Nat) (swv : Bool) (fuel it : Nat) (d : Dir) (ev : List Event)
    (hd : r.Inv d) : r.Inv (vloop r v stop die start swv fuel it (r.U it) d ev).2.1 := by
  induction fuel generalizing it d ev with
  | zero => exact hd
  | succ fuel ih =>
    rw [vloop]
    by_cases hge : it ≥ r.total
    · rw [if_pos hge]; exact hd
    · rw [if_neg hge]
      have hent := U_entered v r h hr it
      have hsv : (if (swv && it == start) = true then (v.validate (r.U it), ev ++ [Event.validate it]) else (r.U it, ev)).1
          = r.U it := by
        by_cases hc : (swv && it == start) = true
        · rw [if_pos hc]; exact validate_entered v r h _ hent
        · rw [if_neg hc]
      simp only [hsv]
      generalize (if (swv && it == start) = true then (v.validate (r.U it), ev ++ [Event.validate it]) else (r.U it, ev)).2 = ev'
      by_cases hk : stop = .killDuring it
      · rw [if_pos hk]
        by_cases hg : killGuard (it : Int) = true
        · simp only [hg, if_true]
          have h5 : 5 ≤ it := by simp [killGuard] at hg; omega
          have hl : r.killLabel (it : Int) = ((it - 1 : Nat) : Int) := by
            rw [hr.label]; unfold Train.killLabel; omega
          have hu : r.U it = r.U (it - 1 + 1) := by congr 1; omega
          rw [hl, hu]
          exact r.inv_save hr d (it - 1) (by omega)
        · simp only [hg]; exact hd
      · rw [if_neg hk]
        cases hf : die.filter (fun x => x.it == it) with
        | some x =>
          simp only
          have hx : die = some x := by
            cases die with
            | none => simp at hf
            | some y =>
              simp only [Option.filter] at hf
              split at hf
              · exact hf
              · cases hf
          by_cases hp : x.phase ≤ 1
          · rw [if_pos hp]; exact hd
          · rw [if_neg hp]
            have hfull : List.take x.nEv r.table = r.table := List.take_of_length_le (hdie x hx (by omega))
            simp only [hfull, r.U_succ hr it]
            by_cases hck : ckptGuard it r.ckSteps r.total = true
            · simp only [hck, if_true]; exact r.inv_save hr d it (by omega)
            · simp only [hck]; exact hd
        | none =>
          simp only
          rw [r.U_succ hr it]
          have hent' := U_entered v r h hr (it + 1)
          have ha := afterIter_entered v r h it (r.U (it + 1)) d ev' hent'
          have hsave : r.Inv (r.save d it (snapshot (r.U (it + 1)))) := r.inv_save hr d it (by omega)
          have hnext : r.Inv (afterIter r v it (r.U (it + 1)) d ev').2.1 := by
            rw [ha.2]
            by_cases hck : ckptGuard it r.ckSteps r.total = true
            · rw [if_pos hck]; exact hsave
            · rw [if_neg hck]; exact hd
          have key := ih (it + 1) (afterIter r v it (r.U (it + 1)) d ev').2.1 (afterIter r v it (r.U (it + 1)) d ev').2.2 hnext
          have hst : (afterIter r v it (r.U (it + 1)) d ev').1 = r.U (it + 1) := ha.1
          cases stop with
          | crashInSave j n m =>
            simp only
            by_cases hc : j = it ∧ ckptGuard it r.ckSteps r.total = true
            · rw [if_pos hc]
              have := crash_safe_of_wf r.decode r.saveTbl hr.save d it (r.encode (snapshot (r.U (it + 1)))) _ (hr.codec _) _
                (crashAt_crashOf (opsOf r.saveTbl it (r.encode (snapshot (r.U (it + 1))))) n m)
              rcases this with e | e
              · show r.Inv _; unfold Run.Inv; rw [e]; exact hd
              · exact Or.inr ⟨it, by omega, e⟩
            · rw [if_neg hc, hst]; exact key
          | finish => simp only [reduceCtorEq, if_false]; rw [hst]; exact key
          | killDuring j => simp only [reduceCtorEq, if_false]; rw [hst]; exact key
          | vanishAfter j =>
            simp only
            by_cases hv : Stop.vanishAfter j = Stop.vanishAfter it
            · rw [if_pos hv]; exact hnext
            · rw [if_neg hv, hst]; exact key

/-! ### events -/

theorem afterIter_events (r : Run P O G B L Sc) (v : VCfg P) (it : Nat) (s : St P O G Sc) (d : Dir) (ev : List Event) :
    (afterIter r v it s d ev).2.2 = ev ++ bookkeeping r.ckSteps v.valSteps r.total it := by
  unfold afterIter bookkeeping
  by_cases hv : valGuard it v.valSteps r.total = true
  · simp only [hv, if_true, List.append_assoc]
  · simp only [hv, Bool.false_eq_true, if_false, List.append_nil, List.append_assoc]

theorem schedule_succ (ck vs total it n : Nat) :
    schedule ck vs total it (n + 1) = bookkeeping ck vs total it ++ schedule ck vs total (it + 1) n := rfl

theorem schedule_add (ck vs total it n m : Nat) :
    schedule ck vs total it (n + m) = schedule ck vs total it n ++ schedule ck vs total (it + n) m := by
  induction n generalizing it with
  | zero => simp [schedule]
  | succ n ih =>
    have : n + 1 + m = (n + m) + 1 := by omega
    rw [this, schedule_succ, schedule_succ, ih, List.append_assoc]
    congr 3
    omega

/-- the events of a process that runs to `num_iterations`: the optional validation before its first iteration, then the
bookkeeping of every iteration -/
theorem vloop_finish_events (r : Run P O G B L Sc) (v : VCfg P) (start : Nat) (swv : Bool) (fuel it : Nat)
    (s : St P O G Sc) (d : Dir) (ev : List Event) (hle : start ≤ it) (hf : r.total - it ≤ fuel) :
    (vloop r v .finish none start swv fuel it s d ev).2.2 =
      ev ++ (if (swv && it == start) = true ∧ it < r.total then [Event.validate it] else [])
        ++ schedule r.ckSteps v.valSteps r.total it (r.total - it) := by
  induction fuel generalizing it s d ev with
  | zero =>
    have h0 : r.total - it = 0 := by omega
    have : ¬ ((swv && it == start) = true ∧ it < r.total) := fun hh => by omega
    rw [vloop, h0, if_neg this]; simp [schedule]
  | succ fuel ih =>
    rw [vloop]
    by_cases hge : it ≥ r.total
    · rw [if_pos hge]
      have h0 : r.total - it = 0 := by omega
      have : ¬ ((swv && it == start) = true ∧ it < r.total) := fun hh => by omega
      rw [h0, if_neg this]; simp [schedule]
    · rw [if_neg hge, if_neg (by simp)]
      simp only [Option.filter_none]
      have hlt : it < r.total := by omega
      have hn : r.total - it = (r.total - (it + 1)) + 1 := by omega
      have hnext : ¬ ((swv && it + 1 == start) = true ∧ it + 1 < r.total) := by
        intro hh
        have := hh.1
        simp only [Bool.and_eq_true, beq_iff_eq] at this
        omega
      rw [if_neg (by simp)]
      rw [ih (it + 1) _ _ _ (by omega) (by omega), afterIter_events, if_neg hnext, hn, schedule_succ]
      by_cases hc : (swv && it == start) = true
      · simp only [hc, if_true, true_and, hlt, List.append_nil, List.append_assoc]
      · simp only [hc, Bool.false_eq_true, false_and, if_false, List.append_nil, List.append_assoc]

/-! ### the integer toy in closed form (for `misaligned_resume_differs`) -/

theorem windowSum_const (c : Int) (θ : Int) (it0 n : Nat) (g0 : Int) :
    windowSum Toy.intOps (fun _ => c) θ it0 n g0 = g0 + (n : Int) * c := by
  unfold windowSum
  induction n with
  | zero => simp
  | succ n ih =>
    rw [List.range_succ, List.foldl_append, ih]
    simp only [List.foldl_cons, List.foldl_nil, Toy.intOps]
    rw [Int.natCast_succ, Int.add_mul, Int.one_mul]
    omega

/-- the parameters after the first optimiser step of a run on the integer toy (`∇ = batch = k`, learning rate 1) that is
`r` iterations into a window with `g0` in the accumulator -/
theorem intToy_first_step (k : Nat) (hk : 2 ≤ k) (s : St Int Unit Int Unit) (it0 r : Nat) (hr : it0 % k = r) (hrk : r < k) :
    (runRange Toy.intOps (fun _ => (1 : Int)) { k := k } (fun _ => (k : Int)) s it0 (k - r)).theta
      = s.theta - (s.grad + ((k - r : Nat) : Int) * k) / k := by
  have := runRange_first_step Toy.intOps (fun _ => (1 : Int)) { k := k } (fun _ => (k : Int)) s it0 r hr hrk
  simp only at this
  rw [this, windowSum_const]
  have hk1 : k > 1 := by omega
  simp [stepWith, received, Toy.intOps, hk1]


end DirectVerif.C15E
