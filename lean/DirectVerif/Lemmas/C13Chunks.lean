import DirectVerif.Model.Sampler
/-!
Helper lemmas for C13: arithmetic of `chunks`, slices, and the flatten law.
-/
namespace DirectVerif.Sampler

theorem chunkStart_eq (n k idx : Nat) : chunkStart n k idx = (n / k) * idx + min idx (n % k) := by
  unfold chunkStart
  by_cases h : idx < n % k
  · simp only [h, if_true, Nat.mul_zero, Nat.add_zero, Nat.add_mul, Nat.one_mul]; omega
  · simp only [h, if_false, Nat.add_mul, Nat.one_mul, Nat.mul_sub]
    have : n / k * (n % k) ≤ n / k * idx := Nat.mul_le_mul_left _ (by omega)
    omega

theorem chunkStart_zero (n k : Nat) : chunkStart n k 0 = 0 := by
  rw [chunkStart_eq]; simp

theorem chunkStart_succ (n k idx : Nat) :
    chunkStart n k (idx + 1) = chunkStart n k idx + chunkLen n k idx := by
  rw [chunkStart_eq, chunkStart_eq]
  unfold chunkLen
  rw [Nat.mul_add, Nat.mul_one]
  by_cases h : idx < n % k
  · simp only [h, if_true]; omega
  · simp only [h, if_false]; omega

theorem chunkStart_last (n k : Nat) (hk : 0 < k) : chunkStart n k k = n := by
  rw [chunkStart_eq]
  have h1 : n % k < k := Nat.mod_lt _ hk
  have h2 := Nat.div_add_mod n k
  rw [Nat.mul_comm] at h2
  omega

theorem chunkStart_mono (n k : Nat) {i j : Nat} (h : i ≤ j) : chunkStart n k i ≤ chunkStart n k j := by
  induction j with
  | zero => have : i = 0 := by omega
            subst this; exact Nat.le_refl _
  | succ j ih =>
    by_cases e : i = j + 1
    · subst e; exact Nat.le_refl _
    · have := ih (by omega)
      rw [chunkStart_succ]; omega

theorem chunkStart_le (n k idx : Nat) (hk : 0 < k) (h : idx ≤ k) : chunkStart n k idx ≤ n := by
  have := chunkStart_mono n k h
  rw [chunkStart_last n k hk] at this
  exact this

theorem chunkLen_le_succ (n k i j : Nat) : chunkLen n k i ≤ chunkLen n k j + 1 := by
  unfold chunkLen; split <;> split <;> omega

theorem chunkLen_antitone (n k : Nat) {i j : Nat} (h : i ≤ j) : chunkLen n k j ≤ chunkLen n k i := by
  unfold chunkLen; split <;> split <;> omega

/-! slices -/

theorem slice_length {α} (xs : List α) (lo hi : Nat) (h1 : lo ≤ hi) (h2 : hi ≤ xs.length) :
    (slice xs lo hi).length = hi - lo := by
  simp only [slice, List.length_drop, List.length_take]; omega

theorem slice_append_slice {α} (xs : List α) (a b c : Nat) (h1 : a ≤ b) (h2 : b ≤ c) :
    slice xs a b ++ slice xs b c = slice xs a c := by
  unfold slice
  apply List.ext_getElem?
  intro i
  simp only [List.getElem?_append, List.length_drop, List.length_take, List.getElem?_drop,
    List.getElem?_take]
  by_cases hi : i < min b xs.length - a
  · simp only [hi, if_true]
    have e1 : a + i < b := by omega
    have e2 : a + i < c := by omega
    simp only [e1, e2, if_true]
  · simp only [hi, if_false]
    by_cases hb : b ≤ xs.length
    · have e : b + (i - (min b xs.length - a)) = a + i := by omega
      rw [e]
    · have e3 : xs.length ≤ a + i := by omega
      have e4 : xs.length ≤ b + (i - (min b xs.length - a)) := by omega
      simp [List.getElem?_eq_none e3, List.getElem?_eq_none e4]

theorem slice_zero_length {α} (xs : List α) : slice xs 0 xs.length = xs := by
  simp [slice]

theorem slice_self {α} (xs : List α) (a : Nat) : slice xs a a = [] := by
  simp [slice]

/-- flattening consecutive slices along a monotone boundary function gives one slice -/
theorem flatten_slices {α} (xs : List α) (b : Nat → Nat) (hb : ∀ i, b i ≤ b (i + 1)) (k : Nat) :
    ((List.range k).map fun i => slice xs (b i) (b (i + 1))).flatten = slice xs (b 0) (b k) := by
  induction k with
  | zero => simp [slice_self]
  | succ k ih =>
    rw [List.range_succ, List.map_append, List.flatten_append, ih]
    simp only [List.map_cons, List.map_nil, List.flatten_cons, List.flatten_nil, List.append_nil]
    apply slice_append_slice
    · clear ih
      induction k with
      | zero => exact Nat.le_refl _
      | succ k ih2 => exact Nat.le_trans ih2 (hb k)
    · exact hb k

theorem chunks_eq_boundaries {α} (xs : List α) (k : Nat) :
    chunks xs k = (List.range k).map fun i =>
      slice xs (chunkStart xs.length k i) (chunkStart xs.length k (i + 1)) := by
  unfold chunks
  apply List.map_congr_left
  intro i _
  rw [chunkStart_succ]

theorem chunks_flatten' {α} (xs : List α) (k : Nat) (hk : 0 < k) : (chunks xs k).flatten = xs := by
  rw [chunks_eq_boundaries, flatten_slices xs (fun i => chunkStart xs.length k i)]
  · simp only [chunkStart_zero, chunkStart_last _ _ hk, slice_zero_length]
  · intro i; exact chunkStart_mono _ _ (by omega)

theorem chunks_length' {α} (xs : List α) (k : Nat) : (chunks xs k).length = k := by
  simp [chunks]

theorem chunks_getD {α} (xs : List α) (k r : Nat) (hr : r < k) :
    (chunks xs k).getD r [] =
      slice xs (chunkStart xs.length k r) (chunkStart xs.length k r + chunkLen xs.length k r) := by
  unfold chunks
  rw [List.getD_eq_getElem?_getD, List.getElem?_map, List.getElem?_range hr]
  rfl

theorem chunks_getD_length {α} (xs : List α) (k r : Nat) (hr : r < k) :
    ((chunks xs k).getD r []).length = chunkLen xs.length k r := by
  rw [chunks_getD xs k r hr, slice_length]
  · omega
  · omega
  · rw [← chunkStart_succ]
    exact chunkStart_le _ _ _ (by omega) (by omega)

end DirectVerif.Sampler
