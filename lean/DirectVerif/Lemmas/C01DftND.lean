import DirectVerif.Lemmas.C01Dft
import DirectVerif.Lemmas.C01Linear
import DirectVerif.Lemmas.TensorLiftC01
/-!
# C01 — the concrete n-D transform: per-axis `ZMod` DFT lifted through `Tensor.alongAxis`

`Fft.tensorBackend dftF dims` is the backend the driver runs (`Shift.fftshift` / `Shift.ifftshift`
over `dims`, and the `alongAxis` lifting of a 1-D transform along every axis of `dims`) with the 1-D
transform instantiated by `C01Dft.torchFft` (Mathlib's `ZMod.dft` with torch's normalisations).

The 1-D DFT is a matrix–vector product on every fibre (`torchFft_isLinear`), so its liftings along
different axes commute (`alongAxis_comm_linear`), which discharges `TensorLift.TransformLaws`:

* `ifft2_fft2_id_tensor_dft` — `ifft2 ∘ fft2 = id = fft2 ∘ ifft2` on every well-formed complex tensor,
  every duplicate-free in-range axis tuple, all 8 flag combinations — **no hypothesis left**;
* `fft2_energy_tensor_dft` — the normalised n-D `fft2` / `ifft2` preserve `Σ |x|²` over the tensor.

**The single remaining assumption about the code's external transform** (it is not a hypothesis of
any statement in this file; it is what ties `torch.fft.fftn/ifftn(x, dim=dims, norm=…)` to `dftF`):
*`fftn` over `dims` is the composition of the 1-D DFTs along the axes of `dims`* (with the scale
`1/√n_d` resp. `1`, `1/n_d` per axis).  The oracle of `harness/props/c01.py` checks exactly this
numerically (`fftn` over a tuple vs sequential 1-D `fft`s vs the explicit DFT matrix, all norms).
-/
namespace DirectVerif.C01DftND
open DirectVerif DirectVerif.Tensor DirectVerif.TensorLift DirectVerif.Shift DirectVerif.Fft DirectVerif.C01Dft ZMod
open scoped ZMod BigOperators ComplexConjugate

/-- the 1-D transform family of the concrete backend (the same on every axis) -/
noncomputable def dftF : Bool → Norm → Nat → List ℂ → List ℂ := fun inv nm _ => torchFft inv nm

/-- the `n × n` DFT matrix with torch's scale: `A k j = scale · e^{∓2πi jk/n}` -/
noncomputable def dftMat (inverse : Bool) (nm : Norm) : (n : Nat) → Nat → Nat → ℂ
  | 0 => fun _ _ => 0
  | m + 1 => fun k j => scale inverse nm (m + 1) *
      (stdAddChar (N := m + 1) (if inverse then (j : ZMod (m + 1)) * (k : ZMod (m + 1))
        else -((j : ZMod (m + 1)) * (k : ZMod (m + 1)))) : ℂ)

theorem getD_default_eq_zero (xs : List ℂ) (k : Nat) : xs.getD k default = xs.getD k 0 := rfl

/-- sums over `ℤ/(m+1)` are sums over `range (m+1)` -/
theorem sum_zmod_eq_range {m : ℕ} (g : ZMod (m + 1) → ℂ) :
    ∑ j : ZMod (m + 1), g j = ∑ j ∈ Finset.range (m + 1), g (j : ZMod (m + 1)) := by
  rw [Finset.sum_range]
  refine Finset.sum_congr rfl fun i _ => ?_
  exact congrArg g (ZMod.natCast_zmod_val (n := m + 1) (show ZMod (m + 1) from i)).symm

/-- **the 1-D DFT is linear on fibres**: a matrix–vector product with `dftMat` -/
theorem torchFft_isLinear (inverse : Bool) (nm : Norm) (n : Nat) :
    IsLinear (torchFft inverse nm) n n (dftMat inverse nm n) := by
  refine ⟨fun xs hxs => by rw [torchFft_length, hxs], ?_⟩
  intro xs hxs k hk
  cases n with
  | zero => omega
  | succ m =>
    have hkv : ((k : ZMod (m + 1))).val = k := ZMod.val_natCast_of_lt hk
    have h1 : (torchFft inverse nm xs).getD k default = toFn (n := m + 1) (torchFft inverse nm xs) (k : ZMod (m + 1)) := by
      simp only [toFn, hkv]; rfl
    rw [h1, toFn_torchFft inverse nm xs hxs]
    unfold torchFftFn kernelSum
    rw [sum_zmod_eq_range, Finset.mul_sum]
    refine Finset.sum_congr rfl fun j hj => ?_
    have hjv : ((j : ZMod (m + 1))).val = j := ZMod.val_natCast_of_lt (Finset.mem_range.mp hj)
    simp only [dftMat, toFn, hjv]
    rw [mul_assoc]; rfl

/-- **`TransformLaws` holds for the concrete DFT family — nothing is assumed** -/
theorem dftF_laws (s : List Nat) (dims : List Nat) (hr : ∀ d ∈ dims, d < s.length) : TransformLaws s dims dftF where
  len := fun inv nm d _ xs hxs => by show (torchFft inv nm xs).length = _; rw [torchFft_length, hxs]
  inv_fwd := fun nm d _ xs _ => torchFft_inv_fwd nm xs
  fwd_inv := fun nm d _ xs _ => torchFft_fwd_inv nm xs
  comm := fun nm inv inv' d hd d' hd' hne t ht =>
    (alongAxis_comm_linear t d d' (torchFft inv nm) (torchFft inv' nm) _ _ _ _ hne
      (by rw [ht.2]; exact hr d hd) (by rw [ht.2]; exact hr d' hd')
      (torchFft_isLinear inv nm _) (torchFft_isLinear inv' nm _)).symm

/-- **C01, n-D, concrete DFT, no hypotheses**: on every well-formed complex tensor (any rank, any
axis lengths), for every duplicate-free in-range axis tuple and all 8 flag combinations,
`ifft2 ∘ fft2 = id` and `fft2 ∘ ifft2 = id` for the backend the driver runs. -/
theorem ifft2_fft2_id_tensor_dft (t : Tensor ℂ) (dims : List Nat) (hnd : dims.Nodup)
    (hwf : t.data.length = prod t.shape) (hr : ∀ d ∈ dims, d < t.shape.length) (cfg : Cfg) :
    ifft2 (tensorBackend dftF dims) cfg (fft2 (tensorBackend dftF dims) cfg t) = t ∧
    fft2 (tensorBackend dftF dims) cfg (ifft2 (tensorBackend dftF dims) cfg t) = t :=
  ifft2_fft2_id_tensor t dims hnd hwf hr dftF (dftF_laws t.shape dims hr) cfg

/-! ## energy -/

/-- `Σ |x|²` (as `Σ conj x · x`) over all entries of a tensor -/
noncomputable def tensorEnergy (t : Tensor ℂ) : ℂ := C01.energy (fun z => conj z * z) t.data

theorem tensorEnergy_applyAxes (s : List Nat) (op : Nat → List ℂ → List ℂ) (dims : List Nat)
    (hr : ∀ d ∈ dims, d < s.length) (hlen : ∀ d ∈ dims, LenUniform (op d) (s.getD d 1) (s.getD d 1))
    (hE : ∀ d ∈ dims, ∀ xs : List ℂ, C01.energy (fun z => conj z * z) (op d xs) = C01.energy (fun z => conj z * z) xs)
    (t : Tensor ℂ) (ht : WF s t) :
    tensorEnergy (applyAxes (fun d t => t.alongAxis d (op d)) dims t) = tensorEnergy t := by
  induction dims generalizing t with
  | nil => rfl
  | cons d ds ih =>
    have hd := List.mem_cons_self (a := d) (l := ds)
    have hdr := hr d hd
    rw [C01.applyAxes_cons,
      ih (fun d' h => hr d' (List.mem_cons_of_mem _ h)) (fun d' h => hlen d' (List.mem_cons_of_mem _ h))
        (fun d' h => hE d' (List.mem_cons_of_mem _ h)) _ (ht.alongAxis d hdr _ (hlen d hd))]
    exact alongAxis_sum_eq (fun z => conj z * z) t d (op d) _ ht.1 (by rw [ht.2]; exact hdr)
      (by rw [ht.2]; exact hlen d hd) (fun xs _ => hE d hd xs)

/-- energy version of `LawfulOn`-style reasoning: if every operation of the backend preserves an
invariant `P` and (on `P`) the functional `E`, the normalised `fft2` / `ifft2` preserve `E` -/
theorem fft2_energy_on {X R : Type} (P : X → Prop) (B : Backend X) (E : X → R)
    (pI : ∀ x, P x → P (B.ishift x)) (pS : ∀ x, P x → P (B.fshift x))
    (pF : ∀ inv nm x, P x → P (B.transform inv nm x)) (pC : ∀ x, P x → P (B.viewComplex x))
    (hI : ∀ x, P x → E (B.ishift x) = E x) (hS : ∀ x, P x → E (B.fshift x) = E x)
    (hF : ∀ inv x, P x → E (B.transform inv .ortho x) = E x)
    (hC : ∀ x, P x → E (B.viewComplex x) = E x) (hR : ∀ x, P x → E (B.viewReal x) = E x)
    (cfg : Cfg) (hn : cfg.normalized = true) (x : X) (hx : P x) :
    E (fft2 B cfg x) = E x ∧ E (ifft2 B cfg x) = E x := by
  obtain ⟨c, n, ci⟩ := cfg
  subst hn
  cases c <;> cases ci <;>
    simp (maxDischargeDepth := 12) [ifft2, fft2, runData, fft2Plan, ifft2Plan, Guard.holds, applyOp, hI, hS, hF, hC, hR,
      pI, pS, pF, pC, hx]

/-- **C01, n-D energy, concrete DFT, no hypotheses**: the normalised `fft2` / `ifft2` of the backend
the driver runs preserve `Σ |x|²` over every well-formed complex tensor, for every in-range axis
tuple, centred or not, either layout. -/
theorem fft2_energy_tensor_dft (t : Tensor ℂ) (dims : List Nat)
    (hwf : t.data.length = prod t.shape) (hr : ∀ d ∈ dims, d < t.shape.length)
    (cfg : Cfg) (hn : cfg.normalized = true) :
    tensorEnergy (fft2 (tensorBackend dftF dims) cfg t) = tensorEnergy t ∧
    tensorEnergy (ifft2 (tensorBackend dftF dims) cfg t) = tensorEnergy t := by
  have hlenF : ∀ inv nm, ∀ d ∈ dims, LenUniform (dftF inv nm d) (t.shape.getD d 1) (t.shape.getD d 1) :=
    fun inv nm d _ xs hxs => by show (torchFft inv nm xs).length = _; rw [torchFft_length, hxs]
  refine fft2_energy_on (WF t.shape) (tensorBackend dftF dims) tensorEnergy ?_ ?_ ?_ (fun _ h => h) ?_ ?_ ?_
    (fun _ _ => rfl) (fun _ _ => rfl) cfg hn t ⟨hwf, rfl⟩
  · intro x hx
    show WF _ (Shift.ifftshift x dims)
    rw [ifftshift_eq_applyAxes t.shape dims hr x hx]
    exact WF.applyAxes (fun _ => Shift.ifftshift1) dims hr (fun d _ => lenUniform_ifftshift1 _) hx
  · intro x hx
    show WF _ (Shift.fftshift x dims)
    rw [fftshift_eq_applyAxes t.shape dims hr x hx]
    exact WF.applyAxes (fun _ => Shift.fftshift1) dims hr (fun d _ => lenUniform_fftshift1 _) hx
  · intro inv nm x hx
    exact WF.applyAxes (dftF inv nm) dims hr (hlenF inv nm) hx
  · intro x hx
    show tensorEnergy (Shift.ifftshift x dims) = _
    rw [ifftshift_eq_applyAxes t.shape dims hr x hx]
    exact tensorEnergy_applyAxes t.shape (fun _ => Shift.ifftshift1) dims hr (fun d _ => lenUniform_ifftshift1 _)
      (fun d _ xs => C01.energy_rollOne _ _ xs) x hx
  · intro x hx
    show tensorEnergy (Shift.fftshift x dims) = _
    rw [fftshift_eq_applyAxes t.shape dims hr x hx]
    exact tensorEnergy_applyAxes t.shape (fun _ => Shift.fftshift1) dims hr (fun d _ => lenUniform_fftshift1 _)
      (fun d _ xs => C01.energy_rollOne _ _ xs) x hx
  · intro inv x hx
    exact tensorEnergy_applyAxes t.shape (dftF inv .ortho) dims hr (hlenF inv .ortho)
      (fun d _ xs => energy_torchFft_ortho inv xs) x hx

/-! ## the centred transform over two axes as a single double sum -/

/-- the centred 1-D operator `fftshift ∘ fft(norm) ∘ ifftshift` -/
noncomputable def cfft1 (inverse : Bool) (nm : Norm) (xs : List ℂ) : List ℂ :=
  fftshift1 (torchFft inverse nm (ifftshift1 xs))

/-- the centred DFT matrix: `A k j = scale · e^{∓2πi (j - c)(k - c)/n}`, `c = n / 2` -/
noncomputable def cdftMat (inverse : Bool) (nm : Norm) : (n : Nat) → Nat → Nat → ℂ
  | 0 => fun _ _ => 0
  | m + 1 => fun k j => scale inverse nm (m + 1) *
      (stdAddChar (N := m + 1)
        (if inverse then ((j : ZMod (m + 1)) - (((m + 1) / 2 : ℕ) : ZMod (m + 1))) * ((k : ZMod (m + 1)) - (((m + 1) / 2 : ℕ) : ZMod (m + 1)))
          else -(((j : ZMod (m + 1)) - (((m + 1) / 2 : ℕ) : ZMod (m + 1))) * ((k : ZMod (m + 1)) - (((m + 1) / 2 : ℕ) : ZMod (m + 1))))) : ℂ)

theorem cfft1_length (inverse : Bool) (nm : Norm) (xs : List ℂ) : (cfft1 inverse nm xs).length = xs.length := by
  unfold cfft1; rw [C01.fftshift1_length, torchFft_length, C01.ifftshift1_length]

/-- the centred 1-D operator is multiplication by the centred DFT matrix -/
theorem cfft1_isLinear (inverse : Bool) (nm : Norm) (n : Nat) : IsLinear (cfft1 inverse nm) n n (cdftMat inverse nm n) := by
  refine ⟨fun xs hxs => by rw [cfft1_length, hxs], ?_⟩
  intro xs hxs k hk
  cases n with
  | zero => omega
  | succ m =>
    have hkv : ((k : ZMod (m + 1))).val = k := ZMod.val_natCast_of_lt hk
    have h1 : (cfft1 inverse nm xs).getD k default = toFn (n := m + 1) (cfft1 inverse nm xs) (k : ZMod (m + 1)) := by
      simp only [toFn, hkv]; rfl
    rw [h1]
    unfold cfft1
    rw [centered_eq_shifted_dft inverse nm xs hxs, sum_zmod_eq_range, Finset.mul_sum]
    refine Finset.sum_congr rfl fun j hj => ?_
    have hjv : ((j : ZMod (m + 1))).val = j := ZMod.val_natCast_of_lt (Finset.mem_range.mp hj)
    simp only [cdftMat, toFn, hjv]
    rw [mul_assoc]; rfl

/-- fusing two liftings along the same axis of a well-formed tensor of shape `s` -/
theorem comp_on {s : List Nat} {x : Tensor ℂ} (hx : WF s x) (d : Nat) (hd : d < s.length) (f g : List ℂ → List ℂ)
    (hf : LenUniform f (s.getD d 1) (s.getD d 1)) (hg : LenUniform g (s.getD d 1) (s.getD d 1)) :
    (x.alongAxis d f).alongAxis d g = x.alongAxis d (g ∘ f) :=
  alongAxis_comp x d f g _ _ (by rw [hx.2]; exact hd) (by rw [hx.2]; exact hf) hg

theorem lenU_torchFft (inverse : Bool) (nm : Norm) (n : Nat) : LenUniform (torchFft inverse nm) n n :=
  fun xs hxs => by rw [torchFft_length, hxs]

/-- **regrouping per axis**: over two axes `a < b` the centred plan
`fftshift ∘ fftn ∘ ifftshift` is the lifting of the centred 1-D operator along `a`, then along `b` -/
theorem centred_two_axes (t : Tensor ℂ) (a b : Nat) (hab : a < b) (hb : b < t.shape.length)
    (hwf : t.data.length = prod t.shape) (inverse : Bool) (nm : Norm) :
    Shift.fftshift (applyAxes (fun d u => u.alongAxis d (dftF inverse nm d)) [a, b] (Shift.ifftshift t [a, b])) [a, b] =
      (t.alongAxis a (cfft1 inverse nm)).alongAxis b (cfft1 inverse nm) := by
  have ha : a < t.shape.length := by omega
  have hne : a ≠ b := by omega
  have hr : ∀ d ∈ [a, b], d < t.shape.length := by
    intro d hd; simp only [List.mem_cons, List.not_mem_nil, or_false] at hd; rcases hd with rfl | rfl <;> assumption
  have ht : WF t.shape t := ⟨hwf, rfl⟩
  have lI := fun n => lenUniform_ifftshift1 (α := ℂ) n
  have lS := fun n => lenUniform_fftshift1 (α := ℂ) n
  have lF := lenU_torchFft inverse nm
  -- unfold the three stages into per-axis liftings
  have h1 : WF t.shape ((t.alongAxis a ifftshift1).alongAxis b ifftshift1) :=
    (ht.alongAxis a ha _ (lI _)).alongAxis b hb _ (lI _)
  have e1 : Shift.ifftshift t [a, b] = (t.alongAxis a ifftshift1).alongAxis b ifftshift1 :=
    ifftshift_eq_applyAxes t.shape [a, b] hr t ht
  have h2 : WF t.shape ((((t.alongAxis a ifftshift1).alongAxis b ifftshift1).alongAxis a (torchFft inverse nm)).alongAxis b
      (torchFft inverse nm)) := (h1.alongAxis a ha _ (lF _)).alongAxis b hb _ (lF _)
  rw [e1]
  show Shift.fftshift ((((t.alongAxis a ifftshift1).alongAxis b ifftshift1).alongAxis a (torchFft inverse nm)).alongAxis b
    (torchFft inverse nm)) [a, b] = _
  rw [fftshift_eq_applyAxes t.shape [a, b] hr _ h2]
  show (((((t.alongAxis a ifftshift1).alongAxis b ifftshift1).alongAxis a (torchFft inverse nm)).alongAxis b
    (torchFft inverse nm)).alongAxis a fftshift1).alongAxis b fftshift1 = _
  -- move the `a`-transform before the `b`-ifftshift, fuse per axis
  have hA : WF t.shape (t.alongAxis a ifftshift1) := ht.alongAxis a ha _ (lI _)
  rw [ifftshift_comm_nd (t.alongAxis a ifftshift1) b a (torchFft inverse nm) _ hne.symm (by rw [hA.2]; exact hb)
      (by rw [hA.2]; exact ha) (by rw [hA.2]; exact lF _),
    comp_on ht a ha _ _ (lI _) (lF _)]
  have hAF : WF t.shape (t.alongAxis a (torchFft inverse nm ∘ ifftshift1)) :=
    ht.alongAxis a ha _ (fun xs hxs => by rw [Function.comp, torchFft_length, C01.ifftshift1_length, hxs])
  rw [comp_on hAF b hb _ _ (lI _) (lF _)]
  -- move the `a`-fftshift before the `b`-block, fuse per axis
  have lFI : LenUniform (torchFft inverse nm ∘ ifftshift1) (t.shape.getD b 1) (t.shape.getD b 1) :=
    fun xs hxs => by rw [Function.comp, torchFft_length, C01.ifftshift1_length, hxs]
  rw [← fftshift_comm_nd (t.alongAxis a (torchFft inverse nm ∘ ifftshift1)) a b (torchFft inverse nm ∘ ifftshift1) _ hne
      (by rw [hAF.2]; exact ha) (by rw [hAF.2]; exact hb) (by rw [hAF.2]; exact lFI),
    comp_on ht a ha _ _ (fun xs hxs => by rw [Function.comp, torchFft_length, C01.ifftshift1_length, hxs]) (lS _)]
  have hAS : WF t.shape (t.alongAxis a (fftshift1 ∘ (torchFft inverse nm ∘ ifftshift1))) :=
    ht.alongAxis a ha _ (fun xs hxs => by
      rw [Function.comp, C01.fftshift1_length, Function.comp, torchFft_length, C01.ifftshift1_length, hxs])
  rw [comp_on hAS b hb _ _ lFI (lS _)]
  rfl

/-- **`fft2` over two axes as a single double sum** (the n-D formula for an axis pair): for a
well-formed complex tensor and axes `a < b`, with `A = Π shape[:a]`, `M = Π shape[a+1:b]`,
`C = Π shape[b+1:]`, the entry `(α, k, μ, l, c)` of the centred `fft2` / `ifft2` of the backend the
driver runs is
`Σ_y Σ_x  W_b(l, y) · W_a(k, x) · t(α, x, μ, y, c)`,  `W_n(k, x) = scale · e^{∓2πi (x - ⌊n/2⌋)(k - ⌊n/2⌋)/n}`. -/
theorem fft2_two_axes_sum (t : Tensor ℂ) (a b : Nat) (hab : a < b) (hb : b < t.shape.length)
    (hwf : t.data.length = prod t.shape) (normalized ci : Bool) (inverse : Bool) :
    ∃ M, prod (t.shape.take b) = prod (t.shape.take a) * t.shape.getD a 1 * M ∧
      ∀ α k μ l c, α < prod (t.shape.take a) → k < t.shape.getD a 1 → μ < M → l < t.shape.getD b 1 →
        c < prod (t.shape.drop (b + 1)) →
        ((if inverse then ifft2 else fft2) (tensorBackend dftF [a, b]) ⟨true, normalized, ci⟩ t).data.getD
            (((α * t.shape.getD a 1 + k) * M + μ) * t.shape.getD b 1 * prod (t.shape.drop (b + 1))
              + l * prod (t.shape.drop (b + 1)) + c) default =
          ∑ y ∈ Finset.range (t.shape.getD b 1), ∑ x ∈ Finset.range (t.shape.getD a 1),
            cdftMat inverse (normOf ⟨true, normalized, ci⟩) (t.shape.getD b 1) l y *
              (cdftMat inverse (normOf ⟨true, normalized, ci⟩) (t.shape.getD a 1) k x *
                t.data.getD (((α * t.shape.getD a 1 + x) * M + μ) * t.shape.getD b 1 * prod (t.shape.drop (b + 1))
                  + y * prod (t.shape.drop (b + 1)) + c) default) := by
  have key : (if inverse then ifft2 else fft2) (tensorBackend dftF [a, b]) ⟨true, normalized, ci⟩ t =
      (t.alongAxis a (cfft1 inverse (normOf ⟨true, normalized, ci⟩))).alongAxis b (cfft1 inverse (normOf ⟨true, normalized, ci⟩)) := by
    rw [← centred_two_axes t a b hab hb hwf inverse (normOf ⟨true, normalized, ci⟩)]
    cases inverse <;> cases normalized <;> cases ci <;>
      simp [fft2, ifft2, runData, fft2Plan, ifft2Plan, Guard.holds, applyOp, tensorBackend, normOf]
  rw [key]
  exact alongAxis2_linear_getD t a b _ _ _ _ _ _ hab hb (cfft1_isLinear _ _ _) (cfft1_isLinear _ _ _)

end DirectVerif.C01DftND
