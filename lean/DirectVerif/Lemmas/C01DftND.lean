import DirectVerif.Lemmas.C01Dft
import DirectVerif.Lemmas.C01Linear
import DirectVerif.Lemmas.TensorLiftC01
/-!
# C01 — the concrete n-D transform: per-axis `ZMod` DFT lifted through `Tensor.alongAxis`

`Fft.tensorBackend dftF dims` is the backend the driver runs (`Shift.fftshift` / `Shift.ifftshift`
over `dims`, and the `alongAxis` lifting of a 1-D transform along every axis of `dims`) with the 1-D
transform instantiated by `C01Dft.torchFft` (Mathlib's `ZMod.dft` with torch's normalisations).

The 1-D DFT is a matrix–vector product on every fibre (`torchFft_isLinear`), so its liftings along
different axes commute (`alongAxis_comm_linear`), which discharges `TensorLift.TransformLaws`:

* `ifft2_fft2_id_tensor_dft` — `ifft2 ∘ fft2 = id = fft2 ∘ ifft2` on every well-formed complex tensor,
  every duplicate-free in-range axis tuple, all 8 flag combinations — **no hypothesis left**;
* `fft2_energy_tensor_dft` — the normalised n-D `fft2` / `ifft2` preserve `Σ |x|²` over the tensor.

**The single remaining assumption about the code's external transform** (it is not a hypothesis of
any statement in this file; it is what ties `torch.fft.fftn/ifftn(x, dim=dims, norm=…)` to `dftF`):
*`fftn` over `dims` is the composition of the 1-D DFTs along the axes of `dims`* (with the scale
`1/√n_d` resp. `1`, `1/n_d` per axis).  The oracle of `harness/props/c01.py` checks exactly this
numerically (`fftn` over a tuple vs sequential 1-D `fft`s vs the explicit DFT matrix, all norms).
-/
namespace DirectVerif.C01DftND
open DirectVerif DirectVerif.Tensor DirectVerif.TensorLift DirectVerif.Shift DirectVerif.Fft DirectVerif.C01Dft ZMod
open scoped ZMod BigOperators ComplexConjugate

/-- the 1-D transform family of the concrete backend (the same on every axis) -/
noncomputable def dftF : Bool → Norm → Nat → List ℂ → List ℂ := fun inv nm _ => torchFft inv nm

/-- the `n × n` DFT matrix with torch's scale: `A k j = scale · e^{∓2πi jk/n}` -/
noncomputable def dftMat (inverse : Bool) (nm : Norm) : (n : Nat) → Nat → Nat → ℂ
  | 0 => fun _ _ => 0
  | m + 1 => fun k j => scale inverse nm (m + 1) *
      (stdAddChar (N := m + 1) (if inverse then (j : ZMod (m + 1)) * (k : ZMod (m + 1))
        else -((j : ZMod (m + 1)) * (k : ZMod (m + 1)))) : ℂ)

theorem getD_default_eq_zero (xs : List ℂ) (k : Nat) : xs.getD k default = xs.getD k 0 := rfl

/-- sums over `ℤ/(m+1)` are sums over `range (m+1)` -/
theorem sum_zmod_eq_range {m : ℕ} (g : ZMod (m + 1) → ℂ) :
    ∑ j : ZMod (m + 1), g j = ∑ j ∈ Finset.range (m + 1), g (j : ZMod (m + 1)) := by
  rw [Finset.sum_range]
  refine Finset.sum_congr rfl fun i _ => ?_
  exact congrArg g (ZMod.natCast_zmod_val (n := m + 1) (show ZMod (m + 1) from i)).symm

/-- **the 1-D DFT is linear on fibres**: a matrix–vector product with `dftMat` -/
theorem torchFft_isLinear (inverse : Bool) (nm : Norm) (n : Nat) :
    IsLinear (torchFft inverse nm) n n (dftMat inverse nm n) := by
  refine ⟨fun xs hxs => by rw [torchFft_length, hxs], ?_⟩
  intro xs hxs k hk
  cases n with
  | zero => omega
  | succ m =>
    have hkv : ((k : ZMod (m + 1))).val = k := ZMod.val_natCast_of_lt hk
    have h1 : (torchFft inverse nm xs).getD k default = toFn (n := m + 1) (torchFft inverse nm xs) (k : ZMod (m + 1)) := by
      simp only [toFn, hkv]; rfl
    rw [h1, toFn_torchFft inverse nm xs hxs]
    unfold torchFftFn kernelSum
    rw [sum_zmod_eq_range, Finset.mul_sum]
    refine Finset.sum_congr rfl fun j hj => ?_
    have hjv : ((j : ZMod (m + 1))).val = j := ZMod.val_natCast_of_lt (Finset.mem_range.mp hj)
    simp only [dftMat, toFn, hjv]
    rw [mul_assoc]; rfl

/-- **`TransformLaws` holds for the concrete DFT family — nothing is assumed** -/
theorem dftF_laws (s : List Nat) (dims : List Nat) (hr : ∀ d ∈ dims, d < s.length) : TransformLaws s dims dftF where
  len := fun inv nm d _ xs hxs => by show (torchFft inv nm xs).length = _; rw [torchFft_length, hxs]
  inv_fwd := fun nm d _ xs _ => torchFft_inv_fwd nm xs
  fwd_inv := fun nm d _ xs _ => torchFft_fwd_inv nm xs
  comm := fun nm inv inv' d hd d' hd' hne t ht =>
    (alongAxis_comm_linear t d d' (torchFft inv nm) (torchFft inv' nm) _ _ _ _ hne
      (by rw [ht.2]; exact hr d hd) (by rw [ht.2]; exact hr d' hd')
      (torchFft_isLinear inv nm _) (torchFft_isLinear inv' nm _)).symm

/-- **C01, n-D, concrete DFT, no hypotheses**: on every well-formed complex tensor (any rank, any
axis lengths), for every duplicate-free in-range axis tuple and all 8 flag combinations,
`ifft2 ∘ fft2 = id` and `fft2 ∘ ifft2 = id` for the backend the driver runs. -/
theorem ifft2_fft2_id_tensor_dft (t : Tensor ℂ) (dims : List Nat) (hnd : dims.Nodup)
    (hwf : t.data.length = prod t.shape) (hr : ∀ d ∈ dims, d < t.shape.length) (cfg : Cfg) :
    ifft2 (tensorBackend dftF dims) cfg (fft2 (tensorBackend dftF dims) cfg t) = t ∧
    fft2 (tensorBackend dftF dims) cfg (ifft2 (tensorBackend dftF dims) cfg t) = t :=
  ifft2_fft2_id_tensor t dims hnd hwf hr dftF (dftF_laws t.shape dims hr) cfg

/-! ## energy -/

/-- `Σ |x|²` (as `Σ conj x · x`) over all entries of a tensor -/
noncomputable def tensorEnergy (t : Tensor ℂ) : ℂ := C01.energy (fun z => conj z * z) t.data

theorem tensorEnergy_applyAxes (s : List Nat) (op : Nat → List ℂ → List ℂ) (dims : List Nat)
    (hr : ∀ d ∈ dims, d < s.length) (hlen : ∀ d ∈ dims, LenUniform (op d) (s.getD d 1) (s.getD d 1))
    (hE : ∀ d ∈ dims, ∀ xs : List ℂ, C01.energy (fun z => conj z * z) (op d xs) = C01.energy (fun z => conj z * z) xs)
    (t : Tensor ℂ) (ht : WF s t) :
    tensorEnergy (applyAxes (fun d t => t.alongAxis d (op d)) dims t) = tensorEnergy t := by
  induction dims generalizing t with
  | nil => rfl
  | cons d ds ih =>
    have hd := List.mem_cons_self (a := d) (l := ds)
    have hdr := hr d hd
    rw [C01.applyAxes_cons,
      ih (fun d' h => hr d' (List.mem_cons_of_mem _ h)) (fun d' h => hlen d' (List.mem_cons_of_mem _ h))
        (fun d' h => hE d' (List.mem_cons_of_mem _ h)) _ (ht.alongAxis d hdr _ (hlen d hd))]
    exact alongAxis_sum_eq (fun z => conj z * z) t d (op d) _ ht.1 (by rw [ht.2]; exact hdr)
      (by rw [ht.2]; exact hlen d hd) (fun xs _ => hE d hd xs)

/-- energy version of `LawfulOn`-style reasoning: if every operation of the backend preserves an
invariant `P` and (on `P`) the functional `E`, the normalised `fft2` / `ifft2` preserve `E` -/
theorem fft2_energy_on {X R : Type} (P : X → Prop) (B : Backend X) (E : X → R)
    (pI : ∀ x, P x → P (B.ishift x)) (pS : ∀ x, P x → P (B.fshift x))
    (pF : ∀ inv nm x, P x → P (B.transform inv nm x)) (pC : ∀ x, P x → P (B.viewComplex x))
    (hI : ∀ x, P x → E (B.ishift x) = E x) (hS : ∀ x, P x → E (B.fshift x) = E x)
    (hF : ∀ inv x, P x → E (B.transform inv .ortho x) = E x)
    (hC : ∀ x, P x → E (B.viewComplex x) = E x) (hR : ∀ x, P x → E (B.viewReal x) = E x)
    (cfg : Cfg) (hn : cfg.normalized = true) (x : X) (hx : P x) :
    E (fft2 B cfg x) = E x ∧ E (ifft2 B cfg x) = E x := by
  obtain ⟨c, n, ci⟩ := cfg
  subst hn
  cases c <;> cases ci <;>
    simp (maxDischargeDepth := 12) [ifft2, fft2, runData, fft2Plan, ifft2Plan, Guard.holds, applyOp, hI, hS, hF, hC, hR,
      pI, pS, pF, pC, hx]

/-- **C01, n-D energy, concrete DFT, no hypotheses**: the normalised `fft2` / `ifft2` of the backend
the driver runs preserve `Σ |x|²` over every well-formed complex tensor, for every in-range axis
tuple, centred or not, either layout. -/
theorem fft2_energy_tensor_dft (t : Tensor ℂ) (dims : List Nat)
    (hwf : t.data.length = prod t.shape) (hr : ∀ d ∈ dims, d < t.shape.length)
    (cfg : Cfg) (hn : cfg.normalized = true) :
    tensorEnergy (fft2 (tensorBackend dftF dims) cfg t) = tensorEnergy t ∧
    tensorEnergy (ifft2 (tensorBackend dftF dims) cfg t) = tensorEnergy t := by
  have hlenF : ∀ inv nm, ∀ d ∈ dims, LenUniform (dftF inv nm d) (t.shape.getD d 1) (t.shape.getD d 1) :=
    fun inv nm d _ xs hxs => by show (torchFft inv nm xs).length = _; rw [torchFft_length, hxs]
  refine fft2_energy_on (WF t.shape) (tensorBackend dftF dims) tensorEnergy ?_ ?_ ?_ (fun _ h => h) ?_ ?_ ?_
    (fun _ _ => rfl) (fun _ _ => rfl) cfg hn t ⟨hwf, rfl⟩
  · intro x hx
    show WF _ (Shift.ifftshift x dims)
    rw [ifftshift_eq_applyAxes t.shape dims hr x hx]
    exact WF.applyAxes (fun _ => Shift.ifftshift1) dims hr (fun d _ => lenUniform_ifftshift1 _) hx
  · intro x hx
    show WF _ (Shift.fftshift x dims)
    rw [fftshift_eq_applyAxes t.shape dims hr x hx]
    exact WF.applyAxes (fun _ => Shift.fftshift1) dims hr (fun d _ => lenUniform_fftshift1 _) hx
  · intro inv nm x hx
    exact WF.applyAxes (dftF inv nm) dims hr (hlenF inv nm) hx
  · intro x hx
    show tensorEnergy (Shift.ifftshift x dims) = _
    rw [ifftshift_eq_applyAxes t.shape dims hr x hx]
    exact tensorEnergy_applyAxes t.shape (fun _ => Shift.ifftshift1) dims hr (fun d _ => lenUniform_ifftshift1 _)
      (fun d _ xs => C01.energy_rollOne _ _ xs) x hx
  · intro x hx
    show tensorEnergy (Shift.fftshift x dims) = _
    rw [fftshift_eq_applyAxes t.shape dims hr x hx]
    exact tensorEnergy_applyAxes t.shape (fun _ => Shift.fftshift1) dims hr (fun d _ => lenUniform_fftshift1 _)
      (fun d _ xs => C01.energy_rollOne _ _ xs) x hx
  · intro inv x hx
    exact tensorEnergy_applyAxes t.shape (dftF inv .ortho) dims hr (hlenF inv .ortho)
      (fun d _ xs => energy_torchFft_ortho inv xs) x hx

end DirectVerif.C01DftND
