import DirectVerif.Lemmas.C11Fill
/-!
# C11 helper lemmas — protected region, the final mask algebra, the uniform fill
-/
namespace DirectVerif.C11
open DirectVerif DirectVerif.SslSplit

/-! ### the protected region -/

theorem mem_slice_range (n lo hi i : Nat) : i ∈ slice (List.range n) lo hi ↔ lo ≤ i ∧ i < hi ∧ i < n := by
  unfold slice
  rw [List.take_range, List.range_eq_range', List.drop_range', List.mem_range']
  constructor
  · rintro ⟨j, h1, h2⟩; omega
  · rintro ⟨h1, h2, h3⟩; exact ⟨i - lo, by omega, by omega⟩

/-- no wrap-around (`a // 2 ≤ n // 2`, in particular every `a ≤ n`): the slice is the centred window
`[n//2 - a//2, n//2 + a//2)` clipped to the axis -/
theorem mem_regionIdx (n : Nat) (a : Int) (i : Nat) (ha : 0 ≤ a) (hw : a / 2 ≤ (n : Int) / 2) :
    i ∈ regionIdx n a ↔ (n : Int) / 2 - a / 2 ≤ i ∧ (i : Int) < (n : Int) / 2 + a / 2 ∧ i < n := by
  unfold regionIdx pySlice regionLo regionHi centre
  simp only [List.length_range]
  rw [mem_slice_range]
  omega

/-- beyond the mask the start of the Python slice is negative and wraps around -/
theorem mem_regionIdx_wrap (n : Nat) (a : Int) (i : Nat) (hw : (n : Int) / 2 < a / 2) :
    i ∈ regionIdx n a ↔ max ((n : Int) / 2 - a / 2 + n) 0 ≤ i ∧ (i : Int) < (n : Int) / 2 + a / 2 ∧ i < n := by
  unfold regionIdx pySlice regionLo regionHi centre
  simp only [List.length_range]
  rw [mem_slice_range]
  omega

theorem length_clearProtected (nrow ncol : Nat) (a0 a1 : Int) (g : Grid) :
    (clearProtected nrow ncol a0 a1 g).length = g.length := by simp [clearProtected]

theorem cell_clearProtected (nrow ncol : Nat) (a0 a1 : Int) (g : Grid) (k : Nat) :
    cell (clearProtected nrow ncol a0 a1 g) k = (cell g k && !protectedCell nrow ncol a0 a1 k) := by
  unfold clearProtected protectedCell
  exact cell_mapIdx g _ (fun _ => by simp) k

theorem length_protectedGrid (nrow ncol : Nat) (a0 a1 : Int) (len : Nat) :
    (protectedGrid nrow ncol a0 a1 len).length = len := by simp [protectedGrid]

theorem cell_protectedGrid (nrow ncol : Nat) (a0 a1 : Int) (len k : Nat) (hk : k < len) :
    cell (protectedGrid nrow ncol a0 a1 len) k = protectedCell nrow ncol a0 a1 k := by
  rw [cell_eq_getElem _ k (by simpa [protectedGrid] using hk)]
  simp [protectedGrid, protectedCell]

/-! ### reduced / free masks -/

theorem length_reducedMask (keep : Bool) (mask acs : Grid) (hl : acs.length = mask.length) :
    (reducedMask keep mask acs).length = mask.length := by
  cases keep <;> simp [reducedMask, hl]

theorem cell_reducedMask (keep : Bool) (mask acs : Grid) (hl : acs.length = mask.length) (k : Nat) :
    cell (reducedMask keep mask acs) k = (cell mask k && !(keep && cell acs k)) := by
  cases keep
  · simp [reducedMask]
  · simp only [reducedMask, if_true, Bool.true_and]
    exact cell_gAndNot mask acs hl.symm k

theorem length_freeMask (keep : Bool) (a0 a1 : Int) (nrow ncol : Nat) (mask acs : Grid)
    (hl : acs.length = mask.length) : (freeMask keep a0 a1 nrow ncol mask acs).length = mask.length := by
  cases keep
  · simp [freeMask, length_clearProtected, length_reducedMask false mask acs hl]
  · simp [freeMask, length_reducedMask true mask acs hl]

theorem cell_freeMask (keep : Bool) (a0 a1 : Int) (nrow ncol : Nat) (mask acs : Grid)
    (hl : acs.length = mask.length) (k : Nat) :
    cell (freeMask keep a0 a1 nrow ncol mask acs) k =
      (cell mask k && !(keep && cell acs k) && !(!keep && protectedCell nrow ncol a0 a1 k)) := by
  cases keep
  · simp [freeMask, cell_clearProtected, cell_reducedMask false mask acs hl]
  · simp [freeMask, cell_reducedMask true mask acs hl]

theorem free_sub_reduced (keep : Bool) (a0 a1 : Int) (nrow ncol : Nat) (mask acs : Grid)
    (hl : acs.length = mask.length) : Sub (freeMask keep a0 a1 nrow ncol mask acs) (reducedMask keep mask acs) := by
  intro k hk
  rw [cell_freeMask keep a0 a1 nrow ncol mask acs hl] at hk
  rw [cell_reducedMask keep mask acs hl]
  revert hk
  cases cell mask k <;> cases keep <;> cases cell acs k <;> simp

/-! ### `finish`: input = mask' & ~target, `| acs` on both -/

/-- everything the property says about the two masks, for a raw target `t0` inside the free cells -/
theorem finish_facts (keep : Bool) (a0 a1 : Int) (nrow ncol : Nat) (mask acs t0 : Grid)
    (hl : acs.length = mask.length) (ht : t0.length = mask.length)
    (hs : Sub t0 (freeMask keep a0 a1 nrow ncol mask acs)) (k : Nat) :
    let r := finish keep (reducedMask keep mask acs) acs t0
    r.1.length = mask.length ∧ r.2.length = mask.length ∧
    (cell r.1 k || cell r.2 k) = (cell mask k || (keep && cell acs k)) ∧
    (cell r.1 k && cell r.2 k) = (keep && cell acs k) ∧
    (cell r.2 k && !(keep && cell acs k)) = cell t0 k ∧
    (keep = false → protectedCell nrow ncol a0 a1 k = true → cell mask k = true →
      cell r.1 k = true ∧ cell r.2 k = false) := by
  have hr := length_reducedMask keep mask acs hl
  have hk := hs k
  rw [cell_freeMask keep a0 a1 nrow ncol mask acs hl] at hk
  cases keep
  · simp only [finish, Bool.false_eq_true, if_false]
    refine ⟨by simp [hr, ht], ht, ?_⟩
    rw [cell_gAndNot _ _ (by rw [hr, ht]), cell_reducedMask false mask acs hl]
    revert hk
    cases cell mask k <;> cases cell t0 k <;> cases protectedCell nrow ncol a0 a1 k <;> simp
  · simp only [finish, if_true]
    have h1 : (gAndNot (reducedMask true mask acs) t0).length = acs.length := by simp [hr, ht, hl]
    refine ⟨by simp [hr, ht, hl], by simp [ht, hl], ?_⟩
    rw [cell_gOr _ _ h1, cell_gOr _ _ (by rw [ht, hl]), cell_gAndNot _ _ (by rw [hr, ht]),
      cell_reducedMask true mask acs hl]
    revert hk
    cases cell mask k <;> cases cell t0 k <;> cases cell acs k <;> simp

/-- grids of equal length with equal cells are equal -/
theorem eq_of_cells (a b : Grid) (hl : a.length = b.length) (h : ∀ k, cell a k = cell b k) : a = b :=
  ext_cell a b hl (fun k _ => h k)

/-! ### the uniform fill -/

theorem length_setAll (chosen : List Nat) : ∀ (out : Grid), (setAll out chosen).length = out.length := by
  induction chosen with
  | nil => intro out; rfl
  | cons k ks ih => intro out; simp only [setAll, List.foldl_cons] at ih ⊢; rw [ih]; simp

theorem cell_setAll (chosen : List Nat) : ∀ (out : Grid), (∀ k ∈ chosen, k < out.length) → ∀ j,
    cell (setAll out chosen) j = (cell out j || decide (j ∈ chosen)) := by
  induction chosen with
  | nil => intro out _ j; simp [setAll]
  | cons k ks ih =>
    intro out h j
    have hk : k < out.length := h k (by simp)
    simp only [setAll, List.foldl_cons] at ih ⊢
    rw [ih (out.set k true) (fun k' hk' => by simpa using h k' (by simp [hk'])) j, cell_set_true _ _ _ hk]
    by_cases e : k = j
    · subst e; simp
    · have e' : ¬ j = k := fun h => e h.symm
      simp [e, e']

theorem cnt_setAll (chosen : List Nat) : ∀ (out : Grid), chosen.Nodup →
    (∀ k ∈ chosen, k < out.length ∧ cell out k = false) → cnt (setAll out chosen) = cnt out + chosen.length := by
  induction chosen with
  | nil => intro out _ _; simp [setAll]
  | cons k ks ih =>
    intro out hn h
    obtain ⟨hk, hc⟩ := h k (by simp)
    have hn' := (List.nodup_cons.mp hn)
    simp only [setAll, List.foldl_cons] at ih ⊢
    rw [ih (out.set k true) hn'.2 ?_, cnt_set_true _ _ hk hc]
    · simp; omega
    · intro k' hk'
      obtain ⟨h1, h2⟩ := h k' (by simp [hk'])
      refine ⟨by simpa using h1, ?_⟩
      rw [cell_set_true _ _ _ hk, h2]
      have : k ≠ k' := fun e => hn'.1 (e ▸ hk')
      simp [this]

theorem validChoice_spec {count : Nat} {free : Grid} {chosen : List Nat} (h : validChoice count free chosen = true) :
    chosen.length = count ∧ chosen.Nodup ∧ ∀ k ∈ chosen, cell free k = true := by
  simp only [validChoice, Bool.and_eq_true, beq_iff_eq, decide_eq_true_eq, List.all_eq_true] at h
  exact ⟨h.1.1, h.1.2, fun k hk => h.2 k hk⟩

/-- what `uniform_fill` returns: inside the free cells, with exactly the drawn number of cells -/
theorem uniformFill_ok {count : Nat} {free : Grid} {chosen : List Nat} {t : Grid}
    (h : uniformFill count free chosen = .ok t) :
    t.length = free.length ∧ Sub t free ∧ cnt t = (if count = 0 ∨ cnt free = 0 then 0 else count) := by
  unfold uniformFill at h
  split at h
  · rename_i h0
    injection h with h; subst h
    refine ⟨by simp, ?_, by simp [cnt_zeros, h0]⟩
    intro k hk
    rw [cell_zeros] at hk; cases hk
  · rename_i h0
    split at h
    · cases h
    · rename_i hv
      injection h with h; subst h
      obtain ⟨h1, h2, h3⟩ := validChoice_spec (by simpa using hv)
      have hlt : ∀ k ∈ chosen, k < (zeros free.length).length := fun k hk => by
        simpa using cell_true_lt _ _ (h3 k hk)
      refine ⟨by simp [length_setAll], ?_, ?_⟩
      · intro k hk
        rw [cell_setAll chosen _ hlt, cell_zeros] at hk
        simp only [Bool.false_or, decide_eq_true_eq] at hk
        exact h3 k hk
      · rw [cnt_setAll chosen _ h2 (fun k hk => ⟨hlt k hk, cell_zeros _ _⟩), cnt_zeros, h1, if_neg h0]; omega

theorem uniformFill_total {count : Nat} {free : Grid} {chosen : List Nat}
    (hv : validChoice count free chosen = true) : ∃ t, uniformFill count free chosen = .ok t := by
  unfold uniformFill
  split
  · exact ⟨_, rfl⟩
  · rw [hv]; exact ⟨_, rfl⟩

/-! ### the half split -/

theorem cell_halfParts (d : Dir) (xs ys : List Int) (nrow ncol : Nat) (mask : Grid) (k : Nat) :
    cell (halfParts d xs ys nrow ncol mask).1 k = (cell mask k && inputSideC d xs ys nrow ncol (k / ncol) (k % ncol)) ∧
    cell (halfParts d xs ys nrow ncol mask).2 k = (cell mask k && !inputSideC d xs ys nrow ncol (k / ncol) (k % ncol)) := by
  unfold halfParts
  exact ⟨cell_mapIdx mask _ (fun _ => by simp) k, cell_mapIdx mask _ (fun _ => by simp) k⟩

theorem length_halfParts (d : Dir) (xs ys : List Int) (nrow ncol : Nat) (mask : Grid) :
    (halfParts d xs ys nrow ncol mask).1.length = mask.length ∧ (halfParts d xs ys nrow ncol mask).2.length = mask.length := by
  simp [halfParts]

/-! ### k-spaces -/

theorem getD_applyMaskK (cells : Nat) (m : Grid) (k : List Int) (idx : Nat) :
    (applyMaskK cells m k).getD idx 0 = if cell m ((idx / 2) % cells) then k.getD idx 0 else 0 := by
  unfold applyMaskK cell
  by_cases h : idx < k.length
  · simp [List.getD_eq_getElem?_getD, h]
  · simp [List.getD_eq_getElem?_getD, Nat.le_of_not_lt h]

theorem length_applyMaskK (cells : Nat) (m : Grid) (k : List Int) : (applyMaskK cells m k).length = k.length := by
  simp [applyMaskK]

theorem getD_zipWith_add (a b : List Int) (h : a.length = b.length) (idx : Nat) :
    (List.zipWith (fun x y => x + y) a b).getD idx 0 = a.getD idx 0 + b.getD idx 0 := by
  by_cases hi : idx < a.length
  · have hb : idx < b.length := by omega
    have hz : idx < (List.zipWith (fun x y => x + y) a b).length := by simp; omega
    simp only [List.getD_eq_getElem?_getD, List.getElem?_eq_getElem hi, List.getElem?_eq_getElem hb,
      List.getElem?_eq_getElem hz, Option.getD_some, List.getElem_zipWith]
  · have hb : b.length ≤ idx := by omega
    have ha : a.length ≤ idx := by omega
    have hz : (List.zipWith (fun x y => x + y) a b).length ≤ idx := by simp; omega
    simp only [List.getD_eq_getElem?_getD, List.getElem?_eq_none ha, List.getElem?_eq_none hb,
      List.getElem?_eq_none hz, Option.getD_none]
    rfl

theorem cell_gNot (g : Grid) (k : Nat) (h : k < g.length) : cell (gNot g) k = !cell g k := by
  rw [cell_eq_getElem _ k (by simpa [gNot] using h), cell_eq_getElem g k h]
  simp [gNot]

end DirectVerif.C11
