import DirectVerif.Lemmas.C19Ops
/-!
# C19 — `MRILogLikelihood` is the gradient of the data-fidelity term

`A = M ∘ F ∘ E` (mask, Fourier, coil expansion), `A† = R ∘ Fb ∘ M` when `Fb` is the adjoint of `F`,
`R` the adjoint of `E` and `M` an orthogonal projection.
-/
open ComplexInnerProductSpace DirectVerif.DataConsistency
open scoped ComplexConjugate

namespace DirectVerif.C19
variable {E : Type*} [NormedAddCommGroup E] [InnerProductSpace ℂ E]
variable {G : Type*} [NormedAddCommGroup G] [InnerProductSpace ℂ G]

/-- what the theorems assume about the five operators -/
structure Physics (F Fb : G →ₗ[ℂ] G) (Ex : E →ₗ[ℂ] G) (R : G →ₗ[ℂ] E) (M : G →ₗ[ℂ] G) : Prop where
  /-- the backward operator is the adjoint of the forward operator (true for the default
  normalised `fft2`/`ifft2` pair: unitary, `F† = F⁻¹`; property C01) -/
  bwd_adjoint : ∀ u v, ⟪F u, v⟫ = ⟪u, Fb v⟫
  /-- `reduce_operator` is the adjoint of `expand_operator` (property C02) -/
  reduce_adjoint : ∀ x w, ⟪Ex x, w⟫ = ⟪x, R w⟫
  /-- masking is an orthogonal projection (property C03): self-adjoint … -/
  mask_sa : ∀ u v, ⟪M u, v⟫ = ⟪u, M v⟫
  /-- … and idempotent -/
  mask_idem : ∀ u, M (M u) = M u

section
variable (F Fb : G →ₗ[ℂ] G) (Ex : E →ₗ[ℂ] G) (R : G →ₗ[ℂ] E) (M : G →ₗ[ℂ] G)

local notation "𝒪" => mathOps F Fb Ex R M

/-- the forward model `A = M F E` -/
def fwdModel : E →ₗ[ℂ] G := M ∘ₗ F ∘ₗ Ex
/-- `R Fb M`, the adjoint of `A` under `Physics` -/
def adjModel : G →ₗ[ℂ] E := R ∘ₗ Fb ∘ₗ M

/-- the data-fidelity term `½‖M F E x − M y‖²` -/
noncomputable def dataFit (x : E) (y : G) : ℝ := ‖fwdModel F Ex M x - M y‖ ^ 2 / 2

/-- the block in closed form (no assumption on the operators): both terms masked, one scaling -/
theorem loglik_eq (s : ℂ) (x : E) (y : G) :
    loglik 𝒪 s x y = s • R (Fb (M (F (Ex x)) - M y)) := by
  show R (Fb (M (F (s • Ex x)) - s • M y)) = _
  simp only [map_smul, ← smul_sub]

variable {F Fb Ex R M}

theorem adjModel_adjoint (P : Physics F Fb Ex R M) (x : E) (w : G) :
    ⟪fwdModel F Ex M x, w⟫ = ⟪x, adjModel Fb R M w⟫ := by
  simp only [fwdModel, adjModel, LinearMap.comp_apply]
  rw [P.mask_sa, P.bwd_adjoint, P.reduce_adjoint]

theorem adjModel_masked (P : Physics F Fb Ex R M) (x : E) (y : G) :
    adjModel Fb R M (fwdModel F Ex M x - M y) = R (Fb (M (F (Ex x)) - M y)) := by
  simp only [fwdModel, adjModel, LinearMap.comp_apply, map_sub, P.mask_idem]

/-- **`MRILogLikelihood` = `s · A†(A x − M y)`** -/
theorem loglik_eq_adjoint_residual (P : Physics F Fb Ex R M) (s : ℂ) (x : E) (y : G) :
    loglik 𝒪 s x y = s • adjModel Fb R M (fwdModel F Ex M x - M y) := by
  rw [loglik_eq, adjModel_masked P]

/-- exact second-order expansion of the data-fidelity term: the linear term is the block's output,
so the block **is** the gradient (quadratics are pinned by this identity, see `gradient_unique`). -/
theorem dataFit_expansion (P : Physics F Fb Ex R M) (x h : E) (y : G) :
    dataFit F Ex M (x + h) y =
      dataFit F Ex M x y + (⟪loglik 𝒪 1 x y, h⟫).re + ‖fwdModel F Ex M h‖ ^ 2 / 2 := by
  rw [loglik_eq_adjoint_residual P, one_smul]
  unfold dataFit
  have e : fwdModel F Ex M (x + h) - M y = (fwdModel F Ex M x - M y) + fwdModel F Ex M h := by
    rw [map_add]; abel
  rw [e, norm_add_sq (𝕜 := ℂ), ← inner_re_symm, adjModel_adjoint P, ← inner_re_symm]
  simp only [RCLike.re_to_complex]
  ring

/-- the same with the un-masked data term of the property statement, `½‖M F E x − y‖²`: it differs
from `dataFit` by the constant `½‖y − M y‖²` (Pythagoras for the projection `M`). -/
theorem dataFit_unmasked (P : Physics F Fb Ex R M) (x : E) (y : G) :
    ‖fwdModel F Ex M x - y‖ ^ 2 / 2 = dataFit F Ex M x y + ‖M y - y‖ ^ 2 / 2 := by
  unfold dataFit
  have e : fwdModel F Ex M x - y = (fwdModel F Ex M x - M y) + (M y - y) := by abel
  have orth : ⟪fwdModel F Ex M x - M y, M y - y⟫ = 0 := by
    have : fwdModel F Ex M x - M y = M (F (Ex x) - y) := by
      simp only [fwdModel, LinearMap.comp_apply, map_sub]
    rw [this, P.mask_sa, map_sub, P.mask_idem, sub_self, inner_zero_right]
  rw [e, norm_add_sq (𝕜 := ℂ), orth]
  simp only [map_zero, mul_zero, add_zero]
  ring

/-- a vector `g` with `f (x + h) = f x + re⟪g, h⟫ + q h` for all `h`, where `q` is the same
quadratic remainder, is unique -/
theorem gradient_unique (g g' : E) (hg : ∀ h : E, (⟪g, h⟫).re = (⟪g', h⟫).re) : g = g' := by
  have h0 := hg (g - g')
  have : (⟪g - g', g - g'⟫).re = 0 := by
    rw [inner_sub_left, Complex.sub_re, h0, sub_self]
  have h1 : ‖g - g'‖ ^ 2 = 0 := by
    have := inner_self_eq_norm_sq (𝕜 := ℂ) (g - g')
    simp only [RCLike.re_to_complex] at this
    linarith
  exact sub_eq_zero.mp (norm_eq_zero.mp ((pow_eq_zero_iff two_ne_zero).mp h1))

/-- **the block vanishes on consistent data** -/
theorem loglik_zero_of_masked_consistent (s : ℂ) (x₀ : E) (y : G)
    (hy : M y = M (F (Ex x₀))) : loglik 𝒪 s x₀ y = 0 := by
  rw [loglik_eq, hy, sub_self, map_zero, map_zero, smul_zero]

/-- un-normalised operator pair: if the backward operator is `c` times the adjoint `Fa` of the
forward operator (`ifftn` without `norm="ortho"` is `F*/N`, `c = 1/N`) the block is `c` times the
gradient -/
theorem loglik_scaled_backward (Fa : G →ₗ[ℂ] G) (c s : ℂ) (hFb : ∀ v, Fb v = c • Fa v) (x : E) (y : G) :
    loglik 𝒪 s x y = c • loglik (mathOps F Fa Ex R M) s x y := by
  rw [loglik_eq, loglik_eq, hFb, map_smul, smul_comm]

end
end DirectVerif.C19
