import DirectVerif.Model.Complex
import DirectVerif.Lemmas.TensorLift
/-!
# C02 — the tensor plumbing of `Model/Complex.lean` refines to index form (core Lean, no Mathlib)

The driver executes `expandOp` / `reduceOp` / `rssSqT` / `cmulT` on flat row-major tensors: torch
broadcasting (`bcastShape`, `unflatten`, `bcastOffset`, `zipBcast`), `unsqueeze`, and sums along an axis
(`sumAxis` = `Tensor.alongAxis … [fibre.sum]` followed by erasing the axis).  This file proves what these
definitions compute, for **every** shape `pre ++ [c] ++ post` (coil axis at an arbitrary position
`pre.length`, given as a non-negative or as a negative Python axis) and every well-formed tensor:

* `unflatten` / `Tensor.offset` are mutually inverse mixed-radix conversions (`moff_unflatten`), and the
  offset of a multi-index in an operand with a singleton axis drops that digit (`bcastOffset_expand`);
* `bcastShape_of_forall₂`, `zipBcast_data_getD`, `zipBcast_same` — broadcasting of equal shapes is `zipWith`;
* `sumAxis_shape` / `sumAxis_getD` — entry `(o, i)` of `t.sum(d)` is the sum of the strided fibre `(o, i)`
  (through the proved `alongAxis` laws of `Lemmas/TensorLift.lean`);
* **`expandOp_spec`**: `expand_operator(x, S, d)[o, j, i] = cmul S[o, j, i] x[o, i]`,
  **`reduceOp_spec`**: `reduce_operator(y, S, d)[o, i] = Σ_j cmul (conj S[o, j, i]) y[o, j, i]`,
  **`rssSqT_spec`**: `rss²(S, d)[o, i] = Σ_j modSq S[o, j, i]`, with shapes and data lengths,
  where `[o, j, i]` is flat position `o*c*inner + j*inner + i`, `o < prod pre`, `j < c`, `i < inner = prod post`.

`Props/C02.lean` reads these over `ℝ` / `ℂ` and derives adjointness, `R ∘ E = id` and linearity for the
tensor-level operators themselves.
-/
namespace DirectVerif.C02T
open DirectVerif DirectVerif.Tensor DirectVerif.Cx DirectVerif.TensorLift

/-! ## mixed-radix conversions -/

/-- the fold of `unflatten`, with its quotient -/
def uf (shape : List Nat) (k : Nat) : List Nat × Nat :=
  shape.foldr (fun n (acc : List Nat × Nat) => ((acc.2 % n) :: acc.1, acc.2 / n)) ([], k)

theorem unflatten_eq (shape : List Nat) (k : Nat) : unflatten shape k = (uf shape k).1 := rfl

theorem uf_snd (s : List Nat) (k : Nat) : (uf s k).2 = k / prod s := by
  induction s with
  | nil => simp [uf, prod_nil]
  | cons n s ih =>
    show (uf s k).2 / n = _
    rw [ih, Nat.div_div_eq_div_mul, prod_cons, Nat.mul_comm]

theorem unflatten_nil (k : Nat) : unflatten [] k = [] := rfl

theorem unflatten_cons (n : Nat) (s : List Nat) (k : Nat) :
    unflatten (n :: s) k = (k / prod s % n) :: unflatten s k := by
  show ((uf s k).2 % n) :: (uf s k).1 = _
  rw [uf_snd]; rfl

theorem unflatten_length (s : List Nat) (k : Nat) : (unflatten s k).length = s.length := by
  induction s with
  | nil => rfl
  | cons n s ih => rw [unflatten_cons, List.length_cons, ih, List.length_cons]

theorem unflatten_append (s1 s2 : List Nat) (k : Nat) :
    unflatten (s1 ++ s2) k = unflatten s1 (k / prod s2) ++ unflatten s2 k := by
  induction s1 with
  | nil => simp [unflatten_nil]
  | cons n s1 ih =>
    rw [List.cons_append, unflatten_cons, unflatten_cons, ih, prod_append, List.cons_append,
      Nat.div_div_eq_div_mul, Nat.mul_comm (prod s2)]

/-- the masked digit list used by `bcastOffset`: a digit on an axis of length 1 is read as 0 -/
def mask (shape idx : List Nat) : List Nat := List.zipWith (fun n i => if n = 1 then 0 else i) shape idx

/-- masked offset (what `bcastOffset` computes when `idx` has the rank of `shape`) -/
def moff (shape idx : List Nat) : Nat := Tensor.offset shape (mask shape idx)

theorem bcastOffset_eq_moff (shape idx : List Nat) (h : idx.length = shape.length) :
    bcastOffset shape idx = moff shape idx := by
  unfold bcastOffset moff mask
  rw [h, Nat.sub_self, List.drop_zero]

theorem offset_foldl (s idx : List Nat) (a : Nat) (h : s.length = idx.length) :
    (s.zip idx).foldl (fun acc (p : Nat × Nat) => acc * p.1 + p.2) a = a * prod s + Tensor.offset s idx := by
  induction s generalizing a idx with
  | nil => simp [Tensor.offset, prod_nil]
  | cons n s ih =>
    cases idx with
    | nil => simp at h
    | cons i idx =>
      have h' : s.length = idx.length := by simpa using h
      show (s.zip idx).foldl _ (a * n + i) = a * prod (n :: s) + (s.zip idx).foldl _ (0 * n + i)
      rw [ih idx (a * n + i) h', ih idx (0 * n + i) h', prod_cons, Nat.zero_mul, Nat.zero_add,
        Nat.add_mul, Nat.mul_assoc, Nat.add_assoc]

theorem offset_nil : Tensor.offset [] [] = 0 := rfl

theorem offset_cons (n i : Nat) (s idx : List Nat) (h : s.length = idx.length) :
    Tensor.offset (n :: s) (i :: idx) = i * prod s + Tensor.offset s idx := by
  show (s.zip idx).foldl _ (0 * n + i) = _
  rw [offset_foldl s idx _ h, Nat.zero_mul, Nat.zero_add]

theorem mask_length (s idx : List Nat) (h : s.length = idx.length) : (mask s idx).length = s.length := by
  simp [mask, h]

theorem moff_nil : moff [] [] = 0 := rfl

theorem moff_cons (n i : Nat) (s idx : List Nat) (h : s.length = idx.length) :
    moff (n :: s) (i :: idx) = (if n = 1 then 0 else i) * prod s + moff s idx := by
  unfold moff mask
  rw [List.zipWith_cons_cons, offset_cons _ _ _ _ (by simp [h])]

theorem moff_append (s1 i1 s2 i2 : List Nat) (h1 : s1.length = i1.length) (h2 : s2.length = i2.length) :
    moff (s1 ++ s2) (i1 ++ i2) = moff s1 i1 * prod s2 + moff s2 i2 := by
  induction s1 generalizing i1 with
  | nil =>
    cases i1 with
    | nil => simp [moff_nil]
    | cons _ _ => simp at h1
  | cons n s1 ih =>
    cases i1 with
    | nil => simp at h1
    | cons i i1 =>
      have h1' : s1.length = i1.length := by simpa using h1
      rw [List.cons_append, List.cons_append, moff_cons _ _ _ _ (by simp [h1', h2]), ih i1 h1',
        moff_cons _ _ _ _ h1', prod_append, Nat.add_mul, Nat.mul_assoc, Nat.add_assoc]

/-- **`offset ∘ unflatten = id`** (mod the number of elements; axes of length 1 may be masked) -/
theorem moff_unflatten (s : List Nat) (k : Nat) : moff s (unflatten s k) = k % prod s := by
  induction s with
  | nil => simp [unflatten_nil, moff_nil, prod_nil, Nat.mod_one]
  | cons n s ih =>
    rw [unflatten_cons, moff_cons _ _ _ _ (unflatten_length s k).symm, ih, prod_cons, Nat.mul_comm n,
      Nat.mod_mul]
    by_cases hn : n = 1
    · subst hn; simp [Nat.mod_one]
    · rw [if_neg hn, Nat.mul_comm, Nat.add_comm]

theorem bcastOffset_unflatten (s : List Nat) (k : Nat) (hk : k < prod s) :
    bcastOffset s (unflatten s k) = k := by
  rw [bcastOffset_eq_moff _ _ (unflatten_length s k), moff_unflatten, Nat.mod_eq_of_lt hk]

/-- flat position of `[o, j, i]` in a tensor of shape `pre ++ [c] ++ post` -/
def pos3 (c inner o j i : Nat) : Nat := o * c * inner + j * inner + i

theorem pos3_lt (Q c P o j i : Nat) (ho : o < Q) (hj : j < c) (hi : i < P) : pos3 c P o j i < Q * (c * P) := by
  have h1 := idx2_lt j i c P hj hi
  have h2 := idx2_lt o (j * P + i) Q (c * P) ho h1
  unfold pos3
  rw [Nat.mul_assoc, Nat.add_assoc]
  exact h2

/-- the operand with a singleton coil axis is read at `[o, i]`: offset in `pre ++ [1] ++ post` of the
multi-index of `[o, j, i]` in `pre ++ [c] ++ post` -/
theorem bcastOffset_expand (pre post : List Nat) (c o j i : Nat)
    (ho : o < prod pre) (hj : j < c) (hi : i < prod post) :
    bcastOffset (pre ++ [1] ++ post) (unflatten (pre ++ [c] ++ post) (pos3 c (prod post) o j i)) =
      o * prod post + i := by
  have hlen : (unflatten (pre ++ [c] ++ post) (pos3 c (prod post) o j i)).length = (pre ++ [1] ++ post).length := by
    rw [unflatten_length]; simp
  rw [bcastOffset_eq_moff _ _ hlen, unflatten_append, unflatten_append,
    moff_append _ _ _ _ (by simp [unflatten_length]) (unflatten_length _ _).symm,
    moff_append pre _ [1] _ (unflatten_length _ _).symm (by simp [unflatten_length]),
    moff_unflatten, moff_unflatten]
  have hP : 0 < prod post := by omega
  have e1 : pos3 c (prod post) o j i % prod post = i := by
    unfold pos3
    rw [show o * c * prod post + j * prod post + i = (o * c + j) * prod post + i by rw [Nat.add_mul]]
    exact (idx2 _ _ _ hi).2
  have e2 : pos3 c (prod post) o j i / prod post = o * c + j := by
    unfold pos3
    rw [show o * c * prod post + j * prod post + i = (o * c + j) * prod post + i by rw [Nat.add_mul]]
    exact (idx2 _ _ _ hi).1
  have e3 : (o * c + j) / c = o := (idx2 o j c hj).1
  rw [e1, e2]
  simp only [unflatten_cons, unflatten_nil, prod_nil, prod_cons, Nat.mul_one, Nat.div_one]
  rw [e3, Nat.mod_eq_of_lt ho]
  simp [moff, mask, Tensor.offset]

/-! ## broadcasting -/

/-- `b` broadcasts to `a`: same rank, every axis equal or a singleton in `b` -/
inductive BcTo : List Nat → List Nat → Prop
  | nil : BcTo [] []
  | cons {x y : Nat} {a b : List Nat} : (x = y ∨ y = 1) → BcTo a b → BcTo (x :: a) (y :: b)

theorem BcTo.length_eq {a b : List Nat} (h : BcTo a b) : a.length = b.length := by
  induction h with
  | nil => rfl
  | cons _ _ ih => simp [ih]

theorem bcastShape_of_forall₂ (a b : List Nat) (h : BcTo a b) :
    bcastShape a b = some a := by
  unfold bcastShape
  have hl : a.length = b.length := h.length_eq
  simp only [hl, Nat.max_self, Nat.sub_self, List.replicate_zero, List.nil_append]
  induction h with
  | nil => rfl
  | @cons x y a b hxy _ ih =>
    have hl' : a.length = b.length := by simpa using hl
    rw [List.zip_cons_cons, List.mapM_cons, ih hl']
    rcases hxy with rfl | rfl
    · simp
    · by_cases hx : x = 1
      · simp [hx]
      · simp [hx]

theorem forall₂_refl_or (s : List Nat) : BcTo s s := by
  induction s with
  | nil => exact .nil
  | cons x s ih => exact .cons (Or.inl rfl) ih

theorem forall₂_expand (pre post : List Nat) (c : Nat) :
    BcTo (pre ++ [c] ++ post) (pre ++ [1] ++ post) := by
  induction pre with
  | nil => exact .cons (Or.inr rfl) (forall₂_refl_or post)
  | cons x pre ih => exact .cons (Or.inl rfl) ih

section Zip
variable {α β γ : Type} [Inhabited α] [Inhabited β]

theorem zipBcast_of_shape (f : α → β → γ) (a : Tensor α) (b : Tensor β) (s : List Nat)
    (h : bcastShape a.shape b.shape = some s) :
    zipBcast f a b = ⟨s, (List.range (prod s)).map fun k =>
      f (a.data.getD (bcastOffset a.shape (unflatten s k)) default)
        (b.data.getD (bcastOffset b.shape (unflatten s k)) default)⟩ := by
  unfold zipBcast
  rw [h]
  simp only [toArray_getElem!]

/-- entry `k` of a broadcast operation whose result has the shape of the first operand -/
theorem zipBcast_getD [Inhabited γ] (f : α → β → γ) (a : Tensor α) (b : Tensor β)
    (h : BcTo a.shape b.shape) (k : Nat) (hk : k < prod a.shape) :
    (zipBcast f a b).data.getD k default =
      f (a.data.getD k default) (b.data.getD (bcastOffset b.shape (unflatten a.shape k)) default) := by
  rw [zipBcast_of_shape f a b _ (bcastShape_of_forall₂ _ _ h)]
  simp only [List.getD_eq_getElem?_getD, List.getElem?_map, List.getElem?_range hk, Option.map_some,
    Option.getD_some, bcastOffset_unflatten _ _ hk]

theorem zipBcast_shape (f : α → β → γ) (a : Tensor α) (b : Tensor β)
    (h : BcTo a.shape b.shape) :
    (zipBcast f a b).shape = a.shape ∧ (zipBcast f a b).data.length = prod a.shape := by
  rw [zipBcast_of_shape f a b _ (bcastShape_of_forall₂ _ _ h)]
  simp

/-- broadcasting two well-formed tensors of the same shape is `zipWith` on the data -/
theorem zipBcast_same (f : α → β → γ) (a : Tensor α) (b : Tensor β) (hs : a.shape = b.shape)
    (ha : a.data.length = prod a.shape) (hb : b.data.length = prod a.shape) :
    zipBcast f a b = ⟨a.shape, List.zipWith f a.data b.data⟩ := by
  rw [zipBcast_of_shape f a b _ (bcastShape_of_forall₂ _ _ (hs ▸ forall₂_refl_or a.shape))]
  congr 1
  apply List.ext_getElem
  · simp [ha, hb]
  · intro k h1 h2
    have hk : k < prod a.shape := by simpa using h1
    have hka : k < a.data.length := by omega
    have hkb : k < b.data.length := by omega
    simp only [List.getElem_map, List.getElem_range, List.getElem_zipWith, bcastOffset_unflatten _ _ hk,
      ← hs, List.getD_eq_getElem?_getD, List.getElem?_eq_getElem hka, List.getElem?_eq_getElem hkb,
      Option.getD_some]

end Zip

/-! ## sums along an axis -/

theorem normAxis_nonneg (rank ax : Nat) : normAxis rank (ax : Int) = ax := by
  unfold normAxis
  rw [if_neg (by omega)]; simp

theorem normAxis_neg (rank ax : Nat) (h : ax < rank) : normAxis rank ((ax : Int) - rank) = ax := by
  unfold normAxis
  rw [if_pos (by omega)]; omega

theorem shape3_length (pre post : List Nat) (n : Nat) : (pre ++ [n] ++ post).length = pre.length + 1 + post.length := by
  simp; omega

theorem shape3_getD (pre post : List Nat) (n d : Nat) : (pre ++ [n] ++ post).getD pre.length d = n := by
  simp [List.getD_eq_getElem?_getD]

theorem shape3_take (pre post : List Nat) (n : Nat) : (pre ++ [n] ++ post).take pre.length = pre := by
  simp

theorem shape3_drop (pre post : List Nat) (n : Nat) : (pre ++ [n] ++ post).drop (pre.length + 1) = post := by
  rw [List.append_assoc, List.drop_append, List.drop_of_length_le (by omega)]
  simp

theorem shape3_set (pre post : List Nat) (n m : Nat) : (pre ++ [n] ++ post).set pre.length m = pre ++ [m] ++ post := by
  simp [List.append_assoc]

theorem shape3_erase (pre post : List Nat) (n : Nat) : (pre ++ [n] ++ post).eraseIdx pre.length = pre ++ post := by
  rw [List.append_assoc, List.eraseIdx_append_of_length_le (by omega)]
  simp

section Sum
variable {α : Type} [Add α] [Zero α] [Inhabited α]

omit [Inhabited α] in
theorem lenUniform_sum (n : Nat) : LenUniform (fun fibre : List α => [fibre.sum]) n 1 := fun _ _ => rfl

/-- **`t.sum(d)`**: shape, length, and entry `(o, i)` = the sum of the strided fibre `(o, i)` -/
theorem sumAxis_spec (t : Tensor α) (pre post : List Nat) (n : Nat) (d : Int)
    (hs : t.shape = pre ++ [n] ++ post) (hd : normAxis (pre.length + 1 + post.length) d = pre.length) :
    (sumAxis t d).shape = pre ++ post ∧
    (sumAxis t d).data.length = prod pre * prod post ∧
    ∀ o i, o < prod pre → i < prod post →
      (sumAxis t d).data.getD (o * prod post + i) default = (fibre t.data n (prod post) o i).sum := by
  have hax : normAxis t.shape.length d = pre.length := by rw [hs, shape3_length]; exact hd
  have hU : LenUniform (fun fibre : List α => [fibre.sum]) (t.shape.getD pre.length 1) 1 := lenUniform_sum _
  have hn : t.shape.getD pre.length 1 = n := by rw [hs, shape3_getD]
  have hQ : prod (t.shape.take pre.length) = prod pre := by rw [hs, shape3_take]
  have hP : prod (t.shape.drop (pre.length + 1)) = prod post := by rw [hs, shape3_drop]
  unfold sumAxis
  simp only [hax]
  refine ⟨?_, ?_, ?_⟩
  · rw [alongAxis_shape t _ _ 1 hU, hs, shape3_set, shape3_erase]
  · rw [alongAxis_data_length t _ _ 1 hU, hQ, hP, Nat.one_mul]
  · intro o i ho hi
    have := alongAxis_getD t pre.length (fun fibre : List α => [fibre.sum]) 1 hU o 0 i (by rw [hQ]; exact ho)
      (by omega) (by rw [hP]; exact hi)
    rw [hP, hn] at this
    simpa using this

end Sum

/-! ## the coil operators in index form -/

theorem prod3 (pre post : List Nat) (c : Nat) : prod (pre ++ [c] ++ post) = prod pre * (c * prod post) := by
  rw [prod_append, prod_append, prod_cons, prod_nil, Nat.mul_one, Nat.mul_assoc]

/-- the axis at which `unsqueeze(d)` inserts, for a tensor of rank `rank` (Python: `d + rank + 1` when negative) -/
def unsqAxis (rank : Nat) (d : Int) : Nat := (if d < 0 then d + (rank : Int) + 1 else d).toNat

theorem unsqAxis_nonneg (rank ax : Nat) : unsqAxis rank (ax : Int) = ax := by
  unfold unsqAxis; rw [if_neg (by omega)]; simp

theorem unsqAxis_neg (rank ax : Nat) (h : ax ≤ rank) : unsqAxis rank ((ax : Int) - (rank + 1)) = ax := by
  unfold unsqAxis; rw [if_pos (by omega)]; omega

theorem unsqueeze_spec {α} (x : Tensor α) (pre post : List Nat) (d : Int) (hx : x.shape = pre ++ post)
    (hd : unsqAxis (pre.length + post.length) d = pre.length) :
    unsqueeze x d = ⟨pre ++ [1] ++ post, x.data⟩ := by
  have hax : (if d < 0 then d + (x.shape.length : Int) + 1 else d).toNat = pre.length := by
    rw [hx, List.length_append]; exact hd
  unfold unsqueeze
  rw [hx] at hax
  simp only [hx, hax, List.take_left', List.drop_left']

section Ops
variable {R : Type} [Add R] [Sub R] [Mul R] [Neg R] [Zero R] [Inhabited R]

omit [Neg R] [Zero R] in
/-- **`expand_operator(x, S, d)`**, coil axis at position `pre.length` of `S` (any position; `d` in either
Python form): the result has the shape of `S`, and entry `[o, j, i]` is `cmul S[o, j, i] x[o, i]`. -/
theorem expandOp_spec (x S : Tensor (Cpx R)) (pre post : List Nat) (c : Nat) (d : Int)
    (hx : x.shape = pre ++ post) (hS : S.shape = pre ++ [c] ++ post)
    (hd : unsqAxis (pre.length + post.length) d = pre.length) :
    (expandOp x S d).shape = pre ++ [c] ++ post ∧
    (expandOp x S d).data.length = prod pre * (c * prod post) ∧
    ∀ o j i, o < prod pre → j < c → i < prod post →
      (expandOp x S d).data.getD (pos3 c (prod post) o j i) default =
        cmul (S.data.getD (pos3 c (prod post) o j i) default) (x.data.getD (o * prod post + i) default) := by
  have hb : BcTo S.shape (unsqueeze x d).shape := by
    rw [unsqueeze_spec x pre post d hx hd, hS]; exact forall₂_expand pre post c
  unfold expandOp cmulT
  refine ⟨?_, ?_, ?_⟩
  · rw [(zipBcast_shape cmul S _ hb).1, hS]
  · rw [(zipBcast_shape cmul S _ hb).2, hS, prod3]
  · intro o j i ho hj hi
    have hk : pos3 c (prod post) o j i < prod S.shape := by rw [hS, prod3]; exact pos3_lt _ _ _ _ _ _ ho hj hi
    rw [zipBcast_getD cmul S _ hb _ hk, unsqueeze_spec x pre post d hx hd, hS]
    show cmul _ (x.data.getD (bcastOffset (pre ++ [1] ++ post) _) default) = _
    rw [bcastOffset_expand pre post c o j i ho hj hi]

theorem getD_zipWith_map {α β γ δ : Type} (f : β → γ → δ) (g : α → β) (a : List α) (b : List γ) (k : Nat) (da : α) (db : γ) (dd : δ)
    (ha : k < a.length) (hb : k < b.length) :
    (List.zipWith f (a.map g) b).getD k dd = f (g (a.getD k da)) (b.getD k db) := by
  simp [List.getD_eq_getElem?_getD, List.getElem?_zipWith, List.getElem?_eq_getElem ha, List.getElem?_eq_getElem hb]

/-- **`reduce_operator(y, S, d)`**, coil axis at position `pre.length` (`d` in either Python form): the
result has the shape without the coil axis and entry `[o, i]` is `Σ_j cmul (conj S[o, j, i]) y[o, j, i]`. -/
theorem reduceOp_spec (y S : Tensor (Cpx R)) (pre post : List Nat) (c : Nat) (d : Int)
    (hy : y.shape = pre ++ [c] ++ post) (hS : S.shape = pre ++ [c] ++ post)
    (wy : y.data.length = prod y.shape) (wS : S.data.length = prod S.shape)
    (hd : normAxis (pre.length + 1 + post.length) d = pre.length) :
    (reduceOp y S d).shape = pre ++ post ∧
    (reduceOp y S d).data.length = prod pre * prod post ∧
    ∀ o i, o < prod pre → i < prod post →
      (reduceOp y S d).data.getD (o * prod post + i) default =
        ((List.range c).map fun j => cmul (conj (S.data.getD (pos3 c (prod post) o j i) default))
                                        (y.data.getD (pos3 c (prod post) o j i) default)).sum := by
  have hz : cmulT (conjT S) y = ⟨pre ++ [c] ++ post, List.zipWith cmul (S.data.map conj) y.data⟩ := by
    unfold cmulT conjT mapT
    rw [zipBcast_same cmul _ y (by rw [hS, hy]) (by simp [wS]) (by simp [wy, hy, hS])]
    simp [hS]
  unfold reduceOp
  rw [hz]
  obtain ⟨h1, h2, h3⟩ := sumAxis_spec (⟨pre ++ [c] ++ post, List.zipWith cmul (S.data.map conj) y.data⟩ : Tensor (Cpx R))
    pre post c d rfl hd
  refine ⟨h1, h2, ?_⟩
  intro o i ho hi
  rw [h3 o i ho hi]
  unfold fibre
  congr 1
  apply List.map_congr_left
  intro j hj
  have hj : j < c := List.mem_range.mp hj
  have hk := pos3_lt _ _ _ _ _ _ ho hj hi
  exact getD_zipWith_map cmul conj S.data y.data _ default default default
    (by rw [wS, hS, prod3]; exact hk) (by rw [wy, hy, prod3]; exact hk)

omit [Sub R] [Neg R] in
/-- **`root_sum_of_squares(S, d)²`** on complex data: entry `[o, i]` is `Σ_j modSq S[o, j, i]` -/
theorem rssSqT_spec (S : Tensor (Cpx R)) (pre post : List Nat) (c : Nat) (d : Int)
    (hS : S.shape = pre ++ [c] ++ post) (wS : S.data.length = prod S.shape)
    (hd : normAxis (pre.length + 1 + post.length) d = pre.length) :
    (rssSqT S d).shape = pre ++ post ∧
    (rssSqT S d).data.length = prod pre * prod post ∧
    ∀ o i, o < prod pre → i < prod post →
      (rssSqT S d).data.getD (o * prod post + i) default =
        ((List.range c).map fun j => modSq (S.data.getD (pos3 c (prod post) o j i) default)).sum := by
  unfold rssSqT modSqT mapT
  obtain ⟨h1, h2, h3⟩ := sumAxis_spec (⟨S.shape, S.data.map modSq⟩ : Tensor R) pre post c d hS hd
  refine ⟨h1, h2, ?_⟩
  intro o i ho hi
  rw [h3 o i ho hi]
  unfold fibre
  congr 1
  apply List.map_congr_left
  intro j hj
  have hj : j < c := List.mem_range.mp hj
  have hk : pos3 c (prod post) o j i < S.data.length := by
    rw [wS, hS, prod3]; exact pos3_lt _ _ _ _ _ _ ho hj hi
  show (S.data.map modSq).getD (pos3 c (prod post) o j i) default = _
  simp [List.getD_eq_getElem?_getD, List.getElem?_eq_getElem hk]

/-- `complex_dot_product(a, b, [d])` over a single axis is `reduce_operator(b, a, d)` -/
theorem normAxis_idem (r : Nat) (d : Int) : normAxis r (Int.ofNat (normAxis r d)) = normAxis r d := by
  unfold normAxis
  simp only [Int.ofNat_eq_natCast]
  split <;> split <;> omega

theorem cdotT_singleton (a b : Tensor (Cpx R)) (d : Int) : cdotT a b [d] = reduceOp b a d := by
  unfold cdotT reduceOp sumAxes
  simp only [List.map_cons, List.map_nil, sortDesc, List.filter_nil, List.nil_append, List.append_nil,
    List.foldl_cons, List.foldl_nil]
  unfold sumAxis
  rw [normAxis_idem]

end Ops

/-! ## `view_as_complex` / `view_as_real` are mutually inverse on `(…, 2)` tensors -/
section Views
variable {R : Type}

theorem pairs_unpairs (zs : List (Cpx R)) : pairs (unpairs zs) = zs := by
  induction zs with
  | nil => rfl
  | cons z zs ih =>
    show pairs (z.re :: z.im :: unpairs zs) = _
    rw [pairs, ih]

theorem unpairs_pairs (xs : List R) (n : Nat) (h : xs.length = 2 * n) : unpairs (pairs xs) = xs := by
  induction n generalizing xs with
  | zero =>
    have : xs = [] := List.length_eq_zero_iff.mp (by omega)
    subst this; rfl
  | succ n ih =>
    match xs, h with
    | a :: b :: rest, h =>
      have hr : rest.length = 2 * n := by simp at h; omega
      show a :: b :: unpairs (pairs rest) = _
      rw [ih rest hr]

/-- `view_as_complex(view_as_real(z)) = z` -/
theorem viewAsComplex_viewAsReal (t : Tensor (Cpx R)) : viewAsComplex (viewAsReal t) = some t := by
  unfold viewAsComplex viewAsReal
  simp [pairs_unpairs]

/-- `view_as_real(view_as_complex(t)) = t` for a well-formed tensor whose last axis has length 2 (and
`view_as_complex` is defined exactly then) -/
theorem viewAsReal_viewAsComplex (t : Tensor R) (z : Tensor (Cpx R)) (h : viewAsComplex t = some z)
    (w : t.data.length = prod t.shape) : viewAsReal z = t := by
  unfold viewAsComplex at h
  split at h
  · rename_i h2
    injection h with h; subst h
    have hs : t.shape = t.shape.dropLast ++ [2] := by
      obtain ⟨ys, hys⟩ := List.getLast?_eq_some_iff.mp h2
      rw [hys, List.dropLast_concat]
    have hl : t.data.length = 2 * prod t.shape.dropLast := by
      rw [w]; conv => lhs; rw [hs]
      rw [prod_append, prod_cons, prod_nil, Nat.mul_one, Nat.mul_comm]
    unfold viewAsReal
    simp only [unpairs_pairs t.data _ hl, ← hs]
  · simp at h

theorem viewAsComplex_isSome_iff (t : Tensor R) : (viewAsComplex t).isSome = true ↔ t.shape.getLast? = some 2 := by
  unfold viewAsComplex; split <;> simp_all

end Views

/-! ## `modulus` / `root_sum_of_squares` on the real layout `(…, 2)` are the complex-level `modSq` / `rssSqT` -/
section RealLayout
variable {R : Type} [Add R] [Mul R] [Zero R] [Inhabited R]

omit [Add R] [Mul R] [Zero R] [Inhabited R] in
theorem pairs_length (D : List R) (n : Nat) (h : D.length = 2 * n) : (pairs D).length = n := by
  induction n generalizing D with
  | zero =>
    have : D = [] := List.length_eq_zero_iff.mp (by omega)
    subst this; rfl
  | succ n ih =>
    match D, h with
    | a :: b :: rest, h =>
      have hr : rest.length = 2 * n := by simp at h; omega
      show (pairs rest).length + 1 = n + 1
      rw [ih rest hr]

omit [Add R] [Mul R] [Zero R] in
theorem pairs_getD (D : List R) (o : Nat) (h : 2 * o + 1 < D.length) :
    (pairs D).getD o default = ⟨D.getD (2 * o) default, D.getD (2 * o + 1) default⟩ := by
  induction o generalizing D with
  | zero =>
    match D, h with
    | a :: b :: rest, _ => rfl
  | succ o ih =>
    match D, h with
    | a :: b :: rest, h =>
      have hr : 2 * o + 1 < rest.length := by simp at h; omega
      show (pairs rest).getD o default = _
      rw [ih rest hr]
      have e1 : 2 * (o + 1) = (2 * o) + 1 + 1 := by omega
      rw [e1]
      simp

/-- `(data ** 2).sum(-1)` on a well-formed `(…, 2)` tensor is `modSq` of the complex entries
(`add_zero`: the only law of the scalars that is used — `List.sum` ends in `+ 0`) -/
theorem modSqAxis_last (t : Tensor R) (z : Tensor (Cpx R)) (h : viewAsComplex t = some z)
    (w : t.data.length = prod t.shape) (add_zero : ∀ b : R, b + 0 = b) :
    modSqAxis t (-1) = modSqT z := by
  unfold viewAsComplex at h
  split at h
  · rename_i h2
    injection h with h; subst h
    obtain ⟨ys, hys⟩ := List.getLast?_eq_some_iff.mp h2
    have hl : t.data.length = 2 * prod ys := by
      rw [w, hys, prod_append, prod_cons, prod_nil, Nat.mul_one, Nat.mul_comm]
    have hsh : (mapT (fun x => x * x) t).shape = ys ++ [2] ++ [] := by simp [mapT, hys]
    have hd : normAxis (ys.length + 1 + ([] : List Nat).length) (-1) = ys.length := by
      unfold normAxis; simp; omega
    obtain ⟨h1, h2', h3⟩ := sumAxis_spec (mapT (fun x => x * x) t) ys [] 2 (-1) hsh hd
    unfold modSqAxis modSqT mapT at *
    have hshape : (sumAxis ⟨t.shape, t.data.map fun x => x * x⟩ (-1)).shape = t.shape.dropLast := by
      rw [h1, hys, List.dropLast_concat, List.append_nil]
    have hdata : (sumAxis ⟨t.shape, t.data.map fun x => x * x⟩ (-1)).data = (pairs t.data).map modSq := by
      apply ext_getD _ _ default
      · rw [h2', prod_nil, Nat.mul_one, List.length_map, pairs_length _ _ hl]
      · intro o ho
        rw [h2', prod_nil, Nat.mul_one] at ho
        have := h3 o 0 ho (by simp [prod_nil])
        rw [prod_nil, Nat.mul_one, Nat.add_zero] at this
        rw [this]
        have hb : 2 * o + 1 < t.data.length := by omega
        have hb0 : 2 * o < t.data.length := by omega
        have hp : o < (pairs t.data).length := by rw [pairs_length _ _ hl]; exact ho
        simp only [fibre, List.getD_eq_getElem?_getD, List.getElem?_map, List.getElem?_eq_getElem hp, Option.map_some,
          Option.getD_some]
        have hpg := pairs_getD t.data o hb
        rw [List.getD_eq_getElem?_getD, List.getElem?_eq_getElem hp, Option.getD_some] at hpg
        rw [hpg]
        simp [List.range_succ, modSq, List.getElem?_eq_getElem hb, List.getElem?_eq_getElem hb0, Nat.mul_comm o 2, add_zero]
    show sumAxis ⟨t.shape, t.data.map fun x => x * x⟩ (-1) = ⟨t.shape.dropLast, (pairs t.data).map modSq⟩
    rw [← hshape, ← hdata]
  · simp at h

/-- `root_sum_of_squares(data, dim)²` on the real layout (what the driver's `rss` op runs) is the complex-level `rssSqT` -/
theorem rssSqReal_eq_rssSqT (t : Tensor R) (z : Tensor (Cpx R)) (h : viewAsComplex t = some z)
    (w : t.data.length = prod t.shape) (add_zero : ∀ b : R, b + 0 = b) (dim : Int) :
    rssSqReal t dim (-1) = rssSqT z dim := by
  have hl : t.shape.getLast? = some 2 := (viewAsComplex_isSome_iff t).mp (by rw [h]; rfl)
  have := modSqAxis_last t z h w add_zero
  unfold rssSqReal rssSqT
  rw [if_pos hl]
  unfold modSqAxis at this
  rw [this]

end RealLayout

end DirectVerif.C02T
