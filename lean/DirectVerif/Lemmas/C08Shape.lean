import DirectVerif.Lemmas.C08Static
/-!
# C08 helper lemmas — mask seeds

* `seedsOk_build`: for every configuration with seeding enabled, every sampling-mask / ACS-mask
  generation in the composed program is seeded by the file name only.
-/
namespace DirectVerif.Pipeline

/-! ## seeds -/

theorem seedsOk_append (p q : List Instr) : seedsOk (p ++ q) = (seedsOk p && seedsOk q) := by
  induction p using seedsOk.induct with
  | case1 => simp [seedsOk]
  | case2 g dst src fields fc args r ih => simp [seedsOk, ih, Bool.and_assoc]
  | case3 g dst src fc args r ih => simp [seedsOk, ih, Bool.and_assoc]
  | case4 i r h1 h2 ih =>
    have : ∀ l, seedsOk (i :: l) = seedsOk l := by
      intro l
      cases i with
      | assign g dst op args =>
        cases op <;> first | rfl | skip
        rename_i src seed fc
        cases seed
        · exact absurd rfl (h2 g dst src fc args)
        · rename_i f; exact absurd rfl (h1 g dst src f fc args)
      | _ => rfl
    simp [this, ih]

/-- **with seeding enabled every sampling / ACS mask is generated from a seed that mentions the file
name only** (never `slice_no`), for every configuration -/
theorem seedsOk_build (c : Config) (hu : c.useSeed = true) : seedsOk (program (build c)) = true := by
  obtain ⟨crop, center, rescale, pad, rot, flip, rev, pe, mf, cc, pc, bc, es, st, sg, da, dk, recon, sk, pct,
    us, ssl, split, ka⟩ := c
  simp only at hu; subst hu
  simp only [build, buildSupervised, program_append, seedsOk_append, Bool.and_eq_true]
  refine ⟨⟨⟨⟨⟨⟨⟨⟨⟨⟨⟨⟨⟨⟨⟨⟨⟨⟨⟨?_, ?_⟩, ?_⟩, ?_⟩, ?_⟩, ?_⟩, ?_⟩, ?_⟩, ?_⟩, ?_⟩, ?_⟩, ?_⟩, ?_⟩, ?_⟩, ?_⟩, ?_⟩, ?_⟩, ?_⟩, ?_⟩, ?_⟩
  · rfl
  · cases crop <;> cases center <;> rfl
  · cases rescale <;> rfl
  · cases pad <;> rfl
  · cases rot <;> rfl
  · cases flip <;> rfl
  · cases rev <;> rfl
  · cases pe <;> rfl
  · cases mf <;> cases crop <;> cases es <;> rfl
  · cases cc <;> rfl
  · cases pc <;> rfl
  · cases bc <;> cases mf <;> rfl
  · cases es <;> cases st <;> cases sg <;> rfl
  · cases ssl <;> cases da <;> rfl
  · rfl
  · cases sk <;> cases pct <;> rfl
  · cases recon <;> rfl
  · cases ssl <;> cases dk <;> rfl
  · rfl
  · cases ssl <;> cases split <;> cases ka <;> cases recon <;> rfl

end DirectVerif.Pipeline
